import Py4hwV.Proofs.C08Lemmas
/-
  C08 — the `_spec` theorems (model = specification) for every block of py4hw/logic/bitwise.py and relational.py in the
  property's list, with their helper lemmas, in dependency order.  Index and non-vacuity instances: Props/C08.lean.
-/
namespace C08
open Lib Leaf Lib.LSpec

theorem testBit_false_of_lt {a w i : Nat} (h : a < 2 ^ w) (hi : w ≤ i) : a.testBit i = false := by
  apply Nat.testBit_lt_two_pow
  exact Nat.lt_of_lt_of_le h (Nat.pow_le_pow_right (by decide) hi)

theorem testBit_nand2 (aw rw a b i : Nat) :
    (Lib.nand2 aw rw a b).testBit i = (decide (i < rw) && !(decide (i < aw) && (a.testBit i && b.testBit i))) := by
  simp [Lib.nand2, testBit_not1, testBit_and2]

theorem nand2_spec (aw rw a b : Nat) (h : rw ≤ aw ∨ a < 2 ^ aw) : Lib.nand2 aw rw a b = LSpec.nandN rw [a, b] := by
  apply eq_ofBitFn
  intro i
  rw [testBit_nand2]
  by_cases h1 : i < rw
  · by_cases h2 : i < aw
    · simp [h1, h2]
    · rcases h with h | h
      · omega
      · simp [h1, h2, testBit_false_of_lt h (by omega : aw ≤ i)]
  · simp [h1]

/-- Nor2(a, b, r): EVERY combination of widths, every input.  Before /repo commit aa5aa9b (`Mid` sized by `a`) the statement
    needed `rw ≤ aw ∨ (a < 2 ^ aw ∧ b < 2 ^ aw)` and the negative fact was
      theorem nor2_wide_counterexample : Lib.nor2 2 4 0 12 = 15 ∧ LSpec.norN 4 [0, 12] = 3
    it no longer holds, see `nor2_wide_fixed`. -/
theorem nor2_spec (aw rw a b : Nat) : Lib.nor2 aw rw a b = LSpec.norN rw [a, b] := by
  apply eq_ofBitFn
  intro i
  simp only [Lib.nor2, testBit_not1, testBit_or2]
  by_cases h1 : i < rw <;> simp [h1]

theorem testBit_xor2 (aw bw rw a b i : Nat) (ha : rw ≤ aw ∨ a < 2 ^ aw) (hb : b < 2 ^ bw) :
    (Lib.xor2 aw bw rw a b).testBit i = (decide (i < rw) && (a.testBit i ^^ b.testBit i)) := by
  simp only [Lib.xor2, testBit_nand2]
  by_cases h1 : i < rw
  · have ea : ∀ t : Bool, (decide (i < aw) && (a.testBit i && t)) = (a.testBit i && t) := by
      intro t
      by_cases h2 : i < aw
      · simp [h2]
      · rcases ha with ha | ha
        · omega
        · simp [h2, testBit_false_of_lt ha (by omega : aw ≤ i)]
    have eb : ∀ t : Bool, (decide (i < bw) && (b.testBit i && t)) = (b.testBit i && t) := by
      intro t
      by_cases h3 : i < bw
      · simp [h3]
      · simp [h3, testBit_false_of_lt hb (by omega : bw ≤ i)]
    simp only [ea, eb, h1, decide_true, Bool.true_and]
    cases a.testBit i <;> cases b.testBit i <;> rfl
  · simp [h1]

/-- Xor2 (four NANDs): EVERY combination of operand and result widths (operands inside their wires, C06).
    Before /repo commit 4cfd4ac the internal wires had the width of `a` and the statement needed `rw ≤ aw`; the former
    negative fact was
      theorem xor2_wide_counterexample : Lib.xor2 2 2 4 1 3 = 14 ∧ LSpec.xorN 4 [1, 3] = 2
    (upper result bits read 1 when `r` is wider than `a`); it no longer holds, see `xor2_wide_fixed`. -/
theorem xor2_spec (aw bw rw a b : Nat) (ha : a < 2 ^ aw) (hb : b < 2 ^ bw) : Lib.xor2 aw bw rw a b = LSpec.xorN rw [a, b] := by
  apply eq_ofBitFn
  intro i
  rw [testBit_xor2 aw bw rw a b i (Or.inr ha) hb]
  simp

/-- the result is `(a ^ b) mod 2^rw` -/
theorem xor2_val (aw bw rw a b : Nat) (ha : a < 2 ^ aw) (hb : b < 2 ^ bw) : Lib.xor2 aw bw rw a b = (a ^^^ b) % 2 ^ rw := by
  apply Nat.eq_of_testBit_eq
  intro i
  rw [testBit_xor2 aw bw rw a b i (Or.inr ha) hb]
  simp

/-- the witnesses of the repaired defect C08-xor2-wide (result wire wider than operand `a`) now give `a ^ b` -/
theorem xor2_wide_fixed : Lib.xor2 8 10 9 122 1 = 123 ∧ Lib.xor2 2 2 4 1 3 = 2 ∧ LSpec.xorN 4 [1, 3] = 2 := by decide

theorem testBit_xor_ladder (rw i : Nat) (rest : List (Nat × Nat)) (acc : Nat) (x : Nat × Nat)
    (h : ∀ y ∈ x :: rest, y.2 < 2 ^ y.1) :
    ((x :: rest).foldl (fun (auxin : Nat × Nat) y => (rw, Lib.xor2 auxin.1 y.1 rw auxin.2 y.2)) (rw, acc)).2.testBit i
      = (decide (i < rw) && (x :: rest).foldl (fun p y => p ^^ y.2.testBit i) (acc.testBit i)) := by
  induction rest generalizing acc x with
  | nil =>
    simp only [List.foldl_cons, List.foldl_nil]
    exact testBit_xor2 rw x.1 rw acc x.2 i (Or.inl (Nat.le_refl _)) (h x (by simp))
  | cons y rest ih =>
    rw [List.foldl_cons, ih _ _ (fun z hz => h z (by simp at hz ⊢; right; exact hz))]
    rw [testBit_xor2 rw x.1 rw acc x.2 i (Or.inl (Nat.le_refl _)) (h x (by simp))]
    by_cases h1 : i < rw
    · simp [h1]
    · simp [h1]

/-- Xor(ins, r), every arity ≥ 2, every combination of input and result widths: parity per bit position (every input
    value fits its own wire, C06). -/
theorem xorN_spec (rw : Nat) (ins : List (Nat × Nat)) (hlen : 2 ≤ ins.length)
    (h : ∀ y ∈ ins, y.2 < 2 ^ y.1) : Lib.xorN rw ins = LSpec.xorN rw (ins.map (·.2)) := by
  apply eq_ofBitFn
  intro i
  match ins, hlen with
  | [a, b], _ =>
    simp only [Lib.xorN]
    rw [testBit_xor2 _ _ _ _ _ _ (Or.inr (h a (by simp))) (h b (by simp))]
    simp
  | a :: b :: c :: rest, _ =>
    simp only [Lib.xorN]
    rw [List.foldl_cons, testBit_xor_ladder rw i rest _ c (fun z hz => h z (by simp at hz ⊢; right; right; exact hz))]
    rw [testBit_xor2 _ _ _ _ _ _ (Or.inr (h a (by simp))) (h b (by simp))]
    by_cases h1 : i < rw
    · simp only [h1, decide_true, Bool.true_and, List.map_cons, List.foldl_cons, Bool.false_xor, List.foldl_map]
    · simp [h1]

/-- Nor(ins, r): every arity ≥ 1, EVERY combination of input and result widths.
    Before /repo commit 99fa1f2 `Mid` had the width `w0` of the first input and the statement needed
    `rw ≤ w0 ∨ ∀ x ∈ ins, x < 2 ^ w0`; outside it (former witness: inputs of 6,7,8,4 bits = 41,54,127,1, `r` 8 bits) the result
    was 192 instead of 128, see `norN_wide_fixed`. -/
theorem norN_spec (rw : Nat) (ins : List Nat) (hne : ins ≠ []) : Lib.norN rw ins = LSpec.norN rw ins := by
  apply eq_ofBitFn
  intro i
  simp only [Lib.norN, testBit_not1, testBit_orN rw i ins hne]
  by_cases h1 : i < rw <;> simp [h1]

/-- the former witness of the repaired defect C08-nor-wide now gives `~(a0|a1|a2|a3) mod 2^8` -/
theorem norN_wide_fixed : Lib.norN 8 [41, 54, 127, 1] = 128 ∧ LSpec.norN 8 [41, 54, 127, 1] = 128 := by decide

/-- the former witness of the repaired defect C08-nor2-wide (a: 2 bits, b and r: 4 bits) now gives `~(0|12) mod 16` -/
theorem nor2_wide_fixed : Lib.nor2 2 4 0 12 = 3 ∧ LSpec.norN 4 [0, 12] = 3 := by decide


theorem b2n_eq_toNat (t : Bool) : b2n t = t.toNat := by cases t <;> rfl
theorem b2n_lt (t : Bool) : b2n t < 2 := by cases t <;> decide
theorem testBit_b2n (t : Bool) (i : Nat) : (b2n t).testBit i = (decide (i = 0) && t) := by
  rw [b2n_eq_toNat, Nat.testBit_bool_toNat]
theorem eq_b2n (x : Nat) (t : Bool) (h : ∀ i, x.testBit i = (decide (i = 0) && t)) : x = b2n t := by
  apply Nat.eq_of_testBit_eq
  intro i
  rw [h, testBit_b2n]
theorem shr_mod_two (a i : Nat) : (a >>> i) % 2 = b2n (a.testBit i) := by
  rw [b2n_eq_toNat, Nat.toNat_testBit, Nat.shiftRight_eq_div_pow]

/-- Bit(a, k, r) on an output of at least one bit -/
theorem bit_spec (rw a k : Nat) (h : 1 ≤ rw) : Leaf.bit rw a k = LSpec.bit a k := by
  unfold Leaf.bit LSpec.bit
  rw [shr_mod_two]
  apply Nat.mod_eq_of_lt
  have := b2n_lt (a.testBit k)
  have : 2 ^ 1 ≤ 2 ^ rw := Nat.pow_le_pow_right (by decide) h
  omega

/-- Range(a, high, low, r): bit `i` of `r` is bit `low+i` of `a` for `i ≤ high-low` (and inside `r`) -/
theorem range_spec (rw a hi lo : Nat) : Leaf.range rw a hi lo = LSpec.range rw a hi lo := by
  apply eq_ofBitFn
  intro i
  simp only [Leaf.range, Nat.testBit_mod_two_pow, Nat.testBit_shiftRight]
  by_cases h : i < hi - lo + 1
  · have : i ≤ hi - lo := by omega
    simp [h, this]
  · have : ¬ i ≤ hi - lo := by omega
    simp [h, this]

theorem repeat_spec (rw x : Nat) (h : x < 2) : Leaf.repeat1 rw x = LSpec.repeat1 rw x := by
  apply eq_ofBitFn
  intro i
  rw [testBit_repeat1]
  have : (x ≠ 0) = (x = 1) := by apply propext; omega
  simp [this]

theorem mux2_spec (rw sel s0 s1 : Nat) : Leaf.mux2 rw sel s0 s1 = LSpec.mux2 rw sel s0 s1 := by
  unfold Leaf.mux2 LSpec.mux2
  split <;> rfl

theorem not_spec (rw a : Nat) : Leaf.not1 rw a = LSpec.not1 rw a :=
  eq_ofBitFn _ _ _ (fun i => testBit_not1 rw a i)
theorem buf_spec (rw a : Nat) : Leaf.buf rw a = LSpec.buf rw a :=
  eq_ofBitFn _ _ _ (fun i => testBit_buf rw a i)
theorem and2_spec (rw a b : Nat) : Leaf.and2 rw a b = LSpec.andN rw [a, b] :=
  eq_ofBitFn _ _ _ (fun i => by simp [testBit_and2])
theorem or2_spec (rw a b : Nat) : Leaf.or2 rw a b = LSpec.orN rw [a, b] :=
  eq_ofBitFn _ _ _ (fun i => by simp [testBit_or2])

/-- BufEnable(a, en, r) -/
theorem bufEnable_spec (rw a en : Nat) (h : en < 2) : Lib.bufEnable rw a en = LSpec.bufEnable rw a en := by
  unfold Lib.bufEnable LSpec.bufEnable Leaf.and2 Leaf.repeat1
  have : en = 0 ∨ en = 1 := by omega
  rcases this with h | h <;> subst h <;> simp

theorem bitsLSBF_spec (aw a : Nat) : Lib.bitsLSBF aw a = LSpec.bitsLSBF aw a := by
  unfold Lib.bitsLSBF LSpec.bitsLSBF Leaf.bits
  apply List.map_congr_left
  intro i _
  exact shr_mod_two a i

theorem bitsMSBF_spec (aw a : Nat) : Lib.bitsMSBF aw a = LSpec.bitsMSBF aw a := by
  unfold Lib.bitsMSBF LSpec.bitsMSBF Leaf.bits
  apply List.ext_getElem
  · simp
  · intro n h1 h2
    simp only [List.length_reverse, List.length_map, List.length_range] at h1
    simp only [List.getElem_reverse, List.getElem_map, List.getElem_range, List.length_map, List.length_range]
    exact shr_mod_two a _

theorem mem_bits_lt (aw a x : Nat) (h : x ∈ Lib.bitsLSBF aw a) : x < 2 := by
  simp only [Lib.bitsLSBF, Leaf.bits, List.mem_map] at h
  obtain ⟨i, _, rfl⟩ := h
  exact Nat.mod_lt _ (by decide)

theorem all_bits_testBit (aw a i : Nat) :
    (Lib.bitsLSBF aw a).all (·.testBit i) = (decide (i = 0) && (List.range aw).all (fun j => a.testBit j) || decide (aw = 0)) := by
  simp only [Lib.bitsLSBF, Leaf.bits, List.all_map]
  by_cases h0 : aw = 0
  · subst h0; simp
  · simp only [h0, decide_false, Bool.or_false]
    by_cases hi : i = 0
    · subst hi
      simp only [decide_true, Bool.true_and]
      congr 1
      funext j
      simp only [Function.comp, shr_mod_two]
      rw [testBit_b2n]; simp
    · simp only [hi, decide_false, Bool.false_and]
      rw [List.all_eq_false]
      refine ⟨0, by simp; omega, ?_⟩
      simp [shr_mod_two, testBit_b2n, hi]

theorem any_bits_testBit (aw a i : Nat) :
    (Lib.bitsLSBF aw a).any (·.testBit i) = (decide (i = 0) && (List.range aw).any (fun j => a.testBit j)) := by
  simp only [Lib.bitsLSBF, Leaf.bits, List.any_map]
  by_cases hi : i = 0
  · subst hi
    simp only [decide_true, Bool.true_and]
    congr 1
    funext j
    simp only [Function.comp, shr_mod_two]
    rw [testBit_b2n]; simp
  · simp only [hi, decide_false, Bool.false_and]
    rw [List.any_eq_false]
    intro j _
    simp [shr_mod_two, testBit_b2n, hi]

theorem allOnes_iff (aw a : Nat) (h : a < 2 ^ aw) : (List.range aw).all (fun j => a.testBit j) = decide (a = 2 ^ aw - 1) := by
  by_cases he : a = 2 ^ aw - 1
  · subst he
    simp
  · simp only [he, decide_false]
    rw [List.all_eq_false]
    apply Classical.byContradiction
    intro hn
    apply he
    apply Nat.eq_of_testBit_eq
    intro i
    rw [Nat.testBit_two_pow_sub_one]
    by_cases hi : i < aw
    · simp only [hi, decide_true]
      apply Classical.byContradiction
      intro hf
      exact hn ⟨i, by simpa using hi, hf⟩
    · simp only [hi, decide_false]
      exact testBit_false_of_lt' h (by omega)

theorem anyOne_iff (aw a : Nat) (h : a < 2 ^ aw) : (List.range aw).any (fun j => a.testBit j) = decide (a ≠ 0) := by
  by_cases he : a = 0
  · subst he; simp
  · simp only [he, ne_eq, not_false_eq_true, decide_true]
    rw [List.any_eq_true]
    obtain ⟨i, hi⟩ := Nat.exists_testBit_of_ne_zero he
    refine ⟨i, ?_, hi⟩
    simp only [List.mem_range]
    apply Classical.byContradiction
    intro hn
    have := testBit_false_of_lt' h (by omega : aw ≤ i)
    rw [this] at hi
    exact Bool.false_ne_true hi

/-- AndBits(a, r): 1 exactly when every bit of `a` is 1 -/
theorem andBits_spec (aw rw a : Nat) (haw : 1 ≤ aw) (hrw : 1 ≤ rw) (h : a < 2 ^ aw) :
    Lib.andBits aw rw a = LSpec.andBits aw a := by
  unfold Lib.andBits LSpec.andBits
  apply eq_b2n
  intro i
  have hne : Lib.bitsLSBF aw a ≠ [] := by
    simp [Lib.bitsLSBF, Leaf.bits]; omega
  rw [testBit_andN rw i _ hne, all_bits_testBit, allOnes_iff aw a h]
  have : ¬ aw = 0 := by omega
  by_cases hi : i = 0
  · subst hi
    have : 0 < rw := by omega
    simp [*]
  · simp [hi, this]

/-- OrBits(a, r): 1 exactly when some bit of `a` is 1 -/
theorem orBits_spec (aw rw a : Nat) (haw : 1 ≤ aw) (hrw : 1 ≤ rw) (h : a < 2 ^ aw) :
    Lib.orBits aw rw a = LSpec.orBits a := by
  unfold Lib.orBits LSpec.orBits
  apply eq_b2n
  intro i
  have hne : Lib.bitsLSBF aw a ≠ [] := by
    simp [Lib.bitsLSBF, Leaf.bits]; omega
  rw [testBit_orN rw i _ hne, any_bits_testBit, anyOne_iff aw a h]
  by_cases hi : i = 0
  · subst hi
    have : 0 < rw := by omega
    simp [*]
  · simp [hi]


theorem testBit_of_lt_two (x i : Nat) (h : x < 2) : x.testBit i = (decide (i = 0) && decide (x = 1)) := by
  have : x = 0 ∨ x = 1 := by omega
  rcases this with h | h <;> subst h
  · simp
  · cases i <;> simp [Nat.testBit_succ]

/-- an And ladder over 0/1 wires -/
theorem andN_bool (rw : Nat) (L : List Nat) (hrw : 1 ≤ rw) (hne : L ≠ []) (hL : ∀ x ∈ L, x < 2) :
    Lib.andN rw L = b2n (L.all (fun x => decide (x = 1))) := by
  apply eq_b2n
  intro i
  rw [testBit_andN rw i L hne]
  by_cases hi : i = 0
  · subst hi
    have : 0 < rw := by omega
    simp only [this, decide_true, Bool.true_and]
    rw [Bool.eq_iff_iff]
    simp only [List.all_eq_true]
    constructor <;> intro hh x hx <;> have h1 := hh x hx <;> rw [testBit_of_lt_two x 0 (hL x hx)] at * <;> simpa using h1
  · simp only [hi, decide_false, Bool.false_and, Bool.and_eq_false_iff, decide_eq_false_iff_not]
    right
    rw [List.all_eq_false]
    obtain ⟨x, hx⟩ := List.exists_mem_of_ne_nil L hne
    exact ⟨x, hx, by rw [testBit_of_lt_two x i (hL x hx)]; simp [hi]⟩

/-- an Or ladder over 0/1 wires -/
theorem orN_bool (rw : Nat) (L : List Nat) (hrw : 1 ≤ rw) (hne : L ≠ []) (hL : ∀ x ∈ L, x < 2) :
    Lib.orN rw L = b2n (L.any (fun x => decide (x = 1))) := by
  apply eq_b2n
  intro i
  rw [testBit_orN rw i L hne]
  by_cases hi : i = 0
  · subst hi
    have : 0 < rw := by omega
    simp only [this, decide_true, Bool.true_and]
    rw [Bool.eq_iff_iff]
    simp only [List.any_eq_true]
    constructor <;> rintro ⟨x, hx, h1⟩ <;> refine ⟨x, hx, ?_⟩ <;> rw [testBit_of_lt_two x 0 (hL x hx)] at * <;> simpa using h1
  · simp only [hi, decide_false, Bool.false_and, Bool.and_eq_false_iff, decide_eq_false_iff_not]
    right
    rw [List.any_eq_false]
    intro x hx
    rw [testBit_of_lt_two x i (hL x hx)]; simp [hi]

theorem land_one_int (x : Int) : Py.land x 1 = x % 2 := by
  have := Bits.land_mask x 1
  simpa [Py.shl] using this

/-- the Python `(value >> i) & 1` is bit `i` of the two's complement reading, 0 or 1 -/
theorem cbit_eq (v : Int) (i : Nat) : Lib.cbit v i = b2n (cbitI v i) := by
  unfold Lib.cbit cbitI Py.shr
  rw [land_one_int, Int.shiftRight_eq_div_pow]
  have h := Int.emod_two_eq (v / (2:Int) ^ i)
  rcases h with h | h <;> simp [h, b2n]

/-- bit `i < w` of an arbitrary Python int = bit `i` of its `w`-bit wrap-around -/
theorem cbitI_put (w : Nat) (v : Int) (i : Nat) (hi : i < w) : cbitI v i = (Bits.put w v).testBit i := by
  unfold cbitI
  rw [Nat.testBit_eq_decide_div_mod_eq]
  have hc := Bits.put_cast w v
  have e1 : (v / (2:Int) ^ i) % 2 = ((v % (2:Int) ^ w) / (2:Int) ^ i) % 2 := by
    have hw : (2:Int) ^ w = (2:Int) ^ i * ((2:Int) ^ (w - i - 1) * 2) := by
      rw [← Int.pow_succ, ← Int.pow_add]; congr 1; omega
    have hv : v = v % (2:Int) ^ w + (2:Int) ^ i * (((2:Int) ^ (w - i - 1) * 2) * (v / (2:Int) ^ w)) := by
      have := (Int.emod_add_mul_ediv v ((2:Int) ^ w)).symm
      rw [hw] at this ⊢
      rw [Int.mul_assoc] at this
      exact this
    have hne : (2:Int) ^ i ≠ 0 := Int.ne_of_gt (Bits.two_pow_pos_int i)
    conv => lhs; rw [hv]
    rw [Int.add_mul_ediv_left _ _ hne, Int.mul_assoc, Int.mul_comm ((2:Int) ^ (w - i - 1)), Int.mul_assoc]
    rw [Int.add_mul_emod_self_left]
  rw [e1, ← hc]
  have e2 : (((Bits.put w v : Nat) : Int) / (2:Int) ^ i) % 2 = (((Bits.put w v / 2 ^ i % 2 : Nat)) : Int) := by
    simp
  rw [e2]
  have : ((((Bits.put w v / 2 ^ i % 2 : Nat)) : Int) = 1) = (Bits.put w v / 2 ^ i % 2 = 1) := by
    apply propext; omega
  simp only [this]

theorem not1_one (b : Nat) (h : b < 2) : Leaf.not1 1 b = b2n (decide (b = 0)) := by
  have : b = 0 ∨ b = 1 := by omega
  rcases this with h | h <;> subst h <;> decide

theorem mintermParts_lt (v : Int) (k : Nat) (bits : List Nat) (h : ∀ x ∈ bits, x < 2) :
    ∀ x ∈ Lib.mintermParts v k bits, x < 2 := by
  induction bits generalizing k with
  | nil => simp [Lib.mintermParts]
  | cons b bs ih =>
    intro x hx
    simp only [Lib.mintermParts, List.mem_cons] at hx
    rcases hx with hx | hx
    · subst hx
      split
      · rw [not1_one b (h b (by simp))]; exact b2n_lt _
      · exact h b (by simp)
    · exact ih (k + 1) (fun y hy => h y (by simp [hy])) x hx

theorem mintermParts_ne (v : Int) (k : Nat) (bits : List Nat) (h : bits ≠ []) : Lib.mintermParts v k bits ≠ [] := by
  cases bits with
  | nil => exact absurd rfl h
  | cons b bs => simp [Lib.mintermParts]

theorem mintermParts_all (v : Int) (k : Nat) (bits : List Nat) (h : ∀ x ∈ bits, x < 2) :
    (Lib.mintermParts v k bits).all (fun x => decide (x = 1))
      = decide (∀ i, i < bits.length → (bits.getD i 0 = 1) = (cbitI v (k + i) = true)) := by
  induction bits generalizing k with
  | nil => simp [Lib.mintermParts]
  | cons b bs ih =>
    simp only [Lib.mintermParts, List.all_cons, ih (k + 1) (fun y hy => h y (by simp [hy]))]
    have hb : b < 2 := h b (by simp)
    have hhead : (decide ((if Lib.cbit v k = 0 then Leaf.not1 1 b else b) = 1)) = decide ((b = 1) = (cbitI v k = true)) := by
      rw [cbit_eq]
      have : b = 0 ∨ b = 1 := by omega
      cases hc : cbitI v k <;> rcases this with hb' | hb' <;> subst hb' <;> simp [b2n] <;> decide
    rw [hhead]
    rw [Bool.eq_iff_iff]
    simp only [Bool.and_eq_true, decide_eq_true_eq, List.length_cons]
    constructor
    · rintro ⟨h0, hs⟩ i hi
      cases i with
      | zero => simpa using h0
      | succ j =>
        have := hs j (by omega)
        simpa [Nat.add_assoc, Nat.add_comm 1 j] using this
    · intro hall
      refine ⟨by simpa using hall 0 (by omega), ?_⟩
      intro j hj
      have := hall (j + 1) (by omega)
      simpa [Nat.add_assoc, Nat.add_comm 1 j] using this

/-- Minterm(bits, value, r): active exactly when every input bit equals the corresponding bit of `value`
    (for EVERY Python int `value`, every number of bits ≥ 1) -/
theorem minterm_spec (rw : Nat) (bits : List Nat) (v : Int) (hrw : 1 ≤ rw) (hne : bits ≠ []) (h : ∀ x ∈ bits, x < 2) :
    Lib.minterm rw bits v = LSpec.minterm bits v := by
  unfold Lib.minterm LSpec.minterm
  rw [andN_bool rw _ hrw (mintermParts_ne v 0 bits hne) (mintermParts_lt v 0 bits h), mintermParts_all v 0 bits h]
  simp



theorem eq_iff_testBit_lt (a b w : Nat) (ha : a < 2 ^ w) (hb : b < 2 ^ w) :
    a = b ↔ ∀ i, i < w → a.testBit i = b.testBit i := by
  constructor
  · intro h i _; rw [h]
  · intro h
    apply Nat.eq_of_testBit_eq
    intro i
    by_cases hi : i < w
    · exact h i hi
    · rw [testBit_false_of_lt' ha (by omega), testBit_false_of_lt' hb (by omega)]

theorem bits_getD (aw a i : Nat) (hi : i < aw) : (Lib.bitsLSBF aw a).getD i 0 = b2n (a.testBit i) := by
  simp [Lib.bitsLSBF, Leaf.bits, List.getD, hi, shr_mod_two]

theorem bits_length (aw a : Nat) : (Lib.bitsLSBF aw a).length = aw := by
  simp [Lib.bitsLSBF, Leaf.bits]

theorem b2n_eq_one (t : Bool) : (b2n t = 1) = (t = true) := by cases t <;> simp [b2n]

/-- BitsLSBF + Minterm (the body of EqualConstant for widths ≥ 2, and every term of SumOfMinterms): compares `a` with
    the `aw`-bit wrap-around of the constant -/
theorem minterm_bits (aw a : Nat) (v : Int) (haw : 1 ≤ aw) (ha : a < 2 ^ aw) :
    Lib.minterm 1 (Lib.bitsLSBF aw a) v = b2n (decide (a = Bits.put aw v)) := by
  have hne : Lib.bitsLSBF aw a ≠ [] := by
    intro h; have := bits_length aw a; rw [h] at this; simp at this; omega
  rw [minterm_spec 1 _ v (Nat.le_refl _) hne (mem_bits_lt aw a)]
  unfold LSpec.minterm
  congr 1
  rw [Bool.eq_iff_iff]
  simp only [decide_eq_true_eq, bits_length]
  rw [eq_iff_testBit_lt a (Bits.put aw v) aw ha (Bits.put_lt aw v)]
  constructor
  · intro h i hi
    have := h i hi
    rw [bits_getD aw a i hi, b2n_eq_one, cbitI_put aw v i hi] at this
    cases h1 : a.testBit i <;> cases h2 : (Bits.put aw v).testBit i <;> simp_all
  · intro h i hi
    rw [bits_getD aw a i hi, b2n_eq_one, cbitI_put aw v i hi, h i hi]

/-- EqualConstant(a, v, r) for EVERY Python int constant: widths ≥ 2 compare with `v mod 2^w`; width 1 treats every
    nonzero constant as 1 -/
theorem equalConstant_wrap (aw a : Nat) (v : Int) (haw : 1 ≤ aw) (ha : a < 2 ^ aw) :
    Lib.equalConstant aw 1 a v = LSpec.equalConstantWrap aw a v := by
  unfold Lib.equalConstant LSpec.equalConstantWrap
  by_cases h1 : aw = 1
  · subst h1
    have : a = 0 ∨ a = 1 := by omega
    simp only [if_true]
    split <;> rcases this with h | h <;> subst h <;> decide
  · simp only [h1, if_false]
    exact minterm_bits aw a v haw ha

theorem put_of_range (w : Nat) (v : Int) (h0 : 0 ≤ v) (h1 : v < (2:Int) ^ w) : ((Bits.put w v : Nat) : Int) = v := by
  rw [Bits.put_cast]; exact Int.emod_eq_of_lt h0 h1

/-- EqualConstant(a, v, r), constant inside the range of `a`: active exactly when `a == v` -/
theorem equalConstant_spec (aw a : Nat) (v : Int) (haw : 1 ≤ aw) (ha : a < 2 ^ aw) (h0 : 0 ≤ v) (h1 : v < (2:Int) ^ aw) :
    Lib.equalConstant aw 1 a v = LSpec.equalConstant a v := by
  rw [equalConstant_wrap aw a v haw ha]
  unfold LSpec.equalConstantWrap LSpec.equalConstant
  have hp := put_of_range aw v h0 h1
  by_cases hw : aw = 1
  · subst hw
    have hv : v = 0 ∨ v = 1 := by omega
    have hA : a = 0 ∨ a = 1 := by omega
    rcases hv with h | h <;> subst h <;> rcases hA with h | h <;> subst h <;> decide
  · simp only [hw, if_false]
    congr 1
    rw [Bool.eq_iff_iff]
    simp only [decide_eq_true_eq]
    omega

/-- the out-of-range behaviour is NOT "never equal": 1-bit input, constant 2, input 1 → active (and 1 ≠ 2) -/
theorem equalConstant_out_of_range_counterexample :
    Lib.equalConstant 1 1 1 2 = 1 ∧ LSpec.equalConstant 1 2 = 0 ∧ Lib.equalConstant 2 1 1 5 = 1 ∧ LSpec.equalConstant 1 5 = 0 := by
  decide

theorem equalConstant_lt (aw a : Nat) (v : Int) (haw : 1 ≤ aw) (ha : a < 2 ^ aw) : Lib.equalConstant aw 1 a v < 2 := by
  rw [equalConstant_wrap aw a v haw ha]
  unfold LSpec.equalConstantWrap
  split
  · split <;> exact b2n_lt _
  · exact b2n_lt _

/-- NotEqualConstant(a, v, r) -/
theorem notEqualConstant_spec (aw a : Nat) (v : Int) (haw : 1 ≤ aw) (ha : a < 2 ^ aw) (h0 : 0 ≤ v) (h1 : v < (2:Int) ^ aw) :
    Lib.notEqualConstant aw 1 a v = LSpec.notEqualConstant a v := by
  unfold Lib.notEqualConstant
  rw [equalConstant_spec aw a v haw ha h0 h1]
  unfold LSpec.equalConstant LSpec.notEqualConstant
  rw [not1_one _ (b2n_lt _)]
  by_cases h : (a : Int) = v <;> simp [h, b2n]

/-- SumOfMinterms(a, minterms, r): active exactly when `a` is one of the listed minterms -/
theorem sumOfMinterms_spec (aw rw a : Nat) (ms : List Int) (haw : 1 ≤ aw) (hrw : 1 ≤ rw) (hne : ms ≠ []) (ha : a < 2 ^ aw)
    (hm : ∀ m ∈ ms, 0 ≤ m ∧ m < (2:Int) ^ aw) : Lib.sumOfMinterms aw rw a ms = LSpec.sumOfMinterms a ms := by
  unfold Lib.sumOfMinterms LSpec.sumOfMinterms
  rw [orN_bool rw _ hrw (by simpa using hne)]
  · congr 1
    rw [List.any_map]
    rw [Bool.eq_iff_iff]
    simp only [List.any_eq_true, Function.comp, decide_eq_true_eq]
    constructor
    · rintro ⟨m, hmm, h⟩
      refine ⟨m, hmm, ?_⟩
      rw [minterm_bits aw a m haw ha, b2n_eq_one, decide_eq_true_eq] at h
      have := put_of_range aw m (hm m hmm).1 (hm m hmm).2
      omega
    · rintro ⟨m, hmm, h⟩
      refine ⟨m, hmm, ?_⟩
      rw [minterm_bits aw a m haw ha, b2n_eq_one, decide_eq_true_eq]
      have := put_of_range aw m (hm m hmm).1 (hm m hmm).2
      omega
  · intro x hx
    simp only [List.mem_map] at hx
    obtain ⟨m, _, rfl⟩ := hx
    rw [minterm_bits aw a m haw ha]; exact b2n_lt _

/-- Decoder(a, b): output `i` is active exactly when `a == i` (one-hot), for every number of outputs up to `2^width` -/
theorem decoder_spec (aw a n : Nat) (haw : 1 ≤ aw) (ha : a < 2 ^ aw) (hn : n ≤ 2 ^ aw) :
    Lib.decoder aw a n = LSpec.decoder a n := by
  unfold Lib.decoder LSpec.decoder
  apply List.map_congr_left
  intro i hi
  simp only [List.mem_range] at hi
  have hi2 : ((i : Nat) : Int) < (2:Int) ^ aw := by
    have : i < 2 ^ aw := by omega
    exact_mod_cast this
  rw [equalConstant_spec aw a (i : Int) haw ha (Int.natCast_nonneg i) hi2]
  unfold LSpec.equalConstant
  congr 1
  rw [Bool.eq_iff_iff]
  simp only [decide_eq_true_eq]
  omega

/-- Demux(a, sel, r): output `sel` carries `a`, every other output is 0 -/
theorem demux_spec (aw sw a sel : Nat) (hsw : 1 ≤ sw) (hsel : sel < 2 ^ sw) :
    Lib.demux aw sw a sel = LSpec.demux aw sw a sel := by
  unfold Lib.demux LSpec.demux
  rw [decoder_spec sw sel (2 ^ sw) hsw hsel (Nat.le_refl _)]
  unfold LSpec.decoder
  rw [List.map_map]
  apply List.map_congr_left
  intro i _
  simp only [Function.comp]
  rw [bufEnable_spec aw a _ (b2n_lt _)]
  unfold LSpec.bufEnable
  by_cases h : i = sel <;> simp [h, b2n]



theorem bits_succ (k s : Nat) : Leaf.bits (k + 1) s = (s % 2) :: Leaf.bits k (s / 2) := by
  unfold Leaf.bits
  rw [List.range_succ_eq_map]
  simp only [List.map_cons, List.map_map, Nat.shiftRight_zero]
  congr 1
  apply List.map_congr_left
  intro i _
  simp only [Function.comp]
  rw [Nat.shiftRight_eq_div_pow, Nat.shiftRight_eq_div_pow, Nat.pow_succ, Nat.mul_comm, Nat.div_div_eq_div_mul]

theorem muxLevel_length (rw b : Nat) (l : List Nat) : (Lib.muxLevel rw b l).length = l.length / 2 := by
  fun_induction Lib.muxLevel rw b l with
  | case1 x0 x1 rest ih => simp only [List.length_cons, ih]; omega
  | case2 l h =>
    match l, h with
    | [], _ => rfl
    | [x], _ => simp
    | x0 :: x1 :: rest, h => exact absurd rfl (h x0 x1 rest)

theorem muxLevel_getD (rw b : Nat) (l : List Nat) (j : Nat) (hj : 2 * j + 1 < l.length) :
    (Lib.muxLevel rw b l).getD j 0 = Leaf.mux2 rw b (l.getD (2 * j) 0) (l.getD (2 * j + 1) 0) := by
  fun_induction Lib.muxLevel rw b l generalizing j with
  | case1 x0 x1 rest ih =>
    cases j with
    | zero => simp
    | succ j =>
      have : 2 * j + 1 < rest.length := by simp only [List.length_cons] at hj; omega
      have e1 : 2 * (j + 1) = (2 * j) + 1 + 1 := by omega
      have e2 : 2 * (j + 1) + 1 = (2 * j + 1) + 1 + 1 := by omega
      rw [e2, e1]
      simp only [List.getD_cons_succ]
      exact ih j this
  | case2 l h =>
    match l, h with
    | [], _ => simp at hj
    | [x], _ => simp at hj
    | x0 :: x1 :: rest, h => exact absurd rfl (h x0 x1 rest)

theorem muxLevel_lt (rw b : Nat) (l : List Nat) : ∀ x ∈ Lib.muxLevel rw b l, x < 2 ^ rw := by
  fun_induction Lib.muxLevel rw b l with
  | case1 x0 x1 rest ih =>
    intro x hx
    simp only [List.mem_cons] at hx
    rcases hx with hx | hx
    · subst hx; unfold Leaf.mux2; split <;> exact Nat.mod_lt _ (Nat.two_pow_pos rw)
    · exact ih x hx
  | case2 l h => intro x hx; simp at hx

theorem getD_lt_of_all (l : List Nat) (w j : Nat) (h : ∀ x ∈ l, x < 2 ^ w) : l.getD j 0 < 2 ^ w := by
  rw [List.getD_eq_getElem?_getD]
  by_cases hj : j < l.length
  · rw [List.getElem?_eq_getElem hj]; exact h _ (List.getElem_mem hj)
  · rw [List.getElem?_eq_none (by omega)]; exact Nat.two_pow_pos w

/-- the tree below the first level: all wires already `rw` bits wide -/
theorem muxTree_inner (rw : Nat) : ∀ (k : Nat) (l : List Nat) (s : Nat), l.length = 2 ^ k → s < 2 ^ k → (∀ x ∈ l, x < 2 ^ rw) →
    ((Leaf.bits k s).foldl (fun auxin b => Lib.muxLevel rw b auxin) l).headD 0 = l.getD s 0 := by
  intro k
  induction k with
  | zero =>
    intro l s hl hs _
    have : s = 0 := by simpa using hs
    subst this
    cases l <;> simp [Leaf.bits]
  | succ k ih =>
    intro l s hl hs hlt
    rw [bits_succ, List.foldl_cons]
    have hlen : (Lib.muxLevel rw (s % 2) l).length = 2 ^ k := by
      rw [muxLevel_length, hl, Nat.pow_succ]; omega
    have hs2 : s / 2 < 2 ^ k := by rw [Nat.pow_succ] at hs; omega
    rw [ih _ (s / 2) hlen hs2 (muxLevel_lt rw _ l)]
    have hj : 2 * (s / 2) + 1 < l.length := by rw [hl, Nat.pow_succ]; omega
    rw [muxLevel_getD rw _ l _ hj]
    unfold Leaf.mux2
    have hmod : s % 2 % 2 = s % 2 := Nat.mod_mod _ _
    rw [hmod]
    split
    · rename_i h1
      have : 2 * (s / 2) + 1 = s := by omega
      rw [this]; exact Nat.mod_eq_of_lt (getD_lt_of_all l rw s hlt)
    · rename_i h1
      have : 2 * (s / 2) = s := by omega
      rw [this]; exact Nat.mod_eq_of_lt (getD_lt_of_all l rw s hlt)

/-- Mux(sel, ins, r): `r = ins[sel]` for every select width ≥ 1 with `2^sw` inputs (for `sw = 1` any input list) -/
theorem mux_spec (rw sw sel : Nat) (ins : List Nat) (hsw : 1 ≤ sw) (hlen : sw = 1 ∨ ins.length = 2 ^ sw) (hsel : sel < 2 ^ sw) :
    Lib.mux rw sw sel ins = LSpec.mux rw sel ins := by
  unfold Lib.mux LSpec.mux
  by_cases h1 : sw = 1
  · subst h1
    simp only [if_true]
    unfold Leaf.mux2
    have : sel = 0 ∨ sel = 1 := by omega
    rcases this with h | h <;> subst h <;> simp
  · have h0 : ¬ sw = 0 := by omega
    simp only [h1, h0, if_false]
    have hl : ins.length = 2 ^ sw := by rcases hlen with h | h; exact absurd h h1; exact h
    obtain ⟨k, rfl⟩ : ∃ k, sw = k + 1 := ⟨sw - 1, by omega⟩
    unfold Lib.bitsLSBF
    rw [bits_succ, List.foldl_cons]
    have hlen' : (Lib.muxLevel rw (sel % 2) ins).length = 2 ^ k := by
      rw [muxLevel_length, hl, Nat.pow_succ]; omega
    have hs2 : sel / 2 < 2 ^ k := by rw [Nat.pow_succ] at hsel; omega
    rw [muxTree_inner rw k _ (sel / 2) hlen' hs2 (muxLevel_lt rw _ ins)]
    have hj : 2 * (sel / 2) + 1 < ins.length := by rw [hl, Nat.pow_succ]; omega
    rw [muxLevel_getD rw _ ins _ hj]
    unfold Leaf.mux2
    rw [Nat.mod_mod]
    split
    · have : 2 * (sel / 2) + 1 = sel := by omega
      rw [this]
    · have : 2 * (sel / 2) = sel := by omega
      rw [this]

theorem any_congr_mem {α : Type} (l : List α) (p q : α → Bool) (h : ∀ a ∈ l, p a = q a) : l.any p = l.any q := by
  induction l with
  | nil => rfl
  | cons a l ih =>
    simp only [List.any_cons]
    rw [h a (by simp), ih (fun b hb => h b (by simp [hb]))]

theorem any_zipWith {α β γ : Type} (f : α → β → γ) (p : γ → Bool) (l1 : List α) (l2 : List β) :
    (List.zipWith f l1 l2).any p = (l1.zip l2).any (fun q => p (f q.1 q.2)) := by
  induction l1 generalizing l2 with
  | nil => simp
  | cons a l1 ih => cases l2 with
    | nil => simp
    | cons b l2 => simp [ih]

/-- Select / OneHotMux(sels, ins, r): the OR of the inputs whose select is 1 (each at its own width) -/
theorem select_spec (rw : Nat) (sels : List Nat) (ins : List (Nat × Nat)) (hs : sels ≠ []) (hi : ins ≠ [])
    (h : ∀ s ∈ sels, s < 2) : Lib.select rw sels ins = LSpec.select rw sels ins := by
  apply eq_ofBitFn
  intro i
  unfold Lib.select
  have hne : List.zipWith (fun sel (inv : Nat × Nat) => Leaf.and2 inv.1 (Leaf.repeat1 inv.1 sel) inv.2) sels ins ≠ [] := by
    cases sels with
    | nil => exact absurd rfl hs
    | cons s ss => cases ins with
      | nil => exact absurd rfl hi
      | cons x xs => simp
  rw [testBit_orN rw i _ hne, any_zipWith]
  congr 1
  apply any_congr_mem
  intro q hq
  have hq1 : q.1 < 2 := h q.1 (List.of_mem_zip hq).1
  simp only [testBit_and2, testBit_repeat1]
  have : q.1 = 0 ∨ q.1 = 1 := by omega
  rcases this with h0 | h0 <;> rw [h0] <;> by_cases hw : i < q.2.1 <;> simp [hw]



/-- OneHotDemux(sels, a, outs): output `i` carries `a` when `sels[i]` is 1 and 0 otherwise -/
theorem oneHotDemux_spec (aw a : Nat) (sels ows : List Nat) (h : ∀ s ∈ sels, s < 2) :
    Lib.oneHotDemux aw a sels ows = LSpec.oneHotDemux aw a sels ows := by
  unfold Lib.oneHotDemux LSpec.oneHotDemux
  induction sels generalizing ows with
  | nil => simp
  | cons s ss ih =>
    cases ows with
    | nil => simp
    | cons ow ows =>
      simp only [List.zipWith_cons_cons]
      rw [ih ows (fun x hx => h x (by simp [hx]))]
      congr 1
      have hs : s < 2 := h s (by simp)
      have : s = 0 ∨ s = 1 := by omega
      unfold Leaf.and2 Leaf.repeat1
      rcases this with h0 | h0 <;> subst h0 <;> simp [Nat.and_comm]

/-- SelectDefault(sels, ins, default, r): the input of the FIRST active select (lowest index), else `default` -/
theorem selectDefault_spec (rw : Nat) (sels ins : List Nat) (d : Nat) :
    Lib.selectDefault rw sels ins d = LSpec.selectDefault rw sels ins d := by
  unfold LSpec.selectDefault
  induction sels generalizing ins with
  | nil => simp [Lib.selectDefault, Leaf.buf]
  | cons s ss ih =>
    cases ins with
    | nil => simp [Lib.selectDefault, Leaf.buf]
    | cons x xs =>
      simp only [Lib.selectDefault, List.zip_cons_cons, List.find?_cons]
      unfold Leaf.mux2
      by_cases hs : s % 2 = 1
      · simp [hs]
      · simp only [hs, if_false, decide_false]
        rw [ih xs]
        cases List.find? (fun p => decide (p.fst % 2 = 1)) (ss.zip xs) <;> simp [Nat.mod_mod]

theorem ofBitFn_congr (w : Nat) (f g : Nat → Bool) (h : ∀ k, k < w → f k = g k) : ofBitFn w f = ofBitFn w g := by
  apply Nat.eq_of_testBit_eq
  intro i
  rw [testBit_ofBitFn, testBit_ofBitFn]
  by_cases hi : i < w
  · simp [hi, h i hi]
  · simp [hi]

/-- recursive form of the priority specification: `seen k` = some higher-priority input has bit `k` set -/
def prioSpecGo (w : Nat) : (Nat → Bool) → List Nat → List Nat
  | _, [] => []
  | seen, a :: as => ofBitFn w (fun k => a.testBit k && !seen k) :: prioSpecGo w (fun k => seen k || a.testBit k) as

theorem priorityGo_eq (w : Nat) (as : List Nat) (last : Nat) (seen : Nat → Bool)
    (h : ∀ k, k < w → last.testBit k = seen k) : Lib.priorityGo w w last as = prioSpecGo w seen as := by
  induction as generalizing last seen with
  | nil => rfl
  | cons a as ih =>
    simp only [Lib.priorityGo, prioSpecGo]
    congr 1
    · apply eq_ofBitFn
      intro i
      rw [testBit_and2, testBit_not1]
      by_cases hi : i < w
      · simp [hi, h i hi]
      · simp [hi]
    · apply ih
      intro k hk
      rw [testBit_or2]
      simp [hk, h k hk]

theorem priorityDec_eq (w : Nat) (as : List Nat) : Lib.priorityDec w w as = prioSpecGo w (fun _ => false) as := by
  cases as with
  | nil => rfl
  | cons a as =>
    simp only [Lib.priorityDec, prioSpecGo]
    congr 1
    · apply eq_ofBitFn
      intro i
      rw [testBit_buf]; simp
    · apply priorityGo_eq
      intro k hk
      rw [testBit_buf]; simp [hk]

theorem prioSpecGo_eq_range (w : Nat) (as : List Nat) (seen : Nat → Bool) :
    prioSpecGo w seen as = (List.range as.length).map fun i => ofBitFn w fun k =>
      (as.getD i 0).testBit k && (!seen k && (as.take i).all fun x => !x.testBit k) := by
  induction as generalizing seen with
  | nil => rfl
  | cons a as ih =>
    simp only [prioSpecGo, List.length_cons, List.range_succ_eq_map, List.map_cons, List.map_map]
    congr 1
    · apply ofBitFn_congr
      intro k _
      simp
    · rw [ih]
      apply List.map_congr_left
      intro i _
      simp only [Function.comp, List.getD_cons_succ, List.take_succ_cons, List.all_cons]
      apply ofBitFn_congr
      intro k _
      cases (as.getD i 0).testBit k <;> cases seen k <;> cases a.testBit k <;> simp

/-- PriorityEncoder(a, r, inc_priority=False): the LOWEST index has priority -/
theorem priorityEncoder_dec_spec (w : Nat) (a : List Nat) :
    Lib.priorityEncoder w w false a = LSpec.priorityEncoder w false a := by
  unfold Lib.priorityEncoder LSpec.priorityEncoder
  simp only [Bool.false_eq_true, if_false]
  rw [priorityDec_eq, prioSpecGo_eq_range]
  apply List.map_congr_left
  intro i _
  apply ofBitFn_congr
  intro k _
  simp

theorem getD_reverse (a : List Nat) (i : Nat) (hi : i < a.length) : a.reverse.getD (a.length - 1 - i) 0 = a.getD i 0 := by
  rw [List.getD_eq_getElem?_getD, List.getD_eq_getElem?_getD]
  rw [List.getElem?_eq_getElem (by simp; omega), List.getElem?_eq_getElem hi]
  simp only [Option.getD_some]
  rw [List.getElem_reverse]
  congr 1
  omega

/-- PriorityEncoder(a, r, inc_priority=True) — the default: the HIGHEST index has priority
    (code, inline comment, parameter name, Test_PriorityEncoder; the docstring states the opposite) -/
theorem priorityEncoder_inc_spec (w : Nat) (a : List Nat) :
    Lib.priorityEncoder w w true a = LSpec.priorityEncoder w true a := by
  have e1 : Lib.priorityEncoder w w true a = (Lib.priorityDec w w a.reverse).reverse := by
    unfold Lib.priorityEncoder; rw [if_pos rfl]
  have e2 : LSpec.priorityEncoder w true a = (List.range a.length).map fun i => ofBitFn w fun k =>
      (a.getD i 0).testBit k && ((a.drop (i + 1)).all fun x => !x.testBit k) := by
    unfold LSpec.priorityEncoder
    apply List.map_congr_left
    intro i _
    apply ofBitFn_congr
    intro k _
    rw [if_pos rfl]
  rw [e1, e2, priorityDec_eq, prioSpecGo_eq_range]
  apply List.ext_getElem
  · simp
  · intro n h1 h2
    simp only [List.length_map, List.length_range] at h2
    simp only [List.getElem_reverse, List.getElem_map, List.getElem_range, List.length_map, List.length_range, List.length_reverse]
    apply ofBitFn_congr
    intro k _
    rw [getD_reverse a n h2]
    congr 1
    simp only [Bool.not_false, Bool.true_and]
    rw [List.take_reverse, List.all_reverse]
    congr 2
    omega

/-- the docstring reading ("inc_priority=True: the lowest index has the highest priority") is NOT what the block does:
    with both inputs active, output 1 (the highest index) is the one asserted -/
theorem priorityEncoder_docstring_counterexample :
    Lib.priorityEncoder 1 1 true [1, 1] = [0, 1] ∧ LSpec.priorityEncoder 1 false [1, 1] = [1, 0] := by decide



theorem xor2_eq_zero_iff (aw bw a b : Nat) (ha : a < 2 ^ aw) (hb : b < 2 ^ bw) (hb' : b < 2 ^ aw) :
    Lib.xor2 aw bw aw a b = 0 ↔ a = b := by
  have hx := fun i => testBit_xor2 aw bw aw a b i (Or.inl (Nat.le_refl _)) hb
  constructor
  · intro h0
    rw [eq_iff_testBit_lt a b aw ha hb']
    intro i hi
    have := hx i
    rw [h0] at this
    simp only [Nat.zero_testBit, hi, decide_true, Bool.true_and] at this
    cases h1 : a.testBit i <;> cases h2 : b.testBit i <;> rw [h1, h2] at this <;> first | rfl | exact absurd this (by decide)
  · intro h
    subst h
    apply Nat.eq_of_testBit_eq
    intro i
    rw [hx i]; simp

theorem xor2_lt (aw bw a b : Nat) (hb : b < 2 ^ bw) : Lib.xor2 aw bw aw a b < 2 ^ aw := by
  have : Lib.xor2 aw bw aw a b = LSpec.xorN aw [a, b] := by
    apply eq_ofBitFn
    intro i
    rw [testBit_xor2 aw bw aw a b i (Or.inl (Nat.le_refl _)) hb]
    simp
  rw [this]
  exact ofBitFn_lt _ _

/-- Equal(a, b, r): active exactly when `a == b`, every width ≥ 1 (1-bit result wire) -/
theorem equal_spec (aw bw a b : Nat) (haw : 1 ≤ aw) (ha : a < 2 ^ aw) (hb : b < 2 ^ bw) (hb' : b < 2 ^ aw) :
    Lib.equal aw bw 1 a b = LSpec.equal a b := by
  unfold Lib.equal LSpec.equal
  have hx := xor2_lt aw bw a b hb
  have hz := xor2_eq_zero_iff aw bw a b ha hb hb'
  simp only
  by_cases h1 : aw = 1
  · simp only [h1, if_true]
    rw [h1] at hx hz
    rw [not1_one _ (by simpa using hx)]
    congr 1
    rw [Bool.eq_iff_iff]; simp only [decide_eq_true_eq]; exact hz
  · simp only [h1, if_false]
    unfold Lib.norN
    have : Lib.orN 1 (Lib.bitsLSBF aw (Lib.xor2 aw bw aw a b)) = Lib.orBits aw 1 (Lib.xor2 aw bw aw a b) := rfl
    rw [this, orBits_spec aw 1 _ haw (Nat.le_refl _) hx]
    unfold LSpec.orBits
    rw [not1_one _ (b2n_lt _)]
    congr 1
    rw [Bool.eq_iff_iff]
    simp only [decide_eq_true_eq, ne_eq]
    rw [← hz]
    cases h : decide (¬ Lib.xor2 aw bw aw a b = 0) <;> simp_all [b2n]

/-- value of the `w+1`-bit subtractor inside the comparators -/
theorem sub_val (w a b : Nat) (ha : a < 2 ^ w) (hb : b < 2 ^ w) :
    Leaf.sub (w + 1) a b = if b ≤ a then a - b else 2 ^ (w + 1) + a - b := by
  unfold Leaf.sub
  have hp : 2 ^ (w + 1) = 2 * 2 ^ w := by rw [Nat.pow_succ]; omega
  split
  · rename_i h
    rw [show ((a:Int) - (b:Int)) = ((a - b : Nat) : Int) by omega]
    exact Bits.put_of_lt _ _ (by omega)
  · rename_i h
    have e : ((a:Int) - (b:Int)) = ((2 ^ (w + 1) + a - b : Nat) : Int) + (-1) * (2:Int) ^ (w + 1) := by
      have : ((2 ^ (w + 1) : Nat) : Int) = (2:Int) ^ (w + 1) := by simp
      omega
    rw [e, Bits.put_add_mul]
    exact Bits.put_of_lt _ _ (by omega)

theorem testBit_top (w x : Nat) (hx : x < 2 ^ (w + 1)) : x.testBit w = decide (2 ^ w ≤ x) := by
  rw [Nat.testBit_eq_decide_div_mod_eq]
  have hp : 2 ^ (w + 1) = 2 ^ w * 2 := Nat.pow_succ ..
  have h2 : x / 2 ^ w < 2 := Nat.div_lt_of_lt_mul (by omega)
  have hpos := Nat.two_pow_pos w
  by_cases h : 2 ^ w ≤ x
  · have : 1 ≤ x / 2 ^ w := (Nat.le_div_iff_mul_le hpos).mpr (by omega)
    simp only [h, decide_true, decide_eq_true_eq]; omega
  · have : x / 2 ^ w = 0 := Nat.div_eq_of_lt (by omega)
    simp [h, this]

theorem cmpSign_eq (w x : Nat) (hx : x < 2 ^ (w + 1)) : Lib.cmpSign (w + 1) x = b2n (decide (2 ^ w ≤ x)) := by
  unfold Lib.cmpSign
  rw [bit_spec 1 x _ (Nat.le_refl _)]
  unfold LSpec.bit
  rw [Nat.add_sub_cancel, testBit_top w x hx]

theorem and2_bool (x y : Bool) : Leaf.and2 1 (b2n x) (b2n y) = b2n (x && y) := by
  cases x <;> cases y <;> decide
theorem not1_bool (x : Bool) : Leaf.not1 1 (b2n x) = b2n (!x) := by cases x <;> decide
theorem xor2_bool (x y : Bool) : Lib.xor2 1 1 1 (b2n x) (b2n y) = b2n (x ^^ y) := by
  cases x <;> cases y <;> decide

theorem cmp_parts (w a b : Nat) (ha : a < 2 ^ w) (hb : b < 2 ^ w) :
    Lib.cmpSign (w + 1) (Leaf.sub (w + 1) a b) = b2n (decide (a < b)) ∧
    Lib.equalConstant (w + 1) 1 (Leaf.sub (w + 1) a b) 0 = b2n (decide (a = b)) := by
  have hp : 2 ^ (w + 1) = 2 * 2 ^ w := by rw [Nat.pow_succ]; omega
  have hs := sub_val w a b ha hb
  have hlt : Leaf.sub (w + 1) a b < 2 ^ (w + 1) := by rw [hs]; split <;> omega
  constructor
  · rw [cmpSign_eq w _ hlt, hs]
    congr 1
    rw [Bool.eq_iff_iff]; simp only [decide_eq_true_eq]
    split <;> omega
  · rw [equalConstant_spec (w + 1) _ 0 (by omega) hlt (Int.le_refl _) (Bits.two_pow_pos_int _)]
    unfold LSpec.equalConstant
    congr 1
    rw [Bool.eq_iff_iff]; simp only [decide_eq_true_eq]
    rw [hs]
    split <;> omega

/-- Comparator(a, b, gt, eq, lt): `(gt, eq, lt) = (a > b, a == b, a < b)`, every width (operands of equal width) -/
theorem comparator_spec (w a b : Nat) (ha : a < 2 ^ w) (hb : b < 2 ^ w) :
    Lib.comparator w 1 1 a b = LSpec.comparator a b := by
  obtain ⟨h1, h2⟩ := cmp_parts w a b ha hb
  unfold Lib.comparator LSpec.comparator
  simp only [h1, h2, not1_bool, and2_bool]
  refine Prod.ext ?_ rfl
  simp only
  congr 1
  rw [Bool.eq_iff_iff]; simp only [Bool.and_eq_true, Bool.not_eq_true', decide_eq_false_iff_not, decide_eq_true_eq]
  omega

theorem cmpSign_msb (w a : Nat) (hw : 1 ≤ w) (ha : a < 2 ^ w) : Lib.cmpSign w a = b2n (decide (2 ^ (w - 1) ≤ a)) := by
  obtain ⟨k, rfl⟩ : ∃ k, w = k + 1 := ⟨w - 1, by omega⟩
  rw [cmpSign_eq k a ha]; simp

/-- ComparatorSignedUnsigned: `(gtu, eq, ltu)` unsigned order, `(gt, lt)` two's complement order, every width ≥ 1 -/
theorem comparatorSU_spec (w a b : Nat) (hw : 1 ≤ w) (ha : a < 2 ^ w) (hb : b < 2 ^ w) :
    Lib.comparatorSU w a b = LSpec.comparatorSU w a b := by
  obtain ⟨h1, h2⟩ := cmp_parts w a b ha hb
  unfold Lib.comparatorSU LSpec.comparatorSU
  simp only [h1, h2, cmpSign_msb w a hw ha, cmpSign_msb w b hw hb, not1_bool, and2_bool, xor2_bool]
  have hp : 2 ^ w = 2 * 2 ^ (w - 1) := by
    obtain ⟨k, rfl⟩ : ∃ k, w = k + 1 := ⟨w - 1, by omega⟩
    rw [Nat.pow_succ]; simp; omega
  have hpi : (2:Int) ^ w = 2 * ((2 ^ (w - 1) : Nat) : Int) := by
    have : ((2 ^ w : Nat) : Int) = (2:Int) ^ w := by simp
    omega
  unfold Bits.toSigned
  refine Prod.ext ?_ (Prod.ext rfl (Prod.ext rfl (Prod.ext ?_ ?_)))
  · simp only
    congr 1
    rw [Bool.eq_iff_iff]; simp only [Bool.and_eq_true, Bool.not_eq_true', decide_eq_false_iff_not, decide_eq_true_eq]
    omega
  · simp only
    congr 1
    by_cases c1 : 2 ^ (w - 1) ≤ a <;> by_cases c2 : 2 ^ (w - 1) ≤ b <;> by_cases c3 : a < b <;> by_cases c4 : a = b <;>
      simp [c1, c2, c3, c4, Nat.not_lt.mpr, Nat.not_le.mp] <;> omega
  · simp only
    congr 1
    by_cases c1 : 2 ^ (w - 1) ≤ a <;> by_cases c2 : 2 ^ (w - 1) ≤ b <;> by_cases c3 : a < b <;>
      simp [c1, c2, c3, Nat.not_lt.mpr, Nat.not_le.mp] <;> omega



theorem mux2_b2n (rw : Nat) (t : Bool) (x y : Nat) : Leaf.mux2 rw (b2n t) x y = (if t then y else x) % 2 ^ rw := by
  unfold Leaf.mux2; cases t <;> simp [b2n]

/-- Max2(a, b, r) -/
theorem max2_spec (w rw a b : Nat) (ha : a < 2 ^ w) (hb : b < 2 ^ w) : Lib.max2 w rw a b = LSpec.max2 rw a b := by
  unfold Lib.max2 LSpec.max2
  rw [comparator_spec w a b ha hb]
  unfold LSpec.comparator
  simp only [mux2_b2n, decide_eq_true_eq]
/-- Min2(a, b, r) -/
theorem min2_spec (w rw a b : Nat) (ha : a < 2 ^ w) (hb : b < 2 ^ w) : Lib.min2 w rw a b = LSpec.min2 rw a b := by
  unfold Lib.min2 LSpec.min2
  rw [comparator_spec w a b ha hb]
  unfold LSpec.comparator
  simp only [mux2_b2n, decide_eq_true_eq]
/-- SignedMax2(a, b, r): maximum in two's complement order -/
theorem signedMax2_spec (w rw a b : Nat) (hw : 1 ≤ w) (ha : a < 2 ^ w) (hb : b < 2 ^ w) :
    Lib.signedMax2 w rw a b = LSpec.signedMax2 w rw a b := by
  unfold Lib.signedMax2 LSpec.signedMax2
  rw [comparatorSU_spec w a b hw ha hb]
  unfold LSpec.comparatorSU
  simp only [mux2_b2n, decide_eq_true_eq]
/-- SignedMin2(a, b, r): minimum in two's complement order -/
theorem signedMin2_spec (w rw a b : Nat) (hw : 1 ≤ w) (ha : a < 2 ^ w) (hb : b < 2 ^ w) :
    Lib.signedMin2 w rw a b = LSpec.signedMin2 w rw a b := by
  unfold Lib.signedMin2 LSpec.signedMin2
  rw [comparatorSU_spec w a b hw ha hb]
  unfold LSpec.comparatorSU
  simp only [mux2_b2n, decide_eq_true_eq]

/-- Swap(a, b, swap, ra, rb) -/
theorem swap_spec (raw rbw a b sw : Nat) : Lib.swap raw rbw a b sw = LSpec.swap raw rbw a b sw := by
  unfold Lib.swap LSpec.swap Leaf.mux2
  split <;> rfl

theorem flatMap_congr_mem {α β : Type} (l : List α) (f g : α → List β) (h : ∀ a ∈ l, f a = g a) : l.flatMap f = l.flatMap g := by
  induction l with
  | nil => rfl
  | cons a l ih =>
    simp only [List.flatMap_cons]
    rw [h a (by simp), ih (fun b hb => h b (by simp [hb]))]

theorem filterMap_congr_mem {α β : Type} (l : List α) (f g : α → Option β) (h : ∀ a ∈ l, f a = g a) :
    l.filterMap f = l.filterMap g := by
  induction l with
  | nil => rfl
  | cons a l ih =>
    simp only [List.filterMap_cons]
    rw [h a (by simp), ih (fun b hb => h b (by simp [hb]))]

theorem anyEqualChecks_eq (w : Nat) (ins : List (Nat × Nat)) (hw : 1 ≤ w) (h : ∀ p ∈ ins, p.1 = w ∧ p.2 < 2 ^ w) :
    Lib.anyEqualChecks ins = (List.range ins.length).flatMap fun i => (List.range ins.length).filterMap fun j =>
      if i ≠ j then some (b2n (decide ((ins.map (·.2)).getD i 0 = (ins.map (·.2)).getD j 0))) else none := by
  unfold Lib.anyEqualChecks
  apply flatMap_congr_mem
  intro i hi
  apply filterMap_congr_mem
  intro j hj
  simp only [List.mem_range] at hi hj
  have gi : ins.getD i (0, 0) = ins[i] := by simp [List.getD_eq_getElem?_getD, hi]
  have gj : ins.getD j (0, 0) = ins[j] := by simp [List.getD_eq_getElem?_getD, hj]
  have mi : (ins.map (·.2)).getD i 0 = ins[i].2 := by simp [List.getD_eq_getElem?_getD, hi]
  have mj : (ins.map (·.2)).getD j 0 = ins[j].2 := by simp [List.getD_eq_getElem?_getD, hj]
  have pi := h ins[i] (List.getElem_mem hi)
  have pj := h ins[j] (List.getElem_mem hj)
  split
  · rw [gi, gj, mi, mj, pi.1, pj.1, equal_spec w w _ _ hw pi.2 pj.2 pj.2]; rfl
  · rfl

/-- AnyEqual(ins, r): active exactly when two DIFFERENT inputs carry the same value; every arity ≥ 2 -/
theorem anyEqual_spec (w rw : Nat) (ins : List (Nat × Nat)) (hw : 1 ≤ w) (hrw : 1 ≤ rw) (hlen : 2 ≤ ins.length)
    (h : ∀ p ∈ ins, p.1 = w ∧ p.2 < 2 ^ w) : Lib.anyEqual rw ins = LSpec.anyEqual (ins.map (·.2)) := by
  unfold Lib.anyEqual LSpec.anyEqual
  rw [anyEqualChecks_eq w ins hw h]
  rw [orN_bool rw _ hrw]
  · congr 1
    simp only [List.length_map, List.any_flatMap, List.any_filterMap]
    apply any_congr_mem
    intro i _
    apply any_congr_mem
    intro j _
    by_cases hij : i = j
    · simp [hij]
    · simp [hij, b2n_eq_one]
  · intro hnil
    have : b2n (decide ((ins.map (·.2)).getD 0 0 = (ins.map (·.2)).getD 1 0)) ∈
        ((List.range ins.length).flatMap fun i => (List.range ins.length).filterMap fun j =>
          if i ≠ j then some (b2n (decide ((ins.map (·.2)).getD i 0 = (ins.map (·.2)).getD j 0))) else none) := by
      simp only [List.mem_flatMap, List.mem_filterMap, List.mem_range]
      exact ⟨0, by omega, 1, by omega, by simp⟩
    rw [hnil] at this
    simp at this
  · intro x hx
    simp only [List.mem_flatMap, List.mem_filterMap, List.mem_range] at hx
    obtain ⟨i, _, j, _, hx⟩ := hx
    split at hx
    · cases hx; exact b2n_lt _
    · cases hx

theorem concat_fold_val (ins : List (Nat × Nat)) (acc : Nat) (h : ∀ wv ∈ ins, wv.2 < 2 ^ wv.1) :
    ins.foldl (fun acc wv => (acc <<< wv.1) ||| wv.2) acc = acc * 2 ^ ((ins.map (·.1)).sum) + LSpec.concatMSBF ins := by
  induction ins generalizing acc with
  | nil => simp [LSpec.concatMSBF]
  | cons wv rest ih =>
    rw [List.foldl_cons, ih _ (fun x hx => h x (by simp [hx]))]
    rw [← Nat.shiftLeft_add_eq_or_of_lt (h wv (by simp)), Nat.shiftLeft_eq]
    simp only [LSpec.concatMSBF, List.map_cons, List.sum_cons, Nat.pow_add]
    rw [Nat.add_mul, Nat.mul_assoc, Nat.add_assoc]

theorem concatMSBF_lt (ins : List (Nat × Nat)) (h : ∀ wv ∈ ins, wv.2 < 2 ^ wv.1) :
    LSpec.concatMSBF ins < 2 ^ ((ins.map (·.1)).sum) := by
  induction ins with
  | nil => simp [LSpec.concatMSBF]
  | cons wv rest ih =>
    have h1 := h wv (by simp)
    have h2 := ih (fun x hx => h x (by simp [hx]))
    simp only [LSpec.concatMSBF, List.map_cons, List.sum_cons, Nat.pow_add]
    calc wv.2 * 2 ^ (rest.map (·.1)).sum + LSpec.concatMSBF rest
        < wv.2 * 2 ^ (rest.map (·.1)).sum + 2 ^ (rest.map (·.1)).sum := by omega
      _ = (wv.2 + 1) * 2 ^ (rest.map (·.1)).sum := by rw [Nat.add_mul]; omega
      _ ≤ 2 ^ wv.1 * 2 ^ (rest.map (·.1)).sum := Nat.mul_le_mul_right _ h1

/-- ConcatenateMSBF(ins, r): first input in the most significant position; any number of inputs of any widths -/
theorem concatMSBF_spec (rw : Nat) (ins : List (Nat × Nat)) (hl : (ins.map (·.1)).sum ≤ rw) (h : ∀ wv ∈ ins, wv.2 < 2 ^ wv.1) :
    Lib.concatMSBF rw ins = LSpec.concatMSBF ins := by
  unfold Lib.concatMSBF Leaf.concat
  rw [concat_fold_val ins 0 h, Nat.zero_mul, Nat.zero_add]
  apply Nat.mod_eq_of_lt
  exact Nat.lt_of_lt_of_le (concatMSBF_lt ins h) (Nat.pow_le_pow_right (by decide) hl)

theorem concatMSBF_append (l : List (Nat × Nat)) (wv : Nat × Nat) :
    LSpec.concatMSBF (l ++ [wv]) = LSpec.concatMSBF l * 2 ^ wv.1 + wv.2 := by
  induction l with
  | nil => simp [LSpec.concatMSBF]
  | cons x l ih =>
    simp only [List.cons_append, LSpec.concatMSBF, ih, List.map_append, List.sum_append, List.map_cons, List.map_nil,
      List.sum_cons, List.sum_nil, Nat.add_zero, Nat.pow_add]
    rw [Nat.add_mul, Nat.mul_assoc, Nat.add_assoc]

theorem concatMSBF_reverse (ins : List (Nat × Nat)) : LSpec.concatMSBF ins.reverse = LSpec.concatLSBF ins := by
  induction ins with
  | nil => rfl
  | cons wv rest ih =>
    rw [List.reverse_cons, concatMSBF_append, ih]
    simp only [LSpec.concatLSBF]
    rw [Nat.mul_comm, Nat.add_comm]

/-- ConcatenateLSBF(ins, r): first input in the least significant position -/
theorem concatLSBF_spec (rw : Nat) (ins : List (Nat × Nat)) (hl : (ins.map (·.1)).sum ≤ rw) (h : ∀ wv ∈ ins, wv.2 < 2 ^ wv.1) :
    Lib.concatLSBF rw ins = LSpec.concatLSBF ins := by
  have := concatMSBF_spec rw ins.reverse (by simpa [List.sum_reverse] using hl) (fun x hx => h x (by simpa using hx))
  unfold Lib.concatMSBF at this
  unfold Lib.concatLSBF
  rw [this, concatMSBF_reverse]



theorem select_any_zero (i : Nat) (sels : List Nat) (ins : List (Nat × Nat)) (h : ∀ s ∈ sels, s = 0) :
    ((sels.zip ins).any fun p => decide (p.1 = 1) && decide (i < p.2.1) && p.2.2.testBit i) = false := by
  rw [List.any_eq_false]
  intro q hq
  have := h q.1 (List.of_mem_zip hq).1
  simp [this]

theorem select_any_onehot (i : Nat) (sels : List Nat) (ins : List (Nat × Nat)) (k : Nat) (hk : k < sels.length)
    (hlen : sels.length ≤ ins.length) (hot : ∀ j, j < sels.length → sels.getD j 0 = if j = k then 1 else 0) :
    ((sels.zip ins).any fun p => decide (p.1 = 1) && decide (i < p.2.1) && p.2.2.testBit i)
      = (decide (i < (ins.getD k (0, 0)).1) && (ins.getD k (0, 0)).2.testBit i) := by
  induction sels generalizing ins k with
  | nil => simp at hk
  | cons s ss ih =>
    cases ins with
    | nil => simp at hlen
    | cons x xs =>
      simp only [List.zip_cons_cons, List.any_cons]
      cases k with
      | zero =>
        have hs : s = 1 := by simpa using hot 0 (by simp)
        have hz : ∀ t ∈ ss, t = 0 := by
          intro t ht
          obtain ⟨j, hj, rfl⟩ := List.mem_iff_getElem.mp ht
          have := hot (j + 1) (by simp; omega)
          simpa [List.getD_eq_getElem?_getD, hj] using this
        rw [select_any_zero i ss xs hz, hs]
        simp
      | succ k' =>
        have hs : s = 0 := by simpa using hot 0 (by simp)
        rw [hs]
        simp only [List.getD_cons_succ]
        rw [ih xs k' (by simpa using hk) (by simpa using hlen)]
        · simp
        · intro j hj
          have := hot (j + 1) (by simp; omega)
          simpa using this

/-- Select / OneHotMux with a ONE-HOT select vector (the documented use): `r` is the selected input -/
theorem select_onehot (rw : Nat) (sels : List Nat) (ins : List (Nat × Nat)) (k : Nat) (hk : k < sels.length)
    (hlen : sels.length ≤ ins.length) (hot : ∀ j, j < sels.length → sels.getD j 0 = if j = k then 1 else 0) :
    LSpec.select rw sels ins = (ins.getD k (0, 0)).2 % 2 ^ (ins.getD k (0, 0)).1 % 2 ^ rw := by
  apply Nat.eq_of_testBit_eq
  intro i
  unfold LSpec.select
  rw [testBit_ofBitFn, select_any_onehot i sels ins k hk hlen hot]
  simp only [Nat.testBit_mod_two_pow]


end C08
