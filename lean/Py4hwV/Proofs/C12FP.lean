import Py4hwV.Proofs.C12Int
/- C12 — loop lemmas for the FPNum model: each `while` loop only rescales (m, p, e) by powers of two, terminates within
   the model's fuel on well-formed inputs, and leaves the postcondition the callers rely on.  Core Lean only. -/
namespace C12
open Py Bits Helper Helper.FPNum

def val4 (s e m p : Int) : Rat := (s : Rat) * (m : Rat) / (p : Rat) * (2 : Rat) ^ e

theorem value_eq (x : FPNum) : x.value = val4 x.s x.e x.m x.p := rfl

theorem two_pow_ne_zero_rat (k : Nat) : (2:Rat)^k ≠ 0 := by
  have : (0:Rat) < (2:Rat)^k := Rat.pow_pos (by decide)
  grind

theorem two_zpow_ne_zero_rat (e : Int) : (2:Rat)^e ≠ 0 := by
  have : (0:Rat) < (2:Rat)^e := Rat.zpow_pos (by decide)
  grind

theorem cast_mul_pow (m : Int) (k : Nat) : ((m * (2:Int)^k : Int) : Rat) = (m : Rat) * (2:Rat)^k := by
  simp [Rat.intCast_mul, Rat.intCast_pow]

theorem zpow_add_nat (e : Int) (k : Nat) : (2:Rat)^(e + (k:Int)) = (2:Rat)^e * (2:Rat)^k := by
  rw [Rat.zpow_add (by decide), Rat.zpow_natCast]

theorem zpow_sub_nat (e : Int) (k : Nat) : (2:Rat)^(e - (k:Int)) * (2:Rat)^k = (2:Rat)^e := by
  have := zpow_add_nat (e - (k:Int)) k
  have e1 : e - (k:Int) + (k:Int) = e := by omega
  rw [e1] at this; exact this.symm

theorem val4_scale_mp (s e m p : Int) (k : Nat) (hp : p ≠ 0) :
    val4 s e (m * (2:Int)^k) (p * (2:Int)^k) = val4 s e m p := by
  unfold val4; rw [cast_mul_pow, cast_mul_pow]
  have h2 := two_pow_ne_zero_rat k
  have hp' : (p : Rat) ≠ 0 := by simpa using hp
  grind

theorem val4_up (s e m p : Int) (k : Nat) (hp : p ≠ 0) :
    val4 s (e + (k:Int)) m (p * (2:Int)^k) = val4 s e m p := by
  unfold val4; rw [cast_mul_pow, zpow_add_nat]
  have h2 := two_pow_ne_zero_rat k
  have hp' : (p : Rat) ≠ 0 := by simpa using hp
  grind

theorem val4_down (s e m p : Int) (k : Nat) :
    val4 s (e - (k:Int)) (m * (2:Int)^k) p = val4 s e m p := by
  unfold val4; rw [cast_mul_pow, ← zpow_sub_nat e k]
  grind

theorem land_one_eqz (m : Int) : (Py.land m 1 == 0) = true ↔ m % 2 = 0 := by
  rw [land_one]; simp

theorem shr_one (m : Int) : Py.shr m 1 = m / 2 := by
  simp [Py.shr, Int.shiftRight_eq_div_pow]

theorem shl_one' (m : Int) : Py.shl m 1 = m * 2 := by simp [Py.shl]

/-! #### `while ((m & 1)==0) and ((p & 1)==0)` -/

theorem reduceLoop_spec : ∀ (f : Nat) (m p m' p' : Int), reduceLoop f m p = some (m', p') →
    ∃ k : Nat, m = m' * (2:Int)^k ∧ p = p' * (2:Int)^k ∧ ¬ (m' % 2 = 0 ∧ p' % 2 = 0) := by
  intro f
  induction f with
  | zero => intro m p m' p' h; simp [reduceLoop] at h
  | succ f ih =>
    intro m p m' p' h
    unfold reduceLoop at h
    by_cases c : (Py.land m 1 == 0 && Py.land p 1 == 0) = true
    · rw [if_pos c] at h
      obtain ⟨k, h1, h2, h3⟩ := ih _ _ _ _ h
      rw [Bool.and_eq_true, land_one_eqz, land_one_eqz] at c
      rw [shr_one] at h1 h2
      refine ⟨k + 1, ?_, ?_, h3⟩
      · rw [Int.pow_succ, ← Int.mul_assoc, ← h1]; omega
      · rw [Int.pow_succ, ← Int.mul_assoc, ← h2]; omega
    · rw [if_neg c] at h
      simp only [Option.some.injEq, Prod.mk.injEq] at h
      obtain ⟨rfl, rfl⟩ := h
      rw [Bool.and_eq_true, land_one_eqz, land_one_eqz] at c
      exact ⟨0, by simp, by simp, c⟩

theorem reduceLoop_total : ∀ (f : Nat) (m p : Int), 0 < p → p < (f : Int) → ∃ r, reduceLoop f m p = some r := by
  intro f
  induction f with
  | zero => intro m p h0 h1; omega
  | succ f ih =>
    intro m p h0 h1
    unfold reduceLoop
    by_cases c : (Py.land m 1 == 0 && Py.land p 1 == 0) = true
    · rw [if_pos c]
      rw [Bool.and_eq_true, land_one_eqz, land_one_eqz] at c
      apply ih
      · rw [shr_one]; omega
      · rw [shr_one]; omega
    · rw [if_neg c]; exact ⟨_, rfl⟩

/-! #### `while (m >= p2): p <<= 1; e += 1` -/

theorem expUpLoop_spec : ∀ (f : Nat) (m p e p' e' : Int), 0 < p → p ≤ m → expUpLoop f m p e = some (p', e') →
    ∃ k : Nat, p' = p * (2:Int)^k ∧ e' = e + (k:Int) ∧ p' ≤ m ∧ m < 2 * p' := by
  intro f
  induction f with
  | zero => intro m p e p' e' _ _ h; simp [expUpLoop] at h
  | succ f ih =>
    intro m p e p' e' hp hm h
    unfold expUpLoop at h
    rw [shl_one'] at h
    by_cases c : m ≥ p * 2
    · rw [if_pos c] at h
      obtain ⟨k, h1, h2, h3, h4⟩ := ih _ _ _ _ _ (by omega) (by omega) h
      refine ⟨k + 1, ?_, ?_, h3, h4⟩
      · rw [h1, Int.pow_succ]; ac_rfl
      · omega
    · rw [if_neg c] at h
      simp only [Option.some.injEq, Prod.mk.injEq] at h
      obtain ⟨rfl, rfl⟩ := h
      exact ⟨0, by simp, by simp, hm, by omega⟩

theorem expUpLoop_total : ∀ (f : Nat) (m p e : Int), 0 < p → m - 2 * p + 1 < (f : Int) → 0 < f →
    ∃ r, expUpLoop f m p e = some r := by
  intro f
  induction f with
  | zero => intro m p e _ _ h; omega
  | succ f ih =>
    intro m p e hp h1 _
    unfold expUpLoop
    rw [shl_one']
    by_cases c : m ≥ p * 2
    · rw [if_pos c]
      apply ih <;> omega
    · rw [if_neg c]; exact ⟨_, rfl⟩

/-! #### `while (m < p): m <<= 1; e -= 1; if (m == 0): return` -/

theorem expDownLoop_spec : ∀ (f : Nat) (m p e m' e' : Int), 0 ≤ m → m < 2 * p → expDownLoop f m p e = some (m', e') →
    ∃ k : Nat, m' = m * (2:Int)^k ∧ e' = e - (k:Int) ∧ (m = 0 ∨ (p ≤ m' ∧ m' < 2 * p)) := by
  intro f
  induction f with
  | zero => intro m p e m' e' _ _ h; simp [expDownLoop] at h
  | succ f ih =>
    intro m p e m' e' hm hmp h
    unfold expDownLoop at h
    rw [shl_one'] at h
    by_cases c : m < p
    · rw [if_pos c] at h
      by_cases z : (m * 2 == 0) = true
      · simp only [z, if_true, Option.some.injEq, Prod.mk.injEq] at h
        obtain ⟨rfl, rfl⟩ := h
        have : m = 0 := by simp at z; omega
        subst this
        exact ⟨1, by simp, by simp, Or.inl rfl⟩
      · simp only [z] at h
        have zz : m ≠ 0 := by intro hh; subst hh; simp at z
        obtain ⟨k, h1, h2, h3⟩ := ih _ _ _ _ _ (by omega) (by omega) h
        refine ⟨k + 1, ?_, by omega, ?_⟩
        · rw [h1, Int.pow_succ]; ac_rfl
        · rcases h3 with h3 | h3
          · omega
          · exact Or.inr h3
    · rw [if_neg c] at h
      simp only [Option.some.injEq, Prod.mk.injEq] at h
      obtain ⟨rfl, rfl⟩ := h
      exact ⟨0, by simp, by simp, Or.inr ⟨by omega, hmp⟩⟩

theorem expDownLoop_total : ∀ (f : Nat) (m p e : Int), 0 ≤ m → p - m < (f : Int) → 0 < f →
    ∃ r, expDownLoop f m p e = some r := by
  intro f
  induction f with
  | zero => intro m p e _ _ h; omega
  | succ f ih =>
    intro m p e hm h1 _
    unfold expDownLoop
    rw [shl_one']
    by_cases c : m < p
    · rw [if_pos c]
      by_cases z : (m * 2 == 0) = true
      · simp [z]
      · simp only [z]
        have zz : m ≠ 0 := by intro hh; subst hh; simp at z
        apply ih <;> omega
    · rw [if_neg c]; exact ⟨_, rfl⟩

/-! #### `adjust_semp` -/

def IsPow2 (p : Int) : Prop := ∃ k : Nat, p = (2:Int)^k

theorem pow2_pos {p : Int} (h : IsPow2 p) : 0 < p := by
  obtain ⟨k, rfl⟩ := h; exact two_pow_pos_int k

/-- if `p' · 2^k` is a power of two (p' > 0) then so is `p'` -/
theorem pow2_of_mul : ∀ (k : Nat) (p' : Int), 0 < p' → IsPow2 (p' * (2:Int)^k) → IsPow2 p' := by
  intro k
  induction k with
  | zero => intro p' _ h; simpa using h
  | succ k ih =>
    intro p' hp h
    apply ih p' hp
    obtain ⟨j, hj⟩ := h
    cases j with
    | zero =>
      exfalso
      rw [Int.pow_succ, ← Int.mul_assoc] at hj
      simp at hj; omega
    | succ j =>
      refine ⟨j, ?_⟩
      rw [Int.pow_succ, Int.pow_succ, ← Int.mul_assoc] at hj
      omega

theorem pow2_mul (p : Int) (k : Nat) (h : IsPow2 p) : IsPow2 (p * (2:Int)^k) := by
  obtain ⟨j, rfl⟩ := h
  exact ⟨j + k, by rw [Int.pow_add]⟩

/-- what `adjust_semp` guarantees on a well-formed finite number -/
structure AdjPost (x y : FPNum) : Prop where
  value : y.value = x.value
  s : y.s = x.s
  inf : y.infinity = x.infinity
  nan : y.nan = x.nan
  inexact : y.inexact = x.inexact
  p_pos : 0 < y.p
  m_nonneg : 0 ≤ y.m
  zero : x.m = 0 ↔ y.m = 0
  normal : y.m = 0 ∨ (y.p ≤ y.m ∧ y.m < 2 * y.p)
  pow2 : IsPow2 x.p → IsPow2 y.p

theorem adjust_semp_spec (x y : FPNum) (hp : 0 < x.p) (hm : 0 ≤ x.m) (h : adjust_semp x = some y) : AdjPost x y := by
  unfold adjust_semp at h
  have hp0 : (x.p == 0) = false := by simp; omega
  simp only [hp0, Bool.false_eq_true, if_false] at h
  cases hr : reduceLoop (x.p.natAbs + 1) x.m x.p with
  | none => simp [hr] at h
  | some r =>
    obtain ⟨m1, p1⟩ := r
    obtain ⟨k, hk1, hk2, -⟩ := reduceLoop_spec _ _ _ _ _ hr
    have h2k := two_pow_pos_int k
    have hp1 : 0 < p1 := by
      rcases Int.lt_trichotomy p1 0 with c | c | c
      · have := Int.mul_neg_of_neg_of_pos c h2k; omega
      · subst c; simp at hk2; omega
      · exact c
    have hm1 : 0 ≤ m1 := by
      rcases Int.lt_trichotomy m1 0 with c | c | c
      · have := Int.mul_neg_of_neg_of_pos c h2k; omega
      · omega
      · omega
    have hz : x.m = 0 ↔ m1 = 0 := by
      constructor
      · intro hh; rw [hh] at hk1
        rcases Int.mul_eq_zero.mp hk1.symm with c | c <;> omega
      · intro hh; rw [hk1, hh]; simp
    have hv : val4 x.s x.e x.m x.p = val4 x.s x.e m1 p1 := by
      rw [hk1, hk2]; exact val4_scale_mp _ _ _ _ k (by omega)
    have hpw : IsPow2 x.p → IsPow2 p1 := fun hh => pow2_of_mul k p1 hp1 (hk2 ▸ hh)
    simp only [hr, bind, Option.bind, shl_one'] at h
    by_cases c1 : m1 ≥ p1 * 2
    · rw [if_pos c1] at h
      cases hu : expUpLoop (m1.toNat + 1) m1 p1 x.e with
      | none => simp [hu] at h
      | some r =>
        obtain ⟨p2, e2⟩ := r
        obtain ⟨j, hj1, hj2, hj3, hj4⟩ := expUpLoop_spec _ _ _ _ _ _ hp1 (by omega) hu
        simp only [hu, pure, Option.some.injEq] at h
        subst h
        have h2j := two_pow_pos_int j
        have hp2 : 0 < p2 := by rw [hj1]; exact Int.mul_pos hp1 h2j
        refine ⟨?_, rfl, rfl, rfl, rfl, hp2, hm1, hz, Or.inr ⟨hj3, hj4⟩, fun hh => hj1 ▸ pow2_mul p1 j (hpw hh)⟩
        rw [value_eq, value_eq, hv]; simp only
        rw [hj1, hj2]; exact val4_up _ _ _ _ j (by omega)
    · rw [if_neg c1] at h
      by_cases c2 : m1 < p1
      · rw [if_pos c2] at h
        cases hd : expDownLoop (p1.toNat + 1) m1 p1 x.e with
        | none => simp [hd] at h
        | some r =>
          obtain ⟨m2, e2⟩ := r
          obtain ⟨j, hj1, hj2, hj3⟩ := expDownLoop_spec _ _ _ _ _ _ hm1 (by omega) hd
          simp only [hd, pure, Option.some.injEq] at h
          subst h
          have h2j := two_pow_pos_int j
          have hm2 : 0 ≤ m2 := by rw [hj1]; exact Int.mul_nonneg hm1 (Int.le_of_lt h2j)
          have hz2 : m1 = 0 ↔ m2 = 0 := by
            constructor
            · intro hh; rw [hj1, hh]; simp
            · intro hh; rw [hh] at hj1
              rcases Int.mul_eq_zero.mp hj1.symm with c | c <;> omega
          refine ⟨?_, rfl, rfl, rfl, rfl, hp1, hm2, hz.trans hz2, ?_, hpw⟩
          · rw [value_eq, value_eq, hv]; simp only
            rw [hj1, hj2]; exact val4_down _ _ _ _ j
          · rcases hj3 with c | c
            · exact Or.inl (hz2.mp c)
            · exact Or.inr c
      · rw [if_neg c2] at h
        simp only [pure, Option.some.injEq] at h
        subst h
        refine ⟨?_, rfl, rfl, rfl, rfl, hp1, hm1, hz, Or.inr ⟨by show p1 ≤ m1; omega, by show m1 < 2 * p1; omega⟩, hpw⟩
        rw [value_eq, value_eq, hv]


theorem adjust_semp_total' (x : FPNum) (hp : 0 < x.p) (hm : 0 ≤ x.m) : ∃ y, adjust_semp x = some y := by
  unfold adjust_semp
  have hp0 : (x.p == 0) = false := by simp; omega
  simp only [hp0, Bool.false_eq_true, if_false]
  obtain ⟨r, hr⟩ := reduceLoop_total (x.p.natAbs + 1) x.m x.p hp (by omega)
  obtain ⟨m1, p1⟩ := r
  obtain ⟨k, hk1, hk2, -⟩ := reduceLoop_spec _ _ _ _ _ hr
  have h2k := two_pow_pos_int k
  have hp1 : 0 < p1 := by
    rcases Int.lt_trichotomy p1 0 with c | c | c
    · have := Int.mul_neg_of_neg_of_pos c h2k; omega
    · subst c; simp at hk2; omega
    · exact c
  have hm1 : 0 ≤ m1 := by
    rcases Int.lt_trichotomy m1 0 with c | c | c
    · have := Int.mul_neg_of_neg_of_pos c h2k; omega
    · omega
    · omega
  simp only [hr, bind, Option.bind, shl_one']
  by_cases c1 : m1 ≥ p1 * 2
  · rw [if_pos c1]
    obtain ⟨r, hu⟩ := expUpLoop_total (m1.toNat + 1) m1 p1 x.e hp1 (by omega) (by omega)
    simp [hu, pure]
  · rw [if_neg c1]
    by_cases c2 : m1 < p1
    · rw [if_pos c2]
      obtain ⟨r, hd⟩ := expDownLoop_total (p1.toNat + 1) m1 p1 x.e hm1 (by omega) (by omega)
      simp [hd, pure]
    · rw [if_neg c2]; simp [pure]

/-! #### `FPNum(s, e, m, p)` -/

theorem set_semp_finite (s e m p : Int) (hp : 0 < p) :
    set_semp fresh s e m p = { s := s, e := e, m := m, p := p } := by
  have hp0 : (p == 0) = false := by simp; omega
  simp [set_semp, fresh, hp0]

/-- what the 4-argument constructor returns on a finite well-formed argument list -/
structure Mk4Post (s e m p : Int) (y : FPNum) : Prop where
  value : y.value = val4 s e m p
  s : y.s = s
  inf : y.infinity = false
  nan : y.nan = false
  p_pos : 0 < y.p
  m_nonneg : 0 ≤ y.m
  zero : m = 0 ↔ y.m = 0
  normal : y.m = 0 ∨ (y.p ≤ y.m ∧ y.m < 2 * y.p)
  pow2 : IsPow2 p → IsPow2 y.p

theorem mk4_spec (s e m p : Int) (y : FPNum) (hp : 0 < p) (hm : 0 ≤ m) (h : mk4 s e m p = some y) : Mk4Post s e m p y := by
  unfold mk4 at h
  rw [set_semp_finite s e m p hp] at h
  have a := adjust_semp_spec _ y (by exact hp) (by exact hm) h
  exact ⟨a.value, a.s, a.inf, a.nan, a.p_pos, a.m_nonneg, a.zero, a.normal, a.pow2⟩

theorem mk4_total' (s e m p : Int) (hp : 0 < p) (hm : 0 ≤ m) : ∃ y, mk4 s e m p = some y := by
  unfold mk4
  rw [set_semp_finite s e m p hp]
  exact adjust_semp_total' _ (by exact hp) (by exact hm)

/-! #### `increase_exponent`, `increase_precision`, `equalize` -/

theorem incExp_go_spec : ∀ (n : Nat) (x : FPNum),
    (increase_exponent.go n x).p = x.p * (2:Int)^n ∧ (increase_exponent.go n x).e = x.e + (n:Int) ∧
    (increase_exponent.go n x).m = x.m ∧ (increase_exponent.go n x).s = x.s := by
  intro n
  induction n with
  | zero => intro x; simp [increase_exponent.go]
  | succ n ih =>
    intro x
    unfold increase_exponent.go
    obtain ⟨h1, h2, h3, h4⟩ := ih { x with e := x.e + 1, p := Py.shl x.p 1 }
    refine ⟨?_, ?_, h3, h4⟩
    · rw [h1, Int.pow_succ]; simp only [shl_one']; ac_rfl
    · rw [h2]; simp only; omega

/-- a finite operand as `compare`/`add` see it after `FPNum(s,e,m,p)` -/
structure Scaled (x y : FPNum) : Prop where
  value : y.value = x.value
  s : y.s = x.s
  p_pos : 0 < y.p
  m_nonneg : 0 ≤ y.m
  zero : x.m = 0 ↔ y.m = 0

theorem Scaled.refl (x : FPNum) (hp : 0 < x.p) (hm : 0 ≤ x.m) : Scaled x x := ⟨rfl, rfl, hp, hm, Iff.rfl⟩

theorem increase_exponent_spec (x : FPNum) (ne : Int) (hp : 0 < x.p) (hm : 0 ≤ x.m) (hle : x.e ≤ ne) :
    Scaled x (increase_exponent x ne) ∧ (increase_exponent x ne).e = ne ∧
    (IsPow2 x.p → IsPow2 (increase_exponent x ne).p) := by
  unfold increase_exponent
  obtain ⟨h1, h2, h3, h4⟩ := incExp_go_spec (ne - x.e).toNat x
  have h2k := two_pow_pos_int (ne - x.e).toNat
  refine ⟨⟨?_, h4, ?_, by rw [h3]; exact hm, by rw [h3]⟩, by rw [h2]; omega, fun hh => h1 ▸ pow2_mul _ _ hh⟩
  · rw [value_eq, value_eq, h1, h2, h3, h4]; exact val4_up _ _ _ _ _ (by omega)
  · rw [h1]; exact Int.mul_pos hp h2k

theorem precLoop_spec : ∀ (f : Nat) (np m p m' p' : Int), precLoop f np m p = some (m', p') →
    ∃ k : Nat, m' = m * (2:Int)^k ∧ p' = p * (2:Int)^k := by
  intro f
  induction f with
  | zero => intro np m p m' p' h; simp [precLoop] at h
  | succ f ih =>
    intro np m p m' p' h
    unfold precLoop at h
    by_cases c : p < np
    · rw [if_pos c, shl_one', shl_one'] at h
      obtain ⟨k, h1, h2⟩ := ih _ _ _ _ _ h
      exact ⟨k + 1, by rw [h1, Int.pow_succ]; ac_rfl, by rw [h2, Int.pow_succ]; ac_rfl⟩
    · rw [if_neg c] at h
      simp only [Option.some.injEq, Prod.mk.injEq] at h
      obtain ⟨rfl, rfl⟩ := h
      exact ⟨0, by simp, by simp⟩

theorem two_pow_lt_int (i j : Nat) (h : i < j) : (2:Int)^i < (2:Int)^j := by
  have := two_pow_le_int (i+1) j h
  rw [Int.pow_succ] at this
  have := two_pow_pos_int i
  omega

/-- on powers of two the loop stops exactly at `np` (so the `assert(a.p == b.p)` holds) -/
theorem precLoop_pow2 : ∀ (f : Nat) (m : Int) (i j : Nat), i ≤ j → j - i < f →
    ∃ m', precLoop f ((2:Int)^j) m ((2:Int)^i) = some (m', (2:Int)^j) := by
  intro f
  induction f with
  | zero => intro m i j _ h; omega
  | succ f ih =>
    intro m i j hij hf
    unfold precLoop
    by_cases c : i < j
    · rw [if_pos (two_pow_lt_int i j c), shl_one', shl_one']
      have e : (2:Int)^i * 2 = (2:Int)^(i+1) := by rw [Int.pow_succ]
      rw [e]
      exact ih _ (i+1) j (by omega) (by omega)
    · have : i = j := by omega
      subst this
      rw [if_neg (by omega)]
      exact ⟨m, rfl⟩

theorem increase_precision_spec (x y : FPNum) (np : Int) (hp : 0 < x.p) (hm : 0 ≤ x.m)
    (h : increase_precision x np = some y) : Scaled x y ∧ y.e = x.e := by
  unfold increase_precision at h
  cases hl : precLoop (np.toNat + 1) np x.m x.p with
  | none => simp [hl] at h
  | some r =>
    obtain ⟨m1, p1⟩ := r
    simp only [hl, bind, Option.bind, pure, Option.some.injEq] at h
    subst h
    obtain ⟨k, h1, h2⟩ := precLoop_spec _ _ _ _ _ _ hl
    have h2k := two_pow_pos_int k
    refine ⟨⟨?_, rfl, ?_, ?_, ?_⟩, rfl⟩
    · rw [value_eq, value_eq]; simp only; rw [h1, h2]; exact val4_scale_mp _ _ _ _ k (by omega)
    · show 0 < p1; rw [h2]; exact Int.mul_pos hp h2k
    · show 0 ≤ m1; rw [h1]; exact Int.mul_nonneg hm (Int.le_of_lt h2k)
    · show x.m = 0 ↔ m1 = 0
      rw [h1]
      constructor
      · intro hh; rw [hh]; simp
      · intro hh; rcases Int.mul_eq_zero.mp hh with c | c <;> omega

theorem nat_lt_two_pow (n : Nat) : n < 2^n := Nat.lt_two_pow_self

theorem increase_precision_pow2 (x : FPNum) (i j : Nat) (hx : x.p = (2:Int)^i) (hij : i ≤ j) :
    ∃ y, increase_precision x ((2:Int)^j) = some y ∧ y.p = (2:Int)^j := by
  unfold increase_precision
  have hf : j - i < ((2:Int)^j).toNat + 1 := by
    have h1 : ((2:Int)^j).toNat = 2^j := by
      have : (2:Int)^j = ((2^j : Nat) : Int) := by simp
      rw [this]; exact Int.toNat_natCast _
    have := nat_lt_two_pow j
    omega
  obtain ⟨m', hm'⟩ := precLoop_pow2 (((2:Int)^j).toNat + 1) x.m i j hij hf
  rw [hx, hm']
  exact ⟨_, rfl, rfl⟩

/-- result of `equalize` -/
structure EqPost (a b a' b' : FPNum) : Prop where
  sa : Scaled a a'
  sb : Scaled b b'
  e_eq : a'.e = b'.e
  p_eq : a'.p = b'.p

theorem eqExp_spec (a b : FPNum) (hpa : 0 < a.p) (hma : 0 ≤ a.m) (hpb : 0 < b.p) (hmb : 0 ≤ b.m) :
    Scaled a (eqExp a b).1 ∧ Scaled b (eqExp a b).2 ∧ (eqExp a b).1.e = (eqExp a b).2.e ∧
    (IsPow2 a.p → IsPow2 (eqExp a b).1.p) ∧ (IsPow2 b.p → IsPow2 (eqExp a b).2.p) := by
  unfold eqExp
  by_cases c1 : a.e > b.e
  · rw [if_pos c1]
    obtain ⟨h1, h2, h3⟩ := increase_exponent_spec b a.e hpb hmb (by omega)
    exact ⟨Scaled.refl a hpa hma, h1, h2.symm, id, h3⟩
  · rw [if_neg c1]
    by_cases c2 : a.e < b.e
    · rw [if_pos c2]
      obtain ⟨h1, h2, h3⟩ := increase_exponent_spec a b.e hpa hma (by omega)
      exact ⟨h1, Scaled.refl b hpb hmb, h2, h3, id⟩
    · rw [if_neg c2]
      exact ⟨Scaled.refl a hpa hma, Scaled.refl b hpb hmb, by show a.e = b.e; omega, id, id⟩

theorem Scaled.trans {x y z : FPNum} (h1 : Scaled x y) (h2 : Scaled y z) : Scaled x z :=
  ⟨h2.value.trans h1.value, h2.s.trans h1.s, h2.p_pos, h2.m_nonneg, h1.zero.trans h2.zero⟩

theorem equalize_spec (a b a' b' : FPNum) (hpa : 0 < a.p) (hma : 0 ≤ a.m) (hpb : 0 < b.p) (hmb : 0 ≤ b.m)
    (h : equalize a b = some (a', b')) : EqPost a b a' b' := by
  obtain ⟨s1, s2, he, -, -⟩ := eqExp_spec a b hpa hma hpb hmb
  unfold equalize at h
  simp only at h
  have hne : ((eqExp a b).1.e != (eqExp a b).2.e) = false := by simp [he]
  rw [hne] at h
  simp only [Bool.false_eq_true, if_false] at h
  generalize eqExp a b = ab at *
  obtain ⟨a1, b1⟩ := ab
  simp only at s1 s2 he h
  unfold eqPrec at h
  by_cases c1 : a1.p > b1.p
  · rw [if_pos c1] at h
    cases hi : increase_precision b1 a1.p with
    | none => simp [hi] at h
    | some b2 =>
      simp only [hi, Option.map] at h
      by_cases c : (a1.p != b2.p) = true
      · simp [c] at h
      · simp only [c, if_false, Option.some.injEq, Prod.mk.injEq, Bool.false_eq_true] at h
        obtain ⟨rfl, rfl⟩ := h
        obtain ⟨t, te⟩ := increase_precision_spec b1 b2 a1.p s2.p_pos s2.m_nonneg hi
        exact ⟨s1, s2.trans t, by rw [te]; exact he, by simpa using c⟩
  · rw [if_neg c1] at h
    by_cases c2 : a1.p < b1.p
    · rw [if_pos c2] at h
      cases hi : increase_precision a1 b1.p with
      | none => simp [hi] at h
      | some a2 =>
        simp only [hi, Option.map] at h
        by_cases c : (a2.p != b1.p) = true
        · simp [c] at h
        · simp only [c, if_false, Option.some.injEq, Prod.mk.injEq, Bool.false_eq_true] at h
          obtain ⟨rfl, rfl⟩ := h
          obtain ⟨t, te⟩ := increase_precision_spec a1 a2 b1.p s1.p_pos s1.m_nonneg hi
          exact ⟨s1.trans t, s2, by rw [te]; exact he, by simpa using c⟩
    · rw [if_neg c2] at h
      by_cases c : (a1.p != b1.p) = true
      · simp [c] at h
      · simp only [c, if_false, Option.some.injEq, Prod.mk.injEq, Bool.false_eq_true] at h
        obtain ⟨rfl, rfl⟩ := h
        exact ⟨s1, s2, he, by simpa using c⟩

/-- on power-of-two precisions (everything the constructors and the arithmetic produce) both asserts hold -/
theorem equalize_total (a b : FPNum) (hpa : IsPow2 a.p) (hma : 0 ≤ a.m) (hpb : IsPow2 b.p) (hmb : 0 ≤ b.m) :
    ∃ r, equalize a b = some r ∧ IsPow2 r.1.p := by
  obtain ⟨s1, s2, he, q1, q2⟩ := eqExp_spec a b (pow2_pos hpa) hma (pow2_pos hpb) hmb
  unfold equalize
  simp only
  have hne : ((eqExp a b).1.e != (eqExp a b).2.e) = false := by simp [he]
  rw [hne]
  simp only [Bool.false_eq_true, if_false]
  have q1 := q1 hpa
  have q2 := q2 hpb
  generalize eqExp a b = ab at *
  obtain ⟨a1, b1⟩ := ab
  simp only at q1 q2 ⊢
  obtain ⟨i, hi⟩ := q1
  obtain ⟨j, hj⟩ := q2
  unfold eqPrec
  by_cases c1 : a1.p > b1.p
  · rw [if_pos c1]
    have hji : j ≤ i := by
      rcases Nat.lt_or_ge i j with c | c
      · have := two_pow_lt_int i j c; omega
      · exact c
    obtain ⟨y, hy, hyp⟩ := increase_precision_pow2 b1 j i hj hji
    rw [hi, hy]
    simp [hyp, hi]
    exact ⟨i, rfl⟩
  · rw [if_neg c1]
    by_cases c2 : a1.p < b1.p
    · rw [if_pos c2]
      have hij : i ≤ j := by
        rcases Nat.lt_or_ge j i with c | c
        · have := two_pow_lt_int j i c; omega
        · exact c
      obtain ⟨y, hy, hyp⟩ := increase_precision_pow2 a1 i j hi hij
      rw [hj, hy]
      simp [hyp, hj]
      exact ⟨j, rfl⟩
    · rw [if_neg c2]
      have : a1.p = b1.p := by omega
      simp [this]
      exact ⟨j, hj⟩

/-! #### arithmetic helper lemmas -/

theorem finite_of_mk4 {s e m p : Int} {y : FPNum} (hs : s = 1 ∨ s = -1) (q : Mk4Post s e m p y) : y.Finite :=
  ⟨by rw [q.s]; exact hs, q.m_nonneg, q.p_pos, q.inf, q.nan⟩

theorem val4_add_same (s e ma mb p : Int) (hp : 0 < p) :
    val4 s e (ma + mb) p = val4 s e ma p + val4 s e mb p := by
  unfold val4
  have hp' : (p : Rat) ≠ 0 := by simp; omega
  grind

theorem val4_sub_pos (e ma mb p : Int) (hp : 0 < p) :
    val4 1 e (ma - mb) p = val4 1 e ma p + val4 (-1) e mb p := by
  unfold val4
  have hp' : (p : Rat) ≠ 0 := by simp; omega
  grind

theorem val4_sub_neg (e ma mb p : Int) (hp : 0 < p) :
    val4 (-1) e (mb - ma) p = val4 1 e ma p + val4 (-1) e mb p := by
  unfold val4
  have hp' : (p : Rat) ≠ 0 := by simp; omega
  grind

/-- the sign/magnitude case analysis at the end of `add`, on operands with equal exponent and precision -/
theorem add_tail (a b r : FPNum) (hsa : a.s = 1 ∨ a.s = -1) (hsb : b.s = 1 ∨ b.s = -1)
    (hp : 0 < a.p) (hma : 0 ≤ a.m) (hmb : 0 ≤ b.m) (he : a.e = b.e) (hpe : a.p = b.p)
    (h : (if (a.s == 1 && b.s == 1 || a.s == -1 && b.s == -1) = true then
            mk4 a.s a.e (a.m + b.m) a.p
          else if (a.s == 1 && b.s == -1) = true then
            if a.m > b.m then mk4 a.s a.e (a.m - b.m) a.p else mk4 b.s a.e (b.m - a.m) a.p
          else if (a.s == -1 && b.s == 1) = true then
            if a.m > b.m then mk4 a.s a.e (a.m - b.m) a.p else mk4 b.s a.e (b.m - a.m) a.p
          else none) = some r) :
    r.Finite ∧ r.value = a.value + b.value := by
  have hvb : b.value = val4 b.s a.e b.m a.p := by rw [value_eq, he, hpe]
  rw [value_eq a, hvb]
  rcases hsa with sa | sa <;> rcases hsb with sb | sb <;> simp only [sa, sb] at h ⊢
  · simp only [show ((1:Int) == 1 && (1:Int) == 1 || (1:Int) == -1 && (1:Int) == -1) = true by decide, if_true] at h
    have q := mk4_spec _ _ _ _ r hp (by omega) h
    exact ⟨finite_of_mk4 (Or.inl rfl) q, by rw [q.value]; exact val4_add_same _ _ _ _ _ hp⟩
  · simp only [show ((1:Int) == 1 && (-1:Int) == 1 || (1:Int) == -1 && (-1:Int) == -1) = false by decide,
      show ((1:Int) == 1 && (-1:Int) == -1) = true by decide, Bool.false_eq_true, if_false, if_true] at h
    by_cases c : a.m > b.m
    · rw [if_pos c] at h
      have q := mk4_spec _ _ _ _ r hp (by omega) h
      exact ⟨finite_of_mk4 (Or.inl rfl) q, by rw [q.value]; exact val4_sub_pos _ _ _ _ hp⟩
    · rw [if_neg c] at h
      have q := mk4_spec _ _ _ _ r hp (by omega) h
      exact ⟨finite_of_mk4 (Or.inr rfl) q, by rw [q.value]; exact val4_sub_neg _ _ _ _ hp⟩
  · simp only [show ((-1:Int) == 1 && (1:Int) == 1 || (-1:Int) == -1 && (1:Int) == -1) = false by decide,
      show ((-1:Int) == 1 && (1:Int) == -1) = false by decide,
      show ((-1:Int) == -1 && (1:Int) == 1) = true by decide, Bool.false_eq_true, if_false, if_true] at h
    by_cases c : a.m > b.m
    · rw [if_pos c] at h
      have q := mk4_spec _ _ _ _ r hp (by omega) h
      refine ⟨finite_of_mk4 (Or.inr rfl) q, ?_⟩
      rw [q.value, Rat.add_comm]; exact val4_sub_neg _ _ _ _ hp
    · rw [if_neg c] at h
      have q := mk4_spec _ _ _ _ r hp (by omega) h
      refine ⟨finite_of_mk4 (Or.inl rfl) q, ?_⟩
      rw [q.value, Rat.add_comm]; exact val4_sub_pos _ _ _ _ hp
  · simp only [show ((-1:Int) == 1 && (-1:Int) == 1 || (-1:Int) == -1 && (-1:Int) == -1) = true by decide, if_true] at h
    have q := mk4_spec _ _ _ _ r hp (by omega) h
    exact ⟨finite_of_mk4 (Or.inr rfl) q, by rw [q.value]; exact val4_add_same _ _ _ _ _ hp⟩

theorem val4_neg (s e m p : Int) : val4 (s * -1) e m p = - val4 s e m p := by
  unfold val4; grind

theorem val4_mul (sa ea ma pa sb eb mb pb : Int) (ha : 0 < pa) (hb : 0 < pb) :
    val4 (sa * sb) (ea + eb) (ma * mb) (pa * pb) = val4 sa ea ma pa * val4 sb eb mb pb := by
  unfold val4
  rw [Rat.zpow_add (by decide)]
  have h1 : (pa : Rat) ≠ 0 := by simp; omega
  have h2 : (pb : Rat) ≠ 0 := by simp; omega
  grind

def intCmp (x y : Int) : Int := if x < y then -1 else if x = y then 0 else 1

theorem ratCmp_scale (x y K : Rat) (hK : 0 < K) : ratCmp (x * K) (y * K) = ratCmp x y := by
  unfold ratCmp
  have h1 : x * K < y * K ↔ x < y := Rat.mul_lt_mul_right hK
  have h2 : x * K = y * K ↔ x = y := by
    constructor
    · intro h; have : K ≠ 0 := by grind
      grind
    · intro h; rw [h]
  simp only [h1, h2]

theorem ratCmp_cast (x y : Int) : ratCmp (x : Rat) (y : Rat) = intCmp x y := by
  unfold ratCmp intCmp
  simp only [Rat.intCast_lt_intCast, Rat.intCast_inj]

theorem val4_as_scaled (s e m p : Int) (hp : 0 < p) :
    val4 s e m p = ((s * m : Int) : Rat) * ((2:Rat)^e / (p : Rat)) := by
  unfold val4
  have hp' : (p : Rat) ≠ 0 := by simp; omega
  grind

theorem ratCmp_val4 (sa sb e ma mb p : Int) (hp : 0 < p) :
    ratCmp (val4 sa e ma p) (val4 sb e mb p) = intCmp (sa * ma) (sb * mb) := by
  rw [val4_as_scaled _ _ _ _ hp, val4_as_scaled _ _ _ _ hp, ratCmp_scale, ratCmp_cast]
  have h1 : (0:Rat) < (2:Rat)^e := Rat.zpow_pos (by decide)
  have h2 : (0:Rat) < (p : Rat) := by
    have : ((0:Int) : Rat) < (p : Rat) := Rat.intCast_lt_intCast.mpr hp
    simpa using this
  rw [Rat.div_def]; exact Rat.mul_pos h1 (Rat.inv_pos.mpr h2)

theorem mk4_total_pow2 (s e m p : Int) (hp : IsPow2 p) (hm : 0 ≤ m) : ∃ y, mk4 s e m p = some y ∧ IsPow2 y.p := by
  obtain ⟨y, hy⟩ := mk4_total' s e m p (pow2_pos hp) hm
  exact ⟨y, hy, (mk4_spec s e m p y (pow2_pos hp) hm hy).pow2 hp⟩

end C12
