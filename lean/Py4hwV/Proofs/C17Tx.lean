import Py4hwV.Proofs.C17Bridge
/-
  C17 — transmit side: divider phase, serializer frame, software receiver (all parametric in n ≥ 2).
-/
set_option linter.unusedSimpArgs false
namespace C17
open Uart

/-! ### Nat-level transmit side and its bridge -/
structure TxN where
  div : Div
  z : Nat
  ser : SerN

def TxN.toTx (s : TxN) : TxSide := ⟨s.div, s.z, s.ser.toSer⟩
def TxN.pulse (s : TxN) : Nat := edgePos s.div.clk s.z
def TxN.step (n : Nat) (s : TxN) (valid v : Nat) : TxN :=
  ⟨s.div.step n 0, s.div.clk, serSpec s.ser valid v s.pulse⟩
def TxN.init : TxN := ⟨Div.init, 0, ⟨0, 0, 0, 0, 0⟩⟩

theorem tx_init_eq : TxN.init.toTx = TxSide.init := rfl

theorem tx_step_eq (n : Nat) (s : TxN) (valid v : Nat) :
    s.toTx.step n valid v = (s.step n valid v).toTx := by
  simp only [TxN.toTx, TxSide.step, TxN.step, TxSide.pulse, TxN.pulse, ser_step_eq]

/-! ### divider phase: `e` = number of cycles until the baud pulse is visible -/
def Ph (n : Nat) (d : Div) (z e : Nat) : Prop :=
  (d.clk = 0 ∧ d.q < n ∧ e + d.q = n ∧ (d.q ≠ 0 → z = 0) ∧ z ≤ 1) ∨
  (d.clk = 1 ∧ d.q < n ∧ ((d.q = 0 ∧ e = 0 ∧ z = 0) ∨ (d.q ≠ 0 ∧ e + d.q = 2 * n ∧ z = 1)))

theorem no_wrap (n q : Nat) (h : q < n) : (q + 1) % 2 ^ (Nat.log2 n + 1) = q + 1 := by
  apply Nat.mod_eq_of_lt
  have := @Nat.lt_log2_self n
  omega

theorem ph_init (n : Nat) (hn : 1 ≤ n) : Ph n Div.init 0 n := by
  left; simp [Div.init]; omega

theorem ph_pulse (n : Nat) (d : Div) (z e : Nat) (h : Ph n d z e) :
    (edgePos d.clk z = if e = 0 then 1 else 0) := by
  rcases h with ⟨hc, hq, he, hz, hz1⟩ | ⟨hc, hq, ⟨h0, he, hz⟩ | ⟨h0, he, hz⟩⟩
  · have : e ≠ 0 := by omega
    simp [edgePos, and1, not1, hc, this]
  · simp [edgePos, and1, not1, hc, he, hz]
  · have : e ≠ 0 := by omega
    simp [edgePos, and1, not1, hc, hz, this]

def nextE (n e : Nat) : Nat := if e = 0 then 2 * n - 1 else e - 1

theorem ph_step (n : Nat) (hn : 1 ≤ n) (d : Div) (z e : Nat) (h : Ph n d z e) :
    Ph n (d.step n 0) d.clk (nextE n e) := by
  obtain ⟨q, clk⟩ := d
  rcases h with ⟨hc, hq, he, hz, hz1⟩ | ⟨hc, hq, ⟨h0, he, hz⟩ | ⟨h0, he, hz⟩⟩
  · simp only at hc hq he hz
    subst hc
    by_cases hk : q = n - 1
    · right
      have : e = 1 := by omega
      simp [Div.step, Div.carry, hk, or1, not1, nextE, this]; omega
    · left
      have hq' : q + 1 < n := by omega
      have : e ≠ 0 := by omega
      simp [Div.step, Div.carry, hk, or1, not1, nextE, no_wrap n q hq, this]; omega
  · simp only at hc hq h0 he hz
    subst hc; subst h0; subst he
    by_cases hk : 0 = n - 1
    · left
      simp [Div.step, Div.carry, ← hk, or1, not1, nextE]; omega
    · right
      have hk' : ¬ (n - 1 = 0) := by omega
      simp [Div.step, Div.carry, hk, hk', or1, not1, nextE, no_wrap n 0 hq]; omega
  · simp only at hc hq h0 he hz
    subst hc
    have : e ≠ 0 := by omega
    by_cases hk : q = n - 1
    · left
      simp [Div.step, Div.carry, hk, or1, not1, nextE, this]; omega
    · right
      simp [Div.step, Div.carry, hk, or1, not1, nextE, no_wrap n q hq, this]; omega


/-! ### serializer position: mode + cycles to the next pulse determine the serializer state completely -/
inductive Mode where
  | gap (tx j : Nat)        -- state 0 (power-up: tx = 0; after a frame: tx = 1)
  | ready (j : Nat)         -- state 1, ready = 1
  | wait (b : Nat)          -- state 2: byte taken, waiting for the baud pulse
  | frame (b i : Nat)       -- i = 0 start bit (state 3), 1..8 data bits (state 4), 9 stop bit (state 5)
deriving Repr, DecidableEq

/-- 8N1 frame bit i of byte b: start (0), data LSB first, stop (1) -/
def fb (b i : Nat) : Nat := if i = 0 then 0 else if i ≤ 8 then (b / 2 ^ (i - 1)) % 2 else 1
def fbPrev (b i : Nat) : Nat := if i = 0 then 1 else fb b (i - 1)

def serOf (n : Nat) : Mode → Nat → SerN
  | .gap tx j, _ => ⟨0, 0, j, tx, 0⟩
  | .ready j, _ => ⟨1, 0, j, 1, 1⟩
  | .wait b, _ => ⟨2, 0, b, 1, 0⟩
  | .frame b i, e =>
    if i = 0 then ⟨3, if e = 2 * n - 1 then 0 else 7, b, if e = 2 * n - 1 then 1 else 0, 0⟩
    else if i ≤ 8 then ⟨4, 8 - i, b / 2 ^ (i - 1), if e = 2 * n - 1 then fb b (i - 1) else fb b i, 0⟩
    else ⟨5, 0, b / 2 ^ 8, if e = 2 * n - 1 then fb b 8 else 1, 0⟩

def nextMode (m : Mode) (e valid v : Nat) : Mode :=
  match m with
  | .gap _ j => .ready j
  | .ready j => if valid ≠ 0 then .wait v else .ready j
  | .wait b => if e = 0 then .frame b 0 else .wait b
  | .frame b i => if e = 0 then (if i < 9 then .frame b (i + 1) else .gap 1 (b / 2 ^ 8)) else .frame b i

def Mode.wf : Mode → Prop
  | .frame _ i => i ≤ 9
  | _ => True

/-- the transmit side is at position (m, e) -/
structure TxInv (n : Nat) (s : TxN) (m : Mode) (e : Nat) : Prop where
  ph : Ph n s.div s.z e
  lt : e < 2 * n
  wf : m.wf
  ser : s.ser = serOf n m e

theorem nextE_lt (n e : Nat) (hn : 1 ≤ n) (h : e < 2 * n) : nextE n e < 2 * n := by
  unfold nextE; split <;> omega

theorem div_pow_succ (b k : Nat) : b / 2 ^ k / 2 = b / 2 ^ (k + 1) := by
  rw [Nat.div_div_eq_div_mul, Nat.pow_succ]

theorem tx_inv_step (n : Nat) (hn : 2 ≤ n) (s : TxN) (m : Mode) (e valid v : Nat) (h : TxInv n s m e) :
    TxInv n (s.step n valid v) (nextMode m e valid v) (nextE n e) := by
  obtain ⟨ph, lt, wf, ser⟩ := h
  have hp : s.pulse = if e = 0 then 1 else 0 := ph_pulse n s.div s.z e ph
  refine ⟨ph_step n (by omega) _ _ _ ph, nextE_lt n e (by omega) lt, ?_, ?_⟩
  · cases m with
    | gap tx j => trivial
    | ready j => simp only [nextMode]; split <;> trivial
    | wait b => simp only [nextMode]; split <;> simp [Mode.wf]
    | frame b i =>
      simp only [nextMode]
      simp only [Mode.wf] at wf
      split
      · split
        · simp [Mode.wf]; omega
        · trivial
      · exact wf
  · show serSpec s.ser valid v s.pulse = _
    rw [ser, hp]
    cases m with
    | gap tx j => simp [serOf, serSpec, nextMode]
    | ready j =>
      by_cases hv : valid = 0 <;> simp [serOf, serSpec, nextMode, hv]
    | wait b =>
      by_cases he : e = 0
      · subst he
        have : nextE n 0 = 2 * n - 1 := by simp [nextE]
        simp [serOf, serSpec, nextMode, this]
      · simp [serOf, serSpec, nextMode, he]
    | frame b i =>
      simp only [Mode.wf] at wf
      by_cases he : e = 0
      · have hne : nextE n e = 2 * n - 1 := by simp [nextE, he]
        have h0 : ¬ (0 = 2 * n - 1) := by omega
        by_cases hi0 : i = 0
        · subst hi0; subst he
          simp [serOf, serSpec, nextMode, hne, h0, fb]
        · by_cases hi8 : i ≤ 8
          · by_cases hi8' : i = 8
            · subst hi8'; subst he
              simp [serOf, serSpec, nextMode, hne, h0, fb]
              omega
            · have a1 : i < 9 := by omega
              have a2 : i + 1 ≤ 8 := by omega
              have a3 : ¬ (8 - i = 0) := by omega
              have a4 : 8 - i - 1 = 8 - (i + 1) := by omega
              have a5 : b / 2 ^ (i - 1) / 2 = b / 2 ^ i := by
                have := div_pow_succ b (i - 1)
                have e2 : i - 1 + 1 = i := by omega
                rw [e2] at this; exact this
              subst he
              simp [serOf, serSpec, nextMode, hne, h0, fb, hi0, hi8, a1, a2, a3, a4, a5]
          · have : i = 9 := by omega
            subst this; subst he
            simp [serOf, serSpec, nextMode, hne, h0, fb]
      · have hne : nextE n e = e - 1 := by simp [nextE, he]
        have h0 : ¬ (e - 1 = 2 * n - 1) := by omega
        by_cases hi0 : i = 0
        · subst hi0
          simp [serOf, serSpec, nextMode, hne, h0, he, fb]
        · by_cases hi8 : i ≤ 8
          · simp [serOf, serSpec, nextMode, hne, h0, he, fb, hi0, hi8]
          · have : i = 9 := by omega
            subst this
            simp [serOf, serSpec, nextMode, hne, h0, he, fb]

theorem tx_inv_init (n : Nat) (hn : 1 ≤ n) : TxInv n TxN.init (.gap 0 0) n :=
  ⟨ph_init n hn, by omega, trivial, rfl⟩


/-! ### the software receiver's state is a function of the transmitter position -/
def softOf (n : Nat) (m : Mode) (e : Nat) : SoftRx :=
  match m with
  | .gap tx _ => SoftRx.idle tx
  | .ready _ => SoftRx.idle 1
  | .wait _ => SoftRx.idle 1
  | .frame b i =>
    if i = 0 ∧ e = 2 * n - 1 then SoftRx.idle 1
    else if n - 1 ≤ e then { prev := (serOf n (.frame b i) e).tx, busy := true, timer := e + 1 - n, idx := i, acc := b % 2 ^ (i - 1) }
    else if i = 9 then SoftRx.idle 1
    else { prev := (serOf n (.frame b i) e).tx, busy := true, timer := n + 1 + e, idx := i + 1, acc := b % 2 ^ i }

/-- byte emitted by the software receiver on arriving at position (m, e): mid stop bit -/
def emitOf (n : Nat) (m : Mode) (e : Nat) : Option Nat :=
  match m with
  | .frame b i => if i = 9 ∧ e = n - 2 then some (b % 256) else none
  | _ => none

theorem acc_step (b i : Nat) (h1 : 1 ≤ i) : b % 2 ^ (i - 1) + (b / 2 ^ (i - 1) % 2 % 2) * 2 ^ (i - 1) = b % 2 ^ i := by
  have := @Nat.mod_pow_succ b 2 (i - 1)
  have e2 : i - 1 + 1 = i := by omega
  rw [e2] at this
  rw [this, Nat.mod_mod, Nat.mul_comm]

theorem two_n_half (n : Nat) : 2 * n / 2 = n := Nat.mul_div_cancel_left n (by decide)

theorem soft_step (n : Nat) (hn : 2 ≤ n) (m : Mode) (e valid v : Nat) (wf : m.wf) (lt : e < 2 * n) :
    SoftRx.step (2 * n) (softOf n m e) (serOf n (nextMode m e valid v) (nextE n e)).tx =
      (softOf n (nextMode m e valid v) (nextE n e), emitOf n (nextMode m e valid v) (nextE n e)) := by
  cases m with
  | gap tx j => simp [softOf, serOf, nextMode, SoftRx.step, SoftRx.idle, emitOf]
  | ready j =>
    by_cases hv : valid = 0 <;> simp [softOf, serOf, nextMode, SoftRx.step, SoftRx.idle, emitOf, hv]
  | wait b =>
    by_cases he : e = 0
    · subst he
      have : nextE n 0 = 2 * n - 1 := by simp [nextE]
      simp [softOf, serOf, nextMode, SoftRx.step, SoftRx.idle, emitOf, this]
    · simp [softOf, serOf, nextMode, SoftRx.step, SoftRx.idle, emitOf, he]
  | frame b i =>
    simp only [Mode.wf] at wf
    have hcase : e = 0 ∨ (0 < e ∧ e + 2 ≤ n) ∨ e + 1 = n ∨ (n ≤ e ∧ e + 2 ≤ 2 * n) ∨ e + 1 = 2 * n := by omega
    have hi : i = 0 ∨ (1 ≤ i ∧ i ≤ 8) ∨ i = 9 := by omega
    rcases hcase with he | ⟨he1, he2⟩ | he | ⟨he1, he2⟩ | he
    · -- A: pulse cycle
      subst he
      have hne : nextE n 0 = 2 * n - 1 := by simp [nextE]
      have a0 : ¬ (n - 1 ≤ 0) := by omega
      have a1 : ¬ (0 = 2 * n - 1) := by omega
      have a2 : n - 1 ≤ 2 * n - 1 := by omega
      have a3 : 2 * n - 1 + 1 - n = n := by omega
      have a4 : ¬ (n + 1 = 0) := by omega
      have a5 : ¬ (2 * n - 1 = n - 2) := by omega
      rcases hi with h | ⟨h1, h2⟩ | h
      · subst h
        simp [softOf, serOf, nextMode, SoftRx.step, SoftRx.idle, emitOf, hne, a0, a1, a2, a3, a4, a5, fb]
      · have b1 : ¬ (i = 0) := by omega
        have b2 : i < 9 := by omega
        have b3 : ¬ (i = 9) := by omega
        by_cases h8 : i = 8
        · subst h8
          simp [softOf, serOf, nextMode, SoftRx.step, SoftRx.idle, emitOf, hne, a0, a1, a2, a3, a4, a5, fb]
        · have b4 : i + 1 ≤ 8 := by omega
          simp [softOf, serOf, nextMode, SoftRx.step, SoftRx.idle, emitOf, hne, a0, a1, a2, a3, a4, a5, fb, b1, b2, b3, b4, h2]
      · subst h
        simp [softOf, serOf, nextMode, SoftRx.step, SoftRx.idle, emitOf, hne, a0, a1, a2, a3, a4, a5, fb]
    · -- B: after the sampling point
      have he0 : ¬ (e = 0) := by omega
      have hne : nextE n e = e - 1 := by simp [nextE, he0]
      have a0 : ¬ (n - 1 ≤ e) := by omega
      have a1 : ¬ (n - 1 ≤ e - 1) := by omega
      have a2 : ¬ (e = 2 * n - 1) := by omega
      have a3 : ¬ (e - 1 = 2 * n - 1) := by omega
      have a4 : ¬ (n + 1 + e = 0) := by omega
      have a5 : n + 1 + e - 1 = n + 1 + (e - 1) := by omega
      have a6 : ¬ (e - 1 = n - 2) := by omega
      rcases hi with h | ⟨h1, h2⟩ | h
      · subst h
        simp [softOf, serOf, nextMode, SoftRx.step, SoftRx.idle, emitOf, hne, he0, a0, a1, a2, a3, a4, a5, a6, fb]
      · have b1 : ¬ (i = 0) := by omega
        have b3 : ¬ (i = 9) := by omega
        simp [softOf, serOf, nextMode, SoftRx.step, SoftRx.idle, emitOf, hne, he0, a0, a1, a2, a3, a4, a5, a6, fb, b1, b3, h2]
      · subst h
        simp [softOf, serOf, nextMode, SoftRx.step, SoftRx.idle, emitOf, hne, he0, a0, a1, a2, a3, a4, a5, a6, fb]
    · -- C: the sampling cycle
      have he' : e = n - 1 := by omega
      subst he'
      have he0 : ¬ (n - 1 = 0) := by omega
      have hne : nextE n (n - 1) = n - 2 := by simp [nextE, he0]; omega
      have c1 : ¬ (n - 1 ≤ n - 2) := by omega
      have c1' : ¬ (n ≤ n - 2 + 1) := by omega
      have c2 : ¬ (n - 1 = 2 * n - 1) := by omega
      have c3 : ¬ (n - 2 = 2 * n - 1) := by omega
      have c4 : n - 1 + 1 - n = 0 := by omega
      have c5 : n + 1 + (n - 2) = 2 * n - 1 := by omega
      rcases hi with h | ⟨h1, h2⟩ | h
      · subst h
        simp [softOf, serOf, nextMode, SoftRx.step, SoftRx.idle, emitOf, hne, he0, c1, c1', c2, c3, c4, c5, fb, Nat.mod_one]
      · have b1 : ¬ (i = 0) := by omega
        have b3 : ¬ (i = 9) := by omega
        have := acc_step b i h1
        rw [Nat.mod_mod] at this
        simp [softOf, serOf, nextMode, SoftRx.step, SoftRx.idle, emitOf, hne, he0, c1, c1', c2, c3, c4, c5, fb, b1, b3, h2, this]
      · subst h
        simp [softOf, serOf, nextMode, SoftRx.step, SoftRx.idle, emitOf, hne, he0, c1, c1', c2, c3, c4, c5, fb]
    · -- D: before the sampling point, not the first cycle of the bit
      have he0 : ¬ (e = 0) := by omega
      have hne : nextE n e = e - 1 := by simp [nextE, he0]
      have a0 : n - 1 ≤ e := by omega
      have a1 : n - 1 ≤ e - 1 := by omega
      have a2 : ¬ (e = 2 * n - 1) := by omega
      have a3 : ¬ (e - 1 = 2 * n - 1) := by omega
      have a4 : ¬ (e + 1 - n = 0) := by omega
      have a5 : e + 1 - n - 1 = e - 1 + 1 - n := by omega
      have a6 : ¬ (e - 1 = n - 2) := by omega
      rcases hi with h | ⟨h1, h2⟩ | h
      · subst h
        simp [softOf, serOf, nextMode, SoftRx.step, SoftRx.idle, emitOf, hne, he0, a0, a1, a2, a3, a4, a5, a6, fb]
      · have b1 : ¬ (i = 0) := by omega
        simp [softOf, serOf, nextMode, SoftRx.step, SoftRx.idle, emitOf, hne, he0, a0, a1, a2, a3, a4, a5, a6, fb, b1, h2]
      · subst h
        simp [softOf, serOf, nextMode, SoftRx.step, SoftRx.idle, emitOf, hne, he0, a0, a1, a2, a3, a4, a5, a6, fb]
    · -- E: first cycle of the bit (line still shows the previous bit)
      have he' : e = 2 * n - 1 := by omega
      subst he'
      have he0 : ¬ (2 * n - 1 = 0) := by omega
      have hne : nextE n (2 * n - 1) = 2 * n - 1 - 1 := by simp [nextE, he0]
      have a0 : n - 1 ≤ 2 * n - 1 := by omega
      have a1 : n - 1 ≤ 2 * n - 1 - 1 := by omega
      have a3 : ¬ (2 * n - 1 - 1 = 2 * n - 1) := by omega
      have a4 : ¬ (2 * n - 1 + 1 - n = 0) := by omega
      have a5 : 2 * n - 1 + 1 - n - 1 = 2 * n - 1 - 1 + 1 - n := by omega
      have a6 : ¬ (2 * n - 1 - 1 = n - 2) := by omega
      have a7 : 2 * n - 1 - 1 + 1 - n = n - 1 := by omega
      rcases hi with h | ⟨h1, h2⟩ | h
      · subst h
        simp [softOf, serOf, nextMode, SoftRx.step, SoftRx.idle, emitOf, hne, he0, a0, a1, a3, a4, a5, a6, a7, fb, two_n_half, Nat.mod_one]
      · have b1 : ¬ (i = 0) := by omega
        simp [softOf, serOf, nextMode, SoftRx.step, SoftRx.idle, emitOf, hne, he0, a0, a1, a3, a4, a5, a6, a7, fb, b1, h2]
      · subst h
        simp [softOf, serOf, nextMode, SoftRx.step, SoftRx.idle, emitOf, hne, he0, a0, a1, a3, a4, a5, a6, a7, fb]


/-! ### runs: the software receiver's output is the accepted bytes, at most one byte behind -/
/-- byte accepted but not yet emitted by the software receiver at position (m, e) -/
def pend (n : Nat) (m : Mode) (e : Nat) : List Nat :=
  match m with
  | .wait b => [b % 256]
  | .frame b i => if i = 9 ∧ e + 2 ≤ n then [] else [b % 256]
  | _ => []

def accOf (m : Mode) (valid v : Nat) : Option Nat :=
  match m with
  | .ready _ => if valid ≠ 0 then some v else none
  | _ => none

theorem optCons_eq (o : Option Nat) (l : List Nat) : optCons o l = o.toList ++ l := by
  cases o <;> rfl

theorem pend_step (n : Nat) (hn : 2 ≤ n) (m : Mode) (e valid v : Nat) (wf : m.wf) (lt : e < 2 * n) :
    pend n m e ++ (accOf m valid v).toList.map (· % 256) =
      (emitOf n (nextMode m e valid v) (nextE n e)).toList ++ pend n (nextMode m e valid v) (nextE n e) := by
  cases m with
  | gap tx j => simp [pend, accOf, nextMode, emitOf]
  | ready j => by_cases hv : valid = 0 <;> simp [pend, accOf, nextMode, emitOf, hv]
  | wait b =>
    by_cases he : e = 0 <;> simp [pend, accOf, nextMode, emitOf, he]
  | frame b i =>
    simp only [Mode.wf] at wf
    by_cases he : e = 0
    · subst he
      have hne : nextE n 0 = 2 * n - 1 := by simp [nextE]
      by_cases hi : i < 9
      · have a1 : ¬ (i = 9) := by omega
        have a2 : ¬ (2 * n - 1 + 2 ≤ n) := by omega
        have a3 : ¬ (2 * n - 1 = n - 2) := by omega
        simp [pend, accOf, nextMode, emitOf, hne, hi, a1, a2, a3]
      · have : i = 9 := by omega
        subst this
        simp [pend, accOf, nextMode, emitOf, hne]; omega
    · have hne : nextE n e = e - 1 := by simp [nextE, he]
      by_cases hi : i = 9
      · subst hi
        have hc : e + 2 ≤ n ∨ e + 1 = n ∨ n ≤ e := by omega
        rcases hc with h | h | h
        · have a1 : e - 1 + 2 ≤ n := by omega
          have a2 : ¬ (e - 1 = n - 2) := by omega
          simp [pend, accOf, nextMode, emitOf, hne, he, h, a1, a2]
        · have a0 : ¬ (e + 2 ≤ n) := by omega
          have a1 : e - 1 + 2 ≤ n := by omega
          have a2 : e - 1 = n - 2 := by omega
          simp [pend, accOf, nextMode, emitOf, hne, he, a0, a1, a2]
          omega
        · have a0 : ¬ (e + 2 ≤ n) := by omega
          have a1 : ¬ (e - 1 + 2 ≤ n) := by omega
          have a2 : ¬ (e - 1 = n - 2) := by omega
          simp [pend, accOf, nextMode, emitOf, hne, he, a0, a1, a2]
      · simp [pend, accOf, nextMode, emitOf, hne, he, hi]

theorem ready_iff (n : Nat) (m : Mode) (e : Nat) : (serOf n m e).ready = 1 ↔ ∃ j, m = .ready j := by
  cases m with
  | gap tx j => simp [serOf]
  | ready j => simp [serOf]
  | wait b => simp [serOf]
  | frame b i => simp only [serOf]; split <;> (try split) <;> simp

theorem accept_eq (n : Nat) (s : TxN) (m : Mode) (e valid v : Nat) (h : TxInv n s m e) :
    s.toTx.accept valid v = accOf m valid v := by
  have hr := ready_iff n m e
  rw [← h.ser] at hr
  cases m with
  | ready j =>
    have : s.ser.ready = 1 := hr.mpr ⟨j, rfl⟩
    simp [TxSide.accept, TxN.toTx, SerN.toSer, accOf, this]
  | gap tx j =>
    have : ¬ (s.ser.ready = 1) := by rw [hr]; simp
    simp [TxSide.accept, TxN.toTx, SerN.toSer, accOf, this]
  | wait b =>
    have : ¬ (s.ser.ready = 1) := by rw [hr]; simp
    simp [TxSide.accept, TxN.toTx, SerN.toSer, accOf, this]
  | frame b i =>
    have : ¬ (s.ser.ready = 1) := by rw [hr]; simp
    simp [TxSide.accept, TxN.toTx, SerN.toSer, accOf, this]

def TxN.run (n : Nat) : TxN → List (Nat × Nat) → TxN
  | s, [] => s
  | s, (valid, v) :: is => TxN.run n (s.step n valid v) is

/-- main run invariant -/
theorem run_inv (n : Nat) (hn : 2 ≤ n) (ins : List (Nat × Nat)) :
    ∀ (s : TxN) (m : Mode) (e : Nat), TxInv n s m e →
      ∃ m' e', TxInv n (TxN.run n s ins) m' e' ∧ TxSide.run n s.toTx ins = (TxN.run n s ins).toTx ∧
        pend n m e ++ (TxSide.accepted n s.toTx ins).map (· % 256) =
          SoftRx.run (2 * n) (softOf n m e) (TxSide.trace n s.toTx ins) ++ pend n m' e' := by
  induction ins with
  | nil => intro s m e h; exact ⟨m, e, h, rfl, by simp [TxSide.accepted, TxSide.trace, SoftRx.run]⟩
  | cons i is ih =>
    intro s m e h
    obtain ⟨valid, v⟩ := i
    have h' := tx_inv_step n hn s m e valid v h
    obtain ⟨m', e', hinv, hrun, hlist⟩ := ih _ _ _ h'
    refine ⟨m', e', hinv, ?_, ?_⟩
    · simp only [TxSide.run, TxN.run, tx_step_eq]; exact hrun
    · have htx : (s.toTx.step n valid v).ser.tx = (serOf n (nextMode m e valid v) (nextE n e)).tx := by
        rw [tx_step_eq, ← h'.ser]; rfl
      have hs := soft_step n hn m e valid v h.wf h.lt
      have hp := pend_step n hn m e valid v h.wf h.lt
      simp only [TxSide.accepted, TxSide.trace, SoftRx.run, optCons_eq, htx, hs, accept_eq n s m e valid v h,
        List.map_append, ← List.append_assoc, hp]
      rw [tx_step_eq] at *
      simp only [List.append_assoc]
      rw [← hlist]

end C17
