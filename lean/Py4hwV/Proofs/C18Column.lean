import Py4hwV.Schem.Column
/-
  C18 — what columnAssignment's depth-first levelling guarantees, for every netlist (cyclic ones included).
-/
namespace Schem.Column

/-- child j has an input driven by child k -/
def Reads (d : Design) (j k : Nat) : Prop := Src.inst k ∈ instSrcs d j

instance (d : Design) (j k : Nat) : Decidable (Reads d j k) := by unfold Reads; infer_instance

/-- j depends on k: j reads … reads k (reflexive) -/
inductive Dep (d : Design) : Nat → Nat → Prop
  | refl (a : Nat) : Dep d a a
  | step {a b c : Nat} : Reads d a b → Dep d b c → Dep d a c

theorem Dep.trans {d : Design} {a b c : Nat} (h1 : Dep d a b) (h2 : Dep d b c) : Dep d a c := by
  induction h1 with
  | refl => exact h2
  | step hr _ ih => exact Dep.step hr (ih h2)

theorem Dep.single {d : Design} {a b : Nat} (h : Reads d a b) : Dep d a b := Dep.step h (Dep.refl b)

theorem mem_sourceTable_inst (d : Design) (k w : Nat) (h : (Src.inst k, w) ∈ sourceTable d) : k < d.insts.length := by
  unfold sourceTable at h
  rcases List.mem_append.1 h with h | h
  · obtain ⟨p, _, hp⟩ := List.mem_filterMap.1 h
    cases hq : d.inp[p]? with
    | none => simp [hq] at hp
    | some w' => simp [hq] at hp
  · obtain ⟨k', hk', hm⟩ := List.mem_flatMap.1 h
    cases hi : d.insts[k']? with
    | none => simp [hi] at hm
    | some inst =>
      simp only [hi, List.mem_map] at hm
      obtain ⟨_, _, e⟩ := hm
      simp only [Prod.mk.injEq, Src.inst.injEq] at e
      rw [← e.1]; exact List.mem_range.1 hk'

theorem reads_lt (d : Design) (j k : Nat) (h : Reads d j k) : j < d.insts.length ∧ k < d.insts.length := by
  unfold Reads instSrcs at h
  cases hi : d.insts[j]? with
  | none => simp [hi] at h
  | some inst =>
    simp only [hi, List.mem_flatMap, List.mem_map, List.mem_filter] at h
    obtain ⟨w, _, e, ⟨he, _⟩, he1⟩ := h
    refine ⟨(List.getElem?_eq_some_iff.1 hi).1, ?_⟩
    obtain ⟨s, w'⟩ := e
    simp only at he1
    subst he1
    exact mem_sourceTable_inst d k w' he

/- ---------------------------------------------------------------- fuel: nodes that can still be opened -/
def isFree (st : St) (x : Nat) : Bool := (st.lv x).isNone && !st.stack.contains x

def free (d : Design) (st : St) : Nat := (List.range d.insts.length).countP (isFree st)

theorem countP_split (l : List Nat) (q : Nat → Bool) (j : Nat) :
    l.countP q = l.countP (fun x => q x && (x != j)) + l.countP (fun x => q x && (x == j)) := by
  induction l with
  | nil => rfl
  | cons a l ih =>
    simp only [List.countP_cons, ih]
    cases q a <;> by_cases h : a = j <;> simp [h] <;> omega

theorem free_push (d : Design) (st : St) (j : Nat) (hj : j < d.insts.length) (hn : st.lv j = none) (hs : j ∉ st.stack) :
    free d { st with stack := j :: st.stack } + 1 ≤ free d st := by
  unfold free
  rw [countP_split (List.range d.insts.length) (isFree st) j]
  have h1 : (List.range d.insts.length).countP (isFree { st with stack := j :: st.stack }) ≤
      (List.range d.insts.length).countP (fun x => isFree st x && (x != j)) := by
    apply List.countP_mono_left
    intro x _ hx
    simp only [isFree, Bool.and_eq_true, Option.isNone_iff_eq_none, Bool.not_eq_true', List.contains_cons,
      Bool.or_eq_false_iff, beq_eq_false_iff_ne, ne_eq, bne_iff_ne] at hx ⊢
    exact ⟨⟨hx.1, hx.2.2⟩, hx.2.1⟩
  have h2 : 0 < (List.range d.insts.length).countP (fun x => isFree st x && (x == j)) := by
    apply List.countP_pos_iff.2
    refine ⟨j, List.mem_range.2 hj, ?_⟩
    simp [isFree, hn, hs]
  omega

theorem free_mono (d : Design) (st st' : St) (hs : st'.stack = st.stack)
    (hm : ∀ x v, st.lv x = some v → st'.lv x = some v) : free d st' ≤ free d st := by
  unfold free
  apply List.countP_mono_left
  intro x _ hx
  simp only [isFree, Bool.and_eq_true, Option.isNone_iff_eq_none, Bool.not_eq_true'] at hx ⊢
  rw [hs] at hx
  refine ⟨?_, hx.2⟩
  cases h : st.lv x with
  | none => rfl
  | some v => rw [hm x v h] at hx; exact absurd hx.1 (by simp)

/- ---------------------------------------------------------------- the invariant -/
structure G (d : Design) (st : St) : Prop where
  pos : ∀ j l, st.lv j = some l → 1 ≤ l
  fresh : ∀ k ∈ st.stack, st.lv k = none
  edge : ∀ j lj, st.lv j = some lj → ∀ k, Reads d j k → k ≠ j →
    (∃ lk, st.lv k = some lk ∧ lk < lj) ∨ (st.lv k = none ∧ k ∈ st.stack ∧ Dep d k j) ∨
    (∃ lk, st.lv k = some lk ∧ lj < lk ∧ Dep d k j)

def Pre (d : Design) (f : Nat) (st : St) (k : Nat) : Prop :=
  G d st ∧ (∀ a ∈ st.stack, Dep d a k) ∧ k < d.insts.length ∧ free d st < f

structure Post (d : Design) (st : St) (k : Nat) (st' : St) (r : Option Nat) : Prop where
  g : G d st'
  stack : st'.stack = st.stack
  mono : ∀ x v, st.lv x = some v → st'.lv x = some v
  some_ : ∀ l, r = some l → st'.lv k = some l ∧ (∀ x lx, st.lv x = none → st'.lv x = some lx → lx ≤ l ∧ (x ≠ k → lx < l))
  none_ : r = none → st' = st ∧ k ∈ st.stack

def Spec (d : Design) (f : Nat) (rec : St → Nat → St × Option Nat) : Prop :=
  ∀ st k, Pre d f st k → Post d st k (rec st k).1 (rec st k).2

/-- what is known about a source k of j once the loop has passed it -/
def Done (S0 : List Nat) (acc : St × Nat) (k : Nat) : Prop :=
  (∃ lk, acc.1.lv k = some lk ∧ lk ≤ acc.2) ∨ (acc.1.lv k = none ∧ k ∈ S0)

structure FInv (d : Design) (f : Nat) (st1 : St) (j : Nat) (S0 : List Nat) (acc : St × Nat) : Prop where
  g : G d acc.1
  stack : acc.1.stack = j :: S0
  mono : ∀ x v, st1.lv x = some v → acc.1.lv x = some v
  bound : ∀ x lx, st1.lv x = none → acc.1.lv x = some lx → lx ≤ acc.2
  fr : free d acc.1 < f

theorem foldSrcs_spec (d : Design) (f : Nat) (rec : St → Nat → St × Option Nat) (hrec : Spec d f rec)
    (st1 : St) (j : Nat) (S0 : List Nat) (hdep : ∀ a ∈ j :: S0, Dep d a j) :
    ∀ (srcs : List Src) (acc : St × Nat) (Q : Nat → Prop),
      (∀ k, Src.inst k ∈ srcs → Reads d j k) →
      FInv d f st1 j S0 acc → (∀ k, Q k → Done S0 acc k) →
      FInv d f st1 j S0 (foldSrcs rec j srcs acc) ∧
      (∀ k, (Q k ∨ (Src.inst k ∈ srcs ∧ k ≠ j)) → Done S0 (foldSrcs rec j srcs acc) k) := by
  intro srcs
  induction srcs with
  | nil =>
    intro acc Q _ hinv hq
    simp only [foldSrcs]
    refine ⟨hinv, ?_⟩
    intro k hk
    rcases hk with hk | hk
    · exact hq k hk
    · simp at hk
  | cons s rest ih =>
    intro acc Q hreads hinv hq
    have hreads' : ∀ k, Src.inst k ∈ rest → Reads d j k := fun k hk => hreads k (List.mem_cons_of_mem _ hk)
    cases s with
    | input p =>
      simp only [foldSrcs]
      obtain ⟨h1, h2⟩ := ih acc Q hreads' hinv hq
      refine ⟨h1, ?_⟩
      intro k hk
      apply h2 k
      rcases hk with hk | hk
      · exact Or.inl hk
      · right
        refine ⟨?_, hk.2⟩
        rcases List.mem_cons.1 hk.1 with h | h
        · cases h
        · exact h
    | inst k0 =>
      simp only [foldSrcs]
      split
      · -- k0 = j : skipped
        rename_i hk0
        obtain ⟨h1, h2⟩ := ih acc Q hreads' hinv hq
        refine ⟨h1, ?_⟩
        intro k hk
        apply h2 k
        rcases hk with hk | hk
        · exact Or.inl hk
        · right
          refine ⟨?_, hk.2⟩
          rcases List.mem_cons.1 hk.1 with h | h
          · simp only [Src.inst.injEq] at h
            exact absurd (h.trans hk0) hk.2
          · exact h
      · rename_i hk0
        have hr0 : Reads d j k0 := hreads k0 (by simp)
        -- the recursive call
        have hpre : Pre d f acc.1 k0 := by
          refine ⟨hinv.g, ?_, (reads_lt d j k0 hr0).2, hinv.fr⟩
          intro a ha
          rw [hinv.stack] at ha
          exact Dep.trans (hdep a ha) (Dep.single hr0)
        have hpost := hrec acc.1 k0 hpre
        -- the new accumulator satisfies the invariant
        have hinv' : FInv d f st1 j S0 ((rec acc.1 k0).1,
            match (rec acc.1 k0).2 with | some v => max acc.2 v | none => acc.2) := by
          refine ⟨hpost.g, by rw [hpost.stack, hinv.stack], ?_, ?_, ?_⟩
          · intro x v hx
            exact hpost.mono x v (hinv.mono x v hx)
          · intro x lx hx1 hx2
            simp only at hx2 ⊢
            cases hax : acc.1.lv x with
            | some v =>
              have h5 := hpost.mono x v hax
              rw [h5] at hx2
              have e : v = lx := Option.some.inj hx2
              have h6 := hinv.bound x v hx1 hax
              split <;> omega
            | none =>
              cases hr : (rec acc.1 k0).2 with
              | none =>
                have := (hpost.none_ hr).1
                rw [this, hax] at hx2
                cases hx2
              | some l =>
                have := ((hpost.some_ l hr).2 x lx hax hx2).1
                simp only
                omega
          · exact Nat.lt_of_le_of_lt (free_mono d acc.1 _ hpost.stack hpost.mono) hinv.fr
        -- everything done before stays done, and k0 is done now
        have hq' : ∀ k, (Q k ∨ k = k0) → Done S0 ((rec acc.1 k0).1,
            match (rec acc.1 k0).2 with | some v => max acc.2 v | none => acc.2) k := by
          intro k hk
          rcases hk with hk | hk
          · rcases hq k hk with ⟨lk, h1, h2⟩ | ⟨h1, h2⟩
            · left
              refine ⟨lk, hpost.mono k lk h1, ?_⟩
              simp only
              split <;> omega
            · right
              refine ⟨?_, h2⟩
              apply hpost.g.fresh
              rw [hpost.stack, hinv.stack]
              exact List.mem_cons_of_mem _ h2
          · subst hk
            cases hr : (rec acc.1 k).2 with
            | none =>
              right
              obtain ⟨he, hm⟩ := hpost.none_ hr
              rw [hinv.stack] at hm
              have hkS : k ∈ S0 := by
                rcases List.mem_cons.1 hm with h | h
                · exact absurd h hk0
                · exact h
              refine ⟨?_, hkS⟩
              apply hpost.g.fresh
              rw [hpost.stack, hinv.stack]
              exact List.mem_cons_of_mem _ hkS
            | some l =>
              left
              refine ⟨l, (hpost.some_ l hr).1, ?_⟩
              simp only
              omega
        obtain ⟨h1, h2⟩ := ih _ (fun k => Q k ∨ k = k0) hreads' hinv' hq'
        refine ⟨h1, ?_⟩
        intro k hk
        apply h2 k
        rcases hk with hk | hk
        · exact Or.inl (Or.inl hk)
        · rcases List.mem_cons.1 hk.1 with h | h
          · simp only [Src.inst.injEq] at h
            exact Or.inl (Or.inr h)
          · exact Or.inr ⟨h, hk.2⟩

theorem getLevel_spec (d : Design) : ∀ f, Spec d f (getLevel d f) := by
  intro f
  induction f with
  | zero =>
    intro st k hpre
    exact absurd hpre.2.2.2 (Nat.not_lt_zero _)
  | succ f ih =>
    intro st j hpre
    obtain ⟨hg, hdep, hj, hfree⟩ := hpre
    simp only [getLevel]
    cases hl : st.lv j with
    | some l =>
      simp only
      refine ⟨hg, rfl, fun _ _ h => h, ?_, ?_⟩
      · intro l' e
        simp only [Option.some.injEq] at e
        subst e
        refine ⟨hl, ?_⟩
        intro x lx h1 h2
        rw [h1] at h2
        cases h2
      · intro e; cases e
    | none =>
      simp only
      by_cases hs : j ∈ st.stack
      · simp only [hs, if_true]
        refine ⟨hg, rfl, fun _ _ h => h, ?_, fun _ => ⟨rfl, hs⟩⟩
        intro l e; cases e
      · simp only [hs, if_false]
        -- the state with j pushed
        have hg1 : G d { st with stack := j :: st.stack } := by
          refine ⟨hg.pos, ?_, ?_⟩
          · intro k hk
            rcases List.mem_cons.1 hk with h | h
            · subst h; exact hl
            · exact hg.fresh k h
          · intro a la ha k hr hne
            rcases hg.edge a la ha k hr hne with h | ⟨h1, h2, h3⟩ | h
            · exact Or.inl h
            · exact Or.inr (Or.inl ⟨h1, List.mem_cons_of_mem _ h2, h3⟩)
            · exact Or.inr (Or.inr h)
        have hdep1 : ∀ a ∈ j :: st.stack, Dep d a j := by
          intro a ha
          rcases List.mem_cons.1 ha with h | h
          · subst h; exact Dep.refl _
          · exact hdep a h
        have hfr1 : free d { st with stack := j :: st.stack } < f := by
          have := free_push d st j hj hl hs
          omega
        have hinv0 : FInv d f { st with stack := j :: st.stack } j st.stack ({ st with stack := j :: st.stack }, 0) := by
          refine ⟨hg1, rfl, fun _ _ h => h, ?_, hfr1⟩
          intro x lx h1 h2
          simp only at h1 h2
          rw [h1] at h2
          cases h2
        obtain ⟨hinv, hdone⟩ := foldSrcs_spec d f (getLevel d f) ih { st with stack := j :: st.stack } j st.stack hdep1
          (instSrcs d j) ({ st with stack := j :: st.stack }, 0) (fun _ => False) (fun k hk => hk) hinv0 (fun k hk => hk.elim)
        generalize hres : foldSrcs (getLevel d f) j (instSrcs d j) ({ st with stack := j :: st.stack }, 0) = res at hinv hdone
        have hjn : res.1.lv j = none := hinv.g.fresh j (by rw [hinv.stack]; simp)
        -- levels known before the expansion started are unchanged, so a levelled node was not levelled during it
        refine ⟨⟨?_, ?_, ?_⟩, rfl, ?_, ?_, ?_⟩
        · -- pos
          intro a la ha
          simp only [upd] at ha
          split at ha
          · cases ha; omega
          · exact hinv.g.pos a la ha
        · -- fresh
          intro k hk
          simp only [upd]
          have hkj : k ≠ j := fun e => hs (e ▸ hk)
          simp only [hkj, if_false]
          apply hinv.g.fresh
          rw [hinv.stack]
          exact List.mem_cons_of_mem _ hk
        · -- edge
          intro a la ha k hr hne
          simp only [upd] at ha ⊢
          by_cases haj : a = j
          · -- the node that has just been levelled
            subst haj
            simp only [if_true, Option.some.injEq] at ha
            subst ha
            have hkj : k ≠ a := hne
            simp only [hkj, if_false]
            rcases hdone k (Or.inr ⟨hr, hne⟩) with ⟨lk, h1, h2⟩ | ⟨h1, h2⟩
            · exact Or.inl ⟨lk, h1, by omega⟩
            · exact Or.inr (Or.inl ⟨h1, h2, hdep k h2⟩)
          · simp only [haj, if_false] at ha
            rcases hinv.g.edge a la ha k hr hne with ⟨lk, h1, h2⟩ | ⟨h1, h2, h3⟩ | ⟨lk, h1, h2, h3⟩
            · have hkj : k ≠ j := by
                intro e; rw [e, hjn] at h1; cases h1
              simp only [hkj, if_false]
              exact Or.inl ⟨lk, h1, h2⟩
            · rw [hinv.stack] at h2
              rcases List.mem_cons.1 h2 with h | h
              · -- k = j: a was levelled while j was open, so strictly below j
                subst h
                simp only [if_true]
                refine Or.inr (Or.inr ⟨res.2 + 1, rfl, ?_, h3⟩)
                have hsta : st.lv a = none := by
                  cases hsa : st.lv a with
                  | none => rfl
                  | some v =>
                    -- a levelled before: its source k is levelled or on the old stack; neither holds
                    rcases hg.edge a v hsa k hr hne with ⟨lk, h1', _⟩ | ⟨_, h2', _⟩ | ⟨lk, h1', _, _⟩
                    · rw [hl] at h1'; cases h1'
                    · exact absurd h2' hs
                    · rw [hl] at h1'; cases h1'
                have := hinv.bound a la hsta ha
                omega
              · have hkj : k ≠ j := fun e => hs (e ▸ h)
                simp only [hkj, if_false]
                exact Or.inr (Or.inl ⟨h1, h, h3⟩)
            · have hkj : k ≠ j := by
                intro e; rw [e, hjn] at h1; cases h1
              simp only [hkj, if_false]
              exact Or.inr (Or.inr ⟨lk, h1, h2, h3⟩)
        · -- mono
          intro x v hx
          simp only [upd]
          have hxj : x ≠ j := by
            intro e; rw [e, hl] at hx; cases hx
          simp only [hxj, if_false]
          exact hinv.mono x v hx
        · -- some
          intro l e
          simp only [Option.some.injEq] at e
          subst e
          refine ⟨by simp [upd], ?_⟩
          intro x lx h1 h2
          simp only [upd] at h2
          by_cases hxj : x = j
          · simp only [hxj, if_true, Option.some.injEq] at h2
            subst h2
            exact ⟨Nat.le_refl _, fun h => absurd hxj h⟩
          · simp only [hxj, if_false] at h2
            have := hinv.bound x lx h1 h2
            exact ⟨by omega, fun _ => by omega⟩
        · intro e; cases e

/- ---------------------------------------------------------------- the loop over all children -/
theorem runAll_spec (d : Design) : ∀ (l : List Nat) (st : St), (∀ j ∈ l, j < d.insts.length) → G d st → st.stack = [] →
    G d (runAll d l st) ∧ (runAll d l st).stack = [] ∧ (∀ x v, st.lv x = some v → (runAll d l st).lv x = some v) ∧
    (∀ j ∈ l, ∃ v, (runAll d l st).lv j = some v) := by
  intro l
  induction l with
  | nil =>
    intro st _ hg hs
    exact ⟨hg, hs, fun _ _ h => h, by simp⟩
  | cons j rest ih =>
    intro st hl hg hs
    simp only [runAll]
    have hfree : free d st < d.insts.length + 1 := by
      unfold free
      have := List.countP_le_length (p := isFree st) (l := List.range d.insts.length)
      simp only [List.length_range] at this
      omega
    have hpost := getLevel_spec d (d.insts.length + 1) st j
      ⟨hg, by rw [hs]; simp, hl j (by simp), hfree⟩
    have hs' : (getLevel d (d.insts.length + 1) st j).1.stack = [] := by rw [hpost.stack, hs]
    obtain ⟨h1, h2, h3, h4⟩ := ih _ (fun k hk => hl k (List.mem_cons_of_mem _ hk)) hpost.g hs'
    refine ⟨h1, h2, fun x v hx => h3 x v (hpost.mono x v hx), ?_⟩
    intro k hk
    rcases List.mem_cons.1 hk with h | h
    · subst h
      cases hr : (getLevel d (d.insts.length + 1) st k).2 with
      | none =>
        have := (hpost.none_ hr).2
        rw [hs] at this
        simp at this
      | some v => exact ⟨v, h3 k v (hpost.some_ v hr).1⟩
    · exact h4 k h

theorem levels_G (d : Design) :
    G d (runAll d (List.range d.insts.length) { lv := fun _ => none, stack := [] }) ∧
    (runAll d (List.range d.insts.length) { lv := fun _ => none, stack := [] }).stack = [] ∧
    ∀ j, j < d.insts.length → ∃ v, levels d j = some v := by
  have hg0 : G d { lv := fun _ => none, stack := [] } := by
    refine ⟨?_, ?_, ?_⟩
    · intro j l h; cases h
    · intro k hk; simp at hk
    · intro j l h; cases h
  obtain ⟨h1, h2, _, h4⟩ := runAll_spec d (List.range d.insts.length) _ (fun j hj => List.mem_range.1 hj) hg0 rfl
  exact ⟨h1, h2, fun j hj => h4 j (List.mem_range.2 hj)⟩

/-- every child gets a level, and it is at least 1 (column 0 is for the inputs only) -/
theorem level_pos (d : Design) (j : Nat) (hj : j < d.insts.length) : levels d j = some (levelOf d j) ∧ 1 ≤ levelOf d j := by
  obtain ⟨hg, _, hall⟩ := levels_G d
  obtain ⟨v, hv⟩ := hall j hj
  have : levelOf d j = v := by simp [levelOf, hv]
  rw [this]
  exact ⟨hv, hg.pos j v hv⟩

/-- THE guarantee of the levelling: a child that reads another child sits strictly to its right — or strictly to its
    left, and then only if that edge closes a cycle (the driver depends on the reader).  Never in the same level. -/
theorem level_edge (d : Design) (j k : Nat) (hr : Reads d j k) (hne : k ≠ j) :
    levelOf d k < levelOf d j ∨ (levelOf d j < levelOf d k ∧ Dep d k j) := by
  obtain ⟨hg, hs, hall⟩ := levels_G d
  obtain ⟨hj, hk⟩ := reads_lt d j k hr
  obtain ⟨lj, hlj⟩ := hall j hj
  have ej : levelOf d j = lj := by simp [levelOf, hlj]
  rcases hg.edge j lj hlj k hr hne with ⟨lk, h1, h2⟩ | ⟨_, h2, _⟩ | ⟨lk, h1, h2, h3⟩
  · have ek : levelOf d k = lk := by
      have : levels d k = some lk := h1
      simp [levelOf, this]
    left; omega
  · rw [hs] at h2; simp at h2
  · have ek : levelOf d k = lk := by
      have : levels d k = some lk := h1
      simp [levelOf, this]
    right; exact ⟨by omega, h3⟩

/-- in a netlist without combinational-or-registered cycles every net between children runs strictly left to right -/
theorem acyclic_forward (d : Design) (hac : ∀ j k, Reads d j k → k ≠ j → ¬ Dep d k j) (j k : Nat) (hr : Reads d j k) (hne : k ≠ j) :
    levelOf d k < levelOf d j := by
  rcases level_edge d j k hr hne with h | ⟨_, h⟩
  · exact h
  · exact absurd h (hac j k hr hne)


/- ---------------------------------------------------------------- from levels to matrix columns -/
theorem filter_index {α : Type} (p : α → Bool) : ∀ (l : List α) (i : Nat) (a : α), l[i]? = some a → p a = true →
    (l.filter p)[(l.take i).countP p]? = some a := by
  intro l
  induction l with
  | nil => intro i a h; simp at h
  | cons b l ih =>
    intro i a h hp
    cases i with
    | zero =>
      simp only [List.getElem?_cons_zero, Option.some.injEq] at h
      subst h
      simp [List.filter_cons, hp]
    | succ i =>
      simp only [List.getElem?_cons_succ] at h
      have := ih i a h hp
      simp only [List.take_succ_cons, List.countP_cons, List.filter_cons]
      cases hb : p b with
      | true => simpa using this
      | false => simpa using this

theorem levelOf_le_max (d : Design) (j : Nat) (hj : j < d.insts.length) : levelOf d j ≤ maxLevel d := by
  unfold maxLevel
  have key : ∀ (l : List Nat) (m : Nat), (m ≤ l.foldl (fun m j => max m (levelOf d j)) m) ∧
      (∀ x ∈ l, levelOf d x ≤ l.foldl (fun m j => max m (levelOf d j)) m) := by
    intro l
    induction l with
    | nil => intro m; exact ⟨Nat.le_refl _, by simp⟩
    | cons a l ih =>
      intro m
      simp only [List.foldl_cons]
      obtain ⟨h1, h2⟩ := ih (max m (levelOf d a))
      refine ⟨by omega, ?_⟩
      intro x hx
      rcases List.mem_cons.1 hx with h | h
      · subst h; omega
      · exact h2 x h
  exact (key _ 0).2 j (List.mem_range.2 hj)

theorem mem_levelGroup (d : Design) (j l : Nat) : j ∈ levelGroup d l ↔ j < d.insts.length ∧ levelOf d j = l := by
  simp [levelGroup, List.mem_filter]

/-- column index of a child is strictly monotone in its level: a net that goes up in level goes right in the grid -/
theorem colOf_mono (d : Design) (j k : Nat) (hj : j < d.insts.length) (h : levelOf d j < levelOf d k) : colOf d j < colOf d k := by
  have hpos := (level_pos d j hj).2
  unfold colOf
  have hsub : (List.range (levelOf d j)).Sublist (List.range (levelOf d k - 1)) := List.range_sublist.2 (by omega)
  have h1 := List.Sublist.countP_le (p := fun i => !(levelGroup d (i + 1)).isEmpty) hsub
  have h2 : List.range (levelOf d j) = List.range (levelOf d j - 1) ++ [levelOf d j - 1] := by
    have : levelOf d j = (levelOf d j - 1) + 1 := by omega
    rw [this, List.range_succ]; simp
  rw [h2, List.countP_append] at h1
  have h3 : ([levelOf d j - 1].countP fun i => !(levelGroup d (i + 1)).isEmpty) = 1 := by
    have hm : j ∈ levelGroup d (levelOf d j - 1 + 1) := (mem_levelGroup d j _).2 ⟨hj, by omega⟩
    have : (levelGroup d (levelOf d j - 1 + 1)).isEmpty = false := by
      cases hg : levelGroup d (levelOf d j - 1 + 1) with
      | nil => rw [hg] at hm; simp at hm
      | cons _ _ => rfl
    simp [this]
  simp only [← List.countP_eq_length_filter]
  omega

/-- the column of child j holds exactly the children of its level (in instance order), j among them -/
theorem groups_child (d : Design) (j : Nat) (hj : j < d.insts.length) :
    (groups d)[colOf d j]? = some ((levelGroup d (levelOf d j)).map (· + d.inp.length)) := by
  obtain ⟨_, hpos⟩ := level_pos d j hj
  have hmax := levelOf_le_max d j hj
  unfold groups colOf
  rw [List.append_assoc, List.singleton_append, Nat.add_comm 1, List.getElem?_cons_succ]
  -- inside the filtered list of level groups
  have hm : j ∈ levelGroup d (levelOf d j) := (mem_levelGroup d j _).2 ⟨hj, rfl⟩
  have hne : (!((levelGroup d (levelOf d j)).map (· + d.inp.length)).isEmpty) = true := by
    cases hg : levelGroup d (levelOf d j) with
    | nil => rw [hg] at hm; simp at hm
    | cons _ _ => rfl
  have hget : ((List.range (maxLevel d)).map (fun i => (levelGroup d (i + 1)).map (· + d.inp.length)))[levelOf d j - 1]? =
      some ((levelGroup d (levelOf d j)).map (· + d.inp.length)) := by
    rw [List.getElem?_map, List.getElem?_range (by omega)]
    simp only [Option.map_some]
    have : levelOf d j - 1 + 1 = levelOf d j := by omega
    rw [this]
  have hidx := filter_index (fun g : List Nat => !g.isEmpty) _ _ _ hget hne
  have hcount : (((List.range (maxLevel d)).map (fun i => (levelGroup d (i + 1)).map (· + d.inp.length))).take (levelOf d j - 1)).countP
      (fun g : List Nat => !g.isEmpty) = ((List.range (levelOf d j - 1)).filter fun i => !(levelGroup d (i + 1)).isEmpty).length := by
    rw [← List.map_take, List.take_range, List.countP_map, List.countP_eq_length_filter]
    have : min (levelOf d j - 1) (maxLevel d) = levelOf d j - 1 := by omega
    rw [this]
    congr 1
    apply List.filter_congr
    intro i _
    simp [Function.comp]
  rw [hcount] at hidx
  have hlt : ((List.range (levelOf d j - 1)).filter fun i => !(levelGroup d (i + 1)).isEmpty).length <
      (((List.range (maxLevel d)).map (fun i => (levelGroup d (i + 1)).map (· + d.inp.length))).filter (fun g => !g.isEmpty)).length := by
    rcases List.getElem?_eq_some_iff.1 hidx with ⟨h, _⟩; exact h
  rw [List.getElem?_append_left hlt]
  exact hidx

/-- column 0 is the input column whether or not the block has inputs; children start in column 1 -/
theorem groups_col0 (d : Design) : (groups d)[0]? = some (List.range d.inp.length) := by
  simp [groups]

theorem colOf_pos (d : Design) (j : Nat) : 1 ≤ colOf d j := by unfold colOf; omega

/-- a child occupies one row of its column: its position among the children of the same level -/
theorem child_cell (d : Design) (j : Nat) (hj : j < d.insts.length) :
    ∃ r : Nat, ((groups d)[colOf d j]?).bind (·[r]?) = some (j + d.inp.length) ∧
      ∀ r' : Nat, ((groups d)[colOf d j]?).bind (·[r']?) = some (j + d.inp.length) → r' = r := by
  rw [groups_child d j hj]
  have hm : j ∈ levelGroup d (levelOf d j) := (mem_levelGroup d j _).2 ⟨hj, rfl⟩
  obtain ⟨r, hr, hrj⟩ := List.mem_iff_getElem.1 hm
  refine ⟨r, by simp [List.getElem?_map, List.getElem?_eq_getElem hr, hrj], ?_⟩
  intro r' h'
  simp only [Option.bind_some, List.getElem?_map, Option.map_eq_some_iff] at h'
  obtain ⟨a, ha, hae⟩ := h'
  have haj : a = j := by omega
  subst haj
  have hnd : (levelGroup d (levelOf d a)).Nodup := List.Nodup.sublist List.filter_sublist List.nodup_range
  obtain ⟨hr', hr'a⟩ := List.getElem?_eq_some_iff.1 ha
  exact (List.getElem_inj hnd).1 (hr'a.trans hrj.symm)

/-- two different children never share a cell: different levels give different columns, equal levels different rows -/
theorem child_cells_distinct (d : Design) (j k : Nat) (hne : j ≠ k)
    (r : Nat) (h1 : ((groups d)[colOf d j]?).bind (·[r]?) = some (j + d.inp.length))
    (h2 : ((groups d)[colOf d k]?).bind (·[r]?) = some (k + d.inp.length)) : colOf d j ≠ colOf d k := by
  intro e
  rw [e, h2] at h1
  have : k = j := by
    have := Option.some.inj h1
    omega
  exact hne this.symm


/-- a cell of the matrix built by columnAssignment holds what the column group holds at that row -/
theorem colMatrix_cell (d : Design) (r c : Nat) (row : List (Option Nat)) (o : Option Nat)
    (hr : (colMatrix d)[r]? = some row) (hc : row[c]? = some o) : o = ((groups d)[c]?).bind (·[r]?) := by
  unfold colMatrix at hr
  simp only [List.getElem?_map, Option.map_eq_some_iff] at hr
  obtain ⟨r', hrr, e⟩ := hr
  have hr' : r' = r := by
    rcases List.getElem?_eq_some_iff.1 hrr with ⟨h, e'⟩
    simpa using e'.symm
  subst hr' e
  simp only [List.getElem?_map, Option.map_eq_some_iff] at hc
  obtain ⟨c', hcc, e⟩ := hc
  have hc' : c' = c := by
    rcases List.getElem?_eq_some_iff.1 hcc with ⟨h, e'⟩
    simpa using e'.symm
  subst hc'
  exact e.symm


/- ---------------------------------------------------------------- the one-pass computation used by the driver -/
theorem levelList_eq (d : Design) : levelList d = (List.range d.insts.length).map (levelOf d) := rfl

theorem foldl_max_map (f : Nat → Nat) : ∀ (l : List Nat) (m : Nat), (l.map f).foldl max m = l.foldl (fun m j => max m (f j)) m := by
  intro l
  induction l with
  | nil => intro m; rfl
  | cons a l ih => intro m; simp only [List.map_cons, List.foldl_cons]; exact ih _

theorem groupsOn_eq (d : Design) : groupsOn d (levelList d) = groups d := by
  unfold groupsOn groups
  have hml : (levelList d).foldl max 0 = maxLevel d := by
    rw [levelList_eq, foldl_max_map]; rfl
  simp only [hml]
  congr 2
  congr 1
  apply List.map_congr_left
  intro i _
  congr 1
  unfold levelGroup
  apply List.filter_congr
  intro j hj
  have hj' := List.mem_range.1 hj
  rw [levelList_eq, List.getElem?_map, List.getElem?_range hj']
  rfl

theorem colMatrixFast_eq (d : Design) : colMatrixFast d = colMatrix d := by
  unfold colMatrixFast colMatrix matrixOf
  rw [groupsOn_eq]

end Schem.Column
