import Py4hwV.Schem.Pins
/-
  C18 — pin geometry of the symbol classes: for every class and every port count, which symbols tell all their pins apart
  (`injective_iff_fits`), which keep their pins inside their own box (`inBox_of_tidy`), and the collisions that exist in the
  unchanged code (third input of the round Add/Sub/Mul symbol; ports with the same name; pins of a Scope below its box).
-/
namespace Schem.Pins

/- ---------------------------------------------------------------- the name lookup -/
theorem lastIdxGo_notin (nm : Nat) (l : List Nat) (k : Nat) (acc : Option Nat) (h : nm ∉ l) : lastIdxGo nm l k acc = acc := by
  induction l generalizing k acc with
  | nil => rfl
  | cons x xs ih =>
    simp only [List.mem_cons, not_or] at h
    simp only [lastIdxGo]
    rw [ih _ _ h.2]
    have : x ≠ nm := fun e => h.1 e.symm
    simp [this]

theorem lastIdxGo_nodup (nm : Nat) (l : List Nat) (k i : Nat) (acc : Option Nat) (hn : l.Nodup) (hi : l[i]? = some nm) :
    lastIdxGo nm l k acc = some (k + i) := by
  induction l generalizing k acc i with
  | nil => simp at hi
  | cons x xs ih =>
    have hn' := List.nodup_cons.1 hn
    cases i with
    | zero =>
      simp only [List.getElem?_cons_zero, Option.some.injEq] at hi
      subst hi
      simp only [lastIdxGo, if_true]
      rw [lastIdxGo_notin _ _ _ _ hn'.1]
      rfl
    | succ j =>
      simp only [List.getElem?_cons_succ] at hi
      simp only [lastIdxGo]
      rw [ih (k + 1) j _ hn'.2 hi]
      congr 1
      omega

/-- with pairwise different port names the lookup finds the port that was asked for -/
theorem lastIdx_nodup (l : List Nat) (i : Nat) (hn : l.Nodup) (hi : i < l.length) : (l[i]?).bind (lastIdx l) = some i := by
  rw [List.getElem?_eq_getElem hi]
  simp only [Option.bind_some, lastIdx]
  rw [lastIdxGo_nodup _ l 0 i none hn (List.getElem?_eq_getElem hi)]
  simp

theorem lastIdxGo_lt (nm : Nat) (l : List Nat) (k : Nat) (acc : Option Nat) (sel : Nat)
    (hacc : ∀ a, acc = some a → a < k) (h : lastIdxGo nm l k acc = some sel) : sel < k + l.length := by
  induction l generalizing k acc with
  | nil =>
    simp only [lastIdxGo] at h
    have := hacc sel h
    simpa using this
  | cons x xs ih =>
    simp only [lastIdxGo] at h
    have := ih (k + 1) _ (by
      intro a ha
      split at ha
      · cases ha; omega
      · have := hacc a ha; omega) h
    simp only [List.length_cons]
    omega

/-- whatever the names: the index found is the index of a port -/
theorem lastIdx_lt (l : List Nat) (nm sel : Nat) (h : lastIdx l nm = some sel) : sel < l.length := by
  have := lastIdxGo_lt nm l 0 none sel (by intro a ha; cases ha) h
  omega

/- ---------------------------------------------------------------- injectivity, class by class -/
set_option linter.unusedSimpArgs false

theorem injective_of_fits (s : Shape) (hi : s.ins.Nodup) (ho : s.outs.Nodup) (hf : s.Fits) : s.Injective := by
  intro p q pt vp vq hp hq
  have e : s.pos p = s.pos q := hp.trans hq.symm
  clear hp hq
  obtain ⟨cls, iw, ins, outs⟩ := s
  cases p with
  | inp i =>
    cases q with
    | inp j =>
      simp only [Shape.valid] at vp vq
      have li := lastIdx_nodup ins i hi vp
      have lj := lastIdx_nodup ins j hi vq
      cases cls <;>
        simp only [Shape.pos, Shape.sinkPos, Shape.Fits, li, lj, vp, vq, if_true, Option.map_some, Option.some.injEq, Prod.mk.injEq,
          genericY, namemargin, portmargin, portpitch, instanceportheight, true_and] at e hf <;>
        (try (congr 1; omega))
    | out j =>
      simp only [Shape.valid] at vp vq
      have li := lastIdx_nodup ins i hi vp
      have lj := lastIdx_nodup outs j ho vq
      cases cls <;>
        simp only [Shape.pos, Shape.sinkPos, Shape.srcPos, Shape.width, Shape.Fits, li, lj, vp, vq, if_true, Option.map_some, Option.some.injEq, Prod.mk.injEq,
          genericY, namemargin, portmargin, portpitch, instanceportheight, true_and] at e hf <;>
        (try (exfalso; omega))
      all_goals (exfalso; rcases hf with h | h | h <;> first | omega | (subst h; simp at vp) | (subst h; simp at vq))
  | out i =>
    cases q with
    | inp j =>
      simp only [Shape.valid] at vp vq
      have li := lastIdx_nodup outs i ho vp
      have lj := lastIdx_nodup ins j hi vq
      cases cls <;>
        simp only [Shape.pos, Shape.sinkPos, Shape.srcPos, Shape.width, Shape.Fits, li, lj, vp, vq, if_true, Option.map_some, Option.some.injEq, Prod.mk.injEq,
          genericY, namemargin, portmargin, portpitch, instanceportheight, true_and] at e hf <;>
        (try (exfalso; omega))
      all_goals (exfalso; rcases hf with h | h | h <;> first | omega | (subst h; simp at vp) | (subst h; simp at vq))
    | out j =>
      simp only [Shape.valid] at vp vq
      have li := lastIdx_nodup outs i ho vp
      have lj := lastIdx_nodup outs j ho vq
      cases cls <;>
        simp only [Shape.pos, Shape.srcPos, Shape.width, Shape.Fits, li, lj, vp, vq, if_true, Option.map_some, Option.some.injEq, Prod.mk.injEq,
          genericY, namemargin, portmargin, portpitch, instanceportheight, true_and] at e hf <;>
        (try (congr 1; omega))

theorem Shape.Injective.eq_of_pos_eq {s : Shape} (h : s.Injective) {p q : PinRef} (vp : s.valid p) (vq : s.valid q)
    (e : s.pos p = s.pos q) (hs : (s.pos p).isSome = true) : p = q := by
  obtain ⟨pt, hpt⟩ := Option.isSome_iff_exists.1 hs
  exact h p q pt vp vq hpt (e ▸ hpt)

theorem no_in_collision {s : Shape} (h : s.Injective) (a b : Nat) (hab : a ≠ b) (ha : a < s.ins.length) (hb : b < s.ins.length)
    (e : s.sinkPos a = s.sinkPos b) (hs : (s.sinkPos a).isSome = true) : False := by
  have := h.eq_of_pos_eq (p := .inp a) (q := .inp b) ha hb e hs
  cases this; exact hab rfl

theorem no_out_collision {s : Shape} (h : s.Injective) (a b : Nat) (hab : a ≠ b) (ha : a < s.outs.length) (hb : b < s.outs.length)
    (e : s.srcPos a = s.srcPos b) (hs : (s.srcPos a).isSome = true) : False := by
  have := h.eq_of_pos_eq (p := .out a) (q := .out b) ha hb e hs
  cases this; exact hab rfl

theorem fits_of_injective (s : Shape) (hi : s.ins.Nodup) (ho : s.outs.Nodup) (h : s.Injective) : s.Fits := by
  obtain ⟨cls, iw, ins, outs⟩ := s
  have L1 : ∀ i, i < ins.length → (ins[i]?).bind (lastIdx ins) = some i := fun i => lastIdx_nodup ins i hi
  have L2 : ∀ i, i < outs.length → (outs[i]?).bind (lastIdx outs) = some i := fun i => lastIdx_nodup outs i ho
  cases cls <;> simp only [Shape.Fits]
  case inst =>
    apply Classical.byContradiction
    intro hn
    simp only [not_or, Classical.not_not] at hn
    obtain ⟨h0, h1, h2⟩ := hn
    have l1 : 0 < ins.length := List.length_pos_iff.2 h1
    have l2 : 0 < outs.length := List.length_pos_iff.2 h2
    have := h.eq_of_pos_eq (p := .inp 0) (q := .out 0) l1 l2
      (by simp [Shape.pos, Shape.sinkPos, Shape.srcPos, Shape.width, L2 0 l2, l1, h0])
      (by simp [Shape.pos, Shape.sinkPos, l1])
    cases this
  case binop => exact (by
      apply Classical.byContradiction; intro hn
      have hb : 2 < ins.length := by omega
      have ha : 1 < ins.length := by omega
      exact no_in_collision h 1 2 (by decide) ha hb (by simp [Shape.sinkPos, L1 1 ha, L1 2 hb]) (by simp [Shape.sinkPos, L1 1 ha]))
  case and_ => exact (by
      apply Classical.byContradiction; intro hn
      have hb : 1 < outs.length := by omega
      have ha : 0 < outs.length := by omega
      exact no_out_collision h 0 1 (by decide) ha hb (by simp [Shape.srcPos, L2 0 ha, L2 1 hb]) (by simp [Shape.srcPos, L2 0 ha]))
  case or_ => exact (by
      apply Classical.byContradiction; intro hn
      have hb : 1 < outs.length := by omega
      have ha : 0 < outs.length := by omega
      exact no_out_collision h 0 1 (by decide) ha hb (by simp [Shape.srcPos, L2 0 ha, L2 1 hb]) (by simp [Shape.srcPos, L2 0 ha]))
  case inPort => exact (by
      apply Classical.byContradiction; intro hn
      have hb : 1 < outs.length := by omega
      have ha : 0 < outs.length := by omega
      exact no_out_collision h 0 1 (by decide) ha hb (by simp [Shape.srcPos, L2 0 ha, L2 1 hb]) (by simp [Shape.srcPos, L2 0 ha]))
  case outPort => exact (by
      apply Classical.byContradiction; intro hn
      have hb : 1 < ins.length := by omega
      have ha : 0 < ins.length := by omega
      exact no_in_collision h 0 1 (by decide) ha hb (by simp [Shape.sinkPos, L1 0 ha, L1 1 hb]) (by simp [Shape.sinkPos, L1 0 ha]))
  case nor => exact ⟨(by
      apply Classical.byContradiction; intro hn
      have hb : 2 < ins.length := by omega
      have ha : 1 < ins.length := by omega
      exact no_in_collision h 1 2 (by decide) ha hb (by simp [Shape.sinkPos, L1 1 ha, L1 2 hb]) (by simp [Shape.sinkPos, L1 1 ha])), (by
      apply Classical.byContradiction; intro hn
      have hb : 1 < outs.length := by omega
      have ha : 0 < outs.length := by omega
      exact no_out_collision h 0 1 (by decide) ha hb (by simp [Shape.srcPos, L2 0 ha, L2 1 hb]) (by simp [Shape.srcPos, L2 0 ha]))⟩
  case xor => exact ⟨(by
      apply Classical.byContradiction; intro hn
      have hb : 2 < ins.length := by omega
      have ha : 1 < ins.length := by omega
      exact no_in_collision h 1 2 (by decide) ha hb (by simp [Shape.sinkPos, L1 1 ha, L1 2 hb]) (by simp [Shape.sinkPos, L1 1 ha])), (by
      apply Classical.byContradiction; intro hn
      have hb : 1 < outs.length := by omega
      have ha : 0 < outs.length := by omega
      exact no_out_collision h 0 1 (by decide) ha hb (by simp [Shape.srcPos, L2 0 ha, L2 1 hb]) (by simp [Shape.srcPos, L2 0 ha]))⟩
  case mux2 => exact ⟨(by
      apply Classical.byContradiction; intro hn
      have hb : 3 < ins.length := by omega
      have ha : 2 < ins.length := by omega
      exact no_in_collision h 2 3 (by decide) ha hb (by simp [Shape.sinkPos, L1 2 ha, L1 3 hb]) (by simp [Shape.sinkPos, L1 2 ha])), (by
      apply Classical.byContradiction; intro hn
      have hb : 1 < outs.length := by omega
      have ha : 0 < outs.length := by omega
      exact no_out_collision h 0 1 (by decide) ha hb (by simp [Shape.srcPos, L2 0 ha, L2 1 hb]) (by simp [Shape.srcPos, L2 0 ha]))⟩
  case not_ => exact ⟨(by
      apply Classical.byContradiction; intro hn
      have hb : 1 < ins.length := by omega
      have ha : 0 < ins.length := by omega
      exact no_in_collision h 0 1 (by decide) ha hb (by simp [Shape.sinkPos, L1 0 ha, L1 1 hb]) (by simp [Shape.sinkPos, L1 0 ha])), (by
      apply Classical.byContradiction; intro hn
      have hb : 1 < outs.length := by omega
      have ha : 0 < outs.length := by omega
      exact no_out_collision h 0 1 (by decide) ha hb (by simp [Shape.srcPos, L2 0 ha, L2 1 hb]) (by simp [Shape.srcPos, L2 0 ha]))⟩
  case bit => exact ⟨(by
      apply Classical.byContradiction; intro hn
      have hb : 1 < ins.length := by omega
      have ha : 0 < ins.length := by omega
      exact no_in_collision h 0 1 (by decide) ha hb (by simp [Shape.sinkPos, L1 0 ha, L1 1 hb]) (by simp [Shape.sinkPos, L1 0 ha])), (by
      apply Classical.byContradiction; intro hn
      have hb : 1 < outs.length := by omega
      have ha : 0 < outs.length := by omega
      exact no_out_collision h 0 1 (by decide) ha hb (by simp [Shape.srcPos, L2 0 ha, L2 1 hb]) (by simp [Shape.srcPos, L2 0 ha]))⟩
  case range => exact ⟨(by
      apply Classical.byContradiction; intro hn
      have hb : 1 < ins.length := by omega
      have ha : 0 < ins.length := by omega
      exact no_in_collision h 0 1 (by decide) ha hb (by simp [Shape.sinkPos, L1 0 ha, L1 1 hb]) (by simp [Shape.sinkPos, L1 0 ha])), (by
      apply Classical.byContradiction; intro hn
      have hb : 1 < outs.length := by omega
      have ha : 0 < outs.length := by omega
      exact no_out_collision h 0 1 (by decide) ha hb (by simp [Shape.srcPos, L2 0 ha, L2 1 hb]) (by simp [Shape.srcPos, L2 0 ha]))⟩
  case inOutPort => exact ⟨(by
      apply Classical.byContradiction; intro hn
      have hb : 1 < ins.length := by omega
      have ha : 0 < ins.length := by omega
      exact no_in_collision h 0 1 (by decide) ha hb (by simp [Shape.sinkPos, L1 0 ha, L1 1 hb]) (by simp [Shape.sinkPos, L1 0 ha])), (by
      apply Classical.byContradiction; intro hn
      have hb : 1 < outs.length := by omega
      have ha : 0 < outs.length := by omega
      exact no_out_collision h 0 1 (by decide) ha hb (by simp [Shape.srcPos, L2 0 ha, L2 1 hb]) (by simp [Shape.srcPos, L2 0 ha]))⟩
  case pass => exact ⟨(by
      apply Classical.byContradiction; intro hn
      have hb : 1 < ins.length := by omega
      have ha : 0 < ins.length := by omega
      exact no_in_collision h 0 1 (by decide) ha hb (by simp [Shape.sinkPos, L1 0 ha, L1 1 hb]) (by simp [Shape.sinkPos, L1 0 ha])), (by
      apply Classical.byContradiction; intro hn
      have hb : 1 < outs.length := by omega
      have ha : 0 < outs.length := by omega
      exact no_out_collision h 0 1 (by decide) ha hb (by simp [Shape.srcPos, L2 0 ha, L2 1 hb]) (by simp [Shape.srcPos, L2 0 ha]))⟩
  case fbStart => exact ⟨(by
      apply Classical.byContradiction; intro hn
      have hb : 1 < ins.length := by omega
      have ha : 0 < ins.length := by omega
      exact no_in_collision h 0 1 (by decide) ha hb (by simp [Shape.sinkPos, L1 0 ha, L1 1 hb]) (by simp [Shape.sinkPos, L1 0 ha])), (by
      apply Classical.byContradiction; intro hn
      have hb : 1 < outs.length := by omega
      have ha : 0 < outs.length := by omega
      exact no_out_collision h 0 1 (by decide) ha hb (by simp [Shape.srcPos, L2 0 ha, L2 1 hb]) (by simp [Shape.srcPos, L2 0 ha]))⟩
  case fbStop => exact ⟨(by
      apply Classical.byContradiction; intro hn
      have hb : 1 < ins.length := by omega
      have ha : 0 < ins.length := by omega
      exact no_in_collision h 0 1 (by decide) ha hb (by simp [Shape.sinkPos, L1 0 ha, L1 1 hb]) (by simp [Shape.sinkPos, L1 0 ha])), (by
      apply Classical.byContradiction; intro hn
      have hb : 1 < outs.length := by omega
      have ha : 0 < outs.length := by omega
      exact no_out_collision h 0 1 (by decide) ha hb (by simp [Shape.srcPos, L2 0 ha, L2 1 hb]) (by simp [Shape.srcPos, L2 0 ha]))⟩
  case missing => exact ⟨(by
      apply Classical.byContradiction; intro hn
      have hb : 1 < ins.length := by omega
      have ha : 0 < ins.length := by omega
      exact no_in_collision h 0 1 (by decide) ha hb (by simp [Shape.sinkPos, L1 0 ha, L1 1 hb]) (by simp [Shape.sinkPos, L1 0 ha])), (by
      apply Classical.byContradiction; intro hn
      have hb : 1 < outs.length := by omega
      have ha : 0 < outs.length := by omega
      exact no_out_collision h 0 1 (by decide) ha hb (by simp [Shape.srcPos, L2 0 ha, L2 1 hb]) (by simp [Shape.srcPos, L2 0 ha]))⟩

theorem bind_lastIdx_lt (l : List Nat) (i sel : Nat) (h : (l[i]?).bind (lastIdx l) = some sel) : sel < l.length := by
  obtain ⟨nm, _, h2⟩ := Option.bind_eq_some_iff.1 h
  exact lastIdx_lt l nm sel h2

/-- every pin lies in the symbol's own (closed) box, at most `slack` pixels below it — whatever the port names -/
theorem inBox_of_tidy (s : Shape) (ht : s.Tidy) : s.InBox := by
  intro p pt vp hp
  obtain ⟨cls, iw, ins, outs⟩ := s
  cases p with
  | inp i =>
    simp only [Shape.valid] at vp
    cases cls <;>
      simp only [Shape.pos, Shape.sinkPos, Shape.Tidy, vp, if_true, Option.map_eq_some_iff, Option.some.injEq] at hp ht <;>
      (try (obtain ⟨sel, hsel, hp⟩ := hp; have hlt := bind_lastIdx_lt _ _ _ hsel)) <;>
      subst hp <;>
      simp only [Shape.width, Shape.height, Shape.genericHeight, genericY, namemargin, portmargin, portpitch, instanceportheight, slack] <;>
      omega
  | out i =>
    simp only [Shape.valid] at vp
    cases cls <;>
      simp only [Shape.pos, Shape.srcPos, Shape.Tidy, vp, if_true, Option.map_eq_some_iff, Option.some.injEq] at hp ht <;>
      (try (obtain ⟨sel, hsel, hp⟩ := hp; have hlt := bind_lastIdx_lt _ _ _ hsel)) <;>
      subst hp <;>
      simp only [Shape.width, Shape.height, Shape.genericHeight, genericY, namemargin, portmargin, portpitch, instanceportheight, slack] <;>
      omega

end Schem.Pins

namespace Schem.Pins

/-- EXACT CHARACTERISATION, every class, every port count (port names pairwise different): the symbol tells all its pins apart
    iff its port counts are within what its position functions distinguish -/
theorem injective_iff_fits (s : Shape) (hi : s.ins.Nodup) (ho : s.outs.Nodup) : s.Injective ↔ s.Fits :=
  ⟨fits_of_injective s hi ho, injective_of_fits s hi ho⟩

/-- among the port counts the library can produce, exactly one class fails: the round symbol with a third input -/
theorem realizable_fits_iff (s : Shape) (hr : s.Realizable) : s.Fits ↔ ¬ (s.cls = .binop ∧ s.ins.length = 3) := by
  obtain ⟨cls, iw, ins, outs⟩ := s
  cases cls <;> simp only [Shape.Realizable, Shape.Fits] at hr ⊢ <;> simp <;> omega

/-- since /repo 0891c9c: EVERY realizable shape keeps its pins in its box — no exception left -/
theorem realizable_tidy (s : Shape) (hr : s.Realizable) : s.Tidy := by
  obtain ⟨cls, iw, ins, outs⟩ := s
  cases cls <;> simp only [Shape.Realizable, Shape.Tidy] at hr ⊢ <;> omega

end Schem.Pins

namespace Schem.Pins

/-- C18-binop-third-pin: on EVERY round symbol with a third input, inputs 1 and 2 are reported on the same pixel -/
theorem binop3_collision (s : Shape) (hc : s.cls = .binop) (hi : s.ins.Nodup) (h3 : 3 ≤ s.ins.length) :
    s.sinkPos 1 = some (8, 50) ∧ s.sinkPos 2 = some (8, 50) ∧ ¬ s.Injective := by
  obtain ⟨cls, iw, ins, outs⟩ := s
  simp only at hc hi h3
  subst hc
  have l1 := lastIdx_nodup ins 1 hi (by omega)
  have l2 := lastIdx_nodup ins 2 hi (by omega)
  have e1 : (Shape.mk .binop iw ins outs).sinkPos 1 = some (8, 50) := by simp [Shape.sinkPos, l1, namemargin]
  have e2 : (Shape.mk .binop iw ins outs).sinkPos 2 = some (8, 50) := by simp [Shape.sinkPos, l2, namemargin]
  refine ⟨e1, e2, fun h => ?_⟩
  have := h (.inp 1) (.inp 2) (8, 50) (by simp only [Shape.valid]; omega) (by simp only [Shape.valid]; omega) e1 e2
  cases this

/-- … and nothing else collides on a round symbol: two different pins on one pixel are both inputs other than input 0 -/
theorem binop_only_collision (s : Shape) (hc : s.cls = .binop) (hi : s.ins.Nodup) (ho : s.outs.Nodup) (p q : PinRef) (pt : Pt)
    (vp : s.valid p) (vq : s.valid q) (hp : s.pos p = some pt) (hq : s.pos q = some pt) (hne : p ≠ q) :
    ∃ a b, p = .inp a ∧ q = .inp b ∧ 1 ≤ a ∧ 1 ≤ b := by
  have e : s.pos p = s.pos q := hp.trans hq.symm
  obtain ⟨cls, iw, ins, outs⟩ := s
  simp only at hc hi ho
  subst hc
  cases p with
  | inp i =>
    cases q with
    | inp j =>
      simp only [Shape.valid] at vp vq
      have li := lastIdx_nodup ins i hi vp
      have lj := lastIdx_nodup ins j hi vq
      simp only [Shape.pos, Shape.sinkPos, li, lj, Option.map_some, Option.some.injEq, Prod.mk.injEq, namemargin, true_and] at e
      refine ⟨i, j, rfl, rfl, ?_, ?_⟩
      · apply Classical.byContradiction; intro h0
        have : i = 0 := by omega
        subst this
        have : j = 0 := by
          apply Classical.byContradiction; intro hj
          simp [hj] at e
        exact hne (by rw [this])
      · apply Classical.byContradiction; intro h0
        have : j = 0 := by omega
        subst this
        have : i = 0 := by
          apply Classical.byContradiction; intro hj
          simp [hj] at e
        exact hne (by rw [this])
    | out j =>
      simp only [Shape.valid] at vp vq
      have li := lastIdx_nodup ins i hi vp
      have lj := lastIdx_nodup outs j ho vq
      simp only [Shape.pos, Shape.sinkPos, Shape.srcPos, Shape.width, li, lj, Option.map_some, Option.some.injEq, Prod.mk.injEq] at e
      omega
  | out i =>
    cases q with
    | inp j =>
      simp only [Shape.valid] at vp vq
      have li := lastIdx_nodup outs i ho vp
      have lj := lastIdx_nodup ins j hi vq
      simp only [Shape.pos, Shape.sinkPos, Shape.srcPos, Shape.width, li, lj, Option.map_some, Option.some.injEq, Prod.mk.injEq] at e
      omega
    | out j =>
      simp only [Shape.valid] at vp vq
      have li := lastIdx_nodup outs i ho vp
      have lj := lastIdx_nodup outs j ho vq
      simp only [Shape.pos, Shape.srcPos, Shape.width, li, lj, Option.map_some, Option.some.injEq, Prod.mk.injEq, genericY, namemargin,
        portmargin, portpitch, instanceportheight, true_and] at e
      exact absurd (by congr 1; omega) hne

/-- every symbol class, whatever the port counts: two output ports with the SAME NAME are drawn on the same pixel
    (the lookup compares `port.name`; `Logic.addOut` does not reject a repeated name) -/
theorem same_name_same_pos (s : Shape) (i j : Nat) (h : s.outs[i]? = s.outs[j]?) : s.srcPos i = s.srcPos j := by
  obtain ⟨cls, iw, ins, outs⟩ := s
  cases cls <;> simp only [Shape.srcPos] <;> simp only at h <;> rw [h]

/-- HISTORY (tree before /repo 0891c9c, `oldScopeHeight`): a Scope with a fourth input reported that pin 25 pixels below its own box
    (height 80, the pin at 105) -/
theorem scope4_outside_old (s : Shape) (hc : s.cls = .scope) (h4 : 4 ≤ s.ins.length) :
    s.sinkPos 3 = some (0, 105) ∧ s.oldHeight = 80 ∧ ¬ s.OldInBox := by
  obtain ⟨cls, iw, ins, outs⟩ := s
  simp only at hc h4
  subst hc
  have e : (Shape.mk .scope iw ins outs).sinkPos 3 = some (0, 105) := by
    have : 3 < ins.length := by omega
    simp [Shape.sinkPos, this, genericY, namemargin, portmargin, portpitch, instanceportheight]
  refine ⟨e, rfl, fun h => ?_⟩
  have := h (.inp 3) (0, 105) (by simp only [Shape.valid]; omega) e
  simp only [Shape.oldHeight, oldScopeHeight, slack] at this
  omega

/-- the repair: with the new height the same pin is inside the box, for every number of inputs -/
theorem scope_inBox (s : Shape) (hc : s.cls = .scope) : s.InBox :=
  inBox_of_tidy s (by obtain ⟨cls, iw, ins, outs⟩ := s; simp only at hc; subst hc; simp [Shape.Tidy])

end Schem.Pins
