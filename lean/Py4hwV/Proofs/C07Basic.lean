import Py4hwV.Lib.Arith
import Py4hwV.Lib.ArithSpec
/-
  C07 helper lemmas: powers of two, two's complement, the SignExtend loop, Add/Sub/Neg/Abs/Sign/Mul/Div blocks.
-/
namespace C07
open Bits

theorem two_pow_le {m n : Nat} (h : m ≤ n) : 2^m ≤ 2^n := Nat.pow_le_pow_right (by decide) h

theorem two_pow_split {m n : Nat} (h : m ≤ n) : 2^n = 2^m * 2^(n-m) := by
  rw [← Nat.pow_add]; congr 1; omega

theorem two_pow_succ' (w : Nat) (hw : 1 ≤ w) : 2^w = 2 * 2^(w-1) := by
  have : w = (w - 1) + 1 := by omega
  rw [this, Nat.pow_succ]; simp; omega

theorem cast_two_pow (n : Nat) : ((2^n : Nat) : Int) = (2:Int)^n := by simp

theorem sgn_of_lt (w a : Nat) (h : a < 2^w) : ArithSpec.sgn w a = toSigned w a := by
  unfold ArithSpec.sgn; rw [Nat.mod_eq_of_lt h]

/-- `put` of the signed reading is the value itself when the target is not wider -/
theorem put_toSigned_le (rw w a : Nat) (h : rw ≤ w) : put rw (toSigned w a) = a % 2^rw := by
  unfold toSigned
  split
  · exact put_ofNat rw a
  · have e : (2:Int)^w = (2:Int)^(w - rw) * (2:Int)^rw := by
      rw [← Int.pow_add]; congr 1; omega
    rw [show (a:Int) - (2:Int)^w = (a:Int) + (-((2:Int)^(w-rw))) * (2:Int)^rw by rw [e]; simp [Int.neg_mul]; omega,
      put_add_mul, put_ofNat]

/-! ### the SignExtend loop -/

theorem sext_fold_zero (l : List Nat) (a : Nat) : l.foldl (fun acc i => acc ||| (0 <<< i)) a = a := by
  induction l generalizing a with
  | nil => rfl
  | cons x l ih =>
    rw [List.foldl_cons, Nat.zero_shiftLeft, Nat.or_zero]; exact ih a

theorem sext_fold_one (aw n a : Nat) (ha : a < 2^aw) :
    (List.range' aw n).foldl (fun acc i => acc ||| (1 <<< i)) a = a + (2^(aw+n) - 2^aw) := by
  induction n with
  | zero => simp
  | succ n ih =>
    rw [List.range'_concat, List.foldl_append, ih]
    simp only [List.foldl_cons, List.foldl_nil, Nat.one_mul]
    have h1 : 2^aw ≤ 2^(aw+n) := two_pow_le (by omega)
    have h2 : a + (2^(aw+n) - 2^aw) < 2^(aw+n) := by omega
    rw [Nat.or_comm, ← Nat.shiftLeft_add_eq_or_of_lt h2, Nat.one_shiftLeft]
    have h3 : 2^(aw+(n+1)) = 2 * 2^(aw+n) := by rw [← Nat.add_assoc, Nat.pow_succ]; omega
    omega

theorem shr_top (aw a : Nat) (hw : 1 ≤ aw) (ha : a < 2^aw) :
    a >>> (aw - 1) = if a < 2^(aw-1) then 0 else 1 := by
  rw [Nat.shiftRight_eq_div_pow]
  have hp : 0 < 2^(aw-1) := Nat.two_pow_pos _
  have h2 := two_pow_succ' aw hw
  split
  · next h => exact Nat.div_eq_of_lt h
  · next h =>
    have : a / 2^(aw-1) < 2 := by rw [Nat.div_lt_iff_lt_mul hp]; omega
    have : 1 ≤ a / 2^(aw-1) := (Nat.le_div_iff_mul_le hp).mpr (by omega)
    omega

/-- the SignExtend leaf lands the two's-complement reading of `a`, modulo the output width — for EVERY pair of widths -/
theorem sext_eq (rw aw a : Nat) (hw : 1 ≤ aw) (ha : a < 2^aw) : Leaf.sext rw aw a = put rw (toSigned aw a) := by
  unfold Leaf.sext toSigned
  rw [shr_top aw a hw ha]
  split
  · rw [sext_fold_zero, put_ofNat]
  · next h =>
    rw [sext_fold_one aw (rw - aw) a ha]
    by_cases hle : rw ≤ aw
    · have : rw - aw = 0 := by omega
      rw [this, Nat.add_zero, Nat.sub_self, Nat.add_zero]
      have := put_toSigned_le rw aw a hle
      unfold toSigned at this
      rw [if_neg h] at this
      exact this.symm
    · have e : aw + (rw - aw) = rw := by omega
      rw [e]
      have h1 : 2^aw ≤ 2^rw := two_pow_le (by omega)
      have h2 : a + (2^rw - 2^aw) < 2^rw := by omega
      rw [Nat.mod_eq_of_lt h2]
      have e2 : (a:Int) - (2:Int)^aw = ((a + (2^rw - 2^aw) : Nat) : Int) + (-1) * (2:Int)^rw := by
        have c1 := cast_two_pow aw
        have c2 := cast_two_pow rw
        omega
      rw [e2, put_add_mul, put_of_lt _ _ h2]

theorem sext_lt (rw aw a : Nat) : Leaf.sext rw aw a < 2^rw := Nat.mod_lt _ (Nat.two_pow_pos rw)

/-- sign-extension keeps the signed reading when the target is at least as wide -/
theorem toSigned_put_toSigned (rw w a : Nat) (hw : 1 ≤ w) (h : w ≤ rw) (ha : a < 2^w) :
    toSigned rw (put rw (toSigned w a)) = toSigned w a := by
  have h1 := two_pow_succ' w hw
  have h2 := two_pow_succ' rw (by omega)
  have h3 : 2^(w-1) ≤ 2^(rw-1) := two_pow_le (by omega)
  have h4 : 2^w ≤ 2^rw := two_pow_le h
  by_cases hlt : a < 2^(w-1)
  · have : toSigned w a = (a:Int) := by unfold toSigned; rw [if_pos hlt]
    rw [this, put_of_lt _ _ (by omega)]
    unfold toSigned; rw [if_pos (by omega)]
  · have : toSigned w a = (a:Int) - (2:Int)^w := by unfold toSigned; rw [if_neg hlt]
    rw [this]
    have hv : a + (2^rw - 2^w) < 2^rw := by omega
    have e2 : (a:Int) - (2:Int)^w = ((a + (2^rw - 2^w) : Nat) : Int) + (-1) * (2:Int)^rw := by
      have c1 := cast_two_pow w
      have c2 := cast_two_pow rw
      omega
    rw [e2, put_add_mul, put_of_lt _ _ hv]
    unfold toSigned
    rw [if_neg (by omega)]
    have c2 := cast_two_pow rw
    omega

end C07
