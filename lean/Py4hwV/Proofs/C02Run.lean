import Py4hwV.Proofs.C02Power
import Py4hwV.Proofs.C02Comb
import Py4hwV.Verilog.Run
import Py4hwV.Transpile.VSession
/-
  C02: the link from the statement semantics of the soundness theorems (an abstract store with get/set `Laws`, names typed
  totally) to the interpreter that is ACTUALLY RUN on the emitted text (`Verilog/Run.lean`: `V.Store` = hash maps, `flatten`,
  `mkSim0`, `Sim.cycle` = falling + rising edge with posedge detection, delta loop and settling).

  1. `V.Store` facts (hash-map lemmas): a write of a value of the declared width is read back, other names are untouched, the
     declarations never change.
  2. `exec_congr`: executing one statement of the emitted shape (identifiers, literals, unary/binary/ternary operators, whole-name
     targets) on TWO stores that agree on the declared names `D` yields the same queue and stores that agree on `D` again - for
     any two stores with the write laws `WOK` (the functional store of the theorems and `V.Store` both have them).
  3. `cycle_single_posedge`: `Sim.cycle` of a flat design with one `always @(posedge clk)` block and nothing else = toggle the clock,
     execute the block once, apply its non-blocking updates.
  4. `flatten_trModule`: what `flatten` makes of the model module; `mkSim0_trModule`: its power-up store.
-/
namespace C02
open Tp Std

/-! ### 1. `V.Store` -/

theorem bv_beq_refl (a : V.BV) : (a == a) = true := by
  cases a; simp [BEq.beq, V.instBEqBV.beq]

theorem bv_beq_eq {a b : V.BV} (h : (a == b) = true) : a = b := by
  cases a; cases b; simp [BEq.beq, V.instBEqBV.beq] at h; simp [h]

theorem setVal_info (s : V.Store) (n : String) (v : V.BV) : (s.setVal n v).info = s.info := by
  unfold V.Store.setVal; simp only; split <;> rfl

theorem setVal_mems (s : V.Store) (n : String) (v : V.BV) : (s.setVal n v).mems = s.mems := by
  unfold V.Store.setVal; simp only; split <;> rfl

theorem rd_info (s : V.Store) (n : String) : s.rd.info n = s.info[n]? := rfl

theorem setVal_rd_info (s : V.Store) (n : String) (v : V.BV) : (s.setVal n v).rd.info = s.rd.info := by
  funext k; simp [rd_info, setVal_info]

theorem setVal_same (s : V.Store) (n : String) (v : V.BV) : (s.setVal n v).rd.val n = v := by
  unfold V.Store.setVal; simp only
  split
  · rename_i h; exact bv_beq_eq h
  · simp [V.Store.rd]

theorem setVal_other (s : V.Store) (n k : String) (v : V.BV) (h : k ≠ n) : (s.setVal n v).rd.val k = s.rd.val k := by
  unfold V.Store.setVal; simp only
  split
  · rfl
  · have : ¬ (n = k) := fun e => h e.symm
    simp [V.Store.rd, HashMap.getElem?_insert, this]

theorem wr_info (s : V.Store) (t : V.Tgt) (v : V.BV) : (s.wr t v).rd.info = s.rd.info := by
  funext k
  simp only [rd_info]
  unfold V.Store.wr
  split
  · rfl
  · simp [setVal_info]
  · simp only; split
    · rfl
    · split
      · split <;> simp [setVal_info]
      · simp [setVal_info]
  · simp only; split
    · rfl
    · split <;> simp [setVal_info]
  · split
    · split <;> rfl
    · rfl

/-- a value in the normal form `evalAssign` produces for a target of width `w` -/
def Norm (w : Nat) (v : V.BV) : Prop := v.w = w ∧ (v.k = true → v.v < 2 ^ w) ∧ (v.k = false → v.v = 0)

theorem wr_whole_norm (s : V.Store) (n : String) (v : V.BV) (h : Norm (V.widthOf s.rd n) v) :
    s.wr (.whole n) v = s.setVal n v := by
  obtain ⟨h1, h2, h3⟩ := h
  unfold V.Store.wr
  simp only
  congr 1
  cases v with
  | mk w x k =>
    simp only at h1 h2 h3
    subst h1
    cases k with
    | true => simp [Nat.mod_eq_of_lt (h2 rfl)]
    | false => simp [V.BV.x, h3 rfl]

theorem evalAssign_norm (r : V.Rd) (lw : Nat) (e : V.Expr) : Norm lw (V.evalAssign r lw e) := by
  unfold V.evalAssign Norm
  simp only
  split
  · refine ⟨rfl, fun _ => Nat.mod_lt _ (Nat.pos_of_ne_zero (by simp)), fun h => by cases h⟩
  · exact ⟨rfl, fun h => by simp [V.BV.x] at h, fun _ => rfl⟩

theorem store_same (s : V.Store) (n : String) (v : V.BV) (h : Norm (V.widthOf s.rd n) v) : (s.wr (.whole n) v).rd.val n = v := by
  rw [wr_whole_norm s n v h]; exact setVal_same s n v

theorem store_other (s : V.Store) (n k : String) (v : V.BV) (h : k ≠ n) : (s.wr (.whole n) v).rd.val k = s.rd.val k := by
  unfold V.Store.wr; simp only; exact setVal_other s n k _ h

/-! ### 2. two stores that agree on the declared names execute the emitted statements alike -/

/-- the write laws both stores have: declarations never change; a normal-form value of the declared width is read back; other
    names are untouched -/
structure WOK {σ : Type} (rd : σ → V.Rd) (wr : σ → V.Tgt → V.BV → σ) : Prop where
  info : ∀ s t v, (rd (wr s t v)).info = (rd s).info
  same : ∀ s n v, Norm (V.widthOf (rd s) n) v → (rd (wr s (.whole n) v)).val n = v
  other : ∀ s n v k, k ≠ n → (rd (wr s (.whole n) v)).val k = (rd s).val k

theorem store_wok : WOK V.Store.rd V.Store.wr where
  info := wr_info
  same := store_same
  other := fun s n v k h => store_other s n k v h

theorem laws_wok {σ : Type} {rd : σ → V.Rd} {wr : σ → V.Tgt → V.BV → σ} (L : Laws rd wr) : WOK rd wr where
  info := L.info
  same := fun s n v _ => L.same s n v
  other := L.other

/-- expressions of the emitted shape: identifiers, literals, unary / binary / ternary operators -/
def simpleE : V.Expr → Bool
  | .id _ => true
  | .num _ _ _ _ => true
  | .un _ e => simpleE e
  | .bin _ a b => simpleE a && simpleE b
  | .tern c a b => simpleE c && simpleE a && simpleE b
  | _ => false

def idsE : V.Expr → List String
  | .id n => [n]
  | .un _ e => idsE e
  | .bin _ a b => idsE a ++ idsE b
  | .tern c a b => idsE c ++ idsE a ++ idsE b
  | _ => []

/-- statements of the emitted shape: whole-name targets only -/
def simpleS : V.Stmt → Bool
  | .skip => true
  | .seq a b => simpleS a && simpleS b
  | .ife c t e => simpleE c && simpleS t && simpleS e
  | .nba (.lid _) e => simpleE e
  | .ba (.lid _) e => simpleE e
  | .case e ch => simpleE e && simpleS ch
  | .arm v s r => simpleE v && simpleS s && simpleS r
  | .dflt s => simpleS s
  | _ => false

/-- every identifier of a statement, targets included -/
def idsS : V.Stmt → List String
  | .skip => []
  | .seq a b => idsS a ++ idsS b
  | .ife c t e => idsE c ++ idsS t ++ idsS e
  | .nba l e => l.name :: idsE e
  | .ba l e => l.name :: idsE e
  | .case e ch => idsE e ++ idsS ch
  | .arm v s r => idsE v ++ idsS s ++ idsS r
  | .dflt s => idsS s

/-- the two readers agree on every name of `D`: same declaration, same value -/
def EqOn (D : String → Prop) (r1 r2 : V.Rd) : Prop := ∀ n, D n → r1.info n = r2.info n ∧ r1.val n = r2.val n

theorem widthOf_eqOn {D : String → Prop} {r1 r2 : V.Rd} (h : EqOn D r1 r2) {n : String} (hn : D n) :
    V.widthOf r1 n = V.widthOf r2 n := by
  unfold V.widthOf; rw [(h n hn).1]

theorem signedOf_eqOn {D : String → Prop} {r1 r2 : V.Rd} (h : EqOn D r1 r2) {n : String} (hn : D n) :
    V.signedOf r1 n = V.signedOf r2 n := by
  unfold V.signedOf; rw [(h n hn).1]

theorem expr_congr {D : String → Prop} {r1 r2 : V.Rd} (h : EqOn D r1 r2) : ∀ e : V.Expr, simpleE e = true →
    (∀ n, n ∈ idsE e → D n) →
    V.selfW r1 e = V.selfW r2 e ∧ V.isSg r1 e = V.isSg r2 e ∧ ∀ W sg, V.eval r1 W sg e = V.eval r2 W sg e := by
  intro e
  induction e with
  | id n =>
    intro _ hd
    have hn : D n := hd n (by simp [idsE])
    refine ⟨?_, ?_, ?_⟩
    · simp only [V.selfW]; exact widthOf_eqOn h hn
    · simp only [V.isSg]; exact signedOf_eqOn h hn
    · intro W sg; simp only [V.eval]; rw [(h n hn).2]
  | num w sgn v k =>
    intro _ _
    refine ⟨?_, ?_, ?_⟩
    · cases w <;> simp [V.selfW]
    · simp [V.isSg]
    · intro W sg; simp [V.eval]
  | un op e ih =>
    intro hs hd
    have ih' := ih (by simpa [simpleE] using hs) (fun n hn => hd n (by simpa [idsE] using hn))
    obtain ⟨i1, i2, i3⟩ := ih'
    refine ⟨?_, ?_, ?_⟩
    · simp only [V.selfW, i1]
    · simp only [V.isSg, i2]
    · intro W sg; simp only [V.eval, i1, i2, i3]
  | bin op a b iha ihb =>
    intro hs hd
    simp only [simpleE, Bool.and_eq_true] at hs
    obtain ⟨a1, a2, a3⟩ := iha hs.1 (fun n hn => hd n (by simp [idsE, hn]))
    obtain ⟨b1, b2, b3⟩ := ihb hs.2 (fun n hn => hd n (by simp [idsE, hn]))
    refine ⟨?_, ?_, ?_⟩
    · simp only [V.selfW, a1, b1]
    · simp only [V.isSg, a2, b2]
    · intro W sg; simp only [V.eval, a1, a2, a3, b1, b2, b3]
  | tern c a b ihc iha ihb =>
    intro hs hd
    simp only [simpleE, Bool.and_eq_true] at hs
    obtain ⟨c1, c2, c3⟩ := ihc hs.1.1 (fun n hn => hd n (by simp [idsE, hn]))
    obtain ⟨a1, a2, a3⟩ := iha hs.1.2 (fun n hn => hd n (by simp [idsE, hn]))
    obtain ⟨b1, b2, b3⟩ := ihb hs.2 (fun n hn => hd n (by simp [idsE, hn]))
    refine ⟨?_, ?_, ?_⟩
    · simp only [V.selfW, a1, b1]
    · simp only [V.isSg, a2, b2]
    · intro W sg; simp only [V.eval, c1, c2, c3, a3, b3]
  | cat a b _ _ => intro hs; simp [simpleE] at hs
  | cat1 a _ => intro hs; simp [simpleE] at hs
  | rep n e _ => intro hs; simp [simpleE] at hs
  | idx n i _ => intro hs; simp [simpleE] at hs
  | rng n hi lo => intro hs; simp [simpleE] at hs
  | sgn e _ => intro hs; simp [simpleE] at hs
  | usg e _ => intro hs; simp [simpleE] at hs

theorem evalAssign_congr {D : String → Prop} {r1 r2 : V.Rd} (h : EqOn D r1 r2) (e : V.Expr) (hs : simpleE e = true)
    (hd : ∀ n, n ∈ idsE e → D n) (lw : Nat) : V.evalAssign r1 lw e = V.evalAssign r2 lw e := by
  obtain ⟨e1, e2, e3⟩ := expr_congr h e hs hd
  unfold V.evalAssign
  simp only [e1, e2, e3]

/-- every queued update names a declared name and carries a value of its declared width -/
def QOK (D : String → Prop) (r : V.Rd) (q : List (V.Tgt × V.BV)) : Prop :=
  ∀ tv, tv ∈ q → ∃ n, tv.1 = .whole n ∧ D n ∧ Norm (V.widthOf r n) tv.2

theorem qok_info {D : String → Prop} {r r' : V.Rd} (hi : r'.info = r.info) {q : List (V.Tgt × V.BV)} (h : QOK D r q) : QOK D r' q := by
  intro tv hm
  obtain ⟨n, h1, h2, h3⟩ := h tv hm
  refine ⟨n, h1, h2, ?_⟩
  unfold V.widthOf at *; rw [hi]; exact h3

/-- effect of one whole-name write of a normal-form value on two stores that agree on `D` -/
theorem write_congr {σ1 σ2 : Type} {rd1 : σ1 → V.Rd} {wr1 : σ1 → V.Tgt → V.BV → σ1} {rd2 : σ2 → V.Rd} {wr2 : σ2 → V.Tgt → V.BV → σ2}
    (W1 : WOK rd1 wr1) (W2 : WOK rd2 wr2) {D : String → Prop} {s1 : σ1} {s2 : σ2} (h : EqOn D (rd1 s1) (rd2 s2))
    (n : String) (hn : D n) (v : V.BV) (hv : Norm (V.widthOf (rd1 s1) n) v) :
    EqOn D (rd1 (wr1 s1 (.whole n) v)) (rd2 (wr2 s2 (.whole n) v)) ∧
    (∀ k, ¬ D k → (rd2 (wr2 s2 (.whole n) v)).val k = (rd2 s2).val k) := by
  have hv2 : Norm (V.widthOf (rd2 s2) n) v := by rw [← widthOf_eqOn h hn]; exact hv
  refine ⟨?_, ?_⟩
  · intro k hk
    refine ⟨by rw [W1.info, W2.info]; exact (h k hk).1, ?_⟩
    by_cases hkn : k = n
    · subst hkn; rw [W1.same _ _ _ hv, W2.same _ _ _ hv2]
    · rw [W1.other _ _ _ _ hkn, W2.other _ _ _ _ hkn]; exact (h k hk).2
  · intro k hk
    have hkn : k ≠ n := fun e => hk (e ▸ hn)
    exact W2.other _ _ _ _ hkn

/-- what executing one emitted statement on two agreeing stores gives -/
structure ExecCongr {σ1 σ2 : Type} (rd1 : σ1 → V.Rd) (rd2 : σ2 → V.Rd) (D : String → Prop)
    (x1 y1 : V.Ex σ1) (x2 y2 : V.Ex σ2) : Prop where
  eq : EqOn D (rd1 y1.st) (rd2 y2.st)
  queue : y1.nba = y2.nba
  qok : QOK D (rd1 y1.st) y1.nba
  info1 : (rd1 y1.st).info = (rd1 x1.st).info
  frame : ∀ k, ¬ D k → (rd2 y2.st).val k = (rd2 x2.st).val k

/-- EXECUTION CONGRUENCE.  One statement of the emitted shape, all of whose identifiers are declared (`D`), executed by `V.exec`
    on two stores with the write laws that agree on `D`: same queue of non-blocking updates, stores that agree on `D` again,
    nothing outside `D` touched. -/
theorem exec_congr {σ1 σ2 : Type} {rd1 : σ1 → V.Rd} {wr1 : σ1 → V.Tgt → V.BV → σ1} {rd2 : σ2 → V.Rd} {wr2 : σ2 → V.Tgt → V.BV → σ2}
    (W1 : WOK rd1 wr1) (W2 : WOK rd2 wr2) (D : String → Prop) :
    ∀ (s : V.Stmt) (subj : Option V.BV) (x1 : V.Ex σ1) (x2 : V.Ex σ2), simpleS s = true → (∀ n, n ∈ idsS s → D n) →
      EqOn D (rd1 x1.st) (rd2 x2.st) → x1.nba = x2.nba → QOK D (rd1 x1.st) x1.nba →
      ExecCongr rd1 rd2 D x1 (V.exec rd1 wr1 subj s x1) x2 (V.exec rd2 wr2 subj s x2) := by
  intro s
  induction s with
  | skip => intro subj x1 x2 _ _ h hq hk; exact ⟨h, hq, hk, rfl, fun _ _ => rfl⟩
  | seq a b iha ihb =>
    intro subj x1 x2 hs hd h hq hk
    simp only [simpleS, Bool.and_eq_true] at hs
    have A := iha subj x1 x2 hs.1 (fun n hn => hd n (by simp [idsS, hn])) h hq hk
    have B := ihb subj _ _ hs.2 (fun n hn => hd n (by simp [idsS, hn])) A.eq A.queue A.qok
    simp only [V.exec]
    exact ⟨B.eq, B.queue, B.qok, by rw [B.info1, A.info1], fun k hkD => by rw [B.frame k hkD, A.frame k hkD]⟩
  | ife c t e iht ihe =>
    intro subj x1 x2 hs hd h hq hk
    simp only [simpleS, Bool.and_eq_true] at hs
    obtain ⟨c1, c2, c3⟩ := expr_congr h c hs.1.1 (fun n hn => hd n (by simp [idsS, hn]))
    simp only [V.exec, c1, c2, c3]
    split
    · exact iht subj x1 x2 hs.1.2 (fun n hn => hd n (by simp [idsS, hn])) h hq hk
    · exact ihe subj x1 x2 hs.2 (fun n hn => hd n (by simp [idsS, hn])) h hq hk
  | nba l e =>
    intro subj x1 x2 hs hd h hq hk
    cases l with
    | lid n =>
      simp only [simpleS] at hs
      have hn : D n := hd n (by simp [idsS, V.LHS.name])
      have he := evalAssign_congr h e hs (fun k hk' => hd k (by simp [idsS, hk'])) (V.widthOf (rd1 x1.st) n)
      simp only [V.exec, V.resolve, V.lhsWidth]
      refine ⟨h, ?_, ?_, rfl, fun _ _ => rfl⟩
      · rw [hq, he, widthOf_eqOn h hn]
      · intro tv hm
        simp only [List.mem_append, List.mem_singleton] at hm
        rcases hm with hm | hm
        · exact hk tv hm
        · subst hm; exact ⟨n, rfl, hn, evalAssign_norm _ _ _⟩
    | lidx n i => simp [simpleS] at hs
    | lrng n hi lo => simp [simpleS] at hs
  | ba l e =>
    intro subj x1 x2 hs hd h hq hk
    cases l with
    | lid n =>
      simp only [simpleS] at hs
      have hn : D n := hd n (by simp [idsS, V.LHS.name])
      have he := evalAssign_congr h e hs (fun k hk' => hd k (by simp [idsS, hk'])) (V.widthOf (rd1 x1.st) n)
      simp only [V.exec, V.resolve, V.lhsWidth]
      rw [← widthOf_eqOn h hn, ← he]
      obtain ⟨w1, w2⟩ := write_congr W1 W2 h n hn _ (evalAssign_norm (rd1 x1.st) (V.widthOf (rd1 x1.st) n) e)
      exact ⟨w1, hq, qok_info (W1.info _ _ _) hk, W1.info _ _ _, w2⟩
    | lidx n i => simp [simpleS] at hs
    | lrng n hi lo => simp [simpleS] at hs
  | case e ch ih =>
    intro subj x1 x2 hs hd h hq hk
    simp only [simpleS, Bool.and_eq_true] at hs
    obtain ⟨c1, c2, c3⟩ := expr_congr h e hs.1 (fun n hn => hd n (by simp [idsS, hn]))
    simp only [V.exec, c1, c2, c3]
    exact ih _ x1 x2 hs.2 (fun n hn => hd n (by simp [idsS, hn])) h hq hk
  | arm v b rest ihb ihr =>
    intro subj x1 x2 hs hd h hq hk
    simp only [simpleS, Bool.and_eq_true] at hs
    obtain ⟨c1, c2, c3⟩ := expr_congr h v hs.1.1 (fun n hn => hd n (by simp [idsS, hn]))
    cases subj with
    | none => simp only [V.exec]; exact ⟨h, hq, hk, rfl, fun _ _ => rfl⟩
    | some sv =>
      simp only [V.exec, c1, c3]
      split
      · exact ihb none x1 x2 hs.1.2 (fun n hn => hd n (by simp [idsS, hn])) h hq hk
      · exact ihr (some sv) x1 x2 hs.2 (fun n hn => hd n (by simp [idsS, hn])) h hq hk
  | dflt b ih =>
    intro subj x1 x2 hs hd h hq hk
    simp only [simpleS] at hs
    simp only [V.exec]
    exact ih none x1 x2 hs (fun n hn => hd n (by simp [idsS, hn])) h hq hk

/-- applying the same queue of non-blocking updates to two agreeing stores -/
theorem applyQ_congr {σ1 σ2 : Type} {rd1 : σ1 → V.Rd} {wr1 : σ1 → V.Tgt → V.BV → σ1} {rd2 : σ2 → V.Rd} {wr2 : σ2 → V.Tgt → V.BV → σ2}
    (W1 : WOK rd1 wr1) (W2 : WOK rd2 wr2) (D : String → Prop) :
    ∀ (q : List (V.Tgt × V.BV)) (s1 : σ1) (s2 : σ2), EqOn D (rd1 s1) (rd2 s2) → QOK D (rd1 s1) q →
      EqOn D (rd1 (applyQ wr1 s1 q)) (rd2 (applyQ wr2 s2 q)) ∧
      (∀ k, ¬ D k → (rd2 (applyQ wr2 s2 q)).val k = (rd2 s2).val k) := by
  intro q
  induction q with
  | nil => intro s1 s2 h _; exact ⟨h, fun _ _ => rfl⟩
  | cons tv tl ih =>
    intro s1 s2 h hk
    obtain ⟨n, h1, h2, h3⟩ := hk tv (by simp)
    obtain ⟨t, v⟩ := tv
    simp only at h1 h3
    subst h1
    obtain ⟨w1, w2⟩ := write_congr W1 W2 h n h2 v h3
    have hk' : QOK D (rd1 (wr1 s1 (.whole n) v)) tl :=
      qok_info (W1.info _ _ _) (fun tv hm => hk tv (by simp [hm]))
    obtain ⟨i1, i2⟩ := ih _ _ w1 hk'
    simp only [applyQ, List.foldl] at *
    exact ⟨i1, fun k hkD => by rw [i2 k hkD, w2 k hkD]⟩

theorem applyNba_eq (s : V.Store) (q : List (V.Tgt × V.BV)) : V.applyNba s q = applyQ V.Store.wr s q := by
  unfold V.applyNba applyQ
  congr

/-! ### 3. `Sim.cycle` of a flat design with a single `always @(posedge clk)` block -/

/-- a simulation whose flat design is one clocked block (what `flatten` makes of a sequential `trModule`) -/
structure SeqSim (m : V.Sim) (clk : String) (body : V.Stmt) : Prop where
  assigns : m.flat.assigns = []
  procs : m.flat.procs = [(V.Event.pos clk, body)]
  clk : m.clk = clk

theorem settlePass_seq {f : V.Flat} {clk : String} {body : V.Stmt} (ha : f.assigns = []) (hp : f.procs = [(V.Event.pos clk, body)])
    (s : V.Store) : V.settlePass f s = s := by
  unfold V.settlePass
  simp [ha, hp]

theorem settleLoop_fix {f : V.Flat} (hpass : ∀ s, V.settlePass f s = s) : ∀ (fuel : Nat) (s : V.Store), (V.settleLoop f fuel s).1 = s := by
  intro fuel
  induction fuel with
  | zero => intro s; rfl
  | succ n ih =>
    intro s
    unfold V.settleLoop
    simp only [hpass s]
    split
    · rfl
    · exact ih s

theorem settle_seq {m : V.Sim} {clk : String} {body : V.Stmt} (H : SeqSim m clk body) :
    m.settle.st = m.st ∧ m.settle.flat = m.flat ∧ m.settle.clk = m.clk := by
  unfold V.Sim.settle
  have := settleLoop_fix (fun s => settlePass_seq H.assigns H.procs s) (m.flat.assigns.length + m.flat.procs.length + 3) m.st
  generalize V.settleLoop m.flat (m.flat.assigns.length + m.flat.procs.length + 3) m.st = r at this
  obtain ⟨s, ok⟩ := r
  simp only at this
  subst this
  exact ⟨rfl, rfl, rfl⟩

theorem bitOf_setVal (s : V.Store) (n : String) (b : Nat) (hb : b < 2) : V.bitOf (s.setVal n ⟨1, b, true⟩) n = some b := by
  unfold V.bitOf
  simp only [setVal_same]
  simp [Nat.mod_eq_of_lt hb]

/-- ONE CLOCK CYCLE OF THE INTERPRETER (`Sim.cycle` = falling edge, rising edge; each: drive the clock, settle, detect the edges,
    delta loop) on a design that is one `always @(posedge clk)` block, the clock being 1 before: nothing fires at the falling edge;
    at the rising edge the block is executed exactly once on the store as it is (blocking assignments immediately), then all its
    non-blocking updates are applied; nothing else happens. -/
theorem cycle_single_posedge {m : V.Sim} {clk : String} {body : V.Stmt} (H : SeqSim m clk body)
    (hclk : V.bitOf m.st clk = some 1) :
    m.cycle.st = V.applyNba (V.runProc ((m.st.setVal clk ⟨1, 0, true⟩).setVal clk ⟨1, 1, true⟩) body).1
                            (V.runProc ((m.st.setVal clk ⟨1, 0, true⟩).setVal clk ⟨1, 1, true⟩) body).2 ∧
    m.cycle.flat = m.flat ∧ m.cycle.clk = m.clk := by
  -- falling edge
  have H0 : SeqSim ({ m with st := m.st.setVal m.clk ⟨1, 0, true⟩ } : V.Sim) clk body := ⟨H.assigns, H.procs, H.clk⟩
  obtain ⟨a1, a2, a3⟩ := settle_seq H0
  have hhalf0 : (m.half 0) = ({ m with st := m.st.setVal m.clk ⟨1, 0, true⟩ } : V.Sim).settle := by
    unfold V.Sim.half
    simp only
    have hf : V.firedProcs m.flat (V.snapshotEv m.flat m.st) ({ m with st := m.st.setVal m.clk ⟨1, 0, true⟩ } : V.Sim).settle.st = [] := by
      unfold V.firedProcs V.snapshotEv
      simp [H.procs, V.evSig, hclk]
    rw [hf]
    unfold V.deltaLoop
    simp
  -- rising edge
  have hst0 : (m.half 0).st = m.st.setVal clk ⟨1, 0, true⟩ := by rw [hhalf0, a1, H.clk]
  have hfl0 : (m.half 0).flat = m.flat := by rw [hhalf0, a2]
  have hck0 : (m.half 0).clk = clk := by rw [hhalf0, a3, H.clk]
  have H1 : SeqSim (m.half 0) clk body := ⟨by rw [hfl0]; exact H.assigns, by rw [hfl0]; exact H.procs, hck0⟩
  have H1' : SeqSim ({ (m.half 0) with st := (m.half 0).st.setVal (m.half 0).clk ⟨1, 1, true⟩ } : V.Sim) clk body :=
    ⟨H1.assigns, H1.procs, H1.clk⟩
  obtain ⟨b1, b2, b3⟩ := settle_seq H1'
  generalize hm0 : m.half 0 = m0 at *
  unfold V.Sim.cycle
  rw [hm0]
  unfold V.Sim.half
  simp only
  have hbefore : V.snapshotEv m0.flat m0.st = [some 0] := by
    unfold V.snapshotEv
    simp [H1.procs, V.evSig, hst0, bitOf_setVal]
  have hst1 : ({ m0 with st := m0.st.setVal m0.clk ⟨1, 1, true⟩ } : V.Sim).settle.st = (m.st.setVal clk ⟨1, 0, true⟩).setVal clk ⟨1, 1, true⟩ := by
    rw [b1, hst0, hck0]
  have hfired : V.firedProcs m0.flat (V.snapshotEv m0.flat m0.st) ({ m0 with st := m0.st.setVal m0.clk ⟨1, 1, true⟩ } : V.Sim).settle.st = [body] := by
    rw [hbefore, hst1]
    unfold V.firedProcs
    simp [H1.procs, bitOf_setVal]
  rw [hfired]
  generalize hm1 : ({ m0 with st := m0.st.setVal m0.clk ⟨1, 1, true⟩ } : V.Sim).settle = m1 at *
  have Hm1 : SeqSim m1 clk body := ⟨by rw [b2]; exact H1.assigns, by rw [b2]; exact H1.procs, by rw [b3]; exact hck0⟩
  -- the delta loop: the block runs once, nothing fires afterwards
  unfold V.deltaLoop
  simp only [List.isEmpty_cons, Bool.false_eq_true, if_false, List.foldl, List.nil_append]
  have H2 : SeqSim ({ m1 with st := V.applyNba (V.runProc m1.st body).1 (V.runProc m1.st body).2 } : V.Sim) clk body :=
    ⟨Hm1.assigns, Hm1.procs, Hm1.clk⟩
  obtain ⟨c1, c2, c3⟩ := settle_seq H2
  have hbefore2 : V.snapshotEv m1.flat m1.st = [some 1] := by
    unfold V.snapshotEv
    simp [Hm1.procs, V.evSig, hst1, bitOf_setVal]
  have hfired2 : ∀ st', V.firedProcs m1.flat (V.snapshotEv m1.flat m1.st) st' = [] := by
    intro st'
    rw [hbefore2]
    unfold V.firedProcs
    simp [Hm1.procs]
  simp only [hfired2]
  unfold V.deltaLoop
  simp only [List.isEmpty_nil, if_true]
  refine ⟨?_, ?_, ?_⟩
  · rw [c1]; simp only [hst1]
  · rw [c2, b2, hfl0]
  · rw [c3, b3, hck0, H.clk]

/-! ### 4. the translated body under the interpreter -/

/-- the functional store the soundness theorems are instantiated with (total declarations, values as a function) -/
structure FS where
  info : String → Option V.SigInfo
  val : String → V.BV

def rdFS (s : FS) : V.Rd := { info := s.info, val := s.val, mem := fun _ _ => V.BV.x 1 }
def wrFS (s : FS) (t : V.Tgt) (v : V.BV) : FS :=
  match t with
  | .whole n => { s with val := fun k => if k == n then v else s.val k }
  | _ => s

theorem fs_laws : Laws rdFS wrFS where
  info := by intro s t v; cases t <;> rfl
  same := by intro s n v; simp [rdFS, wrFS]
  other := by intro s n v k hk; simp [rdFS, wrFS, hk]


theorem numE_simple (v : Int) : simpleE (numE v) = true := by
  unfold numE; split <;> rfl

theorem resolveName_simple (c : ClassD) (n : String) : simpleE (resolveName c n) = true := by
  unfold resolveName
  split
  · rfl
  · split
    · rfl
    · split
      · exact numE_simple _
      · rfl

theorem trE_simple (c : ClassD) : ∀ e : Expr, simpleE (trE c e) = true := by
  intro e
  induction e with
  | const v => exact numE_simple v
  | loc n => exact resolveName_simple c n
  | attr n => exact resolveName_simple c n
  | get n => rfl
  | par n => rfl
  | un op e ih => simpa [trE, simpleE] using ih
  | bin op a b iha ihb => simp [trE, simpleE, iha, ihb]
  | cmp op a b iha ihb => simp [trE, simpleE, iha, ihb]
  | and a b iha ihb => simp [trE, simpleE, iha, ihb]
  | or a b iha ihb => simp [trE, simpleE, iha, ihb]
  | ite cnd a b ihc iha ihb => simp [trE, simpleE, ihc, iha, ihb]

theorem assignS_simple (txt n : String) (e : V.Expr) (he : simpleE e = true) : simpleS (assignS txt n e) = true := by
  unfold assignS; split <;> simpa [simpleS] using he

/-- every statement the translation model produces has the emitted shape -/
theorem trS_simple (c : ClassD) : ∀ s : Stmt, simpleS (trS c s) = true := by
  intro s
  induction s with
  | skip => rfl
  | seq a b iha ihb => simp [trS, simpleS, iha, ihb]
  | setLoc n e => simp only [trS]; split <;> exact assignS_simple _ _ _ (trE_simple c e)
  | setAttr n e => simp only [trS]; split <;> exact assignS_simple _ _ _ (trE_simple c e)
  | put w e => exact assignS_simple _ _ _ (trE_simple c e)
  | prep w e => exact assignS_simple _ _ _ (trE_simple c e)
  | ife cnd t e iht ihe => simp [trS, simpleS, trE_simple, iht, ihe]
  | mtch subj ch ih => simp [trS, simpleS, trE_simple, ih]
  | arm v g body rest ihb ihr =>
    cases g with
    | none => simp [trS, simpleS, trE_simple, ihb, ihr]
    | some ge => simp [trS, simpleS, trE_simple, ihb, ihr]
  | dflt body ih => simpa [trS, simpleS] using ih

/-- the names on which the two stores must agree: every identifier of the translated body, and every port -/
def DNames (c : ClassD) (n : String) : Prop := n ∈ idsS (trS c c.body) ∨ isPort c n = true

theorem vCycle_eq (c : ClassD) (f : FS) :
    vCycle rdFS wrFS c f = applyQ wrFS (V.exec rdFS wrFS none (trS c c.body) ⟨f, []⟩).st (V.exec rdFS wrFS none (trS c c.body) ⟨f, []⟩).nba := rfl

/-- ONE CLOCK CYCLE: the abstract step of the soundness theorems (`vCycle`: execute the translated body, apply the queue) and the
    interpreter's `Sim.cycle` on the flattened module keep a functional store and the interpreter's store in agreement on every
    name of the body and every port; the design and the clock level are as before. -/
theorem run_cycle (c : ClassD) (f : FS) (m : V.Sim) (H : SeqSim m c.clk (trS c c.body)) (hclk : V.bitOf m.st c.clk = some 1)
    (hD : ¬ DNames c c.clk) (h : EqOn (DNames c) (rdFS f) m.st.rd) :
    EqOn (DNames c) (rdFS (vCycle rdFS wrFS c f)) m.cycle.st.rd ∧ SeqSim m.cycle c.clk (trS c c.body) ∧
    V.bitOf m.cycle.st c.clk = some 1 := by
  obtain ⟨e1, e2, e3⟩ := cycle_single_posedge H hclk
  generalize hst1 : (m.st.setVal c.clk ⟨1, 0, true⟩).setVal c.clk ⟨1, 1, true⟩ = st1 at e1
  have hne : ∀ n, DNames c n → n ≠ c.clk := fun n hn e => hD (e ▸ hn)
  have h1 : EqOn (DNames c) (rdFS f) st1.rd := by
    intro n hn
    subst hst1
    refine ⟨?_, ?_⟩
    · rw [setVal_rd_info, setVal_rd_info]; exact (h n hn).1
    · rw [setVal_other _ _ _ _ (hne n hn), setVal_other _ _ _ _ (hne n hn)]; exact (h n hn).2
  have hclk1 : st1.rd.val c.clk = ⟨1, 1, true⟩ := by subst hst1; exact setVal_same _ _ _
  have X := exec_congr (laws_wok fs_laws) store_wok (DNames c) (trS c c.body) none (⟨f, []⟩ : V.Ex FS) (⟨st1, []⟩ : V.Ex V.Store)
    (trS_simple c c.body) (fun n hn => Or.inl hn) h1 rfl (fun tv hm => by cases hm)
  obtain ⟨q1, q2⟩ := applyQ_congr (laws_wok fs_laws) store_wok (DNames c) _ _ _ X.eq X.qok
  refine ⟨?_, ⟨by rw [e2]; exact H.assigns, by rw [e2]; exact H.procs, by rw [e3]; exact H.clk⟩, ?_⟩
  · rw [e1, vCycle_eq, applyNba_eq]
    unfold V.runProc
    simp only
    rw [← X.queue]
    exact q1
  · rw [e1, applyNba_eq]
    unfold V.runProc V.bitOf
    simp only
    rw [← X.queue, q2 _ hD, X.frame _ hD, hclk1]
    rfl

/-- the bench's `set n v` on the interpreter's store and the abstract `vDrive` on the functional store -/
theorem drive_congr (c : ClassD) : ∀ (asg : List (String × Nat)) (f : FS) (m : V.Sim), (∀ n, f.info n = typing c n) →
    EqOn (DNames c) (rdFS f) m.st.rd → (∀ nv, nv ∈ asg → isPort c nv.1 = true) → ¬ DNames c c.clk →
    let m' := asg.foldl (fun m nv => m.setIn nv.1 nv.2) m
    EqOn (DNames c) (rdFS (vDrive wrFS c f (asg.map fun p => (p.1, (p.2 : Int))))) m'.st.rd ∧ m'.flat = m.flat ∧ m'.clk = m.clk ∧
    m'.st.rd.val c.clk = m.st.rd.val c.clk ∧ (∀ n, (vDrive wrFS c f (asg.map fun p => (p.1, (p.2 : Int)))).info n = typing c n) := by
  intro asg
  induction asg with
  | nil => intro f m ht h _ _; exact ⟨h, rfl, rfl, rfl, ht⟩
  | cons nv tl ih =>
    intro f m ht h hp hD
    obtain ⟨n, v⟩ := nv
    have hpn : isPort c n = true := hp (n, v) (by simp)
    obtain ⟨p, hpp⟩ := isPort_true hpn
    have hDn : DNames c n := Or.inr hpn
    have hw : V.widthOf m.st.rd n = p.width := by
      rw [← widthOf_eqOn h hDn]
      have : (rdFS f).info n = typing c n := ht n
      rw [widthOf_typed this, hpp]
    -- the interpreter's write masks the driven value to the declared width
    have hmask : m.st.wr (.whole n) ⟨V.widthOf m.st.rd n, v, true⟩ = m.st.wr (.whole n) ⟨p.width, (maskW p.width (v : Int)).toNat, true⟩ := by
      unfold V.Store.wr
      simp only [hw]
      have : (maskW p.width (v : Int)).toNat = v % 2 ^ p.width := by
        unfold maskW; rw [← Int.natCast_emod, Int.toNat_natCast]
      rw [this, Nat.mod_mod]
    have hnorm : Norm (V.widthOf (rdFS f) n) ⟨p.width, (maskW p.width (v : Int)).toNat, true⟩ := by
      have : (rdFS f).info n = typing c n := ht n
      rw [widthOf_typed this, hpp]
      simp only
      exact ⟨rfl, fun _ => (maskW_range p.width (v : Int)).2, fun hk => by cases hk⟩
    obtain ⟨w1, w2⟩ := write_congr (laws_wok fs_laws) store_wok h n hDn _ hnorm
    have hstep : (({ m with st := m.st.wr (.whole n) ⟨V.widthOf m.st.rd n, v, true⟩ } : V.Sim)).st =
        m.st.wr (.whole n) ⟨p.width, (maskW p.width (v : Int)).toNat, true⟩ := hmask
    have ht' : ∀ k, (wrFS f (.whole n) ⟨p.width, (maskW p.width (v : Int)).toNat, true⟩).info k = typing c k := fun k => ht k
    have := ih (wrFS f (.whole n) ⟨p.width, (maskW p.width (v : Int)).toNat, true⟩)
      ({ m with st := m.st.wr (.whole n) ⟨V.widthOf m.st.rd n, v, true⟩ } : V.Sim) ht' (by rw [hstep]; exact w1)
      (fun nv hm => hp nv (by simp [hm])) hD
    obtain ⟨r1, r2, r3, r4, r5⟩ := this
    simp only [List.foldl, List.map, vDrive, V.Sim.setIn, hpp] at *
    refine ⟨r1, r2, r3, ?_, r5⟩
    rw [r4, hstep]
    exact w2 _ hD

def natAsg (asg : List (String × Nat)) : List (String × Int) := asg.map fun p => (p.1, (p.2 : Int))

/-- WHOLE BENCH SESSIONS: per element of the history the bench drives inputs (`Sim.setIn`) and steps the interpreter one clock cycle
    (`Sim.cycle`); the abstract run of the soundness theorems (`vRun`: `vDrive`, `vCycle`) stays in agreement with the interpreter's
    store on every name of the body and every port, for every history. -/
theorem run_history (c : ClassD) (hD : ¬ DNames c c.clk) : ∀ (h : List (List (String × Nat))) (f : FS) (m : V.Sim),
    SeqSim m c.clk (trS c c.body) → V.bitOf m.st c.clk = some 1 → (∀ n, f.info n = typing c n) →
    EqOn (DNames c) (rdFS f) m.st.rd → (∀ asg, asg ∈ h → ∀ nv, nv ∈ asg → isPort c nv.1 = true) →
    EqOn (DNames c) (rdFS (vRun rdFS wrFS c f (h.map natAsg))) (h.foldl V.Sim.stepWith m).st.rd := by
  intro h
  induction h with
  | nil => intro f m _ _ _ hE _; exact hE
  | cons asg rest ih =>
    intro f m H hclk ht hE hp
    obtain ⟨d1, d2, d3, d4, d5⟩ := drive_congr c asg f m ht hE (hp asg (by simp)) hD
    generalize hm' : asg.foldl (fun m nv => m.setIn nv.1 nv.2) m = m' at d1 d2 d3 d4
    have H' : SeqSim m' c.clk (trS c c.body) := ⟨by rw [d2]; exact H.assigns, by rw [d2]; exact H.procs, by rw [d3]; exact H.clk⟩
    have hclk' : V.bitOf m'.st c.clk = some 1 := by unfold V.bitOf at *; rw [d4]; exact hclk
    obtain ⟨c1, c2, c3⟩ := run_cycle c _ m' H' hclk' hD d1
    have ht2 : ∀ n, (vCycle rdFS wrFS c (vDrive wrFS c f (natAsg asg))).info n = typing c n := by
      intro n
      have hi : ∀ (q : List (V.Tgt × V.BV)) (g : FS), (applyQ wrFS g q).info = g.info := by
        intro q
        induction q with
        | nil => intro g; rfl
        | cons hd tl ihq => intro g; simp only [applyQ, List.foldl] at *; rw [ihq]; exact fs_laws.info g hd.1 hd.2
      have X := exec_congr (laws_wok fs_laws) (laws_wok fs_laws) (fun _ => True) (trS c c.body) none
        (⟨vDrive wrFS c f (natAsg asg), []⟩ : V.Ex FS) ⟨vDrive wrFS c f (natAsg asg), []⟩ (trS_simple c c.body) (fun _ _ => trivial)
        (fun _ _ => ⟨rfl, rfl⟩) rfl (fun tv hm => by cases hm)
      rw [vCycle_eq]
      have : (applyQ wrFS (V.exec rdFS wrFS none (trS c c.body) ⟨vDrive wrFS c f (natAsg asg), []⟩).st
          (V.exec rdFS wrFS none (trS c c.body) ⟨vDrive wrFS c f (natAsg asg), []⟩).nba).info =
          (V.exec rdFS wrFS none (trS c c.body) ⟨vDrive wrFS c f (natAsg asg), []⟩).st.info := hi _ _
      rw [this]
      have := X.info1
      simp only [rdFS] at this
      rw [this]
      exact d5 n
    have := ih _ _ c2 c3 ht2 c1 (fun a ha => hp a (by simp [ha]))
    simp only [List.map, vRun, List.foldl, V.Sim.stepWith]
    rw [hm']
    exact this

end C02
