import Py4hwV.Emit.Flat
/-
  C01 design level, Verilog side: an expression only sees the signals it names (`eval_congr`); the settled valuation of
  an acyclic, single-driver list of whole-net continuous assigns exists, is unique, and is reached by `length` passes
  in ANY textual order.
-/
set_option linter.unusedSimpArgs false
namespace FlatM
open V

/-! ### expressions only see what they read -/

theorem widthOf_congr {r r' : Rd} (h : r.info = r'.info) (n : String) : widthOf r n = widthOf r' n := by
  simp [widthOf, h]

theorem signedOf_congr {r r' : Rd} (h : r.info = r'.info) (n : String) : signedOf r n = signedOf r' n := by
  simp [signedOf, h]

theorem isMem_congr {r r' : Rd} (h : r.info = r'.info) (n : String) : isMem r n = isMem r' n := by
  simp [isMem, h]

theorem selfW_congr {r r' : Rd} (h : r.info = r'.info) (e : Expr) : selfW r e = selfW r' e := by
  induction e with
  | num w s v k => cases w <;> rfl
  | _ => simp [selfW, widthOf_congr h, isMem_congr h, *]

theorem isSg_congr {r r' : Rd} (h : r.info = r'.info) (e : Expr) : isSg r e = isSg r' e := by
  induction e with
  | num w s v k => rfl
  | _ => simp [isSg, signedOf_congr h, *]

theorem eval_congr {r r' : Rd} (hi : r.info = r'.info) (hm : r.mem = r'.mem) (e : Expr)
    (hv : ∀ n, n ∈ reads e → r.val n = r'.val n) (W : Nat) (sg : Bool) : eval r W sg e = eval r' W sg e := by
  induction e generalizing W sg with
  | id n => simp only [eval]; rw [hv n (by simp [reads])]
  | num w s v k => simp only [eval]
  | un op e ih =>
    have ih' := fun W sg => ih (fun n hn => hv n (by simpa [reads] using hn)) W sg
    simp only [eval, ih', selfW_congr hi, isSg_congr hi]
  | bin op a b iha ihb =>
    have iha' := fun W sg => iha (fun n hn => hv n (by simp [reads, hn])) W sg
    have ihb' := fun W sg => ihb (fun n hn => hv n (by simp [reads, hn])) W sg
    simp only [eval, iha', ihb', selfW_congr hi, isSg_congr hi]
  | tern c a b ihc iha ihb =>
    have ihc' := fun W sg => ihc (fun n hn => hv n (by simp [reads, hn])) W sg
    have iha' := fun W sg => iha (fun n hn => hv n (by simp [reads, hn])) W sg
    have ihb' := fun W sg => ihb (fun n hn => hv n (by simp [reads, hn])) W sg
    simp only [eval, iha', ihb', ihc', selfW_congr hi, isSg_congr hi]
  | cat a b iha ihb =>
    have iha' := fun W sg => iha (fun n hn => hv n (by simp [reads, hn])) W sg
    have ihb' := fun W sg => ihb (fun n hn => hv n (by simp [reads, hn])) W sg
    simp only [eval, iha', ihb', selfW_congr hi, isSg_congr hi]
  | cat1 a iha =>
    have iha' := fun W sg => iha (fun n hn => hv n (by simpa [reads] using hn)) W sg
    simp only [eval, iha', selfW_congr hi, isSg_congr hi]
  | rep k e ih =>
    have ih' := fun W sg => ih (fun n hn => hv n (by simpa [reads] using hn)) W sg
    simp only [eval, ih', selfW_congr hi, isSg_congr hi]
  | idx n i ih =>
    have ih' := fun W sg => ih (fun m hm' => hv m (by simp [reads, hm'])) W sg
    simp only [eval, ih', selfW_congr hi, isSg_congr hi, isMem_congr hi, hm, hv n (by simp [reads])]
  | rng n hi' lo => simp only [eval]; rw [hv n (by simp [reads])]
  | sgn e ih =>
    have ih' := fun W sg => ih (fun n hn => hv n (by simpa [reads] using hn)) W sg
    simp only [eval, ih', selfW_congr hi, isSg_congr hi]
  | usg e ih =>
    have ih' := fun W sg => ih (fun n hn => hv n (by simpa [reads] using hn)) W sg
    simp only [eval, ih', selfW_congr hi, isSg_congr hi]

theorem evalAssign_congr {r r' : Rd} (hi : r.info = r'.info) (hm : r.mem = r'.mem) (e : Expr)
    (hv : ∀ n, n ∈ reads e → r.val n = r'.val n) (lw : Nat) : evalAssign r lw e = evalAssign r' lw e := by
  simp only [evalAssign, eval_congr hi hm e hv, selfW_congr hi, isSg_congr hi]

/-! ### single steps -/

theorem norm_evalAssign (r : Rd) (w : Nat) (e : Expr) : norm w (evalAssign r w e) = evalAssign r w e := by
  unfold evalAssign norm
  simp only
  split <;> simp [BV.x, Nat.mod_mod]

@[simp] theorem setWhole_info (r : Rd) (n : String) (v : BV) : (setWhole r n v).info = r.info := rfl
@[simp] theorem setWhole_mem (r : Rd) (n : String) (v : BV) : (setWhole r n v).mem = r.mem := rfl

@[simp] theorem wrA_info (r : Rd) (t : Tgt) (v : BV) : (wrA r t v).info = r.info := by cases t <;> rfl
@[simp] theorem wrA_mem (r : Rd) (t : Tgt) (v : BV) : (wrA r t v).mem = r.mem := by cases t <;> rfl

@[simp] theorem stepA_info (r : Rd) (a : LHS × Expr) : (stepA r a).info = r.info := wrA_info _ _ _
@[simp] theorem stepA_mem (r : Rd) (a : LHS × Expr) : (stepA r a).mem = r.mem := wrA_mem _ _ _

theorem passA_info (as : List (LHS × Expr)) (r : Rd) : (passA as r).info = r.info := by
  induction as generalizing r with
  | nil => rfl
  | cons a as ih => simp only [passA, List.foldl] at ih ⊢; rw [ih, stepA_info]

theorem passA_mem (as : List (LHS × Expr)) (r : Rd) : (passA as r).mem = r.mem := by
  induction as generalizing r with
  | nil => rfl
  | cons a as ih => simp only [passA, List.foldl] at ih ⊢; rw [ih, stepA_mem]

theorem iter_passA_info (as : List (LHS × Expr)) (k : Nat) (r : Rd) : (Net.iter (passA as) k r).info = r.info := by
  induction k generalizing r with
  | zero => rfl
  | succ k ih => simp only [Net.iter]; rw [ih, passA_info]

theorem iter_passA_mem (as : List (LHS × Expr)) (k : Nat) (r : Rd) : (Net.iter (passA as) k r).mem = r.mem := by
  induction k generalizing r with
  | zero => rfl
  | succ k ih => simp only [Net.iter]; rw [ih, passA_mem]

theorem LhsOk_congr {r r' : Rd} (h : r.info = r'.info) {l : LHS} (hl : LhsOk r l) : LhsOk r' l := by
  cases l with
  | lid n => exact ⟨rfl, rfl⟩
  | lidx n i =>
    exfalso
    have := hl.1
    simp only [resolve] at this
    split at this
    · cases this
    · split at this <;> cases this
  | lrng n hi lo =>
    have h1 := hl.1
    have h2 := hl.2
    simp only [resolve, lhsWidth, LHS.name, widthOf_congr h] at h1 h2 ⊢
    exact ⟨h1, h2⟩

theorem stepA_val {r : Rd} {a : LHS × Expr} (h : LhsOk r a.1) (m : String) :
    (stepA r a).val m = if m = tgt a then evalAssign r (widthOf r (tgt a)) a.2 else r.val m := by
  unfold stepA
  rw [h.1, h.2]
  simp only [wrA, setWhole, tgt, norm_evalAssign]
  by_cases e : m = a.1.name <;> simp [e]

/-! ### existence: one pass in a sources-first order settles -/

theorem passA_val_other (as : List (LHS × Expr)) (r : Rd) (hok : ∀ a, a ∈ as → LhsOk r a.1) (n : String)
    (hn : ∀ b, b ∈ as → n ≠ tgt b) : (passA as r).val n = r.val n := by
  induction as generalizing r with
  | nil => rfl
  | cons a as ih =>
    simp only [passA, List.foldl] at ih ⊢
    rw [ih (stepA r a) (fun b hb => LhsOk_congr (stepA_info r a).symm (hok b (by simp [hb])))
      (fun b hb => hn b (by simp [hb]))]
    rw [stepA_val (hok a (by simp)), if_neg (hn a (by simp))]

theorem pass_topo_settled (as : List (LHS × Expr)) (hA : Acyc as) (r : Rd) (hok : ∀ a, a ∈ as → LhsOk r a.1) :
    Settled as (passA as r) := by
  induction as generalizing r with
  | nil => intro a ha; cases ha
  | cons a rest ih =>
    obtain ⟨hr, hw, hrest⟩ := hA
    have hok' : ∀ b, b ∈ rest → LhsOk (stepA r a) b.1 :=
      fun b hb => LhsOk_congr (stepA_info r a).symm (hok b (by simp [hb]))
    have ihr := ih hrest (stepA r a) hok'
    intro k hk
    simp only [List.mem_cons] at hk
    rcases hk with hk | hk
    · subst hk
      have hfin : passA (k :: rest) r = passA rest (stepA r k) := rfl
      rw [hfin]
      have hi : (passA rest (stepA r k)).info = r.info := by rw [passA_info, stepA_info]
      have hm : (passA rest (stepA r k)).mem = r.mem := by rw [passA_mem, stepA_mem]
      rw [passA_val_other rest _ hok' (tgt k) (fun b hb => hw b hb), stepA_val (hok k (by simp)), if_pos rfl,
        widthOf_congr hi]
      apply (evalAssign_congr hi hm _ _ _).symm
      intro n hn
      rw [passA_val_other rest _ hok' n (fun b hb => hr b (by simp [hb]) n hn), stepA_val (hok k (by simp)),
        if_neg (hr k (by simp) n hn)]
    · exact ihr k hk

/-! ### uniqueness -/

theorem settled_unique (as : List (LHS × Expr)) (hA : Acyc as) (r₁ r₂ : Rd) (hi : r₁.info = r₂.info) (hm : r₁.mem = r₂.mem)
    (h₁ : Settled as r₁) (h₂ : Settled as r₂)
    (hext : ∀ n, (∀ b, b ∈ as → n ≠ tgt b) → r₁.val n = r₂.val n) : ∀ n, r₁.val n = r₂.val n := by
  induction as with
  | nil => intro n; exact hext n (by intro b hb; cases hb)
  | cons a rest ih =>
    obtain ⟨hr, hw, hrest⟩ := hA
    have hreads : ∀ n, n ∈ reads a.2 → r₁.val n = r₂.val n := fun n hn => hext n (fun b hb => hr b hb n hn)
    have hta : r₁.val (tgt a) = r₂.val (tgt a) := by
      rw [h₁ a (by simp), h₂ a (by simp), widthOf_congr hi]
      exact evalAssign_congr hi hm _ hreads _
    apply ih hrest (fun k hk => h₁ k (by simp [hk])) (fun k hk => h₂ k (by simp [hk]))
    intro n hn
    by_cases e : n = tgt a
    · rw [e]; exact hta
    · apply hext n
      intro b hb
      simp only [List.mem_cons] at hb
      rcases hb with hb | hb
      · subst hb; exact e
      · exact hn b hb

/-! ### passes in ANY textual order reach the settled valuation -/

theorem acyc_append {l1 l2 : List (LHS × Expr)} (h : Acyc (l1 ++ l2)) : Acyc l2 := by
  induction l1 with
  | nil => exact h
  | cons a l ih => exact ih h.2.2

theorem acyc_reads {p1 p2 : List (LHS × Expr)} {b : LHS × Expr} (h : Acyc (p1 ++ b :: p2)) :
    ∀ n, n ∈ reads b.2 → n ∉ (b :: p2).map tgt := by
  have h' := (acyc_append h).1
  intro n hn hmem
  rcases List.mem_map.mp hmem with ⟨c, hc, e⟩
  exact h' c hc n hn e.symm

theorem acyc_tgt_inj {l : List (LHS × Expr)} (h : Acyc l) {a b : LHS × Expr} (ha : a ∈ l) (hb : b ∈ l)
    (e : tgt a = tgt b) : a = b := by
  induction l with
  | nil => cases ha
  | cons x l ih =>
    simp only [List.mem_cons] at ha hb
    rcases ha with ha | ha <;> rcases hb with hb | hb
    · rw [ha, hb]
    · subst ha; exact absurd e (h.2.1 b hb)
    · subst hb; exact absurd e.symm (h.2.1 a ha)
    · exact ih h.2.2 ha hb

/-- names already final after the assigns `pre` (a prefix of the sources-first order `topo`): their targets, and
    everything no assign drives -/
def Dn (topo pre : List (LHS × Expr)) (n : String) : Prop := n ∈ pre.map tgt ∨ n ∉ topo.map tgt

theorem Dn_closed {topo pre post : List (LHS × Expr)} (hA : Acyc topo) (ht : topo = pre ++ post)
    (b : LHS × Expr) (hb : b ∈ topo) (hD : Dn topo pre (tgt b)) : ∀ n, n ∈ reads b.2 → Dn topo pre n := by
  have hbpre : b ∈ pre := by
    rcases hD with h | h
    · rcases List.mem_map.mp h with ⟨c, hc, e⟩
      have hc' : c ∈ topo := by rw [ht]; simp [hc]
      rw [← acyc_tgt_inj hA hc' hb e]; exact hc
    · exact absurd (List.mem_map.mpr ⟨b, hb, rfl⟩) h
  obtain ⟨p1, p2, hp⟩ := List.append_of_mem hbpre
  intro n hn
  by_cases hmem : n ∈ topo.map tgt
  · left
    have hsplit : topo = p1 ++ b :: (p2 ++ post) := by rw [ht, hp]; simp
    have hnot := acyc_reads (hsplit ▸ hA) n hn
    rw [hsplit] at hmem
    simp only [List.map_append, List.mem_append] at hmem
    rcases hmem with h | h
    · rw [hp]; simp only [List.map_append, List.mem_append]; left; exact h
    · exact absurd h hnot
  · right; exact hmem

theorem Dn_next {topo pre post : List (LHS × Expr)} {a : LHS × Expr} (hA : Acyc topo) (ht : topo = pre ++ a :: post) :
    ∀ n, n ∈ reads a.2 → Dn topo pre n := by
  intro n hn
  by_cases hmem : n ∈ topo.map tgt
  · left
    have hnot := acyc_reads (ht ▸ hA) n hn
    rw [ht] at hmem
    simp only [List.map_append, List.mem_append] at hmem
    rcases hmem with h | h
    · exact h
    · exact absurd h hnot
  · right; exact hmem

section Reach
variable {as topo : List (LHS × Expr)} {fin : Rd}

/-- one assign keeps every closed set of final names final -/
theorem step_agree (hS : Settled topo fin) (hmem : ∀ a, a ∈ as → a ∈ topo) (D : String → Prop)
    (hD : ∀ b, b ∈ topo → D (tgt b) → ∀ n, n ∈ reads b.2 → D n)
    {r : Rd} (hi : r.info = fin.info) (hm : r.mem = fin.mem) (hok : ∀ a, a ∈ topo → LhsOk fin a.1)
    (hag : ∀ n, D n → r.val n = fin.val n) (a : LHS × Expr) (ha : a ∈ as) :
    ∀ n, D n → (stepA r a).val n = fin.val n := by
  intro n hn
  have hat := hmem a ha
  rw [stepA_val (LhsOk_congr hi.symm (hok a hat))]
  by_cases e : n = tgt a
  · rw [if_pos e, e, hS a hat, widthOf_congr hi]
    apply evalAssign_congr hi hm
    intro m hm'
    exact hag m (hD a hat (e ▸ hn) m hm')
  · rw [if_neg e]; exact hag n hn

theorem fold_agree (hS : Settled topo fin) (hmem : ∀ a, a ∈ as → a ∈ topo) (D : String → Prop)
    (hD : ∀ b, b ∈ topo → D (tgt b) → ∀ n, n ∈ reads b.2 → D n) (hok : ∀ a, a ∈ topo → LhsOk fin a.1)
    (l : List (LHS × Expr)) (hl : ∀ a, a ∈ l → a ∈ as) {r : Rd} (hi : r.info = fin.info) (hm : r.mem = fin.mem)
    (hag : ∀ n, D n → r.val n = fin.val n) : ∀ n, D n → (passA l r).val n = fin.val n := by
  induction l generalizing r with
  | nil => exact hag
  | cons a l ih =>
    simp only [passA, List.foldl] at ih ⊢
    apply ih (fun b hb => hl b (by simp [hb])) (by rw [stepA_info, hi]) (by rw [stepA_mem, hm])
    exact step_agree hS hmem D hD hi hm hok hag a (hl a (by simp))

/-- one pass over the text makes (at least) the next assign of the sources-first order final -/
theorem pass_gain (hA : Acyc topo) (hS : Settled topo fin) (hp : as.Perm topo) (hok : ∀ a, a ∈ topo → LhsOk fin a.1)
    {pre post : List (LHS × Expr)} {a : LHS × Expr} (ht : topo = pre ++ a :: post)
    {r : Rd} (hi : r.info = fin.info) (hm : r.mem = fin.mem) (hag : ∀ n, Dn topo pre n → r.val n = fin.val n) :
    ∀ n, Dn topo (pre ++ [a]) n → (passA as r).val n = fin.val n := by
  have hmem : ∀ b, b ∈ as → b ∈ topo := fun b hb => hp.mem_iff.mp hb
  have hat : a ∈ topo := by rw [ht]; simp
  have haas : a ∈ as := hp.mem_iff.mpr hat
  obtain ⟨l1, l2, hl⟩ := List.append_of_mem haas
  have ht1 : topo = pre ++ (a :: post) := ht
  have ht2 : topo = (pre ++ [a]) ++ post := by rw [ht]; simp
  have hD1 := fun b hb hd => Dn_closed hA ht1 b hb hd
  have hD2 := fun b hb hd => Dn_closed hA ht2 b hb hd
  have e : passA as r = passA l2 (stepA (passA l1 r) a) := by
    rw [hl]; simp [passA, List.foldl_append]
  rw [e]
  have hl1 : ∀ b, b ∈ l1 → b ∈ as := fun b hb => by rw [hl]; simp [hb]
  have hl2 : ∀ b, b ∈ l2 → b ∈ as := fun b hb => by rw [hl]; simp [hb]
  have hi1 : (passA l1 r).info = fin.info := by rw [passA_info, hi]
  have hm1 : (passA l1 r).mem = fin.mem := by rw [passA_mem, hm]
  have h1 := fold_agree hS hmem (Dn topo pre) hD1 hok l1 hl1 hi hm hag
  apply fold_agree hS hmem (Dn topo (pre ++ [a])) hD2 hok l2 hl2 (by rw [stepA_info, hi1]) (by rw [stepA_mem, hm1])
  intro n hn
  rw [stepA_val (LhsOk_congr hi1.symm (hok a hat))]
  by_cases en : n = tgt a
  · rw [if_pos en, en, hS a hat, widthOf_congr hi1]
    apply evalAssign_congr hi1 hm1
    intro m hm'
    exact h1 m (Dn_next hA ht m hm')
  · rw [if_neg en]
    apply h1 n
    rcases hn with h | h
    · simp only [List.map_append, List.mem_append, List.map_cons, List.map_nil, List.mem_singleton] at h
      rcases h with h | h
      · left; exact h
      · exact absurd h en
    · right; exact h

theorem iter_reach (hA : Acyc topo) (hS : Settled topo fin) (hp : as.Perm topo) (hok : ∀ a, a ∈ topo → LhsOk fin a.1)
    (post pre : List (LHS × Expr)) (ht : topo = pre ++ post)
    {r : Rd} (hi : r.info = fin.info) (hm : r.mem = fin.mem) (hag : ∀ n, Dn topo pre n → r.val n = fin.val n) :
    ∀ n, (Net.iter (passA as) post.length r).val n = fin.val n := by
  induction post generalizing pre r with
  | nil =>
    intro n
    apply hag n
    by_cases h : n ∈ topo.map tgt
    · left; rw [ht] at h; simpa using h
    · right; exact h
  | cons a post ih =>
    simp only [List.length_cons, Net.iter]
    apply ih (pre ++ [a]) (by rw [ht]; simp) (by rw [passA_info, hi]) (by rw [passA_mem, hm])
    exact pass_gain hA hS hp hok ht hi hm hag

/-- a settled valuation is a fixpoint of the pass -/
theorem pass_fix (hS : Settled topo fin) (hp : as.Perm topo) (hok : ∀ a, a ∈ topo → LhsOk fin a.1)
    {r : Rd} (hi : r.info = fin.info) (hm : r.mem = fin.mem) (hag : ∀ n, r.val n = fin.val n) :
    ∀ n, (passA as r).val n = fin.val n := by
  intro n
  exact fold_agree (as := as) hS (fun b hb => hp.mem_iff.mp hb) (fun _ => True) (fun _ _ _ _ _ => trivial) hok as
    (fun _ h => h) hi hm (fun n _ => hag n) n trivial

end Reach

theorem settled_perm {as topo : List (LHS × Expr)} (hp : as.Perm topo) (r : Rd) : Settled as r ↔ Settled topo r :=
  ⟨fun h a ha => h a (hp.mem_iff.mpr ha), fun h a ha => h a (hp.mem_iff.mp ha)⟩

theorem rd_ext (r r' : Rd) (hi : r.info = r'.info) (hm : r.mem = r'.mem) (hv : ∀ n, r.val n = r'.val n) : r = r' := by
  cases r; cases r'
  simp only [Rd.mk.injEq] at *
  exact ⟨hi, funext hv, hm⟩

/-- **(b) the passes reach the settled valuation.**  `as` is the text order, `topo` any sources-first rearrangement of it.
    From ANY store, `length` passes (or more) give exactly the store obtained by evaluating once in sources-first order
    — which is settled (`pass_topo_settled`) and the only settled one (`settled_unique`). -/
theorem iter_eq_topo {as topo : List (LHS × Expr)} (hp : as.Perm topo) (hA : Acyc topo) (r0 : Rd)
    (hok : ∀ a, a ∈ as → LhsOk r0 a.1) (j : Nat) (hj : as.length ≤ j) :
    Net.iter (passA as) j r0 = passA topo r0 := by
  have hokt : ∀ a, a ∈ topo → LhsOk r0 a.1 := fun a ha => hok a (hp.mem_iff.mpr ha)
  have hi : (passA topo r0).info = r0.info := passA_info _ _
  have hm : (passA topo r0).mem = r0.mem := passA_mem _ _
  have hS := pass_topo_settled topo hA r0 hokt
  have hokf : ∀ a, a ∈ topo → LhsOk (passA topo r0) a.1 := fun a ha => LhsOk_congr hi.symm (hokt a ha)
  have hlen : as.length = topo.length := hp.length_eq
  have hbase : ∀ n, (Net.iter (passA as) topo.length r0).val n = (passA topo r0).val n := by
    apply iter_reach hA hS hp hokf topo [] (by simp) hi.symm hm.symm
    intro n hn
    rcases hn with h | h
    · simp at h
    · rw [passA_val_other topo r0 hokt n]
      intro b hb e
      exact h (List.mem_map.mpr ⟨b, hb, e.symm⟩)
  -- extra passes do nothing
  have hextra : ∀ e, ∀ n, (Net.iter (passA as) (topo.length + e) r0).val n = (passA topo r0).val n := by
    intro e
    induction e with
    | zero => exact hbase
    | succ e ih =>
      have hsplit : ∀ (a b : Nat) (x : Rd), Net.iter (passA as) (a + b) x = Net.iter (passA as) b (Net.iter (passA as) a x) := by
        intro a b x
        induction a generalizing x with
        | zero => simp [Net.iter]
        | succ a iha => rw [Nat.succ_add]; simp only [Net.iter]; exact iha _
      rw [← Nat.add_assoc, hsplit (topo.length + e) 1]
      simp only [Net.iter]
      apply pass_fix hS hp hokf (by rw [iter_passA_info, hi]) (by rw [iter_passA_mem, hm]) ih
  obtain ⟨e, he⟩ : ∃ e, j = topo.length + e := ⟨j - topo.length, by omega⟩
  rw [he]
  apply rd_ext
  · rw [iter_passA_info, hi]
  · rw [iter_passA_mem, hm]
  · exact hextra e

/-! ### building sources-first lists -/

theorem acyc_app {l1 l2 : List (LHS × Expr)} (h1 : Acyc l1) (h2 : Acyc l2)
    (hx : ∀ a, a ∈ l1 → ∀ b, b ∈ l2 → (∀ n, n ∈ reads a.2 → n ≠ tgt b) ∧ tgt a ≠ tgt b) : Acyc (l1 ++ l2) := by
  induction l1 with
  | nil => exact h2
  | cons a l ih =>
    obtain ⟨hr, hw, hrest⟩ := h1
    rw [List.cons_append]
    have hgoal : (∀ b, b ∈ a :: (l ++ l2) → ∀ n, n ∈ reads a.2 → n ≠ tgt b) ∧ (∀ b, b ∈ l ++ l2 → tgt a ≠ tgt b) ∧
        Acyc (l ++ l2) := by
      refine ⟨?_, ?_, ih hrest (fun a' ha' => hx a' (by simp [ha']))⟩
      · intro b hb n hn
        simp only [List.mem_cons, List.mem_append] at hb
        rcases hb with hb | hb | hb
        · exact hr b (by simp [hb]) n hn
        · exact hr b (by simp [hb]) n hn
        · exact (hx a (by simp) b hb).1 n hn
      · intro b hb
        simp only [List.mem_append] at hb
        rcases hb with hb | hb
        · exact hw b hb
        · exact (hx a (by simp) b hb).2
    exact hgoal

/-- a block in which nobody reads anybody's target is sources-first in any order -/
theorem acyc_of_noread {l : List (LHS × Expr)} (h : ∀ a, a ∈ l → ∀ b, b ∈ l → ∀ n, n ∈ reads a.2 → n ≠ tgt b)
    (hn : (l.map tgt).Nodup) : Acyc l := by
  induction l with
  | nil => trivial
  | cons a l ih =>
    simp only [List.map_cons, List.nodup_cons] at hn
    refine ⟨fun b hb n hn' => h a (by simp) b hb n hn', ?_, ih (fun a' ha' b hb => h a' (by simp [ha']) b (by simp [hb])) hn.2⟩
    intro b hb e
    exact hn.1 (e ▸ List.mem_map.mpr ⟨b, hb, rfl⟩)

end FlatM
