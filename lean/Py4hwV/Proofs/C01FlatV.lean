import Py4hwV.Emit.Flat
/-
  C01 design level, Verilog side: an expression only sees the signals it names (`eval_congr`); the settled valuation of
  an acyclic, single-driver list of whole-net continuous assigns exists, is unique, and is reached by `length` passes
  in ANY textual order.
-/
namespace FlatM
open V

/-! ### expressions only see what they read -/

theorem widthOf_congr {r r' : Rd} (h : r.info = r'.info) (n : String) : widthOf r n = widthOf r' n := by
  simp [widthOf, h]

theorem signedOf_congr {r r' : Rd} (h : r.info = r'.info) (n : String) : signedOf r n = signedOf r' n := by
  simp [signedOf, h]

theorem isMem_congr {r r' : Rd} (h : r.info = r'.info) (n : String) : isMem r n = isMem r' n := by
  simp [isMem, h]

theorem selfW_congr {r r' : Rd} (h : r.info = r'.info) (e : Expr) : selfW r e = selfW r' e := by
  induction e <;> simp [selfW, widthOf_congr h, isMem_congr h, *]

theorem isSg_congr {r r' : Rd} (h : r.info = r'.info) (e : Expr) : isSg r e = isSg r' e := by
  induction e <;> simp [isSg, signedOf_congr h, *]

theorem eval_congr {r r' : Rd} (hi : r.info = r'.info) (hm : r.mem = r'.mem) (e : Expr)
    (hv : ∀ n, n ∈ reads e → r.val n = r'.val n) (W : Nat) (sg : Bool) : eval r W sg e = eval r' W sg e := by
  induction e generalizing W sg with
  | id n => simp only [eval]; rw [hv n (by simp [reads])]
  | num w s v k => simp only [eval]
  | un op e ih =>
    have ih' := fun W sg => ih (fun n hn => hv n (by simpa [reads] using hn)) W sg
    simp only [eval, ih', selfW_congr hi, isSg_congr hi]
  | bin op a b iha ihb =>
    have iha' := fun W sg => iha (fun n hn => hv n (by simp [reads, hn])) W sg
    have ihb' := fun W sg => ihb (fun n hn => hv n (by simp [reads, hn])) W sg
    simp only [eval, iha', ihb', selfW_congr hi, isSg_congr hi]
  | tern c a b ihc iha ihb =>
    have ihc' := fun W sg => ihc (fun n hn => hv n (by simp [reads, hn])) W sg
    have iha' := fun W sg => iha (fun n hn => hv n (by simp [reads, hn])) W sg
    have ihb' := fun W sg => ihb (fun n hn => hv n (by simp [reads, hn])) W sg
    simp only [eval, iha', ihb', ihc', selfW_congr hi, isSg_congr hi]
  | cat a b iha ihb =>
    have iha' := fun W sg => iha (fun n hn => hv n (by simp [reads, hn])) W sg
    have ihb' := fun W sg => ihb (fun n hn => hv n (by simp [reads, hn])) W sg
    simp only [eval, iha', ihb', selfW_congr hi, isSg_congr hi]
  | cat1 a iha =>
    have iha' := fun W sg => iha (fun n hn => hv n (by simpa [reads] using hn)) W sg
    simp only [eval, iha', selfW_congr hi, isSg_congr hi]
  | rep k e ih =>
    have ih' := fun W sg => ih (fun n hn => hv n (by simpa [reads] using hn)) W sg
    simp only [eval, ih', selfW_congr hi, isSg_congr hi]
  | idx n i ih =>
    have ih' := fun W sg => ih (fun m hm' => hv m (by simp [reads, hm'])) W sg
    simp only [eval, ih', selfW_congr hi, isSg_congr hi, isMem_congr hi, hm, hv n (by simp [reads])]
  | rng n hi' lo => simp only [eval]; rw [hv n (by simp [reads])]
  | sgn e ih =>
    have ih' := fun W sg => ih (fun n hn => hv n (by simpa [reads] using hn)) W sg
    simp only [eval, ih', selfW_congr hi, isSg_congr hi]
  | usg e ih =>
    have ih' := fun W sg => ih (fun n hn => hv n (by simpa [reads] using hn)) W sg
    simp only [eval, ih', selfW_congr hi, isSg_congr hi]

theorem evalAssign_congr {r r' : Rd} (hi : r.info = r'.info) (hm : r.mem = r'.mem) (e : Expr)
    (hv : ∀ n, n ∈ reads e → r.val n = r'.val n) (lw : Nat) : evalAssign r lw e = evalAssign r' lw e := by
  simp only [evalAssign, eval_congr hi hm e hv, selfW_congr hi, isSg_congr hi]

end FlatM
