import Py4hwV.Proofs.C11Keep
/-
  C11: the single-driver invariant `SS` is preserved by every API call, from every graph.
-/
namespace Build

/-- every port that registered itself as a driver of an ordinary wire IS that wire's source
    (so two such ports on one wire are the same port); and ports only reference existing wires -/
structure SS (g : G) : Prop where
  one : ∀ (pid : Nat) (pt : Port) (w : Nat) (wr : Wire), g.ports[pid]? = some pt → pt.kind ≠ .inp → pt.reg = true →
      pt.wire = some w → g.wires[w]? = some wr → wr.bidir = false → wr.source = some pid
  valid : ∀ (pid : Nat) (pt : Port) (w : Nat), g.ports[pid]? = some pt → pt.wire = some w → w < g.wires.length

theorem lt_of_getElem?_some {α : Type} {l : List α} {i : Nat} {a : α} (h : l[i]? = some a) : i < l.length := by
  rcases Nat.lt_or_ge i l.length with h' | h'
  · exact h'
  · rw [List.getElem?_eq_none h'] at h; cases h

theorem andThen_pred {P : G → Prop} {r : G × Res} {f : G → G × Res} (h1 : P r.1) (h2 : ∀ g1, P g1 → P (f g1).1) :
    P (r >>> f).1 := by
  rcases res_cases r.2 with h | ⟨e, h⟩
  · rw [andThen_ok h]; exact h2 _ h1
  · rw [andThen_err h]; exact h1

theorem forEach_pred {α : Type} {P : G → Prop} (f : G → α → G × Res) (h : ∀ g a, P g → P (f g a).1)
    (l : List α) (g : G) (hg : P g) : P (forEach g l f).1 := by
  induction l generalizing g with
  | nil => exact hg
  | cons a t ih =>
    unfold forEach
    have h1 := h g a hg
    rcases hfa : f g a with ⟨g1, r⟩
    rw [hfa] at h1
    cases r with
    | ok u => exact ih g1 h1
    | error e => exact h1

/-- calls that leave the port table alone and keep `bidir` / `source` of the existing wires -/
theorem SS_frame {g g' : G} (h : SS g) (hp : g'.ports = g.ports) (hl : g.wires.length ≤ g'.wires.length)
    (hw : ∀ (w : Nat) (wr' : Wire), w < g.wires.length → g'.wires[w]? = some wr' →
        ∃ wr, g.wires[w]? = some wr ∧ wr.bidir = wr'.bidir ∧ wr.source = wr'.source) : SS g' := by
  constructor
  · intro pid pt w wr' h1 h2 h3 h4 h5 h6
    rw [hp] at h1
    have hv := h.valid pid pt w h1 h4
    obtain ⟨wr, e1, e2, e3⟩ := hw w wr' hv h5
    rw [← e3]
    exact h.one pid pt w wr h1 h2 h3 h4 e1 (by rw [e2]; exact h6)
  · intro pid pt w h1 h4
    rw [hp] at h1
    exact Nat.lt_of_lt_of_le (h.valid pid pt w h1 h4) hl

theorem SS_objs {g g' : G} (h : SS g) (hp : g'.ports = g.ports) (hw : g'.wires = g.wires) : SS g' :=
  SS_frame h hp (by rw [hw]; exact Nat.le_refl _) (fun w wr' _ h5 => ⟨wr', by rw [← hw]; exact h5, rfl, rfl⟩)

theorem SS_modWire {g : G} (h : SS g) (w : Nat) (f : Wire → Wire)
    (hf : ∀ wr, (f wr).bidir = wr.bidir ∧ (f wr).source = wr.source) : SS (modWire g w f) := by
  apply SS_frame (g' := modWire g w f) h rfl (by simp)
  intro w' wr' _ h5
  simp only [modWire_wires, List.getElem?_modify] at h5
  cases hw : g.wires[w']? with
  | none => simp [hw] at h5
  | some wr =>
    simp only [hw, Option.map_eq_map, Option.map_some, Option.some.injEq] at h5
    refine ⟨wr, rfl, ?_, ?_⟩
    · rw [← h5]; split
      · exact (hf wr).1.symm
      · rfl
    · rw [← h5]; split
      · exact (hf wr).2.symm
      · rfl

theorem SS_pushWire {g : G} (h : SS g) (x : Wire) : SS { g with wires := g.wires ++ [x] } := by
  apply SS_frame (g' := { g with wires := g.wires ++ [x] }) h rfl (by simp)
  intro w wr' hlt h5
  simp only [List.getElem?_append_left hlt] at h5
  exact ⟨wr', h5, rfl, rfl⟩

/-- a new port that either is not a driver, or whose wire already names it as source -/
theorem SS_pushPort {g : G} (h : SS g) (pt : Port) (hv : ∀ w, pt.wire = some w → w < g.wires.length)
    (hd : pt.kind ≠ .inp → pt.reg = true → ∀ w wr, pt.wire = some w → g.wires[w]? = some wr → wr.bidir = false →
      wr.source = some g.ports.length) : SS (pushPort g pt) := by
  constructor
  · intro pid pt' w wr h1 h2 h3 h4 h5 h6
    simp only [pushPort_ports, List.getElem?_append] at h1
    simp only [pushPort_wires] at h5
    split at h1
    · exact h.one pid pt' w wr h1 h2 h3 h4 h5 h6
    · rename_i hge
      have : pid = g.ports.length := by
        have := lt_of_getElem?_some h1
        simp at this; omega
      subst this
      simp at h1; subst h1
      exact hd h2 h3 w wr h4 h5 h6
  · intro pid pt' w h1 h4
    simp only [pushPort_ports, List.getElem?_append] at h1
    simp only [pushPort_wires]
    split at h1
    · exact h.valid pid pt' w h1 h4
    · have : pid = g.ports.length := by
        have := lt_of_getElem?_some h1
        simp at this; omega
      subst this
      simp at h1; subst h1
      exact hv w h4

/-! #### per call -/

theorem SS_appendWire (g : G) (p w : Nat) (h : SS g) : SS (appendWire g p w).1 := by
  unfold appendWire
  split
  · split
    · exact h
    · exact SS_objs h rfl rfl
  · exact h

theorem SS_delWireKey (g : G) (w : Nat) (h : SS g) : SS (delWireKey g w).1 := by
  unfold delWireKey
  split
  · exact h
  · split
    · exact h
    · split
      · exact SS_objs h rfl rfl
      · exact h

theorem SS_newLogic (g : G) (p : Option Nat) (n : String) (pr : Bool) (h : SS g) : SS (newLogic g p n pr).1 := by
  unfold newLogic
  split
  · exact SS_objs h rfl rfl
  · split
    · exact h
    · split
      · exact h
      · exact SS_objs h rfl rfl

theorem SS_newWire (g : G) (p : Nat) (n : String) (b : Bool) (h : SS g) : SS (newWire g p n b).1 := by
  unfold newWire
  simp only
  split
  · exact SS_appendWire _ _ _ (SS_pushWire h _)
  · exact h

theorem SS_regSink (g : G) (w pid : Nat) (h : SS g) : SS (regSink g w pid).1 := by
  unfold regSink
  split
  · exact h
  · exact SS_modWire h w _ (fun _ => ⟨rfl, rfl⟩)

theorem SS_renameOld (g : G) (w : Nat) (n : String) (h : SS g) : SS (renameOld g w n).1 := by
  unfold renameOld
  apply andThen_pred (P := SS) (SS_delWireKey g w h)
  intro g1 h1
  exact SS_appendWire _ _ _ (SS_modWire h1 w _ (fun _ => ⟨rfl, rfl⟩))

theorem SS_reparentOld (g : G) (w p : Nat) (h : SS g) : SS (reparentOld g w p).1 := by
  unfold reparentOld
  apply andThen_pred (P := SS) (SS_delWireKey g w h)
  intro g1 h1
  exact SS_appendWire _ _ _ (SS_modWire h1 w _ (fun _ => ⟨rfl, rfl⟩))

theorem SS_reparentAndRenameOld (g : G) (w p : Nat) (n : String) (h : SS g) : SS (reparentAndRenameOld g w p n).1 := by
  unfold reparentAndRenameOld
  apply andThen_pred (P := SS) (SS_delWireKey g w h)
  intro g1 h1
  exact SS_appendWire _ _ _ (SS_modWire h1 w _ (fun _ => ⟨rfl, rfl⟩))

theorem SS_rename (g : G) (w : Nat) (n : String) (h : SS g) : SS (rename g w n).1 :=
  pre_pred (P := SS) h (fun g1 h1 => SS_renameOld g1 w n h1)
theorem SS_reparent (g : G) (w p : Nat) (h : SS g) : SS (reparent g w p).1 :=
  pre_pred (P := SS) h (fun g1 h1 => SS_reparentOld g1 w p h1)
theorem SS_reparentAndRename (g : G) (w p : Nat) (n : String) (h : SS g) : SS (reparentAndRename g w p n).1 :=
  pre_pred (P := SS) h (fun g1 h1 => SS_reparentAndRenameOld g1 w p n h1)

theorem regSink_len (g : G) (w pid : Nat) : (regSink g w pid).1.wires.length = g.wires.length := by
  unfold regSink; split <;> simp

theorem SS_addIn (g : G) (o : Nat) (n : String) (w : Nat) (h : SS g) : SS (addIn g o n w).1 := by
  unfold addIn
  split
  · exact h
  · exact h
  · rename_i ob wr ho hw
    have hwl := lt_of_getElem?_some hw
    cases hp : ob.prim with
    | false =>
      simp only [Bool.false_eq_true, ite_false, andThen]
      exact SS_objs (SS_pushPort h _ (by intro w' e; simp at e; subst e; exact hwl) (by intro hr; simp at hr)) rfl rfl
    | true =>
      simp only [ite_true]
      have hok : (regSink g w g.ports.length).2 = .ok () := by unfold regSink; rw [hw]
      rw [andThen_ok hok]
      have h1 := SS_regSink g w g.ports.length h
      have hl := regSink_len g w g.ports.length
      exact SS_objs (SS_pushPort h1 _ (by intro w' e; simp at e; subst e; rw [hl]; exact hwl) (by intro hr; simp at hr)) rfl rfl

/-- the heart: registering a driver.  Either the wire had a source (raise, nothing changes) or it had none, and then
    no registered driver port pointed at it before -/
theorem SS_regSource_push (g : G) (w : Nat) (pt : Port) (h : SS g) (hk : pt.wire = some w)
    (hwl : w < g.wires.length) :
    SS ((regSource g w g.ports.length >>> fun g1 => (pushPort g1 pt, .ok ())).1) := by
  unfold regSource
  cases hw : g.wires[w]? with
  | none => simpa [andThen] using h
  | some wr =>
    simp only
    cases hb : wr.bidir with
    | true =>
      simp only [ite_true, andThen]
      have hm : SS (modWire g w fun wr => { wr with sources := wr.sources ++ [g.ports.length] }) :=
        SS_modWire h w _ (fun _ => ⟨rfl, rfl⟩)
      apply SS_pushPort hm
      · intro w' e; rw [hk] at e; cases e; simpa using hwl
      · intro _ _ w' wr' e h5 h6
        rw [hk] at e; cases e
        simp only [modWire_wires, List.getElem?_modify, hw] at h5
        simp at h5; subst h5
        simp [hb] at h6
    | false =>
      cases hs : wr.source with
      | some s => simpa [andThen] using h
      | none =>
        simp only [Option.isSome_none, Bool.false_eq_true, ite_false, andThen]
        apply SS_pushPort
        · -- the intermediate graph: wire w now names the port about to be created; nobody else drove it
          constructor
          · intro pid pt' w' wr' h1 h2 h3 h4 h5 h6
            simp only [modWire_ports] at h1
            simp only [modWire_wires, List.getElem?_modify] at h5
            by_cases e : w = w'
            · subst e
              simp [hw] at h5
              have := h.one pid pt' w wr h1 h2 h3 h4 hw hb
              rw [hs] at this; cases this
            · simp [e] at h5
              exact h.one pid pt' w' wr' h1 h2 h3 h4 h5 h6
          · intro pid pt' w' h1 h4
            simpa using h.valid pid pt' w' h1 h4
        · intro w' e; rw [hk] at e; cases e; simpa using hwl
        · intro _ _ w' wr' e h5 _
          rw [hk] at e; cases e
          simp only [modWire_wires, List.getElem?_modify, hw] at h5
          simp at h5; subst h5
          simp

theorem SS_addOut (g : G) (o : Nat) (n : String) (w : Nat) (h : SS g) : SS (addOut g o n w).1 := by
  unfold addOut
  split
  · exact h
  · exact h
  · rename_i ob wr ho hw
    have hwl := lt_of_getElem?_some hw
    cases hp : ob.prim with
    | true =>
      simp only [ite_true]
      have := SS_regSource_push g w { kind := .out, parent := o, name := n, wire := some w, reg := true } h rfl hwl
      rcases res_cases (regSource g w g.ports.length).2 with hr | ⟨e, hr⟩
      · rw [andThen_ok hr] at this ⊢
        exact SS_objs this rfl rfl
      · rw [andThen_err hr] at this ⊢
        exact this
    | false =>
      simp only [Bool.false_eq_true, ite_false, andThen]
      exact SS_objs (SS_pushPort h _ (by intro w' e; simp at e; subst e; exact hwl) (by intro _ hr; simp at hr)) rfl rfl

theorem regSource_len (g : G) (w pid : Nat) : (regSource g w pid).1.wires.length = g.wires.length ∧
    (regSource g w pid).1.ports = g.ports := by
  unfold regSource
  split
  · exact ⟨rfl, rfl⟩
  · split
    · simp
    · split <;> simp

theorem SS_addInOut (g : G) (o : Nat) (n : String) (w : Nat) (h : SS g) : SS (addInOut g o n w).1 := by
  unfold addInOut
  split
  · exact h
  · exact h
  · rename_i ob wr ho hw
    have hwl := lt_of_getElem?_some hw
    cases hp : ob.prim with
    | false =>
      simp only [Bool.false_eq_true, ite_false, andThen]
      exact SS_objs (SS_pushPort h _ (by intro w' e; simp at e; subst e; exact hwl) (by intro _ hr; simp at hr)) rfl rfl
    | true =>
      simp only [ite_true]
      have key := SS_regSource_push g w { kind := .inout, parent := o, name := n, wire := some w, reg := true } h rfl hwl
      rcases res_cases (regSource g w g.ports.length).2 with hr | ⟨e, hr⟩
      · rw [andThen_ok hr] at key
        -- regSink in between only touches `sinks`
        have hrs : (regSource g w g.ports.length >>> fun g1 => regSink g1 w g.ports.length) =
            regSink (regSource g w g.ports.length).1 w g.ports.length := andThen_ok hr
        rw [hrs]
        have hwl' : w < (regSource g w g.ports.length).1.wires.length := by rw [(regSource_len g w _).1]; exact hwl
        have hsome : ∃ wr1, (regSource g w g.ports.length).1.wires[w]? = some wr1 := by
          rw [List.getElem?_eq_getElem hwl']; exact ⟨_, rfl⟩
        obtain ⟨wr1, hw1⟩ := hsome
        have hsink : regSink (regSource g w g.ports.length).1 w g.ports.length =
            (modWire (regSource g w g.ports.length).1 w fun wr => { wr with sinks := wr.sinks ++ [g.ports.length] }, .ok ()) := by
          unfold regSink; rw [hw1]
        rw [hsink, andThen_ok rfl]
        -- pushPort commutes with the sink update
        have : SS (modWire (pushPort (regSource g w g.ports.length).1
            { kind := .inout, parent := o, name := n, wire := some w, reg := true }) w
            fun wr => { wr with sinks := wr.sinks ++ [g.ports.length] }) := SS_modWire key w _ (fun _ => ⟨rfl, rfl⟩)
        exact SS_objs this rfl rfl
      · have hrs : (regSource g w g.ports.length >>> fun g1 => regSink g1 w g.ports.length) =
            ((regSource g w g.ports.length).1, .error e) := andThen_err hr
        rw [hrs, andThen_err rfl]
        rw [andThen_err hr] at key
        exact key

theorem SS_iface {g g' : G} (h : SS g) (hp : g'.ports = g.ports) (hw : g'.wires = g.wires) : SS g' := SS_objs h hp hw

theorem SS_ifS2K (g : G) (i : Nat) (n : String) (h : SS g) : SS (ifS2K g i n).1 := by
  unfold ifS2K
  split
  · exact h
  · apply andThen_pred (P := SS) (SS_newWire _ _ _ _ h)
    intro g1 h1; exact SS_objs h1 rfl rfl

theorem SS_ifK2S (g : G) (i : Nat) (n : String) (h : SS g) : SS (ifK2S g i n).1 := by
  unfold ifK2S
  split
  · exact h
  · apply andThen_pred (P := SS) (SS_newWire _ _ _ _ h)
    intro g1 h1; exact SS_objs h1 rfl rfl

theorem SS_addIfSource (g : G) (o : Nat) (n : String) (i : Nat) (h : SS g) : SS (addIfSource g o n i).1 := by
  unfold addIfSource
  split
  · exact h
  · apply andThen_pred (P := SS)
    · exact forEach_pred _ (fun g x hg => SS_addOut _ _ _ _ hg) _ _ h
    · intro g1 h1; exact forEach_pred _ (fun g x hg => SS_addIn _ _ _ _ hg) _ _ h1

theorem SS_addIfSink (g : G) (o : Nat) (n : String) (i : Nat) (h : SS g) : SS (addIfSink g o n i).1 := by
  unfold addIfSink
  split
  · exact h
  · apply andThen_pred (P := SS)
    · exact forEach_pred _ (fun g x hg => SS_addIn _ _ _ _ hg) _ _ h
    · intro g1 h1; exact forEach_pred _ (fun g x hg => SS_addOut _ _ _ _ hg) _ _ h1

theorem SS_clearPort {g : G} (h : SS g) (p : Nat) : SS (modPort g p fun pt => { pt with wire := none }) := by
  constructor
  · intro pid pt w wr h1 h2 h3 h4 h5 h6
    simp only [modPort_ports, List.getElem?_modify] at h1
    simp only [modPort_wires] at h5
    cases hp : g.ports[pid]? with
    | none => simp [hp] at h1
    | some pt0 =>
      simp only [hp, Option.map_eq_map, Option.map_some, Option.some.injEq] at h1
      by_cases e : p = pid
      · simp [e] at h1; rw [← h1] at h4; simp at h4
      · simp [e] at h1; subst h1
        exact h.one pid pt0 w wr hp h2 h3 h4 h5 h6
  · intro pid pt w h1 h4
    simp only [modPort_ports, List.getElem?_modify] at h1
    simp only [modPort_wires]
    cases hp : g.ports[pid]? with
    | none => simp [hp] at h1
    | some pt0 =>
      simp only [hp, Option.map_eq_map, Option.map_some, Option.some.injEq] at h1
      by_cases e : p = pid
      · simp [e] at h1; rw [← h1] at h4; simp at h4
      · simp [e] at h1; subst h1
        exact h.valid pid pt0 w hp h4

/-- removing the source: the only registered driver of the wire is the port whose `wire` is cleared -/
theorem SS_dropSource {g : G} (h : SS g) (w sp : Nat) (wr : Wire) (hw : g.wires[w]? = some wr) (hb : wr.bidir = false)
    (hs : wr.source = some sp) :
    SS (modPort (modWire g w fun wr => { wr with source := none }) sp fun pt => { pt with wire := none }) := by
  constructor
  · intro pid pt w' wr' h1 h2 h3 h4 h5 h6
    simp only [modPort_ports, modWire_ports, List.getElem?_modify] at h1
    simp only [modPort_wires, modWire_wires, List.getElem?_modify] at h5
    cases hp : g.ports[pid]? with
    | none => simp [hp] at h1
    | some pt0 =>
      simp only [hp, Option.map_eq_map, Option.map_some, Option.some.injEq] at h1
      by_cases e : sp = pid
      · simp [e] at h1; rw [← h1] at h4; simp at h4
      · simp [e] at h1; subst h1
        by_cases e2 : w = w'
        · subst e2
          have := h.one pid pt0 w wr hp h2 h3 h4 hw hb
          rw [hs] at this; cases this; exact absurd rfl e
        · simp [e2] at h5
          exact h.one pid pt0 w' wr' hp h2 h3 h4 h5 h6
  · intro pid pt w' h1 h4
    simp only [modPort_ports, modWire_ports, List.getElem?_modify] at h1
    simp only [modPort_wires, modWire_wires, List.length_modify]
    cases hp : g.ports[pid]? with
    | none => simp [hp] at h1
    | some pt0 =>
      simp only [hp, Option.map_eq_map, Option.map_some, Option.some.injEq] at h1
      by_cases e : sp = pid
      · simp [e] at h1; rw [← h1] at h4; simp at h4
      · simp [e] at h1; subst h1
        exact h.valid pid pt0 w' hp h4

theorem SS_disconnect (g : G) (w o : Nat) (h : SS g) : SS (disconnect g w o).1 := by
  unfold disconnect
  split
  · rename_i wr ob hw ho
    cases hb : wr.bidir with
    | true => simpa using h
    | false =>
      simp only [Bool.false_eq_true, ite_false]
      split
      · rename_i sp hs
        split
        · exact SS_dropSource h w sp wr hw hb hs
        · split
          · rename_i s _
            have hm : SS (modWire g w fun wr => { wr with sinks := wr.sinks.erase s }) :=
              SS_modWire h w _ (fun _ => ⟨rfl, rfl⟩)
            exact SS_clearPort hm _
          · exact h
      · split
        · rename_i s _
          have hm : SS (modWire g w fun wr => { wr with sinks := wr.sinks.erase s }) :=
            SS_modWire h w _ (fun _ => ⟨rfl, rfl⟩)
          exact SS_clearPort hm _
        · exact h
  · exact h

theorem SS_step (g : G) (op : Op) (h : SS g) : SS (step g op).1 := by
  cases op with
  | newLogic p n pr => exact SS_newLogic _ _ _ _ h
  | wire p n b => exact SS_newWire _ _ _ _ h
  | addIn o n w => exact SS_addIn _ _ _ _ h
  | addOut o n w => exact SS_addOut _ _ _ _ h
  | addInOut o n w => exact SS_addInOut _ _ _ _ h
  | rename w n => exact SS_rename _ _ _ h
  | reparent w p => exact SS_reparent _ _ _ h
  | reparentAndRename w p n => exact SS_reparentAndRename _ _ _ _ h
  | newIface p n => exact SS_objs h rfl rfl
  | ifS2K i n => exact SS_ifS2K _ _ _ h
  | ifK2S i n => exact SS_ifK2S _ _ _ h
  | addIfSource o n i => exact SS_addIfSource _ _ _ _ h
  | addIfSink o n i => exact SS_addIfSink _ _ _ _ h
  | disconnect w o => exact SS_disconnect _ _ _ h
  | wires p n k => exact forEach_pred (P := SS) _ (fun g x hg => SS_newWire _ _ _ _ hg) _ _ h

theorem SS_empty : SS {} := ⟨fun pid pt w wr h => by simp at h, fun pid pt w h => by simp at h⟩

theorem SS_run (ops : List Op) (g : G) (h : SS g) : SS (run g ops) := by
  induction ops generalizing g with
  | nil => exact h
  | cons op t ih => simp only [run, List.foldl_cons]; exact ih _ (SS_step g op h)

end Build
