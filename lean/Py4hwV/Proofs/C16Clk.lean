import Py4hwV.Proofs.C16Bridge
import Py4hwV.Proto.AxiClk
/-
  C16, Axi2Clk: bridge to the generated `Gen.Axi2ClkFSM.step` and the sequencing theorems.
-/
namespace Axi
namespace Clk

theorem put_succ (w n : Nat) : Bits.put w ((n : Int) + 1) = (n + 1) % 2^w := by
  rw [show ((n:Int) + 1) = ((n + 1 : Nat) : Int) by push_cast; rfl, Bits.put_ofNat]

theorem bit01 {x : Nat} (h : x < 2) : x = 0 ∨ x = 1 := by omega
theorem put_zero (w : Nat) : Bits.put w 0 = 0 := (Bits.put_ofNat w 0).trans (by simp)
theorem put_one : Bits.put 1 1 = 1 := (Bits.put_ofNat 1 1).trans (by simp)

/-- one cycle through the code generated from `Axi2ClkFSM.clock` = the reference step.  Breaks if the FSM's Python changes
    (e.g. comparing with the live `clk_target` instead of the latched `target`). -/
theorem stepG_eq_step (c : Cfg) (s : St) (i : In) : stepG c s i = step c s i := by
  unfold stepG step activeHandshake
  simp only [and2G_eq, bufG_eq, or2G_eq, gen_regER]
  generalize and2 1 s.active (and2 1 i.tvalid (buf 1 s.active)) = ah
  by_cases h0 : s.state = 0
  · have h0' : ((s.state : Nat) : Int) = 0 := by omega
    by_cases ha : ah = 0
    · subst ha
      simp [Gen.Axi2ClkFSM.step, Id.run, pure, put_zero, put_one, h0, h0', Py.truthy, upd, Bits.put_ofNat]
    · have ha' : ¬ ((ah : Int) = 0) := by omega
      simp [Gen.Axi2ClkFSM.step, Id.run, pure, put_zero, put_one, h0, h0', Py.truthy, upd, ha, ha']
  · have h0' : ¬ ((s.state : Nat) : Int) = 0 := by omega
    by_cases h1 : s.state = 1
    · have h1' : ((s.state : Nat) : Int) = 1 := by omega
      simp [Gen.Axi2ClkFSM.step, Id.run, pure, put_zero, put_one, h1, h1', upd, put_succ]
    · have h1' : ¬ ((s.state : Nat) : Int) = 1 := by omega
      by_cases h2 : s.state = 2
      · have h2' : ((s.state : Nat) : Int) = 2 := by omega
        by_cases ht : s.count = s.target
        · have ht' : ((s.count : Nat) : Int) = (s.target : Int) := by omega
          simp [Gen.Axi2ClkFSM.step, Id.run, pure, put_zero, put_one, h2, h2', upd, ht, ht']
        · have ht' : ¬ ((s.count : Nat) : Int) = (s.target : Int) := by omega
          simp [Gen.Axi2ClkFSM.step, Id.run, pure, put_zero, put_one, h2, h2', upd, ht, ht']
      · have h2' : ¬ ((s.state : Nat) : Int) = 2 := by omega
        by_cases h3 : s.state = 3
        · have h3' : ((s.state : Nat) : Int) = 3 := by omega
          simp [Gen.Axi2ClkFSM.step, Id.run, pure, put_zero, put_one, h3, h3', upd]
        · have h3' : ¬ ((s.state : Nat) : Int) = 3 := by omega
          simp [Gen.Axi2ClkFSM.step, Id.run, pure, put_zero, put_one, h0, h1, h2, h3, h0', h1', h2', h3', upd]

theorem traceG_eq (c : Cfg) (s : St) (is : List In) : traceG c s is = trace c s is := by
  induction is generalizing s with
  | nil => rfl
  | cons i is ih => simp only [traceG, trace, stepG_eq_step, ih]

/-! ### the sequencing theorem: pulses generated = value of the accepted beat -/

/-! the step, state by state (what `Axi2ClkFSM.clock` does in each branch) -/
theorem step_idle_acc (c : Cfg) (s : St) (i : In) (h : s.state = 0) (ha : activeHandshake s i ≠ 0) :
    (step c s i).state = 1 ∧ (step c s i).target = i.tdata ∧ (step c s i).count = s.count ∧
    (step c s i).clk_out = s.clk_out ∧ (step c s i).load_outs = 0 := by
  simp [step, h, ha]
theorem step_idle_noacc (c : Cfg) (s : St) (i : In) (h : s.state = 0) (ha : activeHandshake s i = 0) :
    (step c s i).state = 0 ∧ (step c s i).target = s.target ∧ (step c s i).count = 0 ∧
    (step c s i).clk_out = 0 ∧ (step c s i).load_outs = 0 := by
  simp [step, h, ha]
theorem step_low (c : Cfg) (s : St) (i : In) (h : s.state = 1) :
    (step c s i).state = 2 ∧ (step c s i).target = s.target ∧ (step c s i).count = (s.count + 1) % 2^c.CW ∧
    (step c s i).clk_out = 1 ∧ (step c s i).load_outs = s.load_outs := by
  simp [step, h]
theorem step_high (c : Cfg) (s : St) (i : In) (h : s.state = 2) :
    (step c s i).state = (if s.count = s.target then 3 else 1) ∧ (step c s i).target = s.target ∧
    (step c s i).count = s.count ∧ (step c s i).clk_out = 0 ∧ (step c s i).load_outs = s.load_outs := by
  simp [step, h]
theorem step_end (c : Cfg) (s : St) (i : In) (h : s.state = 3) :
    (step c s i).state = 0 ∧ (step c s i).target = s.target ∧ (step c s i).count = 0 ∧
    (step c s i).clk_out = s.clk_out ∧ (step c s i).load_outs = 1 := by
  simp [step, h]
theorem step_active (c : Cfg) (s : St) (i : In) :
    (step c s i).active = regER s.active i.ap_start (or2 1 i.ap_reset i.ap_done) i.ap_start % 2^1 := by
  simp only [step]
  split
  · split <;> rfl
  · split
    · rfl
    · split
      · rfl
      · split <;> rfl

/-- from RUNNING_LOW with k pulses done (k < T): whatever the inputs are from now on, the next 2(T-k)+1 cycles output exactly
    T-k pulses on clk_out followed by the load_outs pulse, and the FSM is back in IDLE. -/
theorem train_from_low (c : Cfg) (T : Nat) (hT : T < 2^c.CW) :
    ∀ (n : Nat) (s : St) (js : List In), 1 ≤ n → s.state = 1 → s.target = T → s.count + n = T → s.load_outs = 0 →
      js.length = 2 * n + 1 →
      outs c s js = Spec.Clk.pulseTrain n ∧ (run c s js).state = 0 ∧ (run c s js).count = 0 := by
  intro n
  induction n with
  | zero => intro s js h; omega
  | succ n ih =>
    intro s js _ h1 ht hc hl hlen
    match js, hlen with
    | a :: b :: rest, hlen =>
      have hlen' : rest.length = 2 * n + 1 := by simp at hlen; omega
      have hcnt : (s.count + 1) % 2^c.CW = s.count + 1 := Nat.mod_eq_of_lt (by omega)
      obtain ⟨sa2, sat, sac, sao, sal⟩ := step_low c s a h1
      rw [hcnt] at sac; rw [ht] at sat; rw [hl] at sal
      obtain ⟨sb, sbt, sbc, sbo, sbl⟩ := step_high c (step c s a) b sa2
      rw [sat] at sbt; rw [sac] at sbc; rw [sal] at sbl
      by_cases hn : n = 0
      · subst hn
        have hk : (step c s a).count = (step c s a).target := by rw [sac, sat]; omega
        simp only [hk, if_true] at sb
        match rest, hlen' with
        | [x], _ =>
          obtain ⟨sx, _, sxc, sxo, sxl⟩ := step_end c (step c (step c s a) b) x sb
          refine ⟨?_, ?_, ?_⟩
          · simp [outs, Spec.Clk.pulseTrain, sao, sal, sbo, sbl, sxo, sxl]
          · simpa [run] using sx
          · simp only [run, List.foldl_cons, List.foldl_nil]; exact sxc
      · have hk : ¬ (step c s a).count = (step c s a).target := by rw [sac, sat]; omega
        simp only [hk, if_false] at sb
        have hb := ih (step c (step c s a) b) rest (by omega) sb sbt (by rw [sbc]; omega) sbl hlen'
        refine ⟨?_, ?_, ?_⟩
        · simp only [outs, Spec.Clk.pulseTrain]
          rw [hb.1]
          simp [sao, sal, sbo, sbl]
        · simpa [run] using hb.2.1
        · simpa [run] using hb.2.2

theorem activeHandshake_iff (s : St) (i : In) (ha : s.active < 2) (hv : i.tvalid < 2) :
    activeHandshake s i ≠ 0 ↔ (s.active = 1 ∧ i.tvalid = 1) := by
  have h1 : s.active = 0 ∨ s.active = 1 := by omega
  have h2 : i.tvalid = 0 ∨ i.tvalid = 1 := by omega
  rcases h1 with h1 | h1 <;> rcases h2 with h2 | h2 <;> simp [activeHandshake, and2, buf, h1, h2]

/-- from an idle FSM whose counter is clear: a beat T (1 ≤ T < 2^CW) transferred (VALID while active, hence READY) produces —
    for EVERY behaviour of TDATA, TVALID, start, reset and done in the following 2T+1 cycles — exactly T pulses on clk_out
    (1,0 repeated T times) and then one load_outs pulse, and leaves the FSM idle with the counter clear again. -/
theorem clk_counts_from_clear (c : Cfg) (s : St) (i0 : In) (js : List In)
    (hidle : s.state = 0) (hclear : s.count = 0) (hact : s.active = 1) (hvalid : i0.tvalid = 1)
    (hT1 : 1 ≤ i0.tdata) (hT2 : i0.tdata < 2^c.CW) (hlen : js.length = 2 * i0.tdata + 1) :
    outs c (step c s i0) js = Spec.Clk.pulseTrain i0.tdata ∧ (run c (step c s i0) js).state = 0 ∧
    (run c (step c s i0) js).count = 0 := by
  have hah : activeHandshake s i0 ≠ 0 := (activeHandshake_iff s i0 (by omega) (by omega)).2 ⟨hact, hvalid⟩
  obtain ⟨e1, e2, e3, _, e5⟩ := step_idle_acc c s i0 hidle hah
  exact train_from_low c i0.tdata hT2 i0.tdata (step c s i0) js hT1 e1 e2 (by rw [e3, hclear]; omega) e5 hlen

/-- the number of cycles with clk_out = 1 in a pulse train is T -/
theorem pulseTrain_count (T : Nat) : ((Spec.Clk.pulseTrain T).filter (fun p => p.1 == 1)).length = T ∧
    ((Spec.Clk.pulseTrain T).filter (fun p => p.2 == 1)).length = 1 := by
  induction T with
  | zero => simp [Spec.Clk.pulseTrain]
  | succ n ih => simp [Spec.Clk.pulseTrain, ih.1, ih.2]

/-! ### the oracle `Spec.Clk.check` accepts the model -/

structure WfI (i : In) : Prop where
  ap_start : i.ap_start < 2
  ap_reset : i.ap_reset < 2
  ap_done : i.ap_done < 2
  tvalid : i.tvalid < 2

/-- invariant of every reachable state -/
structure Inv (s : St) : Prop where
  state : s.state ≤ 3
  clk : s.clk_out = if s.state = 2 then 1 else 0
  load : s.load_outs = 1 → s.state = 0
  loadb : s.load_outs < 2
  act : s.active < 2
  idle0 : s.state = 0 → s.count = 0      -- an idle FSM has a clear counter (END clears it: fix bcd06db)

theorem inv_init : Inv init := ⟨by decide, by decide, by decide, by decide, by decide, by decide⟩

theorem inv_step (c : Cfg) (s : St) (i : In) (h : Inv s) : Inv (step c s i) := by
  obtain ⟨h1, h2, h3, h4, h5, h6⟩ := h
  have ha : (step c s i).active < 2 := by rw [step_active]; exact Nat.mod_lt _ (by decide)
  have hs : s.state = 0 ∨ s.state = 1 ∨ s.state = 2 ∨ s.state = 3 := by omega
  rcases hs with hs | hs | hs | hs
  · by_cases hah : activeHandshake s i = 0
    · obtain ⟨e1, _, e3, e4, e5⟩ := step_idle_noacc c s i hs hah
      exact ⟨by omega, by simp [e1, e4], by omega, by omega, ha, fun _ => e3⟩
    · obtain ⟨e1, _, _, e4, e5⟩ := step_idle_acc c s i hs hah
      exact ⟨by omega, by simp [e1, e4, h2, hs], by omega, by omega, ha, by omega⟩
  · obtain ⟨e1, _, _, e4, e5⟩ := step_low c s i hs
    exact ⟨by omega, by simp [e1, e4], by intro h; rw [e5] at h; have := h3 h; omega, by omega, ha, by omega⟩
  · obtain ⟨e1, _, _, e4, e5⟩ := step_high c s i hs
    refine ⟨by rw [e1]; split <;> omega, ?_, by intro h; rw [e5] at h; have := h3 h; omega, by omega, ha, ?_⟩
    · rw [e1, e4]; split <;> simp
    · rw [e1]; split <;> omega
  · obtain ⟨e1, _, e3, e4, e5⟩ := step_end c s i hs
    exact ⟨by omega, by simp [e1, e4, h2, hs], fun _ => e1, by omega, ha, fun _ => e3⟩

theorem inv_run (c : Cfg) (is : List In) (s : St) (h : Inv s) : Inv (run c s is) := by
  induction is generalizing s with
  | nil => exact h
  | cons i is ih => exact ih _ (inv_step c s i h)

theorem run_append (c : Cfg) (s : St) (is js : List In) : run c s (is ++ js) = run c (run c s is) js := by
  simp [run, List.foldl_append]

/-- `clk_counts_accepted_beat`: after EVERY schedule `is`, if the FSM is idle and the adapter active, a beat T (1 ≤ T < 2^CW)
    offered with VALID is transferred and produces — for EVERY behaviour of TDATA, TVALID, start, reset and done in the following
    2T+1 cycles — exactly T pulses on clk_out and then one load_outs pulse.  No hypothesis on the counter: an idle FSM always
    has it clear, also in the cycle right after a load_outs pulse. -/
theorem clk_counts_accepted_beat (c : Cfg) (is : List In) (i0 : In) (js : List In)
    (hidle : (run c init is).state = 0) (hact : (run c init is).active = 1) (hvalid : i0.tvalid = 1)
    (hT1 : 1 ≤ i0.tdata) (hT2 : i0.tdata < 2^c.CW) (hlen : js.length = 2 * i0.tdata + 1) :
    outs c (run c init (is ++ [i0])) js = Spec.Clk.pulseTrain i0.tdata ∧ (run c init (is ++ [i0] ++ js)).state = 0 := by
  have hinv := inv_run c is init inv_init
  have h := clk_counts_from_clear c (run c init is) i0 js hidle (hinv.idle0 hidle) hact hvalid hT1 hT2 hlen
  have e : run c init (is ++ [i0]) = step c (run c init is) i0 := by simp [run, List.foldl_append]
  have e2 : run c init (is ++ [i0] ++ js) = run c (step c (run c init is) i0) js := by rw [run_append, e]
  rw [e, e2]
  exact ⟨h.1, h.2.1⟩

/-- back-to-back, explicitly: beat T1, its 2·T1+1 cycles (ending with the load_outs pulse), then — in the very next cycle —
    beat T2 (adapter still active): exactly T2 pulses follow, then load_outs.  (Before fix bcd06db: T2 − T1 pulses.) -/
theorem clk_back_to_back (c : Cfg) (is : List In) (i1 i2 : In) (js1 js2 : List In)
    (hidle : (run c init is).state = 0) (hact : (run c init is).active = 1)
    (hv1 : i1.tvalid = 1) (h11 : 1 ≤ i1.tdata) (h12 : i1.tdata < 2^c.CW) (hl1 : js1.length = 2 * i1.tdata + 1)
    (hact2 : (run c init (is ++ [i1] ++ js1)).active = 1)
    (hv2 : i2.tvalid = 1) (h21 : 1 ≤ i2.tdata) (h22 : i2.tdata < 2^c.CW) (hl2 : js2.length = 2 * i2.tdata + 1) :
    outs c (run c init (is ++ [i1])) js1 = Spec.Clk.pulseTrain i1.tdata ∧
    outs c (run c init (is ++ [i1] ++ js1 ++ [i2])) js2 = Spec.Clk.pulseTrain i2.tdata := by
  have h1 := clk_counts_accepted_beat c is i1 js1 hidle hact hv1 h11 h12 hl1
  exact ⟨h1.1, (clk_counts_accepted_beat c (is ++ [i1] ++ js1) i2 js2 h1.2 hact2 hv2 h21 h22 hl2).1⟩

/-- what the monitor's phase says about the FSM -/
def PhaseRel (c : Cfg) (s : St) : Spec.Clk.Phase → Prop
  | .idle => s.state = 0
  | .high T k => s.state = 1 ∧ s.target = T ∧ s.count = k ∧ k < T ∧ T < 2^c.CW ∧ s.load_outs = 0
  | .low T k => s.state = 2 ∧ s.target = T ∧ s.count = k ∧ 1 ≤ k ∧ k ≤ T ∧ T < 2^c.CW ∧ s.load_outs = 0
  | .fin => s.state = 3 ∧ s.load_outs = 0
  | .unknown => True

theorem obs_tready (s : St) (h : s.active < 2) : (obs s).tready = s.active := by
  simp only [obs, buf]; omega

theorem accept_iff (s : St) (i : In) (h : Inv s) (hi : WfI i) :
    Spec.Clk.accept (obs s) i = true ↔ activeHandshake s i ≠ 0 := by
  rw [activeHandshake_iff s i h.act hi.tvalid]
  simp [Spec.Clk.accept, obs_tready s h.act, and_comm]

theorem rel_step (c : Cfg) (s : St) (i : In) (m : Spec.Clk.Mon) (h : Inv s) (hi : WfI i) (hp : PhaseRel c s m.phase) :
    PhaseRel c (step c s i) (Spec.Clk.monStep c.CW m (obs s) i (obs (step c s i))).phase ∧
    (∀ e, Spec.Clk.expect m = some e → (step c s i).clk_out = e.1 ∧ (step c s i).load_outs = e.2) := by
  have h' := inv_step c s i h
  obtain ⟨ph⟩ := m
  cases ph with
  | idle =>
    have hs : s.state = 0 := hp
    have hcnt := h.idle0 hs
    have hc0 : s.clk_out = 0 := by rw [h.clk]; simp [hs]
    by_cases hah : activeHandshake s i = 0
    · have hacc : Spec.Clk.accept (obs s) i = false := by
        cases hb : Spec.Clk.accept (obs s) i
        · rfl
        · exact absurd hah ((accept_iff s i h hi).1 hb)
      obtain ⟨e1, _, e3, e4, e5⟩ := step_idle_noacc c s i hs hah
      refine ⟨by simp [Spec.Clk.monStep, hacc, PhaseRel, e1], ?_⟩
      intro e he; simp [Spec.Clk.expect] at he; subst he; exact ⟨e4, e5⟩
    · have hacc : Spec.Clk.accept (obs s) i = true := (accept_iff s i h hi).2 hah
      obtain ⟨e1, e2, e3, e4, e5⟩ := step_idle_acc c s i hs hah
      refine ⟨?_, ?_⟩
      · simp only [Spec.Clk.monStep, hacc, if_true]
        by_cases hr : (decide (1 ≤ i.tdata) && decide (i.tdata < 2^c.CW)) = true
        · rw [if_pos hr]
          simp only [Bool.and_eq_true, decide_eq_true_eq] at hr
          simp [PhaseRel, e1, e2, e3, e5, hcnt, hr.2]; omega
        · rw [if_neg hr]; simp [PhaseRel]
      · intro e he; simp [Spec.Clk.expect] at he; subst he; exact ⟨by rw [e4, hc0], e5⟩
  | high T k =>
    obtain ⟨hs, ht, hk, hlt, hT, hl⟩ := hp
    obtain ⟨e1, e2, e3, e4, e5⟩ := step_low c s i hs
    have : (s.count + 1) % 2^c.CW = k + 1 := by rw [hk]; exact Nat.mod_eq_of_lt (by omega)
    refine ⟨by simp [Spec.Clk.monStep, PhaseRel, e1, e2, e3, e5, ht, this, hl, hT]; omega, ?_⟩
    intro e he; simp [Spec.Clk.expect] at he; subst he; exact ⟨e4, by rw [e5, hl]⟩
  | low T k =>
    obtain ⟨hs, ht, hk, h1k, hkT, hT, hl⟩ := hp
    obtain ⟨e1, e2, e3, e4, e5⟩ := step_high c s i hs
    refine ⟨?_, ?_⟩
    · by_cases hkt : k = T
      · have : s.count = s.target := by rw [hk, ht, hkt]
        simp [Spec.Clk.monStep, hkt, PhaseRel, e1, this, e5, hl]
      · have : ¬ s.count = s.target := by rw [hk, ht]; exact hkt
        simp [Spec.Clk.monStep, hkt, PhaseRel, e1, this, e2, e3, e5, hl, ht, hk, hT]; omega
    · intro e he; simp [Spec.Clk.expect] at he; subst he; exact ⟨e4, by rw [e5, hl]⟩
  | fin =>
    obtain ⟨hs, hl⟩ := hp
    obtain ⟨e1, _, _, e4, e5⟩ := step_end c s i hs
    have hc0 : s.clk_out = 0 := by rw [h.clk]; simp [hs]
    refine ⟨by simp [Spec.Clk.monStep, PhaseRel, e1], ?_⟩
    intro e he; simp [Spec.Clk.expect] at he; subst he; exact ⟨by rw [e4, hc0], e5⟩
  | unknown =>
    refine ⟨?_, by intro e he; simp [Spec.Clk.expect] at he⟩
    simp only [Spec.Clk.monStep]
    by_cases hl : ((obs (step c s i)).load_outs == 1) = true
    · rw [if_pos hl]
      have : (step c s i).load_outs = 1 := by simpa [obs] using hl
      simp [PhaseRel, h'.load this]
    · rw [if_neg hl]; simp [PhaseRel]

theorem clauses_ok (c : Cfg) (s : St) (i : In) (m : Spec.Clk.Mon) (h : Inv s) (hi : WfI i) (hp : PhaseRel c s m.phase) :
    ∀ p ∈ Spec.Clk.clauses false m (obs s) i (obs (step c s i)), p.2 = true := by
  have h' := inv_step c s i h
  have hr := (rel_step c s i m h hi hp).2
  intro p hp'
  simp only [Spec.Clk.clauses, List.mem_cons, List.mem_nil_iff, or_false] at hp'
  rcases hp' with rfl | rfl | rfl | rfl | rfl
  · have e1 := obs_tready s h.act
    have e2 := obs_tready (step c s i) h'.act
    simp only [obs] at e1 e2
    simp [obs, e1, e2]
  · show ((obs (step c s i)).active == Spec.Clk.activeNext (obs s) i) = true
    simp only [obs, Spec.Clk.activeNext, step_active, beq_iff_eq]
    have a1 := h.act; have a2 := hi.ap_start; have a3 := hi.ap_reset; have a4 := hi.ap_done
    rcases bit01 a1 with e1 | e1 <;> rcases bit01 a2 with e2 | e2 <;> rcases bit01 a3 with e3 | e3 <;>
      rcases bit01 a4 with e4 | e4 <;> simp [e1, e2, e3, e4, regER, or2]
  · show (match Spec.Clk.expect m with | some e => (obs (step c s i)).clk_out == e.1 | none => true) = true
    cases he : Spec.Clk.expect m with
    | none => rfl
    | some e => simp only [beq_iff_eq]; exact (hr e he).1
  · show (match Spec.Clk.expect m with | some e => (obs (step c s i)).load_outs == e.2 | none => true) = true
    cases he : Spec.Clk.expect m with
    | none => rfl
    | some e => simp only [beq_iff_eq]; exact (hr e he).2
  · simp

def WfIs (is : List In) : Prop := ∀ i ∈ is, WfI i

theorem check_ok (c : Cfg) (is : List In) (hw : WfIs is) (s : St) (m : Spec.Clk.Mon) (t : Nat) (h : Inv s)
    (hp : PhaseRel c s m.phase) :
    Spec.Clk.checkFrom false c.CW m (obs s) t (trace c s is) = .ok := by
  induction is generalizing s m t with
  | nil => rfl
  | cons i is ih =>
    have hi : WfI i := hw i (by simp)
    simp only [trace, Spec.Clk.checkFrom]
    rw [Spec.firstFail_none _ (clauses_ok c s i m h hi hp)]
    exact ih (fun j hj => hw j (by simp [hj])) _ _ _ (inv_step c s i h) (rel_step c s i m h hi hp).1

/-- the executable oracle `Spec.Clk.check` (tolerant mode) — the one the harness runs on the traces of the REAL Axi2Clk —
    accepts the trace of the model under EVERY schedule: every beat of value 1 ≤ T < 2^CW accepted while idle (also in the
    cycle right after a load_outs pulse) is followed by exactly T clk_out pulses and then the load_outs pulse, whatever TDATA
    and the control pulses do meanwhile; idle cycles keep both outputs low; READY = active. -/
theorem clk_oracle_accepts_model (c : Cfg) (is : List In) (hw : WfIs is) :
    Spec.Clk.check false c.CW (obs init) (trace c init is) = .ok :=
  check_ok c is hw init Spec.Clk.Mon.init 0 inv_init rfl

theorem clk_oracle_accepts_generated (c : Cfg) (is : List In) (hw : WfIs is) :
    Spec.Clk.check false c.CW (obs init) (traceG c init is) = .ok := by
  rw [traceG_eq]; exact clk_oracle_accepts_model c is hw

/-- regression example (the witness of the former finding C16-axi2clk-stale-count, fixed by bcd06db, completed to the end of
    the second run): beat 2, then beat 5 accepted in the cycle right after the load_outs pulse → 2 pulses, then 5 pulses.
    TDATA changing during the count (5, then 9) does not matter. -/
theorem clk_back_to_back_example :
    let c : Cfg := ⟨64⟩
    let is : List In := [⟨1,0,0,0,0⟩, ⟨0,0,0,1,2⟩, ⟨0,0,0,1,5⟩, ⟨0,0,0,1,5⟩, ⟨0,0,0,1,5⟩, ⟨0,0,0,1,5⟩, ⟨0,0,0,1,5⟩,
                         ⟨0,0,0,1,5⟩, ⟨0,0,0,0,9⟩, ⟨0,0,0,0,9⟩, ⟨0,0,0,0,9⟩, ⟨0,0,0,0,9⟩, ⟨0,0,0,0,9⟩, ⟨0,0,0,0,9⟩, ⟨0,0,0,0,9⟩,
                         ⟨0,0,0,0,9⟩, ⟨0,0,0,0,9⟩, ⟨0,0,0,0,9⟩, ⟨0,0,0,0,9⟩]
    (outs c init is).map Prod.fst = [0,0, 1,0,1,0, 0, 0, 1,0,1,0,1,0,1,0,1,0, 0] ∧
    (outs c init is).map Prod.snd = [0,0, 0,0,0,0, 1, 0, 0,0,0,0,0,0,0,0,0,0, 1] ∧
    Spec.Clk.check false 64 (obs init) (trace c init is) = .ok := by
  decide

/-- genuine defect (strict mode refuted), finding C16-axi2clk-accepts-while-counting: READY = active also while the FSM counts,
    so a beat offered then is ACCEPTED on the stream (VALID ∧ READY) and silently dropped: beat 2 accepted, beat 7 accepted one
    cycle later (READY is up) — 2 pulses, load_outs, and nothing for the 7. -/
theorem clk_accepts_while_counting_counterexample :
    let c : Cfg := ⟨64⟩
    let is : List In := [⟨1,0,0,0,0⟩, ⟨0,0,0,1,2⟩, ⟨0,0,0,1,7⟩, ⟨0,0,0,0,0⟩, ⟨0,0,0,0,0⟩, ⟨0,0,0,0,0⟩, ⟨0,0,0,0,0⟩, ⟨0,0,0,0,0⟩,
                         ⟨0,0,0,0,0⟩, ⟨0,0,0,0,0⟩]
    (obs (run c init (is.take 2))).tready = 1 ∧                       -- READY is up while the FSM is in RUNNING_LOW
    (outs c init is).map Prod.fst = [0,0, 1,0,1,0, 0, 0,0,0] ∧        -- only the 2 pulses of the first beat
    (outs c init is).map Prod.snd = [0,0, 0,0,0,0, 1, 0,0,0] ∧
    Spec.Clk.check true 64 (obs init) (trace c init is) = .fail 2 "accepted_beat_is_counted" false ∧
    Spec.Clk.check false 64 (obs init) (trace c init is) = .ok := by
  decide

/-- non-vacuity of `clk_counts_accepted_beat`: beat 3, TDATA going up (6), down (1), to 0 and far up while counting -/
example :
    let c : Cfg := ⟨64⟩
    let s := run c init [⟨1,0,0,0,0⟩]
    let js : List In := [⟨0,0,0,1,6⟩, ⟨0,0,0,1,1⟩, ⟨0,0,0,0,0⟩, ⟨0,1,0,1,0⟩, ⟨1,0,0,1,99⟩, ⟨0,0,1,0,2⟩, ⟨0,0,0,0,7⟩]
    s.state = 0 ∧ s.count = 0 ∧ s.active = 1 ∧
    outs c (step c s ⟨0,0,0,1,3⟩) js = [(1,0),(0,0),(1,0),(0,0),(1,0),(0,0),(0,1)] := by
  decide

end Clk
end Axi
