import Py4hwV.Props.C01
import Py4hwV.Emit.Flat
import Py4hwV.Lib.LeafArith
import Py4hwV.Proofs.C07Basic
/-
  C01: inline forms beyond Props/C01.lean, for the design-level theorem — concatenations `{a,b,…}` (ConcatenateMSBF,
  ConcatenateLSBF, Repeat), for operands of ANY widths and values, assigned to a net of ANY width.
-/
set_option linter.unusedSimpArgs false
namespace C01
open V

open FlatM (catChain)

def chainW : List (String × Nat × Nat) → Nat
  | [] => 0
  | x :: rest => x.2.1 + chainW rest

def chainV : List (String × Nat × Nat) → Nat
  | [] => 0
  | x :: rest => x.2.2 <<< chainW rest ||| chainV rest

theorem chainV_lt (l : List (String × Nat × Nat)) (h : ∀ x, x ∈ l → x.2.2 < 2 ^ x.2.1) : chainV l < 2 ^ chainW l := by
  induction l with
  | nil => simp [chainV, chainW]
  | cons x rest ih =>
    simp only [chainV, chainW]
    have h1 := h x (by simp)
    have h2 := ih (fun y hy => h y (by simp [hy]))
    apply Nat.or_lt_two_pow
    · rw [Nat.shiftLeft_eq, Nat.pow_add]
      exact Nat.mul_lt_mul_of_lt_of_le h1 (Nat.le_refl _) (Nat.two_pow_pos _)
    · exact Nat.lt_of_lt_of_le h2 (Nat.pow_le_pow_right (by decide) (by omega))

theorem chain_self {r : Rd} (l : List (String × Nat × Nat)) (hl : l ≠ []) (hk : ∀ x, x ∈ l → Known r x.1 x.2.1 x.2.2) :
    selfW r (catChain (l.map (·.1))) = chainW l ∧ isSg r (catChain (l.map (·.1))) = false := by
  induction l with
  | nil => exact absurd rfl hl
  | cons x rest ih =>
    cases rest with
    | nil =>
      have := hk x (by simp)
      simp [catChain, chainW, selfW_id this, isSg_id this]
    | cons y rest =>
      have hx := hk x (by simp)
      have := ih (by simp) (fun z hz => hk z (by simp [hz]))
      simp only [List.map_cons, catChain, selfW, isSg, chainW] at this ⊢
      rw [this.1]
      simp [widthOf_k hx]

/-- a concatenation evaluates, in any context at least as wide as itself, to the operands laid side by side -/
theorem eval_chain {r : Rd} (l : List (String × Nat × Nat)) (hl : l ≠ []) (hk : ∀ x, x ∈ l → Known r x.1 x.2.1 x.2.2)
    (W : Nat) (hW : chainW l ≤ W) : eval r W false (catChain (l.map (·.1))) = ⟨W, chainV l, true⟩ := by
  induction l generalizing W with
  | nil => exact absurd rfl hl
  | cons x rest ih =>
    cases rest with
    | nil =>
      have hx := hk x (by simp)
      simp only [List.map_cons, List.map_nil, catChain, chainV, chainW, Nat.shiftLeft_zero, Nat.or_zero]
      exact eval_id hx W (by simpa [chainW] using hW)
    | cons y rest =>
      have hx := hk x (by simp)
      have hk' : ∀ z, z ∈ y :: rest → Known r z.1 z.2.1 z.2.2 := fun z hz => hk z (by simp [hz])
      have hs := chain_self (y :: rest) (by simp) hk'
      have ihr := ih (by simp) hk' (chainW (y :: rest)) (Nat.le_refl _)
      simp only [List.map_cons] at hs ihr
      have hxe : eval r x.2.1 false (.id x.1) = ⟨x.2.1, x.2.2, true⟩ := eval_id hx _ (Nat.le_refl _)
      simp only [List.map_cons, catChain]
      rw [eval]
      simp only [selfW_id hx, hs.1, hxe, ihr, Bool.and_self, if_true]
      have hlt := chainV_lt (x :: y :: rest) (fun z hz => (hk z hz).lt)
      exact ext_known W _ _ hlt hW

theorem concat_fold (l : List (String × Nat × Nat)) (acc : Nat) :
    (l.map (·.2)).foldl (fun acc (wv : Nat × Nat) => (acc <<< wv.1) ||| wv.2) acc = (acc <<< chainW l) ||| chainV l := by
  induction l generalizing acc with
  | nil => simp [chainW, chainV]
  | cons x rest ih =>
    simp only [List.map_cons, List.foldl_cons, ih, chainW, chainV]
    rw [Nat.shiftLeft_or_distrib, Nat.shiftLeft_add, Nat.or_assoc]

/-- **ConcatenateMSBF / ConcatenateLSBF**: `assign r = {n1, n2, …}` lands what the leaf's loop lands, all widths -/
theorem inline_concat {r : Rd} (rw : Nat) (l : List (String × Nat × Nat)) (hl : l ≠ [])
    (hk : ∀ x, x ∈ l → Known r x.1 x.2.1 x.2.2) :
    evalAssign r rw (catChain (l.map (·.1))) = ⟨rw, Leaf.concat rw (l.map (·.2)), true⟩ := by
  have hs := chain_self l hl hk
  unfold evalAssign
  simp only [hs.1, hs.2]
  rw [eval_chain l hl hk _ (by omega)]
  simp only [if_true, Leaf.concat]
  rw [concat_fold l 0]
  simp

/-- the MSBF class runs the same generated loop as the LSBF one -/
theorem gen_concatMSBF (rw : Nat) (ins : List (Nat × Nat)) :
    Leaf.landed rw (Gen.ConcatenateMSBF.step ⟨⟩ ⟨⟩ ⟨⟩ ⟨ins.map fun p => ((p.1 : Int), (p.2 : Int))⟩).2.r = Leaf.concat rw ins := by
  simp only [Gen.ConcatenateMSBF.step, Id.run, pure, Leaf.landed, Leaf.concat, Option.getD]
  have := Leaf.concat_cast ins 0
  simp only [Int.natCast_zero] at this
  rw [this, Bits.put_ofNat]

/-- **Repeat**: `assign r = {i, i, …}` (`w` copies of a ONE-bit `i`; a single copy is written `i`) on a `w`-bit net -/
theorem inline_repeat {r : Rd} (w : Nat) (hw : 1 ≤ w) (i : String) (b : Nat) (hi : Known r i 1 b) :
    evalAssign r w (catChain (List.replicate w i)) = ⟨w, Leaf.repeat1 w b, true⟩ := by
  have hmap : List.replicate w i = (List.replicate w (i, 1, b)).map (·.1) := by simp
  rw [hmap, inline_concat w (List.replicate w (i, 1, b)) (by
    intro h; have := congrArg List.length h; simp at this; omega)
    (by intro x hx; rw [List.eq_of_mem_replicate hx]; exact hi)]
  congr 1
  have hb : b = 0 ∨ b = 1 := by have := hi.lt; omega
  simp only [Leaf.concat, List.map_replicate]
  have key : ∀ k acc, (List.replicate k (1, b)).foldl (fun acc (wv : Nat × Nat) => (acc <<< wv.1) ||| wv.2) acc
      = acc * 2 ^ k + b * (2 ^ k - 1) := by
    intro k
    induction k with
    | zero => intro acc; simp
    | succ k ih =>
      intro acc
      simp only [List.replicate_succ, List.foldl_cons, ih]
      have : acc <<< 1 ||| b = acc * 2 + b := by
        rw [← Nat.shiftLeft_add_eq_or_of_lt (by omega : b < 2 ^ 1), Nat.shiftLeft_eq]
      rw [this, Nat.pow_succ]
      have hp : 1 ≤ 2 ^ k := Nat.one_le_two_pow
      rcases hb with h | h <;> subst h
      · simp [Nat.mul_assoc, Nat.mul_comm]
      · simp only [Nat.one_mul]
        have : (acc * 2 + 1) * 2 ^ k = acc * (2 ^ k * 2) + 2 ^ k := by
          rw [Nat.add_mul, Nat.mul_assoc, Nat.mul_comm 2, Nat.one_mul]
        omega
  rw [key w 0]
  have hp : 1 ≤ 2 ^ w := Nat.one_le_two_pow
  rcases hb with h | h <;> subst h
  · simp [Leaf.repeat1]
  · simp only [Nat.zero_mul, Nat.zero_add, Nat.one_mul, Leaf.repeat1, Nat.one_ne_zero, if_false]
    exact Nat.mod_eq_of_lt (by omega)

end C01

namespace C01
open V

/-- `{ {k{a[w-1]}}, a }` as harness/vparse.py reads it -/
def sextExpr (a : String) (aw k : Nat) : Expr :=
  .cat (.cat1 (.rep k (.cat1 (.idx a (lit (aw - 1)))))) (.id a)

theorem rep_fold (s k : Nat) (hs : s < 2) :
    (List.range k).foldl (fun acc _ => acc <<< 1 ||| s) 0 = s * (2 ^ k - 1) := by
  have key : ∀ k acc, (List.range k).foldl (fun acc _ => acc <<< 1 ||| s) acc = acc * 2 ^ k + s * (2 ^ k - 1) := by
    intro k
    induction k with
    | zero => intro acc; simp
    | succ k ih =>
      intro acc
      rw [List.range_succ, List.foldl_append, ih]
      simp only [List.foldl_cons, List.foldl_nil]
      rw [← Nat.shiftLeft_add_eq_or_of_lt (by omega : s < 2 ^ 1), Nat.shiftLeft_eq, Nat.pow_one]
      have hp : 1 ≤ 2 ^ k := Nat.one_le_two_pow
      have h2 : 2 ^ (k + 1) = 2 * 2 ^ k := by rw [Nat.pow_succ]; omega
      have h3 : acc * (2 * 2 ^ k) = 2 * (acc * 2 ^ k) := Nat.mul_left_comm _ _ _
      rw [h2, h3]
      have hs' : s = 0 ∨ s = 1 := by omega
      rcases hs' with h | h <;> subst h
      · simp; omega
      · simp only [Nat.one_mul]; omega
  have := key k 0
  simpa using this

theorem inline_sext_wide {r : Rd} {a : String} {aw va : Nat} (rw : Nat) (hle : aw ≤ rw) (haw : 1 ≤ aw) (h32 : aw - 1 < 2 ^ 32)
    (ha : Known r a aw va) :
    evalAssign r rw (sextExpr a aw (rw - aw)) =
      ⟨rw, ((((va >>> (aw - 1)) % 2) * (2 ^ (rw - aw) - 1)) <<< aw ||| va) % 2 ^ rw, true⟩ := by
  have hnm : isMem r a = false := by simp [isMem, ha.info]
  have hge : ¬ (aw - 1 ≥ aw) := by omega
  have hs : (va >>> (aw - 1)) % 2 < 2 := Nat.mod_lt _ (by decide)
  have hs1 : (va >>> (aw - 1)) % 2 < 2 ^ 1 := by simpa using hs
  generalize hsd : (va >>> (aw - 1)) % 2 = s at hs hs1
  have e32 : ext 32 false ⟨32, aw - 1, true⟩ = ⟨32, aw - 1, true⟩ := ext_known 32 32 _ h32 (Nat.le_refl _)
  have e1 : ext 1 false ⟨1, s, true⟩ = ⟨1, s, true⟩ := ext_known 1 1 _ hs1 (Nat.le_refl _)
  have h_idx : eval r 1 false (.idx a (lit (aw - 1))) = ⟨1, s, true⟩ := by
    rw [eval]
    simp only [selfW, lit, eval, BV.mk', Nat.mod_eq_of_lt h32, e32, hnm, ha.val, Bool.not_true, Bool.false_or, if_true,
      Bool.false_eq_true, if_false, decide_eq_true_eq, hge, decide_false, hsd, e1]
  have hsw_idx : selfW r (.idx a (lit (aw - 1))) = 1 := by simp [selfW, hnm]
  have h_c1 : eval r 1 false (.cat1 (.idx a (lit (aw - 1)))) = ⟨1, s, true⟩ := by
    rw [eval]; simp only [hsw_idx, h_idx, e1]
  have hsw_c1 : selfW r (.cat1 (.idx a (lit (aw - 1)))) = 1 := by simp [selfW, hnm]
  have hk : s * (2 ^ (rw - aw) - 1) < 2 ^ (rw - aw) := by
    have hp : 1 ≤ 2 ^ (rw - aw) := Nat.one_le_two_pow
    have : s = 0 ∨ s = 1 := by omega
    rcases this with h | h <;> subst h <;> omega
  have h_rep : eval r (rw - aw) false (.rep (rw - aw) (.cat1 (.idx a (lit (aw - 1))))) =
      ⟨rw - aw, s * (2 ^ (rw - aw) - 1), true⟩ := by
    rw [eval]
    simp only [hsw_c1, h_c1, if_true, Nat.mul_one, rep_fold s _ hs]
    exact ext_known _ _ _ hk (Nat.le_refl _)
  have hsw_rep : selfW r (.rep (rw - aw) (.cat1 (.idx a (lit (aw - 1))))) = rw - aw := by simp [selfW, hnm]
  have h_c2 : eval r (rw - aw) false (.cat1 (.rep (rw - aw) (.cat1 (.idx a (lit (aw - 1)))))) =
      ⟨rw - aw, s * (2 ^ (rw - aw) - 1), true⟩ := by
    rw [eval]; simp only [hsw_rep, h_rep]; exact ext_known _ _ _ hk (Nat.le_refl _)
  have hsw_c2 : selfW r (.cat1 (.rep (rw - aw) (.cat1 (.idx a (lit (aw - 1)))))) = rw - aw := by simp [selfW, hnm]
  have hid : eval r aw false (.id a) = ⟨aw, va, true⟩ := eval_id ha aw (Nat.le_refl _)
  have hval : (s * (2 ^ (rw - aw) - 1)) <<< aw ||| va < 2 ^ (rw - aw + aw) := by
    apply Nat.or_lt_two_pow
    · rw [Nat.shiftLeft_eq, Nat.pow_add]
      exact Nat.mul_lt_mul_of_lt_of_le hk (Nat.le_refl _) (Nat.two_pow_pos _)
    · exact Nat.lt_of_lt_of_le ha.lt (Nat.pow_le_pow_right (by decide) (by omega))
  have hsw : selfW r (sextExpr a aw (rw - aw)) = rw := by
    show selfW r (.cat1 (.rep (rw - aw) (.cat1 (.idx a (lit (aw - 1)))))) + selfW r (.id a) = rw
    rw [hsw_c2, selfW_id ha]; omega
  have hsg : isSg r (sextExpr a aw (rw - aw)) = false := by simp [sextExpr, isSg]
  unfold evalAssign
  simp only [hsw, hsg, Nat.max_self]
  have : eval r rw false (sextExpr a aw (rw - aw)) = ⟨rw, (s * (2 ^ (rw - aw) - 1)) <<< aw ||| va, true⟩ := by
    unfold sextExpr
    rw [eval]
    simp only [hsw_c2, h_c2, selfW_id ha, hid, Bool.and_self, if_true]
    have e : rw - aw + aw = rw := by omega
    rw [e] at hval ⊢
    exact ext_known rw rw _ hval (Nat.le_refl _)
  rw [this]
  rfl

/-- **SignExtend**, both emitted forms (`assign r = a;` when the result is narrower, `{ {k{a[w-1]}}, a }` otherwise):
    what the leaf's loop lands, for every pair of widths -/
theorem inline_sext {r : Rd} {a : String} {aw va : Nat} (rw : Nat) (haw : 1 ≤ aw) (h32 : aw - 1 < 2 ^ 32)
    (ha : Known r a aw va) :
    evalAssign r rw (if rw < aw then .id a else sextExpr a aw (rw - aw)) = ⟨rw, Leaf.sext rw aw va, true⟩ := by
  by_cases hn : rw < aw
  · rw [if_pos hn, inline_buf rw ha]
    have : rw - aw = 0 := by omega
    simp [Leaf.sext, Leaf.buf, this]
  · rw [if_neg hn, inline_sext_wide rw (by omega) haw h32 ha]
    congr 1
    unfold Leaf.sext
    rw [C07.shr_top aw va haw ha.lt]
    by_cases hlt : va < 2 ^ (aw - 1)
    · simp only [hlt, if_true, Nat.zero_mod, Nat.zero_mul]
      rw [C07.sext_fold_zero]
      simp
    · simp only [hlt, if_false, Nat.one_mod, Nat.one_mul]
      rw [C07.sext_fold_one aw (rw - aw) va ha.lt, ← Nat.shiftLeft_add_eq_or_of_lt ha.lt, Nat.shiftLeft_eq]
      have e : aw + (rw - aw) = rw := by omega
      rw [e]
      have hp : 2 ^ rw = 2 ^ (rw - aw) * 2 ^ aw := by rw [← Nat.pow_add]; congr 1; omega
      have h1 : 1 ≤ 2 ^ (rw - aw) := Nat.one_le_two_pow
      have : (2 ^ (rw - aw) - 1) * 2 ^ aw = 2 ^ rw - 2 ^ aw := by
        rw [Nat.sub_mul, Nat.one_mul, ← hp]
      rw [this, Nat.add_comm]

/-! ### SignedMul: `$signed(a) * $signed(b)` -/

/-- sign extension by the context (`ext W true`) keeps the two's-complement reading modulo `2^W` -/
theorem ext_signed (W aw va : Nat) (haw : 1 ≤ aw) (hva : va < 2 ^ aw) (hW : aw ≤ W) :
    ∃ x : Nat, ext W true ⟨aw, va, true⟩ = ⟨W, x, true⟩ ∧
      ∃ m : Int, (x : Int) = Bits.toSigned aw va + m * (2 : Int) ^ W := by
  unfold ext Bits.toSigned
  simp only [Bool.not_true, Bool.false_eq_true, if_false, Bool.true_and]
  have c1 : ((2 ^ aw : Nat) : Int) = (2 : Int) ^ aw := by simp
  have c2 : ((2 ^ W : Nat) : Int) = (2 : Int) ^ W := by simp
  have hpw : 2 ^ aw ≤ 2 ^ W := Nat.pow_le_pow_right (by decide) hW
  by_cases h1 : W ≤ aw
  · have e : W = aw := by omega
    subst e
    rw [if_pos (Nat.le_refl _), Nat.mod_eq_of_lt hva]
    refine ⟨va, rfl, ?_⟩
    by_cases hs : va < 2 ^ (W - 1)
    · exact ⟨0, by simp [hs]⟩
    · exact ⟨1, by simp only [hs, if_false]; omega⟩
  · rw [if_neg h1]
    by_cases hs : va < 2 ^ (aw - 1)
    · have : ¬ (2 ^ (aw - 1) ≤ va) := by omega
      simp only [show decide (0 < aw) = true by simp; omega, this, decide_false, Bool.and_false, Bool.false_eq_true, if_false,
        Bool.true_and]
      exact ⟨va, rfl, 0, by simp [hs]⟩
    · have : 2 ^ (aw - 1) ≤ va := by omega
      simp only [show decide (0 < aw) = true by simp; omega, this, decide_true, Bool.and_self, if_true]
      refine ⟨va + (2 ^ W - 2 ^ aw), rfl, 1, ?_⟩
      simp only [hs, if_false]
      rw [Int.natCast_add, Int.ofNat_sub hpw, c1, c2]
      omega

theorem emod_of_shift (x s m : Int) (W rw : Nat) (h : rw ≤ W) (e : x = s + m * (2 : Int) ^ W) :
    x % (2 : Int) ^ rw = s % (2 : Int) ^ rw := by
  have hp : (2 : Int) ^ W = (2 : Int) ^ (W - rw) * (2 : Int) ^ rw := by rw [← Int.pow_add]; congr 1; omega
  rw [e, hp, ← Int.mul_assoc, Int.add_mul_emod_self_right]

theorem inline_smul {r : Rd} {a b : String} {aw bw va vb : Nat} (rw : Nat) (haw : 1 ≤ aw) (hbw : 1 ≤ bw)
    (ha : Known r a aw va) (hb : Known r b bw vb) :
    evalAssign r rw (.bin "mul" (.sgn (.id a)) (.sgn (.id b))) = ⟨rw, Leaf.smul rw aw bw va vb, true⟩ := by
  obtain ⟨xa, hxa, ma, hma⟩ := ext_signed (max rw (max aw bw)) aw va haw ha.lt (by omega)
  obtain ⟨xb, hxb, mb, hmb⟩ := ext_signed (max rw (max aw bw)) bw vb hbw hb.lt (by omega)
  have ea : eval r aw false (.id a) = ⟨aw, va, true⟩ := eval_id ha aw (Nat.le_refl _)
  have eb : eval r bw false (.id b) = ⟨bw, vb, true⟩ := eval_id hb bw (Nat.le_refl _)
  have hsa : eval r (max rw (max aw bw)) true (.sgn (.id a)) = ⟨max rw (max aw bw), xa, true⟩ := by
    rw [eval]; simp only [selfW_id ha, isSg_id ha, ea, hxa]
  have hsb : eval r (max rw (max aw bw)) true (.sgn (.id b)) = ⟨max rw (max aw bw), xb, true⟩ := by
    rw [eval]; simp only [selfW_id hb, isSg_id hb, eb, hxb]
  have hsw : selfW r (.bin "mul" (.sgn (.id a)) (.sgn (.id b))) = max aw bw := by
    simp [selfW, isRel, isLog, isShift, widthOf_k ha, widthOf_k hb]
  have hsg : isSg r (.bin "mul" (.sgn (.id a)) (.sgn (.id b))) = true := by simp [isSg, isRel, isLog, isShift]
  unfold evalAssign
  simp only [hsw, hsg]
  have hev : eval r (max rw (max aw bw)) true (.bin "mul" (.sgn (.id a)) (.sgn (.id b))) =
      ⟨max rw (max aw bw), (xa * xb) % 2 ^ (max rw (max aw bw)), true⟩ := by
    rw [eval]
    simp only [show isRel "mul" = false by decide, show isLog "mul" = false by decide, show isShift "mul" = false by decide,
      Bool.false_eq_true, if_false, hsa, hsb, arith, Bool.and_self, Bool.not_true, BV.mk']
  rw [hev]
  simp only [if_true]
  congr 1
  rw [mod_mod_pow _ _ _ (by omega), ← Bits.put_ofNat]
  unfold Leaf.smul
  rw [Nat.mod_eq_of_lt ha.lt, Nat.mod_eq_of_lt hb.lt]
  apply Bits.put_congr
  rw [Int.natCast_mul, Int.mul_emod, emod_of_shift _ _ ma _ rw (by omega) hma, emod_of_shift _ _ mb _ rw (by omega) hmb,
    ← Int.mul_emod]

end C01
