import Py4hwV.Proofs.C07Basic
/-
  C07 helper lemmas for Add / SignedAdd / SignedSub / Neg / Sign / Abs / SignedDiv.
-/
namespace C07
open Bits

theorem put_zero (w : Nat) : put w 0 = 0 := by
  have := put_ofNat w 0; simpa using this

theorem put_one (w : Nat) (h : 1 ≤ w) : put w 1 = 1 := by
  have h2 : 1 < 2^w := Nat.one_lt_two_pow (by omega)
  exact put_of_lt w 1 h2

/-- `put` only sees residues: replace an inner `put` by its argument -/
theorem put_put_add (w : Nat) (x y : Int) : put w ((put w x : Nat) + y) = put w (x + y) := by
  apply put_congr; rw [put_cast, Int.emod_add_emod]

theorem put_add_put (w : Nat) (x y : Int) : put w (x + (put w y : Nat)) = put w (x + y) := by
  apply put_congr; rw [put_cast, Int.add_emod_emod]

theorem put_neg_put (w : Nat) (x : Int) : put w (-((put w x : Nat) : Int)) = put w (-x) := by
  apply put_congr; rw [put_cast]
  have := Int.sub_emod_emod 0 x ((2:Int)^w)
  simpa using this

theorem put_neg_mod (w x : Nat) : put w (-((x % 2^w : Nat) : Int)) = put w (-(x : Int)) := by
  have := put_neg_put w (x : Int)
  rw [put_ofNat] at this
  exact this

/-- the operand handed to the inner `Add` by SignedAdd / SignedSub -/
theorem sext_operand (rw aw a : Nat) (hw : 1 ≤ aw) (ha : a < 2^aw) (hle : aw ≤ rw) :
    (if rw > aw then Leaf.sext rw aw a else a) = put rw (toSigned aw a) := by
  split
  · exact sext_eq rw aw a hw ha
  · have : rw = aw := by omega
    subst this
    rw [put_toSigned_le rw rw a (Nat.le_refl _), Nat.mod_eq_of_lt ha]

theorem range_low (rw x : Nat) (h : 1 ≤ rw) : Leaf.range rw x (rw - 1) 0 = x % 2^rw := by
  unfold Leaf.range
  rw [show rw - 1 - 0 + 1 = rw by omega, Nat.shiftRight_zero, Nat.mod_mod]

theorem bit_one (cow x k : Nat) (h : 1 ≤ cow) : Leaf.bit cow x k = (x / 2^k) % 2 := by
  unfold Leaf.bit
  rw [Nat.shiftRight_eq_div_pow]
  apply Nat.mod_eq_of_lt
  have : 2 ≤ 2^cow := by
    have := two_pow_le h; simpa using this
  have := Nat.mod_lt (x / 2^k) (show 0 < 2 by decide)
  omega

theorem not1_of_lt (w x : Nat) (h : x < 2^w) : Leaf.not1 w x = 2^w - 1 - x := by
  unfold Leaf.not1; rw [Nat.mod_eq_of_lt h]

theorem toSigned_neg_iff (w a : Nat) (ha : a < 2^w) : toSigned w a < 0 ↔ ¬ a < 2^(w-1) := by
  unfold toSigned
  have c := cast_two_pow w
  split <;> omega

theorem toSigned_natAbs_lt (w a : Nat) (hw : 1 ≤ w) (ha : a < 2^w) : (toSigned w a).natAbs < 2^w := by
  have h2 := two_pow_succ' w hw
  have c := cast_two_pow w
  unfold toSigned
  split <;> omega

/-- what the `Abs` mux delivers on an `aw`-bit result wire -/
theorem abs_core (aw a : Nat) (hw : 1 ≤ aw) (ha : a < 2^aw) :
    (if ¬ a < 2^(aw-1) then put aw (-(a:Int)) else a) = (toSigned aw a).natAbs := by
  have h2 := two_pow_succ' aw hw
  have c := cast_two_pow aw
  unfold toSigned
  by_cases h : a < 2^(aw-1)
  · rw [if_neg (by omega), if_pos h]; omega
  · rw [if_pos h, if_neg h]
    have e : -(a:Int) = ((2^aw - a : Nat) : Int) + (-1) * (2:Int)^aw := by omega
    rw [e, put_add_mul, put_of_lt _ _ (by omega)]
    omega

/-- the four-NAND XOR on one-bit operands -/
theorem xor2_bits (x y : Nat) (hx : x < 2) (hy : y < 2) :
    Lib.ArithAux.xor2 1 1 1 x y = (if x = y then 0 else 1) := by
  have : x = 0 ∨ x = 1 := by omega
  have : y = 0 ∨ y = 1 := by omega
  rcases ‹x = 0 ∨ x = 1› with rfl | rfl <;> rcases ‹y = 0 ∨ y = 1› with rfl | rfl <;> decide

theorem tdiv_signs (x y : Int) :
    Int.tdiv x y = if (x < 0 ↔ y < 0) then ((x.natAbs / y.natAbs : Nat) : Int)
                   else -((x.natAbs / y.natAbs : Nat) : Int) := by
  rcases Int.natAbs_eq x with hx | hx <;> rcases Int.natAbs_eq y with hy | hy
  all_goals
    generalize x.natAbs = m at *
    generalize y.natAbs = n at *
    subst hx hy
  · rw [if_pos (by omega)]; rfl
  · rw [Int.tdiv_neg, ← Int.ofNat_tdiv]
    by_cases hn : n = 0
    · subst hn; simp
    · rw [if_neg (by omega)]
  · rw [Int.neg_tdiv, ← Int.ofNat_tdiv]
    by_cases hm : m = 0
    · subst hm; simp
    · rw [if_neg (by omega)]
  · rw [Int.neg_tdiv_neg, ← Int.ofNat_tdiv]
    by_cases hm : m = 0
    · subst hm; simp
    · by_cases hn : n = 0
      · subst hn; simp
      · rw [if_pos (by omega)]

end C07
