import Py4hwV.Verilog.WF
/-
  C03 helper development: the executable occurrence lists of WF.lean coincide with the inductive occurrence relations,
  and the two list facts every rule proof uses.
-/
namespace V.WF

theorem need_nil (c : Bool) (e : Err) : need c e = [] ↔ c = true := by
  cases c <;> simp [need]

theorem need_decide_nil (p : Prop) [Decidable p] (e : Err) : need (decide p) e = [] ↔ p := by
  rw [need_nil]; exact decide_eq_true_iff

theorem flatMap_nil {α β : Type} (l : List α) (f : α → List β) : l.flatMap f = [] ↔ ∀ x ∈ l, f x = [] :=
  List.flatMap_eq_nil_iff

theorem isKeyword_false (n : String) : (!isKeyword n) = true ↔ n ∉ keywords := by
  simp [isKeyword]

theorem mem_exprIds (e : Expr) (n : String) : n ∈ exprIds e ↔ ExprUses e n := by
  constructor
  · intro h
    induction e with
    | id m => simp [exprIds] at h; subst h; exact .id _
    | num => simp [exprIds] at h
    | un op e ih => exact .un (ih h)
    | bin op a b iha ihb =>
      simp only [exprIds, List.mem_append] at h
      rcases h with h | h
      · exact .binL (iha h)
      · exact .binR (ihb h)
    | tern c a b ihc iha ihb =>
      simp only [exprIds, List.mem_append] at h
      rcases h with h | h | h
      · exact .ternC (ihc h)
      · exact .ternA (iha h)
      · exact .ternB (ihb h)
    | cat a b iha ihb =>
      simp only [exprIds, List.mem_append] at h
      rcases h with h | h
      · exact .catL (iha h)
      · exact .catR (ihb h)
    | cat1 a ih => exact .cat1 (ih h)
    | rep k e ih => exact .rep (ih h)
    | idx m i ih =>
      simp only [exprIds, List.mem_cons] at h
      rcases h with h | h
      · subst h; exact .idxN _ _
      · exact .idxI (ih h)
    | rng m hi lo => simp [exprIds] at h; subst h; exact .rng _ _ _
    | sgn e ih => exact .sgn (ih h)
    | usg e ih => exact .usg (ih h)
  · intro h
    induction h with
    | id n => simp [exprIds]
    | un _ ih => simpa [exprIds] using ih
    | binL _ ih => simp [exprIds, ih]
    | binR _ ih => simp [exprIds, ih]
    | ternC _ ih => simp [exprIds, ih]
    | ternA _ ih => simp [exprIds, ih]
    | ternB _ ih => simp [exprIds, ih]
    | catL _ ih => simp [exprIds, ih]
    | catR _ ih => simp [exprIds, ih]
    | cat1 _ ih => simpa [exprIds] using ih
    | rep _ ih => simpa [exprIds] using ih
    | idxN n i => simp [exprIds]
    | idxI _ ih => simp [exprIds, ih]
    | rng n hi lo => simp [exprIds]
    | sgn _ ih => simpa [exprIds] using ih
    | usg _ ih => simpa [exprIds] using ih

theorem mem_lhsIds (l : LHS) (n : String) : n ∈ lhsIds l ↔ LhsUses l n := by
  constructor
  · intro h
    cases l with
    | lid m => simp [lhsIds] at h; subst h; exact .name (.lid _)
    | lidx m i =>
      simp only [lhsIds, List.mem_cons] at h
      rcases h with h | h
      · subst h; exact .name (.lidx _ _)
      · exact .idx ((mem_exprIds _ _).1 h)
    | lrng m hi lo => simp [lhsIds] at h; subst h; exact .name (.lrng _ _ _)
  · intro h
    cases h with
    | name => cases l <;> simp [lhsIds, LHS.name]
    | idx h => simp [lhsIds, (mem_exprIds _ _).2 h]

theorem mem_stmtIds (s : Stmt) (n : String) : n ∈ stmtIds s ↔ StmtUses s n := by
  constructor
  · intro h
    induction s with
    | skip => simp [stmtIds] at h
    | seq a b iha ihb =>
      simp only [stmtIds, List.mem_append] at h
      rcases h with h | h
      · exact .seqL (iha h)
      · exact .seqR (ihb h)
    | ife c t e iht ihe =>
      simp only [stmtIds, List.mem_append] at h
      rcases h with h | h | h
      · exact .ifC ((mem_exprIds _ _).1 h)
      · exact .ifT (iht h)
      · exact .ifE (ihe h)
    | nba l e =>
      simp only [stmtIds, List.mem_append] at h
      rcases h with h | h
      · exact .nbaL ((mem_lhsIds _ _).1 h)
      · exact .nbaR ((mem_exprIds _ _).1 h)
    | ba l e =>
      simp only [stmtIds, List.mem_append] at h
      rcases h with h | h
      · exact .baL ((mem_lhsIds _ _).1 h)
      · exact .baR ((mem_exprIds _ _).1 h)
    | case e ch ih =>
      simp only [stmtIds, List.mem_append] at h
      rcases h with h | h
      · exact .caseE ((mem_exprIds _ _).1 h)
      · exact .caseC (ih h)
    | arm v s r ihs ihr =>
      simp only [stmtIds, List.mem_append] at h
      rcases h with h | h | h
      · exact .armV ((mem_exprIds _ _).1 h)
      · exact .armS (ihs h)
      · exact .armR (ihr h)
    | dflt s ih => exact .dflt (ih h)
  · intro h
    induction h with
    | seqL _ ih => simp [stmtIds, ih]
    | seqR _ ih => simp [stmtIds, ih]
    | ifC h => simp [stmtIds, (mem_exprIds _ _).2 h]
    | ifT _ ih => simp [stmtIds, ih]
    | ifE _ ih => simp [stmtIds, ih]
    | nbaL h => simp [stmtIds, (mem_lhsIds _ _).2 h]
    | nbaR h => simp [stmtIds, (mem_exprIds _ _).2 h]
    | baL h => simp [stmtIds, (mem_lhsIds _ _).2 h]
    | baR h => simp [stmtIds, (mem_exprIds _ _).2 h]
    | caseE h => simp [stmtIds, (mem_exprIds _ _).2 h]
    | caseC _ ih => simp [stmtIds, ih]
    | armV h => simp [stmtIds, (mem_exprIds _ _).2 h]
    | armS _ ih => simp [stmtIds, ih]
    | armR _ ih => simp [stmtIds, ih]
    | dflt _ ih => simpa [stmtIds] using ih

theorem mem_stmtTargets (s : Stmt) (n : String) : n ∈ stmtTargets s ↔ StmtAssigns s n := by
  constructor
  · intro h
    induction s with
    | skip => simp [stmtTargets] at h
    | seq a b iha ihb =>
      simp only [stmtTargets, List.mem_append] at h
      rcases h with h | h
      · exact .seqL (iha h)
      · exact .seqR (ihb h)
    | ife c t e iht ihe =>
      simp only [stmtTargets, List.mem_append] at h
      rcases h with h | h
      · exact .ifT (iht h)
      · exact .ifE (ihe h)
    | nba l e => simp [stmtTargets] at h; subst h; exact .nba _ _
    | ba l e => simp [stmtTargets] at h; subst h; exact .ba _ _
    | case e ch ih => exact .caseC (ih h)
    | arm v s r ihs ihr =>
      simp only [stmtTargets, List.mem_append] at h
      rcases h with h | h
      · exact .armS (ihs h)
      · exact .armR (ihr h)
    | dflt s ih => exact .dflt (ih h)
  · intro h
    induction h with
    | seqL _ ih => simp [stmtTargets, ih]
    | seqR _ ih => simp [stmtTargets, ih]
    | ifT _ ih => simp [stmtTargets, ih]
    | ifE _ ih => simp [stmtTargets, ih]
    | nba l e => simp [stmtTargets]
    | ba l e => simp [stmtTargets]
    | caseC _ ih => simpa [stmtTargets] using ih
    | armS _ ih => simp [stmtTargets, ih]
    | armR _ ih => simp [stmtTargets, ih]
    | dflt _ ih => simpa [stmtTargets] using ih

theorem mem_itemIds (it : Item) (n : String) : n ∈ itemIds it ↔ ItemUses it n := by
  constructor
  · intro h
    cases it with
    | wire => simp [itemIds] at h
    | reg r w init =>
      cases init with
      | none => simp [itemIds, optIds] at h
      | some e => exact .regInit ((mem_exprIds _ _).1 (by simpa [itemIds, optIds] using h))
    | mem => simp [itemIds] at h
    | int r init =>
      cases init with
      | none => simp [itemIds, optIds] at h
      | some e => exact .intInit ((mem_exprIds _ _).1 (by simpa [itemIds, optIds] using h))
    | assign l e =>
      simp only [itemIds, List.mem_append] at h
      rcases h with h | h
      · exact .assignL ((mem_lhsIds _ _).1 h)
      · exact .assignR ((mem_exprIds _ _).1 h)
    | always ev s =>
      simp only [itemIds, List.mem_append] at h
      rcases h with h | h
      · exact .event h
      · exact .always ((mem_stmtIds _ _).1 h)
    | initial s => exact .initial ((mem_stmtIds _ _).1 h)
    | inst mn i ps cs =>
      simp only [itemIds, List.mem_append, List.mem_flatMap] at h
      rcases h with ⟨p, hp, h⟩ | ⟨c, hc, h⟩
      · exact .param hp ((mem_exprIds _ _).1 h)
      · exact .conn hc ((mem_exprIds _ _).1 h)
  · intro h
    cases h with
    | regInit h => simpa [itemIds, optIds] using (mem_exprIds _ _).2 h
    | intInit h => simpa [itemIds, optIds] using (mem_exprIds _ _).2 h
    | assignL h => simp [itemIds, (mem_lhsIds _ _).2 h]
    | assignR h => simp [itemIds, (mem_exprIds _ _).2 h]
    | event h => simp [itemIds, h]
    | always h => simp [itemIds, (mem_stmtIds _ _).2 h]
    | initial h => simpa [itemIds] using (mem_stmtIds _ _).2 h
    | param hp h =>
      simp only [itemIds, List.mem_append, List.mem_flatMap]
      exact .inl ⟨_, hp, (mem_exprIds _ _).2 h⟩
    | conn hc h =>
      simp only [itemIds, List.mem_append, List.mem_flatMap]
      exact .inr ⟨_, hc, (mem_exprIds _ _).2 h⟩

theorem mem_uses (m : Module) (n : String) : n ∈ uses m ↔ Used m n := by
  simp only [uses, List.mem_flatMap, Used]
  constructor
  · rintro ⟨it, hit, h⟩; exact ⟨it, hit, (mem_itemIds _ _).1 h⟩
  · rintro ⟨it, hit, h⟩; exact ⟨it, hit, (mem_itemIds _ _).2 h⟩

end V.WF
