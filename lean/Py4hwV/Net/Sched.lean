/-
  Model of `Simulator.topologicalSort` / `findFirstDependentPosition` (py4hw/simulation.py:67-174), literal.

  Propagatable leaves are numbered by their position in `allLeaves()` order (the initial list is [0,…,n-1] when every
  leaf is propagatable; in general it is the sub-list of propagatable leaf ids).  `succs u` = the propagatable
  sinks of u's output wires, in the order the Python collects them (ports, then sinks of each wire), duplicates kept.
-/
namespace Sched

/-- `list.index(x)` -/
def idx (l : List Nat) (x : Nat) : Nat := l.idxOf x

/-- `findFirstDependentPosition`: `none` is the Python -1 -/
def ffdp (succs : Nat → List Nat) (l : List Nat) (u : Nat) : Option Nat :=
  match succs u with
  | [] => none
  | s0 :: rest => some ((s0 :: rest).foldl (fun m s => if idx l s < m then idx l s else m) (idx l s0))

/-- exchange positions i and j -/
def swapAt (l : List Nat) (i j : Nat) : List Nat := (l.set i (l.getD j 0)).set j (l.getD i 0)

/-- body of `for i in range(len(self.propagatables))`; `none` = Exception('Combinational loop in …')
    (raised when the first dependent of the leaf at position i is the leaf itself) -/
def passStep (succs : Nat → List Nat) (st : Option (List Nat × Bool)) (i : Nat) : Option (List Nat × Bool) :=
  match st with
  | none => none
  | some st =>
    match ffdp succs st.1 (st.1.getD i 0) with
    | some pos => if pos = i then none else if pos < i then some (swapAt st.1 pos i, true) else some st
    | none => some st

/-- one sweep; the flag is `anyChange` -/
def onePass (succs : Nat → List Nat) (l : List Nat) : Option (List Nat × Bool) :=
  (List.range l.length).foldl (passStep succs) (some (l, false))

/-- `while anyChange` with the pass counter: `fuel` = passes still allowed;
    `none` = an exception ('Excessive loop count in topological count' or 'Combinational loop in …') -/
def sortLoop (succs : Nat → List Nat) : Nat → List Nat → Option (List Nat)
  | 0, _ => none
  | fuel + 1, l =>
    match onePass succs l with
    | none => none
    | some r => if r.2 then sortLoop succs fuel r.1 else some r.1

def topoSort (limit : Nat) (succs : Nat → List Nat) (l : List Nat) : Option (List Nat) := sortLoop succs limit l

/-- the pass limit as written in the source: `maxloops = max(1000, len(self.propagatables) + 1)` -/
def codeLimit (n : Nat) : Nat := max 1000 (n + 1)

/-- `Simulator.topologicalSort` on the propagatable leaves `l` -/
def topoSortCode (succs : Nat → List Nat) (l : List Nat) : Option (List Nat) := topoSort (codeLimit l.length) succs l

/-- number of passes used (for the evidence / conjecture tracking) -/
def passesUsed (succs : Nat → List Nat) : Nat → List Nat → Nat
  | 0, _ => 0
  | fuel + 1, l =>
    match onePass succs l with
    | none => 1
    | some r => if r.2 then 1 + passesUsed succs fuel r.1 else 1

end Sched
