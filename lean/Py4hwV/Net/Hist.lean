import Py4hwV.Net.Sim
import Py4hwV.Net.Sched
/-
  C04 — the simulator over a whole HISTORY of public operations, at netlist level.

  `Net.Sim` runs a design whose evaluation order is given; `Sched` sorts a dependency graph.  Here the two are put together
  the way `Simulator.__init__` / `HWSystem.getSimulator()` (py4hw/simulation.py:28-57, py4hw/base.py:737-752) do:

    * `Hier` is what the object graph holds at one moment, as the simulator reads it: the propagatable leaves in
      `allLeaves()` order, the dependents of every leaf as `findFirstDependentPosition` collects them from `Wire.sinks`,
      the clock drivers — plus what the PROPERTY speaks about: the wires on each leaf's input and output ports and which
      leaves are *stateless combinational blocks* (`comb`).  Every other propagatable (a Latch, an AsynchronousMemory, a Div
      that draws a random number on division by zero, a user block that counts its own calls) is a propagatable WITH state:
      it is scheduled and evaluated exactly like the others, the property claims nothing about the wires it drives.
    * `Hier.schedule` = `topologicalSort`: `none` is the exception ('Combinational loop in …' / 'Excessive loop count …').
    * a session is created (`create`: sort, then `propagateAll`), then any sequence of
        poke w v          a test bench calls `wire.put(v)` on ANY wire (inputs, but also combinationally driven ones)
        clk n             `sim.clk(n)`: `propagateAll`, then n × (`clock` every enabled domain, `settleAll`, `propagateAll`)
        extend h fresh cons
                          blocks (and wires) are added to the hierarchy AFTER the simulator exists — `fresh` are the initial
                          attribute values of the new leaves, `cons` the values their constructors `put` (Reg puts its reset
                          value on q) — followed by `getSimulator()`, which re-sorts the whole new object graph and does
                          NOT propagate (the values settle at the next `clk`).
-/
namespace Net

variable {σ : Type}

structure Hier (σ : Type) where
  width   : Nat → Nat
  leaf    : Nat → LeafSem σ
  props   : List Nat            -- propagatable leaves, `allLeaves()` order
  succs   : Nat → List Nat      -- propagatable sinks of the leaf's output wires, as collected from `Wire.sinks`
  drivers : List Driver
  reads   : Nat → List Nat      -- wires on the leaf's input ports
  writes  : Nat → List Nat      -- wires on the leaf's output ports
  comb    : Nat → Bool          -- the leaf is a stateless combinational block

/-- `Simulator.topologicalSort` on the object graph; `none` = it raised -/
def Hier.schedule (h : Hier σ) : Option (Design σ) :=
  (Sched.topoSortCode h.succs h.props).map fun o =>
    { width := h.width, leaf := h.leaf, order := o, drivers := h.drivers }

structure Sess (σ : Type) where
  h : Hier σ
  d : Design σ        -- `Simulator.propagatables` / `clockDrivers` as last computed
  s : State σ

inductive HOp (σ : Type) where
  | poke (w : Nat) (v : Int)
  | clk (n : Nat)
  | extend (h : Hier σ) (fresh : List (Nat × σ)) (cons : List (Nat × Int))

/-- `HWSystem.getSimulator()` for the first time: `Simulator.__init__` = sort, then `propagateAll` -/
def create (h : Hier σ) (st0 : Nat → σ) (cons : List (Nat × Int)) : Option (Sess σ) :=
  h.schedule.map fun d => { h := h, d := d, s := initC d st0 cons }

/-- the new leaves' attributes, then the values their constructors put -/
def extendS (d' : Design σ) (s : State σ) (fresh : List (Nat × σ)) (cons : List (Nat × Int)) : State σ :=
  cons.foldl (putW d') { s with st := fresh.foldl (fun f p => upd f p.1 p.2) s.st }

def stepH (ss : Sess σ) : HOp σ → Option (Sess σ)
  | .poke w v => some { ss with s := putW ss.d ss.s (w, v) }
  | .clk n => some { ss with s := clk ss.d n ss.s }
  | .extend h fresh cons => h.schedule.map fun d' => { h := h, d := d', s := extendS d' ss.s fresh cons }

def runH (ss : Option (Sess σ)) (ops : List (HOp σ)) : Option (Sess σ) :=
  ops.foldl (fun o op => o.bind fun ss => stepH ss op) ss

/-- value landing on a wire of design `d` when `(wire, python int)` is put -/
def landed (d : Design σ) (wx : Nat × Int) : Nat := (Gen.Wire.put (d.width wx.1) wx.2).toNat

/-- **the property's state predicate**: every wire driven by a stateless combinational block holds the value that block
    computes from the CURRENT values of its inputs -/
def Sess.Settled (ss : Sess σ) : Prop :=
  ∀ k, k ∈ ss.d.order → ss.h.comb k = true →
    ∀ wx, wx ∈ ((ss.d.leaf k).prop ss.s.val (ss.s.st k)).2 → ss.s.val wx.1 = landed ss.d wx

/-- executable form of `Settled` for leaves with decidable behaviour (used by the driver as the oracle on OBSERVED values) -/
def settledB (d : Design σ) (comb : Nat → Bool) (val : Val) (st : Nat → σ) : Bool :=
  d.order.all fun k => !comb k || (((d.leaf k).prop val (st k)).2.all fun wx => val wx.1 == landed d wx)

end Net
