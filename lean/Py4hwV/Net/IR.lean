import Py4hwV.Net.Sim
import Py4hwV.Gen.Dispatch
/-
  Concrete netlists exported from live py4hw object graphs by harness/dump_ir.py, executed with the
  *generated* leaf functions.  Leaf state is the positional `List (List Int)` of `Gen.<K>.dyn`.
-/
namespace Net

structure LeafInst where
  kind   : String
  cfg    : List (List Int)
  ins    : List Nat            -- wire ids, order of `Gen.<K>.inNames`   (0 = the null wire for absent optional ports)
  inls   : List (List Nat)     -- wire-list inputs
  outs   : List Nat            -- wire ids, order of `Gen.<K>.outNames`
  outls  : List (List Nat)
  st0    : List (List Int)
  isProp : Bool
  isClk  : Bool
deriving Repr, Inhabited

abbrev LSt := List (List Int)

def zipPuts (ws : List Nat) (vs : List (Option Int)) : List (Nat × Int) :=
  (ws.zip vs).filterMap fun (w, v) => v.map fun x => (w, x)

def zipPutLs (wss : List (List Nat)) (vss : List (Option (List Int))) : List (Nat × Int) :=
  ((wss.zip vss).map fun (ws, vs) => match vs with
      | some l => ws.zip l
      | none => []).flatten

def LeafInst.call (width : Nat → Nat) (l : LeafInst) (v : Val) (s : LSt) : LSt × List (Nat × Int) :=
  let i := l.ins.map fun w => (v w : Int)
  let il := l.inls.map fun ws => ws.map fun w => ((width w : Int), (v w : Int))
  match Gen.dynStep l.kind l.cfg s i il with
  | some (s', o, ol) => (s', zipPuts l.outs o ++ zipPutLs l.outls ol)
  | none => (s, [])

def LeafInst.sem (width : Nat → Nat) (l : LeafInst) : LeafSem LSt :=
  { prop := fun v s => if l.isProp then l.call width v s else (s, []),
    clock := fun v s => if l.isClk then l.call width v s else (s, []) }

structure Netlist where
  widths  : List Nat               -- by wire id
  leaves  : List LeafInst          -- by leaf id
  order   : List Nat
  drivers : List Driver
deriving Inhabited

def Netlist.design (n : Netlist) : Design LSt :=
  let width := fun w => n.widths.getD w 1
  { width := width,
    leaf := fun k => ((n.leaves.getD k default).sem width),
    order := n.order, drivers := n.drivers }

def Netlist.st0 (n : Netlist) : Nat → LSt := fun k => (n.leaves.getD k default).st0

end Net
