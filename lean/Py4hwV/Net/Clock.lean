import Py4hwV.Net.Sim
/-
  Clock-driver lookup and grouping (py4hw/base.py getObjectClockDriver, simulation.py topologicalSort's
  `getOrCreateClockDriverSimulator` / `addClockable`).
-/
namespace Net

/-- `getObjectClockDriver(obj)`: `chain` lists the `clockDriver` attribute of obj, its parent, …, the root.
    `none` = the exception 'No clock driver at top level'. -/
def driverOf {D : Type} : List (Option D) → Option D
  | [] => none
  | some d :: _ => some d
  | none :: rest => driverOf rest

/-- dict insertion: append clockable `k` to the entry of driver `dv`, creating it at the end if absent -/
def addTo {D : Type} [DecidableEq D] (g : List (D × List Nat)) (dv : D) (k : Nat) : List (D × List Nat) :=
  match g with
  | [] => [(dv, [k])]
  | (d, l) :: rest => if d = dv then (d, l ++ [k]) :: rest else (d, l) :: addTo rest dv k

/-- the `clockDrivers` dict built by topologicalSort from the clockable leaves (in allLeaves order) -/
def group {D : Type} [DecidableEq D] (ls : List (D × Nat)) : List (D × List Nat) :=
  ls.foldl (fun g dk => addTo g dk.1 dk.2) []

def lookup {D : Type} [DecidableEq D] (g : List (D × List Nat)) (dv : D) : List Nat :=
  match g with
  | [] => []
  | (d, l) :: rest => if d = dv then l else lookup rest dv

end Net
