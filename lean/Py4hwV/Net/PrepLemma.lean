import Py4hwV.Net.Sim
import Py4hwV.Core.Bits
/-
  What `Wire.prepare` (generated from base.py) stores, for every width, every value and BOTH values of the
  "already prepared" flag: the masked value.  C05 (order independence) and C06 (range) both rest on this.
-/
namespace Net

theorem gen_wire_prepare_eq (w : Nat) (al v : Int) : Gen.Wire.prepare (w : Int) al v = ((Bits.put w v : Nat) : Int) := by
  simp only [Gen.Wire.prepare, Id.run, pure, Py.shlT, Int.toNat_natCast]
  rw [Bits.put_eq_land]
  split <;> rfl

variable {σ : Type}

theorem prepVal_eq (d : Design σ) (s : State σ) (wv : Nat × Int) : prepVal d s wv = Bits.put (d.width wv.1) wv.2 := by
  unfold prepVal
  rw [gen_wire_prepare_eq]
  simp

end Net
