import Py4hwV.Net.Sim
import Py4hwV.Core.Bits
/-
  C05 — commit phase of a clock edge, as SPEC and as MODEL (both executable; driver: Drv/C05.lean).

  `calls` is the sequence of `wire.prepare(value)` calls of one edge in execution order.  A wire may occur any number of
  times, in any positions (a BidirWire prepared by each of its drivers; a block that writes a default and overrides it).
-/
namespace C05
open Net

/-- the value most recently passed to `prepare` for wire `w` in the call list `ps` (`none`: `w` was not prepared) -/
def lastFor (ps : List (Nat × Int)) (w : Nat) : Option Int :=
  ps.foldl (fun acc wv => if wv.1 = w then some wv.2 else acc) none

/-- SPEC: after the edge a wire holds the last value prepared for it (masked to its width); a wire nobody prepared keeps
    its value -/
def commitSpec (width : Nat → Nat) (val : Val) (ps : List (Nat × Int)) : Val :=
  fun w => match lastFor ps w with
           | some v => Bits.put (width w) v
           | none => val w

def bareDesign (width : Nat → Nat) : Design Unit :=
  { width := width, leaf := fun _ => { prop := fun _ s => (s, []), clock := fun _ s => (s, []) }, order := [], drivers := [] }

/-- MODEL: the calls run through `Net.prepW` (= `Wire.prepare` / `BidirWire.prepare`: store `next`, append to the pending
    list — also when the wire is already in it), then `Net.settleAll` (= `for w in Wire.prepared: w.settle()`; `Wire.prepared = []`) -/
def commitModel (width : Nat → Nat) (val : Val) (ps : List (Nat × Int)) : State Unit :=
  settleAll (ps.foldl (prepW (bareDesign width))
    { val := val, nxt := fun _ => 0, prepared := [], st := fun _ => (), clks := 0 })

/-! ### `Simulator.clk` with `Simulator.stop()`

    def clk(self, cycles=1):
        self.propagateAll()
        self.do_run = True
        for i in range(cycles):
            if not(self.do_run): return        # cancelled by stop()
            self._clk_cycle()

  `stopReq s`: some block calls `stop()` from inside its `clock()` during the edge that starts in state `s`
  (`stop()` only clears `do_run`; the edge in progress completes). -/
variable {σ : Type}

/-- the cycle loop; `run` = `self.do_run` -/
def clkLoop (d : Design σ) (stopReq : State σ → Bool) : Nat → Bool → State σ → State σ
  | 0, _, s => s
  | n+1, run, s => if run then clkLoop d stopReq n (!stopReq s) (clkCycle d s) else s

/-- `Simulator.clk(n)` in the presence of `stop()` -/
def clkS (d : Design σ) (stopReq : State σ → Bool) (n : Nat) (s : State σ) : State σ :=
  clkLoop d stopReq n true (propagateAll d s)

/-- number of edges the loop simulates -/
def execCount (d : Design σ) (stopReq : State σ → Bool) : Nat → Bool → State σ → Nat
  | 0, _, _ => 0
  | n+1, run, s => if run then 1 + execCount d stopReq n (!stopReq s) (clkCycle d s) else 0

/-- executable instance for the driver: no wires, no blocks; a breakpoint block that calls `stop()` when the edge number
    (cycle counter + 1) is in `stops`.  Returns the cycle counter after each call of the list. -/
def stopRun (stops : List Nat) (c0 : Nat) (calls : List Nat) : List Nat :=
  let d := bareDesign (fun _ => 1)
  let q : State Unit → Bool := fun s => stops.contains (s.clks + 1)
  let s0 : State Unit := { val := fun _ => 0, nxt := fun _ => 0, prepared := [], st := fun _ => (), clks := c0 }
  (calls.foldl (fun (acc : State Unit × List Nat) n => let s' := clkS d q n acc.1; (s', acc.2 ++ [s'.clks])) (s0, [])).2

end C05
