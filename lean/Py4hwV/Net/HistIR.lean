import Py4hwV.Net.Hist
import Py4hwV.Net.IR
/-
  Concrete object graphs (`Net.IR` leaves running the GENERATED leaf functions) as `Net.Hist` hierarchies.

  `HNet` is what harness/c04.py exports from a live py4hw hierarchy: the leaves with their port wires (identified by object
  identity — two leaves in different parents may carry the same instance name), the propagatable leaves in `allLeaves()`
  order, the dependents of each leaf as the simulator collects them from `Wire.sinks`, the clock drivers.
  `reads`/`writes` are the wires on the ports; `comb` = propagatable and of a kind listed in `statelessKinds`
  (the library's stateless combinational blocks — Latch, AsynchronousMemory keep state inside propagate(), Div/Mod draw a
  random number on division by zero: they are propagatables WITH state / without a function, outside the claim).
-/
namespace Net

def statelessKinds : List String :=
  ["And2", "Or2", "Not", "Buf", "Bit", "BitsLSBF", "BitsMSBF", "Constant", "Mux2", "Repeat", "Range", "ShiftLeftConstant",
   "ShiftRightConstant", "RotateLeftConstant", "RotateRightConstant", "ConcatenateMSBF", "ConcatenateLSBF", "AddCarryIn",
   "Sub", "Mul", "SignedMul", "SignExtend", "ZeroExtend"]

def LeafInst.reads (l : LeafInst) : List Nat := l.ins ++ l.inls.flatten
def LeafInst.writes (l : LeafInst) : List Nat := l.outs ++ l.outls.flatten
def LeafInst.comb (l : LeafInst) : Bool := l.isProp && statelessKinds.contains l.kind

structure HNet where
  widths  : List Nat
  leaves  : List LeafInst
  props   : List Nat
  succs   : List (List Nat)
  drivers : List Driver
deriving Inhabited

def HNet.lf (n : HNet) (k : Nat) : LeafInst := n.leaves.getD k default

def HNet.hier (n : HNet) : Hier LSt :=
  { width := fun w => n.widths.getD w 1,
    leaf := fun k => (n.lf k).sem (fun w => n.widths.getD w 1),
    props := n.props, succs := fun u => n.succs.getD u [], drivers := n.drivers,
    reads := fun k => (n.lf k).reads, writes := fun k => (n.lf k).writes, comb := fun k => (n.lf k).comb }

def HNet.st0 (n : HNet) : Nat → LSt := fun k => (n.lf k).st0

/-- the hypotheses of `C04.history_settled` that are decidable on a concrete object graph: no leaf listed twice, a stateless
    block has pairwise distinct output wires, dependency discovery is complete (every propagatable driving a wire that a
    stateless block reads has that block among its collected sinks), every wire has a single driver -/
def HNet.wfB (n : HNet) : Bool :=
  decide n.props.Nodup &&
  (n.props.all fun k => decide (k < n.leaves.length)) &&
  (n.leaves.all fun l => !l.comb || decide l.writes.Nodup) &&
  (n.props.all fun u => n.props.all fun v =>
      !(n.lf v).comb || !((n.lf u).writes.any fun w => (n.lf v).reads.contains w) || (n.succs.getD u []).contains v) &&
  (n.props.all fun a => n.props.all fun b => a == b || (n.lf a).writes.all fun w => !(n.lf b).writes.contains w)

end Net
