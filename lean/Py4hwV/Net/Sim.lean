import Py4hwV.Gen.Helpers
/-
  Model of the cycle simulator (`py4hw/simulation.py` + the `Wire` two-phase update of `py4hw/base.py`).

  A leaf is an *arbitrary* pair of functions (that is what C05/C06/C10 quantify over):
    prop  : reads the current wire values and its own state, returns its new state and the list of
            `(wire, value)` it `put`s  (values are Python ints, before the wire mask)
    clock : same, the list is what it `prepare`s
  Model assumption (checked statically by the translator for every library leaf it translates): a leaf method
  reads wires only through `get()` (which never sees a value `prepare`d in the same edge) and does not read a
  wire it has `put` earlier in the same call.

  `putW`/`prepW` use `Gen.Wire.put` / `Gen.Wire.prepare`, i.e. the mask as written in base.py *today*.
-/
namespace Net

abbrev Val := Nat → Nat

def upd {α : Type} (f : Nat → α) (k : Nat) (v : α) : Nat → α := fun j => if j = k then v else f j

@[simp] theorem upd_same {α} (f : Nat → α) (k v) : upd f k v k = v := by simp [upd]
@[simp] theorem upd_other {α} (f : Nat → α) (k v j) (h : j ≠ k) : upd f k v j = f j := by simp [upd, h]

structure LeafSem (σ : Type) where
  prop  : Val → σ → σ × List (Nat × Int)
  clock : Val → σ → σ × List (Nat × Int)

/-- one clock driver as the simulator sees it: optional enable wire, clockables in visiting order -/
structure Driver where
  enable : Option Nat
  clockables : List Nat

structure Design (σ : Type) where
  width   : Nat → Nat
  leaf    : Nat → LeafSem σ
  order   : List Nat          -- `Simulator.propagatables`
  drivers : List Driver       -- `Simulator.clockDrivers` in dict order

structure State (σ : Type) where
  val      : Val               -- Wire.value
  nxt      : Val               -- Wire.next
  prepared : List Nat          -- Wire.prepared
  st       : Nat → σ           -- leaf attributes
  clks     : Nat               -- Simulator.total_clks

variable {σ : Type}

/-- `Wire.put` -/
def putW (d : Design σ) (s : State σ) (wv : Nat × Int) : State σ :=
  { s with val := upd s.val wv.1 (Gen.Wire.put (d.width wv.1) wv.2).toNat }

/-- value stored in `Wire.next` by `prepare`; the generated code sees whether the wire is already in `Wire.prepared` -/
def prepVal (d : Design σ) (s : State σ) (wv : Nat × Int) : Nat :=
  (Gen.Wire.prepare (d.width wv.1) (if wv.1 ∈ s.prepared then 1 else 0) wv.2).toNat

/-- `Wire.prepare` -/
def prepW (d : Design σ) (s : State σ) (wv : Nat × Int) : State σ :=
  { s with nxt := upd s.nxt wv.1 (prepVal d s wv), prepared := s.prepared ++ [wv.1] }

/-- call `propagate()` of leaf `k` -/
def propLeaf (d : Design σ) (s : State σ) (k : Nat) : State σ :=
  let r := (d.leaf k).prop s.val (s.st k)
  r.2.foldl (putW d) { s with st := upd s.st k r.1 }

/-- `Simulator.propagateAll` -/
def propagateAll (d : Design σ) (s : State σ) : State σ := d.order.foldl (propLeaf d) s

/-- call `clock()` of leaf `k` -/
def clockLeaf (d : Design σ) (s : State σ) (k : Nat) : State σ :=
  let r := (d.leaf k).clock s.val (s.st k)
  r.2.foldl (prepW d) { s with st := upd s.st k r.1 }

/-- `Wire.settleAll` -/
def settleAll (s : State σ) : State σ :=
  { s with val := s.prepared.foldl (fun v w => upd v w (s.nxt w)) s.val, prepared := [] }

def enabled (v : Val) (e : Option Nat) : Bool :=
  match e with
  | none => true
  | some w => v w != 0

/-- the loop over clock drivers in `_clk_cycle` -/
def clockDrivers (d : Design σ) (s : State σ) (ds : List Driver) : State σ :=
  ds.foldl (fun s dr => if enabled s.val dr.enable then dr.clockables.foldl (clockLeaf d) s else s) s

/-- `Simulator._clk_cycle` (listeners are observers: see `Props/C06`) -/
def clkCycle (d : Design σ) (s : State σ) : State σ :=
  let s1 := clockDrivers d s d.drivers
  let s2 := settleAll s1
  let s3 := propagateAll d s2
  { s3 with clks := s3.clks + 1 }

def iter {α : Type} (f : α → α) : Nat → α → α
  | 0, a => a
  | n+1, a => iter f n (f a)

/-- `Simulator.clk(n)` -/
def clk (d : Design σ) (n : Nat) (s : State σ) : State σ := iter (clkCycle d) n (propagateAll d s)

/-- power-up: every wire 0, nothing prepared; constructors may `put` initial values (Reg puts its reset value on q:
    `cons`); `Simulator.__init__` then runs `propagateAll` -/
def initC (d : Design σ) (st0 : Nat → σ) (cons : List (Nat × Int)) : State σ :=
  propagateAll d (cons.foldl (putW d) { val := fun _ => 0, nxt := fun _ => 0, prepared := [], st := st0, clks := 0 })

def init (d : Design σ) (st0 : Nat → σ) : State σ := initC d st0 []

/-- what a user can do between observations -/
inductive Op where
  | poke (w : Nat) (v : Int)     -- `wire.put(v)` from a test bench
  | clk (n : Nat)                -- `sim.clk(n)`
  | resort                       -- `getSimulator()` again: re-sort (order unchanged for a fixed design) — identity here

def applyOp (d : Design σ) (s : State σ) : Op → State σ
  | .poke w v => putW d s (w, v)
  | .clk n => clk d n s
  | .resort => s

def run (d : Design σ) (st0 : Nat → σ) (ops : List Op) : State σ := ops.foldl (applyOp d) (init d st0)

/-- a run of a design whose constructors put initial values -/
def runC (d : Design σ) (st0 : Nat → σ) (cons : List (Nat × Int)) (ops : List Op) : State σ :=
  ops.foldl (applyOp d) (initC d st0 cons)

end Net
