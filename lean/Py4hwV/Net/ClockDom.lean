import Py4hwV.Net.Clock
/-
  Clock DOMAINS: `ClockDriver` objects with all their attributes (py4hw/base.py class ClockDriver), the lookup
  `getObjectClockDriver` over an object tree, and the `clockDrivers` dict that `Simulator.topologicalSort` builds from it
  (simulation.py:86-95, 131-136) and `_clk_cycle` iterates (simulation.py:216-221).

  A `ClockDriver` is a Python object: it has an identity (`obj`, what the dict hashes on — the class defines neither `__eq__`
  nor `__hash__`) and attributes.  The functions below receive the WHOLE record, i.e. they could look at `name`, `base`, `wire`
  like the Python code could; that they do not is a theorem (Props/C10Dom.lean), not a modelling shortcut.
-/
namespace Net

/-- one `ClockDriver` object -/
structure Drv where
  obj    : Nat              -- identity of the object (`id(drv)`)
  name   : String           -- `drv.name`
  base   : Option Nat       -- identity of `drv.base` (None = a root clock)
  wire   : Option Nat       -- identity of the clock `Wire` object `drv.wire` (None = no clock net declared)
  enable : Option Nat       -- `drv.enable`: index of the enable wire in the design (None = free running)
deriving DecidableEq, Repr

/-! ### the object tree -/

/-- the part of the `Logic` object graph that `getObjectClockDriver` reads: `obj.parent`, `obj.clockDriver` -/
structure Hier where
  parent : Nat → Option Nat
  drv    : Nat → Option Drv

/-- `getObjectClockDriver(obj)` (base.py:955-980), transcribed; the recursion on `obj.parent` is bounded by `fuel`
    (≥ depth of `obj`); `none` = the exception 'No clock driver at top level' (or fuel exhausted). -/
def getObjectClockDriver (h : Hier) : Nat → Nat → Option Drv
  | fuel, o =>
    match h.drv o with
    | some d => some d                                   -- if (obj.clockDriver != None): return obj.clockDriver
    | none =>
      match h.parent o, fuel with
      | none, _ => none                                  -- if (obj.parent == None): raise Exception(...)
      | some _, 0 => none
      | some p, fuel + 1 => getObjectClockDriver h fuel p  -- return getObjectClockDriver(obj.parent)

/-- the `clockDriver` attributes met on the way from `o` to the root -/
def chainOf (h : Hier) : Nat → Nat → List (Option Drv)
  | fuel, o =>
    h.drv o :: match h.parent o, fuel with
      | none, _ => []
      | some _, 0 => []
      | some p, fuel + 1 => chainOf h fuel p

/-! ### the `clockDrivers` dict of the simulator -/

/-- `getOrCreateClockDriverSimulator(drv).addClockable(leaf)`: the dict is keyed by the driver OBJECT; a new key goes last;
    the `ClockDriverSimulator` keeps the driver object it was created for -/
def addDom (g : List (Drv × List Nat)) (dv : Drv) (k : Nat) : List (Drv × List Nat) :=
  match g with
  | [] => [(dv, [k])]
  | (d, l) :: rest => if d.obj = dv.obj then (d, l ++ [k]) :: rest else (d, l) :: addDom rest dv k

/-- the loop of `topologicalSort` over the clockable leaves `(leaf index, chain of clockDriver attributes up to the root)` in
    `allLeaves()` order; `none` = `getObjectClockDriver` raised for some leaf -/
def domainsFrom : List (Nat × List (Option Drv)) → List (Drv × List Nat) → Option (List (Drv × List Nat))
  | [], g => some g
  | (k, chain) :: ls, g =>
    match driverOf chain with
    | none => none
    | some dv => domainsFrom ls (addDom g dv k)

def domains (ls : List (Nat × List (Option Drv))) : Option (List (Drv × List Nat)) := domainsFrom ls []

/-- what `_clk_cycle` reads of a domain: `drv.enable` of the key, the clockables of the value -/
def simDrivers (g : List (Drv × List Nat)) : List Driver :=
  g.map fun dl => { enable := dl.1.enable, clockables := dl.2 }

/-- the clockables registered under driver object `o` -/
def lookupDom (g : List (Drv × List Nat)) (o : Nat) : List Nat :=
  match g with
  | [] => []
  | (d, l) :: rest => if d.obj = o then l else lookupDom rest o

/-- the identity of the driver a leaf with this chain belongs to -/
def leafObj (chain : List (Option Drv)) : Option Nat := (driverOf chain).map Drv.obj

end Net
