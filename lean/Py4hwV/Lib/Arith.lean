import Py4hwV.Lib.LeafArith
/-
  C07 — functional models of the constructors of py4hw/logic/arithmetic.py (and the constant shift / rotate
  leaves of bitwise.py), ONE definition per constructor, SAME recursion as the Python constructor, every internal
  wire with the width the constructor gives it, over the `Leaf.*` reference semantics of the primitive leaves.
  Values are naturals (wire contents); `?w` arguments are wire widths.  `…Legal` = the constructor (and the first
  propagation, which `getSimulator()` runs) does not raise.
-/
namespace Lib
open Leaf

/-! private copies of the two gates of bitwise.py that SignedDiv / CountLeadingZeros instantiate (C08 owns the
    real models in Lib/Bitwise.lean; these are kept separate so that the two developments do not depend on
    each other) -/
namespace ArithAux
/-- `Nand2`: `Mid` has the width of `a` -/
def nand2 (aw rw a b : Nat) : Nat := Leaf.not1 rw (Leaf.and2 aw a b)
/-- `Xor2` from four `Nand2`; `Mid`, `XOut`, `YOut` have the width of `a` -/
def xor2 (aw bw rw a b : Nat) : Nat :=
  let mid := nand2 aw aw a b
  let xout := nand2 aw aw a mid
  let yout := nand2 bw aw b mid
  nand2 aw rw xout yout
/-- `And(ins, r)`: 1 input → Buf, otherwise a ladder of And2 on wires of the width of `r` -/
def andN (rw : Nat) : List Nat → Nat
  | [] => 0
  | [a] => Leaf.buf rw a
  | a :: rest => rest.foldl (fun auxin x => Leaf.and2 rw auxin x) a
/-- `Or(ins, r)` -/
def orN (rw : Nat) : List Nat → Nat
  | [] => 0
  | [a] => Leaf.buf rw a
  | a :: rest => rest.foldl (fun auxin x => Leaf.or2 rw auxin x) a
end ArithAux

/-! ### Add / SignedAdd / Sub / SignedSub / Neg / Sign / Abs -/

/-- `Add(a, b, r, ci=None, co=None)` arithmetic.py:13-66.  `ci = none`: an internal 1-bit wire driven by `Constant 0`.
    `cow = 0`: no carry out; otherwise `pre_r` is `rw+1` bits wide, `r = Range(pre_r, rw-1, 0)`, `co = Bit(pre_r, rw)`
    on a `cow`-bit wire.  Returns `(r, co)`. -/
def add (rw cow : Nat) (a b : Nat) (ci : Option Nat) : Nat × Nat :=
  let civ := match ci with
    | none => Leaf.const 1 0
    | some c => c
  if cow = 0 then (Leaf.addc rw a b civ, 0)
  else
    let pre_r := Leaf.addc (rw + 1) a b civ
    (Leaf.range rw pre_r (rw - 1) 0, Leaf.bit cow pre_r rw)

/-- AddCarryIn asserts `r.getWidth() >= a.getWidth()`; `width_check` adds the assertions of lines 57/61 -/
def addLegal (aw bw rw cow : Nat) (widthCheck : Bool) : Bool :=
  if cow = 0 then decide (aw ≤ rw) && (!widthCheck || decide (max aw bw ≤ rw))
  else decide (aw ≤ rw + 1) && (!widthCheck || decide (rw = max aw bw + 1))

/-- `SignedAdd` arithmetic.py:80-135: sign-extend whichever operand is narrower than `r`, then `Add(…, width_check=False)` -/
def signedAdd (aw bw rw cow : Nat) (a b : Nat) (ci : Option Nat) : Nat × Nat :=
  let sa := if rw > aw then Leaf.sext rw aw a else a
  let sb := if rw > bw then Leaf.sext rw bw b else b
  add rw cow sa sb ci

def signedAddLegal (aw bw rw : Nat) : Bool := decide (aw ≤ rw) && decide (bw ≤ rw)

/-- `Sub` is a primitive -/
def sub (rw a b : Nat) : Nat := Leaf.sub rw a b

/-- `SignedSub` arithmetic.py:601-665: `sa + ~sb + 1` with the `1` on the carry input -/
def signedSub (aw bw rw : Nat) (a b : Nat) : Nat :=
  let sa := if rw > aw then Leaf.sext rw aw a else a
  let sb := if rw > bw then Leaf.sext rw bw b else b
  let not_sb := Leaf.not1 rw sb
  let add_ci := Leaf.const 1 1
  (add rw 0 sa not_sb (some add_ci)).1

def signedSubLegal (aw bw rw : Nat) : Bool := decide (aw ≤ rw) && decide (bw ≤ rw)

/-- `Neg` arithmetic.py:212-235: `Sub(zero, a, r)` with `zero` of the width of `r` -/
def neg (rw a : Nat) : Nat :=
  let zero := Leaf.const rw 0
  Leaf.sub rw zero a

/-- `Sign` arithmetic.py:244-269: `Bit(a, aw-1)` (asserts a 1-bit result; `rw` kept for `Abs`'s `inverted` port) -/
def sign (aw rw a : Nat) : Nat := Leaf.bit rw a (aw - 1)
def signLegal (rw : Nat) : Bool := decide (rw = 1)

/-- `Abs(a, r, inverted=None)` arithmetic.py:172-203: `s = Sign(a)` (on `inverted` or an internal 1-bit wire),
    `neg = Neg(a)` on `aw` bits, `r = Mux2(s, a, neg)`.  `iw = 0`: no `inverted` port.  Returns `(r, inverted)`. -/
def abs (aw rw iw : Nat) (a : Nat) : Nat × Nat :=
  let s := sign aw (if iw = 0 then 1 else iw) a
  let ng := neg aw a
  (Leaf.mux2 rw s a ng, s)
def absLegal (iw : Nat) : Bool := decide (iw ≤ 1)

/-! ### extensions, multiply, divide -/

def signExtend (aw rw a : Nat) : Nat := Leaf.sext rw aw a
def zeroExtend (rw a : Nat) : Nat := Leaf.zext rw a
def mul (rw a b : Nat) : Nat := Leaf.mul rw a b
def signedMul (aw bw rw a b : Nat) : Nat := Leaf.smul rw aw bw a b
def div (rw a b : Nat) : Nat := Leaf.div rw a b
def mod (rw a b : Nat) : Nat := Leaf.mod rw a b

/-- `SignedDiv` arithmetic.py:511-559 -/
def signedDiv (aw bw rw : Nat) (a b : Nat) : Nat :=
  let abs_a := (abs aw aw 0 a).1
  let abs_b := (abs bw bw 0 b).1
  let sign_a := sign aw 1 a
  let sign_b := sign bw 1 b
  let q := Leaf.div rw abs_a abs_b
  let neg_q := neg rw q
  let sign_r := ArithAux.xor2 1 1 1 sign_a sign_b
  Leaf.mux2 rw sign_r q neg_q

/-! ### shifts and rotations -/

def shiftLeftConstant (rw a n : Nat) : Nat := Leaf.shlC rw a n
def shiftRightConstant (rw a n : Nat) : Nat := Leaf.shrC rw a n
def rotateLeftConstant (aw rw a n : Nat) : Nat := Leaf.rotl rw aw a n
def rotateRightConstant (aw rw a n : Nat) : Nat := Leaf.rotr rw aw a n
/-- `a >> (w - n)` / `a << (w - n)` raise ValueError for `n > w` -/
def rotateConstantLegal (aw n : Nat) : Bool := decide (n ≤ aw)

/-- one barrel stage: `shifted = f(last, 2^i)`, `doShift = Bit(b, i)`, `Mux2(doShift, last, shifted)` on a `w`-bit wire -/
def barrelStage (f : Nat → Nat → Nat) (w b : Nat) (last i : Nat) : Nat :=
  let shifted := f last (2^i)
  let doShift := Leaf.bit 1 b i
  Leaf.mux2 w doShift last shifted

/-- `for i in range(wb)` of the four variable shifters -/
def barrel (f : Nat → Nat → Nat) (w wb b : Nat) (a : Nat) : Nat :=
  (List.range wb).foldl (barrelStage f w b) a

/-- the `arithmetic` argument of `ShiftRight`: a Python bool or a Wire (value) -/
inductive ArithFlag where
  | const (v : Bool)
  | wire (v : Nat)
deriving Repr, DecidableEq

/-- `ShiftRight(a, b, r, arithmetic)` arithmetic.py:831-904.  Since /repo f333ccb the sign/zero-extended wires have
    `max(w, r.getWidth()) + (1<<wb)` bits (before: `w + (1<<wb)`, too few for a result wider than the operand). -/
def shiftRight (aw wb rw : Nat) (ar : ArithFlag) (a b : Nat) : Nat :=
  let ew := max aw rw + 2^wb
  let lw : Nat × Nat := match ar with
    | .wire v =>
      let signExtended := Leaf.sext ew aw a
      let zeroExtended := Leaf.zext ew a
      (Leaf.mux2 ew v zeroExtended signExtended, ew)
    | .const true => (Leaf.sext ew aw a, ew)
    | .const false => (a, aw)
  let prer := barrel (fun last n => Leaf.shrC lw.2 last n) lw.2 wb b lw.1
  Leaf.buf rw prer

/-- `ShiftLeft(a, b, r)` arithmetic.py:906-953: internal width `max(wa, wr)` -/
def shiftLeft (aw wb rw : Nat) (a b : Nat) : Nat :=
  let w := max aw rw
  let prer := barrel (fun last n => Leaf.shlC w last n) w wb b a
  Leaf.buf rw prer

/-- `RotateRight(a, b, r)` arithmetic.py:955-999: `shifted` and `prer` have the width of `a` (since /repo 6d96f2c;
    before, `shifted` had the width of `r` and a narrow `r` truncated the word between stages) -/
def rotateRight (aw wb rw : Nat) (a b : Nat) : Nat :=
  let prer := barrel (fun last n => Leaf.rotr aw aw last n) aw wb b a
  Leaf.buf rw prer

def rotateLeft (aw wb rw : Nat) (a b : Nat) : Nat :=
  let prer := barrel (fun last n => Leaf.rotl aw aw last n) aw wb b a
  Leaf.buf rw prer

/-- every stage constant `1<<i`, `i < wb`, must not exceed the width of `a` (else `a >> (w-n)` raises) -/
def rotateLegal (aw wb : Nat) : Bool := decide (1 ≤ wb) && decide (2^(wb - 1) ≤ aw)
def shiftLegal (wb : Nat) : Bool := decide (1 ≤ wb)

/-! ### CountLeadingZeros -/

/-- `_FFunction(a, r)` arithmetic.py:1161-1211; `a` = list of 1-bit values, index = bit position.
    iteration `t` of the `while` loop: `idx = w-1-2t`, product of `a[idx]` and `an[j]` for
    `j = w-2, w-4, …, > idx-1`; the loop runs while `idx ≥ 0` -/
def fProducts (a : List Nat) : List Nat :=
  let w := a.length
  let an := a.map (Leaf.not1 1)
  (List.range ((w + 1) / 2)).map fun t =>
    let idx := w - 1 - 2 * t
    let prodsig := a.getD idx 0 :: (List.range t).map fun s => an.getD (w - 2 - 2 * s) 0
    ArithAux.andN 1 prodsig

def fFunction (a : List Nat) : Nat := ArithAux.orN 1 (fProducts a)

/-- `next_f_bits[j] = Or2(f_bits[2j], f_bits[2j+1])` -/
def clzNext (f : List Nat) : List Nat :=
  (List.range (f.length / 2)).map fun j => Leaf.or2 1 (f.getD (2 * j) 0) (f.getD (2 * j + 1) 0)

/-- the `for i in range(r_intern_w)` loop: returns (`r_bits`, LSB first; final `f_bits`) -/
def clzLevels : Nat → List Nat → List Nat × List Nat
  | 0, f => ([], f)
  | k+1, f =>
    let fvalue := fFunction f
    let rbit := Leaf.not1 1 fvalue
    let rest := clzLevels k (clzNext f)
    (rbit :: rest.1, rest.2)

/-- `int(math.ceil(math.log2(aw)))` for `aw ≥ 1` -/
def clog2 (n : Nat) : Nat := if n ≤ 1 then 0 else Nat.log2 (n - 1) + 1

/-- `CountLeadingZeros(a, r, z)` arithmetic.py:1213-1311.  Returns `(r, z)`. -/
def countLeadingZeros (aw rw zw : Nat) (a : Nat) : Nat × Nat :=
  let r_intern_w := clog2 aw
  let a_intern_w := 2 ^ r_intern_w
  let a_intern := Leaf.zext a_intern_w a
  let a_bits := Leaf.bits a_intern_w a_intern
  let lv := clzLevels r_intern_w a_bits
  -- ConcatenateLSBF(r_bits): the constructor reverses the list, the loop then shifts MSB-first
  let r_intern := Leaf.concat r_intern_w (lv.1.reverse.map fun v => (1, v))
  let r_preout := Leaf.zext rw r_intern
  let z := Leaf.not1 zw (lv.2.getD 0 0)
  let allZeroK := Leaf.const rw (aw : Int)
  let r_preout := if a_intern_w > aw then Leaf.sub rw r_preout (Leaf.const rw ((a_intern_w - aw : Nat) : Int))
                  else r_preout
  (Leaf.mux2 rw z r_preout allZeroK, z)

def countLeadingZerosLegal (aw rw : Nat) : Bool := decide (1 ≤ aw) && decide (clog2 aw ≤ rw)

/-! ### BinaryToBCD -/

/-- the `for i in range(digits)` loop: `(ret, v)` ↦ `(ret ++ [Mod(v, 10) on 4 bits], Div(v, 10) on aw bits)` -/
def bcdLoop (aw k10 : Nat) : Nat → Nat → List Nat
  | 0, _ => []
  | d+1, v => Leaf.mod 4 v k10 :: bcdLoop aw k10 d (Leaf.div aw v k10)

/-- `BinaryToBCD(a, r)` arithmetic.py:1109-1158 -/
def binaryToBCD (aw rw : Nat) (a : Nat) : Nat :=
  let digits := rw / 4
  let k10 := Leaf.const 4 10
  let ret := bcdLoop aw k10 digits a
  Leaf.concat rw (ret.reverse.map fun v => (4, v))

def binaryToBCDLegal (rw : Nat) : Bool := decide (rw % 4 = 0)

/-! ### dispatcher for the driver (same parameter encoding as `ArithSpec.eval`) -/

def arithArg (l : List Nat) (i : Nat) : Nat := l.getD i 0

/-- `none` = the constructor (or the first propagation) raises for these parameters -/
def arithEval (blk : String) (p x : List Nat) : Option (List Nat) :=
  let p0 := arithArg p 0; let p1 := arithArg p 1; let p2 := arithArg p 2; let p3 := arithArg p 3; let p4 := arithArg p 4
  let p5 := arithArg p 5
  let x0 := arithArg x 0; let x1 := arithArg x 1; let x2 := arithArg x 2
  let guard (ok : Bool) (v : List Nat) : Option (List Nat) := if ok then some v else none
  match blk with
  | "Add" =>
    let r := add p2 p4 x0 x1 (if p3 = 0 then none else some x2)
    guard (addLegal p0 p1 p2 p4 (p5 = 1)) ([r.1] ++ (if p4 = 0 then [] else [r.2]))
  | "SignedAdd" =>
    let r := signedAdd p0 p1 p2 p4 x0 x1 (if p3 = 0 then none else some x2)
    guard (signedAddLegal p0 p1 p2) ([r.1] ++ (if p4 = 0 then [] else [r.2]))
  | "Sub" => some [sub p2 x0 x1]
  | "SignedSub" => guard (signedSubLegal p0 p1 p2) [signedSub p0 p1 p2 x0 x1]
  | "Mul" => some [mul p2 x0 x1]
  | "SignedMul" => some [signedMul p0 p1 p2 x0 x1]
  | "Div" => some [div p2 x0 x1]
  | "Mod" => some [mod p2 x0 x1]
  | "SignedDiv" => some [signedDiv p0 p1 p2 x0 x1]
  | "Neg" => some [neg p1 x0]
  | "Sign" => guard (signLegal p1) [sign p0 p1 x0]
  | "SignExtend" => some [signExtend p0 p1 x0]
  | "ZeroExtend" => some [zeroExtend p1 x0]
  | "Abs" =>
    let r := abs p0 p1 p2 x0
    guard (absLegal p2) ([r.1] ++ (if p2 = 0 then [] else [r.2]))
  | "ShiftRight" =>
    let ar := if p3 = 2 then ArithFlag.wire x2 else ArithFlag.const (p3 = 1)
    guard (shiftLegal p1) [shiftRight p0 p1 p2 ar x0 x1]
  | "ShiftLeft" => guard (shiftLegal p1) [shiftLeft p0 p1 p2 x0 x1]
  | "RotateLeft" => guard (rotateLegal p0 p1) [rotateLeft p0 p1 p2 x0 x1]
  | "RotateRight" => guard (rotateLegal p0 p1) [rotateRight p0 p1 p2 x0 x1]
  | "ShiftLeftConstant" => some [shiftLeftConstant p1 x0 p2]
  | "ShiftRightConstant" => some [shiftRightConstant p1 x0 p2]
  | "RotateLeftConstant" => guard (rotateConstantLegal p0 p2) [rotateLeftConstant p0 p1 x0 p2]
  | "RotateRightConstant" => guard (rotateConstantLegal p0 p2) [rotateRightConstant p0 p1 x0 p2]
  | "CountLeadingZeros" =>
    let r := countLeadingZeros p0 p1 p2 x0
    guard (countLeadingZerosLegal p0 p1) [r.1, r.2]
  | "BinaryToBCD" => guard (binaryToBCDLegal p1) [binaryToBCD p0 p1 x0]
  | _ => none

end Lib
