import Py4hwV.Core.Bits
import Py4hwV.Gen.Leaves
/-
  Nat-level reference semantics of the primitive leaves ("what lands on the output wire"), and the bridge
  lemmas to the definitions GENERATED from the Python source.  Everything above the leaves (Lib/*, Props/C07…)
  is stated over these `Leaf.*` functions; a semantic change of a Python `propagate()` breaks its bridge.

  Convention: inputs are naturals (wire values; C06 gives `< 2^width` when needed), `rw` is the output wire width.
-/
namespace Leaf
open Bits

def and2 (rw a b : Nat) : Nat := (a &&& b) % 2^rw
def or2 (rw a b : Nat) : Nat := (a ||| b) % 2^rw
def not1 (rw a : Nat) : Nat := 2^rw - 1 - a % 2^rw
def buf (rw a : Nat) : Nat := a % 2^rw
def bit (rw a k : Nat) : Nat := ((a >>> k) % 2) % 2^rw
def mux2 (rw sel s0 s1 : Nat) : Nat := if sel % 2 = 1 then s1 % 2^rw else s0 % 2^rw
def const (rw : Nat) (v : Int) : Nat := Bits.put rw v
def shlC (rw a n : Nat) : Nat := (a <<< n) % 2^rw
def shrC (rw a n : Nat) : Nat := (a >>> n) % 2^rw
def repeat1 (rw i : Nat) : Nat := if i = 0 then 0 else 2^rw - 1
def range (rw a hi lo : Nat) : Nat := ((a >>> lo) % 2^(hi - lo + 1)) % 2^rw
def addc (rw a b ci : Nat) : Nat := (a + b + ci) % 2^rw
def sub (rw a b : Nat) : Nat := Bits.put rw ((a:Int) - (b:Int))
def mul (rw a b : Nat) : Nat := (a * b) % 2^rw
def zext (rw a : Nat) : Nat := a % 2^rw
def rotl (rw w a n : Nat) : Nat := (((a <<< n) ||| (a >>> (w - n))) % 2^w) % 2^rw
def rotr (rw w a n : Nat) : Nat := (((a >>> n) ||| (a <<< (w - n))) % 2^w) % 2^rw
def div (rw a b : Nat) : Nat := (a / b) % 2^rw       -- b ≠ 0
def mod (rw a b : Nat) : Nat := (a % b) % 2^rw       -- b ≠ 0
def bits (w a : Nat) : List Nat := (List.range w).map fun i => (a >>> i) % 2
/-- concatenation, first element most significant (both Concatenate classes run the same loop; the LSBF class
    reverses its argument list in the constructor) -/
def concat (rw : Nat) (ins : List (Nat × Nat)) : Nat :=
  (ins.foldl (fun acc wv => (acc <<< wv.1) ||| wv.2) 0) % 2^rw

/-- the value that lands on a `w`-bit wire when the leaf passes `o` to put()/prepare() -/
def landed (w : Nat) (o : Option Int) : Nat := Bits.put w (o.getD 0)

theorem land_one (a : Nat) : Py.land (a:Int) 1 = ((a % 2 : Nat) : Int) := by
  have : Py.land (a:Int) ((1:Nat):Int) = ((a &&& 1 : Nat) : Int) := Bits.land_ofNat a 1
  rw [Nat.and_one_is_mod] at this
  simpa using this

/-! ### bridges: generated code = reference -/

theorem put_lnot (w a : Nat) : Bits.put w (Py.lnot (a:Int)) = 2^w - 1 - a % 2^w := by
  have h1 : a % 2^w < 2^w := Nat.mod_lt _ (Nat.two_pow_pos w)
  rw [← Bits.lnot_ofNat_put w (a % 2^w) h1]
  have e : Py.lnot (a:Int) = Py.lnot ((a % 2^w : Nat) : Int) + (-((a / 2^w : Nat) : Int)) * (2:Int)^w := by
    unfold Py.lnot
    have h := Nat.div_add_mod a (2^w)
    have h2 : ((2^w : Nat) : Int) = (2:Int)^w := by simp
    have h3 : (a:Int) = ((2^w : Nat) : Int) * ((a / 2^w : Nat) : Int) + ((a % 2^w : Nat) : Int) := by
      exact_mod_cast h.symm
    rw [h2] at h3
    rw [Int.neg_mul, Int.mul_comm]
    omega
  rw [e, Bits.put_add_mul]

macro "leaf_simp" : tactic => `(tactic| simp [Id.run, pure, landed, Bits.land_ofNat, Bits.lor_ofNat, Bits.lxor_ofNat,
  Bits.put_ofNat, Py.shlT, Py.shrT, Bits.shl_ofNat, Bits.shr_ofNat])

theorem gen_and2 (rw a b : Nat) :
    landed rw (Gen.And2.step ⟨⟩ ⟨⟩ ⟨a, b⟩ ⟨⟩).2.r = and2 rw a b := by
  simp [Gen.And2.step, Id.run, pure, landed, and2, Bits.land_ofNat, Bits.put_ofNat]

theorem gen_or2 (rw a b : Nat) :
    landed rw (Gen.Or2.step ⟨⟩ ⟨⟩ ⟨a, b⟩ ⟨⟩).2.r = or2 rw a b := by
  simp [Gen.Or2.step, Id.run, pure, landed, or2, Bits.lor_ofNat, Bits.put_ofNat]

theorem gen_not (rw a : Nat) :
    landed rw (Gen.Not.step ⟨⟩ ⟨⟩ ⟨a⟩ ⟨⟩).2.r = not1 rw a := by
  simp [Gen.Not.step, Id.run, pure, landed, not1, put_lnot]

theorem gen_buf (rw a : Nat) :
    landed rw (Gen.Buf.step ⟨⟩ ⟨⟩ ⟨a⟩ ⟨⟩).2.r = buf rw a := by
  simp [Gen.Buf.step, Id.run, pure, landed, buf, Bits.put_ofNat]

theorem gen_bit (rw a k : Nat) :
    landed rw (Gen.Bit.step ⟨k⟩ ⟨⟩ ⟨a⟩ ⟨⟩).2.r = bit rw a k := by
  simp only [Gen.Bit.step, Id.run, pure, landed, bit, Option.getD, Py.shrT, Int.toNat_natCast]
  rw [Bits.shr_ofNat, land_one, Bits.put_ofNat]

theorem gen_mux2 (rw sel s0 s1 : Nat) :
    landed rw (Gen.Mux2.step ⟨⟩ ⟨⟩ ⟨sel, s1, s0⟩ ⟨⟩).2.r = mux2 rw sel s0 s1 := by
  have h2 : sel % 2 < 2 := Nat.mod_lt _ (by decide)
  simp only [Gen.Mux2.step, Id.run, pure, landed, mux2, land_one, Py.truthy]
  by_cases h : sel % 2 = 1
  · simp [h, Bits.put_ofNat]
  · have : sel % 2 = 0 := by omega
    simp [this, Bits.put_ofNat]

theorem gen_const (rw : Nat) (v : Int) :
    landed rw (Gen.Constant.step ⟨v⟩ ⟨⟩ ⟨⟩ ⟨⟩).2.r = const rw v := by
  simp [Gen.Constant.step, Id.run, pure, landed, const]

theorem gen_shlC (rw a n : Nat) :
    landed rw (Gen.ShiftLeftConstant.step ⟨n⟩ ⟨⟩ ⟨a⟩ ⟨⟩).2.r = shlC rw a n := by
  simp only [Gen.ShiftLeftConstant.step, Id.run, pure, landed, shlC, Option.getD, Py.shlT, Int.toNat_natCast]
  rw [Bits.shl_ofNat, Bits.put_ofNat]

theorem gen_shrC (rw a n : Nat) :
    landed rw (Gen.ShiftRightConstant.step ⟨n⟩ ⟨⟩ ⟨a⟩ ⟨⟩).2.r = shrC rw a n := by
  simp only [Gen.ShiftRightConstant.step, Id.run, pure, landed, shrC, Option.getD, Py.shrT, Int.toNat_natCast]
  rw [Bits.shr_ofNat, Bits.put_ofNat]

theorem gen_addc (rw a b ci : Nat) :
    landed rw (Gen.AddCarryIn.step ⟨⟩ ⟨⟩ ⟨a, b, ci⟩ ⟨⟩).2.r = addc rw a b ci := by
  simp only [Gen.AddCarryIn.step, Id.run, pure, landed, addc, Option.getD]
  rw [show ((a:Int) + (b:Int) + (ci:Int)) = ((a + b + ci : Nat) : Int) by push_cast; rfl, Bits.put_ofNat]

theorem gen_mul (rw a b : Nat) :
    landed rw (Gen.Mul.step ⟨⟩ ⟨⟩ ⟨a, b⟩ ⟨⟩).2.r = mul rw a b := by
  simp only [Gen.Mul.step, Id.run, pure, landed, mul, Option.getD]
  rw [show ((a:Int) * (b:Int)) = ((a * b : Nat) : Int) by push_cast; rfl, Bits.put_ofNat]

theorem gen_zext (rw a : Nat) :
    landed rw (Gen.ZeroExtend.step ⟨⟩ ⟨⟩ ⟨a⟩ ⟨⟩).2.r = zext rw a := by
  simp [Gen.ZeroExtend.step, Id.run, pure, landed, zext, Bits.put_ofNat]

/-- `Sub.propagate` masks with the width of `r` itself before `put` masks again -/
theorem gen_sub (rw a b : Nat) :
    landed rw (Gen.Sub.step ⟨rw⟩ ⟨⟩ ⟨a, b⟩ ⟨⟩).2.r = sub rw a b := by
  simp only [Gen.Sub.step, Id.run, pure, landed, sub, Option.getD, Py.shlT, Int.toNat_natCast]
  rw [Bits.land_mask, Bits.put_emod]

theorem gen_rotl (rw w a n : Nat) (h : n ≤ w) :
    landed rw (Gen.RotateLeftConstant.step ⟨n, w⟩ ⟨⟩ ⟨a⟩ ⟨⟩).2.r = rotl rw w a n := by
  simp only [Gen.RotateLeftConstant.step, Id.run, pure, landed, rotl, Option.getD, Py.shlT, Py.shrT,
    Int.toNat_natCast]
  rw [show ((w:Int) - (n:Int)).toNat = w - n by omega, Bits.shl_ofNat, Bits.shr_ofNat, Bits.lor_ofNat, Bits.land_mask]
  rw [show (((a <<< n ||| a >>> (w - n) : Nat) : Int) % (2:Int)^w) = (((a <<< n ||| a >>> (w - n)) % 2^w : Nat) : Int) by simp,
    Bits.put_ofNat]

theorem gen_rotr (rw w a n : Nat) (h : n ≤ w) :
    landed rw (Gen.RotateRightConstant.step ⟨n, w⟩ ⟨⟩ ⟨a⟩ ⟨⟩).2.r = rotr rw w a n := by
  simp only [Gen.RotateRightConstant.step, Id.run, pure, landed, rotr, Option.getD, Py.shlT, Py.shrT,
    Int.toNat_natCast]
  rw [show ((w:Int) - (n:Int)).toNat = w - n by omega, Bits.shl_ofNat, Bits.shr_ofNat, Bits.lor_ofNat, Bits.land_mask]
  rw [show (((a >>> n ||| a <<< (w - n) : Nat) : Int) % (2:Int)^w) = (((a >>> n ||| a <<< (w - n)) % 2^w : Nat) : Int) by simp,
    Bits.put_ofNat]

theorem gen_repeat (rw i : Nat) :
    landed rw (Gen.Repeat.step ⟨rw⟩ ⟨⟩ ⟨i⟩ ⟨⟩).2.r = repeat1 rw i := by
  simp only [Gen.Repeat.step, Id.run, pure, landed, repeat1, Py.truthy, Py.shlT, Int.toNat_natCast]
  by_cases h : i = 0
  · subst h
    simp only [Int.natCast_zero, bne_self_eq_false, Bool.false_eq_true, if_false, if_true, Option.getD]
    exact Bits.put_ofNat rw 0
  · have : ((i:Int) != 0) = true := by simp; omega
    simp only [this, if_true, h, if_false, Option.getD]
    rw [Bits.mask_eq, Bits.put_ofNat]
    apply Nat.mod_eq_of_lt
    have := Nat.two_pow_pos rw
    omega

theorem gen_range (rw a hi lo : Nat) (h : lo ≤ hi) :
    landed rw (Gen.Range.step ⟨hi, lo⟩ ⟨⟩ ⟨a⟩ ⟨⟩).2.r = range rw a hi lo := by
  simp only [Gen.Range.step, Id.run, pure, landed, range, Option.getD, Py.shlT, Py.shrT, Int.toNat_natCast]
  rw [show ((hi:Int) - (lo:Int) + 1).toNat = hi - lo + 1 by omega, Bits.land_mask, Bits.shr_ofNat]
  rw [show ((a >>> lo : Nat) : Int) % (2:Int)^(hi - lo + 1) = (((a >>> lo) % 2^(hi - lo + 1) : Nat) : Int) by simp,
    Bits.put_ofNat]

end Leaf
