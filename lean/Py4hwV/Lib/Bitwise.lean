import Py4hwV.Lib.Leaf
/-
  Functional models of the STRUCTURAL constructors of py4hw/logic/bitwise.py — one definition per constructor,
  same recursion as the Python (ladders over the input list including the 1- and 2-input special cases, the Mux tree
  over the select bits LSB first, Decoder via EqualConstant, …), stated over the `Leaf.*` reference functions
  (which are bridged to the definitions generated from the Python `propagate()` methods).

  Conventions
  * a wire value is a `Nat`; where the Python constructor reads `x.getWidth()` of an input to size an INTERMEDIATE wire,
    the model takes that width as an explicit parameter (`aw`, `bw`, …) or the input as a pair `(width, value)`;
    `rw` is always the width of the output wire `r`.
  * every intermediate wire of the Python appears as a `Leaf.*` application carrying that wire's width.
  * where the Python constructor raises (empty input list, wrong select width, …) the model has a decidable `…Legal`
    predicate; the function is given an arbitrary value outside it, every theorem carries the guard and the
    correspondence checks "constructor raises ⇔ ¬ legal".
  Names in this file are imported by C07/C13/C14 — keep them stable.
-/
namespace Lib
open Leaf

/-! ### n-ary gates (ladders) -/

/-- `And(parent, name, ins, r)` bitwise.py:12-70.  `num==1`: Buf, `num==2`: And2, otherwise a ladder of `num-1` And2
    whose intermediate wires `and{i}` all have the width of `r`. -/
def andN (rw : Nat) : List Nat → Nat
  | [] => 0
  | [a] => Leaf.buf rw a
  | [a, b] => Leaf.and2 rw a b
  | a :: rest => rest.foldl (fun auxin x => Leaf.and2 rw auxin x) a
def andNLegal (ins : List Nat) : Bool := !ins.isEmpty

/-- `Or(parent, name, ins, r)` bitwise.py:568-621 -/
def orN (rw : Nat) : List Nat → Nat
  | [] => 0
  | [a] => Leaf.buf rw a
  | [a, b] => Leaf.or2 rw a b
  | a :: rest => rest.foldl (fun auxin x => Leaf.or2 rw auxin x) a
def orNLegal (ins : List Nat) : Bool := !ins.isEmpty

/-- `Nand2(a, b, r)` bitwise.py:397-423: `Mid` has the width of `a` -/
def nand2 (aw rw a b : Nat) : Nat := Leaf.not1 rw (Leaf.and2 aw a b)

/-- `Nor2(a, b, r)` bitwise.py:460-486: `Mid` has the width of `r` (since /repo commit aa5aa9b; before it `Mid` had the width
    `aw` of `a`, which dropped the upper bits of a wider `b`).  `aw` is kept in the signature for the callers; it no longer
    influences the value. -/
def nor2 (_aw rw a b : Nat) : Nat := Leaf.not1 rw (Leaf.or2 rw a b)

/-- `Nor(ins, r)` bitwise.py:425-457: `Mid` has the width of `r` (since /repo commit 99fa1f2; before it `Mid` had the width of
    `ins[0]`, which dropped the upper bits of wider later inputs) -/
def norN (rw : Nat) (ins : List Nat) : Nat := Leaf.not1 rw (orN rw ins)

/-- `Xor2(a, b, r)` bitwise.py:736-766, four NANDs; `Mid`, `XOut`, `YOut` have the width of `r` (since /repo commit 4cfd4ac;
    before it they had the width of `a`, which set the upper result bits when `r` was wider than `a`); the inner `Mid` of
    every Nand2 has the width of ITS first operand -/
def xor2 (aw bw rw a b : Nat) : Nat :=
  let mid := nand2 aw rw a b          -- Nand2(self, "NandMid", a, b, mid)
  let xout := nand2 aw rw a mid       -- Nand2(self, "NandX", a, mid, xout)
  let yout := nand2 bw rw b mid       -- Nand2(self, "NandY", b, mid, yout)
  nand2 rw rw xout yout               -- Nand2(self, "NandR", xout, yout, r)

/-- `Xor(ins, r)` bitwise.py:769-817; inputs are `(width, value)`.  `num==2`: Xor2; `num<3`: raises; otherwise a ladder
    of Xor2 whose intermediate wires `xor{i}` have the width of `r` (so the first Xor2 sees the width of `ins[0]`, later ones `rw`;
    inside every Xor2 all wires have the width of its result, i.e. `rw`) -/
def xorN (rw : Nat) : List (Nat × Nat) → Nat
  | [] => 0
  | [_] => 0
  | [a, b] => xor2 a.1 b.1 rw a.2 b.2
  | a :: rest => (rest.foldl (fun (auxin : Nat × Nat) x => (rw, xor2 auxin.1 x.1 rw auxin.2 x.2)) a).2
def xorNLegal (ins : List (Nat × Nat)) : Bool := decide (2 ≤ ins.length)

/-! ### bit manipulation -/

/-- `BitsLSBF(a, bits)` bitwise.py:191-224 (1-bit output wires): element `i` = bit `i` -/
def bitsLSBF (aw a : Nat) : List Nat := Leaf.bits aw a

/-- `BitsMSBF(a, bits)` bitwise.py:156-189: the constructor reverses the port list, so the caller's `bits[i]` receives
    bit `aw-1-i` -/
def bitsMSBF (aw a : Nat) : List Nat := (Leaf.bits aw a).reverse

/-- `ConcatenateMSBF(ins, r)` bitwise.py:1232-1272, inputs `(width, value)`, first = most significant -/
def concatMSBF (rw : Nat) (ins : List (Nat × Nat)) : Nat := Leaf.concat rw ins
/-- `ConcatenateLSBF(ins, r)` bitwise.py:1274-1315: `self.ins.reverse()` in the constructor, then the same loop -/
def concatLSBF (rw : Nat) (ins : List (Nat × Nat)) : Nat := Leaf.concat rw ins.reverse
/-- both raise when the summed input widths exceed the width of `r` -/
def concatLegal (rw : Nat) (ins : List (Nat × Nat)) : Bool := decide ((ins.map (·.1)).sum ≤ rw)

/-- `AndBits(a, r)` bitwise.py:100-123 -/
def andBits (aw rw a : Nat) : Nat := andN rw (bitsLSBF aw a)
/-- `OrBits(a, r)` bitwise.py:543-566 -/
def orBits (aw rw a : Nat) : Nat := orN rw (bitsLSBF aw a)
def bitsGateLegal (aw : Nat) : Bool := decide (1 ≤ aw)

/-- `BufEnable(a, en, r)` bitwise.py:294-325: `re = Repeat(en)` of width `rw`, `r = a & re`.
    asserts `a.getWidth() == r.getWidth()`; Repeat raises unless `en` is 1 bit wide -/
def bufEnable (rw a en : Nat) : Nat := Leaf.and2 rw a (Leaf.repeat1 rw en)
def bufEnableLegal (aw enw rw : Nat) : Bool := decide (aw = rw) && decide (enw = 1)

/-! ### constants compared bit by bit -/

/-- the Python expression `(value >> i) & 1` on an arbitrary Python int -/
def cbit (value : Int) (i : Nat) : Nat := (Py.land (Py.shr value i) 1).toNat

/-- the `parts` list of `Minterm.__init__` (bitwise.py:1182-1192), `i` = index of the head of `bits` -/
def mintermParts (value : Int) : Nat → List Nat → List Nat
  | _, [] => []
  | i, b :: bs => (if cbit value i = 0 then Leaf.not1 1 b else b) :: mintermParts value (i + 1) bs

/-- `Minterm(bits, value, r)` bitwise.py:1162-1194: complemented or plain literal per bit of `value`, then `And` -/
def minterm (rw : Nat) (bits : List Nat) (value : Int) : Nat := andN rw (mintermParts value 0 bits)

/-- `EqualConstant(a, v, r)` relational.py:77-119.  width 1: `Not` when `v == 0`, `Buf` for EVERY other `v`;
    otherwise BitsLSBF + Minterm -/
def equalConstant (aw rw a : Nat) (v : Int) : Nat :=
  if aw = 1 then (if v = 0 then Leaf.not1 rw a else Leaf.buf rw a)
  else minterm rw (bitsLSBF aw a) v
def equalConstantLegal (aw : Nat) : Bool := decide (1 ≤ aw)

/-- `NotEqualConstant(a, v, r)` relational.py:48-75: `eq` is a 1-bit wire -/
def notEqualConstant (aw rw a : Nat) (v : Int) : Nat := Leaf.not1 rw (equalConstant aw 1 a v)

/-- `SumOfMinterms(a, minterms, r)` bitwise.py:1197-1230: 1-bit wire per minterm, then `Or` -/
def sumOfMinterms (aw rw a : Nat) (ms : List Int) : Nat :=
  orN rw (ms.map fun m => minterm 1 (bitsLSBF aw a) m)
def sumOfMintermsLegal (aw : Nat) (ms : List Int) : Bool := decide (1 ≤ aw) && !ms.isEmpty

/-- `Decoder(a, b)` bitwise.py:1133-1159: output `i` (1-bit wires) is `EqualConstant(a, i)`, `n = len(b)` -/
def decoder (aw a n : Nat) : List Nat := (List.range n).map fun (i : Nat) => equalConstant aw 1 a (i : Int)
def decoderLegal (aw n : Nat) : Bool := decide (1 ≤ aw) || decide (n = 0)

/-! ### selectors -/

/-- one level of the Mux tree: `Mux2(bits[i], auxin[2k], auxin[2k+1], auxout[k])`; a trailing unpaired wire is not read -/
def muxLevel (rw b : Nat) : List Nat → List Nat
  | x0 :: x1 :: rest => Leaf.mux2 rw b x0 x1 :: muxLevel rw b rest
  | _ => []

/-- `Mux(sel, ins, r)` bitwise.py:820-884; `sw = sel.getWidth()`.  `sw==1`: one Mux2 on `ins[0], ins[1]`;
    otherwise the select bits (BitsLSBF) drive one tree level each, LSB first; all intermediate wires have width `rw`.
    `sw==0` with one input is accepted and builds nothing (no select bit, no tree level): `r` is never driven and reads 0,
    it is NOT connected to `ins[0]`. -/
def mux (rw sw sel : Nat) (ins : List Nat) : Nat :=
  if sw = 1 then Leaf.mux2 rw sel (ins.getD 0 0) (ins.getD 1 0)
  else if sw = 0 then 0
  else ((bitsLSBF sw sel).foldl (fun auxin b => muxLevel rw b auxin) ins).headD 0
/-- `int(math.log2(n))` for `n ≥ 1` -/
def ilog2 (n : Nat) : Nat := Nat.log2 n
/-- raises: `len(ins)==0` (math domain error), `sw ≠ int(log2(len))`, or (for `sw ≠ 1`) len not a power of two -/
def muxLegal (sw : Nat) (n : Nat) : Bool :=
  decide (1 ≤ n) && decide (sw = ilog2 n) && (decide (sw = 1) || decide (n = 2 ^ sw))

/-- `Demux(a, sel, r)` bitwise.py:357-395: Decoder on `sel`, one BufEnable per output (outputs have the width of `a`) -/
def demux (aw sw a sel : Nat) : List Nat :=
  (decoder sw sel (2 ^ sw)).map fun ss => bufEnable aw a ss
def demuxLegal (sw nouts : Nat) : Bool := decide (2 ^ sw = nouts) && decide (1 ≤ sw)

/-- `Select` / `OneHotMux(sels, ins, r)` bitwise.py:966-1048 (identical bodies): per index `Repeat` + `And2` on wires of the
    width of THAT input, then `Or`.  `ins` are `(width, value)`; surplus `ins` are ignored (`ins[idx]` for idx < len(sels)) -/
def select (rw : Nat) (sels : List Nat) (ins : List (Nat × Nat)) : Nat :=
  orN rw (List.zipWith (fun sel inv => Leaf.and2 inv.1 (Leaf.repeat1 inv.1 sel) inv.2) sels ins)
def oneHotMux := @select
def selectLegal (nsels nins : Nat) : Bool := decide (1 ≤ nsels) && decide (nsels ≤ nins)

/-- `OneHotDemux(sels, a, outs)` bitwise.py:1051-1086: `selx` has the width of `a`, output `idx` has width `ows[idx]` -/
def oneHotDemux (aw a : Nat) (sels : List Nat) (ows : List Nat) : List Nat :=
  List.zipWith (fun sel ow => Leaf.and2 ow (Leaf.repeat1 aw sel) a) sels ows

/-- `SelectDefault(sels, ins, default, r)` bitwise.py:1089-1129: chain of Mux2 from `r` towards `default`, all `t{idx}`
    wires of width `rw`, closed by `Buf(default, t_last)` -/
def selectDefault (rw : Nat) : List Nat → List Nat → Nat → Nat
  | sel :: sels, inv :: ins, d => Leaf.mux2 rw sel (selectDefault rw sels ins d) inv
  | _, _, d => Leaf.buf rw d
def selectDefaultLegal (nsels nins : Nat) : Bool := decide (1 ≤ nsels) && decide (nsels ≤ nins)

/-- the loop of `PriorityEncoder.__init__` after the optional reversal; `last` wires have the width `lw` of the first
    (most prioritised) input, outputs have width `rw` -/
def priorityGo (lw rw : Nat) : Nat → List Nat → List Nat
  | _, [] => []
  | last, a :: as => Leaf.and2 rw a (Leaf.not1 lw last) :: priorityGo lw rw (Leaf.or2 lw last a) as
def priorityDec (lw rw : Nat) : List Nat → List Nat
  | [] => []
  | a :: as => Leaf.buf rw a :: priorityGo lw rw (Leaf.buf lw a) as
/-- `PriorityEncoder(a, r, inc_priority)` bitwise.py:1423-1468; result in the order of the caller's `r` list -/
def priorityEncoder (lw rw : Nat) (inc : Bool) (a : List Nat) : List Nat :=
  if inc then (priorityDec lw rw a.reverse).reverse else priorityDec lw rw a

end Lib
