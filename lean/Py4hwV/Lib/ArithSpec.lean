import Py4hwV.Core.Bits
/-
  C07 — the SPECIFICATION side: "the value of the corresponding integer operation reduced modulo 2^(output width),
  signed variants interpreting operands as two's complement".  Plain integer arithmetic, no reference to the
  library's structure.  Imports Core only (no generated code), so the property's oracle stays executable
  (Drv/C07Spec.lean) even when a generated definition or a bridge lemma no longer compiles.

  `eval` is the dispatcher used by the drivers: block name, constructor parameters, input values ↦ expected
  outputs and a *class*: "" = inside the proved domain, "div0" = unspecified by the property (zero divisor),
  any other string = the name of a known-finding class (complement of the hypothesis of a `_partial` theorem).
-/
namespace ArithSpec
open Bits

/-- two's-complement reading of the low `w` bits -/
def sgn (w x : Nat) : Int := Bits.toSigned w (x % 2^w)

def add (rw a b ci : Nat) : Nat := (a + b + ci) % 2^rw
def addCo (rw a b ci : Nat) : Nat := ((a + b + ci) / 2^rw) % 2
def signedAdd (aw bw rw a b ci : Nat) : Nat := Bits.put rw (sgn aw a + sgn bw b + (ci : Int))
/-- carry out of the `rw`-bit two's-complement encodings -/
def signedAddCo (aw bw rw a b ci : Nat) : Nat :=
  ((Bits.put rw (sgn aw a) + Bits.put rw (sgn bw b) + ci) / 2^rw) % 2
def sub (rw a b : Nat) : Nat := Bits.put rw ((a : Int) - (b : Int))
def signedSub (aw bw rw a b : Nat) : Nat := Bits.put rw (sgn aw a - sgn bw b)
def neg (rw a : Nat) : Nat := Bits.put rw (-(a : Int))
def abs (aw rw a : Nat) : Nat := ((sgn aw a).natAbs) % 2^rw
def isNeg (aw a : Nat) : Nat := if sgn aw a < 0 then 1 else 0
def signExtend (aw rw a : Nat) : Nat := Bits.put rw (sgn aw a)
def zeroExtend (rw a : Nat) : Nat := a % 2^rw
def mul (rw a b : Nat) : Nat := (a * b) % 2^rw
def signedMul (aw bw rw a b : Nat) : Nat := Bits.put rw (sgn aw a * sgn bw b)
def div (rw a b : Nat) : Nat := (a / b) % 2^rw
def mod (rw a b : Nat) : Nat := (a % b) % 2^rw
/-- signed division truncates towards zero (Verilog `/` on signed operands, C99): `Int.tdiv` -/
def signedDiv (aw bw rw a b : Nat) : Nat := Bits.put rw (Int.tdiv (sgn aw a) (sgn bw b))
def shiftLeft (rw a b : Nat) : Nat := (a * 2^b) % 2^rw
def shiftRightL (rw a b : Nat) : Nat := (a / 2^b) % 2^rw
/-- arithmetic: floor division of the signed reading by `2^b` -/
def shiftRightA (aw rw a b : Nat) : Nat := Bits.put rw ((sgn aw a) / (2:Int)^b)
/-- rotation of a `w`-bit word by `n ≤ w` positions towards the MSB -/
def rotl (w a n : Nat) : Nat := ((a * 2^n) % 2^w + a / 2^(w - n)) % 2^w
def rotr (w a n : Nat) : Nat := (a / 2^n + (a * 2^(w - n)) % 2^w) % 2^w
def rotateLeft (aw rw a b : Nat) : Nat := (rotl aw (a % 2^aw) (b % aw)) % 2^rw
def rotateRight (aw rw a b : Nat) : Nat := (rotr aw (a % 2^aw) (b % aw)) % 2^rw
/-- number of leading zeros of a `w`-bit word (`w` for 0) -/
def clz (w a : Nat) : Nat := if a % 2^w = 0 then w else w - 1 - Nat.log2 (a % 2^w)
def countLeadingZeros (aw rw a : Nat) : Nat := clz aw a % 2^rw
def isZero (aw a : Nat) : Nat := if a % 2^aw = 0 then 1 else 0
/-- `digits` BCD digits, least significant digit in the low nibble -/
def bcd (a : Nat) : Nat → Nat
  | 0 => 0
  | d+1 => (a % 10) + 16 * bcd (a / 10) d
def binaryToBCD (rw a : Nat) : Nat := bcd a (rw / 4) % 2^rw

def g (l : List Nat) (i : Nat) : Nat := l.getD i 0

/-- (expected outputs, class) -/
def eval (blk : String) (p x : List Nat) : Option (List Nat × String) :=
  let p0 := g p 0; let p1 := g p 1; let p2 := g p 2; let p3 := g p 3; let p4 := g p 4
  let x0 := g x 0; let x1 := g x 1; let x2 := g x 2
  match blk with
  -- p = [aw,bw,rw,ciw,cow,width_check]  x = [a,b,ci]
  | "Add" =>
    let ci := if p3 = 0 then 0 else x2
    some ([add p2 x0 x1 ci] ++ (if p4 = 0 then [] else [addCo p2 x0 x1 ci]), "")
  | "SignedAdd" =>
    let ci := if p3 = 0 then 0 else x2
    some ([signedAdd p0 p1 p2 x0 x1 ci] ++ (if p4 = 0 then [] else [signedAddCo p0 p1 p2 x0 x1 ci]), "")
  -- p = [aw,bw,rw]  x = [a,b]
  | "Sub" => some ([sub p2 x0 x1], "")
  | "SignedSub" => some ([signedSub p0 p1 p2 x0 x1], "")
  | "Mul" => some ([mul p2 x0 x1], "")
  | "SignedMul" => some ([signedMul p0 p1 p2 x0 x1], "")
  | "Div" => some ([div p2 x0 x1], if x1 = 0 then "div0" else "")
  | "Mod" => some ([mod p2 x0 x1], if x1 = 0 then "div0" else "")
  | "SignedDiv" => some ([signedDiv p0 p1 p2 x0 x1], if x1 = 0 then "div0" else "")
  -- p = [aw,rw]  x = [a]
  | "Neg" => some ([neg p1 x0], "")
  | "Sign" => some ([isNeg p0 x0], "")
  | "SignExtend" => some ([signExtend p0 p1 x0], "")
  | "ZeroExtend" => some ([zeroExtend p1 x0], "")
  -- p = [aw,rw,iw]  (iw = 0: no `inverted` port)
  | "Abs" => some ([abs p0 p1 x0] ++ (if p2 = 0 then [] else [isNeg p0 x0]), "")
  -- p = [aw,wb,rw,mode(0 logical,1 arithmetic=True,2 wire),arw]  x = [a,b,ar]
  | "ShiftRight" =>
    let arith := p3 = 1 ∨ (p3 = 2 ∧ x2 % 2 = 1)
    -- (the class "shr-arith-wide-output" is gone: repaired in /repo f333ccb, theorem holds for every aw/wb/rw)
    if arith then some ([shiftRightA p0 p2 x0 x1], "")
    else some ([shiftRightL p2 x0 x1], "")
  -- p = [aw,wb,rw]  x = [a,b]
  | "ShiftLeft" => some ([shiftLeft p2 x0 x1], "")
  -- (the class "rotate-narrow-output", p2 < p0, is gone: repaired in /repo 6d96f2c, theorem holds for every rw)
  | "RotateLeft" => some ([rotateLeft p0 p2 x0 x1], "")
  | "RotateRight" => some ([rotateRight p0 p2 x0 x1], "")
  -- p = [aw,rw,n]  x = [a]
  | "ShiftLeftConstant" => some ([shiftLeft p1 x0 p2], "")
  | "ShiftRightConstant" => some ([shiftRightL p1 x0 p2], "")
  -- (the class "rotate-constant-wide-output", p0 < p1, is gone: repaired in /repo 6b4070f, theorem now holds for every rw)
  | "RotateLeftConstant" => some ([rotl p0 (x0 % 2^p0) p2 % 2^p1], "")
  | "RotateRightConstant" => some ([rotr p0 (x0 % 2^p0) p2 % 2^p1], "")
  -- p = [aw,rw,zw]  x = [a]   outputs [r, z]  (z is specified for a 1-bit z wire only)
  | "CountLeadingZeros" => some ([countLeadingZeros p0 p1 x0] ++ (if p2 = 1 then [isZero p0 x0] else []), "")
  -- p = [aw,rw]
  | "BinaryToBCD" => some ([binaryToBCD p1 x0], "")
  | _ => none

end ArithSpec
