import Py4hwV.Lib.Seq
import Py4hwV.Lib.SeqFlat
/-
  C09, netlist level (model part, executable, imported by Drv/C09.lean): the netlists the constructors of the sequential
  blocks build, as `SeqFlat.NetD` values (kinds in instantiation order, registers, widths, schedule) over a canonical
  wire numbering.  harness/c09.py dumps the LIVE constructor's netlist (dump_ir.py), renames its wires by NAME to the
  canonical numbering and compares it with `KNet.render` of the builder at every run (stream `netlist-import`).
  The theorems about these netlists are in Props/C09Net.lean.
-/
namespace C09N
open Net SeqFlat Lib

/-- a flat netlist given by primitive kinds (printable: compared with the live dump) -/
structure KNet where
  wd : Nat → Nat
  kinds : List Kind
  regs : List RLeaf
  order : List Nat

def KNet.netD (K : KNet) : NetD := { wd := K.wd, combs := K.kinds.map (Kind.leaf K.wd), regs := K.regs, order := K.order }


/-- what a test bench reads on the wires `outs` after each `poke (pokes i); sim.clk(1)` -/
def netTrace {ι : Type} (D : NetD) (pokes : ι → List (Nat × Int)) (outs : List Nat) (s : State Int) : List ι → List (List Nat)
  | [] => []
  | i :: t =>
    let s' := clk D.design 1 ((pokes i).foldl (putW D.design) s)
    outs.map s'.val :: netTrace D pokes outs s' t


/-- TReg(t, q, enable, reset): wires t=1 q=2 e=3 r=4 nq=5 d=6; leaves Not(q→nq), Mux2(t; q, nq → d), Reg(d→q) -/
def tregReg (hasE hasR : Bool) : RLeaf :=
  { hasR := hasR, hasE := hasE, rv := 0, d := 6, e := if hasE then 3 else 0, r := if hasR then 4 else 0, q := 2 }

def tregNet (hasE hasR : Bool) : KNet :=
  { wd := fun _ => 1, kinds := [.not1 2 5, .mux2 1 2 5 6], regs := [tregReg hasE hasR], order := [0, 1] }


def tregPokes (i : TRegIn) : List (Nat × Int) := [(1, (i.t : Int)), (3, (i.e : Int)), (4, (i.r : Int))]


/-- Counter(reset, inc, q): wires q=1 reset=2 inc=3 one=4 zero=5 add=6 d=7 d1=8 e_add=9 add/ci=10;
    absent reset → the `zero` wire, absent inc → the `one` wire (as the constructor does) -/
def counterReg : RLeaf := { hasR := false, hasE := true, rv := 0, d := 7, e := 9, r := 0, q := 1 }

def counterNet (w : Nat) (hasReset hasInc : Bool) : KNet :=
  let rs := if hasReset then 2 else 5
  let ic := if hasInc then 3 else 4
  { wd := fun x => if x = 2 ∨ x = 3 ∨ x = 9 ∨ x = 10 then 1 else w,
    kinds := [.const 1 4, .const 0 5, .mux2 ic 1 6 8, .mux2 rs 8 5 7, .or2 rs ic 9, .const 0 10, .addc 1 4 10 6],
    regs := [counterReg],
    order := [0, 1, 5, 6, 4, 2, 3] }


def counterPokes (i : CounterIn) : List (Nat × Int) := [(2, (i.reset : Int)), (3, (i.inc : Int))]


/-- StepUpCounter(reset, inc, step, q): wires q=1 reset=2 inc=3 one=4 (1 bit, only when inc=None) zero=5 add=6 d=7 d1=8
    e_add=9 add/ci=10 step=11 (`sw` bits) -/
def stepReg : RLeaf := { hasR := false, hasE := true, rv := 0, d := 7, e := 9, r := 0, q := 1 }

def stepNet (w sw : Nat) (hasReset hasInc : Bool) : KNet :=
  let rs := if hasReset then 2 else 5
  let ic := if hasInc then 3 else 4
  { wd := fun x => if x = 2 ∨ x = 3 ∨ x = 4 ∨ x = 9 ∨ x = 10 then 1 else if x = 11 then sw else w,
    kinds := [.const 0 5] ++ (if hasInc then [] else [.const 1 4]) ++
             [.mux2 ic 1 6 8, .mux2 rs 8 5 7, .or2 rs ic 9, .const 0 10, .addc 1 11 10 6],
    regs := [stepReg],
    order := if hasInc then [0, 4, 5, 3, 1, 2] else [0, 1, 5, 6, 4, 2, 3] }


def stepPokes (i : StepIn) : List (Nat × Int) := [(2, (i.reset : Int)), (3, (i.inc : Int)), (11, (i.step : Int))]



/-- DelayLine(a, en, reset, r, delay): wires a=1 r=2 en=3 reset=4 r{j}=5+j; `delay` Regs chained through the `last`
    wire, then Buf(last → r) -/
def delayReg (c : DelayCfg) (j : Nat) : RLeaf :=
  { hasR := c.hasReset, hasE := c.hasEn, rv := 0, d := if j = 0 then 1 else 4 + j, e := if c.hasEn then 3 else 0,
    r := if c.hasReset then 4 else 0, q := 5 + j }

def delayNet (c : DelayCfg) : KNet :=
  { wd := fun x => if x = 3 ∨ x = 4 then 1 else c.w,
    kinds := [.buf (if c.delay = 0 then 1 else 4 + c.delay) 2],
    regs := (List.range c.delay).map (delayReg c),
    order := [0] }

def delayPokes (i : DelayIn) : List (Nat × Int) := [(1, (i.a : Int)), (3, (i.en : Int)), (4, (i.reset : Int))]


/-- EdgeDetector(a, r, direction): wires a=1 r=2 z1=3 na=4 nz1=5, Xor2 internals r/Mid=6 r/XOut=7 r/YOut=8
    r/NandMid/Mid=9 r/NandX/Mid=10 r/NandY/Mid=11 r/NandR/Mid=12 (all 1 bit) -/
def edgeReg : RLeaf := { hasR := false, hasE := false, rv := 0, d := 1, e := 0, r := 0, q := 3 }

def edgeNet (dir : Dir) : KNet :=
  { wd := fun _ => 1,
    kinds := match dir with
      | .pos => [.not1 3 5, .and2 1 5 2]
      | .neg => [.not1 1 4, .and2 4 3 2]
      | .both => [.and2 1 3 9, .not1 9 6, .and2 1 6 10, .not1 10 7, .and2 3 6 11, .not1 11 8, .and2 7 8 12, .not1 12 2],
    regs := [edgeReg],
    order := match dir with
      | .pos => [0, 1]
      | .neg => [0, 1]
      | .both => [0, 1, 2, 3, 4, 5, 6, 7] }

def edgePokes (a : Nat) : List (Nat × Int) := [(1, (a : Int))]

/-- ShiftRegisterBidirectional(left_in, right_in, left_out, right_out, shift_left, shift_right, depth), depth ≥ 1:
    wires li=1 ri=2 lo=3 ro=4 sl=5 sr=6 shift=7 q_k=8+k rd_k=8+depth+k.  Combinational leaves in instantiation order:
    0 = Or2 shift, 1+k = Mux2 rd_k, depth+1 = Buf left_out, depth+2 = Buf right_out -/
def srbKind (depth k : Nat) : Kind :=
  if k = 0 then .or2 5 6 7
  else if k ≤ depth then
    .mux2 5 (if k - 1 = 0 then 1 else 8 + (k - 1) - 1) (if k - 1 = depth - 1 then 2 else 8 + (k - 1) + 1) (8 + depth + (k - 1))
  else if k = depth + 1 then .buf 8 3
  else .buf (8 + depth - 1) 4

def srbReg (depth k : Nat) : RLeaf :=
  { hasR := false, hasE := true, rv := 0, d := 8 + depth + k, e := 7, r := 0, q := 8 + k }

def srbNet (w depth : Nat) : KNet :=
  { wd := fun x => if x = 5 ∨ x = 6 ∨ x = 7 then 1 else w,
    kinds := (List.range (depth + 3)).map (srbKind depth),
    regs := (List.range depth).map (srbReg depth),
    order := List.range (depth + 3) }

def srbPokes (i : SrbIn) : List (Nat × Int) :=
  [(1, (i.leftIn : Int)), (2, (i.rightIn : Int)), (5, (i.shiftLeft : Int)), (6, (i.shiftRight : Int))]


/-- Stack_ShiftRegister(din, dout, push, pop, empty, full, depth), depth ≥ 1: Constant zerow, the ShiftRegisterBidirectional
    netlist with left_in = din, right_in = zerow, left_out = pre_dout, right_out = rout, shift_left = pop,
    shift_right = push, and Reg dout (enable = pop, d = pre_dout).  Wires din=1 zerow=2 pre_dout=3 rout=4 pop=5 push=6
    shift/shift=7 shift/q_k=8+k shift/rd_k=8+depth+k dout=8+2·depth.  Combinational leaf 0 = Constant, 1+k = SRB leaf k. -/
def stackKind (depth k : Nat) : Kind := if k = 0 then .const 0 2 else srbKind depth (k - 1)

def stackReg (depth k : Nat) : RLeaf :=
  if k < depth then srbReg depth k
  else { hasR := false, hasE := true, rv := 0, d := 3, e := 5, r := 0, q := 8 + 2 * depth }

def stackNet (w depth : Nat) : KNet :=
  { wd := fun x => if x = 5 ∨ x = 6 ∨ x = 7 then 1 else w,
    kinds := (List.range (depth + 4)).map (stackKind depth),
    regs := (List.range (depth + 1)).map (stackReg depth),
    order := List.range (depth + 4) }

def stackPokes (i : StackIn) : List (Nat × Int) := [(1, (i.din : Int)), (6, (i.push : Int)), (5, (i.pop : Int))]



/-- PipelinePhase(reset, ins, outs): n = number of lanes; wires reset=1 in_j=2+j out_j=2+n+j; one Reg with reset per lane,
    no combinational leaf -/
def pipeReg (n j : Nat) : RLeaf := { hasR := true, hasE := false, rv := 0, d := 2 + j, e := 0, r := 1, q := 2 + n + j }

def pipeNet (ws : List Nat) : KNet :=
  { wd := fun x => if x = 1 then 1 else if x < 2 + ws.length then ws.getD (x - 2) 1 else ws.getD (x - 2 - ws.length) 1,
    kinds := [],
    regs := (List.range ws.length).map (pipeReg ws.length),
    order := [] }

def pipePokes (n : Nat) (i : PipeIn) : List (Nat × Int) :=
  (1, (i.reset : Int)) :: (List.range n).map fun j => (2 + j, ((i.ins.getD j 0 : Nat) : Int))

def pipeOuts (n : Nat) : List Nat := (List.range n).map fun j => 2 + n + j


/-- a bare Reg(d, q, enable, reset, reset_value) as a netlist: wires d=1 (`dw` bits) q=2 (`w` bits) e=3 r=4 (`cw` bits each);
    the reset value is any natural number, also ≥ 2^w -/
def regLeaf (rv : Nat) (hasE hasR : Bool) : RLeaf :=
  { hasR := hasR, hasE := hasE, rv := rv, d := 1, e := if hasE then 3 else 0, r := if hasR then 4 else 0, q := 2 }

def regNet (w dw cw rv : Nat) (hasE hasR : Bool) : KNet :=
  { wd := fun x => if x = 1 then dw else if x = 2 then w else cw, kinds := [], regs := [regLeaf rv hasE hasR], order := [] }

def regPokes (i : RegIn) : List (Nat × Int) := [(3, (i.e : Int)), (4, (i.r : Int)), (1, (i.d : Int))]


/-! ### rendering for the comparison with the live dump -/
def nats (l : List Nat) : String := ",".intercalate (l.map toString)

/-- `<dump kind name> <cfg> : <ins in dump order> > <out>` -/
def kindStr : Kind → String
  | .and2 a b r => s!"And2  : {nats [a, b]} > {r}"
  | .or2 a b r => s!"Or2  : {nats [a, b]} > {r}"
  | .not1 a r => s!"Not  : {nats [a]} > {r}"
  | .buf a r => s!"Buf  : {nats [a]} > {r}"
  | .mux2 sel s0 s1 r => s!"Mux2  : {nats [sel, s1, s0]} > {r}"
  | .const v r => s!"Constant {v} :  > {r}"
  | .addc a b ci r => s!"AddCarryIn  : {nats [a, b, ci]} > {r}"

def kindWires : Kind → List Nat
  | .and2 a b r | .or2 a b r => [a, b, r]
  | .not1 a r | .buf a r => [a, r]
  | .mux2 sel s0 s1 r => [sel, s0, s1, r]
  | .const _ r => [r]
  | .addc a b ci r => [a, b, ci, r]

def regStr (R : RLeaf) : String :=
  s!"Reg {R.rv};{if R.hasE then 1 else 0};{if R.hasR then 1 else 0} : {nats [R.e, R.r, R.d]} > {R.q}"

def insertSorted (x : Nat) : List Nat → List Nat
  | [] => [x]
  | y :: t => if x < y then x :: y :: t else if x = y then y :: t else y :: insertSorted x t

/-- kinds ; registers ; schedule ; widths of the wires that occur -/
def KNet.render (K : KNet) : String :=
  let ws := (K.kinds.flatMap kindWires ++ K.regs.flatMap fun R => [R.d, R.e, R.r, R.q]).foldl (fun acc x => insertSorted x acc) []
  let ws := ws.filter (· ≠ 0)
  " ; ".intercalate (K.kinds.map kindStr) ++ " | " ++ " ; ".intercalate (K.regs.map regStr) ++ " | " ++ nats K.order ++ " | " ++
    ",".intercalate (ws.map fun x => s!"{x}:{K.wd x}")

end C09N
