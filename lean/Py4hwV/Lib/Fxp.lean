import Py4hwV.Lib.Arith
import Py4hwV.Lib.Relational
/-
  C14 — functional models of the fixed-point blocks: py4hw/logic/arithmetic_fxp.py (FixedPointAdd, FixedPointSign,
  FixedPointSub, FixedPointMult) and py4hw/logic/relational.py:614-676 (FixedPointComparator).

  ONE definition per constructor, written as the same composition of library blocks the Python constructor
  instantiates (`Lib.add`, `Lib.sub`, `Lib.signExtend`, `Lib.mul`, `Leaf.range`, `Leaf.bit`, `Lib.equalConstant`,
  `Leaf.not1`, `Leaf.and2` — the C07/C08 models, over the `Leaf.*` reference leaves that are bridged to the
  definitions generated from the Python `propagate()` bodies), every internal wire with the width the constructor
  gives it.  A format is the Python tuple `(sign, integer, fraction)`; `aw/bw/rw` are the widths of the wires the
  caller passes (the constructors assert `wire width = sum(format)`).  `…Legal` = the constructor AND the first
  propagation (which `getSimulator()` runs) do not raise.  Core-only imports (this file is run by Drv/C14.lean).
-/
namespace Lib
namespace Fxp
open Leaf

/-- the Python format tuple `(sign_bits, int_bits, frac_bits)` -/
structure Fmt where
  s : Nat
  i : Nat
  f : Nat
deriving Repr, DecidableEq, Inhabited

/-- `sum(af)` -/
def Fmt.width (q : Fmt) : Nat := q.s + q.i + q.f

/-! ### FixedPointAdd  arithmetic_fxp.py:15-31 -/

/-- asserts of lines 19-21 and 28-29 (then `Add` → `AddCarryIn` asserts `rw ≥ aw`, implied) -/
def addLegal (aw bw rw : Nat) (af bf rf : Fmt) : Bool :=
  decide (aw = af.width) && decide (bw = bf.width) && decide (rw = rf.width) && decide (af = bf) && decide (af = rf)

/-- `Add(self, 'q', a, b, r)`: no carry-in port (internal `Constant 0`), no carry-out -/
def add (rw : Nat) (a b : Nat) : Nat := (Lib.add rw 0 a b none).1

/-! ### FixedPointSub  arithmetic_fxp.py:45-61 -/

def subLegal (aw bw rw : Nat) (af bf rf : Fmt) : Bool := addLegal aw bw rw af bf rf

/-- `Sub(self, 'q', a, b, r)` -/
def sub (rw : Nat) (a b : Nat) : Nat := Lib.sub rw a b

/-! ### FixedPointSign  arithmetic_fxp.py:33-43 -/

/-- `assert(a.getWidth() == sum(af))`, `assert(af[0] == 1)` -/
def signLegal (aw : Nat) (af : Fmt) : Bool := decide (aw = af.width) && decide (af.s = 1)

/-- `Bit(self, 'sign', a, af[1]+af[2], s)`; `sw` = width of the wire `s` -/
def sign (af : Fmt) (sw : Nat) (a : Nat) : Nat := Leaf.bit sw a (af.i + af.f)

/-! ### FixedPointMult  arithmetic_fxp.py:63-87 -/

/-- asserts of lines 67-69; `SignExtend.propagate` evaluates `value >> (w-1)`: ValueError for a 0-bit operand;
    `Range.propagate` evaluates `value >> low` with `low = af[2]+bf[2]-rf[2]`: ValueError when the result format has
    more fraction bits than the product (`Range`'s own assert `high >= low` always holds: `high = low + rw`) -/
def multLegal (aw bw rw : Nat) (af bf rf : Fmt) : Bool :=
  decide (aw = af.width) && decide (bw = bf.width) && decide (rw = rf.width) &&
  decide (1 ≤ aw) && decide (1 ≤ bw) && decide (rf.f ≤ af.f + bf.f)

/-- `low = af[2]+bf[2]-rf[2]` (a Python int; `Nat` subtraction here: only used under `multLegal`) -/
def multLow (af bf rf : Fmt) : Nat := af.f + bf.f - rf.f

/-- `sa`, `sb`, `m` are `aw+bw` bits wide; `Range(self, 'r', m, high, low, r)` with `high = low + r.getWidth()`:
    a window of `rw+1` bits `[low, low+rw]` landing on the `rw`-bit wire `r` -/
def mult (aw bw rw : Nat) (af bf rf : Fmt) (a b : Nat) : Nat :=
  let sa := Lib.signExtend aw (aw + bw) a
  let sb := Lib.signExtend bw (aw + bw) b
  let m := Lib.mul (aw + bw) sa sb
  let low := multLow af bf rf
  let high := low + rw
  Leaf.range rw m high low

/-! ### FixedPointComparator  relational.py:614-676 -/

/-- `a.getWidth() != b.getWidth()` raises; `FixedPointSub(a, af, b, bf, sub, af)` asserts `aw = sum(af)`, `bw = sum(bf)`,
    `af == bf`; `FixedPointSign(sub, af, lt)` asserts `af[0] == 1` (so the width is ≥ 1 and `EqualConstant` is fine) -/
def comparatorLegal (aw bw : Nat) (af bf : Fmt) : Bool :=
  decide (aw = bw) && decide (aw = af.width) && decide (bw = bf.width) && decide (af = bf) && decide (af.s = 1)

/-- all three outputs connected.  `sub` has the width of `a`; `lt = FixedPointSign(sub)`, `eq = EqualConstant(sub, 0)`,
    `gt = And2(Not(eq), Not(lt))` with 1-bit `nLT`, `nEQ`.  `gw ew lw` = widths of the output wires.  returns `(gt, eq, lt)` -/
def comparator (aw : Nat) (af : Fmt) (gw ew lw : Nat) (a b : Nat) : Nat × Nat × Nat :=
  let sub := Fxp.sub aw a b
  let lt := Fxp.sign af lw sub
  let eq := Lib.equalConstant aw ew sub 0
  let notLT := Leaf.not1 1 lt
  let notEQ := Leaf.not1 1 eq
  let gt := Leaf.and2 gw notEQ notLT
  (gt, eq, lt)

/-! ### dispatcher for the driver.
    p = [aw, bw, rw, as, ai, af, bs, bi, bf, rs, ri, rf]  (Add/Sub/Mult),  [aw, sw, as, ai, af] (Sign),
        [aw, bw, gw, ew, lw, as, ai, af, bs, bi, bf] (Comparator);   `none` = raises -/
def g (l : List Nat) (i : Nat) : Nat := l.getD i 0

def eval (blk : String) (p x : List Nat) : Option (List Nat) :=
  let x0 := g x 0; let x1 := g x 1
  let guard (ok : Bool) (v : List Nat) : Option (List Nat) := if ok then some v else none
  match blk with
  | "FixedPointAdd" =>
    guard (addLegal (g p 0) (g p 1) (g p 2) ⟨g p 3, g p 4, g p 5⟩ ⟨g p 6, g p 7, g p 8⟩ ⟨g p 9, g p 10, g p 11⟩)
      [add (g p 2) x0 x1]
  | "FixedPointSub" =>
    guard (subLegal (g p 0) (g p 1) (g p 2) ⟨g p 3, g p 4, g p 5⟩ ⟨g p 6, g p 7, g p 8⟩ ⟨g p 9, g p 10, g p 11⟩)
      [sub (g p 2) x0 x1]
  | "FixedPointMult" =>
    guard (multLegal (g p 0) (g p 1) (g p 2) ⟨g p 3, g p 4, g p 5⟩ ⟨g p 6, g p 7, g p 8⟩ ⟨g p 9, g p 10, g p 11⟩)
      [mult (g p 0) (g p 1) (g p 2) ⟨g p 3, g p 4, g p 5⟩ ⟨g p 6, g p 7, g p 8⟩ ⟨g p 9, g p 10, g p 11⟩ x0 x1]
  | "FixedPointSign" =>
    guard (signLegal (g p 0) ⟨g p 2, g p 3, g p 4⟩) [sign ⟨g p 2, g p 3, g p 4⟩ (g p 1) x0]
  | "FixedPointComparator" =>
    let r := comparator (g p 0) ⟨g p 5, g p 6, g p 7⟩ (g p 2) (g p 3) (g p 4) x0 x1
    guard (comparatorLegal (g p 0) (g p 1) ⟨g p 5, g p 6, g p 7⟩ ⟨g p 8, g p 9, g p 10⟩) [r.1, r.2.1, r.2.2]
  | _ => none

end Fxp
end Lib
