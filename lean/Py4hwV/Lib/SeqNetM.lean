import Py4hwV.Lib.Seq
import Py4hwV.Emit.Cert
/-
  C09, netlist level, blocks whose netlists contain leaves with several outputs (BitsLSBF inside EqualConstant):
  ModuloCounter and ClockDivider, as `FlatM.NetD` values (C01's committed multi-output flat-netlist development) built
  from `FlatM.GKind` children in instantiation order.  The schedule (`Simulator.propagatables` after sorting) depends on
  the width and on the bit pattern of the modulus, so it is a PARAMETER of the builders: harness/c09.py passes the LIVE
  schedule, compares the rest of the netlist with `MNet.render`, and has the driver evaluate the decidable side
  conditions `MNet.okb` on that live instance; the theorems of Props/C09NetM.lean hold for every (w, n, schedule) with
  `okb = true`.
-/
namespace C09M
open Net FlatM Lib

structure MNet where
  wd : Nat → Nat
  kinds : List GKind
  regs : List RLeaf
  order : List Nat
  /-- wires the test bench pokes / register outputs: must not be driven by a combinational leaf -/
  frees : List Nat

def MNet.combs (K : MNet) : List CLeaf := K.kinds.flatMap (GKind.leaves K.wd)
def MNet.netD (K : MNet) : NetD := { wd := K.wd, combs := K.combs, regs := K.regs, order := K.order }

/-- decidable side conditions: the schedule is an evaluation order (`topoCheckG`) made of valid leaf ids and containing
    every leaf, no combinational leaf drives a poked wire or a register output, every child has the covered shape -/
def MNet.okb (K : MNet) : Bool :=
  CertSrc.topoCheckG (fun i => (K.combs.getD i default).ins) (fun i => (K.combs.getD i default).outs.map (·.1)) K.order &&
  K.order.all (fun i => decide (i < K.combs.length)) &&
  (List.range K.combs.length).all (fun i => K.order.contains i) &&
  K.combs.all (fun c => (c.outs.map (·.1)).all fun o => !K.frees.contains o) &&
  K.kinds.all (fun k => k.okb K.wd)

/-! ### ModuloCounter(mod = n, reset, inc, q, carryout)
    wires q=1 reset=2 inc=3 carryout=4 one=5 zero=6 add=7 d=8 d1=9 e_add=10 anyreset=11 add/ci=12,
    EqualConstant internals (w ≥ 2): b_i=13+i, Minterm n_i=13+w+i (exists where bit i of n-1 is 0), And ladder and_j=13+2w+j -/
def eqcBits (base w : Nat) : List Nat := if w = 1 then [] else (List.range w).map fun i => base + i
def eqcNs (base w : Nat) : List Nat := (List.range w).map fun i => base + w + i
def eqcTs (base w : Nat) : List Nat := (List.range (w - 2)).map fun j => base + 2 * w + j

def modReg : RLeaf := { hasR := false, hasE := true, rv := 0, d := 8, e := 10, r := 0, q := 1 }

def modKinds (w n : Nat) : List GKind :=
  [.prim (.const 1 5), .prim (.const 0 6), .prim (.or2 2 4 11), .prim (.mux2 3 1 7 9), .prim (.mux2 11 9 6 8),
   .prim (.or2 2 3 10), .prim (.const 0 12), .prim (.addc 1 5 12 7),
   .eqc 1 (n - 1) 4 (eqcBits 13 w) (eqcNs 13 w) (eqcTs 13 w)]

def modNet (w n : Nat) (order : List Nat) : MNet :=
  { wd := fun x => if x = 1 ∨ (5 ≤ x ∧ x ≤ 9) then w else 1,
    kinds := modKinds w n, regs := [modReg], order := order, frees := [1, 2, 3] }

def modPokes (i : CounterIn) : List (Nat × Int) := [(2, (i.reset : Int)), (3, (i.inc : Int))]

/-! ### ClockDivider(freq_in, freq_out, clkout, reset): n and the counter width qw as computed by the constructor.
    wires clkout=1 reset=2 (port, or the constant-0 wire `i1` when absent) q=3 t=4 i0=5 (the constant-1 `inc`),
    count/one=6 zero=7 add=8 d=9 d1=10 e_add=11 anyreset=12 add/ci=13, clkout/nq=14 clkout/d=15,
    count/eq internals from 16 -/
def divCntReg : RLeaf := { hasR := false, hasE := true, rv := 0, d := 9, e := 11, r := 0, q := 3 }
def divTffReg : RLeaf := { hasR := true, hasE := true, rv := 0, d := 15, e := 5, r := 2, q := 1 }

def divKinds (n qw : Nat) (hasReset : Bool) : List GKind :=
  [.prim (.const 1 5)] ++ (if hasReset then [] else [.prim (.const 0 2)]) ++
  [.prim (.const 1 6), .prim (.const 0 7), .prim (.or2 2 4 12), .prim (.mux2 5 3 8 10), .prim (.mux2 12 10 7 9),
   .prim (.or2 2 5 11), .prim (.const 0 13), .prim (.addc 3 6 13 8),
   .eqc 3 (n - 1) 4 (eqcBits 16 qw) (eqcNs 16 qw) (eqcTs 16 qw),
   .prim (.not1 1 14), .prim (.mux2 4 1 14 15)]

def divNet (n qw : Nat) (hasReset : Bool) (order : List Nat) : MNet :=
  { wd := fun x => if x = 3 ∨ (6 ≤ x ∧ x ≤ 10) then qw else 1,
    kinds := divKinds n qw hasReset, regs := [divCntReg, divTffReg], order := order,
    frees := if hasReset then [1, 2, 3] else [1, 3] }

def divPokes (hasReset : Bool) (reset : Nat) : List (Nat × Int) := if hasReset then [(2, (reset : Int))] else []

/-! ### what a test bench reads after each `poke; clk(1)` (as `C09N.netTrace`, on `FlatM.NetD`) -/
def netTrace {ι : Type} (D : NetD) (pokes : ι → List (Nat × Int)) (outs : List Nat) (s : State Int) : List ι → List (List Nat)
  | [] => []
  | i :: t =>
    let s' := clk D.design 1 ((pokes i).foldl (putW D.design) s)
    outs.map s'.val :: netTrace D pokes outs s' t

/-! ### rendering for the comparison with the live dump -/
def nats (l : List Nat) : String := ",".intercalate (l.map toString)

def primStr : Kind → String
  | .and2 a b r => s!"And2  : {nats [a, b]} > {r}"
  | .or2 a b r => s!"Or2  : {nats [a, b]} > {r}"
  | .not1 a r => s!"Not  : {nats [a]} > {r}"
  | .buf a r => s!"Buf  : {nats [a]} > {r}"
  | .mux2 sel s0 s1 r => s!"Mux2  : {nats [sel, s1, s0]} > {r}"
  | .const v r => s!"Constant {v} :  > {r}"
  | .addc a b ci r => s!"AddCarryIn  : {nats [a, b, ci]} > {r}"
  | _ => "(kind not used by the C09 netlists)"

def ladderStrs : Nat → List Nat → List Nat → List String
  | acc, x :: xs, o :: os => s!"And2  : {nats [acc, x]} > {o}" :: ladderStrs o xs os
  | _, _, _ => []

/-- one string per simulator leaf, in the order of `GKind.leaves` -/
def gkindStrs (wd : Nat → Nat) : GKind → List String
  | .prim p => [primStr p]
  | .eqc a v r bits ns ts =>
      if bits = [] then [if v = 0 then primStr (.not1 a r) else primStr (.buf a r)]
      else [s!"BitsLSBF {wd a} : {nats [a]} > {nats bits}"] ++
        ((List.range bits.length).filterMap fun i =>
          if v.testBit i then none else some (primStr (.not1 (bits.getD i 0) (ns.getD i 0)))) ++
        (match mintermParts v bits ns with
         | [] => []
         | [x] => [primStr (.buf x r)]
         | x :: rest => ladderStrs x rest (ts ++ [r]))
  | _ => ["(child not used by the C09 netlists)"]

def regStr (R : RLeaf) : String :=
  s!"Reg {R.rv};{if R.hasE then 1 else 0};{if R.hasR then 1 else 0} : {nats [R.e, R.r, R.d]} > {R.q}"

def primWires : Kind → List Nat
  | .and2 a b r | .or2 a b r => [a, b, r]
  | .not1 a r | .buf a r => [a, r]
  | .mux2 sel s0 s1 r => [sel, s0, s1, r]
  | .const _ r => [r]
  | .addc a b ci r => [a, b, ci, r]
  | _ => []

def gkindWires : GKind → List Nat
  | .prim p => primWires p
  | .eqc a v r bits ns ts =>
      [a, r] ++ bits ++ ((List.range bits.length).filterMap fun i => if v.testBit i then none else some (ns.getD i 0)) ++
        ts.take (bits.length - 2)
  | _ => []

def insertSorted (x : Nat) : List Nat → List Nat
  | [] => [x]
  | y :: t => if x < y then x :: y :: t else if x = y then y :: t else y :: insertSorted x t

/-- leaves ; registers ; widths of the wires that occur  (the schedule is an input, not rendered) -/
def MNet.render (K : MNet) : String :=
  let ws := (K.kinds.flatMap gkindWires ++ K.regs.flatMap fun R => [R.d, R.e, R.r, R.q]).foldl (fun acc x => insertSorted x acc) []
  let ws := ws.filter (· ≠ 0)
  " ; ".intercalate (K.kinds.flatMap (gkindStrs K.wd)) ++ " | " ++ " ; ".intercalate (K.regs.map regStr) ++ " | " ++
    ",".intercalate (ws.map fun x => s!"{x}:{K.wd x}")

end C09M
