import Py4hwV.Lib.Relational
import Py4hwV.Lib.LogicSpec
/-
  Positional ("dynamic") interface to the C08 models and specifications, used by Drv/C08.lean.
  `eval name P X` = (legal, model outputs, spec outputs when `X` is in the domain of the block's `_spec` theorem).
  `P` = constructor parameters (widths, constants, counts), `X` = input wire values.  Core Lean only.
-/
namespace Lib.Dyn
open Lib

structure Ans where
  legal : Bool
  model : List Nat
  spec : Option (List Nat)

def n (i : Int) : Nat := i.toNat
def allLt (w : Nat) (l : List Nat) : Bool := l.all fun x => decide (x < 2 ^ w)
def ok (m : List Nat) (dom : Bool) (s : List Nat) : Ans := ⟨true, m, if dom then some s else none⟩
def illegal : Ans := ⟨false, [], none⟩
def guard (legal : Bool) (a : Ans) : Ans := if legal then a else illegal
def t3 (p : Nat × Nat × Nat) : List Nat := [p.1, p.2.1, p.2.2]
def t5 (p : Nat × Nat × Nat × Nat × Nat) : List Nat := [p.1, p.2.1, p.2.2.1, p.2.2.2.1, p.2.2.2.2]
def t2 (p : Nat × Nat) : List Nat := [p.1, p.2]

def eval (name : String) (P : List Int) (X : List Nat) : Ans :=
  let p (k : Nat) : Nat := n (P.getD k 0)
  let x (k : Nat) : Nat := X.getD k 0
  match name with
  | "And2" => ok [Leaf.and2 (p 0) (x 0) (x 1)] true [LSpec.andN (p 0) [x 0, x 1]]
  | "Or2" => ok [Leaf.or2 (p 0) (x 0) (x 1)] true [LSpec.orN (p 0) [x 0, x 1]]
  | "Not" => ok [Leaf.not1 (p 0) (x 0)] true [LSpec.not1 (p 0) (x 0)]
  | "Buf" => ok [Leaf.buf (p 0) (x 0)] true [LSpec.buf (p 0) (x 0)]
  | "And" => guard (andNLegal X) <| ok [andN (p 0) X] true [LSpec.andN (p 0) X]
  | "Or" => guard (orNLegal X) <| ok [orN (p 0) X] true [LSpec.orN (p 0) X]
  | "Xor" =>
    let ws := (P.drop 1).map n
    guard (xorNLegal (ws.zip X)) <|
      ok [xorN (p 0) (ws.zip X)] ((ws.zip X).all fun wv => decide (wv.2 < 2 ^ wv.1)) [LSpec.xorN (p 0) X]
  | "Nor" => guard (orNLegal X) <|
      ok [norN (p 0) X] true [LSpec.norN (p 0) X]
  | "Nand2" => ok [nand2 (p 0) (p 1) (x 0) (x 1)] (decide (p 1 ≤ p 0) || decide (x 0 < 2 ^ p 0))
      [LSpec.nandN (p 1) [x 0, x 1]]
  | "Nor2" => ok [nor2 (p 0) (p 1) (x 0) (x 1)] true [LSpec.norN (p 1) [x 0, x 1]]
  | "Xor2" => ok [xor2 (p 0) (p 1) (p 2) (x 0) (x 1)] (decide (x 0 < 2 ^ p 0) && decide (x 1 < 2 ^ p 1))
      [LSpec.xorN (p 2) [x 0, x 1]]
  | "Bit" => ok [Leaf.bit (p 0) (x 0) (p 1)] (decide (1 ≤ p 0)) [LSpec.bit (x 0) (p 1)]
  | "Range" => guard (decide (p 2 ≤ p 1)) <| ok [Leaf.range (p 0) (x 0) (p 1) (p 2)] true [LSpec.range (p 0) (x 0) (p 1) (p 2)]
  | "BitsLSBF" => ok (bitsLSBF (p 0) (x 0)) true (LSpec.bitsLSBF (p 0) (x 0))
  | "BitsMSBF" => ok (bitsMSBF (p 0) (x 0)) true (LSpec.bitsMSBF (p 0) (x 0))
  | "ConcatenateMSBF" =>
    let ins := ((P.drop 1).map n).zip X
    guard (concatLegal (p 0) ins) <| ok [concatMSBF (p 0) ins] (ins.all fun wv => decide (wv.2 < 2 ^ wv.1)) [LSpec.concatMSBF ins]
  | "ConcatenateLSBF" =>
    let ins := ((P.drop 1).map n).zip X
    guard (concatLegal (p 0) ins) <| ok [concatLSBF (p 0) ins] (ins.all fun wv => decide (wv.2 < 2 ^ wv.1)) [LSpec.concatLSBF ins]
  | "Repeat" => ok [Leaf.repeat1 (p 0) (x 0)] (decide (x 0 < 2)) [LSpec.repeat1 (p 0) (x 0)]
  | "Constant" => ok [Leaf.const (p 0) (P.getD 1 0)] (decide (0 ≤ P.getD 1 0) && decide (p 1 < 2 ^ p 0)) [p 1]
  | "BufEnable" => guard (bufEnableLegal (p 0) (p 1) (p 2)) <|
      ok [bufEnable (p 2) (x 0) (x 1)] (decide (x 1 < 2)) [LSpec.bufEnable (p 2) (x 0) (x 1)]
  | "AndBits" => guard (bitsGateLegal (p 0)) <|
      ok [andBits (p 0) (p 1) (x 0)] (decide (1 ≤ p 1) && decide (x 0 < 2 ^ p 0)) [LSpec.andBits (p 0) (x 0)]
  | "OrBits" => guard (bitsGateLegal (p 0)) <|
      ok [orBits (p 0) (p 1) (x 0)] (decide (1 ≤ p 1) && decide (x 0 < 2 ^ p 0)) [LSpec.orBits (x 0)]
  | "Mux2" => ok [Leaf.mux2 (p 0) (x 0) (x 1) (x 2)] true [LSpec.mux2 (p 0) (x 0) (x 1) (x 2)]
  | "Mux" => guard (muxLegal (p 1) (p 2)) <|
      ok [mux (p 0) (p 1) (x 0) (X.drop 1)] (decide (1 ≤ p 1) && decide (x 0 < 2 ^ p 1)) [LSpec.mux (p 0) (x 0) (X.drop 1)]
  | "Demux" => guard (demuxLegal (p 1) (p 2)) <|
      ok (demux (p 0) (p 1) (x 0) (x 1)) (decide (x 1 < 2 ^ p 1)) (LSpec.demux (p 0) (p 1) (x 0) (x 1))
  | "Decoder" => guard (decoderLegal (p 0) (p 1)) <|
      ok (decoder (p 0) (x 0) (p 1)) (decide (x 0 < 2 ^ p 0) && decide (p 1 ≤ 2 ^ p 0)) (LSpec.decoder (x 0) (p 1))
  | "Select" | "OneHotMux" =>
    let ns := p 1
    let ws := (P.drop 2).map n
    let sels := X.take ns
    let ins := ws.zip (X.drop ns)
    guard (selectLegal ns ws.length) <| ok [select (p 0) sels ins] (allLt 1 sels) [LSpec.select (p 0) sels ins]
  | "OneHotDemux" =>
    let ows := (P.drop 2).map n
    let sels := X.drop 1
    guard (decide (sels.length ≤ ows.length)) <|
      ok (oneHotDemux (p 0) (x 0) sels ows) (allLt 1 sels) (LSpec.oneHotDemux (p 0) (x 0) sels ows)
  | "SelectDefault" =>
    let ns := p 1
    let ni := p 2
    let sels := X.take ns
    let ins := (X.drop ns).take ni
    let d := x (ns + ni)
    guard (selectDefaultLegal ns ni) <| ok [selectDefault (p 0) sels ins d] true [LSpec.selectDefault (p 0) sels ins d]
  | "PriorityEncoder" =>
    let inc := decide (p 2 = 1)
    ok (priorityEncoder (p 0) (p 1) inc X) (decide (p 1 ≤ p 0)) (LSpec.priorityEncoder (p 1) inc X)
  | "PriorityEncoderW" =>       -- exact characterisation for every mix of widths (C08.priorityEncoder_general)
    let inc := decide (p 2 = 1)
    ok (priorityEncoder (p 0) (p 1) inc X) true (LSpec.priorityEncoderW (p 0) (p 1) inc X)
  | "Minterm" => guard (andNLegal X) <|
      ok [minterm (p 0) X (P.getD 1 0)] (decide (1 ≤ p 0) && allLt 1 X) [LSpec.minterm X (P.getD 1 0)]
  | "SumOfMinterms" =>
    let ms := P.drop 2
    guard (sumOfMintermsLegal (p 0) ms) <|
      ok [sumOfMinterms (p 0) (p 1) (x 0) ms]
        (decide (1 ≤ p 1) && decide (x 0 < 2 ^ p 0) && ms.all fun m => decide (0 ≤ m) && decide (m < (2:Int) ^ p 0))
        [LSpec.sumOfMinterms (x 0) ms]
  | "SumOfMintermsWrap" =>      -- every list of Python ints (C08.sumOfMinterms_wrap)
    let ms := P.drop 2
    guard (sumOfMintermsLegal (p 0) ms) <|
      ok [sumOfMinterms (p 0) (p 1) (x 0) ms] (decide (1 ≤ p 1) && decide (x 0 < 2 ^ p 0)) [LSpec.sumOfMintermsWrap (p 0) (x 0) ms]
  | "EqualConstantW" =>         -- result wire of any width, any constant (C08.equalConstant_wide)
    let v := P.getD 2 0
    guard (equalConstantLegal (p 0)) <|
      ok [equalConstant (p 0) (p 1) (x 0) v] (decide (x 0 < 2 ^ p 0)) [LSpec.equalConstantW (p 0) (p 1) (x 0) v]
  | "NotEqualConstantW" =>
    let v := P.getD 2 0
    guard (equalConstantLegal (p 0)) <|
      ok [notEqualConstant (p 0) (p 1) (x 0) v] (decide (x 0 < 2 ^ p 0)) [LSpec.notEqualConstantW (p 0) (p 1) (x 0) v]
  | "EqualW" => guard (equalLegal (p 0)) <|
      ok [equal (p 0) (p 1) (p 2) (x 0) (x 1)] (allLt (p 0) X && decide (x 1 < 2 ^ p 1)) [LSpec.equalW (p 2) (x 0) (x 1)]
  | "ComparatorW" => guard (comparatorLegal (p 0) (p 3)) <|
      ok (t3 (comparator (p 0) (p 1) (p 2) (x 0) (x 1))) (decide (1 ≤ p 2) && allLt (p 0) X)
        (t3 (LSpec.comparatorW (p 0) (p 1) (p 2) (x 0) (x 1)))
  | "EqualConstant" =>
    let v := P.getD 2 0
    guard (equalConstantLegal (p 0)) <|
      ok [equalConstant (p 0) (p 1) (x 0) v]
        (decide (p 1 = 1) && decide (x 0 < 2 ^ p 0) && decide (0 ≤ v) && decide (v < (2:Int) ^ p 0)) [LSpec.equalConstant (x 0) v]
  | "EqualConstantWrap" =>
    let v := P.getD 2 0
    guard (equalConstantLegal (p 0)) <|
      ok [equalConstant (p 0) (p 1) (x 0) v] (decide (p 1 = 1) && decide (x 0 < 2 ^ p 0)) [LSpec.equalConstantWrap (p 0) (x 0) v]
  | "NotEqualConstant" =>
    let v := P.getD 2 0
    guard (equalConstantLegal (p 0)) <|
      ok [notEqualConstant (p 0) (p 1) (x 0) v]
        (decide (p 1 = 1) && decide (x 0 < 2 ^ p 0) && decide (0 ≤ v) && decide (v < (2:Int) ^ p 0)) [LSpec.notEqualConstant (x 0) v]
  | "Equal" => guard (equalLegal (p 0)) <|
      ok [equal (p 0) (p 1) (p 2) (x 0) (x 1)] (decide (p 2 = 1) && allLt (p 0) X && decide (x 1 < 2 ^ p 1)) [LSpec.equal (x 0) (x 1)]
  | "AnyEqual" =>
    let ws := (P.drop 1).map n
    let ins := ws.zip X
    guard (anyEqualLegal ins) <|
      ok [anyEqual (p 0) ins] (decide (1 ≤ p 0) && ws.all (· = ws.headD 0) && allLt (ws.headD 0) X) [LSpec.anyEqual X]
  | "Comparator" => guard (comparatorLegal (p 0) (p 3)) <|
      ok (t3 (comparator (p 0) (p 1) (p 2) (x 0) (x 1))) (decide (p 1 = 1) && decide (p 2 = 1) && allLt (p 0) X)
        (t3 (LSpec.comparator (x 0) (x 1)))
  | "ComparatorSignedUnsigned" => guard (comparatorSULegal (p 0) (p 1)) <|
      ok (t5 (comparatorSU (p 0) (x 0) (x 1))) (allLt (p 0) X) (t5 (LSpec.comparatorSU (p 0) (x 0) (x 1)))
  | "Max2" => ok [max2 (p 0) (p 1) (x 0) (x 1)] (allLt (p 0) X) [LSpec.max2 (p 1) (x 0) (x 1)]
  | "Min2" => ok [min2 (p 0) (p 1) (x 0) (x 1)] (allLt (p 0) X) [LSpec.min2 (p 1) (x 0) (x 1)]
  | "SignedMax2" => guard (decide (1 ≤ p 0)) <|
      ok [signedMax2 (p 0) (p 1) (x 0) (x 1)] (allLt (p 0) X) [LSpec.signedMax2 (p 0) (p 1) (x 0) (x 1)]
  | "SignedMin2" => guard (decide (1 ≤ p 0)) <|
      ok [signedMin2 (p 0) (p 1) (x 0) (x 1)] (allLt (p 0) X) [LSpec.signedMin2 (p 0) (p 1) (x 0) (x 1)]
  | "Swap" => ok (t2 (swap (p 0) (p 1) (x 0) (x 1) (x 2))) true (t2 (LSpec.swap (p 0) (p 1) (x 0) (x 1) (x 2)))
  | _ => ⟨false, [], none⟩

/-- input vector number `k` of the exhaustive enumeration over widths `ws` (input 0 in the low bits) -/
def vecOf (ws : List Nat) (k : Nat) : List Nat :=
  (ws.foldl (fun (acc : List Nat × Nat) w => (acc.1 ++ [acc.2 % 2 ^ w], acc.2 / 2 ^ w)) ([], k)).1

def showNats (l : List Nat) : String := ",".intercalate (l.map toString)

/-- `E` = constructor raises; `<model>` when spec agrees; `<model>#<spec>` when they differ; `<model>#-` outside the domain -/
def showAns (a : Ans) : String :=
  if !a.legal then "E" else
  match a.spec with
  | none => showNats a.model ++ "#-"
  | some s => if s == a.model then showNats a.model else showNats a.model ++ "#" ++ showNats s

def known (name : String) : Bool := (eval name [] []).legal || name ∈
  ["And", "Or", "Xor", "Nor", "Range", "ConcatenateMSBF", "ConcatenateLSBF", "BufEnable", "AndBits", "OrBits", "Mux", "Demux",
   "Decoder", "Select", "OneHotMux", "OneHotDemux", "SelectDefault", "Minterm", "SumOfMinterms", "EqualConstant",
   "EqualConstantWrap", "NotEqualConstant", "Equal", "AnyEqual", "Comparator", "ComparatorSignedUnsigned", "SignedMax2",
   "SignedMin2", "SumOfMintermsWrap", "EqualConstantW", "NotEqualConstantW", "EqualW", "ComparatorW"]

end Lib.Dyn
