import Py4hwV.Core.Bits
/-
  C14 — the SPECIFICATION side: "fixed-point blocks agree with exact scaled-integer arithmetic".
  An encoding `x` on `w = s+i+f` bits denotes the rational  val = sgn w x / 2^f  (two's complement reading scaled
  by the fraction width).  Everything here is exact integer arithmetic on the scaled integers (`Int`) — and, for
  the value-level statements of Props/C14.lean, exact rationals (`Rat`, Lean core).  No reference to the library's
  structure; imports Core only, so the oracle stays executable when a generated definition or a bridge breaks.
-/
namespace FxpSpec
open Bits

/-- two's-complement reading of the low `w` bits -/
def sgn (w x : Nat) : Int := Bits.toSigned w (x % 2^w)

/-- the value an encoding denotes: `val w f x = sgn w x / 2^f` -/
def val (w f x : Nat) : Rat := (sgn w x : Rat) / ((2:Rat)^f)

/-- encoding of the exact sum / difference reduced modulo the format width -/
def add (w a b : Nat) : Nat := Bits.put w (sgn w a + sgn w b)
def sub (w a b : Nat) : Nat := Bits.put w (sgn w a - sgn w b)

/-- rescale a scaled integer from `fromF` to `toF` fraction bits by truncation (floor = dropping low bits of the
    two's-complement number; exact when `toF ≥ fromF`):  ⌊P · 2^toF / 2^fromF⌋ -/
def rescale (P : Int) (fromF toF : Nat) : Int := (P * (2:Int)^toF) / (2:Int)^fromF

/-- the exact product of the two signed values (`af+bf` fraction bits) rescaled by truncation to the result format,
    encoded on `rw` bits -/
def mult (aw bw rw af bf rf a b : Nat) : Nat := Bits.put rw (rescale (sgn aw a * sgn bw b) (af + bf) rf)

def isNeg (w a : Nat) : Nat := if sgn w a < 0 then 1 else 0

def b2n (b : Bool) : Nat := if b then 1 else 0

/-- `(gt, eq, lt)`: order of the signed values (equal formats, so the order of the scaled integers) -/
def comparator (w a b : Nat) : Nat × Nat × Nat :=
  (b2n (decide (sgn w b < sgn w a)), b2n (decide (sgn w a = sgn w b)), b2n (decide (sgn w a < sgn w b)))

/-- "the difference is representable": `a − b` is itself a value of the operands' format -/
def diffRepresentable (w a b : Nat) : Bool :=
  decide (-(2:Int)^(w-1) ≤ sgn w a - sgn w b) && decide (sgn w a - sgn w b < (2:Int)^(w-1))

/-! finding classes of FixedPointMult (complements of the hypotheses of `C14.fxpMult_spec_partial`) -/

/-- the result format has more fraction bits than the product: `low < 0`, the block cannot be simulated -/
def multNegLow (af bf rf : Nat) : Bool := decide (af + bf < rf)
/-- the window `[low, low+rw)` reaches above the `aw+bw`-bit product wire and the product is negative:
    zeros instead of sign bits -/
def multWide (aw bw rw af bf rf a b : Nat) : Bool :=
  decide (aw + bw < (af + bf - rf) + rw) && decide (sgn aw a * sgn bw b < 0)

def g (l : List Nat) (i : Nat) : Nat := l.getD i 0

/-- same parameter encoding as `Lib.Fxp.eval`: (expected outputs, class).
    class "" = inside the proved domain; "cmp-diff-not-representable" = exempted by the property itself (only `eq` is
    specified there); other names = finding classes -/
def eval (blk : String) (p x : List Nat) : Option (List Nat × String) :=
  let x0 := g x 0; let x1 := g x 1
  match blk with
  | "FixedPointAdd" => some ([add (g p 2) x0 x1], "")
  | "FixedPointSub" => some ([sub (g p 2) x0 x1], "")
  | "FixedPointMult" =>
    some ([mult (g p 0) (g p 1) (g p 2) (g p 5) (g p 8) (g p 11) x0 x1],
      if multNegLow (g p 5) (g p 8) (g p 11) then "mult-negative-low"
      else if multWide (g p 0) (g p 1) (g p 2) (g p 5) (g p 8) (g p 11) x0 x1 then "mult-wide-result" else "")
  | "FixedPointSign" => some ([isNeg (g p 0) x0], "")
  | "FixedPointComparator" =>
    let r := comparator (g p 0) x0 x1
    some ([r.1, r.2.1, r.2.2], if diffRepresentable (g p 0) x0 x1 then "" else "cmp-diff-not-representable")
  | _ => none

end FxpSpec
