import Py4hwV.Core.Bits
import Py4hwV.Lib.LogicSpec
/-
  C13 — the SPECIFICATION side, plain integer arithmetic, no reference to the library's structure (imports Core only, so
  the property's oracle stays executable through Drv/C13Spec.lean even when a generated definition or a model no
  longer compiles).

  Value function.  Every finite single-precision number is an integer multiple of 2^-149, so the real value of a NORMAL
  encoding `x` (exponent field 1..254) is represented EXACTLY by the integer

        sval x = (−1)^sign · (2^23 + frac) · 2^(exp − 1)            ( real value = sval x · 2^-149 )

  (`C13.decode_normal` ties this to `Helper.IEEE.decode IEEE.single`).  Sums of two values are then integers in the same
  unit, products are integers in units of 2^-298, and the property's inequalities are integer inequalities:
    normal range  2^-126 ≤ |v| < 2^128      ⇔   2^23 ≤ |v·2^149| < 2^277
    ulp of a normal encoding with exponent field e  =  2^(e−150)   ⇔   2^(e−1) units
-/
namespace FpSpec

def signOf (x : Nat) : Nat := x / 2^31 % 2
def expOf (x : Nat) : Nat := x / 2^23 % 2^8
def fracOf (x : Nat) : Nat := x % 2^23

/-- a finite, normal single-precision encoding -/
def normal (x : Nat) : Bool := decide (x < 2^32) && decide (1 ≤ expOf x) && decide (expOf x ≤ 254)

/-- the 24-bit significand `1.f` as an integer -/
def mant (x : Nat) : Nat := 2^23 + fracOf x
/-- |value| · 2^149 -/
def mag (x : Nat) : Nat := mant x * 2^(expOf x - 1)
/-- value · 2^149 -/
def sval (x : Nat) : Int := if signOf x = 1 then -(mag x : Int) else (mag x : Int)
/-- one unit in the last place of the normal encoding `x`, in units of 2^-149 -/
def ulp (x : Nat) : Nat := 2^(expOf x - 1)

open Lib.LSpec (b2n)

/-- an integer `v` (units of 2^-149) is the value of some normal number's range: 2^-126 ≤ |v| < 2^128 -/
def inNormalRange (v : Int) : Bool := decide (2^23 ≤ v.natAbs) && decide (v.natAbs < 2^277)

/-! ### comparator -/
def cmp (a b : Nat) : Nat × Nat × Nat :=
  (b2n (decide (sval b < sval a)), b2n (decide (sval a = sval b)), b2n (decide (sval a < sval b)))
def cmpAbs (a b : Nat) : Nat × Nat × Nat :=
  (b2n (decide (mag b < mag a)), b2n (decide (mag a = mag b)), b2n (decide (mag a < mag b)))

/-! ### integer → float -/
/-- the signed reading of a 32-bit word -/
def int32 (a : Nat) : Int := Bits.toSigned 32 (a % 2^32)
/-- number of low bits that do not fit a 24-bit significand -/
def dropBits (n : Nat) : Nat := (Nat.log2 n + 1) - 24
/-- `n` truncated (toward zero) to 24 significant bits -/
def truncSig (n : Nat) : Nat := n / 2^(dropBits n) * 2^(dropBits n)
def lostSig (n : Nat) : Bool := decide (n % 2^(dropBits n) ≠ 0)

/-- expected `(value·2^149, p_lost)` of InttoFP_SP on the 32-bit word `a` -/
def i2f (a : Nat) : Int × Nat :=
  let x := int32 a
  ((if x < 0 then -1 else 1) * ((truncSig x.natAbs : Nat) : Int) * 2^149, b2n (lostSig x.natAbs))

/-- oracle: observed `(r, p_lost)` for input word `a` -/
def i2fOk (a r pl : Nat) : Bool :=
  let e := i2f a
  (if int32 a = 0 then r == 0 else (normal r && decide (sval r = e.1))) && pl == e.2

/-- fixed point `(aw, f1)` (FixedPointtoFP_SP, format tuple f = (sign, f1, aw−1−f1)): the `aw`-bit two's-complement word `a`
    denotes `x · 2^(f1 + 1 − aw)`, `x = toSigned aw a`.  Biased exponent of that exact value (n = |x| ≠ 0):
    ⌊log2 (n · 2^(f1+1−aw))⌋ + 127.  The exact value is in the NORMAL range iff this is in 1..254. -/
def fxBiased (aw : Nat) (f1 : Int) (n : Nat) : Int := (n.log2 : Int) + f1 + 128 - (aw : Int)
/-- the domain of the conversion's value claim: a legal width, an `aw`-bit word, and the exact value 0 or normal -/
def fxDomain (aw : Nat) (f1 : Int) (a : Nat) : Bool :=
  let x := Bits.toSigned aw (a % 2^aw)
  decide (1 ≤ aw) && decide (aw ≤ 32) && decide (a < 2^aw) &&
    (decide (x = 0) || (decide (1 ≤ fxBiased aw f1 x.natAbs) && decide (fxBiased aw f1 x.natAbs ≤ 254)))
/-- oracle: observed `(r, p_lost)`: zero ↦ +0; otherwise `r` is a normal encoding of `x·2^(f1+1−aw)` truncated toward zero to
    24 significant bits — stated with both sides scaled by 2^aw so that it is an integer equation for EVERY format:
    `sval r · 2^aw = ± truncSig |x| · 2^(f1+150)` (inside `fxDomain`, f1 + 150 ≥ 24) — and p_lost = [truncation discarded ≠ 0] -/
def fx2fOk (aw : Nat) (f1 : Int) (a r pl : Nat) : Bool :=
  let x := Bits.toSigned aw (a % 2^aw)
  (if x = 0 then r == 0 else
     (normal r && decide (0 ≤ f1 + 150) &&
      decide (sval r * 2^aw = (if x < 0 then -1 else 1) * ((truncSig x.natAbs : Nat) : Int) * 2^(f1 + 150).toNat)))
  && pl == b2n (lostSig x.natAbs)

/-! ### float → integer -/
/-- |x| < 2^31 -/
def fitsInt (a : Nat) : Bool := decide (mag a < 2^180)
/-- trunc(x) as a 32-bit two's-complement word -/
def f2iR (a : Nat) : Nat :=
  Bits.put 32 ((if signOf a = 1 then -1 else 1) * ((mag a / 2^149 : Nat) : Int))
/-- truncation discarded something -/
def f2iLost (a : Nat) : Bool := decide (mag a % 2^149 ≠ 0)

/-- oracle for a normal input; `""` = ok, otherwise the name of the output that is wrong -/
def f2iCheck (a r pl dn inv : Nat) : String :=
  if dn ≠ 0 then "denorm"
  else if fitsInt a then
    (if inv ≠ 0 then "invalid" else if r ≠ f2iR a then "r" else if pl ≠ b2n (f2iLost a) then "p_lost" else "")
  else (if inv ≠ 1 then "invalid" else "")

/-- known-finding class: the integer part is odd and nothing was discarded (bit 32 of `shifted` leaks into p_lost) -/
def f2iOddClass (a : Nat) : Bool := fitsInt a && !f2iLost a && decide (mag a / 2^149 % 2 = 1)

/-! ### multiplier -/
/-- exact product in units of 2^-298 -/
def prod (a b : Nat) : Int := sval a * sval b
def prodNormal (a b : Nat) : Bool := decide (2^172 ≤ (prod a b).natAbs) && decide ((prod a b).natAbs < 2^426)
/-- `r` normal and |decode r − a·b| < 1 ulp(r) -/
def mulOk (a b r : Nat) : Bool :=
  normal r && decide ((sval r * 2^149 - prod a b).natAbs < ulp r * 2^149)

/-- TIGHTENED multiplier statement (theorem `C13.fpmul_tight`; the property's own bound is `mulOk`): the result has the sign
    sa xor sb, is obtained by truncation TOWARD ZERO (|r| ≤ |a·b|) and the error is below one ulp of the result -/
def mulTight (a b r : Nat) : Bool :=
  normal r && decide (signOf r = (signOf a + signOf b) % 2) &&
  decide (mag r * 2^149 ≤ mag a * mag b) && decide (mag a * mag b - mag r * 2^149 < ulp r * 2^149)

/-! ### adder -/
def sum (a b : Nat) : Int := sval a + sval b
def sumNormal (a b : Nat) : Bool := inNormalRange (sum a b)
/-- ulp of the operand of larger magnitude -/
def ulpMax (a b : Nat) : Nat := 2^(max (expOf a) (expOf b) - 1)
/-- `r` normal, sign of the exact sum, |decode r − (a+b)| < 2 ulp(larger operand) -/
def addOk (a b r : Nat) : Bool :=
  normal r && decide ((sval r < 0) = (sum a b < 0)) && decide ((sval r - sum a b).natAbs < 2 * ulpMax a b)
/-- TIGHTENED adder statement (theorem `C13.fpadd_tight`; the property's own bound is `addOk`):
    effective addition (equal signs): truncation toward zero (|r| ≤ |a+b|), error below ONE ulp of the RESULT;
    effective subtraction (opposite signs): |r| ≥ |a+b| (the aligned operand is truncated before it is subtracted) and the
    error is below ONE ulp of the operand of larger magnitude -/
def addTight (a b r : Nat) : Bool :=
  if signOf a = signOf b then
    decide (mag r ≤ (sum a b).natAbs) && decide ((sval r - sum a b).natAbs < ulp r)
  else
    decide ((sum a b).natAbs ≤ mag r) && decide ((sval r - sum a b).natAbs < ulpMax a b)
def expGap (a b : Nat) : Nat := max (expOf a) (expOf b) - min (expOf a) (expOf b)
/-- known-finding class: exponent gap ≥ 32 (complement of the hypothesis of `fpadd_sign_ulp_partial`) -/
def gapClass (a b : Nat) : Bool := decide (32 ≤ expGap a b)

/-! ### operands OUTSIDE the property's domain (zero, subnormal, ∞, NaN): value / order keys used by the characterisation
    theorems `C13.fpcmp_total_order`, `C13.fpcmp_abs_all`, `C13.fpcmp_finite` (not part of the property's oracle) -/
/-- |value|·2^149 of ANY finite encoding: exponent field 0 (zero, subnormal) denotes `frac·2^-149`, otherwise `mag`.  Continued
    formally on exponent field 255 (∞ ↦ 2^128·2^149, NaNs above it by payload), where it is only an order key. -/
def magx (x : Nat) : Nat := if expOf x = 0 then fracOf x else mag x
/-- value·2^149 of any finite encoding (+0 and −0 both 0) -/
def svalx (x : Nat) : Int := if signOf x = 1 then -(magx x : Int) else (magx x : Int)
/-- key of the IEEE-754 `totalOrder` predicate: −NaN < −∞ < negative finite < −0 < +0 < positive finite < +∞ < +NaN -/
def tkey (x : Nat) : Int := if signOf x = 1 then -(magx x : Int) - 1 else (magx x : Int)
/-- an encoding of a finite number or ±∞ (not NaN) -/
def notNaN (x : Nat) : Bool := decide (expOf x ≤ 254) || decide (fracOf x = 0)

/-! ### characterisation checks outside the domain (what `C13.fpcmp_totalOrder`, `fpcmp_abs_total`, `fpmul_zero_operand`,
    `fpadd_zero_operand`, `fpadd_exact_cancellation` say the blocks do), evaluated on the OBSERVED outputs of the real blocks.
    `none` = no characterisation theorem covers this input.  A failure here is NOT a violation of the property (it claims
    nothing there): the harness reports it as a model-vs-implementation disagreement. -/
def isZeroEnc (x : Nat) : Bool := decide (expOf x = 0) && decide (fracOf x = 0)
def charCheck (blk : String) (a b : Nat) (o : List Nat) : Option Bool :=
  match blk with
  | "cmp" => some (o == [b2n (decide (tkey b < tkey a)), b2n (decide (tkey a = tkey b)), b2n (decide (tkey a < tkey b))])
  | "cmpabs" => some (o == [b2n (decide (magx b < magx a)), b2n (decide (magx a = magx b)), b2n (decide (magx a < magx b))])
  | "mul" =>
    if isZeroEnc a then some (o == [((signOf a + signOf b) % 2) * 2^31 + ((expOf b + 129) % 256) * 2^23])
    else if isZeroEnc b then some (o == [((signOf a + signOf b) % 2) * 2^31 + ((expOf a + 129) % 256) * 2^23])
    else none
  | "add" =>
    if isZeroEnc b && decide (1 ≤ expOf a) then some (o == [a])
    else if isZeroEnc a && decide (1 ≤ expOf b) then some (o == [b])
    else if decide (1 ≤ expOf a) && decide (expOf a = expOf b) && decide (fracOf a = fracOf b) && decide (signOf a ≠ signOf b) then
      some (o == [signOf a * 2^31 + ((expOf a + 232) % 256) * 2^23])
    else none
  | _ => none
def outVerdict (blk : String) (a b : Nat) (o : List Nat) : String :=
  if a < 2^32 && b < 2^32 then
    match charCheck blk a b o with
    | some true => "out:char-ok"
    | some false => "out:char-FAIL"
    | none => "out"
  else "out"

/-! ### oracle dispatcher: block, params, inputs, OBSERVED outputs ↦ (verdict, class)
    verdict: "ok" (property holds, tightened bound too) | "ok-not-tight" (property holds, `mulTight`/`addTight` does not: model and
    implementation must differ) | "out" / "out:char-ok" / "out:char-FAIL" (inputs outside the property's domain, with the
    characterisation check where one exists) | "FAIL:<what>"; class: "" or a known-finding class -/
def g (l : List Nat) (i : Nat) : Nat := l.getD i 0
def showT (t : Nat × Nat × Nat) : String := s!"{t.1},{t.2.1},{t.2.2}"

def oracle (blk : String) (p : List Int) (x o : List Nat) : String × String :=
  let a := g x 0
  let b := g x 1
  match blk with
  | "cmp" =>
    if normal a && normal b then
      (if [ (cmp a b).1, (cmp a b).2.1, (cmp a b).2.2 ] = o then "ok" else s!"FAIL:expected {showT (cmp a b)}", "")
    else (outVerdict blk a b o, "")
  | "cmpabs" =>
    if normal a && normal b then
      (if [ (cmpAbs a b).1, (cmpAbs a b).2.1, (cmpAbs a b).2.2 ] = o then "ok" else s!"FAIL:expected {showT (cmpAbs a b)}", "")
    else (outVerdict blk a b o, "")
  | "i2f" =>
    if a < 2^32 then
      (if i2fOk a (g o 0) (g o 1) then "ok" else s!"FAIL:expected value*2^149 = {(i2f a).1} p_lost = {(i2f a).2}", "")
    else ("out", "")
  | "fx2f" =>
    let aw := (p.getD 0 0).toNat
    if fxDomain aw (p.getD 1 0) a then
      (if fx2fOk aw (p.getD 1 0) a (g o 0) (g o 1) then "ok" else "FAIL:fixed-point value / p_lost", "")
    else ("out", "")
  | "f2i" =>
    if normal a then
      let c := f2iCheck a (g o 0) (g o 1) (g o 2) (g o 3)
      (if c = "" then "ok" else s!"FAIL:{c} expected r={f2iR a} p_lost={b2n (f2iLost a)} invalid={b2n (!fitsInt a)}",
       if f2iOddClass a then "f2i-plost-odd-integer" else "")
    else ("out", "")
  | "mul" =>
    if normal a && normal b && prodNormal a b then
      (if mulOk a b (g o 0) then (if mulTight a b (g o 0) then "ok" else "ok-not-tight")
       else s!"FAIL:abs(r*2^149 - a*b) >= ulp(r)*2^149 or r not normal; a*b = {prod a b}", "")
    else (outVerdict blk a b o, "")
  | "add" =>
    if normal a && normal b && sumNormal a b then
      (if addOk a b (g o 0) then (if addTight a b (g o 0) then "ok" else "ok-not-tight")
       else s!"FAIL:sign or abs(r - (a+b)) >= 2 ulp; a+b = {sum a b} ulpMax = {ulpMax a b}",
       if gapClass a b then "fpadd-exponent-gap-ge-32" else "")
    else (outVerdict blk a b o, if gapClass a b then "fpadd-exponent-gap-ge-32" else "")
  | "parts" => ("out", "")     -- field extraction: no property statement of its own (model-vs-real only)
  | "raw" => ("out", "")
  | _ => ("bad-op", "")

end FpSpec
