import Py4hwV.Lib.Bitwise
/-
  Functional models of the constructors of py4hw/logic/relational.py (integer comparators; the FP / fixed-point
  comparators belong to C13/C14), same structure as the Python, over `Leaf.*` and `Lib.*` of Lib/Bitwise.lean
  (`equalConstant`, `notEqualConstant` live there because `Decoder`/`Demux` need them).
  Names in this file are imported by C07/C13/C14 — keep them stable.
-/
namespace Lib
open Leaf

/-- `Sign(a, r)` arithmetic.py:244-269 as used by the comparators: `Bit(a, a.getWidth()-1, r)`, `r` 1 bit wide (asserted) -/
def cmpSign (aw a : Nat) : Nat := Leaf.bit 1 a (aw - 1)

/-- `Equal(a, b, r)` relational.py:123-175; `xor` has the width of `a`.  width 1: Xor2 + Not; else Xor2, BitsLSBF, Nor
    (whose `Mid` has the width of `r`) -/
def equal (aw bw rw a b : Nat) : Nat :=
  let x := xor2 aw bw aw a b
  if aw = 1 then Leaf.not1 rw x else norN rw (bitsLSBF aw x)
def equalLegal (aw : Nat) : Bool := decide (1 ≤ aw)

/-- `AnyEqual(ins, r)` relational.py:11-46: `Equal` for every ordered pair `i ≠ j` (1-bit wires), then `Or`.
    `ins` are `(width, value)` -/
def anyEqualChecks (ins : List (Nat × Nat)) : List Nat :=
  (List.range ins.length).flatMap fun i => (List.range ins.length).filterMap fun j =>
    if i ≠ j then some (equal (ins.getD i (0, 0)).1 (ins.getD j (0, 0)).1 1 (ins.getD i (0, 0)).2 (ins.getD j (0, 0)).2)
    else none
def anyEqual (rw : Nat) (ins : List (Nat × Nat)) : Nat := orN rw (anyEqualChecks ins)
def anyEqualLegal (ins : List (Nat × Nat)) : Bool := decide (2 ≤ ins.length) && ins.all (fun p => decide (1 ≤ p.1))

/-- `Comparator(a, b, gt, eq, lt)` relational.py:177-233: `sub` is `w+1` bits wide, `lt` its sign bit,
    `eq = EqualConstant(sub, 0)`, `gt = ¬eq ∧ ¬lt` (1-bit helper wires).  returns `(gt, eq, lt)`;
    `gw`, `ew` are the widths of the `gt`, `eq` output wires (`lt` is asserted to be 1 bit by `Sign`) -/
def comparator (w gw ew a b : Nat) : Nat × Nat × Nat :=
  let sub := Leaf.sub (w + 1) a b
  let lt := cmpSign (w + 1) sub
  let eq := equalConstant (w + 1) ew sub 0
  let notLT := Leaf.not1 1 lt
  let notEQ := Leaf.not1 1 eq
  let gt := Leaf.and2 gw notEQ notLT
  (gt, eq, lt)

/-- `ComparatorSignedUnsigned(a, b, gtu, eq, ltu, gt, lt)` relational.py:236-311; returns `(gtu, eq, ltu, gt, lt)`;
    all output wires 1 bit wide (ltu asserted by Sign, the others created by `self.wire(..)` in every caller) -/
def comparatorSU (w a b : Nat) : Nat × Nat × Nat × Nat × Nat :=
  let sa := cmpSign w a
  let sb := cmpSign w b
  let difs := xor2 1 1 1 sa sb
  let sub := Leaf.sub (w + 1) a b
  let ltu := cmpSign (w + 1) sub
  let lt := xor2 1 1 1 ltu difs
  let eq := equalConstant (w + 1) 1 sub 0
  let notLTU := Leaf.not1 1 ltu
  let notEQ := Leaf.not1 1 eq
  let gtu := Leaf.and2 1 notEQ notLTU
  let gt := xor2 1 1 1 gtu difs
  (gtu, eq, ltu, gt, lt)
/-- both comparators raise unless `a` and `b` have the same width; width 0 makes `Bit(a, -1)` fail at run time -/
def comparatorLegal (aw bw : Nat) : Bool := decide (aw = bw)
def comparatorSULegal (aw bw : Nat) : Bool := decide (aw = bw) && decide (1 ≤ aw)

/-- `Max2(a, b, r)` relational.py:313-346: `Mux2(lt, a, b, r)` -/
def max2 (w rw a b : Nat) : Nat := Leaf.mux2 rw (comparator w 1 1 a b).2.2 a b
/-- `Min2(a, b, r)` relational.py:386-419: `Mux2(gt, a, b, r)` -/
def min2 (w rw a b : Nat) : Nat := Leaf.mux2 rw (comparator w 1 1 a b).1 a b
/-- `SignedMax2(a, b, r)` relational.py:348-383: `Mux2(lt, a, b, r)` with the signed `lt` -/
def signedMax2 (w rw a b : Nat) : Nat := Leaf.mux2 rw (comparatorSU w a b).2.2.2.2 a b
/-- `SignedMin2(a, b, r)` relational.py:421-458: `Mux2(gt, a, b, r)` with the signed `gt` -/
def signedMin2 (w rw a b : Nat) : Nat := Leaf.mux2 rw (comparatorSU w a b).2.2.2.1 a b

/-- `Swap(a, b, swap, ra, rb)` relational.py:578-611 -/
def swap (raw rbw a b sw : Nat) : Nat × Nat := (Leaf.mux2 raw sw a b, Leaf.mux2 rbw sw b a)

end Lib
