import Py4hwV.Lib.Leaf
import Py4hwV.Gen.Helpers
/-
  C07: reference semantics + bridges for the arithmetic leaves that Lib/Leaf.lean does not cover yet
  (SignExtend, SignedMul, Div, Mod, BitsLSBF, ConcatenateLSBF) and the two's-complement helper
  `IntegerHelper.c2_to_signed`.  Same conventions as Lib/Leaf.lean (naturals in, `rw` = output wire width).
-/
namespace Leaf
open Bits

/-- `SignExtend.propagate` (arithmetic.py:298-310), the loop as written:
    `hb = a >> (aw-1); for i in range(aw, rw): value |= hb << i; r.put(value)` -/
def sext (rw aw a : Nat) : Nat :=
  ((List.range' aw (rw - aw)).foldl (fun acc i => acc ||| ((a >>> (aw - 1)) <<< i)) a) % 2^rw

/-- `SignedMul.propagate` (arithmetic.py:411-424): product of the two's-complement readings -/
def smul (rw aw bw a b : Nat) : Nat :=
  Bits.put rw (Bits.toSigned aw (a % 2^aw) * Bits.toSigned bw (b % 2^bw))

/-! ### bridges -/

theorem foldl_lor_cast (hb : Nat) (l : List Nat) (acc : Nat) :
    l.foldl (fun (acc_ : Int) lp_i => Py.lor acc_ (Py.shlT (hb : Int) (Int.ofNat lp_i))) (acc : Int)
      = ((l.foldl (fun acc i => acc ||| (hb <<< i)) acc : Nat) : Int) := by
  induction l generalizing acc with
  | nil => rfl
  | cons x l ih =>
    simp only [List.foldl_cons]
    have : Py.lor (acc : Int) (Py.shlT (hb : Int) (Int.ofNat x)) = ((acc ||| (hb <<< x) : Nat) : Int) := by
      simp only [Py.shlT, Int.ofNat_eq_natCast, Int.toNat_natCast]
      rw [Bits.shl_ofNat, Bits.lor_ofNat]
    rw [this, ih]

theorem gen_sext (rw aw a : Nat) :
    landed rw (Gen.SignExtend.step ⟨aw, rw⟩ ⟨⟩ ⟨a⟩ ⟨⟩).2.r = sext rw aw a := by
  simp only [Gen.SignExtend.step, Id.run, pure, landed, sext, Option.getD, Py.shrT, Int.toNat_natCast]
  rw [show ((aw : Int) - 1).toNat = aw - 1 by omega, Bits.shr_ofNat, foldl_lor_cast, Bits.put_ofNat]

theorem and_two_pow_eq (x k : Nat) : x &&& 2^k = if x.testBit k then 2^k else 0 := by
  apply Nat.eq_of_testBit_eq
  intro i
  rw [Nat.testBit_and, Nat.testBit_two_pow]
  by_cases h : k = i
  · subst h
    cases hx : x.testBit k <;> simp [Nat.testBit_two_pow]
  · cases hx : x.testBit k <;> simp [Nat.testBit_two_pow, h]

/-- `(x & 2^k) > 0` iff bit k of x is set -/
theorem and_two_pow_pos (x k : Nat) : 0 < x &&& 2^k ↔ x.testBit k = true := by
  rw [and_two_pow_eq]
  cases h : x.testBit k <;> simp [Nat.two_pow_pos]

theorem testBit_top (w x : Nat) (hw : 1 ≤ w) (hx : x < 2^w) : x.testBit (w - 1) = decide (2^(w-1) ≤ x) := by
  rw [Nat.testBit_eq_decide_div_mod_eq]
  have h2 : 2^w = 2 * 2^(w-1) := by
    rw [show w = (w - 1) + 1 by omega, Nat.pow_succ]; simp; omega
  have hp : 0 < 2^(w-1) := Nat.two_pow_pos _
  have : x / 2^(w-1) < 2 := by
    rw [Nat.div_lt_iff_lt_mul hp]; omega
  by_cases hle : 2^(w-1) ≤ x
  · have : 1 ≤ x / 2^(w-1) := (Nat.le_div_iff_mul_le hp).mpr (by omega)
    have e : x / 2^(w-1) = 1 := by omega
    simp [e, hle]
  · have e : x / 2^(w-1) = 0 := Nat.div_eq_of_lt (by omega)
    simp [e, hle]

/-- the generated `IntegerHelper.c2_to_signed` is the reference two's-complement reading -/
theorem gen_c2_to_signed (w x : Nat) (hw : 1 ≤ w) :
    Gen.IntegerHelper.c2_to_signed (x : Int) (w : Int) = Bits.toSigned w (x % 2^w) := by
  have hx : x % 2^w < 2^w := Nat.mod_lt _ (Nat.two_pow_pos w)
  have e1 : Py.land (x : Int) (Py.shl 1 w - 1) = ((x % 2^w : Nat) : Int) := by
    rw [Bits.land_mask]; simp
  have e2 : Py.shl 1 (w - 1) = ((2^(w-1) : Nat) : Int) := by rw [Bits.shl_one]; simp
  have e3 : Py.shl 1 w = ((2^w : Nat) : Int) := by rw [Bits.shl_one]; simp
  have e0 : ((w : Int) - 1).toNat = w - 1 := by omega
  have e1' : Py.land (x : Int) (((2^w : Nat) : Int) - 1) = ((x % 2^w : Nat) : Int) := by rw [← e3]; exact e1
  simp only [Gen.IntegerHelper.c2_to_signed, Id.run, pure, Py.shlT, Int.toNat_natCast, e0, e2, e3, e1',
    Bits.land_ofNat]
  have key : (0 < (x % 2^w) &&& 2^(w-1)) ↔ 2^(w-1) ≤ x % 2^w := by
    rw [and_two_pow_pos, testBit_top w _ hw hx]; simp
  unfold Bits.toSigned
  have hp : ((2^w : Nat) : Int) = (2:Int)^w := by simp
  by_cases hle : 2^(w-1) ≤ x % 2^w
  · have h1 : 0 < (x % 2^w) &&& 2^(w-1) := key.mpr hle
    have h2 : ¬ (x % 2^w < 2^(w-1)) := by omega
    have h3 : (((x % 2^w) &&& 2^(w-1) : Nat) : Int) > 0 := by omega
    simp only [h2, h3, decide_true, if_true, if_false, hp]
  · have h1 : ¬ (0 < (x % 2^w) &&& 2^(w-1)) := fun h => hle (key.mp h)
    have h2 : x % 2^w < 2^(w-1) := by omega
    have h3 : ¬ ((((x % 2^w) &&& 2^(w-1) : Nat) : Int) > 0) := by omega
    simp only [h2, h3, decide_false, if_true, if_false, Bool.false_eq_true]

theorem gen_smul (rw aw bw a b : Nat) (ha : 1 ≤ aw) (hb : 1 ≤ bw) :
    landed rw (Gen.SignedMul.step ⟨aw, bw, rw⟩ ⟨⟩ ⟨a, b⟩ ⟨⟩).2.r = smul rw aw bw a b := by
  simp only [Gen.SignedMul.step, Id.run, pure, landed, smul, Option.getD, Py.shlT, Int.toNat_natCast]
  rw [gen_c2_to_signed aw a ha, gen_c2_to_signed bw b hb, Bits.land_mask, Bits.put_emod]

theorem fdiv_ofNat (a b : Nat) : Py.fdiv (a : Int) (b : Int) = ((a / b : Nat) : Int) := by
  unfold Py.fdiv
  rw [Int.fdiv_eq_ediv_of_nonneg _ (Int.natCast_nonneg b)]
  simp

theorem fmod_ofNat (a b : Nat) : Py.fmod (a : Int) (b : Int) = ((a % b : Nat) : Int) := by
  unfold Py.fmod
  rw [Int.fmod_eq_emod_of_nonneg _ (Int.natCast_nonneg b)]
  simp

/-- `Div.propagate` for a non-zero divisor (for `b = 0` the Python draws a random number: unspecified) -/
theorem gen_div (rw a b : Nat) (hb : b ≠ 0) :
    landed rw (Gen.Div.step ⟨⟩ ⟨⟩ ⟨b, a⟩ ⟨⟩).2.r = div rw a b := by
  have : ((b : Int) == 0) = false := by simp; omega
  simp only [Gen.Div.step, Id.run, pure, landed, div, this, Option.getD, Bool.false_eq_true, if_false, fdiv_ofNat]
  rw [Bits.put_ofNat]

theorem gen_mod (rw a b : Nat) (hb : b ≠ 0) :
    landed rw (Gen.Mod.step ⟨⟩ ⟨⟩ ⟨b, a⟩ ⟨⟩).2.r = mod rw a b := by
  have : ((b : Int) == 0) = false := by simp; omega
  simp only [Gen.Mod.step, Id.run, pure, landed, mod, this, Option.getD, Bool.false_eq_true, if_false, fmod_ofNat]
  rw [Bits.put_ofNat]

/-- both Concatenate classes run this loop over `(width, value)` pairs, first element most significant -/
theorem concat_cast (l : List (Nat × Nat)) (acc : Nat) :
    (l.map fun p => ((p.1 : Int), (p.2 : Int))).foldl
        (fun (acc_ : Int) lp_item => Py.lor (Py.shlT acc_ lp_item.1) lp_item.2) (acc : Int)
      = ((l.foldl (fun acc wv => (acc <<< wv.1) ||| wv.2) acc : Nat) : Int) := by
  induction l generalizing acc with
  | nil => rfl
  | cons x l ih =>
    simp only [List.map_cons, List.foldl_cons]
    have : Py.lor (Py.shlT (acc : Int) (x.1 : Int)) (x.2 : Int) = (((acc <<< x.1) ||| x.2 : Nat) : Int) := by
      simp only [Py.shlT, Int.toNat_natCast]
      rw [Bits.shl_ofNat, Bits.lor_ofNat]
    rw [this, ih]

theorem gen_concatLSBF (rw : Nat) (ins : List (Nat × Nat)) :
    landed rw (Gen.ConcatenateLSBF.step ⟨⟩ ⟨⟩ ⟨⟩ ⟨ins.map fun p => ((p.1 : Int), (p.2 : Int))⟩).2.r
      = concat rw ins := by
  simp only [Gen.ConcatenateLSBF.step, Id.run, pure, landed, concat, Option.getD]
  exact (congrArg (Bits.put rw) (concat_cast ins 0)).trans (Bits.put_ofNat _ _)

end Leaf
