import Py4hwV.Lib.Leaf
import Py4hwV.Gen.C09
/-
  C09 — functional models of the sequential library blocks of py4hw
  (py4hw/logic/storage.py, py4hw/logic/arithmetic.py (counters), py4hw/logic/clock.py).

  Every block is a `Machine`: power-up state, one clock edge (`step`: every register reads the *settled pre-edge*
  combinational values computed from the current register outputs and the inputs held during the edge, exactly as
  `Simulator.clk` does: propagateAll, clock all, settle, propagateAll) and the settled outputs `out s i` for the
  current state `s` and the inputs `i` currently applied.
  The register itself is the function GENERATED from `Reg.clock` (`Gen.Reg.step`) followed by the wire mask of
  `q.prepare`; the combinational leaves are the `Leaf.*` reference functions (bridged to their generated
  definitions in Lib/Leaf.lean); the wiring follows each constructor line by line.

  `Spec.*` are the documented reference state machines (as small as possible).  Props/C09.lean proves
  `Refines B Spec.B` for all input histories from power-up.
-/
namespace Lib
open Leaf

structure Machine (σ ι ο : Type) where
  init : σ
  step : σ → ι → σ
  out  : σ → ι → ο

namespace Machine
variable {σ ι ο : Type}
/-- state after the edges of history `h` (element k = inputs held during edge k) from power-up -/
def run (m : Machine σ ι ο) (h : List ι) : σ := h.foldl m.step m.init
/-- what a test bench sees: for each element of the history the settled outputs after poking the inputs
    (before the edge) and after the edge (inputs still applied) -/
def trace (m : Machine σ ι ο) : σ → List ι → List (ο × ο)
  | _, [] => []
  | s, i :: h => (m.out s i, m.out (m.step s i) i) :: trace m (m.step s i) h
end Machine

def opt (has : Bool) (v : Nat) : Option Nat := if has then some v else none

/-! ### Reg (storage.py:31-119) -/

/-- leaf attribute `self.value` (a Python int) and the value on wire `q` -/
structure RegSt where
  value : Int
  q : Nat
deriving Repr, DecidableEq, Inhabited

/-- the constructor: `self.value = self.reset_value` and `q.put(self.reset_value)` — the `w`-bit wire `q` shows the
    (masked) reset value from power-up -/
def regInit (w : Nat) (rv : Int) : RegSt := ⟨rv, Bits.put w rv⟩

/-- one edge: generated `Reg.clock` + the mask of `q.prepare` on a `w`-bit wire. `e`/`r` = `none` when the
    port is absent -/
def regClk (w : Nat) (rv : Int) (e r : Option Nat) (d : Nat) (s : RegSt) : RegSt :=
  let o := Gen.Reg.step { a_reset_value := rv, has_e := e.isSome, has_r := r.isSome } { value := s.value }
             { e := ((e.getD 0 : Nat) : Int), r := ((r.getD 0 : Nat) : Int), d := (d : Int) } ⟨⟩
  ⟨o.1.value, landed w o.2.q⟩

structure RegCfg where
  w : Nat
  rv : Int
  hasE : Bool
  hasR : Bool
deriving Repr

structure RegIn where
  e : Nat
  r : Nat
  d : Nat
deriving Repr

def reg (c : RegCfg) : Machine RegSt RegIn Nat :=
  { init := regInit c.w c.rv,
    step := fun s i => regClk c.w c.rv (opt c.hasE i.e) (opt c.hasR i.r) i.d s,
    out := fun s _ => s.q }

/-! ### combinational sub-blocks, wired as their constructors do -/

/-- `Nand2`: And2 into a wire as wide as `a`, then Not into `r` -/
def nandS (aw rw a b : Nat) : Nat := not1 rw (and2 aw a b)

/-- `Xor2` (repo ≥ 4cfd4ac): four Nand2; Mid / XOut / YOut are as wide as `r`; each Nand2's own inner wire is as wide as
    its first operand -/
def xorS (aw rw a b : Nat) : Nat :=
  let mid := nandS aw rw a b
  let x := nandS aw rw a mid
  let y := nandS aw rw b mid
  nandS rw rw x y

/-- `And` on a list of ≥ 2 wires: And2 ladder on wires as wide as `r` -/
def andLadder (rw : Nat) : List Nat → Nat
  | [] => 0
  | p :: ps => ps.foldl (and2 rw) p

/-- `EqualConstant(a, v, r)` (relational.py:77): 1-bit input → Not/Buf; else BitsLSBF + Minterm (Not on the bits where
    `(v >> i) & 1 == 0`) + And ladder -/
def eqConst (w rw a : Nat) (v : Int) : Nat :=
  if w = 1 then
    if v = 0 then not1 rw a else buf rw a
  else
    andLadder rw ((List.range w).map fun i =>
      if Py.land (Py.shr v i) 1 = 0 then not1 1 (Bits.bit a i) else Bits.bit a i)

/-- `Add(a, b, r)` without carry ports: AddCarryIn with a constant-0 carry wire -/
def addS (rw a b : Nat) : Nat := addc rw a b (const 1 0)

/-! ### TReg (storage.py:121-143): q is 1 bit -/
structure TRegCfg where
  hasE : Bool
  hasR : Bool
deriving Repr

structure TRegIn where
  t : Nat
  e : Nat
  r : Nat
deriving Repr

def tregClk (e r : Option Nat) (t : Nat) (s : RegSt) : RegSt :=
  let nq := not1 1 s.q
  let d := mux2 1 t s.q nq
  regClk 1 0 e r d s

def treg (c : TRegCfg) : Machine RegSt TRegIn Nat :=
  { init := regInit 1 0,
    step := fun s i => tregClk (opt c.hasE i.e) (opt c.hasR i.r) i.t s,
    out := fun s _ => s.q }

/-! ### Counter / StepUpCounter / ModuloCounter (arithmetic.py:711-828, 1049-1107) -/
structure CounterCfg where
  w : Nat
  hasReset : Bool
  hasInc : Bool
deriving Repr

structure CounterIn where
  reset : Nat
  inc : Nat
deriving Repr

def counterClk (w : Nat) (reset inc step : Nat) (s : RegSt) : RegSt :=
  let zeroW := const w 0
  let addv := addS w s.q step
  let d1 := mux2 w inc s.q addv
  let d := mux2 w reset d1 zeroW
  let e_add := or2 1 reset inc
  regClk w 0 (some e_add) none d s

def counter (c : CounterCfg) : Machine RegSt CounterIn Nat :=
  { init := regInit c.w 0,
    step := fun s i =>
      let one := const c.w 1
      let zeroW := const c.w 0
      counterClk c.w (if c.hasReset then i.reset else zeroW) (if c.hasInc then i.inc else one) one s,
    out := fun s _ => s.q }

structure StepIn where
  reset : Nat
  inc : Nat
  step : Nat
deriving Repr

/-- `StepUpCounter`; `inc=None` (since repo commit 083dde2): a 1-bit constant-1 wire `one` is the increment -/
def stepUpCounter (w : Nat) (hasReset hasInc : Bool) : Machine RegSt StepIn Nat :=
  { init := regInit w 0,
    step := fun s i => counterClk w (if hasReset then i.reset else const w 0) (if hasInc then i.inc else const 1 1) i.step s,
    out := fun s _ => s.q }

/-- ModuloCounter: `mod` is the Python int given to the constructor; carryout is a 1-bit wire -/
def modCarry (w : Nat) (mod : Int) (q : Nat) : Nat := eqConst w 1 q (mod - 1)

def modClk (w : Nat) (mod : Int) (reset inc : Nat) (s : RegSt) : RegSt :=
  let one := const w 1
  let zeroW := const w 0
  let carry := modCarry w mod s.q
  let anyreset := or2 1 reset carry
  let addv := addS w s.q one
  let d1 := mux2 w inc s.q addv
  let d := mux2 w anyreset d1 zeroW
  let e_add := or2 1 reset inc
  regClk w 0 (some e_add) none d s

def moduloCounter (w : Nat) (mod : Int) : Machine RegSt CounterIn (Nat × Nat) :=
  { init := regInit w 0,
    step := fun s i => modClk w mod i.reset i.inc s,
    out := fun s _ => (s.q, modCarry w mod s.q) }

/-! ### DelayLine (storage.py:145-185) -/
structure DelayCfg where
  w : Nat
  delay : Nat
  hasEn : Bool
  hasReset : Bool
deriving Repr

structure DelayIn where
  a : Nat
  en : Nat
  reset : Nat
deriving Repr

/-- the constructor loop: `last` is the wire feeding the next register (pre-edge value) -/
def chainClk (w : Nat) (e r : Option Nat) : Nat → List RegSt → List RegSt
  | _, [] => []
  | last, s :: rest => regClk w 0 e r last s :: chainClk w e r s.q rest

def chainLast : Nat → List RegSt → Nat
  | last, [] => last
  | _, s :: rest => chainLast s.q rest

def delayLine (c : DelayCfg) : Machine (List RegSt) DelayIn Nat :=
  { init := List.replicate c.delay (regInit c.w 0),
    step := fun s i => chainClk c.w (opt c.hasEn i.en) (opt c.hasReset i.reset) i.a s,
    out := fun s i => buf c.w (chainLast i.a s) }

/-! ### PipelinePhase (storage.py:188-199): one Reg with reset per lane -/
structure PipeIn where
  reset : Nat
  ins : List Nat
deriving Repr

def pipeClk (reset : Nat) : List Nat → List Nat → List RegSt → List RegSt
  | w :: ws, d :: ds, s :: ss => regClk w 0 none (some reset) d s :: pipeClk reset ws ds ss
  | _, _, _ => []

def pipelinePhase (ws : List Nat) : Machine (List RegSt) PipeIn (List Nat) :=
  { init := ws.map fun w => regInit w 0,
    step := fun s i => pipeClk i.reset ws i.ins s,
    out := fun s _ => s.map (·.q) }

/-! ### ShiftRegisterBidirectional (storage.py:377-426) -/
structure SrbIn where
  leftIn : Nat
  rightIn : Nat
  shiftLeft : Nat
  shiftRight : Nat
deriving Repr

def qAt (s : List RegSt) (k : Nat) : Nat := (s.getD k default).q

def srbClk (w depth : Nat) (i : SrbIn) (s : List RegSt) : List RegSt :=
  let shift := or2 1 i.shiftLeft i.shiftRight
  (List.range depth).map fun k =>
    let vl := if k = 0 then i.leftIn else qAt s (k - 1)
    let vr := if k = depth - 1 then i.rightIn else qAt s (k + 1)
    let rd := mux2 w i.shiftLeft vl vr
    regClk w 0 (some shift) none rd (s.getD k default)

/-- depth ≥ 1 (depth 0 raises IndexError in the constructor) -/
def shiftRegBidir (w depth : Nat) : Machine (List RegSt) SrbIn (Nat × Nat) :=
  { init := List.replicate depth (regInit w 0),
    step := fun s i => srbClk w depth i s,
    out := fun s _ => (buf w (qAt s 0), buf w (qAt s (depth - 1))) }

/-! ### Stack_ShiftRegister (storage.py:428-457) -/
structure StackIn where
  din : Nat
  push : Nat
  pop : Nat
deriving Repr

structure StackSt where
  sr : List RegSt
  dout : RegSt
deriving Repr, DecidableEq, Inhabited

def stack (w depth : Nat) : Machine StackSt StackIn Nat :=
  { init := ⟨List.replicate depth (regInit w 0), regInit w 0⟩,
    step := fun s i =>
      let zerow := const w 0
      let pre_dout := buf w (qAt s.sr 0)
      ⟨srbClk w depth ⟨i.din, zerow, i.pop, i.push⟩ s.sr, regClk w 0 (some i.pop) none pre_dout s.dout⟩,
    out := fun s _ => s.dout.q }

/-! ### EdgeDetector (clock.py:63-93): 1-bit `a`, `r` -/
inductive Dir where
  | pos | neg | both
deriving Repr, DecidableEq, Inhabited

def edgeDetector (dir : Dir) : Machine RegSt Nat Nat :=
  { init := regInit 1 0,
    step := fun s a => regClk 1 0 none none a s,
    out := fun s a =>
      match dir with
      | .pos => and2 1 a (not1 1 s.q)
      | .neg => and2 1 (not1 1 a) s.q
      | .both => xorS 1 1 a s.q }

/-! ### ClockDivider (clock.py:23-59): `n = int(freq_in/(2*freq_out))`, `qw = int(log2(freq_in/(2*freq_out)))+1` are
    computed with Python floats in the constructor; the model is parametric in `(n, qw)` (read back from the built
    object by the harness) -/
structure DivSt where
  cnt : RegSt
  tff : RegSt
deriving Repr, DecidableEq, Inhabited

def clockDivider (n : Int) (qw : Nat) : Machine DivSt Nat Nat :=
  { init := ⟨regInit qw 0, regInit 1 0⟩,
    step := fun s reset =>
      let inc := const 1 1
      let t := modCarry qw n s.cnt.q
      ⟨modClk qw n reset inc s.cnt, tregClk (some inc) (some reset) t s.tff⟩,
    out := fun s _ => s.tff.q }

/-! ### SynchronousMemory (storage.py:254-285): generated `clock` + mask of `readdata.prepare` -/
structure MemIn where
  ra : Nat
  wa : Nat
  we : Nat
  wd : Nat
deriving Repr

structure MemSt where
  data : List Int
  readdata : Nat
deriving Repr, DecidableEq, Inhabited

def memClk (dw : Nat) (i : MemIn) (s : MemSt) : MemSt :=
  let o := Gen.SynchronousMemory.step ⟨⟩ { data := s.data }
             { read_address := (i.ra : Int), write_address := (i.wa : Int), write := (i.we : Int), writedata := (i.wd : Int) } ⟨⟩
  ⟨o.1.data, landed dw o.2.readdata⟩

def syncMem (aw dw : Nat) : Machine MemSt MemIn Nat :=
  { init := ⟨List.replicate (2 ^ aw) 0, 0⟩,
    step := fun s i => memClk dw i s,
    out := fun s _ => s.readdata }

/-! ### DualPortSynchronousMemory (storage.py:306-355): generated `clock` (Gen/C09.lean, target harness/targets.d/C09.json)
    + the masks of the two `readdata_x.prepare`.  (Before repo commit 942d9ca `clock()` read `self.writea`, an attribute
    that does not exist: every first edge raised AttributeError; see notes/C09.md.) -/
structure DpIn where
  a : MemIn
  b : MemIn
deriving Repr

structure DpSt where
  data : List Int
  rda : Nat
  rdb : Nat
deriving Repr, DecidableEq, Inhabited

def dualPortClk (dw : Nat) (i : DpIn) (s : DpSt) : DpSt :=
  let o := Gen.DualPortSynchronousMemory.step ⟨⟩ { data := s.data }
             { read_address_a := (i.a.ra : Int), write_address_a := (i.a.wa : Int), read_address_b := (i.b.ra : Int),
               write_address_b := (i.b.wa : Int), write_a := (i.a.we : Int), writedata_a := (i.a.wd : Int),
               write_b := (i.b.we : Int), writedata_b := (i.b.wd : Int) } ⟨⟩
  ⟨o.1.data, landed dw o.2.readdata_a, landed dw o.2.readdata_b⟩

def dualPort (aw dw : Nat) : Machine DpSt DpIn (Nat × Nat) :=
  { init := ⟨List.replicate (2 ^ aw) 0, 0, 0⟩,
    step := fun s i => dualPortClk dw i s,
    out := fun s _ => (s.rda, s.rdb) }

/-! ### AutoReset (clock.py:97-114): generated `clock`; a wire that is not prepared keeps its value -/
structure ARSt where
  st : Gen.AutoReset.St
  reset : Nat
deriving Repr, DecidableEq, Inhabited

def autoReset : Machine ARSt Unit Nat :=
  { init := ⟨Gen.AutoReset.init, 0⟩,
    step := fun s _ =>
      let o := Gen.AutoReset.step ⟨⟩ s.st ⟨⟩ ⟨⟩
      ⟨o.1, match o.2.reset with | some v => Bits.put 1 v | none => s.reset⟩,
    out := fun s _ => s.reset }

/-! ## Reference state machines (the documented behaviour) -/
namespace Spec

/-- register rule: reset (== 1) > enable (!= 0) > hold; state = what `q` shows (the reset value at power-up) -/
def regNext (w : Nat) (rv : Int) (r e : Option Nat) (d q : Nat) : Nat :=
  if r = some 1 then Bits.put w rv else if e = some 0 then q else d % 2 ^ w

def reg (c : RegCfg) : Machine Nat RegIn Nat :=
  { init := Bits.put c.w c.rv,
    step := fun q i => regNext c.w c.rv (opt c.hasR i.r) (opt c.hasE i.e) i.d q,
    out := fun q _ => q }

/-- toggle flip-flop: reset → 0, else when enabled and t: invert -/
def treg (c : TRegCfg) : Machine Nat TRegIn Nat :=
  { init := 0,
    step := fun q i =>
      if c.hasR ∧ i.r = 1 then 0 else if c.hasE ∧ i.e = 0 then q else if i.t % 2 = 1 then 1 - q else q,
    out := fun q _ => q }

/-- counter: reset → 0, else inc → +step wrapping at 2^w, else hold (controls: bit 0) -/
def counterNext (w : Nat) (reset inc step q : Nat) : Nat :=
  if reset % 2 = 1 then 0 else if inc % 2 = 1 then (q + step) % 2 ^ w else q

def counter (c : CounterCfg) : Machine Nat CounterIn Nat :=
  { init := 0,
    step := fun q i => counterNext c.w (if c.hasReset then i.reset else 0) (if c.hasInc then i.inc else 1) 1 q,
    out := fun q _ => q }

def stepUpCounter (w : Nat) (hasReset hasInc : Bool) : Machine Nat StepIn Nat :=
  { init := 0,
    step := fun q i => counterNext w (if hasReset then i.reset else 0) (if hasInc then i.inc else 1) i.step q,
    out := fun q _ => q }

/-- modulo counter: counts 0 … n-1 cyclically, carry while the count is n-1 -/
def moduloCounter (n : Nat) : Machine Nat CounterIn (Nat × Nat) :=
  { init := 0,
    step := fun q i => if i.reset % 2 = 1 then 0 else if i.inc % 2 = 1 then (q + 1) % n else q,
    out := fun q _ => (q, if q = n - 1 then 1 else 0) }

/-- delay line: a shift register of `delay` cells, newest first -/
def delayLine (c : DelayCfg) : Machine (List Nat) DelayIn Nat :=
  { init := List.replicate c.delay 0,
    step := fun l i =>
      if c.hasReset ∧ i.reset = 1 then List.replicate c.delay 0
      else if c.hasEn ∧ i.en = 0 then l
      else (i.a % 2 ^ c.w :: l).take c.delay,
    out := fun l i => (l.getLast?.getD i.a) % 2 ^ c.w }

def pipelinePhase (ws : List Nat) : Machine (List Nat) PipeIn (List Nat) :=
  { init := ws.map fun _ => 0,
    step := fun _ i =>
      if i.reset = 1 then ws.map fun _ => 0
      else List.zipWith (fun w d => d % 2 ^ w) ws i.ins,
    out := fun l _ => l }

/-- bidirectional shift register as a list, index 0 = left end; shift-left has priority -/
def shiftRegBidir (w depth : Nat) : Machine (List Nat) SrbIn (Nat × Nat) :=
  { init := List.replicate depth 0,
    step := fun l i =>
      if i.shiftLeft % 2 = 1 then l.tail ++ [i.rightIn % 2 ^ w]
      else if i.shiftRight % 2 = 1 then (i.leftIn % 2 ^ w :: l).take depth
      else l,
    out := fun l _ => (l.headD 0, l.getLast?.getD 0) }

/-- LIFO stack as an unbounded list (top first) + the output register; pop has priority over push;
    popping an empty stack returns 0 -/
structure StackSt where
  stk : List Nat
  dout : Nat
deriving Repr, DecidableEq

def stack (w : Nat) : Machine StackSt StackIn Nat :=
  { init := ⟨[], 0⟩,
    step := fun s i =>
      if i.pop % 2 = 1 then ⟨s.stk.tail, s.stk.headD 0⟩
      else if i.push % 2 = 1 then ⟨i.din % 2 ^ w :: s.stk, s.dout⟩
      else s,
    out := fun s _ => s.dout }

/-- the history never pushes onto a full stack (the "within its depth" side condition of the LIFO claim) -/
def stackWithin (depth : Nat) : List Nat → List StackIn → Bool
  | _, [] => true
  | stk, i :: h =>
    if i.pop % 2 = 1 then stackWithin depth stk.tail h
    else if i.push % 2 = 1 then decide (stk.length < depth) && stackWithin depth (i.din :: stk) h
    else stackWithin depth stk h

/-- edge detector: remembers the input sampled at the last edge -/
def edgeDetector (dir : Dir) : Machine Nat Nat Nat :=
  { init := 0,
    step := fun _ a => a % 2,
    out := fun prev a =>
      match dir with
      | .pos => if a % 2 = 1 ∧ prev = 0 then 1 else 0
      | .neg => if a % 2 = 0 ∧ prev = 1 then 1 else 0
      | .both => if a % 2 ≠ prev then 1 else 0 }

/-- clock divider: (count, phase); the phase toggles each time the count wraps -/
def clockDivider (n : Nat) : Machine (Nat × Nat) Nat Nat :=
  { init := (0, 0),
    step := fun s reset =>
      if reset = 1 then (0, 0)
      else if s.1 = n - 1 then (0, 1 - s.2) else (s.1 + 1, s.2),
    out := fun s _ => s.2 }

/-- synchronous memory as a function address → value; the read sees the content BEFORE the same-cycle write -/
structure MemSt where
  mem : Nat → Nat
  readdata : Nat

def syncMem (dw : Nat) : Machine MemSt MemIn Nat :=
  { init := ⟨fun _ => 0, 0⟩,
    step := fun s i => ⟨if i.we ≠ 0 then (fun a => if a = i.wa then i.wd else s.mem a) else s.mem, s.mem i.ra % 2 ^ dw⟩,
    out := fun s _ => s.readdata }

structure DpSt where
  mem : Nat → Nat
  rda : Nat
  rdb : Nat

/-- dual-port memory: both reads see the content before the edge; port b's write wins on a collision -/
def dualPort (dw : Nat) : Machine DpSt DpIn (Nat × Nat) :=
  { init := ⟨fun _ => 0, 0, 0⟩,
    step := fun s i =>
      let m1 := if i.a.we ≠ 0 then (fun x => if x = i.a.wa then i.a.wd else s.mem x) else s.mem
      let m2 := if i.b.we ≠ 0 then (fun x => if x = i.b.wa then i.b.wd else m1 x) else m1
      ⟨m2, s.mem i.a.ra % 2 ^ dw, s.mem i.b.ra % 2 ^ dw⟩,
    out := fun s _ => (s.rda, s.rdb) }

/-- power-on reset pulse: 1 after the first and second edge, 0 otherwise -/
def autoReset : Machine Nat Unit Nat :=
  { init := 0,
    step := fun k _ => k + 1,
    out := fun k _ => if k = 1 ∨ k = 2 then 1 else 0 }

end Spec
end Lib
