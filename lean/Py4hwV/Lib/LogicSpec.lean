import Py4hwV.Core.Bits
/-
  C08 — executable SPECIFICATIONS (truth tables / mathematical functions) of the logic, selection and comparison
  blocks, written independently of the structure of the Python constructors: per-bit truth tables (`ofBitFn`),
  list indexing, integer comparison.  `Props/C08.lean` proves  model (Lib/Bitwise, Lib/Relational) = spec  under the
  stated domain; the harness evaluates these same functions through Drv/C08.lean on the values observed on the REAL
  blocks (the property's oracle).  Core Lean only.
-/
namespace Lib.LSpec

/-- the number whose bit `i` (for `i < w`) is `f i`: a `w`-bit truth table column by column -/
def ofBitFn : Nat → (Nat → Bool) → Nat
  | 0, _ => 0
  | w + 1, f => ofBitFn w f + (if f w then 2 ^ w else 0)

def b2n (b : Bool) : Nat := if b then 1 else 0

/-! gates: bit `i` of the result is the gate applied to bit `i` of every input, for `i <` output width -/
def andN (rw : Nat) (ins : List Nat) : Nat := ofBitFn rw fun i => ins.all (·.testBit i)
def orN (rw : Nat) (ins : List Nat) : Nat := ofBitFn rw fun i => ins.any (·.testBit i)
/-- parity of the bits at position `i` -/
def xorN (rw : Nat) (ins : List Nat) : Nat := ofBitFn rw fun i => ins.foldl (fun p x => p ^^ x.testBit i) false
def norN (rw : Nat) (ins : List Nat) : Nat := ofBitFn rw fun i => !ins.any (·.testBit i)
def nandN (rw : Nat) (ins : List Nat) : Nat := ofBitFn rw fun i => !ins.all (·.testBit i)
def not1 (rw a : Nat) : Nat := ofBitFn rw fun i => !a.testBit i
def buf (rw a : Nat) : Nat := ofBitFn rw fun i => a.testBit i

/-! bit manipulation -/
def bit (a k : Nat) : Nat := b2n (a.testBit k)
/-- bits `hi..lo` of `a`, right aligned, on an `rw`-bit wire -/
def range (rw a hi lo : Nat) : Nat := ofBitFn rw fun i => decide (i ≤ hi - lo) && a.testBit (lo + i)
def bitsLSBF (aw a : Nat) : List Nat := (List.range aw).map fun i => b2n (a.testBit i)
def bitsMSBF (aw a : Nat) : List Nat := (List.range aw).map fun i => b2n (a.testBit (aw - 1 - i))
/-- value of a concatenation, first element most significant; elements are `(width, value)` -/
def concatMSBF : List (Nat × Nat) → Nat
  | [] => 0
  | wv :: rest => wv.2 * 2 ^ ((rest.map (·.1)).sum) + concatMSBF rest
/-- first element least significant -/
def concatLSBF : List (Nat × Nat) → Nat
  | [] => 0
  | wv :: rest => wv.2 + 2 ^ wv.1 * concatLSBF rest
def repeat1 (rw i : Nat) : Nat := ofBitFn rw fun _ => decide (i = 1)
def bufEnable (rw a en : Nat) : Nat := if en = 1 then a % 2 ^ rw else 0
def andBits (aw a : Nat) : Nat := b2n (decide (a = 2 ^ aw - 1))
def orBits (a : Nat) : Nat := b2n (decide (a ≠ 0))

/-! selectors -/
def mux2 (rw sel s0 s1 : Nat) : Nat := (if sel % 2 = 1 then s1 else s0) % 2 ^ rw
def mux (rw sel : Nat) (ins : List Nat) : Nat := ins.getD sel 0 % 2 ^ rw
def demux (aw sw a sel : Nat) : List Nat := (List.range (2 ^ sw)).map fun i => if i = sel then a % 2 ^ aw else 0
def decoder (a n : Nat) : List Nat := (List.range n).map fun i => b2n (decide (i = a))
/-- OR of the selected inputs (each taken at its own width); with a one-hot `sels` this is the selected input -/
def select (rw : Nat) (sels : List Nat) (ins : List (Nat × Nat)) : Nat :=
  ofBitFn rw fun i => (sels.zip ins).any fun p => decide (p.1 = 1) && decide (i < p.2.1) && p.2.2.testBit i
def oneHotDemux (aw a : Nat) (sels ows : List Nat) : List Nat :=
  List.zipWith (fun sel ow => if sel = 1 then a % 2 ^ aw % 2 ^ ow else 0) sels ows
/-- the input of the FIRST active select, `default` when none is active -/
def selectDefault (rw : Nat) (sels ins : List Nat) (d : Nat) : Nat :=
  match (sels.zip ins).find? (fun p => p.1 % 2 = 1) with
  | some p => p.2 % 2 ^ rw
  | none => d % 2 ^ rw
/-- bit `k` of output `i` = bit `k` of input `i` and no input of higher priority has bit `k` set.
    `inc = true` (inc_priority): the HIGHEST index has priority (code, inline comment, parameter name and test suite;
    the docstring says the opposite); `inc = false`: the lowest index has priority -/
def priorityEncoder (w : Nat) (inc : Bool) (a : List Nat) : List Nat :=
  (List.range a.length).map fun i => ofBitFn w fun k =>
    (a.getD i 0).testBit k && ((if inc then a.drop (i + 1) else a.take i).all fun x => !x.testBit k)
/-- bit `i` of the Python int `v` -/
def cbitI (v : Int) (i : Nat) : Bool := decide ((v / (2:Int) ^ i) % 2 = 1)
def minterm (bits : List Nat) (v : Int) : Nat :=
  b2n (decide (∀ i, i < bits.length → (bits.getD i 0 = 1) = (cbitI v i = true)))
def sumOfMinterms (a : Nat) (ms : List Int) : Nat := b2n (ms.any fun m => decide ((a : Int) = m))

/-! comparators -/
def equal (a b : Nat) : Nat := b2n (decide (a = b))
def equalConstant (a : Nat) (v : Int) : Nat := b2n (decide ((a : Int) = v))
def notEqualConstant (a : Nat) (v : Int) : Nat := b2n (decide ((a : Int) ≠ v))
/-- what `EqualConstant` computes for an ARBITRARY Python int constant (out-of-range constants are not rejected) -/
def equalConstantWrap (aw a : Nat) (v : Int) : Nat :=
  if aw = 1 then (if v = 0 then b2n (decide (a = 0)) else b2n (decide (a = 1)))
  else b2n (decide (a = Bits.put aw v))
def anyEqual (ins : List Nat) : Nat :=
  b2n ((List.range ins.length).any fun i => (List.range ins.length).any fun j => decide (i ≠ j) && decide (ins.getD i 0 = ins.getD j 0))
/-- `(gt, eq, lt)` -/
def comparator (a b : Nat) : Nat × Nat × Nat := (b2n (decide (b < a)), b2n (decide (a = b)), b2n (decide (a < b)))
/-- `(gtu, eq, ltu, gt, lt)`: unsigned and two's-complement signed order -/
def comparatorSU (w a b : Nat) : Nat × Nat × Nat × Nat × Nat :=
  (b2n (decide (b < a)), b2n (decide (a = b)), b2n (decide (a < b)),
   b2n (decide (Bits.toSigned w b < Bits.toSigned w a)), b2n (decide (Bits.toSigned w a < Bits.toSigned w b)))
def max2 (rw a b : Nat) : Nat := (if a < b then b else a) % 2 ^ rw
def min2 (rw a b : Nat) : Nat := (if b < a then b else a) % 2 ^ rw
def signedMax2 (w rw a b : Nat) : Nat := (if Bits.toSigned w a < Bits.toSigned w b then b else a) % 2 ^ rw
def signedMin2 (w rw a b : Nat) : Nat := (if Bits.toSigned w b < Bits.toSigned w a then b else a) % 2 ^ rw
def swap (raw rbw a b sw : Nat) : Nat × Nat := if sw % 2 = 1 then (b % 2 ^ raw, a % 2 ^ rbw) else (a % 2 ^ raw, b % 2 ^ rbw)

/-! ### exact characterisations outside the documented domain (what the blocks REALLY compute; C08 `_wide` / `_wrap` /
    `_general` theorems).  They are not the documentation's claim — where they differ from it a negative theorem with a
    concrete witness says so. -/

/-- SumOfMinterms for an ARBITRARY list of Python ints (duplicates, negative and out-of-range entries, dense lists):
    membership of `a` in the list of the `aw`-bit wrap-arounds -/
def sumOfMintermsWrap (aw a : Nat) (ms : List Int) : Nat := b2n (ms.any fun m => decide (a = Bits.put aw m))

/-- PriorityEncoder for ANY mix of widths.  `lw` = width of the most prioritised input (all `last` / `not(last)` helper
    wires take it), `rw` = width of the outputs.  The most prioritised input is copied; every other output keeps bit `k`
    only when `k < lw` (the `not(last)` wire has no bit above `lw`) and no input of higher priority has bit `k` set -/
def priorityEncoderW (lw rw : Nat) (inc : Bool) (a : List Nat) : List Nat :=
  (List.range a.length).map fun i => ofBitFn rw fun k =>
    (a.getD i 0).testBit k &&
      ((if inc then a.drop (i + 1) else a.take i).isEmpty ||
        (decide (k < lw) && (if inc then a.drop (i + 1) else a.take i).all fun x => !x.testBit k))

/-- Equal on an `rw`-bit result wire: the block ends in Not / Nor on `rw` bits, so the result is the `rw`-bit complement
    of the 1-bit flag "a differs from b": `2^rw − 1` when equal, `2^rw − 2` when different (0 / 1 only for `rw = 1`) -/
def equalW (rw a b : Nat) : Nat := not1 rw (b2n (decide (a ≠ b)))
/-- EqualConstant on an `rw`-bit result wire, any Python int constant: width 1 with constant 0 is a Not on `rw` bits,
    everything else is the 0/1 flag of `equalConstantWrap` (zero extended) -/
def equalConstantW (aw rw a : Nat) (v : Int) : Nat :=
  if aw = 1 ∧ v = 0 then not1 rw a else equalConstantWrap aw a v % 2 ^ rw
/-- NotEqualConstant on an `rw`-bit result wire: `rw`-bit complement of the 1-bit EqualConstant flag -/
def notEqualConstantW (aw rw a : Nat) (v : Int) : Nat := not1 rw (equalConstantWrap aw a v)
/-- Comparator with `gt` / `eq` result wires of `gw` / `ew` bits: `(gt, eq, lt)`.  `eq` of 0-bit operands is a Not on `ew` bits -/
def comparatorW (w gw ew a b : Nat) : Nat × Nat × Nat :=
  (b2n (decide (b < a)) % 2 ^ gw, (if w = 0 then 2 ^ ew - 1 else b2n (decide (a = b)) % 2 ^ ew), b2n (decide (a < b)))

end Lib.LSpec
