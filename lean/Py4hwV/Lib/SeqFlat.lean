import Py4hwV.Net.Sim
import Py4hwV.Gen.Leaves
/-
  Flat netlists of one-output combinational leaves + Reg leaves under `Net.Sim` (model part).
  PRIVATE COPY (namespace `SeqFlat`) of the simulator-side definitions of C01's `FlatM` development
  (lean/Py4hwV/Emit/Flat.lean as committed in b8e48d2), restricted to the primitive kinds the C09 netlists use, so that
  C09 does not depend on files that other properties edit concurrently.
-/
namespace SeqFlat

/-- a combinational leaf with one output: `propagate()` puts `py (values of ins)` on `out` -/
structure CLeaf where
  ins : List Nat
  out : Nat
  py : List Nat → Int
deriving Inhabited

/-- a `Reg` child: optional enable / reset wires, reset value, wires d e r q -/
structure RLeaf where
  hasR : Bool
  hasE : Bool
  rv : Nat
  d : Nat
  e : Nat
  r : Nat
  q : Nat
deriving Inhabited, Repr

def CLeaf.sem (c : CLeaf) : Net.LeafSem Int :=
  { prop := fun v s => (s, [(c.out, c.py (c.ins.map v))]),
    clock := fun _ s => (s, []) }

/-- `Reg.clock` as generated from storage.py; the leaf state is `Reg.value` -/
def RLeaf.sem (R : RLeaf) : Net.LeafSem Int :=
  { prop := fun _ s => (s, []),
    clock := fun v s =>
      let x := Gen.Reg.step ⟨R.rv, R.hasE, R.hasR⟩ ⟨s⟩ ⟨v R.e, v R.r, v R.d⟩ ⟨⟩
      (x.1.value, match x.2.q with | some y => [(R.q, y)] | none => []) }

def idleSem : Net.LeafSem Int := { prop := fun _ s => (s, []), clock := fun _ s => (s, []) }

/-- a flat netlist: leaf ids `0 … combs.length-1` are the combinational leaves, then the registers -/
structure NetD where
  wd : Nat → Nat
  combs : List CLeaf
  regs : List RLeaf
  order : List Nat            -- `Simulator.propagatables` after sorting: a permutation of the combinational ids

def NetD.leaf (D : NetD) (k : Nat) : Net.LeafSem Int :=
  match D.combs[k]? with
  | some c => c.sem
  | none => match D.regs[k - D.combs.length]? with
    | some R => R.sem
    | none => idleSem

/-- leaf id of the `j`-th register -/
def NetD.rid (D : NetD) (j : Nat) : Nat := D.combs.length + j

def NetD.regIds (D : NetD) : List Nat := (List.range D.regs.length).map D.rid

def NetD.design (D : NetD) : Net.Design Int :=
  { width := D.wd, leaf := D.leaf, order := D.order, drivers := [⟨none, D.regIds⟩] }

/-- leaf states at construction: `Reg.value = reset_value` -/
def NetD.st0 (D : NetD) : Nat → Int := fun k =>
  match D.regs[k - D.combs.length]? with
  | some R => if D.combs.length ≤ k then (R.rv : Int) else 0
  | none => 0

/-- what the constructors put (since /repo fix a9391b3 `Reg.__init__` puts reset_value on q) -/
def NetD.cons (D : NetD) : List (Nat × Int) := D.regs.map fun R => (R.q, (R.rv : Int))


/-! ## the primitive kinds used by the sequential blocks of C09 -/
inductive Kind where
  | and2 (a b r : Nat)
  | or2 (a b r : Nat)
  | not1 (a r : Nat)
  | buf (a r : Nat)
  | mux2 (sel s0 s1 r : Nat)
  | const (v r : Nat)
  | addc (a b ci r : Nat)
deriving Inhabited, Repr

def g (l : List Nat) (i : Nat) : Int := ((l.getD i 0 : Nat) : Int)

/-- the simulator leaf: value handed to `Wire.put` by the GENERATED propagate() -/
def Kind.leaf (_wd : Nat → Nat) : Kind → CLeaf
  | .and2 a b r => ⟨[a, b], r, fun l => (Gen.And2.step ⟨⟩ ⟨⟩ ⟨g l 0, g l 1⟩ ⟨⟩).2.r.getD 0⟩
  | .or2 a b r => ⟨[a, b], r, fun l => (Gen.Or2.step ⟨⟩ ⟨⟩ ⟨g l 0, g l 1⟩ ⟨⟩).2.r.getD 0⟩
  | .not1 a r => ⟨[a], r, fun l => (Gen.Not.step ⟨⟩ ⟨⟩ ⟨g l 0⟩ ⟨⟩).2.r.getD 0⟩
  | .buf a r => ⟨[a], r, fun l => (Gen.Buf.step ⟨⟩ ⟨⟩ ⟨g l 0⟩ ⟨⟩).2.r.getD 0⟩
  | .mux2 sel s0 s1 r => ⟨[sel, s1, s0], r, fun l => (Gen.Mux2.step ⟨⟩ ⟨⟩ ⟨g l 0, g l 1, g l 2⟩ ⟨⟩).2.r.getD 0⟩
  | .const v r => ⟨[], r, fun _ => (Gen.Constant.step ⟨(v : Int)⟩ ⟨⟩ ⟨⟩ ⟨⟩).2.r.getD 0⟩
  | .addc a b ci r => ⟨[a, b, ci], r, fun l => (Gen.AddCarryIn.step ⟨⟩ ⟨⟩ ⟨g l 0, g l 1, g l 2⟩ ⟨⟩).2.r.getD 0⟩

end SeqFlat
