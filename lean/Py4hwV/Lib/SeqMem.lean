import Py4hwV.Lib.SeqNet
import Py4hwV.Gen.C09
/-
  C09, netlist level, leaves with LIST state (model part, executable, imported by Drv/C09.lean).

  `SeqFlat.NetD` (Lib/SeqFlat.lean) has `Reg` as its only stateful leaf and leaf state `Int`.  Here the leaf state is a
  Python list of ints (`List Int`), and a netlist has two classes of leaves:
    * `PLeaf`  propagatable leaves with one output whose `propagate()` may READ AND WRITE the leaf's attribute
               (stateless combinational leaves are the special case that ignores it; `AsynchronousMemory.propagate`
               writes `self.data` — the "transparent" write);
    * `QLeaf`  clocked leaves whose `clock()` reads wires and the attribute, updates the attribute and `prepare`s a fixed
               list of output wires (Reg: `[value]`, q;  SynchronousMemory: `data`, readdata;
               DualPortSynchronousMemory: `data`, readdata_a, readdata_b).
  All step functions are the GENERATED ones (Gen/Leaves.lean, Gen/C09.lean).
  Theorems: Proofs/C09MemFlat.lean (generic), Props/C09NetMem.lean.
-/
namespace SeqMem
open Net SeqFlat

abbrev LSt := List Int

/-- a propagatable leaf: `propagate()` reads the wires `ins` and its attribute, stores a new attribute and puts one value on `out` -/
structure PLeaf where
  ins : List Nat
  out : Nat
  f : List Nat → LSt → LSt × Int
  st0 : LSt

/-- a stateless combinational leaf of `SeqFlat` -/
def PLeaf.ofC (c : CLeaf) : PLeaf := { ins := c.ins, out := c.out, f := fun l s => (s, c.py l), st0 := [] }

def PLeaf.sem (p : PLeaf) : LeafSem LSt :=
  { prop := fun v s => ((p.f (p.ins.map v) s).1, [(p.out, (p.f (p.ins.map v) s).2)]),
    clock := fun _ s => (s, []) }

/-- a clocked leaf: `clock()` reads the wires `ins` and its attribute, stores a new attribute and prepares `outs` (value
    `i` of the returned list on `outs[i]`, in this order) -/
structure QLeaf where
  ins : List Nat
  outs : List Nat
  ck : List Nat → LSt → LSt × List Int
  st0 : LSt
  /-- what the constructor puts on wires (`Reg.__init__`: the reset value on q) -/
  cons : List (Nat × Int)

def prep (outs : List Nat) (vals : List Int) : List (Nat × Int) := outs.zipIdx.map fun oi => (oi.1, vals.getD oi.2 0)

def QLeaf.sem (q : QLeaf) : LeafSem LSt :=
  { prop := fun _ s => (s, []),
    clock := fun v s => ((q.ck (q.ins.map v) s).1, prep q.outs (q.ck (q.ins.map v) s).2) }

def idleSem : LeafSem LSt := { prop := fun _ s => (s, []), clock := fun _ s => (s, []) }

/-- a flat netlist: leaf ids `0 … props.length-1` are the propagatable leaves, then the clocked leaves -/
structure NetS where
  wd : Nat → Nat
  props : List PLeaf
  seqs : List QLeaf
  order : List Nat            -- `Simulator.propagatables` after sorting

def NetS.leaf (D : NetS) (k : Nat) : LeafSem LSt :=
  match D.props[k]? with
  | some p => p.sem
  | none => match D.seqs[k - D.props.length]? with
    | some q => q.sem
    | none => idleSem

def NetS.rid (D : NetS) (j : Nat) : Nat := D.props.length + j
def NetS.seqIds (D : NetS) : List Nat := (List.range D.seqs.length).map D.rid

def NetS.design (D : NetS) : Design LSt :=
  { width := D.wd, leaf := D.leaf, order := D.order, drivers := [⟨none, D.seqIds⟩] }

/-- leaf attributes at construction -/
def NetS.st0 (D : NetS) : Nat → LSt := fun k =>
  match D.props[k]? with
  | some p => p.st0
  | none => match D.seqs[k - D.props.length]? with
    | some q => q.st0
    | none => []

def NetS.cons (D : NetS) : List (Nat × Int) := D.seqs.flatMap (·.cons)

/-! ## the leaf kinds -/

def gi (l : List Nat) (i : Nat) : Int := ((l.getD i 0 : Nat) : Int)

/-- `Reg` (generated `Reg.clock`); attribute `[self.value]`; ins = [e, r, d] -/
def regQ (R : RLeaf) : QLeaf :=
  { ins := [R.e, R.r, R.d], outs := [R.q],
    ck := fun l s =>
      let x := Gen.Reg.step ⟨R.rv, R.hasE, R.hasR⟩ ⟨s.getD 0 0⟩ ⟨gi l 0, gi l 1, gi l 2⟩ ⟨⟩
      ([x.1.value], [x.2.q.getD 0]),
    st0 := [(R.rv : Int)], cons := [(R.q, (R.rv : Int))] }

/-- `SynchronousMemory(read_address, write_address, write, readdata, writedata)` with `aw`-bit addresses -/
structure SMem where
  aw : Nat
  ra : Nat
  wa : Nat
  we : Nat
  rd : Nat
  wdat : Nat
deriving Inhabited, Repr

/-- generated `SynchronousMemory.clock`; attribute `self.data` -/
def smemQ (M : SMem) : QLeaf :=
  { ins := [M.ra, M.wa, M.we, M.wdat], outs := [M.rd],
    ck := fun l s =>
      let x := Gen.SynchronousMemory.step ⟨⟩ ⟨s⟩ ⟨gi l 0, gi l 1, gi l 2, gi l 3⟩ ⟨⟩
      (x.1.data, [x.2.readdata.getD 0]),
    st0 := List.replicate (2 ^ M.aw) 0, cons := [] }

/-- `DualPortSynchronousMemory`: two ports (the `SMem` of each port; `aw` of port a is used) -/
structure DMem where
  a : SMem
  b : SMem
deriving Inhabited, Repr

/-- generated `DualPortSynchronousMemory.clock`; attribute `self.data` -/
def dmemQ (M : DMem) : QLeaf :=
  { ins := [M.a.ra, M.a.wa, M.b.ra, M.b.wa, M.a.we, M.a.wdat, M.b.we, M.b.wdat], outs := [M.a.rd, M.b.rd],
    ck := fun l s =>
      let x := Gen.DualPortSynchronousMemory.step ⟨⟩ ⟨s⟩ ⟨gi l 0, gi l 1, gi l 2, gi l 3, gi l 4, gi l 5, gi l 6, gi l 7⟩ ⟨⟩
      (x.1.data, [x.2.readdata_a.getD 0, x.2.readdata_b.getD 0]),
    st0 := List.replicate (2 ^ M.a.aw) 0, cons := [] }

/-- `AsynchronousMemory` (generated `propagate`): the write is transparent — `propagate()` stores into `self.data`
    and then reads -/
def amemP (M : SMem) : PLeaf :=
  { ins := [M.ra, M.wa, M.we, M.wdat], out := M.rd,
    f := fun l s =>
      let x := Gen.AsynchronousMemory.step ⟨⟩ ⟨s⟩ ⟨gi l 0, gi l 1, gi l 2, gi l 3⟩ ⟨⟩
      (x.1.data, x.2.readdata.getD 0),
    st0 := List.replicate (2 ^ M.aw) 0 }

/-- clocked kinds (printable) -/
inductive SKind where
  | reg (R : RLeaf)
  | smem (M : SMem)
  | dmem (M : DMem)
deriving Inhabited, Repr

def SKind.leaf : SKind → QLeaf
  | .reg R => regQ R
  | .smem M => smemQ M
  | .dmem M => dmemQ M

/-- propagatable kinds (printable) -/
inductive PKind where
  | comb (k : Kind)
  | amem (M : SMem)
deriving Inhabited, Repr

def PKind.leaf (wd : Nat → Nat) : PKind → PLeaf
  | .comb k => PLeaf.ofC (k.leaf wd)
  | .amem M => amemP M

/-- a netlist given by printable kinds (compared with the live dump) -/
structure KNetS where
  wd : Nat → Nat
  pkinds : List PKind
  skinds : List SKind
  order : List Nat

def KNetS.netS (K : KNetS) : NetS :=
  { wd := K.wd, props := K.pkinds.map (PKind.leaf K.wd), seqs := K.skinds.map SKind.leaf, order := K.order }

/-- what a test bench reads on the wires `outs` after each `poke (pokes i); sim.clk(1)` -/
def netTrace {ι : Type} (D : NetS) (pokes : ι → List (Nat × Int)) (outs : List Nat) (s : State LSt) : List ι → List (List Nat)
  | [] => []
  | i :: t =>
    let s' := clk D.design 1 ((pokes i).foldl (putW D.design) s)
    outs.map s'.val :: netTrace D pokes outs s' t

/-- the same, also reading after `poke; clk(0)` (before the edge): `(pre, post)` per element -/
def netTrace2 {ι : Type} (D : NetS) (pokes : ι → List (Nat × Int)) (outs : List Nat) (s : State LSt) :
    List ι → List (List Nat × List Nat)
  | [] => []
  | i :: t =>
    let s0 := clk D.design 0 ((pokes i).foldl (putW D.design) s)
    let s' := clk D.design 1 s0
    (outs.map s0.val, outs.map s'.val) :: netTrace2 D pokes outs s' t

/-! ### rendering -/
open C09N in
def skindStr : SKind → String
  | .reg R => regStr R
  | .smem M => s!"SynchronousMemory  : {nats [M.ra, M.wa, M.we, M.wdat]} > {M.rd}"
  | .dmem M => s!"DualPortSynchronousMemory  : {nats [M.a.ra, M.a.wa, M.a.we, M.a.wdat, M.b.ra, M.b.wa, M.b.we, M.b.wdat]} > {nats [M.a.rd, M.b.rd]}"

open C09N in
def pkindStr : PKind → String
  | .comb k => kindStr k
  | .amem M => s!"AsynchronousMemory  : {nats [M.ra, M.wa, M.we, M.wdat]} > {M.rd}"

def skindWires : SKind → List Nat
  | .reg R => [R.d, R.e, R.r, R.q]
  | .smem M => [M.ra, M.wa, M.we, M.wdat, M.rd]
  | .dmem M => [M.a.ra, M.a.wa, M.a.we, M.a.wdat, M.a.rd, M.b.ra, M.b.wa, M.b.we, M.b.wdat, M.b.rd]

open C09N in
def pkindWires : PKind → List Nat
  | .comb k => kindWires k
  | .amem M => [M.ra, M.wa, M.we, M.wdat, M.rd]

open C09N in
/-- propagatable leaves ; clocked leaves ; schedule ; widths of the wires that occur -/
def KNetS.render (K : KNetS) : String :=
  let ws := (K.pkinds.flatMap pkindWires ++ K.skinds.flatMap skindWires).foldl (fun acc x => insertSorted x acc) []
  let ws := ws.filter (· ≠ 0)
  " ; ".intercalate (K.pkinds.map pkindStr) ++ " | " ++ " ; ".intercalate (K.skinds.map skindStr) ++ " | " ++ nats K.order ++ " | " ++
    ",".intercalate (ws.map fun x => s!"{x}:{K.wd x}")


/-! ### specimen with surrounding logic: registered-address, registered-output RAM
    `Reg(rain → raq)`, `SynchronousMemory(raq, wa, we, rd, wdat)`, `Buf(rd → rdb)`, `Reg(rdb → out)` — the address is driven by
    a register, readdata feeds a register through a combinational leaf.
    wires rain=1 wa=2 (aw bits) we=3 (1 bit) wdat=4 (`ww` bits) raq=5 (aw) rd=6 rdb=7 out=8 (dw bits).
    harness/c09.py builds exactly this design with the live library and compares the netlists (`netlist-import`). -/
def ramA : RLeaf := { hasR := false, hasE := false, rv := 0, d := 1, e := 0, r := 0, q := 5 }
def ramM (aw : Nat) : SMem := { aw := aw, ra := 5, wa := 2, we := 3, rd := 6, wdat := 4 }
def ramO : RLeaf := { hasR := false, hasE := false, rv := 0, d := 7, e := 0, r := 0, q := 8 }

def ramPipeNet (aw dw ww : Nat) : KNetS :=
  { wd := fun x => if x = 1 ∨ x = 2 ∨ x = 5 then aw else if x = 3 then 1 else if x = 4 then ww else dw,
    pkinds := [.comb (.buf 6 7)],
    skinds := [.reg ramA, .smem (ramM aw), .reg ramO],
    order := [0] }

/-- DualPortSynchronousMemory + `Buf(readdata_a → outa)`: wires ra_a=1 wa_a=2 we_a=3 wd_a=4 rd_a=5 ra_b=6 wa_b=7 we_b=8 wd_b=9
    rd_b=10 outa=11 -/
def dpM (aw : Nat) : DMem := ⟨⟨aw, 1, 2, 3, 5, 4⟩, ⟨aw, 6, 7, 8, 10, 9⟩⟩

def dpNet (aw dw : Nat) : KNetS :=
  { wd := fun x => if x = 1 ∨ x = 2 ∨ x = 6 ∨ x = 7 then aw else if x = 3 ∨ x = 8 then 1 else dw,
    pkinds := [.comb (.buf 5 11)], skinds := [.dmem (dpM aw)], order := [0] }

/-- AsynchronousMemory + `Buf(readdata → out)`: wires ra=1 wa=2 we=3 wdat=4 rd=5 out=6 -/
def amM (aw : Nat) : SMem := ⟨aw, 1, 2, 3, 5, 4⟩

def amNet (aw dw : Nat) : KNetS :=
  { wd := fun x => if x = 1 ∨ x = 2 then aw else if x = 3 then 1 else dw,
    pkinds := [.amem (amM aw), .comb (.buf 5 6)], skinds := [], order := [0, 1] }

def pokes4 (base : Nat) (l : List Nat) : List (Nat × Int) := (l.zipIdx base).map fun vi => (vi.2, ((vi.1 : Nat) : Int))

open Lib in
def ramPokes (i : MemIn) : List (Nat × Int) := [(1, (i.ra : Int)), (2, (i.wa : Int)), (3, (i.we : Int)), (4, (i.wd : Int))]

end SeqMem

namespace Lib
open Leaf

structure RamSt where
  raq : RegSt
  mem : MemSt
  outq : RegSt
deriving Repr, DecidableEq, Inhabited

/-- functional model of the specimen, composed as the netlist is wired: every clocked leaf reads the settled pre-edge values -/
def ramPipe (aw dw : Nat) : Machine RamSt MemIn Nat :=
  { init := ⟨regInit aw 0, ⟨List.replicate (2 ^ aw) 0, 0⟩, regInit dw 0⟩,
    step := fun s i =>
      ⟨regClk aw 0 none none i.ra s.raq,
       memClk dw ⟨s.raq.q, i.wa, i.we, i.wd⟩ s.mem,
       regClk dw 0 none none (buf dw s.mem.readdata) s.outq⟩,
    out := fun s _ => s.outq.q }

namespace Spec
structure RamSt where
  raq : Nat
  mem : Nat → Nat
  rd : Nat
  out : Nat

/-- reference: address register, read-before-write memory, output register (read latency 3 edges) -/
def ramPipe (dw : Nat) : Machine RamSt MemIn Nat :=
  { init := ⟨0, fun _ => 0, 0, 0⟩,
    step := fun s i =>
      ⟨i.ra, if i.we ≠ 0 then (fun a => if a = i.wa then i.wd else s.mem a) else s.mem, s.mem s.raq % 2 ^ dw, s.rd⟩,
    out := fun s _ => s.out }
end Spec
end Lib
