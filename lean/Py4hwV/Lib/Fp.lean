import Py4hwV.Lib.Arith
import Py4hwV.Lib.Relational
/-
  C13 — functional models of the single-precision floating-point blocks
    py4hw/logic/arithmetic_fp.py : _FP_parts_raw, _FP_parts, FPAdder_SP, FPtoInt_SP, InttoFP_SP, FixedPointtoFP_SP, FPMult_SP
    py4hw/logic/relational.py    : FPComparator_SP
  ONE definition per constructor, composed from the C07/C08 constructor models (`Lib.*` of Lib/Arith.lean, Lib/Bitwise.lean,
  Lib/Relational.lean) and the reference leaves `Leaf.*` EXACTLY as the Python constructor composes the blocks: every
  `self.wire(name, w)` / `g.hw_*` helper wire appears as a `let` with the same name, carrying that wire's width in the
  `Leaf.*`/`Lib.*` application that drives it.  Values are naturals (wire contents).  Core-only imports (run by Drv/C13.lean).

  LogicHelper (`g.hw_*`, py4hw/helper.py:39-408) result widths used below:
    hw_not/hw_and2/hw_or2/hw_xor2/hw_neg : width of the FIRST operand;   hw_sub : max of the operand widths
    hw_mux2(sel, s0, s1) : width of s0, `Mux2(sel, s0, s1)`;             hw_if(c, t, f) : width of t, `Mux2(c, f, t)`
    hw_range(a, up, down) : up-down+1;   hw_bit, hw_sign, hw_(not_)equal_constant, hw_signed_gt_constant : 1
    hw_concatenate_msbf : sum of the widths;   hw_and3 : `And([a,b,c])` on the width of a
-/
namespace Lib
namespace Fp
open Leaf

/-- `_FP_parts_raw(a, s, e, m)` arithmetic_fp.py:15-36: `Bit(a,31)`, `Range(a,30,23)` on 8 bits, `Range(a,22,0)` on 23 bits
    (each only when the corresponding wire is given; callers pick the component they pass).  Returns `(s, e, m)`. -/
def partsRaw (a : Nat) : Nat × Nat × Nat :=
  (Leaf.bit 1 a 31, Leaf.range 8 a 30 23, Leaf.range 23 a 22 0)

/-- outputs of `_FP_parts` -/
structure Parts where
  s : Nat
  e : Nat
  m : Nat
  isDenorm : Nat
  isZero : Nat
deriving Repr, DecidableEq

/-- `_FP_parts(a, s, e, m, isDenorm, isZero)` arithmetic_fp.py:39-83.  `e = pre_e - 127` on 8 bits (two's complement),
    `m = {hidden_bit, pre_m}` on 24 bits, `hidden_bit = (pre_e != 0)`. -/
def parts (a : Nat) : Parts :=
  let s := Leaf.bit 1 a 31
  let pre_e := Leaf.range 8 a 30 23
  let pre_m := Leaf.range 23 a 22 0
  let e := Leaf.sub 8 pre_e (Leaf.const 8 127)
  let hidden_bit := notEqualConstant 8 1 pre_e 0
  let frac_is_not_0 := notEqualConstant 23 1 pre_m 0
  let isDenorm := Leaf.and2 1 (Leaf.not1 1 hidden_bit) frac_is_not_0
  let isZero := Leaf.and2 1 (Leaf.not1 1 hidden_bit) (Leaf.not1 1 frac_is_not_0)
  let m := concatMSBF 24 [(1, hidden_bit), (23, pre_m)]
  ⟨s, e, m, isDenorm, isZero⟩

/-- `FPComparator_SP(a, b, gt, eq, lt, absolute)` relational.py:460-574 (1-bit output wires).  Returns `(gt, eq, lt)`. -/
def fpcmp (absolute : Bool) (a b : Nat) : Nat × Nat × Nat :=
  let sa := Leaf.bit 1 a 31
  let sb := Leaf.bit 1 b 31
  let ea := Leaf.range 8 a 30 23
  let eb := Leaf.range 8 b 30 23
  let ma := Leaf.range 23 a 22 0
  let mb := Leaf.range 23 b 22 0
  let s_eq := equal 1 1 1 sa sb
  let ce := comparator 8 1 1 ea eb
  let e_gt := ce.1
  let e_eq := ce.2.1
  let e_lt := ce.2.2
  let cm := comparator 23 1 1 ma mb
  let m_gt := cm.1
  let m_eq := cm.2.1
  let m_lt := cm.2.2
  if absolute then
    let gt_if1 := e_gt
    let gt_if2 := Leaf.and2 1 e_eq m_gt
    let gt := orN 1 [gt_if1, gt_if2]
    let eq := andN 1 [e_eq, m_eq]
    let lt_if1 := e_lt
    let lt_if2 := Leaf.and2 1 e_eq m_lt
    let lt := orN 1 [lt_if1, lt_if2]
    (gt, eq, lt)
  else
    let gt_if0 := Leaf.and2 1 (Leaf.not1 1 sa) sb
    let gt_if1 := Leaf.and2 1 s_eq (Leaf.mux2 1 sa e_gt e_lt)
    let gt_if2 := andN 1 [s_eq, e_eq, Leaf.mux2 1 sa m_gt m_lt]
    let gt := orN 1 [gt_if0, gt_if1, gt_if2]
    let eq := andN 1 [s_eq, e_eq, m_eq]
    let lt_if0 := Leaf.and2 1 sa (Leaf.not1 1 sb)
    let lt_if1 := Leaf.and2 1 s_eq (Leaf.mux2 1 sa e_lt e_gt)
    let lt_if2 := andN 1 [s_eq, e_eq, Leaf.mux2 1 sa m_lt m_gt]
    let lt := orN 1 [lt_if0, lt_if1, lt_if2]
    (gt, eq, lt)

/-- `InttoFP_SP(a, r, p_lost)` arithmetic_fp.py:306-349 (a, r 32 bits asserted).  Returns `(r, p_lost)`. -/
def inttofp (a : Nat) : Nat × Nat :=
  let ab := abs 32 32 1 a                         -- Abs(a, f5, inverted=sign)
  let f5 := ab.1
  let sign := ab.2
  let cz := countLeadingZeros 32 5 1 f5
  let clz := cz.1
  let is_zero := cz.2
  let shifted := shiftLeft 32 5 32 f5 clz
  let fraction := Leaf.range 23 shifted 30 8      -- hw_range(shifted, 30, 30-23+1)
  let pre_p_lost := notEqualConstant 8 1 (Leaf.range 8 shifted 7 0) 0
  let p_lost := Leaf.buf 1 pre_p_lost
  let exponent := Leaf.sub 8 (Leaf.const 8 158) clz
  let pre_r := concatMSBF 32 [(1, sign), (8, exponent), (23, fraction)]
  let r := Leaf.mux2 32 is_zero pre_r (Leaf.const 32 0)
  (r, p_lost)

/-- `FixedPointtoFP_SP(a, f, r, p_lost)` arithmetic_fp.py:352-406; `aw` = width of `a` (asserted ≤ 32), `f1 = f[1]`.
    Returns `(r, p_lost)` (`p_lost` is optional in Python; the value is what the wire carries when it is given). -/
def fixedtofp (aw : Nat) (f1 : Int) (a : Nat) : Nat × Nat :=
  let ab := abs aw aw 1 a
  let f5 := ab.1
  let sign := ab.2
  let cz := countLeadingZeros aw 5 1 f5
  let clz := cz.1
  let is_zero := cz.2
  let pre_shifted := shiftLeftConstant 32 f5 (32 - aw)
  let shifted := shiftLeft 32 5 32 pre_shifted clz
  let fraction := Leaf.range 23 shifted 30 8
  let pre_p_lost := notEqualConstant 8 1 (Leaf.range 8 shifted 7 0) 0
  let p_lost := Leaf.buf 1 pre_p_lost
  let exponent := Leaf.sub 8 (Leaf.const 8 (127 + f1)) clz
  let pre_r := concatMSBF 32 [(1, sign), (8, exponent), (23, fraction)]
  let r := Leaf.mux2 32 is_zero pre_r (Leaf.const 32 0)
  (r, p_lost)
def fixedtofpLegal (aw : Nat) : Bool := decide (1 ≤ aw) && decide (aw ≤ 32)

/-- outputs of `FPtoInt_SP` -/
structure F2I where
  r : Nat
  p_lost : Nat
  denorm : Nat
  invalid : Nat
deriving Repr, DecidableEq

/-- `FPtoInt_SP(a, r, p_lost, denorm, invalid)` arithmetic_fp.py:222-303 (`r` 32 bits, flags 1 bit).
    `shifted` holds `|x|·2^32` on 64 bits; `final_m_pos = Range(shifted, 64, 32)` (33 bits) is the integer part,
    `hw_range(shifted, 31, 0)` (the 32 discarded bits; since /repo commit 87c4dcb — before it the range was 32..0 and
    included the least significant integer bit) feeds p_lost. -/
def fptoint (a : Nat) : F2I :=
  let p := parts a
  let sign := p.s
  let real_e := p.e
  let real_m := p.m
  let is_denorm := p.isDenorm
  let is_zero := p.isZero
  let zero_tail := Leaf.const 32 0
  let frac0 := concatMSBF 56 [(24, real_m), (32, zero_tail)]
  let sign_real_e := Lib.sign 8 1 real_e
  let shift_amount_right := Leaf.sub 8 (Leaf.const 8 23) real_e
  let shift_amount_left := Leaf.sub 8 real_e (Leaf.const 8 23)
  let shift_sign := Lib.sign 8 1 shift_amount_right
  let shifted_right := shiftRight 56 8 64 (.const false) frac0 shift_amount_right
  let shifted_left := shiftLeft 56 8 64 frac0 shift_amount_left
  let shifted := Leaf.mux2 64 shift_sign shifted_right shifted_left
  let too_big := (comparatorSU 8 real_e (Leaf.const 8 30)).2.2.2.1       -- hw_signed_gt_constant(real_e, 30)
  let final_m_pos := Leaf.range 33 shifted 64 32
  let final_m_neg := neg 33 final_m_pos
  let final_m := Leaf.mux2 33 sign final_m_pos final_m_neg               -- hw_if(sign, final_m_neg, final_m_pos)
  let pos_ext_p_lost := notEqualConstant 32 1 (Leaf.range 32 shifted 31 0) 0
  -- for denorm values
  let select_denorm := is_denorm
  let p_lost_denorm := Leaf.const 1 1
  let invalid_denorm := Leaf.const 1 0
  let d_denorm := Leaf.const 32 0
  -- negative exponent
  let select_small := sign_real_e
  let p_lost_small := Leaf.not1 1 is_zero
  let invalid_small := Leaf.const 1 0
  let d_small := Leaf.const 32 0
  -- positive exponent
  let select_default := Leaf.or2 1 (Leaf.not1 1 select_denorm) (Leaf.not1 1 select_small)
  let p_lost_default := pos_ext_p_lost
  let invalid_default := too_big
  let d_default := final_m
  let denorm := Leaf.buf 1 is_denorm
  let sels := [select_denorm, select_small, select_default]
  let p_lost := select 1 sels [(1, p_lost_denorm), (1, p_lost_small), (1, p_lost_default)]
  let invalid := select 1 sels [(1, invalid_denorm), (1, invalid_small), (1, invalid_default)]
  let r := select 32 sels [(32, d_denorm), (32, d_small), (33, d_default)]
  ⟨r, p_lost, denorm, invalid⟩

/-- `FPMult_SP(a, b, r)` arithmetic_fp.py:410-464 (`isZeror` is computed but drives nothing) -/
def fpmul (a b : Nat) : Nat :=
  let pa := parts a
  let pb := parts b
  let sa := pa.s
  let sb := pb.s
  let ma := pa.m
  let mb := pb.m
  let ea := (partsRaw a).2.1
  let eb := (partsRaw b).2.1
  let sr := xor2 1 1 1 sa sb
  let pre_mr := mul 48 ma mb
  let pre_er := (add 9 0 ea eb none).1
  let pre_er2 := Leaf.sub 8 pre_er (Leaf.const 9 126)
  let pre_er3 := Leaf.sub 8 pre_er2 (Leaf.const 9 1)
  let select_mr := Leaf.bit 1 pre_mr 47
  let pre_mr2 := Leaf.range 23 pre_mr 46 24
  let pre_mr3 := Leaf.range 23 pre_mr 45 23
  let pre_mr4 := Leaf.mux2 23 select_mr pre_mr3 pre_mr2
  let pre_er4 := Leaf.mux2 8 select_mr pre_er3 pre_er2
  concatMSBF 32 [(1, sr), (8, pre_er4), (23, pre_mr4)]

/-- the datapath of `FPAdder_SP` after the magnitude swap: `a` is the operand of larger (or equal) magnitude.
    `ediff` is an 8-bit wire (since /repo commit f8136d7; before it 5 bits, so gaps ≥ 32 wrapped); the `round_*` wires of
    the Python drive nothing and are omitted. -/
def fpaddCore (a b : Nat) : Nat :=
  let pa := parts a
  let pb := parts b
  let sa := pa.s
  let sb := pb.s
  let ma := pa.m
  let mb := pb.m
  let ea := (partsRaw a).2.1
  let eb := (partsRaw b).2.1
  let ediff := Leaf.sub 8 ea eb
  let mb3 := shiftRight 24 8 24 (.const false) mb ediff       -- 'preshift'
  let m_a_plus_b := (add 25 0 ma mb3 none).1
  let m_a_minus_b := Leaf.sub 25 ma mb3
  let sel_amb := xor2 1 1 1 sa sb
  let mr := Leaf.mux2 25 sel_amb m_a_plus_b m_a_minus_b        -- 'select_mr'
  let sr := Leaf.buf 1 sa
  let cz := countLeadingZeros 25 5 1 mr
  let clz := cz.1
  let mr2 := shiftLeft 25 5 25 mr clz
  let pre_er := Leaf.sub 8 ea clz
  let er := (add 8 0 pre_er (Leaf.const 8 1) none).1
  let mr3 := Leaf.range 23 mr2 23 1
  concatMSBF 32 [(1, sr), (8, er), (23, mr3)]

/-- `FPAdder_SP(a, b, r)` arithmetic_fp.py:87-218: absolute-mode comparator, `Swap` on `ilt`, then the datapath -/
def fpadd (a b : Nat) : Nat :=
  let c := fpcmp true a b
  let ilt := c.2.2
  let sw := swap 32 32 a b ilt
  fpaddCore sw.1 sw.2

/-! ### dispatcher for the driver: block name, parameters, inputs ↦ outputs -/

def g (l : List Nat) (i : Nat) : Nat := l.getD i 0

def eval (blk : String) (p : List Int) (x : List Nat) : Option (List Nat) :=
  match blk with
  | "cmp" => let r := fpcmp false (g x 0) (g x 1); some [r.1, r.2.1, r.2.2]
  | "cmpabs" => let r := fpcmp true (g x 0) (g x 1); some [r.1, r.2.1, r.2.2]
  | "i2f" => let r := inttofp (g x 0); some [r.1, r.2]
  | "fx2f" =>
    let aw := (p.getD 0 0).toNat
    if fixedtofpLegal aw then (let r := fixedtofp aw (p.getD 1 0) (g x 0); some [r.1, r.2]) else none
  | "f2i" => let r := fptoint (g x 0); some [r.r, r.p_lost, r.denorm, r.invalid]
  | "mul" => some [fpmul (g x 0) (g x 1)]
  | "add" => some [fpadd (g x 0) (g x 1)]
  | "parts" => let r := parts (g x 0); some [r.s, r.e, r.m, r.isDenorm, r.isZero]
  | "raw" => let r := partsRaw (g x 0); some [r.1, r.2.1, r.2.2]
  | _ => none

end Fp
end Lib
