import Py4hwV.Verilog.Run
import Py4hwV.Net.Sim
import Py4hwV.Gen.Leaves
/-
  C01 (design level) — model of FLAT designs.

  Verilog side.  The shipped interpreter (`V.settlePass`, `V.settleLoop`, `V.Sim.half`, Verilog/Run.lean) runs over a
  HashMap `V.Store`.  Everything it does to a store is observed through `V.Store.rd : V.Rd`; this file restates the same
  steps directly on readers (`V.Rd` = declarations + a valuation `String → BV`), which is what the design-level
  theorems of Props/C01Flat.lean reason about.  `Proofs/C01FlatStore.lean` and `Proofs/C01FlatCycle.lean` prove that the
  shipped HashMap code refines these definitions (`settlePass_rd`, `settleLoop_rd`, `cycle_rd`).

    setWhole / wrA      `Store.wr` for a whole-net target (the only targets of a flat design)
    stepA / passA       one continuous assign / one `settlePass` over the assigns
    settleA             `settleLoop`: passes until nothing changes (here: `length` passes, enough for an acyclic list)
    fireAll / cycleA    one clock cycle of a flat design whose `always @(posedge …)` blocks all follow the base clock:
                        settle (inputs may have been poked), run every block on the pre-edge values, apply all
                        non-blocking updates together, settle again  (`Sim.cycle` = falling half, which fires nothing
                        and only re-settles, then rising half)

  Simulator side.  `NetD.design : Net.Design Int` is a `Net.Design` (Net/Sim.lean, the model of py4hw's Simulator) whose
  combinational leaves put ONE value computed by a Python-level function of their input wires (`CLeaf`) and whose
  clockable leaves are `Reg`s running the step function GENERATED from storage.py (`Gen.Reg.step`).
  `Kind` lists the inlinable primitives of rtl_generation.py whose propagate() is translated (`Gen.<K>.step`) and whose
  emitted expression form is proved in Props/C01.lean; `Kind.leaf` is the simulator leaf, `Kind.assign` the emitted
  continuous assign.  `FlatDesign` = what the emitter writes for a structural block whose children are such
  primitives and `Reg`s (the latter after hierarchy flattening of the `Reg<w>` instances by `V.flatten`).
-/
namespace FlatM
open V

/-! ## Verilog side: the interpreter steps on readers -/

/-- signal names an expression reads -/
def reads : Expr → List String
  | .id n => [n]
  | .num _ _ _ _ => []
  | .un _ e => reads e
  | .bin _ a b => reads a ++ reads b
  | .tern c a b => reads c ++ (reads a ++ reads b)
  | .cat a b => reads a ++ reads b
  | .cat1 a => reads a
  | .rep _ e => reads e
  | .idx n i => n :: reads i
  | .rng n _ _ => [n]
  | .sgn e => reads e
  | .usg e => reads e

/-- the resize `Store.wr (.whole n)` applies to the value it stores -/
def norm (w : Nat) (v : BV) : BV := if v.k then ⟨w, v.v % 2 ^ w, true⟩ else BV.x w

/-- `Store.wr s (.whole n) v`, seen through `Store.rd` -/
def setWhole (r : Rd) (n : String) (v : BV) : Rd :=
  { r with val := fun m => if m = n then norm (widthOf r n) v else r.val m }

/-- `Store.wr` restricted to whole-net targets (bit/part/word targets do not occur in flat designs: no-ops here) -/
def wrA (r : Rd) : Tgt → BV → Rd
  | .whole n, v => setWhole r n v
  | _, _ => r

/-- one continuous assign, as in `settlePass` -/
def stepA (r : Rd) (a : LHS × Expr) : Rd :=
  wrA r (resolve r a.1) (evalAssign r (lhsWidth r a.1) a.2)

/-- one pass over the continuous assigns, in the order of the text -/
def passA (as : List (LHS × Expr)) (r : Rd) : Rd := as.foldl stepA r

/-- passes until the fixpoint (for an acyclic list `length` passes reach it, see `C01Flat.settle_reaches`) -/
def settleA (as : List (LHS × Expr)) (r : Rd) : Rd := Net.iter (passA as) as.length r

def applyNbaA (r : Rd) (q : List (Tgt × BV)) : Rd := q.foldl (fun r tv => wrA r tv.1 tv.2) r

/-- run one `always @(posedge …)` block (all follow the base clock) on the current store, collecting its
    non-blocking updates; blocking assignments update the store at once (`V.runProc`) -/
def fireStep (acc : Rd × List (Tgt × BV)) (ep : Event × Stmt) : Rd × List (Tgt × BV) :=
  match ep.1 with
  | .pos _ =>
      let x := exec (σ := Rd) id wrA none ep.2 { st := acc.1, nba := [] }
      (x.st, acc.2 ++ x.nba)
  | _ => acc

def fireAll (procs : List (Event × Stmt)) (r : Rd) : Rd × List (Tgt × BV) := procs.foldl fireStep (r, [])

/-- one clock cycle (see the header) -/
def cycleA (f : V.Flat) (r : Rd) : Rd :=
  let r1 := settleA f.assigns r
  let x := fireAll f.procs r1
  settleA f.assigns (applyNbaA x.1 x.2)

/-! ### what "settled" and "acyclic" mean for a list of continuous assigns -/

/-- the net an assign drives -/
def tgt (a : LHS × Expr) : String := a.1.name

/-- the target is a whole declared net: `n` or `n[w-1:0]` with `w` the declared width (depends on declarations only) -/
def LhsOk (r : Rd) (l : LHS) : Prop := resolve r l = .whole l.name ∧ lhsWidth r l = widthOf r l.name

/-- every assign's target holds the value of its right-hand side under the CURRENT valuation -/
def Settled (as : List (LHS × Expr)) (r : Rd) : Prop :=
  ∀ a, a ∈ as → r.val (tgt a) = evalAssign r (widthOf r (tgt a)) a.2

/-- `as` is listed sources-first: nobody at or after an assign drives what it reads (no combinational loop, no
    self-loop), and no two assigns drive the same net (single driver) -/
def Acyc : List (LHS × Expr) → Prop
  | [] => True
  | a :: rest => (∀ b, b ∈ a :: rest → ∀ n, n ∈ reads a.2 → n ≠ tgt b) ∧ (∀ b, b ∈ rest → tgt a ≠ tgt b) ∧ Acyc rest

/-- a test bench drives a top-level input -/
def poke (r : Rd) (n : String) (v : Nat) : Rd := setWhole r n ⟨widthOf r n, v, true⟩

/-- the Verilog-side counterpart of a test-bench operation (`Net.Op`): `inName k` is the name of the top-level input
    port connected to net `k`; `clk(n)` is `n` cycles -/
def applyOpA (f : V.Flat) (inName : Nat → String) (r : Rd) : Net.Op → Rd
  | .poke k v => poke r (inName k) v.toNat
  | .clk n => Net.iter (cycleA f) n r
  | .resort => r

/-! ## Simulator side -/

/-- a combinational leaf: `propagate()` puts `py (values of ins)` on `out`, then (leaves with several outputs: BitsLSBF,
    BitsMSBF) `f (values of ins)` on `w` for every `(w, f)` of `more`, in that order -/
structure CLeaf where
  ins : List Nat
  out : Nat
  py : List Nat → Int
  more : List (Nat × (List Nat → Int))
deriving Inhabited

/-- keep, for every wire, only the LAST put (the puts of one `propagate()` call are all computed from the same input
    values, so a later put to the same wire simply overwrites an earlier one) -/
def dedupLast {α : Type} : List (Nat × α) → List (Nat × α)
  | [] => []
  | x :: rest => if rest.any (·.1 == x.1) then dedupLast rest else x :: dedupLast rest

/-- the (wire, value function) pairs of the leaf, one per wire -/
def CLeaf.outs (c : CLeaf) : List (Nat × (List Nat → Int)) := dedupLast ((c.out, c.py) :: c.more)

/-- a `Reg` child: optional enable / reset wires, reset value, wires d e r q -/
structure RLeaf where
  hasR : Bool
  hasE : Bool
  rv : Nat
  d : Nat
  e : Nat
  r : Nat
  q : Nat
deriving Inhabited, Repr

def CLeaf.sem (c : CLeaf) : Net.LeafSem Int :=
  { prop := fun v s => (s, c.outs.map fun of => (of.1, of.2 (c.ins.map v))),
    clock := fun _ s => (s, []) }

/-- `Reg.clock` as generated from storage.py; the leaf state is `Reg.value` -/
def RLeaf.sem (R : RLeaf) : Net.LeafSem Int :=
  { prop := fun _ s => (s, []),
    clock := fun v s =>
      let x := Gen.Reg.step ⟨R.rv, R.hasE, R.hasR⟩ ⟨s⟩ ⟨v R.e, v R.r, v R.d⟩ ⟨⟩
      (x.1.value, match x.2.q with | some y => [(R.q, y)] | none => []) }

def idleSem : Net.LeafSem Int := { prop := fun _ s => (s, []), clock := fun _ s => (s, []) }

/-- a flat netlist: leaf ids `0 … combs.length-1` are the combinational leaves, then the registers -/
structure NetD where
  wd : Nat → Nat
  combs : List CLeaf
  regs : List RLeaf
  order : List Nat            -- `Simulator.propagatables` after sorting: a permutation of the combinational ids
  /-- side condition on the wire values at a settle under which the text is claimed to agree (divisors of Div / Mod are not 0:
      the simulator raises / is documented as nondeterministic there, the Verilog value is x); `True` for the other children -/
  good : (Nat → Nat) → Prop := fun _ => True

def NetD.leaf (D : NetD) (k : Nat) : Net.LeafSem Int :=
  match D.combs[k]? with
  | some c => c.sem
  | none => match D.regs[k - D.combs.length]? with
    | some R => R.sem
    | none => idleSem

/-- leaf id of the `j`-th register -/
def NetD.rid (D : NetD) (j : Nat) : Nat := D.combs.length + j

def NetD.regIds (D : NetD) : List Nat := (List.range D.regs.length).map D.rid

def NetD.design (D : NetD) : Net.Design Int :=
  { width := D.wd, leaf := D.leaf, order := D.order, drivers := [⟨none, D.regIds⟩] }

/-- leaf states at construction: `Reg.value = reset_value` -/
def NetD.st0 (D : NetD) : Nat → Int := fun k =>
  match D.regs[k - D.combs.length]? with
  | some R => if D.combs.length ≤ k then (R.rv : Int) else 0
  | none => 0

/-- what the constructors put (since /repo fix a9391b3 `Reg.__init__` puts reset_value on q) -/
def NetD.cons (D : NetD) : List (Nat × Int) := D.regs.map fun R => (R.q, (R.rv : Int))

/-! ## the inlinable primitives covered (translated propagate() + proved inline form) -/

inductive Kind where
  | and2 (a b r : Nat)
  | or2 (a b r : Nat)
  | not1 (a r : Nat)
  | buf (a r : Nat)
  | zext (a r : Nat)
  | bit (a k r : Nat)
  | mux2 (sel s0 s1 r : Nat)
  | const (v r : Nat)
  | shl (a n r : Nat)
  | shr (a n r : Nat)
  | addc (a b ci r : Nat)
  | sub (a b r : Nat)
  | mul (a b r : Nat)
  | range (a hi lo r : Nat)
  | catm (ins : List Nat) (r : Nat)      -- ConcatenateMSBF (operands most significant first)
  | catl (ins : List Nat) (r : Nat)      -- ConcatenateLSBF (`ins` as stored by the constructor: already reversed, MSB first)
  | rept (i r : Nat)                     -- Repeat
  | sext (a r : Nat)                     -- SignExtend (both emitted forms)
  | smul (a b r : Nat)                   -- SignedMul
deriving Inhabited, Repr

def g (l : List Nat) (i : Nat) : Int := ((l.getD i 0 : Nat) : Int)

/-- the simulator leaf: value handed to `Wire.put` by the GENERATED propagate() (`wd` because `Sub` reads its own
    output width) -/
def Kind.leaf (wd : Nat → Nat) : Kind → CLeaf
  | .and2 a b r => ⟨[a, b], r, fun l => (Gen.And2.step ⟨⟩ ⟨⟩ ⟨g l 0, g l 1⟩ ⟨⟩).2.r.getD 0, []⟩
  | .or2 a b r => ⟨[a, b], r, fun l => (Gen.Or2.step ⟨⟩ ⟨⟩ ⟨g l 0, g l 1⟩ ⟨⟩).2.r.getD 0, []⟩
  | .not1 a r => ⟨[a], r, fun l => (Gen.Not.step ⟨⟩ ⟨⟩ ⟨g l 0⟩ ⟨⟩).2.r.getD 0, []⟩
  | .buf a r => ⟨[a], r, fun l => (Gen.Buf.step ⟨⟩ ⟨⟩ ⟨g l 0⟩ ⟨⟩).2.r.getD 0, []⟩
  | .zext a r => ⟨[a], r, fun l => (Gen.ZeroExtend.step ⟨⟩ ⟨⟩ ⟨g l 0⟩ ⟨⟩).2.r.getD 0, []⟩
  | .bit a k r => ⟨[a], r, fun l => (Gen.Bit.step ⟨k⟩ ⟨⟩ ⟨g l 0⟩ ⟨⟩).2.r.getD 0, []⟩
  | .mux2 sel s0 s1 r => ⟨[sel, s1, s0], r, fun l => (Gen.Mux2.step ⟨⟩ ⟨⟩ ⟨g l 0, g l 1, g l 2⟩ ⟨⟩).2.r.getD 0, []⟩
  | .const v r => ⟨[], r, fun _ => (Gen.Constant.step ⟨(v : Int)⟩ ⟨⟩ ⟨⟩ ⟨⟩).2.r.getD 0, []⟩
  | .shl a n r => ⟨[a], r, fun l => (Gen.ShiftLeftConstant.step ⟨n⟩ ⟨⟩ ⟨g l 0⟩ ⟨⟩).2.r.getD 0, []⟩
  | .shr a n r => ⟨[a], r, fun l => (Gen.ShiftRightConstant.step ⟨n⟩ ⟨⟩ ⟨g l 0⟩ ⟨⟩).2.r.getD 0, []⟩
  | .addc a b ci r => ⟨[a, b, ci], r, fun l => (Gen.AddCarryIn.step ⟨⟩ ⟨⟩ ⟨g l 0, g l 1, g l 2⟩ ⟨⟩).2.r.getD 0, []⟩
  | .sub a b r => ⟨[a, b], r, fun l => (Gen.Sub.step ⟨wd r⟩ ⟨⟩ ⟨g l 0, g l 1⟩ ⟨⟩).2.r.getD 0, []⟩
  | .mul a b r => ⟨[a, b], r, fun l => (Gen.Mul.step ⟨⟩ ⟨⟩ ⟨g l 0, g l 1⟩ ⟨⟩).2.r.getD 0, []⟩
  | .range a hi lo r => ⟨[a], r, fun l => (Gen.Range.step ⟨hi, lo⟩ ⟨⟩ ⟨g l 0⟩ ⟨⟩).2.r.getD 0, []⟩
  | .catm ins r => ⟨ins, r, fun l =>
      (Gen.ConcatenateMSBF.step ⟨⟩ ⟨⟩ ⟨⟩ ⟨(ins.zip l).map fun p => ((wd p.1 : Int), (p.2 : Int))⟩).2.r.getD 0, []⟩
  | .catl ins r => ⟨ins, r, fun l =>
      (Gen.ConcatenateLSBF.step ⟨⟩ ⟨⟩ ⟨⟩ ⟨(ins.zip l).map fun p => ((wd p.1 : Int), (p.2 : Int))⟩).2.r.getD 0, []⟩
  | .rept i r => ⟨[i], r, fun l => (Gen.Repeat.step ⟨wd r⟩ ⟨⟩ ⟨g l 0⟩ ⟨⟩).2.r.getD 0, []⟩
  | .sext a r => ⟨[a], r, fun l => (Gen.SignExtend.step ⟨wd a, wd r⟩ ⟨⟩ ⟨g l 0⟩ ⟨⟩).2.r.getD 0, []⟩
  | .smul a b r => ⟨[a, b], r, fun l => (Gen.SignedMul.step ⟨wd a, wd b, wd r⟩ ⟨⟩ ⟨g l 0, g l 1⟩ ⟨⟩).2.r.getD 0, []⟩

/-- unsized decimal literal, as the emitter prints Python ints (same as `C01.lit`) -/
def lit (n : Nat) : Expr := .num none true n true

/-- `{n1, n2, …}` as harness/vparse.py reads it (right-nested); a single operand is written without braces -/
def catChain : List String → Expr
  | [] => lit 0
  | [n] => .id n
  | n :: m :: rest => .cat (.id n) (catChain (m :: rest))

/-- `{ {k{a[w-1]}}, a }` as harness/vparse.py reads it (`InlineSignExtend`, result at least as wide as the operand) -/
def sextExpr (a : String) (aw k : Nat) : Expr :=
  .cat (.cat1 (.rep k (.cat1 (.idx a (lit (aw - 1)))))) (.id a)

/-- the right-hand side written by the `Inline*` function of rtl_generation.py, over the names `nm` of the nets
    (`wd`: `InlineRepeat` writes as many copies as the result is wide) -/
def Kind.rhs (wd : Nat → Nat) (nm : Nat → String) : Kind → Expr
  | .and2 a b _ => .bin "and" (.id (nm a)) (.id (nm b))
  | .or2 a b _ => .bin "or" (.id (nm a)) (.id (nm b))
  | .not1 a _ => .un "not" (.id (nm a))
  | .buf a _ => .id (nm a)
  | .zext a _ => .id (nm a)
  | .bit a k _ => .idx (nm a) (lit k)
  | .mux2 sel s0 s1 _ => .tern (.bin "and" (.id (nm sel)) (lit 1)) (.id (nm s1)) (.id (nm s0))
  | .const v _ => lit v
  | .shl a n _ => .bin "shl" (.id (nm a)) (lit n)
  | .shr a n _ => .bin "shr" (.id (nm a)) (lit n)
  | .addc a b ci _ => .bin "add" (.bin "add" (.id (nm a)) (.id (nm b))) (.id (nm ci))
  | .sub a b _ => .bin "sub" (.id (nm a)) (.id (nm b))
  | .mul a b _ => .bin "mul" (.id (nm a)) (.id (nm b))
  | .range a hi lo _ => .rng (nm a) hi lo
  | .catm ins _ => catChain (ins.map nm)
  | .catl ins _ => catChain (ins.map nm)
  | .rept i r => catChain (List.replicate (wd r) (nm i))
  | .sext a r => if wd r < wd a then .id (nm a) else sextExpr (nm a) (wd a) (wd r - wd a)
  | .smul a b _ => .bin "mul" (.sgn (.id (nm a))) (.sgn (.id (nm b)))

def Kind.out : Kind → Nat
  | .and2 _ _ r => r | .or2 _ _ r => r | .not1 _ r => r | .buf _ r => r | .zext _ r => r | .bit _ _ r => r
  | .mux2 _ _ _ r => r | .const _ r => r | .shl _ _ r => r | .shr _ _ r => r | .addc _ _ _ r => r
  | .sub _ _ r => r | .mul _ _ r => r | .range _ _ _ r => r | .catm _ r => r | .catl _ r => r | .rept _ r => r
  | .sext _ r => r | .smul _ _ r => r

/-- target as written: `InlineConstant` appends the range `[w-1:0]` when the net is wider than one bit -/
def Kind.lhs (wd : Nat → Nat) (nm : Nat → String) : Kind → LHS
  | .const _ r => if wd r > 1 then .lrng (nm r) (wd r - 1) 0 else .lid (nm r)
  | k => .lid (nm k.out)

def Kind.assign (wd : Nat → Nat) (nm : Nat → String) (k : Kind) : LHS × Expr := (k.lhs wd nm, k.rhs wd nm)

/-- side conditions under which the inline form is proved (Props/C01.lean): selected bit / range inside the operand,
    literals printable as non-negative 32-bit decimals -/
def Kind.ok (wd : Nat → Nat) : Kind → Prop
  | .bit a k _ => k < wd a ∧ k < 2 ^ 32
  | .const v _ => v < 2 ^ 31
  | .shl _ n _ => n < 2 ^ 32
  | .shr _ n _ => n < 2 ^ 32
  | .range a hi lo _ => lo ≤ hi ∧ hi < wd a
  | .catm ins _ => ins ≠ []
  | .catl ins _ => ins ≠ []
  | .rept i r => wd i = 1 ∧ 1 ≤ wd r
  | .sext a _ => 1 ≤ wd a ∧ wd a - 1 < 2 ^ 32
  | .smul a b _ => 1 ≤ wd a ∧ 1 ≤ wd b
  | _ => True

/-! ## a flat design and its emitted text (after `V.flatten`) -/

/-- a `Reg` child as instantiated: `pfx = "i_<name>."` is the instance prefix given by `V.flattenM` -/
structure RegI where
  pfx : String
  leaf : RLeaf
deriving Inhabited

structure FlatDesign where
  wd : Nat → Nat
  nm : Nat → String          -- name of each net in the top module (ports: the port name; local wires: `w_<name>`)
  clk : String               -- name of the clock port
  nets : List Nat            -- the declared nets (ports and local wires of the top module)
  kinds : List Kind          -- inlinable children, in instantiation (= emission) order
  regs : List RegI
  order : List Nat           -- the simulator's schedule of the combinational leaves (indices into `kinds`)

/-- statement emitted by `BodyReg`, under an instance prefix (= `pfxS p (C01.regBody hasR hasE rv)`) -/
def regBodyP (p : String) (hasR hasE : Bool) (rv : Nat) : Stmt :=
  let core := Stmt.nba (.lid (p ++ "rq")) (.id (p ++ "d"))
  let withE := if hasE then Stmt.ife (.bin "ne" (.id (p ++ "e")) (lit 0)) core .skip else core
  if hasR then Stmt.ife (.bin "eq" (.id (p ++ "r")) (lit 1)) (.nba (.lid (p ++ "rq")) (lit rv)) withE else withE

/-- assigns contributed by one flattened `Reg` instance (`V.flattenM`): the body's `assign q = rq` … -/
def RegI.hq (R : RegI) : LHS × Expr := (.lid (R.pfx ++ "q"), .id (R.pfx ++ "rq"))

/-- … the output port connection `<net> = i.q` … -/
def RegI.hn (nm : Nat → String) (R : RegI) : LHS × Expr := (.lid (nm R.leaf.q), .id (R.pfx ++ "q"))

/-- … the input port connections `i.d = <net>` (`i.e`, `i.r` when present) and the clock connection -/
def RegI.tail (nm : Nat → String) (clk : String) (R : RegI) : List (LHS × Expr) :=
  [(.lid (R.pfx ++ "d"), .id (nm R.leaf.d)), (.lid (R.pfx ++ "clk"), .id clk)] ++
  (if R.leaf.hasE then [(.lid (R.pfx ++ "e"), .id (nm R.leaf.e))] else []) ++
  (if R.leaf.hasR then [(.lid (R.pfx ++ "r"), .id (nm R.leaf.r))] else [])

def RegI.proc (R : RegI) : Event × Stmt :=
  (.pos (R.pfx ++ "clk"), regBodyP R.pfx R.leaf.hasR R.leaf.hasE R.leaf.rv)

/-- the continuous assigns of the flattened text, in one particular order (the theorems hold for EVERY permutation of
    this list: the order in which the emitter writes the children, and `V.flattenM` the connections, is irrelevant) -/
def FlatDesign.assigns (F : FlatDesign) : List (LHS × Expr) :=
  F.regs.map RegI.hq ++ (F.regs.map (RegI.hn F.nm) ++
    (F.kinds.map (Kind.assign F.wd F.nm) ++ F.regs.flatMap (RegI.tail F.nm F.clk)))

def FlatDesign.flat (F : FlatDesign) : V.Flat :=
  { assigns := F.assigns, procs := F.regs.map RegI.proc }

def FlatDesign.netD (F : FlatDesign) : NetD :=
  { wd := F.wd, combs := F.kinds.map (Kind.leaf F.wd), regs := F.regs.map (·.leaf), order := F.order }

/-! ### the signals of the flattened text, and the simulator net each one denotes -/

inductive Node where
  | net (k : Nat)            -- a port or local wire of the top module
  | q (R : RegI)             -- ports and the variable of a flattened `Reg` instance
  | rq (R : RegI)
  | d (R : RegI)
  | e (R : RegI)
  | r (R : RegI)
  | clk (R : RegI)
  | base                     -- the clock port of the top module

def FlatDesign.name (F : FlatDesign) : Node → String
  | .net k => F.nm k
  | .q R => R.pfx ++ "q"
  | .rq R => R.pfx ++ "rq"
  | .d R => R.pfx ++ "d"
  | .e R => R.pfx ++ "e"
  | .r R => R.pfx ++ "r"
  | .clk R => R.pfx ++ "clk"
  | .base => F.clk

def RegI.nodes (R : RegI) : List Node :=
  [.q R, .rq R, .d R, .clk R] ++ (if R.leaf.hasE then [.e R] else []) ++ (if R.leaf.hasR then [.r R] else [])

def FlatDesign.nodes (F : FlatDesign) : List Node := F.nets.map .net ++ (F.regs.flatMap RegI.nodes ++ [.base])

/-- all signal names of the flattened text; "injective naming" = this list has no duplicates -/
def FlatDesign.names (F : FlatDesign) : List String := F.nodes.map F.name

def netOf : Node → Option Nat
  | .net k => some k
  | .q R => some R.leaf.q
  | .rq R => some R.leaf.q
  | .d R => some R.leaf.d
  | .e R => some R.leaf.e
  | .r R => some R.leaf.r
  | .clk _ => none
  | .base => none

/-- the simulator net a Verilog name denotes (none: clocks, undeclared names) -/
def FlatDesign.net (F : FlatDesign) (s : String) : Option Nat :=
  (F.nodes.find? (fun x => F.name x == s)).bind netOf

end FlatM
