import Py4hwV.Lib.Seq
import Py4hwV.Gen.Fsm
import Py4hwV.Verilog.MemBody
/-
  C01 (memories) — simulator side of the memory theorems and the "prediction" of what the emitted body shows.

  Simulator side = the functions GENERATED from storage.py (`Gen.SynchronousMemory.step`, `Gen.AsynchronousMemory.step`,
  `Gen.DualPortSynchronousMemory.step`) followed by the wire mask of `readdata.prepare/put`: `Lib.memClk`, `Lib.dualPortClk`
  (Lib/Seq.lean, the machines C09 proves against their reference machines) and `Mem.asyncClk` below.

  Ghost state: `wr : List Bool` = which cells have been written since power-up, `rk` = the read register has been loaded from a
  written cell.  In Verilog a cell / a reg without initial value is x until it is written; in the simulator it is 0.
  The `…Spec` functions below say what the Verilog output must be in terms of the simulator's data:
    SynchronousMemory           readdata = simulator's readdata, or x while the cell read (at the last edge) had never been written
    AsynchronousMemory          readdata = simulator's readdata, or x while the cell read has never been written
    DualPortSynchronousMemory   readdata_x = content of the cell AFTER the edge (`assign readdata_a = mem[read_address_a]` is an
                                asynchronous read of the updated array), or x — the simulator shows the content BEFORE the edge
-/
namespace Mem
open Lib Leaf

def syncInp (x : MemIn) : Inp :=
  [("read_address", x.ra), ("write_address", x.wa), ("write", x.we), ("writedata", x.wd)]

def dualInp (x : DpIn) : Inp :=
  [("read_address_a", x.a.ra), ("write_address_a", x.a.wa), ("write_a", x.a.we), ("writedata_a", x.a.wd),
   ("read_address_b", x.b.ra), ("write_address_b", x.b.wa), ("write_b", x.b.we), ("writedata_b", x.b.wd)]

/-- the cell written by this step becomes known -/
def markW (wr : List Bool) (i : MemIn) : List Bool := if i.we ≠ 0 then wr.set i.wa true else wr

/-- `Val` of a simulator value under a known-flag -/
def mask (k : Bool) (v : Nat) : Val := if k then some v else none

/-- what the array of the Verilog body holds: the simulator's cell reduced to the word width, x where never written -/
def absMem (dw : Nat) (wr : List Bool) (data : List Int) : List Val :=
  List.zipWith (fun k d => mask k (Bits.put dw d)) wr data

/-! ### SynchronousMemory -/
structure SyncG where
  s : MemSt
  wr : List Bool
  rk : Bool

def SyncG.init (aw : Nat) : SyncG := ⟨⟨List.replicate (2 ^ aw) 0, 0⟩, List.replicate (2 ^ aw) false, false⟩
def SyncG.step (dw : Nat) (g : SyncG) (i : MemIn) : SyncG := ⟨memClk dw i g.s, markW g.wr i, g.wr.getD i.ra false⟩
def SyncG.out (g : SyncG) : Val := mask g.rk g.s.readdata

def syncSpec (dw : Nat) : SyncG → List MemIn → List Val
  | _, [] => []
  | g, i :: h => (g.step dw i).out :: syncSpec dw (g.step dw i) h

/-- per cycle: had the cell read at this edge been written at an EARLIER edge -/
def syncKnown : List Bool → List MemIn → List Bool
  | _, [] => []
  | wr, i :: h => wr.getD i.ra false :: syncKnown (markW wr i) h

/-- the simulator's read data after every cycle -/
def syncSim (dw : Nat) : MemSt → List MemIn → List Nat
  | _, [] => []
  | s, i :: h => (memClk dw i s).readdata :: syncSim dw (memClk dw i s) h

/-! ### AsynchronousMemory (`propagate`, generated) -/
def asyncClk (dw : Nat) (i : MemIn) (s : MemSt) : MemSt :=
  let o := Gen.AsynchronousMemory.step ⟨⟩ { data := s.data }
             { read_address := (i.ra : Int), write_address := (i.wa : Int), write := (i.we : Int), writedata := (i.wd : Int) } ⟨⟩
  ⟨o.1.data, landed dw o.2.readdata⟩

structure AsyncG where
  s : MemSt
  wr : List Bool

def AsyncG.init (aw : Nat) : AsyncG := ⟨⟨List.replicate (2 ^ aw) 0, 0⟩, List.replicate (2 ^ aw) false⟩
def AsyncG.step (dw : Nat) (g : AsyncG) (i : MemIn) : AsyncG := ⟨asyncClk dw i g.s, markW g.wr i⟩

def asyncSpec (dw : Nat) : AsyncG → List MemIn → List Val
  | _, [] => []
  | g, i :: h => mask ((g.step dw i).wr.getD i.ra false) (g.step dw i).s.readdata :: asyncSpec dw (g.step dw i) h

def asyncKnown : List Bool → List MemIn → List Bool
  | _, [] => []
  | wr, i :: h => (markW wr i).getD i.ra false :: asyncKnown (markW wr i) h

def asyncSim (dw : Nat) : MemSt → List MemIn → List Nat
  | _, [] => []
  | s, i :: h => (asyncClk dw i s).readdata :: asyncSim dw (asyncClk dw i s) h

/-! ### DualPortSynchronousMemory -/
structure DualG where
  s : DpSt
  wr : List Bool

def DualG.init (aw : Nat) : DualG := ⟨⟨List.replicate (2 ^ aw) 0, 0, 0⟩, List.replicate (2 ^ aw) false⟩
def DualG.step (dw : Nat) (g : DualG) (i : DpIn) : DualG := ⟨dualPortClk dw i g.s, markW (markW g.wr i.a) i.b⟩

/-- the cell at `a` AFTER the edge, as the Verilog array holds it -/
def DualG.cell (dw : Nat) (g : DualG) (a : Nat) : Val := mask (g.wr.getD a false) (Bits.put dw (g.s.data.getD a 0))

/-- what the emitted body shows: the contents after the edge at both read addresses -/
def dualSpec (dw : Nat) : DualG → List DpIn → List (Val × Val)
  | _, [] => []
  | g, i :: h => ((g.step dw i).cell dw i.a.ra, (g.step dw i).cell dw i.b.ra) :: dualSpec dw (g.step dw i) h

/-- what the simulator shows (contents BEFORE the edge), with the known flags of those cells -/
def dualSimSpec (dw : Nat) : DualG → List DpIn → List (Val × Val)
  | _, [] => []
  | g, i :: h => (mask (g.wr.getD i.a.ra false) (g.step dw i).s.rda, mask (g.wr.getD i.b.ra false) (g.step dw i).s.rdb)
                   :: dualSimSpec dw (g.step dw i) h

def dualSim (dw : Nat) : DpSt → List DpIn → List (Nat × Nat)
  | _, [] => []
  | s, i :: h => ((dualPortClk dw i s).rda, (dualPortClk dw i s).rdb) :: dualSim dw (dualPortClk dw i s) h

/-- per cycle and port: had the cell read at this edge been written at an EARLIER edge -/
def dualKnown : List Bool → List DpIn → List (Bool × Bool)
  | _, [] => []
  | wr, i :: h => (wr.getD i.a.ra false, wr.getD i.b.ra false) :: dualKnown (markW (markW wr i.a) i.b) h

def mask2 (k : Bool × Bool) (r : Nat × Nat) : Val × Val := (mask k.1 r.1, mask k.2 r.2)

/-- no port writes, on this edge, a cell that is read on this edge (class outside which body and simulator differ) -/
def dpQuiet (i : DpIn) : Bool :=
  !((i.a.we != 0 && (i.a.wa == i.a.ra || i.a.wa == i.b.ra)) || (i.b.we != 0 && (i.b.wa == i.a.ra || i.b.wa == i.b.ra)))

/-- both ports write the same cell on this edge -/
def dpClash (i : DpIn) : Bool := i.a.we != 0 && i.b.we != 0 && i.a.wa == i.b.wa

/-! ### MsgSequencer (sequencer.py `clock()`, generated: `Gen.MsgSequencer.step`) + the masks of `valid.prepare` / `v.prepare`;
    a wire that is not prepared in a call keeps its value -/
structure MsgSt where
  st : Gen.MsgSequencer.St
  valid : Nat
  v : Nat
deriving Repr, DecidableEq

def msgInit : MsgSt := ⟨Gen.MsgSequencer.init, 0, 0⟩

def msgClk (msg : List Nat) (ready : Nat) (s : MsgSt) : MsgSt :=
  let o := Gen.MsgSequencer.step ⟨msg.map Int.ofNat⟩ s.st ⟨(ready : Int)⟩ ⟨⟩
  ⟨o.1, match o.2.valid with | some x => Bits.put 1 x | none => s.valid,
        match o.2.v with | some x => Bits.put 8 x | none => s.v⟩

/-- (valid, v) after every cycle of a ready-schedule -/
def msgSim (msg : List Nat) : MsgSt → List Nat → List (Nat × Nat)
  | _, [] => []
  | s, r :: h => ((msgClk msg r s).valid, (msgClk msg r s).v) :: msgSim msg (msgClk msg r s) h

def msgInp (r : Nat) : Inp := [("ready", r)]
def msgRow (p : Nat × Nat) : List (String × Val) := [("valid", some p.1), ("v", some p.2)]

def okIn (aw : Nat) (i : MemIn) : Prop := i.ra < 2 ^ aw ∧ i.wa < 2 ^ aw
instance (aw : Nat) (i : MemIn) : Decidable (okIn aw i) := inferInstanceAs (Decidable (_ ∧ _))
def okDp (aw : Nat) (i : DpIn) : Prop := okIn aw i.a ∧ okIn aw i.b
instance (aw : Nat) (i : DpIn) : Decidable (okDp aw i) := inferInstanceAs (Decidable (_ ∧ _))

end Mem
