import Py4hwV.Emit.Flat
/-
  C01 (design level) — the TEXT of a flat design.

  `FlatSrc` is the description the harness imports from a live py4hw object graph (harness/c01.py, stream `flat-text`):
  port lists, local wires in the order of their declarations, children in instantiation order (inlinable primitives and
  `Reg` instances with their instance and module names), net names and widths, the simulator's schedule.
  `FlatSrc.emit : V.Design` is the module list `rtl_generation.py` writes for it, in the abstract syntax that
  harness/vparse.py produces: the top module (clock port when there is a register, input and output ports, `wire`
  declarations, one `assign` per primitive, one instance per register) followed by one module per distinct register
  module name (`reg rq = RV; always @(posedge clk) <BodyReg>; assign q = rq;`).
  The harness checks, per design, that the PARSED REAL TEXT is EQUAL to `emit` of the imported description
  (decidable equality on `V.Design`, lean/Drv/C01Flat.lean) and that `FlatSrc.check` holds; the theorems of
  Props/C01Flat.lean (`text_run`) then apply to the parsed real text itself.
-/
deriving instance DecidableEq for V.Expr
deriving instance DecidableEq for V.LHS
deriving instance DecidableEq for V.Stmt
deriving instance DecidableEq for V.Event
deriving instance DecidableEq for V.Port
deriving instance DecidableEq for V.Item
deriving instance DecidableEq for V.Module

namespace FlatM
open V

structure RegSrc where
  iname : String             -- instance name, `i_<name>`
  mname : String             -- module name, `Reg<w>[R][E][_v<rv>]…` (structureName)
  leaf : RLeaf
deriving Inhabited, Repr

inductive Child where
  | prim (k : Kind)
  | reg (r : RegSrc)
deriving Inhabited, Repr

structure FlatSrc where
  top : String
  clk : String
  widths : List Nat          -- by net id
  names : List String        -- by net id
  inputs : List Nat
  outputs : List Nat
  locals : List Nat
  children : List Child
  order : List Nat
deriving Inhabited, Repr

namespace FlatSrc

def wd (S : FlatSrc) (k : Nat) : Nat := S.widths.getD k 1
def nm (S : FlatSrc) (k : Nat) : String := S.names.getD k "?"

def Child.prim? : Child → Option Kind | .prim k => some k | .reg _ => none
def Child.reg? : Child → Option RegSrc | .prim _ => none | .reg r => some r

def regSrcs (S : FlatSrc) : List RegSrc := S.children.filterMap Child.reg?

def RegSrc.regI (r : RegSrc) : RegI := { pfx := r.iname ++ ".", leaf := r.leaf }

/-- the design the theorems are about -/
def design (S : FlatSrc) : FlatDesign :=
  { wd := S.wd, nm := S.nm, clk := S.clk, nets := S.inputs ++ (S.outputs ++ S.locals),
    kinds := S.children.filterMap Child.prim?, regs := S.regSrcs.map RegSrc.regI, order := S.order }

/-! ### the emitted modules -/

def mkPort (dir : Dir) (w : Nat) (n : String) : Port := { dir := dir, isReg := false, width := w, name := n }

/-- statement emitted by `BodyReg` (same as `C01.regBody`) -/
def regBody0 (hasR hasE : Bool) (rv : Nat) : Stmt :=
  let core := Stmt.nba (.lid "rq") (.id "d")
  let withE := if hasE then Stmt.ife (.bin "ne" (.id "e") (lit 0)) core .skip else core
  if hasR then Stmt.ife (.bin "eq" (.id "r") (lit 1)) (.nba (.lid "rq") (lit rv)) withE else withE

/-- `module Reg… (input clk, input [w-1:0] d, [input e,] [input r,] output [w-1:0] q); reg rq = RV; always …; assign q = rq;` -/
def regModule (S : FlatSrc) (r : RegSrc) : Module :=
  { name := r.mname, params := [],
    ports := [mkPort .inp 1 "clk", mkPort .inp (S.wd r.leaf.d) "d"] ++
      (if r.leaf.hasE then [mkPort .inp (S.wd r.leaf.e) "e"] else []) ++
      (if r.leaf.hasR then [mkPort .inp (S.wd r.leaf.r) "r"] else []) ++
      [mkPort .out (S.wd r.leaf.q) "q"],
    items := [.reg "rq" (S.wd r.leaf.q) (some (lit r.leaf.rv)),
              .always (.pos "clk") (regBody0 r.leaf.hasR r.leaf.hasE r.leaf.rv),
              .assign (.lid "q") (.id "rq")] }

/-- `Reg… i_r(.clk(clk),.d(<d>),[.e(<e>),][.r(<r>),].q(<q>));` -/
def regConns (S : FlatSrc) (r : RegSrc) : List (String × Expr) :=
  [("clk", .id S.clk), ("d", .id (S.nm r.leaf.d))] ++
  (if r.leaf.hasE then [("e", .id (S.nm r.leaf.e))] else []) ++
  (if r.leaf.hasR then [("r", .id (S.nm r.leaf.r))] else []) ++
  [("q", .id (S.nm r.leaf.q))]

def childItem (S : FlatSrc) : Child → Item
  | .prim k => .assign (k.lhs S.wd S.nm) (k.rhs S.wd S.nm)
  | .reg r => .inst r.mname r.iname [] (S.regConns r)

def topModule (S : FlatSrc) : Module :=
  { name := S.top, params := [],
    ports := (if S.regSrcs.isEmpty then [] else [mkPort .inp 1 S.clk]) ++
      (S.inputs.map fun k => mkPort .inp (S.wd k) (S.nm k)) ++ (S.outputs.map fun k => mkPort .out (S.wd k) (S.nm k)),
    items := (S.locals.map fun k => Item.wire (S.nm k) (S.wd k)) ++ S.children.map S.childItem }

/-- one module per distinct name, in order of first use (the emitter's `created_structures`) -/
def dedupMods (ms : List Module) : List Module :=
  ms.foldl (fun acc m => if acc.any (·.name == m.name) then acc else acc ++ [m]) []

def emit (S : FlatSrc) : Design := S.topModule :: dedupMods (S.regSrcs.map S.regModule)

/-! ### the executable well-formedness check (sound: `Proofs/C01FlatCheck.lean`) -/

def Kind.okb (wd : Nat → Nat) : Kind → Bool
  | .bit a k _ => decide (k < wd a) && decide (k < 2 ^ 32)
  | .const v _ => decide (v < 2 ^ 31)
  | .shl _ n _ => decide (n < 2 ^ 32)
  | .shr _ n _ => decide (n < 2 ^ 32)
  | .range a hi lo _ => decide (lo ≤ hi) && decide (hi < wd a)
  | .catm ins _ => !ins.isEmpty
  | .catl ins _ => !ins.isEmpty
  | .rept i r => decide (wd i = 1) && decide (1 ≤ wd r)
  | .sext a _ => decide (1 ≤ wd a) && decide (wd a - 1 < 2 ^ 32)
  | .smul a b _ => decide (1 ≤ wd a) && decide (1 ≤ wd b)
  | _ => true

/-- `order` lists leaf indices sources first: nobody at or after a leaf drives one of its inputs, outputs distinct, no index twice -/
def topoCheck (ins : Nat → List Nat) (out : Nat → Nat) : List Nat → Bool
  | [] => true
  | a :: rest =>
    ((a :: rest).all fun b => (ins a).all fun w => w != out b) &&
    (rest.all fun b => out a != out b) && !rest.contains a && topoCheck ins out rest

def drivenNets (S : FlatSrc) : List Nat := S.design.kinds.map Kind.out ++ S.design.regs.map (·.leaf.q)

/-- the named conditions; the design is covered by the theorems when all of them hold -/
def checks (S : FlatSrc) : List (String × Bool) :=
  let F := S.design
  [("names_inj", decide F.names.Nodup),
   ("nets_nodup", decide F.nets.Nodup),
   ("nets_kinds", F.kinds.all fun k => F.nets.contains k.out && (k.leaf F.wd).ins.all F.nets.contains),
   ("nets_regs", F.regs.all fun R => F.nets.contains R.leaf.d && F.nets.contains R.leaf.q &&
      (!R.leaf.hasE || F.nets.contains R.leaf.e) && (!R.leaf.hasR || F.nets.contains R.leaf.r)),
   ("single_driver", decide S.drivenNets.Nodup),
   ("order_perm", F.order.isPerm (List.range F.kinds.length)),
   ("acyclic", topoCheck (fun i => ((F.kinds.getD i default).leaf F.wd).ins) (fun i => (F.kinds.getD i default).out) F.order),
   ("kinds_ok", F.kinds.all (Kind.okb F.wd)),
   ("rv_lt", F.regs.all fun R => decide (R.leaf.rv < 2 ^ 31)),
   ("top_name", S.regSrcs.all fun r => r.mname != S.top),
   ("mods_consistent", S.regSrcs.all fun r => S.regSrcs.all fun r' => r.mname != r'.mname || decide (S.regModule r = S.regModule r')),
   ("inputs_undriven", S.inputs.all fun k => !S.drivenNets.contains k),
   ("all_driven", (S.outputs ++ S.locals).all S.drivenNets.contains)]

def check (S : FlatSrc) : Bool := S.checks.all (·.2)

end FlatSrc
end FlatM
