/-
  C19 — model of the HIDDEN STATE of py4hw's Verilog generator (py4hw/rtl_generation.py).

  A pure Lean function is trivially repeatable, so this model makes the implementation's state explicit and transcribes
  the order in which the Python reads and writes it:

      Python (py4hw/rtl_generation.py)                       model
      wire_names_cache_obj / wire_names_cache  (module)       Cache {obj, map}            (part of S and of World)
      clearWireNamesCache()                                   Cache.clear  (only in getVerilogPub / getHierPub)
      getWireNames(obj)  (single-entry cache, keyed by ==)    getWireNames  (hit test first, fill on miss)
      getWireName / getParentWireName                         getWireName / getParentWireName
      collectPortWires / collectLocalWires                    collectPortWires / collectLocalWires
      getVerilogModuleName / getPortName / getInstanceName    moduleName / portName / "i_" ++ name
      VerilogGenerator.created_structures (list, aliased      S.created during a call; World.heap + Gen.created (a
        with the caller's list when one is supplied)            reference into the heap) between calls
      VerilogGenerator.getVerilog / getVerilogForHierarchy    getVerilogPub / getHierPub        (the two public entries)
      _getVerilog / _getVerilogForHierarchy                   getVerilogI / hierI (fuel = recursion depth)
      createModuleHeader / createModuleInstances /            header / moduleInstances / instantiateStructural /
        instantiateStructural / inlinePrimitive                 inlinePrimitive
      anyClockableDescendant / getObjectClockDriver           anyClockable / clockDriverOf (fuel = table size)

  The circuit is a table of objects and wires (`Design`; ids = indices; object identity `id(obj)` = `ObjD.ident`).
  One table holds every circuit alive in the process (several roots).  The table is immutable DURING a public call —
  that is the property's own premise; between calls it may be replaced (`Op.edit`: construction steps, other circuits).

  What is NOT modelled: the text of primitive bodies (`provideBody`, the transpiler: an opaque `leafText` per object,
  i.e. assumed to be a function of the object alone — this is exactly what the harness observes on the real code),
  the exact text of the ~30 `Inline*` one-liners (a fragment records the class and the names, in the PARENT's scope,
  of the child's port wires: the part that goes through the cache).  Text is structured (`Out`), rendered by `render`.

  `useCache = false` is the same code with the hit test of getWireNames removed ("always recompute"): the reference
  against which cache coherence is stated (Props/C19.lean).
-/
namespace Emit

abbrev ObjId := Nat
abbrev WireId := Nat

inductive Err
  | noneObj                          -- attribute access / subscripting on None (obj.parent is None, getWireNames(None))
  | keyError (w : WireId) (scope : ObjId)   -- wire not among the names of the scope (KeyError / 'Wire … not in the wires of …')
  | notConnected (o : ObjId)         -- 'Input port … not connected to any wire'
  | notInParent (o : ObjId) (w : WireId)    -- 'Input port wire … not part of the wires of the parent …'
  | noClock                          -- 'No clock driver at top level' / 'None clk driver wire for …'
  | badRef                           -- dangling id in the table (never produced by the harness)
  | fuel                             -- recursion bound of the model exhausted (never on finite trees)
  deriving DecidableEq, Repr

structure WireD where
  name : String
  width : Nat
  fake : Bool := false               -- FakeWire: `isinstance(wire, Wire)` is False
  deriving DecidableEq, Repr, Inhabited

structure PortD where
  name : String
  wire : Option WireId
  deriving DecidableEq, Repr, Inhabited

structure ClockD where
  name : String
  wire : Option WireId
  baseName : Option String := none   -- drv.base.name
  deriving DecidableEq, Repr, Inhabited

structure ObjD where
  parent : Option ObjId
  cls : String                       -- type(obj).__name__
  name : String
  ident : Nat                        -- id(obj)
  structName : Option String := none -- obj.structureName() when the method exists
  params : Option (List (String × String)) := none   -- parameter name ↦ instantiation value; none: no `parameters` attribute
  children : List ObjId := []        -- obj.children.values(), insertion order
  inPorts : List PortD := []
  outPorts : List PortD := []
  inOutPorts : List PortD := []
  clockDriver : Option ClockD := none
  propagatable : Bool := false
  clockable : Bool := false
  runnable : Bool := false
  inlinable : Bool := false          -- type(obj) ∈ inlinablePrimitives
  providesBody : Bool := false       -- has verilogBody() or type(obj) ∈ providingBody
  gated : Option ClockD := none      -- isinstance(obj, GatedClock): obj.drv
  leafText : String := ""            -- opaque: provideBody(obj) / transpiler output for obj
  deriving DecidableEq, Repr, Inhabited

structure Design where
  objs : List ObjD
  wires : List WireD
  keywords : List String := []       -- isReservedVerilogKeyword (the three lists of the source)
  deriving DecidableEq, Repr, Inhabited

def Design.obj? (d : Design) (o : ObjId) : Except Err ObjD :=
  match d.objs[o]? with | some x => .ok x | none => .error .badRef

def Design.wire? (d : Design) (w : WireId) : Except Err WireD :=
  match d.wires[w]? with | some x => .ok x | none => .error .badRef

/-! ### python dict keyed by wire identity -/
abbrev NameMap := List (WireId × String)

def dget : NameMap → WireId → Option String
  | [], _ => none
  | (k, v) :: t, n => if k = n then some v else dget t n

def dset : NameMap → WireId → String → NameMap
  | [], n, v => [(n, v)]
  | (k, x) :: t, n, v => if k = n then (k, v) :: t else (k, x) :: dset t n v

/-! ### structured text -/
inductive Frag
  | inl (child : ObjId) (cls : String) (names : List String)
  | inst (modName : String) (params : List (String × String)) (instName : String) (conns : List (String × String))
  deriving DecidableEq, Repr, Inhabited

inductive Body
  | leaf (how : String) (o : ObjId) (text : String)      -- how ∈ body | comb | run | seq
  | struct (frags : List Frag)
  deriving DecidableEq, Repr, Inhabited

structure HdrPort where
  dir : String
  reg : Bool
  width : Nat
  name : String
  deriving DecidableEq, Repr, Inhabited

structure ModT where
  src : ObjId                               -- the object whose text this is (not part of the text)
  name : String
  params : Option (List String)
  gatedPorts : Bool
  clk : Option String
  ports : List HdrPort
  wires : List (String × Nat)
  body : Body
  deriving DecidableEq, Repr, Inhabited

inductive Out
  | empty                                   -- '' : structure already created
  | inlinedOutOfScope (f : Frag)            -- '// WARNING: inlined out of scope' + inlinePrimitive(obj)
  | mod (m : ModT)
  deriving DecidableEq, Repr, Inhabited

/-! ### state and monad (state survives an exception, as in Python) -/
structure Cache where
  obj : Option ObjId := none         -- wire_names_cache_obj
  map : NameMap := []                -- wire_names_cache (None ↔ obj = none)
  deriving DecidableEq, Repr, Inhabited

structure S where
  cache : Cache := {}
  created : List String := []        -- self.created_structures (the list object currently bound)
  deriving DecidableEq, Repr, Inhabited

abbrev M (α : Type) := S → Except Err α × S

@[inline] def M.pure {α} (a : α) : M α := fun s => (.ok a, s)
@[inline] def M.bind {α β} (m : M α) (f : α → M β) : M β := fun s =>
  match m s with
  | (.ok a, s') => f a s'
  | (.error e, s') => (.error e, s')
instance : Monad M where
  pure := M.pure
  bind := M.bind

def throwM {α} (e : Err) : M α := fun s => (.error e, s)
def liftE {α} (x : Except Err α) : M α := fun s => (x, s)

/-- explicit traversal (a python `for` building a list) -/
def mapMM {α β} (f : α → M β) : List α → M (List β)
  | [] => pure []
  | a :: t => do let b ← f a; let r ← mapMM f t; pure (b :: r)

/-! ### pure helpers (no cache access) -/
def isReserved (d : Design) (n : String) : Bool := d.keywords.contains n

/-- getValidVerilogName / getPortName -/
def portName (d : Design) (p : PortD) : String := if isReserved d p.name then "reserved_" ++ p.name else p.name

/-- getVerilogModuleName(obj, noInstanceNumber) -/
def moduleName (obj : ObjD) (noInstanceNumber : Bool) : String :=
  match obj.structName with
  | some n => n
  | none => if noInstanceNumber then obj.cls else obj.cls ++ "_ID" ++ toString obj.ident

def portWires (ps : List PortD) : List WireId := ps.filterMap (·.wire)

/-- collectPortWires(obj) -/
def collectPortWires (obj : ObjD) : List WireId :=
  portWires obj.inPorts ++ portWires obj.outPorts ++ portWires obj.inOutPorts

/-- the dictionary built by getWireNames on a miss (`ret`) -/
def computeWireNames (d : Design) (o : ObjId) : Except Err NameMap := do
  let obj ← d.obj? o
  let mut ret : NameMap := []
  for c in obj.children do
    let child ← d.obj? c
    for w in collectPortWires child do
      let wd ← d.wire? w
      ret := dset ret w (if wd.fake then wd.name else "w_" ++ wd.name)
  for p in obj.inPorts ++ obj.outPorts ++ obj.inOutPorts do
    match p.wire with
    | some w => ret := dset ret w (portName d p)
    | none => pure ()
  return ret

/-- collectLocalWires(obj) (python: list(set(..)); here first-occurrence order, Canon sorts declarations) -/
def collectLocalWires (d : Design) (obj : ObjD) : Except Err (List WireId) := do
  let pw := collectPortWires obj
  let mut ret : List WireId := []
  for c in obj.children do
    let child ← d.obj? c
    for w in collectPortWires child do
      if !pw.contains w && !ret.contains w then ret := ret ++ [w]
  return ret

/-- getObjectClockDriver(obj) -/
def clockDriverOf (d : Design) : Nat → ObjId → Except Err ClockD
  | 0, _ => .error .fuel
  | fuel + 1, o => do
    let obj ← d.obj? o
    match obj.clockDriver with
    | some c => pure c
    | none => match obj.parent with
      | none => .error .noClock
      | some p => clockDriverOf d fuel p

/-- VerilogGenerator.anyClockableDescendant(obj) -/
def anyClockable (d : Design) : Nat → ObjId → Except Err Bool
  | 0, _ => .error .fuel
  | fuel + 1, o => do
    let obj ← d.obj? o
    if obj.clockable || obj.propagatable then pure obj.clockable
    else
      let mut r := false
      for c in obj.children do
        if !r then
          if (← anyClockable d fuel c) then r := true
      pure r

def hdrPorts (d : Design) (dir : String) (reg : Bool) (ps : List PortD) : Except Err (List HdrPort) :=
  ps.mapM fun p => match p.wire with
    | some w => do let wd ← d.wire? w; pure { dir := dir, reg := reg, width := wd.width, name := portName d p }
    | none => .error .noneObj          -- getWidthInfo(None)

/-- createModuleHeader(obj, structureName): everything of the module except wires and body -/
def header (d : Design) (o : ObjId) (obj : ObjD) (structureName : String) : Except Err ModT := do
  let reg := (obj.clockable || obj.propagatable) && !obj.providesBody
  let clk ← (do if (← anyClockable d d.objs.length o) then pure (some (← clockDriverOf d d.objs.length o).name) else pure none)
  let i ← hdrPorts d "input" false obj.inPorts
  let ou ← hdrPorts d "output" reg obj.outPorts
  let io ← hdrPorts d "inout" reg obj.inOutPorts
  pure { src := o, name := structureName, params := obj.params.map (·.map (·.1)), gatedPorts := obj.gated.isSome, clk := clk,
         ports := i ++ ou ++ io, wires := [], body := .struct [] }

/-! ### the cache -/
/-- getWireNames(obj).  `useCache = false`: the same function without the hit test. -/
def getWireNames (d : Design) (useCache : Bool) (o : Option ObjId) : M NameMap := fun s =>
  match o with
  | none => (.error .noneObj, s)          -- None == cache_obj → returns None, or None.children: every caller then raises
  | some o =>
    if useCache && s.cache.obj == some o then (.ok s.cache.map, s)
    else match computeWireNames d o with
      | .error e => (.error e, s)         -- raised before the two globals are assigned
      | .ok ret => (.ok ret, { s with cache := { obj := some o, map := ret } })

/-- getWireName(scope, w) -/
def getWireName (d : Design) (uc : Bool) (scope : ObjId) (w : WireId) : M String := do
  let wNames ← getWireNames d uc (some scope)
  match dget wNames w with
  | some n => pure n
  | none => throwM (.keyError w scope)

/-- getParentWireName(child, w) -/
def getParentWireName (d : Design) (uc : Bool) (child : ObjD) (w : WireId) : M String := do
  let wd ← liftE (d.wire? w)
  if wd.fake then pure wd.name
  else
    let wNames ← getWireNames d uc child.parent
    match dget wNames w with
    | some n => pure n
    | none => throwM (.keyError w (child.parent.getD 0))

/-- inlinePrimitive(obj): the Inline* one-liners look up each wire they mention through getParentWireName -/
def inlinePrimitive (d : Design) (uc : Bool) (o : ObjId) (obj : ObjD) : M Frag := do
  let names ← mapMM (getParentWireName d uc obj) (collectPortWires obj)
  pure (.inl o obj.cls names)

def connect (d : Design) (child : ObjId) (wireName : NameMap) (p : PortD) : M (String × String) :=
  match p.wire with
  | none => throwM (.notConnected child)
  | some w => match dget wireName w with
    | none => throwM (.notInParent child w)
    | some n => pure (portName d p, n)

/-- instantiateStructural(child) -/
def instantiateStructural (d : Design) (uc : Bool) (c : ObjId) (child : ObjD) : M Frag := do
  let clkConns ← (match child.gated with
    | some drv => (pure [("clk_in", drv.baseName.getD ""), ("clk_out", drv.name)] : M (List (String × String)))
    | none => do
      if (← liftE (anyClockable d d.objs.length c)) then
        let drv ← liftE (clockDriverOf d d.objs.length c)
        match drv.wire with
        | none => throwM .noClock
        | some dw =>
          let parentDrv ← (match child.parent with
            | none => throwM .noneObj
            | some p => liftE (clockDriverOf d d.objs.length p))
          if some dw == parentDrv.wire then pure [(drv.name, drv.name)]
          else do
            let wn ← (match child.parent with
              | none => throwM .noneObj
              | some p => getWireName d uc p dw)
            pure [(drv.name, wn)]
      else pure [])
  let wireName ← getWireNames d uc child.parent
  let conns ← mapMM (connect d c wireName) (child.inPorts ++ child.outPorts ++ child.inOutPorts)
  pure (.inst (moduleName child false) (child.params.getD []) ("i_" ++ child.name) (clkConns ++ conns))

def emitChild (d : Design) (uc : Bool) (c : ObjId) : M Frag := do
  let child ← liftE (d.obj? c)
  if child.inlinable then inlinePrimitive d uc c child else instantiateStructural d uc c child

/-- createModuleInstances(obj) -/
def moduleInstances (d : Design) (uc : Bool) (obj : ObjD) : M (List Frag) := mapMM (emitChild d uc) obj.children

def declare (d : Design) (o : ObjId) (wireNames : NameMap) (w : WireId) : M (Option (String × Nat)) := do
  let wd ← liftE (d.wire? w)
  if wd.fake then pure none
  else match dget wireNames w with
    | some n => pure (some (n, wd.width))
    | none => throwM (.keyError w o)

def isCreated (name : String) : M Bool := fun s => (.ok (s.created.contains name), s)
def appendCreated (name : String) : M Unit := fun s => (.ok (), { s with created := s.created ++ [name] })

/-- `str += "endmodule"; self.created_structures.append(structure_name); return str` -/
def finishModule (structureName : String) (hdr : ModT) (b : Body) : M Out := do
  appendCreated structureName
  pure (.mod { hdr with body := b })

/-- the part of _getVerilog after the created_structures test: never reads `created`, appends to it at the end -/
def emitModule (d : Design) (uc : Bool) (o : ObjId) (obj : ObjD) (structureName : String) : M Out := do
  let hdr ← liftE (header d o obj structureName)
  let localWires ← liftE (collectLocalWires d obj)
  let wireNames ← getWireNames d uc (some o)
  let decls ← mapMM (declare d o wireNames) localWires
  let hdr := { hdr with wires := decls.filterMap id }
  if obj.propagatable then
    if obj.providesBody then finishModule structureName hdr (.leaf "body" o obj.leafText)
    else if obj.inlinable then do
      let f ← inlinePrimitive d uc o obj
      pure (.inlinedOutOfScope f)
    else finishModule structureName hdr (.leaf "comb" o obj.leafText)
  else if obj.runnable then finishModule structureName hdr (.leaf "run" o obj.leafText)
  else if obj.clockable then
    if obj.providesBody then finishModule structureName hdr (.leaf "body" o obj.leafText)
    else finishModule structureName hdr (.leaf "seq" o obj.leafText)
  else do
    let frags ← moduleInstances d uc obj
    finishModule structureName hdr (.struct frags)

/-- VerilogGenerator._getVerilog(obj, noInstanceNumber, forceName) -/
def getVerilogI (d : Design) (uc : Bool) (o : ObjId) (noInstanceNumber : Bool) (forceName : Option String) : M Out := do
  let obj ← liftE (d.obj? o)
  let structureName := match forceName with | some f => f | none => moduleName obj noInstanceNumber
  if (← isCreated structureName) then pure .empty
  else emitModule d uc o obj structureName

/-- VerilogGenerator._getVerilogForHierarchy(obj, noInstanceNumberInTopEntity, forceName); empty parts are dropped.
    Note that the children of an already-created structure are still visited, as in the Python. -/
def hierI (d : Design) (uc : Bool) : Nat → ObjId → Bool → Option String → M (List Out)
  | 0, _, _, _ => throwM .fuel
  | fuel + 1, o, noInst, forceName => do
    let own ← getVerilogI d uc o noInst forceName
    let obj ← liftE (d.obj? o)
    let parts ← mapMM (fun c => do
        let child ← liftE (d.obj? c)
        if child.inlinable then pure [] else hierI d uc fuel c false none) obj.children
    pure ((if own = .empty then [] else [own]) ++ parts.flatten)

/-! ### the process: generators, caller-owned lists, public calls -/
structure Gen where
  obj : ObjId                        -- self.obj
  created : Nat                      -- self.created_structures: reference into World.heap
  deriving DecidableEq, Repr, Inhabited

structure World where
  d : Design
  cache : Cache := {}
  gens : List Gen := []
  heap : List (List String) := []    -- list objects (generator-owned and caller-owned)
  deriving Repr, Inhabited

abbrev Resp := Except Err (List Out)

inductive Op
  | newGen (o : ObjId)                                   -- VerilogGenerator(obj)
  | newList (init : List String)                         -- the caller creates a list object
  | getVerilog (g : Nat) (obj : Option ObjId) (noInstanceNumber : Bool) (forceName : Option String)
  | getHier (g : Nat) (obj : Option ObjId) (noInstTop : Bool) (forceName : Option String) (list : Option Nat)
  | edit (d' : Design)                                   -- the object graph changes BETWEEN two requests
  | sim                                                  -- simulation steps: touch nothing the generator reads (assumption)
  deriving Repr, Inhabited

def fuelOf (d : Design) : Nat := d.objs.length + 1

/-- VerilogGenerator.getVerilog -/
def getVerilogPub (w : World) (g : Nat) (obj : Option ObjId) (ni : Bool) (force : Option String) : World × Resp :=
  match w.gens[g]? with
  | none => (w, .error .badRef)
  | some gen =>
    -- clearWireNamesCache(); self.created_structures = []
    let s0 : S := { cache := {}, created := [] }
    let (r, s1) := getVerilogI w.d true (obj.getD gen.obj) ni force s0
    ({ w with cache := s1.cache, heap := w.heap ++ [s1.created],
              gens := w.gens.set g { gen with created := w.heap.length } }, r.map fun o => if o = .empty then [] else [o])

/-- VerilogGenerator.getVerilogForHierarchy -/
def getHierPub (w : World) (g : Nat) (obj : Option ObjId) (ni : Bool) (force : Option String) (list : Option Nat) :
    World × Resp :=
  match w.gens[g]? with
  | none => (w, .error .badRef)
  | some gen =>
    -- clearWireNamesCache(); created_structures = [] or the caller's list object
    let (ref, heap0) := match list with
      | none => (w.heap.length, w.heap ++ [[]])
      | some r => (r, w.heap)
    match heap0[ref]? with
    | none => (w, .error .badRef)
    | some l0 =>
      let s0 : S := { cache := {}, created := l0 }
      let (r, s1) := hierI w.d true (fuelOf w.d) (obj.getD gen.obj) ni force s0
      ({ w with cache := s1.cache, heap := heap0.set ref s1.created,
                gens := w.gens.set g { gen with created := ref } }, r)

def step (w : World) : Op → World × Resp
  | .newGen o => ({ w with gens := w.gens ++ [{ obj := o, created := w.heap.length }], heap := w.heap ++ [[]] }, .ok [])
  | .newList init => ({ w with heap := w.heap ++ [init] }, .ok [])
  | .getVerilog g obj ni f => getVerilogPub w g obj ni f
  | .getHier g obj ni f l => getHierPub w g obj ni f l
  | .edit d' => ({ w with d := d' }, .ok [])
  | .sim => (w, .ok [])

def run : World → List Op → World × List Resp
  | w, [] => (w, [])
  | w, op :: ops =>
    let (w1, r) := step w op
    let (w2, rs) := run w1 ops
    (w2, r :: rs)

/-! ### rendering (driver) -/
def jn (sep : String) (l : List String) : String := sep.intercalate l

/-- insertion sort (declaration order is irrelevant: python iterates a set) -/
def insertBy {α} (lt : α → α → Bool) (a : α) : List α → List α
  | [] => [a]
  | b :: t => if lt b a then b :: insertBy lt a t else a :: b :: t

def sortBy {α} (lt : α → α → Bool) : List α → List α
  | [] => []
  | a :: t => insertBy lt a (sortBy lt t)

def Frag.render : Frag → String
  | .inl c cls names => s!"inl {c} {cls} [{jn "," names}]"
  | .inst m ps i cs => s!"inst {m} #[{jn "," (ps.map fun p => p.1 ++ "=" ++ p.2)}] {i} [{jn "," (cs.map fun c => c.1 ++ "=" ++ c.2)}]"

def Body.render : Body → String
  | .leaf how o _ => s!"leaf {how} {o}"
  | .struct fs => "struct " ++ jn " ; " (fs.map Frag.render)

def ModT.render (m : ModT) : String :=
  let ps := match m.params with | none => "_" | some l => "[" ++ jn "," l ++ "]"
  let g : List HdrPort := if m.gatedPorts then [⟨"input", false, 1, "clk_in"⟩, ⟨"output", false, 1, "clk_out"⟩] else []
  let c : List HdrPort := match m.clk with | some n => [⟨"input", false, 1, n⟩] | none => []
  let ports := jn "," ((g ++ c ++ m.ports).map fun p => s!"{p.dir}:{if p.reg then 1 else 0}:{p.width}:{p.name}")
  let wires := jn "," ((sortBy (fun a b => a.1 < b.1) m.wires).map fun w => s!"{w.1}:{w.2}")
  s!"mod@{m.src} {m.name} params={ps} ports=[{ports}] wires=[{wires}] {m.body.render}"

def Out.render : Out → String
  | .empty => "empty"
  | .inlinedOutOfScope f => "inlined-out-of-scope " ++ f.render
  | .mod m => m.render

def Err.render : Err → String
  | .noneObj => "noneObj" | .keyError w s => s!"keyError {w} {s}" | .notConnected o => s!"notConnected {o}"
  | .notInParent o w => s!"notInParent {o} {w}" | .noClock => "noClock" | .badRef => "badRef" | .fuel => "fuel"

def Resp.render : Resp → String
  | .ok outs => "ok " ++ jn " || " (outs.map Out.render)
  | .error e => "err " ++ e.render

end Emit
