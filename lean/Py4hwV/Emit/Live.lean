/-
  C19 — what the transpiler reads from the LIVE object (py4hw/transpilation/python2verilog_transpilation.py).

  The text of a transpiled behavioural block is produced from a fresh AST of the class source (inspect.getsource) plus
  attribute reads of the live object.  This file models the two passes through which live values can reach the text:

      Python                                                     model
      ExtractInitializers.visit_Assign  (constructor source)     extractInit
          self.x = self.addIn/addOut('n', …)   -> ports[x]           CtorStmt.port
          self.x = <int literal>               -> variables[x]       CtorStmt.const
          self.x = <name p>                    -> arguments[x] = VerilogConstant(getattr(self.obj, p))     CtorStmt.arg
                                                  ^^^^^^^ the ONLY read of a simulation-writable attribute
      ReplaceWiresAndVariables.visit_Name / visit_Attribute /    visitName / visitAttr / visitWire, folded over the
          visit_VerilogWire  (clock() / propagate() source)          occurrences in visiting order (`resolve`)
      node.wires.variables = wiresAndVars.variables.values()     second component of `transpile`

  `Live` is `getattr(obj, name)` at the moment of the generation request (int attributes only): the part of the object
  that simulation changes.  Everything else the transpiler uses (source text, port lists, clock driver name) is fixed at
  construction time.  Theorems: Props/C19.lean (`transpile_live_frame`, `transpile_sim_indep_partial`, …).
-/
namespace Emit

/-- one assignment statement of `__init__`, as classified by ExtractInitializers.visit_Assign -/
inductive CtorStmt
  | port (attr : String) (vname : String)   -- self.<attr> = self.addIn/addOut('<vname>', w)
  | const (attr : String) (v : Int)         -- self.<attr> = <int literal>
  | arg (attr : String) (param : String)    -- self.<attr> = <param>
  deriving DecidableEq, Repr, Inhabited

/-- one node ReplaceWiresAndVariables visits in the method body, in visiting order -/
inductive Occ
  | attr (name : String) (store : Bool)     -- self.<name>  (ctx Store / Load)
  | name (name : String) (store : Bool)     -- bare <name>
  | wire (name : String)                    -- VerilogWire(<name>) left by ReplaceWireCalls for self.<name>.get()/put()/prepare()
  deriving DecidableEq, Repr, Inhabited

/-- what the node is replaced by -/
inductive Tok
  | port (vname : String)                   -- VerilogWire(<port name>)
  | var (name : String)                     -- VerilogVariable(<name>, 'integer')
  | const (v : Int)                         -- VerilogConstant(v)
  | wire (name : String)                    -- VerilogWire left as it is
  deriving DecidableEq, Repr, Inhabited

abbrev Live := String → Option Int

/-- python dict with string keys (insertion order kept, assignment to an existing key keeps its position) -/
def aget {β : Type} : List (String × β) → String → Option β
  | [], _ => none
  | (k, v) :: t, n => if k = n then some v else aget t n

def aset {β : Type} : List (String × β) → String → β → List (String × β)
  | [], n, v => [(n, v)]
  | (k, x) :: t, n, v => if k = n then (k, v) :: t else (k, x) :: aset t n v

/-- ExtractInitializers: ports / variables / arguments -/
structure Init where
  ports : List (String × String) := []
  variables : List (String × Unit) := []
  arguments : List (String × Int) := []
  deriving DecidableEq, Repr, Inhabited

/-- ExtractInitializers.visit_Assign, statement by statement.  `getattr(self.obj, p)` raises AttributeError when the live
    object has no attribute `p`. -/
def extractInit (lv : Live) : List CtorStmt → Init → Except String Init
  | [], i => .ok i
  | .port a v :: t, i => extractInit lv t { i with ports := aset i.ports a v }
  | .const a _ :: t, i => extractInit lv t { i with variables := aset i.variables a () }
  | .arg a p :: t, i =>
    match lv p with
    | none => .error ("AttributeError " ++ p)
    | some v => extractInit lv t { i with arguments := aset i.arguments a v }

/-- state of one ReplaceWiresAndVariables visitor -/
structure RW where
  variables : List (String × Unit)          -- self.variables (shared dict with the extracter: grows)
  selfNames : List String                   -- self.selfNames
  deriving DecidableEq, Repr, Inhabited

/-- ReplaceWiresAndVariables.__init__ -/
def RW.start (i : Init) : RW :=
  { variables := i.variables,
    selfNames := i.ports.map (·.1) ++ i.variables.map (·.1) ++ i.arguments.map (·.1) ++ i.ports.map (·.2) }

/-- visit_Name -/
def visitName (i : Init) (st : RW) (n : String) : Except String (Tok × RW) :=
  if st.selfNames.contains n then .error ("local has the name of a self attribute " ++ n)
  else match aget i.ports n with
    | some v => .ok (.port v, st)
    | none =>
      if (aget st.variables n).isSome then .ok (.var n, st)
      else match aget i.arguments n with
        | some v => .ok (.const v, st)
        | none => .ok (.var n, { st with variables := aset st.variables n () })

/-- visit_Attribute (for self.<n>) -/
def visitAttr (i : Init) (st : RW) (n : String) : Except String (Tok × RW) :=
  if (aget st.variables n).isSome && !st.selfNames.contains n then .error ("attribute has the name of a local variable " ++ n)
  else
    let st := { st with selfNames := if st.selfNames.contains n then st.selfNames else st.selfNames ++ [n] }
    match aget i.ports n with
    | some v => .ok (.port v, st)
    | none =>
      if (aget st.variables n).isSome then .ok (.var n, st)
      else match aget i.arguments n with
        | some v => .ok (.const v, st)
        | none => .ok (.var n, { st with variables := aset st.variables n () })

/-- visit_VerilogWire -/
def visitWire (i : Init) (n : String) : Tok :=
  match aget i.ports n with
  | some v => .port v
  | none => .wire n

def visitOcc (i : Init) (st : RW) : Occ → Except String (Tok × RW)
  | .attr n _ => visitAttr i st n
  | .name n _ => visitName i st n
  | .wire n => .ok (visitWire i n, st)

/-- the visitor over the whole method body; on an exception the tokens produced so far are kept (position of the raise) -/
def resolve (i : Init) : RW → List Occ → List Tok × Except String RW
  | st, [] => ([], .ok st)
  | st, o :: t =>
    match visitOcc i st o with
    | .error e => ([], .error e)
    | .ok (tok, st') => let (r, e) := resolve i st' t; (tok :: r, e)

/-- a behavioural class as the transpiler sees it: the classified constructor statements and the occurrences of the
    transpiled method, both functions of the SOURCE TEXT of the class -/
structure Behav where
  ctor : List CtorStmt
  occs : List Occ
  deriving DecidableEq, Repr, Inhabited

/-- result of the two passes: replacement of every occurrence + declared variables, or the exception and where -/
inductive TrRes
  | ok (toks : List Tok) (decls : List String)
  | initError (msg : String)
  | error (toks : List Tok) (msg : String)
  deriving DecidableEq, Repr, Inhabited

def transpile (b : Behav) (lv : Live) : TrRes :=
  match extractInit lv b.ctor {} with
  | .error e => .initError e
  | .ok i =>
    match resolve i (RW.start i) b.occs with
    | (toks, .ok st) => .ok toks (st.variables.map (·.1))
    | (toks, .error e) => .error toks e

/-! ### rendering (driver) -/
def Tok.render : Tok → String
  | .port v => "P:" ++ v
  | .var n => "V:" ++ n
  | .const v => "C:" ++ toString v
  | .wire n => "W:" ++ n

def TrRes.render : TrRes → String
  | .ok toks decls => "ok " ++ ",".intercalate (toks.map Tok.render) ++ " ; " ++ ",".intercalate decls
  | .initError m => "initerr " ++ m
  | .error toks m => "err " ++ toString toks.length ++ " ; " ++ ",".intercalate (toks.map Tok.render) ++ " ; " ++ m

/-- what ReplaceWiresAndVariables is constructed with -/
def Init.render (i : Init) : String :=
  ",".intercalate (i.ports.map fun p => p.1 ++ "=" ++ p.2) ++ " ; " ++ ",".intercalate (i.variables.map (·.1)) ++ " ; " ++
    ",".intercalate (i.arguments.map fun p => p.1 ++ "=" ++ toString p.2)

/-- the names the constructor reads from the live object: `p` of every `self.x = p` -/
def argParams : List CtorStmt → List String
  | [] => []
  | .arg _ p :: t => p :: argParams t
  | _ :: t => argParams t

/-- the attributes the method body assigns (`self.<n> = …`, `self.<n> += …`): what simulation can change -/
def stored : List Occ → List String
  | [] => []
  | .attr n true :: t => n :: stored t
  | _ :: t => stored t

end Emit
