import Py4hwV.Emit.FlatText
/-
  C01 (design level) — children that map to SEVERAL simulator leaves or SEVERAL assigns (`GKind`), and the generic
  certificate `CertSrc` of a flattened text: every signal name with the simulator net it denotes, every continuous
  assign with the reason why it is justified (inline form of a child under the naming of its scope / alias of two names
  of one net / clock connection), the registers with their full instance paths, the simulator's schedule, and a
  sources-first order of the assigns.  `CertSrc.check` is executable; `Proofs/C01Cert*.lean` prove that it implies the
  hypotheses of the generic correspondence theorems (`SeqCorr`, `CycOK`, …).  Flat designs (Emit/FlatText.lean) and
  designs with structural hierarchy of any depth (Emit/Hier.lean) are instances: their `emit`ted text flattens to
  the certificate's `V.Flat`.
-/
namespace FlatM
open V

/-- the N-ary gates And / Or / Nor (bitwise.py): a Buf for one input, else a ladder of And2 / Or2 through the internal wires
    `ts`; Nor = Or (into `Mid`) + Not.  Text: `r = a & b & c`, `r = a | b | c`, `r = ~( a | b | c )` -/
inductive NOp where | and | or | nor
deriving Inhabited, Repr, DecidableEq

def NOp.mk2 : NOp → Nat → Nat → Nat → Kind
  | .and => Kind.and2
  | _ => Kind.or2
def NOp.vop : NOp → String
  | .and => "and"
  | _ => "or"

def ladderLeaves (wd : Nat → Nat) (mk : Nat → Nat → Nat → Kind) : Nat → List Nat → List Nat → List CLeaf
  | acc, x :: xs, o :: os => (mk acc x o).leaf wd :: ladderLeaves wd mk o xs os
  | _, _, _ => []

def gateLeaves (wd : Nat → Nat) (mk : Nat → Nat → Nat → Kind) (ins : List Nat) (r : Nat) (ts : List Nat) : List CLeaf :=
  match ins with
  | [] => []
  | [a] => [(Kind.buf a r).leaf wd]
  | a :: rest => ladderLeaves wd mk a rest (ts ++ [r])

/-- `x0 op x1 op … ` (left associative, as the parser reads the emitted text) -/
def binChain (op : String) : List String → Expr
  | [] => lit 0
  | x :: xs => xs.foldl (fun e y => .bin op e (.id y)) (.id x)

inductive GKind where
  | prim (p : Kind)
  | nary (op : NOp) (ins : List Nat) (r : Nat) (ts : List Nat) (mid : Nat)   -- `mid`: Nor's `Mid` (unused by And / Or)
  | dm (isMod : Bool) (a b r : Nat)         -- Div / Mod: `r = a / b`, `r = a % b`; claimed only where the divisor is not 0 (`GKind.good`)
  | bitsL (a : Nat) (bits : List Nat)       -- BitsLSBF: one leaf, one put and one assign per bit
  | bitsM (a : Nat) (bits : List Nat)       -- BitsMSBF (`bits` as stored by the constructor: `bits[i]` is bit `i`)
  | nand2 (a b r t : Nat)                   -- Nand2 = And2 (into `t`, the block's `Mid`) + Not; text: `r = ~(a & b)`
  | nor2 (a b r t : Nat)                    -- Nor2 = Or2 + Not; text: `r = ~(a | b)`
  | xor2 (a b r mid x y m0 m1 m2 m3 : Nat)  -- Xor2 = four Nand2 (`Mid`, `XOut`, `YOut` and the four inner `Mid`s); text `r = a ^ b`
  /-- Equal (relational.py): Xor2 into `xr`, then Not (one-bit operands: `bits = []`) or BitsLSBF of `xr` + Nor; text
      `r = (a == b)? 1:0`.  Covered where text and simulator agree: operands of one width, one-bit result
      (the rest is the known finding C01-equal-irregular) -/
  | equal (a b r xr mid x y m0 m1 m2 m3 : Nat) (bits ts : List Nat) (nmid : Nat)
  /-- EqualConstant: Not / Buf (one-bit operand: `bits = []`), else BitsLSBF + Minterm (a Not into `ns[i]` for every 0 bit of
      `v`, then And); text `r = (a == v)? 1 : 0`.  Covered for `v < 2^width` (the rest is C01-equalconst-oversized), `v < 2^31`,
      one-bit result -/
  | eqc (a v r : Nat) (bits ns ts : List Nat)
deriving Inhabited, Repr

/-- value function of output `i` of a Bits leaf: element `i` of the list the GENERATED propagate() puts -/
def bitsFnL (aw : Nat) (i : Nat) : List Nat → Int :=
  fun l => ((Gen.BitsLSBF.step ⟨aw⟩ ⟨⟩ ⟨g l 0⟩ ⟨⟩).2.ol_bits.getD []).getD i 0
def bitsFnM (aw : Nat) (i : Nat) : List Nat → Int :=
  fun l => ((Gen.BitsMSBF.step ⟨aw⟩ ⟨⟩ ⟨g l 0⟩ ⟨⟩).2.ol_bits.getD []).getD i 0

def bitsLeaf (f : Nat → List Nat → Int) (a : Nat) : List Nat → List CLeaf
  | [] => []
  | b0 :: rest => [⟨[a], b0, f 0, (rest.zipIdx 1).map fun bi => (bi.1, f bi.2)⟩]

def nandLeaves (wd : Nat → Nat) (a b r t : Nat) : List CLeaf := [(Kind.and2 a b t).leaf wd, (Kind.not1 t r).leaf wd]

def xorLeaves (wd : Nat → Nat) (a b r mid x y m0 m1 m2 m3 : Nat) : List CLeaf :=
  nandLeaves wd a b mid m0 ++ (nandLeaves wd a mid x m1 ++ (nandLeaves wd b mid y m2 ++ nandLeaves wd x y r m3))

def norLeaves (wd : Nat → Nat) (ins : List Nat) (r : Nat) (ts : List Nat) (mid : Nat) : List CLeaf :=
  gateLeaves wd Kind.or2 ins mid ts ++ [(Kind.not1 mid r).leaf wd]

/-- the inputs of Minterm's And: bit `i` itself where `v` has a 1, its complement `ns[i]` where `v` has a 0 -/
def mintermParts (v : Nat) (bits ns : List Nat) : List Nat :=
  (List.range bits.length).map fun i => if v.testBit i then bits.getD i 0 else ns.getD i 0

def mintermNots (wd : Nat → Nat) (v : Nat) (bits ns : List Nat) : List CLeaf :=
  (List.range bits.length).filterMap fun i =>
    if v.testBit i then none else some ((Kind.not1 (bits.getD i 0) (ns.getD i 0)).leaf wd)

/-- the simulator leaves of a child, in the order the exporter lists them -/
def GKind.leaves (wd : Nat → Nat) : GKind → List CLeaf
  | .prim p => [p.leaf wd]
  | .nary .nor ins r ts mid => gateLeaves wd Kind.or2 ins mid ts ++ [(Kind.not1 mid r).leaf wd]
  | .nary op ins r ts _ => gateLeaves wd op.mk2 ins r ts
  | .dm isMod a b r => [⟨[a, b], r, fun l => (if isMod then (Gen.Mod.step ⟨⟩ ⟨⟩ ⟨g l 1, g l 0⟩ ⟨⟩).2.r
                                                 else (Gen.Div.step ⟨⟩ ⟨⟩ ⟨g l 1, g l 0⟩ ⟨⟩).2.r).getD 0, []⟩]
  | .bitsL a bits => bitsLeaf (bitsFnL (wd a)) a bits
  | .bitsM a bits => bitsLeaf (bitsFnM (wd a)) a bits
  | .nand2 a b r t => nandLeaves wd a b r t
  | .nor2 a b r t => [(Kind.or2 a b t).leaf wd, (Kind.not1 t r).leaf wd]
  | .xor2 a b r mid x y m0 m1 m2 m3 =>
      nandLeaves wd a b mid m0 ++ (nandLeaves wd a mid x m1 ++ (nandLeaves wd b mid y m2 ++ nandLeaves wd x y r m3))
  | .equal a b r xr mid x y m0 m1 m2 m3 bits ts nmid =>
      xorLeaves wd a b xr mid x y m0 m1 m2 m3 ++
        (if bits = [] then [(Kind.not1 xr r).leaf wd] else bitsLeaf (bitsFnL (wd xr)) xr bits ++ norLeaves wd bits r ts nmid)
  | .eqc a v r bits ns ts =>
      if bits = [] then [if v = 0 then (Kind.not1 a r).leaf wd else (Kind.buf a r).leaf wd]
      else bitsLeaf (bitsFnL (wd a)) a bits ++ (mintermNots wd v bits ns ++ gateLeaves wd Kind.and2 (mintermParts v bits ns) r ts)

def bitsAssigns (nm : Nat → String) (a : Nat) : List Nat → List (LHS × Expr)
  | [b] => [(.lid (nm b), .id (nm a))]
  | bits => bits.zipIdx.map fun bi => (.lid (nm bi.1), .idx (nm a) (lit bi.2))

/-- the assigns the emitter writes for the child (`InlineBitsLSBF`, `InlineNand2`, …), under the naming `nm` of its scope -/
def GKind.assigns (wd : Nat → Nat) (nm : Nat → String) : GKind → List (LHS × Expr)
  | .prim p => [p.assign wd nm]
  | .nary .nor ins r _ _ => [(.lid (nm r), .un "not" (binChain "or" (ins.map nm)))]
  | .nary op ins r _ _ => [(.lid (nm r), binChain op.vop (ins.map nm))]
  | .dm isMod a b r => [(.lid (nm r), .bin (if isMod then "mod" else "div") (.id (nm a)) (.id (nm b)))]
  | .bitsL a bits => bitsAssigns nm a bits
  | .bitsM a bits => bitsAssigns nm a bits
  | .nand2 a b r _ => [(.lid (nm r), .un "not" (.bin "and" (.id (nm a)) (.id (nm b))))]
  | .nor2 a b r _ => [(.lid (nm r), .un "not" (.bin "or" (.id (nm a)) (.id (nm b))))]
  | .xor2 a b r _ _ _ _ _ _ _ => [(.lid (nm r), .bin "xor" (.id (nm a)) (.id (nm b)))]
  | .equal a b r _ _ _ _ _ _ _ _ _ _ _ => [(.lid (nm r), .tern (.bin "eq" (.id (nm a)) (.id (nm b))) (lit 1) (lit 0))]
  | .eqc a v r _ _ _ => [(.lid (nm r), .tern (.bin "eq" (.id (nm a)) (lit v)) (lit 1) (lit 0))]

/-- the nets the assigns drive, aligned with `assigns` -/
def GKind.outs : GKind → List Nat
  | .prim p => [p.out]
  | .nary _ _ r _ _ => [r]
  | .dm _ _ _ r => [r]
  | .bitsL _ bits => bits
  | .bitsM _ bits => bits
  | .nand2 _ _ r _ => [r]
  | .nor2 _ _ r _ => [r]
  | .xor2 _ _ r _ _ _ _ _ _ _ => [r]
  | .equal _ _ r _ _ _ _ _ _ _ _ _ _ _ => [r]
  | .eqc _ _ r _ _ _ => [r]

/-- the nets the assigns read -/
def GKind.ins (wd : Nat → Nat) : GKind → List Nat
  | .prim p => (p.leaf wd).ins
  | .nary _ ins _ _ _ => ins
  | .dm _ a b _ => [a, b]
  | .bitsL a _ => [a]
  | .bitsM a _ => [a]
  | .nand2 a b _ _ => [a, b]
  | .nor2 a b _ _ => [a, b]
  | .xor2 a b _ _ _ _ _ _ _ _ => [a, b]
  | .equal a b _ _ _ _ _ _ _ _ _ _ _ _ => [a, b]
  | .eqc a _ _ _ _ _ => [a]

/-- side conditions (decidable): the covered forms; internal wires sized as the constructors size them -/
def GKind.okb (wd : Nat → Nat) : GKind → Bool
  | .prim p => FlatSrc.Kind.okb wd p
  | .nary .nor ins r ts mid =>
      decide ((ins.length = 1 ∧ ts = []) ∨ ts.length + 2 = ins.length) && (ts.all fun t => decide (wd mid ≤ wd t)) &&
      decide (wd r ≤ wd mid)
  | .nary _ ins r ts _ =>
      decide ((ins.length = 1 ∧ ts = []) ∨ ts.length + 2 = ins.length) && (ts.all fun t => decide (wd r ≤ wd t))
  | .dm _ _ _ _ => true
  | .bitsL a bits => decide (bits.length = wd a) && decide bits.Nodup && !bits.contains a && decide (1 ≤ wd a) && decide (wd a - 1 < 2 ^ 32)
  | .bitsM a bits => decide (bits.length = wd a) && decide bits.Nodup && !bits.contains a && decide (1 ≤ wd a) && decide (wd a - 1 < 2 ^ 32)
  | .nand2 a _ r t => decide (wd a ≤ wd t) || decide (wd r ≤ wd t)
  | .nor2 _ _ r t => decide (wd r ≤ wd t)
  | .xor2 a b r mid x y m0 m1 m2 m3 =>
      decide (wd mid = wd r) && decide (wd x = wd r) && decide (wd y = wd r) && decide (wd m0 = wd a) && decide (wd m1 = wd a) &&
      decide (wd m2 = wd b) && decide (wd m3 = wd r)
  | .equal a b r xr mid x y m0 m1 m2 m3 bits ts nmid =>
      decide (wd a = wd b) && decide (wd r = 1) && decide (wd xr = wd a) &&
      (decide (wd mid = wd xr) && decide (wd x = wd xr) && decide (wd y = wd xr) && decide (wd m0 = wd a) && decide (wd m1 = wd a) &&
       decide (wd m2 = wd b) && decide (wd m3 = wd xr)) &&
      (if bits = [] then decide (wd a = 1)
       else decide (bits.length = wd xr) && decide bits.Nodup && !bits.contains xr && decide (wd xr - 1 < 2 ^ 32) &&
         (bits.all fun b => decide (wd b = 1)) &&
         decide ((bits.length = 1 ∧ ts = []) ∨ ts.length + 2 = bits.length) && (ts.all fun t => decide (wd nmid ≤ wd t)) &&
         decide (1 ≤ wd nmid))
  | .eqc a v r bits ns ts =>
      decide (v < 2 ^ 31) && decide (v < 2 ^ wd a) && decide (wd r = 1) &&
      (if bits = [] then decide (wd a = 1)
       else decide (bits.length = wd a) && decide bits.Nodup && !bits.contains a && decide (wd a - 1 < 2 ^ 32) &&
         (bits.all fun b => decide (wd b = 1)) &&
         ((List.range bits.length).all fun i => v.testBit i || decide (wd (ns.getD i 0) = 1)) &&
         decide ((bits.length = 1 ∧ ts = []) ∨ ts.length + 2 = bits.length) && (ts.all fun t => decide (1 ≤ wd t)))

/-- the condition on the wire values under which the child's text is claimed to agree: the divisor of Div / Mod is not 0 -/
def GKind.good (V : Nat → Nat) : GKind → Prop
  | .dm _ _ b _ => V b ≠ 0
  | _ => True

def GKind.isDm : GKind → Bool
  | .dm _ _ _ _ => true
  | _ => false

/-! ## the certificate -/

inductive Tag where
  | kind (i j : Nat) (nu : List (Nat × String))    -- assign `j` of child `i`; `nu`: the names of the child's nets in its scope
  | alias                                          -- `assign n1 = n2`, both names of one net (port connection, `q = rq`)
  | clock                                          -- `assign c = c'`, clock connection
deriving Inhabited, Repr

structure CertSrc where
  widths : List Nat
  table : List (String × Nat)           -- every declared signal name that denotes a simulator net
  kinds : List GKind                    -- all inlined children, of all scopes
  regs : List RegI                      -- all registers, `pfx` = full instance path
  order : List Nat                      -- the simulator's schedule: indices into `kinds.flatMap leaves`
  sigs : List (String × Nat)            -- declarations of the flattened text (name, width)
  assigns : List (LHS × Expr)           -- continuous assigns of the flattened text, in text order
  tags : List Tag                       -- why each assign is justified
  vorder : List Nat                     -- a sources-first order of the assigns (indices into `assigns`)
  clk : String
  clocks : List (String × String)       -- derived clock names with the name they are connected to, sources first
  inputs : List (Nat × String)          -- top-level inputs (net, name)
deriving Inhabited

namespace CertSrc

def wd (C : CertSrc) (k : Nat) : Nat := C.widths.getD k 1
def net (C : CertSrc) (n : String) : Option Nat := C.table.lookup n
def combs (C : CertSrc) : List CLeaf := C.kinds.flatMap (GKind.leaves C.wd)
def netD (C : CertSrc) : NetD :=
  { wd := C.wd, combs := C.combs, regs := C.regs.map (·.leaf), order := C.order, good := fun V => ∀ k, k ∈ C.kinds → k.good V }
def procs (C : CertSrc) : List (Event × Stmt) := C.regs.map RegI.proc
def inits (C : CertSrc) : List (String × Expr) := C.regs.map fun R => (R.pfx ++ "rq", lit R.leaf.rv)
/-- the flattened text -/
def flat (C : CertSrc) : V.Flat :=
  { sigs := C.sigs.map fun nw => (nw.1, { width := nw.2 }), inits := C.inits, assigns := C.assigns, procs := C.procs }
def topo (C : CertSrc) : List (LHS × Expr) := C.vorder.map fun i => C.assigns.getD i default
def targets (C : CertSrc) : List String := C.assigns.map tgt
def combDriven (C : CertSrc) : List Nat := C.combs.flatMap fun c => c.outs.map (·.1)
def sigW (C : CertSrc) (n : String) : Option Nat := C.sigs.lookup n

/-- nobody at or after an assign drives what it reads; single driver (`FlatM.Acyc`, executable) -/
def acycb : List (LHS × Expr) → Bool
  | [] => true
  | a :: rest => ((a :: rest).all fun b => (reads a.2).all fun n => n != tgt b) && (rest.all fun b => tgt a != tgt b) && acycb rest

def lhsOkb (C : CertSrc) : LHS → Bool
  | .lid _ => true
  | .lrng n hi lo => lo == 0 && (match C.sigW n with | some w => hi + 1 == w | none => hi + 1 == 1)
  | .lidx _ _ => false

def tagOkb (C : CertSrc) (a : LHS × Expr) : Tag → Bool
  | .kind i j nu =>
      let k := C.kinds.getD i default
      let nm := fun x => (nu.lookup x).getD "?"
      decide (i < C.kinds.length) && decide ((k.assigns C.wd nm)[j]? = some a) && k.okb C.wd &&
      (match k.outs[j]? with | some o => C.net (tgt a) == some o | none => false) &&
      (k.ins C.wd).all fun x => C.net (nm x) == some x
  | .alias =>
      (match a.1, a.2 with
       | .lid n1, .id n2 => (C.net n2).isSome && (C.net n1 == none || C.net n1 == C.net n2)
       | _, _ => false)
  | .clock =>
      (match a.1, a.2 with
       | .lid n1, .id _ => C.net n1 == none
       | _, _ => false)

/-- multi-output version of `FlatSrc.topoCheck` -/
def topoCheckG (ins : Nat → List Nat) (outs : Nat → List Nat) : List Nat → Bool
  | [] => true
  | a :: rest =>
    ((a :: rest).all fun b => (ins a).all fun w => !(outs b).contains w) &&
    (rest.all fun b => (outs a).all fun w => !(outs b).contains w) && !rest.contains a && topoCheckG ins outs rest

def clocksOkb (C : CertSrc) : List (String × String) → List String → Bool
  | [], _ => true
  | (c, p) :: rest, seen =>
      (C.assigns.any fun a => decide (a = (LHS.lid c, Expr.id p))) && (p == C.clk || seen.contains p) && C.sigW c == some 1 && C.sigW p == some 1 &&
      clocksOkb C rest (c :: seen)

/-- the named conditions; the text is covered by the theorems when all of them hold -/
def checks (C : CertSrc) : List (String × Bool) :=
  [("tags", decide (C.tags.length = C.assigns.length) && (C.assigns.zip C.tags).all fun at_ => C.tagOkb at_.1 at_.2),
   ("lhs", C.assigns.all fun a => C.lhsOkb a.1),
   ("vorder", C.vorder.isPerm (List.range C.assigns.length) && acycb C.topo),
   ("undriven", C.table.all fun nk => C.targets.contains nk.1 || !C.combDriven.contains nk.2),
   ("order_perm", C.order.isPerm (List.range C.combs.length)),
   ("acyclic", topoCheckG (fun i => (C.combs.getD i default).ins) (fun i => (C.combs.getD i default).outs.map (·.1)) C.order),
   ("regs", C.regs.all fun R =>
      C.net (R.pfx ++ "d") == some R.leaf.d && (!R.leaf.hasE || C.net (R.pfx ++ "e") == some R.leaf.e) &&
      (!R.leaf.hasR || C.net (R.pfx ++ "r") == some R.leaf.r) && C.net (R.pfx ++ "rq") == some R.leaf.q &&
      !C.targets.contains (R.pfx ++ "rq") && decide (R.leaf.rv < 2 ^ 31) && (R.pfx ++ "rq") != C.clk &&
      C.clocks.any (fun cp => cp.1 == R.pfx ++ "clk")),
   ("rq_only", C.table.all fun nk => C.targets.contains nk.1 ||
      C.regs.all fun R => R.leaf.q != nk.2 || nk.1 == R.pfx ++ "rq"),
   ("q_nodup", decide (C.regs.map (·.leaf.q)).Nodup),
   ("clk", !C.targets.contains C.clk && (C.regs.isEmpty || C.sigW C.clk == some 1) && C.clocksOkb C.clocks []),
   ("sigs", decide (C.sigs.map (·.1)).Nodup && C.table.all fun nk => C.sigW nk.1 == some (C.wd nk.2)),
   ("inputs", C.inputs.all fun kn =>
      C.net kn.2 == some kn.1 && !C.targets.contains kn.2 && kn.2 != C.clk && C.regs.all (fun R => R.leaf.q != kn.1) &&
      C.table.all fun nk => nk.2 != kn.1 || C.targets.contains nk.1 || nk.1 == kn.2),
   ("all_driven", C.table.all fun nk => C.targets.contains nk.1 || C.inputs.contains (nk.2, nk.1) ||
      C.regs.any fun R => nk.1 == R.pfx ++ "rq")]

def check (C : CertSrc) : Bool := C.checks.all (·.2)

/-- no Div / Mod child: the side condition `good` is vacuous -/
def divFree (C : CertSrc) : Bool := C.kinds.all fun k => !k.isDm

/-- name of the top-level input connected to net `k` -/
def inName (C : CertSrc) (k : Nat) : String := (C.inputs.lookup k).getD "?"

/-- the test-bench operations of lean/Drv/V.lean on the shipped simulator: `set <name> <v>`, `step <n>` -/
def shipOp (C : CertSrc) (m : Sim) : Net.Op → Sim
  | .poke k v => { m with st := m.st.wr (.whole (C.inName k)) ⟨widthOf m.st.rd (C.inName k), v.toNat, true⟩ }
  | .clk n => Net.iter Sim.cycle n m
  | .resort => m

/-- the harness protocol drives every input with 0 before the first observation -/
def zeroOps (C : CertSrc) : List Net.Op := C.inputs.map fun kn => Net.Op.poke kn.1 0

/-- covered operations: pokes of top-level inputs with non-negative values, clk(n), re-sort -/
def OpOK (C : CertSrc) : Net.Op → Prop
  | .poke k v => (∃ n, (k, n) ∈ C.inputs) ∧ 0 ≤ v
  | _ => True

end CertSrc
end FlatM
