import Py4hwV.Emit.Cache
import Py4hwV.Verilog.SExp
/-
  C19 — Canon: the equivalence under which two generated texts "describe the same design":
  declarations sorted, instance-unique module suffixes (derived from id(obj)) renumbered by first occurrence.
  `canonOuts` works on the model's structured text, `V.canon` on parsed real text (V.Design, read by Verilog/SExp).
-/
namespace Emit

/-- `Cls_ID17` ↦ some ("Cls", 17) -/
def splitIdent (n : String) : Option (String × Nat) :=
  match (n.splitOn "_ID").reverse with
  | last :: (p :: ps) => match last.toNat? with
    | some k => some ("_ID".intercalate (p :: ps).reverse, k)
    | none => none
  | _ => none

def namesOfFrag : Frag → List String
  | .inst m _ _ _ => [m]
  | .inl _ _ _ => []

def namesOfOut : Out → List String
  | .mod m => m.name :: (match m.body with | .struct fs => fs.flatMap namesOfFrag | .leaf _ _ _ => [])
  | .inlinedOutOfScope f => namesOfFrag f
  | .empty => []

/-- first-occurrence numbering of the idents that appear in names -/
def numbering (names : List String) : List (Nat × Nat) :=
  names.foldl (fun acc n => match splitIdent n with
    | some (_, k) => if acc.any (·.1 == k) then acc else acc ++ [(k, acc.length)]
    | none => acc) []

def renameWith (num : List (Nat × Nat)) (n : String) : String :=
  match splitIdent n with
  | some (base, k) => match num.find? (·.1 == k) with
    | some (_, j) => base ++ "_N" ++ toString j
    | none => n
  | none => n

def canonFrag (num : List (Nat × Nat)) : Frag → Frag
  | .inst m ps i cs => .inst (renameWith num m) ps i cs
  | .inl _ cls names => .inl 0 cls names

def canonBody (num : List (Nat × Nat)) : Body → Body
  | .struct fs => .struct (fs.map (canonFrag num))
  | .leaf how _ t => .leaf how 0 t

def canonOut (num : List (Nat × Nat)) : Out → Out
  | .mod m => .mod { m with src := 0, name := renameWith num m.name, wires := sortBy (fun a b => a.1 < b.1) m.wires,
                            body := canonBody num m.body }
  | .inlinedOutOfScope f => .inlinedOutOfScope (canonFrag num f)
  | .empty => .empty

def canonOuts (outs : List Out) : List Out :=
  let num := numbering (outs.flatMap namesOfOut)
  outs.map (canonOut num)

end Emit

namespace V
open Emit (sortBy)

/-- strip a known instance suffix: `Reg_7f64…` with "7f64…" ∈ ids ↦ some ("Reg", "7f64…") -/
def splitSuffix (ids : List String) (n : String) : Option (String × String) :=
  ids.findSome? fun i => if n.endsWith ("_" ++ i) then some ((n.dropEnd (i.length + 1)).toString, i) else none

def modNamesOf (m : Module) : List String :=
  m.name :: m.items.filterMap fun it => match it with | .inst mn _ _ _ => some mn | _ => none

def numberingV (ids : List String) (names : List String) : List (String × Nat) :=
  names.foldl (fun acc n => match splitSuffix ids n with
    | some (_, i) => if acc.any (·.1 == i) then acc else acc ++ [(i, acc.length)]
    | none => acc) []

def renameV (ids : List String) (num : List (String × Nat)) (n : String) : String :=
  match splitSuffix ids n with
  | some (base, i) => match num.find? (·.1 == i) with
    | some (_, j) => base ++ "_N" ++ toString j
    | none => n
  | none => n

def isWire : Item → Bool | .wire _ _ => true | _ => false
def wireKey : Item → String | .wire n _ => n | _ => ""

def canonModule (ids : List String) (num : List (String × Nat)) (m : Module) : Module :=
  let ws := sortBy (fun a b => wireKey a < wireKey b) (m.items.filter isWire)
  let rest := (m.items.filter (fun i => !isWire i)).map fun it => match it with
    | .inst mn i ps cs => .inst (renameV ids num mn) i ps cs
    | x => x
  { m with name := renameV ids num m.name, items := ws ++ rest }

/-- Canon on parsed text: wire declarations first and sorted, instance suffixes renumbered by first occurrence -/
def canon (ids : List String) (d : Design) : Design :=
  let num := numberingV ids (d.flatMap modNamesOf)
  d.map (canonModule ids num)

end V
