import Py4hwV.Emit.Cert
/-
  C01 (design level) — the TEXT of a design with ONE level of structural hierarchy.

  `HierSrc`: a top module whose children are inlinable children (`GKind`: primitives, Bits, Nand2/Nor2/Xor2), `Reg`s and
  instances of structural SUB-MODULES; every sub-module is itself a module whose children are inlinable children and
  `Reg`s.  Net ids are GLOBAL (py4hw wires are shared objects: a port of a sub-module IS the wire connected to it); each
  module has its own names for the nets it sees (`names`), and a wire may be connected to several ports.
  `HierSrc.emit : V.Design` mirrors rtl_generation.py (`_getVerilogForHierarchy`: the top module, then for every
  non-inlinable child its module followed by the modules of its own children, every module name once).
  `HierSrc.cert : CertSrc` is the certificate of the flattened text, listed exactly in the order `V.flattenM` produces it;
  `Proofs/C01HierElab.lean` proves `V.flatten S.emit S.top.mname = S.cert.flat`.  A flat design is the case without
  sub-module instances.
-/
namespace FlatM
open V

inductive GChild where
  | kind (k : GKind)
  | reg (r : RegSrc)
deriving Inhabited, Repr

/-- a structural module: ports `(name, net)` in port order, wire declarations, children in instantiation order -/
structure Mod (χ : Type) where
  mname : String
  names : List (Nat × String)       -- the name of each net inside this module (ports: the LAST port connected to the wire)
  inputs : List (String × Nat)
  outputs : List (String × Nat)
  locals : List Nat
  children : List χ
deriving Inhabited, Repr

def Mod.nm {χ : Type} (M : Mod χ) (k : Nat) : String := (M.names.lookup k).getD "?"

abbrev Scope := Mod GChild

def GChild.isReg : GChild → Bool | .reg _ => true | .kind _ => false
def Mod.hasReg (sc : Mod GChild) : Bool := sc.children.any GChild.isReg

inductive HChild where
  | g (c : GChild)
  | sub (iname : String) (body : Scope)
deriving Inhabited, Repr

def HChild.hasReg : HChild → Bool | .g c => GChild.isReg c | .sub _ b => Mod.hasReg b

structure HierSrc where
  clk : String
  widths : List Nat
  top : Mod HChild
  order : List Nat                  -- the simulator's schedule (indices into the leaves of `kinds`)
  vorder : List Nat                 -- a sources-first order of the flattened assigns
deriving Inhabited, Repr

namespace HierSrc

def wd (S : HierSrc) (k : Nat) : Nat := S.widths.getD k 1

def topHasReg (S : HierSrc) : Bool := S.top.children.any HChild.hasReg

/-! ### the emitted modules -/

open FlatSrc (mkPort regBody0)

def regModuleH (wd : Nat → Nat) (r : RegSrc) : Module :=
  { name := r.mname, params := [],
    ports := [mkPort .inp 1 "clk", mkPort .inp (wd r.leaf.d) "d"] ++
      (if r.leaf.hasE then [mkPort .inp (wd r.leaf.e) "e"] else []) ++
      (if r.leaf.hasR then [mkPort .inp (wd r.leaf.r) "r"] else []) ++
      [mkPort .out (wd r.leaf.q) "q"],
    items := [.reg "rq" (wd r.leaf.q) (some (lit r.leaf.rv)),
              .always (.pos "clk") (regBody0 r.leaf.hasR r.leaf.hasE r.leaf.rv),
              .assign (.lid "q") (.id "rq")] }

def regConnsH (nm : Nat → String) (clk : String) (r : RegSrc) : List (String × Expr) :=
  [("clk", .id clk), ("d", .id (nm r.leaf.d))] ++
  (if r.leaf.hasE then [("e", .id (nm r.leaf.e))] else []) ++
  (if r.leaf.hasR then [("r", .id (nm r.leaf.r))] else []) ++
  [("q", .id (nm r.leaf.q))]

def gchildItems (wd : Nat → Nat) (nm : Nat → String) (clk : String) : GChild → List Item
  | .kind k => (k.assigns wd nm).map fun a => Item.assign a.1 a.2
  | .reg r => [.inst r.mname r.iname [] (regConnsH nm clk r)]

def modPorts {χ : Type} (wd : Nat → Nat) (M : Mod χ) (hasClk : Bool) (clk : String) : List Port :=
  (if hasClk then [mkPort .inp 1 clk] else []) ++
  (M.inputs.map fun pk => mkPort .inp (wd pk.2) pk.1) ++ (M.outputs.map fun pk => mkPort .out (wd pk.2) pk.1)

def scopeModule (wd : Nat → Nat) (clk : String) (sc : Scope) : Module :=
  { name := sc.mname, params := [], ports := modPorts wd sc sc.hasReg clk,
    items := (sc.locals.map fun k => Item.wire (sc.nm k) (wd k)) ++ sc.children.flatMap (gchildItems wd sc.nm clk) }

def subConns (nm : Nat → String) (clk : String) (body : Scope) : List (String × Expr) :=
  (if body.hasReg then [(clk, Expr.id clk)] else []) ++
  (body.inputs.map fun pk => (pk.1, Expr.id (nm pk.2))) ++ (body.outputs.map fun pk => (pk.1, Expr.id (nm pk.2)))

def hchildItems (S : HierSrc) : HChild → List Item
  | .g c => gchildItems S.wd S.top.nm S.clk c
  | .sub iname body => [.inst body.mname iname [] (subConns S.top.nm S.clk body)]

def topModule (S : HierSrc) : Module :=
  { name := S.top.mname, params := [], ports := modPorts S.wd S.top S.topHasReg S.clk,
    items := (S.top.locals.map fun k => Item.wire (S.top.nm k) (S.wd k)) ++ S.top.children.flatMap S.hchildItems }

def gchildMods (wd : Nat → Nat) : GChild → List Module
  | .kind _ => []
  | .reg r => [regModuleH wd r]

def hchildMods (S : HierSrc) : HChild → List Module
  | .g c => gchildMods S.wd c
  | .sub _ body => scopeModule S.wd S.clk body :: body.children.flatMap (gchildMods S.wd)

/-- the module list, every module name once, in order of first use -/
def emit (S : HierSrc) : Design := FlatSrc.dedupMods (S.topModule :: S.top.children.flatMap S.hchildMods)

/-! ### the certificate of the flattened text, in `V.flattenM` order -/

structure Piece where
  sigs : List (String × Nat) := []
  assigns : List (LHS × Expr) := []
  tags : List Tag := []
  table : List (String × Nat) := []
  clocks : List (String × String) := []
  regs : List RegI := []
deriving Inhabited

def Piece.app (a b : Piece) : Piece :=
  { sigs := a.sigs ++ b.sigs, assigns := a.assigns ++ b.assigns, tags := a.tags ++ b.tags, table := a.table ++ b.table,
    clocks := a.clocks ++ b.clocks, regs := a.regs ++ b.regs }

def Piece.join (ps : List Piece) : Piece :=
  { sigs := ps.flatMap (·.sigs), assigns := ps.flatMap (·.assigns), tags := ps.flatMap (·.tags), table := ps.flatMap (·.table),
    clocks := ps.flatMap (·.clocks), regs := ps.flatMap (·.regs) }

/-- a flattened register instance `cp = p ++ iname ++ "."` inside a module whose nets are named `nmp` and whose clock is `pclk` -/
def regPiece (wd : Nat → Nat) (nmp : Nat → String) (p pclk : String) (r : RegSrc) : Piece :=
  let cp := p ++ r.iname ++ "."
  { sigs := [(cp ++ "clk", 1), (cp ++ "d", wd r.leaf.d)] ++ (if r.leaf.hasE then [(cp ++ "e", wd r.leaf.e)] else []) ++
      (if r.leaf.hasR then [(cp ++ "r", wd r.leaf.r)] else []) ++ [(cp ++ "q", wd r.leaf.q), (cp ++ "rq", wd r.leaf.q)],
    assigns := [(.lid (cp ++ "q"), .id (cp ++ "rq")), (.lid (cp ++ "clk"), .id pclk), (.lid (cp ++ "d"), .id (nmp r.leaf.d))] ++
      (if r.leaf.hasE then [(.lid (cp ++ "e"), .id (nmp r.leaf.e))] else []) ++
      (if r.leaf.hasR then [(.lid (cp ++ "r"), .id (nmp r.leaf.r))] else []) ++
      [(.lid (nmp r.leaf.q), .id (cp ++ "q"))],
    tags := [.alias, .clock, .alias] ++ (if r.leaf.hasE then [.alias] else []) ++ (if r.leaf.hasR then [.alias] else []) ++ [.alias],
    table := [(cp ++ "d", r.leaf.d)] ++ (if r.leaf.hasE then [(cp ++ "e", r.leaf.e)] else []) ++
      (if r.leaf.hasR then [(cp ++ "r", r.leaf.r)] else []) ++ [(cp ++ "q", r.leaf.q), (cp ++ "rq", r.leaf.q)],
    clocks := [(cp ++ "clk", pclk)],
    regs := [{ pfx := cp, leaf := r.leaf }] }

def kindPiece (wd : Nat → Nat) (nmp : Nat → String) (nu : List (Nat × String)) (i : Nat) (k : GKind) : Piece :=
  { assigns := k.assigns wd nmp, tags := (List.range (k.assigns wd nmp).length).map fun j => Tag.kind i j nu }

/-- pieces of the children; `i` numbers the inlinable children -/
def gchildPieces (wd : Nat → Nat) (nmp : Nat → String) (nu : List (Nat × String)) (p pclk : String) : Nat → List GChild → List Piece
  | _, [] => []
  | i, .kind k :: rest => kindPiece wd nmp nu i k :: gchildPieces wd nmp nu p pclk (i + 1) rest
  | i, .reg r :: rest => regPiece wd nmp p pclk r :: gchildPieces wd nmp nu p pclk i rest

def gkind? : GChild → Option GKind | .kind k => some k | .reg _ => none
def kindsOf (cs : List GChild) : List GKind := cs.filterMap gkind?

/-- declarations of a module flattened under prefix `p`: ports, then wires -/
def modDeclPiece {χ : Type} (wd : Nat → Nat) (M : Mod χ) (p : String) (hasClk : Bool) (clk : String) : Piece :=
  { sigs := (if hasClk then [(p ++ clk, 1)] else []) ++ (M.inputs.map fun pk => (p ++ pk.1, wd pk.2)) ++
      (M.outputs.map fun pk => (p ++ pk.1, wd pk.2)) ++ (M.locals.map fun k => (p ++ M.nm k, wd k)),
    table := (M.inputs.map fun pk => (p ++ pk.1, pk.2)) ++ (M.outputs.map fun pk => (p ++ pk.1, pk.2)) ++
      (M.locals.map fun k => (p ++ M.nm k, k)) }

def nuOf {χ : Type} (M : Mod χ) (p : String) : List (Nat × String) := M.names.map fun kn => (kn.1, p ++ kn.2)

/-- a flattened sub-module instance: its declarations and children under `cp`, then the port connections -/
def subPiece (S : HierSrc) (i : Nat) (iname : String) (body : Scope) : Piece :=
  let cp := "" ++ iname ++ "."
  let nmp := fun x => cp ++ body.nm x
  ((modDeclPiece S.wd body cp body.hasReg S.clk).app
    (Piece.join (gchildPieces S.wd nmp (nuOf body cp) cp (cp ++ S.clk) i body.children))).app
  { assigns := (if body.hasReg then [(.lid (cp ++ S.clk), .id ("" ++ S.clk))] else []) ++
      (body.inputs.map fun pk => (.lid (cp ++ pk.1), .id ("" ++ S.top.nm pk.2))) ++
      (body.outputs.map fun pk => (.lid ("" ++ S.top.nm pk.2), .id (cp ++ pk.1))),
    tags := (if body.hasReg then [.clock] else []) ++ (body.inputs.map fun _ => Tag.alias) ++ (body.outputs.map fun _ => Tag.alias),
    clocks := [] }

def hchildPieces (S : HierSrc) : Nat → List HChild → List Piece
  | _, [] => []
  | i, .g (.kind k) :: rest => kindPiece S.wd (fun x => "" ++ S.top.nm x) (nuOf S.top "") i k :: hchildPieces S (i + 1) rest
  | i, .g (.reg r) :: rest => regPiece S.wd (fun x => "" ++ S.top.nm x) "" ("" ++ S.clk) r :: hchildPieces S i rest
  | i, .sub iname body :: rest => subPiece S i iname body :: hchildPieces S (i + (kindsOf body.children).length) rest

/-- all inlinable children, in the numbering of `hchildPieces` -/
def hkinds : List HChild → List GKind
  | [] => []
  | .g (.kind k) :: rest => k :: hkinds rest
  | .g (.reg _) :: rest => hkinds rest
  | .sub _ body :: rest => kindsOf body.children ++ hkinds rest

def piece (S : HierSrc) : Piece :=
  (modDeclPiece S.wd S.top "" S.topHasReg S.clk).app (Piece.join (S.hchildPieces 0 S.top.children))

/-- clock connections of sub-modules must precede the registers inside them: list them first -/
def subClocks (S : HierSrc) : List (String × String) :=
  S.top.children.flatMap fun c => match c with
    | .sub iname body => if body.hasReg then [("" ++ iname ++ "." ++ S.clk, "" ++ S.clk)] else []
    | .g _ => []

def cert (S : HierSrc) : CertSrc :=
  let P := S.piece
  { widths := S.widths, table := P.table, kinds := hkinds S.top.children, regs := P.regs, order := S.order,
    sigs := P.sigs, assigns := P.assigns, tags := P.tags, vorder := S.vorder, clk := S.clk,
    clocks := S.subClocks ++ P.clocks,
    inputs := S.top.inputs.map fun pk => (pk.2, "" ++ pk.1) }

end HierSrc
end FlatM
