import Py4hwV.Emit.Cert
import Py4hwV.Emit.FlatText
/-
  C01 (design level) — the TEXT of a design with structural hierarchy of any depth.

  A module (`Mod χ`) has ports, wire declarations and children of type `χ`.  Level 0 children (`GChild`) are inlinable children
  (`GKind`: primitives, Bits, gates, Div/Mod) and `Reg`s; a level n+1 child (`HChild (ChildN n)`) is a level 0 child or an
  INSTANCE of a structural sub-module whose children are level n children.  `ModN n` is a module of nesting depth ≤ n.
  Net ids are GLOBAL (py4hw wires are shared objects: a port of a sub-module IS the wire connected to it); each module has
  its own names for the nets it sees (`names`), and a wire may be connected to several ports.
  `HierSrc.emit : V.Design` mirrors rtl_generation.py (`_getVerilogForHierarchy`: the top module, then for every
  non-inlinable child its module followed by the modules of its own children, every module name once).
  `HierSrc.cert : CertSrc` is the certificate of the flattened text, listed exactly in the order `V.flattenM` produces it;
  `Proofs/C01HierElab.lean` proves `V.flatten S.emit S.top.mname = S.cert.flat` by induction on the depth: every level is
  the same construction (`Low.up`) over the operations of the level below (`Low`).
-/
namespace FlatM
open V

inductive GChild where
  | kind (k : GKind)
  | reg (r : RegSrc)
deriving Inhabited, Repr

/-- a structural module: ports `(name, net)` in port order, wire declarations, children in instantiation order -/
structure Mod (χ : Type) where
  mname : String
  names : List (Nat × String)       -- the name of each net inside this module (ports: the LAST port connected to the wire)
  inputs : List (String × Nat)
  outputs : List (String × Nat)
  locals : List Nat
  children : List χ
deriving Inhabited, Repr

def Mod.nm {χ : Type} (M : Mod χ) (k : Nat) : String := (M.names.lookup k).getD "?"

abbrev Scope := Mod GChild

def GChild.isReg : GChild → Bool | .reg _ => true | .kind _ => false

/-- a child one level up: an inlinable child / register, or an instance of a structural module of children `χ` -/
inductive HChild (χ : Type) where
  | g (c : GChild)
  | sub (iname : String) (body : Mod χ)
deriving Inhabited, Repr

def ChildN : Nat → Type
  | 0 => GChild
  | n + 1 => HChild (ChildN n)

abbrev ModN (n : Nat) := Mod (ChildN n)

structure HierSrc where
  depth : Nat
  clk : String
  widths : List Nat
  top : ModN depth
  order : List Nat                  -- the simulator's schedule (indices into the leaves of `kinds`)
  vorder : List Nat                 -- a sources-first order of the flattened assigns

namespace HierSrc

def wd (S : HierSrc) (k : Nat) : Nat := S.widths.getD k 1

/-! ### the emitted modules -/

open FlatSrc (mkPort regBody0)

def regModuleH (wd : Nat → Nat) (r : RegSrc) : Module :=
  { name := r.mname, params := [],
    ports := [mkPort .inp 1 "clk", mkPort .inp (wd r.leaf.d) "d"] ++
      (if r.leaf.hasE then [mkPort .inp (wd r.leaf.e) "e"] else []) ++
      (if r.leaf.hasR then [mkPort .inp (wd r.leaf.r) "r"] else []) ++
      [mkPort .out (wd r.leaf.q) "q"],
    items := [.reg "rq" (wd r.leaf.q) (some (lit r.leaf.rv)),
              .always (.pos "clk") (regBody0 r.leaf.hasR r.leaf.hasE r.leaf.rv),
              .assign (.lid "q") (.id "rq")] }

def regConnsH (nm : Nat → String) (clk : String) (r : RegSrc) : List (String × Expr) :=
  [("clk", .id clk), ("d", .id (nm r.leaf.d))] ++
  (if r.leaf.hasE then [("e", .id (nm r.leaf.e))] else []) ++
  (if r.leaf.hasR then [("r", .id (nm r.leaf.r))] else []) ++
  [("q", .id (nm r.leaf.q))]

def gchildItems (wd : Nat → Nat) (nm : Nat → String) (clk : String) : GChild → List Item
  | .kind k => (k.assigns wd nm).map fun a => Item.assign a.1 a.2
  | .reg r => [.inst r.mname r.iname [] (regConnsH nm clk r)]

def modPorts {χ : Type} (wd : Nat → Nat) (M : Mod χ) (hasClk : Bool) (clk : String) : List Port :=
  (if hasClk then [mkPort .inp 1 clk] else []) ++
  (M.inputs.map fun pk => mkPort .inp (wd pk.2) pk.1) ++ (M.outputs.map fun pk => mkPort .out (wd pk.2) pk.1)

/-- the port connections of an instance of `body` inside a module that names its nets `nm` -/
def subConns {χ : Type} (nm : Nat → String) (clk : String) (hasClk : Bool) (body : Mod χ) : List (String × Expr) :=
  (if hasClk then [(clk, Expr.id clk)] else []) ++
  (body.inputs.map fun pk => (pk.1, Expr.id (nm pk.2))) ++ (body.outputs.map fun pk => (pk.1, Expr.id (nm pk.2)))

def gchildMods (wd : Nat → Nat) : GChild → List Module
  | .kind _ => []
  | .reg r => [regModuleH wd r]

/-- the ports of a sub-module have different names -/
def PortsOK {χ : Type} (clk : String) (hasClk : Bool) (sc : Mod χ) : Prop :=
  ((if hasClk then [clk] else []) ++ (sc.inputs.map (·.1) ++ sc.outputs.map (·.1))).Nodup

instance {χ : Type} (clk : String) (hasClk : Bool) (sc : Mod χ) : Decidable (PortsOK clk hasClk sc) := by
  unfold PortsOK; infer_instance

/-! ### the certificate of the flattened text, in `V.flattenM` order -/

structure Piece where
  sigs : List (String × Nat) := []
  assigns : List (LHS × Expr) := []
  tags : List Tag := []
  table : List (String × Nat) := []
  clocks : List (String × String) := []
  regs : List RegI := []
deriving Inhabited

def Piece.app (a b : Piece) : Piece :=
  { sigs := a.sigs ++ b.sigs, assigns := a.assigns ++ b.assigns, tags := a.tags ++ b.tags, table := a.table ++ b.table,
    clocks := a.clocks ++ b.clocks, regs := a.regs ++ b.regs }

def Piece.join (ps : List Piece) : Piece :=
  { sigs := ps.flatMap (·.sigs), assigns := ps.flatMap (·.assigns), tags := ps.flatMap (·.tags), table := ps.flatMap (·.table),
    clocks := ps.flatMap (·.clocks), regs := ps.flatMap (·.regs) }

/-- a flattened register instance `cp = p ++ iname ++ "."` inside a module whose nets are named `nmp` and whose clock is `pclk` -/
def regPiece (wd : Nat → Nat) (nmp : Nat → String) (p pclk : String) (r : RegSrc) : Piece :=
  let cp := p ++ r.iname ++ "."
  { sigs := [(cp ++ "clk", 1), (cp ++ "d", wd r.leaf.d)] ++ (if r.leaf.hasE then [(cp ++ "e", wd r.leaf.e)] else []) ++
      (if r.leaf.hasR then [(cp ++ "r", wd r.leaf.r)] else []) ++ [(cp ++ "q", wd r.leaf.q), (cp ++ "rq", wd r.leaf.q)],
    assigns := [(.lid (cp ++ "q"), .id (cp ++ "rq")), (.lid (cp ++ "clk"), .id pclk), (.lid (cp ++ "d"), .id (nmp r.leaf.d))] ++
      (if r.leaf.hasE then [(.lid (cp ++ "e"), .id (nmp r.leaf.e))] else []) ++
      (if r.leaf.hasR then [(.lid (cp ++ "r"), .id (nmp r.leaf.r))] else []) ++
      [(.lid (nmp r.leaf.q), .id (cp ++ "q"))],
    tags := [.alias, .clock, .alias] ++ (if r.leaf.hasE then [.alias] else []) ++ (if r.leaf.hasR then [.alias] else []) ++ [.alias],
    table := [(cp ++ "d", r.leaf.d)] ++ (if r.leaf.hasE then [(cp ++ "e", r.leaf.e)] else []) ++
      (if r.leaf.hasR then [(cp ++ "r", r.leaf.r)] else []) ++ [(cp ++ "q", r.leaf.q), (cp ++ "rq", r.leaf.q)],
    clocks := [(cp ++ "clk", pclk)],
    regs := [{ pfx := cp, leaf := r.leaf }] }

def kindPiece (wd : Nat → Nat) (nmp : Nat → String) (nu : List (Nat × String)) (i : Nat) (k : GKind) : Piece :=
  { assigns := k.assigns wd nmp, tags := (List.range (k.assigns wd nmp).length).map fun j => Tag.kind i j nu }

/-- pieces of level 0 children; `i` numbers the inlinable children -/
def gchildPieces (wd : Nat → Nat) (nmp : Nat → String) (nu : List (Nat × String)) (p pclk : String) : Nat → List GChild → List Piece
  | _, [] => []
  | i, .kind k :: rest => kindPiece wd nmp nu i k :: gchildPieces wd nmp nu p pclk (i + 1) rest
  | i, .reg r :: rest => regPiece wd nmp p pclk r :: gchildPieces wd nmp nu p pclk i rest

def gkind? : GChild → Option GKind | .kind k => some k | .reg _ => none
def kindsOf (cs : List GChild) : List GKind := cs.filterMap gkind?

/-- declarations of a module flattened under prefix `p`: ports, then wires -/
def modDeclPiece {χ : Type} (wd : Nat → Nat) (M : Mod χ) (p : String) (hasClk : Bool) (clk : String) : Piece :=
  { sigs := (if hasClk then [(p ++ clk, 1)] else []) ++ (M.inputs.map fun pk => (p ++ pk.1, wd pk.2)) ++
      (M.outputs.map fun pk => (p ++ pk.1, wd pk.2)) ++ (M.locals.map fun k => (p ++ M.nm k, wd k)),
    table := (M.inputs.map fun pk => (p ++ pk.1, pk.2)) ++ (M.outputs.map fun pk => (p ++ pk.1, pk.2)) ++
      (M.locals.map fun k => (p ++ M.nm k, k)) }

def nuOf {χ : Type} (M : Mod χ) (p : String) : List (Nat × String) := M.names.map fun kn => (kn.1, p ++ kn.2)

/-! ### one level of hierarchy over the operations of the level below -/

/-- what a level provides for its children type `χ` -/
structure Low (χ : Type) where
  hasReg : χ → Bool                                   -- the child contains a register (its module needs the clock port)
  items : (Nat → String) → χ → List Item             -- the items the child contributes to its parent's body
  mods : χ → List Module                              -- the modules the child brings along, in emission order
  pieces : (Nat → String) → List (Nat × String) → String → String → Nat → List χ → List Piece
  kinds : List χ → List GKind                         -- the inlinable children below, in the numbering of `pieces`
  clocks : String → List χ → List (String × String)  -- clock ports of sub-module instances with the clock they are connected to
  portsOK : List χ → Bool

def low0 (wd : Nat → Nat) (clk : String) : Low GChild :=
  { hasReg := GChild.isReg, items := fun nm c => gchildItems wd nm clk c, mods := gchildMods wd, pieces := gchildPieces wd,
    kinds := kindsOf, clocks := fun _ _ => [], portsOK := fun _ => true }

variable {χ : Type}

def Low.modHasReg (L : Low χ) (b : Mod χ) : Bool := b.children.any L.hasReg

/-- the module of a structural block -/
def Low.modOf (wd : Nat → Nat) (clk : String) (L : Low χ) (b : Mod χ) : Module :=
  { name := b.mname, params := [], ports := modPorts wd b (L.modHasReg b) clk,
    items := (b.locals.map fun k => Item.wire (b.nm k) (wd k)) ++ b.children.flatMap (L.items b.nm) }

/-- a module flattened under prefix `p`: declarations, then its children -/
def Low.modPiece (wd : Nat → Nat) (clk : String) (L : Low χ) (b : Mod χ) (p : String) (i : Nat) : Piece :=
  (modDeclPiece wd b p (L.modHasReg b) clk).app
    (Piece.join (L.pieces (fun x => p ++ b.nm x) (nuOf b p) p (p ++ clk) i b.children))

/-- a flattened sub-module instance `cp = p ++ iname ++ "."`: its module under `cp`, then the port connections -/
def Low.subPiece (wd : Nat → Nat) (clk : String) (L : Low χ) (nmp : Nat → String) (p pclk : String) (i : Nat) (iname : String)
    (body : Mod χ) : Piece :=
  let cp := p ++ iname ++ "."
  (L.modPiece wd clk body cp i).app
  { assigns := (if L.modHasReg body then [(.lid (cp ++ clk), .id pclk)] else []) ++
      (body.inputs.map fun pk => (.lid (cp ++ pk.1), .id (nmp pk.2))) ++
      (body.outputs.map fun pk => (.lid (nmp pk.2), .id (cp ++ pk.1))),
    tags := (if L.modHasReg body then [.clock] else []) ++ (body.inputs.map fun _ => Tag.alias) ++ (body.outputs.map fun _ => Tag.alias) }

def Low.childPieces (wd : Nat → Nat) (clk : String) (L : Low χ) (nmp : Nat → String) (nu : List (Nat × String)) (p pclk : String) :
    Nat → List (HChild χ) → List Piece
  | _, [] => []
  | i, .g (.kind k) :: rest => kindPiece wd nmp nu i k :: Low.childPieces wd clk L nmp nu p pclk (i + 1) rest
  | i, .g (.reg r) :: rest => regPiece wd nmp p pclk r :: Low.childPieces wd clk L nmp nu p pclk i rest
  | i, .sub iname body :: rest =>
      L.subPiece wd clk nmp p pclk i iname body :: Low.childPieces wd clk L nmp nu p pclk (i + (L.kinds body.children).length) rest

def Low.childKinds (L : Low χ) : List (HChild χ) → List GKind
  | [] => []
  | .g (.kind k) :: rest => k :: Low.childKinds L rest
  | .g (.reg _) :: rest => Low.childKinds L rest
  | .sub _ body :: rest => L.kinds body.children ++ Low.childKinds L rest

/-- the next level -/
def Low.up (wd : Nat → Nat) (clk : String) (L : Low χ) : Low (HChild χ) :=
  { hasReg := fun c => match c with | .g c => GChild.isReg c | .sub _ b => L.modHasReg b,
    items := fun nm c => match c with
      | .g c => gchildItems wd nm clk c
      | .sub iname b => [.inst b.mname iname [] (subConns nm clk (L.modHasReg b) b)],
    mods := fun c => match c with
      | .g c => gchildMods wd c
      | .sub _ b => L.modOf wd clk b :: b.children.flatMap L.mods,
    pieces := L.childPieces wd clk,
    kinds := L.childKinds,
    clocks := fun p cs => cs.flatMap fun c => match c with
      | .g _ => []
      | .sub iname b => (if L.modHasReg b then [(p ++ iname ++ "." ++ clk, p ++ clk)] else []) ++ L.clocks (p ++ iname ++ ".") b.children,
    portsOK := fun cs => cs.all fun c => match c with
      | .g _ => true
      | .sub _ b => decide (PortsOK clk (L.modHasReg b) b) && L.portsOK b.children }

def lowN (wd : Nat → Nat) (clk : String) : (n : Nat) → Low (ChildN n)
  | 0 => low0 wd clk
  | n + 1 => (lowN wd clk n).up wd clk

/-! ### the emitted module list and the certificate -/

def low (S : HierSrc) : Low (ChildN S.depth) := lowN S.wd S.clk S.depth

def topModule (S : HierSrc) : Module := S.low.modOf S.wd S.clk S.top

def mods (S : HierSrc) : List Module := S.topModule :: S.top.children.flatMap S.low.mods

/-- the module list, every module name once, in order of first use -/
def emit (S : HierSrc) : Design := FlatSrc.dedupMods S.mods

/-- every module name stands for ONE module, the ports of every sub-module have different names, and the module list is
    at least as long as the nesting is deep (the fuel of `V.flatten`); all decidable -/
def modsOKb (S : HierSrc) : Bool :=
  (S.mods.all fun m => S.mods.all fun m' => decide (m.name = m'.name → m = m')) &&
  S.low.portsOK S.top.children && decide (S.depth ≤ S.emit.length)

def piece (S : HierSrc) : Piece := S.low.modPiece S.wd S.clk S.top "" 0

def cert (S : HierSrc) : CertSrc :=
  let P := S.piece
  { widths := S.widths, table := P.table, kinds := S.low.kinds S.top.children, regs := P.regs, order := S.order,
    sigs := P.sigs, assigns := P.assigns, tags := P.tags, vorder := S.vorder, clk := S.clk,
    -- clock connections of sub-modules must precede the registers inside them: list them first, parents first
    clocks := S.low.clocks "" S.top.children ++ P.clocks,
    inputs := S.top.inputs.map fun pk => (pk.2, "" ++ pk.1) }

/-- everything the theorems need of an imported hierarchical description (all decidable) -/
def check (S : HierSrc) : Bool := S.modsOKb && S.cert.check

end HierSrc
end FlatM
