/-
  Python integer semantics on Lean's unbounded `Int`.

  Python `int` is an unbounded two's-complement integer for the bitwise operators.
  Core Lean has `~~~`, `>>>` (floor shift) and floor division on `Int` but no `&&&`, `|||`, `^^^`;
  they are defined here by constructor cases (the usual definitions, with `m &&& ~n = m - (m &&& n)`).
  No imports: this file is part of the executable model that the line-protocol drivers run.
-/
namespace Py

/-- Python `a & b` -/
def land : Int → Int → Int
  | .ofNat m,   .ofNat n   => .ofNat (m &&& n)
  | .ofNat m,   .negSucc n => .ofNat (m - (m &&& n))
  | .negSucc m, .ofNat n   => .ofNat (n - (n &&& m))
  | .negSucc m, .negSucc n => .negSucc (m ||| n)

/-- Python `a | b` -/
def lor : Int → Int → Int
  | .ofNat m,   .ofNat n   => .ofNat (m ||| n)
  | .ofNat m,   .negSucc n => .negSucc (n - (n &&& m))
  | .negSucc m, .ofNat n   => .negSucc (m - (m &&& n))
  | .negSucc m, .negSucc n => .negSucc (m &&& n)

/-- Python `a ^ b` -/
def lxor : Int → Int → Int
  | .ofNat m,   .ofNat n   => .ofNat (m ^^^ n)
  | .ofNat m,   .negSucc n => .negSucc (m ^^^ n)
  | .negSucc m, .ofNat n   => .negSucc (m ^^^ n)
  | .negSucc m, .negSucc n => .ofNat (m ^^^ n)

/-- Python `~a` -/
def lnot (a : Int) : Int := -a - 1

/-- Python `a << n` for `n ≥ 0`.  A negative count raises `ValueError` in Python; callers of the
    generated code only reach this with a count that the translator shows to be a `Nat` or guard
    explicitly; the `Int` version below returns `none` on a negative count. -/
def shl (a : Int) (n : Nat) : Int := a * 2 ^ n

/-- Python `a >> n` for `n ≥ 0` (arithmetic, floor). -/
def shr (a : Int) (n : Nat) : Int := a >>> n

/-- shifts with a Python-int count: `none` = ValueError (negative shift count). -/
def shlI (a n : Int) : Option Int := if n < 0 then none else some (shl a n.toNat)
def shrI (a n : Int) : Option Int := if n < 0 then none else some (shr a n.toNat)

/-- total versions used by generated code where the count is known non-negative from a width or
    a `range`; on a negative count they return the sentinel behaviour "shift by 0" *and* the
    generated code separately records the guard (see `Gen` header) so that the correspondence
    never compares such a case. -/
def shlT (a n : Int) : Int := shl a n.toNat
def shrT (a n : Int) : Int := shr a n.toNat

/-- Python `a // b`, `a % b` (floor), for `b ≠ 0`. -/
def fdiv (a b : Int) : Int := Int.fdiv a b
def fmod (a b : Int) : Int := Int.fmod a b

/-- Python truthiness of an int, and the int value of a bool. -/
def truthy (a : Int) : Bool := a != 0
def ofBool (b : Bool) : Int := if b then 1 else 0

/-- Python list indexing `l[i]` / `l[i] = v` for `0 ≤ i < len(l)` (outside that range Python wraps a
    negative index or raises IndexError; the correspondence never compares such a call and every theorem
    that depends on an index carries the range as a hypothesis). -/
def lget (l : List Int) (i : Int) : Int := l.getD i.toNat 0
def lset (l : List Int) (i : Int) (v : Int) : List Int := l.set i.toNat v

end Py
