import Py4hwV.Core.PyInt
/-
  The small normal-form API between Python-int leaf code (`Int`) and everything above the
  leaves (`Nat` with explicit `% 2^w`).  Core Lean only.
-/
namespace Bits
open Py

/-- value stored by `Wire.put`/`Wire.prepare` on a wire of width `w` (hand-written reference;
    `Gen.Wire.put` generated from base.py is proved equal to it in `Props/C06`). -/
def put (w : Nat) (v : Int) : Nat := (v % (2:Int)^w).toNat

theorem two_pow_pos_int (w : Nat) : (0:Int) < (2:Int)^w := by
  have : (0:Int) < 2 := by decide
  exact Int.pow_pos this

theorem put_lt (w : Nat) (v : Int) : put w v < 2^w := by
  unfold put
  have hp := two_pow_pos_int w
  have h1 : v % (2:Int)^w < (2:Int)^w := Int.emod_lt_of_pos v hp
  have h0 : 0 ≤ v % (2:Int)^w := Int.emod_nonneg v (Int.ne_of_gt hp)
  have : ((v % (2:Int)^w).toNat : Int) < ((2^w : Nat) : Int) := by
    rw [Int.toNat_of_nonneg h0]; simpa using h1
  exact Int.ofNat_lt.mp this

theorem put_cast (w : Nat) (v : Int) : ((put w v : Nat) : Int) = v % (2:Int)^w := by
  unfold put
  have hp := two_pow_pos_int w
  exact Int.toNat_of_nonneg (Int.emod_nonneg v (Int.ne_of_gt hp))

theorem put_ofNat (w n : Nat) : put w (n : Int) = n % 2^w := by
  have h := put_cast w (n:Int)
  have : ((n % 2^w : Nat) : Int) = (n:Int) % (2:Int)^w := by simp
  omega

theorem put_of_lt (w n : Nat) (h : n < 2^w) : put w (n : Int) = n := by
  rw [put_ofNat, Nat.mod_eq_of_lt h]

/-- congruence: `put` only sees the residue -/
theorem put_emod (w : Nat) (v : Int) : put w (v % (2:Int)^w) = put w v := by
  unfold put; rw [Int.emod_emod_of_dvd v (Int.dvd_refl _)]

theorem put_add_mul (w : Nat) (v k : Int) : put w (v + k * (2:Int)^w) = put w v := by
  unfold put; rw [Int.add_mul_emod_self_right]

theorem put_congr (w : Nat) (a b : Int) (h : a % (2:Int)^w = b % (2:Int)^w) : put w a = put w b := by
  unfold put; rw [h]

/-- the Python mask `(1 << w) - 1` -/
theorem shl_one (w : Nat) : shl 1 w = (2:Int)^w := by simp [shl]

theorem mask_eq (w : Nat) : shl 1 w - 1 = (((2^w - 1 : Nat)) : Int) := by
  rw [shl_one]
  have : 1 ≤ 2^w := Nat.one_le_two_pow
  rw [Int.ofNat_sub this]; simp

/-- `v & ((1<<w)-1) = v mod 2^w` for every Python int `v`, negative ones included. -/
theorem land_mask (v : Int) (w : Nat) : land v (shl 1 w - 1) = v % (2:Int)^w := by
  rw [mask_eq]
  have hpos : 0 < 2^w := Nat.two_pow_pos w
  cases v with
  | ofNat m =>
    show Int.ofNat (m &&& (2^w - 1)) = _
    rw [Nat.and_two_pow_sub_one_eq_mod]
    simp
  | negSucc m =>
    show Int.ofNat ((2^w-1) - ((2^w-1) &&& m)) = _
    rw [Nat.and_comm, Nat.and_two_pow_sub_one_eq_mod]
    have hm : m % 2^w < 2^w := Nat.mod_lt _ hpos
    rw [Int.emod_negSucc]
    simp only [Int.ofNat_eq_natCast]
    have e : ((2:Int)^w).natAbs = 2^w := by
      rw [Int.natAbs_pow]; rfl
    rw [e, Int.subNatNat_eq_coe]
    have h2 : ((2^w : Nat) : Int) = (2:Int)^w := by simp
    omega

theorem put_eq_land (w : Nat) (v : Int) : (put w v : Int) = land v (shl 1 w - 1) := by
  rw [land_mask, put_cast]

theorem land_ofNat (a b : Nat) : land (a:Int) (b:Int) = ((a &&& b : Nat) : Int) := rfl
theorem lor_ofNat (a b : Nat) : lor (a:Int) (b:Int) = ((a ||| b : Nat) : Int) := rfl
theorem lxor_ofNat (a b : Nat) : lxor (a:Int) (b:Int) = ((a ^^^ b : Nat) : Int) := rfl
theorem shl_ofNat (a n : Nat) : shl (a:Int) n = ((a <<< n : Nat) : Int) := by
  simp [shl, Nat.shiftLeft_eq]
theorem shr_ofNat (a n : Nat) : shr (a:Int) n = ((a >>> n : Nat) : Int) := by
  simp [shr, Int.shiftRight_eq_div_pow, Nat.shiftRight_eq_div_pow]

theorem lnot_ofNat_put (w a : Nat) (h : a < 2^w) : put w (lnot (a:Int)) = 2^w - 1 - a := by
  have hc := put_cast w (lnot (a:Int))
  have : lnot (a:Int) % (2:Int)^w = (((2^w - 1 - a : Nat)) : Int) := by
    unfold lnot
    have e : (-(a:Int) - 1) = ((2^w - 1 - a : Nat) : Int) + (-1) * (2:Int)^w := by
      have : ((2^w : Nat) : Int) = (2:Int)^w := by simp
      omega
    rw [e, Int.add_mul_emod_self_right]
    apply Int.emod_eq_of_lt
    · omega
    · have : ((2^w : Nat) : Int) = (2:Int)^w := by simp
      omega
  omega

/-- two's complement reading of a `w`-bit value (`IntegerHelper.c2_to_signed`) -/
def toSigned (w : Nat) (x : Nat) : Int := if x < 2^(w-1) then (x:Int) else (x:Int) - (2:Int)^w

/-- bit `i` of a natural number as 0/1 -/
def bit (x i : Nat) : Nat := (x >>> i) % 2

theorem bit_lt (x i : Nat) : bit x i < 2 := Nat.mod_lt _ (by decide)

theorem bit_eq_testBit (x i : Nat) : bit x i = (x.testBit i).toNat := by
  unfold bit
  rw [Nat.testBit, Nat.one_and_eq_mod_two]
  cases h : (x >>> i) % 2 with
  | zero => simp
  | succ n =>
    have : (x >>> i) % 2 < 2 := Nat.mod_lt _ (by decide)
    have : n = 0 := by omega
    subst this; simp

end Bits
