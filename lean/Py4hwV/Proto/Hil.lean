import Py4hwV.Gen.Fsm
import Py4hwV.Core.Bits
/-
  C20 — hardware-in-the-loop UART command codec (py4hw/emulation/HILWrapperUART.py).

  The two state machines are NOT re-modelled here: `Gen.CMDRequest.step` / `Gen.CMDResponse.step` are the literal
  transcriptions of `CMDRequest.clock` / `CMDResponse.clock` generated from the source on every run.  This file adds
  only what the Python classes get from their surroundings:
    * the output wires (a `prepare(v)` is visible after the edge, masked to the wire's width; a wire that is not
      written keeps its value),
    * the environment: a producer that holds `valid`/`c` until it sees `ready ∧ valid` at an edge, with arbitrary idle
      gaps (showing arbitrary junk on `c`), and a consumer that drives an arbitrary `ready` sequence,
    * the specification vocabulary: commands, their characters, their meaning as strobe events, upper-case hex.
  Core Lean only (the driver `Drv/C20.lean` runs these definitions).
-/
namespace Hil
open Gen

/-- `prepare` on a wire of width `w`: `none` = not written at this edge -/
def upd (w : Nat) (o : Option Int) (old : Nat) : Nat :=
  match o with
  | none => old
  | some v => Bits.put w v

/-! ## request side -/

/-- widths of the three number buses; the strobes and `ready` are 1-bit wires (as in `createHILUART`) -/
structure ReqCfg where
  wIn : Nat
  wV : Nat
  wOut : Nat
deriving Repr, DecidableEq

/-- values of the output wires of a CMDRequest instance -/
structure ReqW where
  ready : Nat
  sii : Nat          -- set_index_in
  sv : Nat           -- set_v_in
  sio : Nat          -- set_index_out
  index_in : Nat
  start_resp : Nat
  v_in : Nat
  index_out : Nat
  clk_pulse : Nat
deriving Repr, DecidableEq

def ReqW.zero : ReqW := ⟨0, 0, 0, 0, 0, 0, 0, 0, 0⟩

/-- one `sim.clk(1)` of a CMDRequest instance: inputs are the wire values before the edge -/
def reqCycle (k : ReqCfg) (s : CMDRequest.St) (w : ReqW) (valid c : Nat) : CMDRequest.St × ReqW :=
  let r := CMDRequest.step ⟨⟩ s ⟨(valid : Int), (c : Int)⟩ ⟨⟩
  (r.1, ⟨upd 1 r.2.ready w.ready, upd 1 r.2.set_index_in w.sii, upd 1 r.2.set_v_in w.sv,
         upd 1 r.2.set_index_out w.sio, upd k.wIn r.2.index_in w.index_in, upd 1 r.2.start_resp w.start_resp,
         upd k.wV r.2.v_in w.v_in, upd k.wOut r.2.index_out w.index_out, upd 1 r.2.clk_pulse w.clk_pulse⟩)

/-- open loop: a given list of (valid, c) input pairs, one per cycle; returns the state and wires after every cycle -/
def reqRun (k : ReqCfg) : CMDRequest.St → ReqW → List (Nat × Nat) → List (CMDRequest.St × ReqW)
  | _, _, [] => []
  | s, w, (v, c) :: r => let sw := reqCycle k s w v c; sw :: reqRun k sw.1 sw.2 r

/-- what the strobes say in one cycle (observed after the edge) -/
inductive Ev where
  | selIn (n : Nat)
  | store (v : Nat)
  | selOut (n : Nat)
  | startResp
  | clk
deriving Repr, DecidableEq

def evOf (w : ReqW) : List Ev :=
  (if w.sii ≠ 0 then [Ev.selIn w.index_in] else []) ++
  (if w.sv ≠ 0 then [Ev.store w.v_in] else []) ++
  (if w.sio ≠ 0 then [Ev.selOut w.index_out] else []) ++
  (if w.start_resp ≠ 0 then [Ev.startResp] else []) ++
  (if w.clk_pulse ≠ 0 then [Ev.clk] else [])

/-- every cycle in which a strobe is high contributes one event: a strobe that stayed high for two cycles, or pulsed
    twice, shows up twice -/
def events (t : List ReqW) : List Ev := t.flatMap evOf

/-- no two consecutive cycles with `clk_pulse` high: every high cycle is a pulse of its own -/
def clkIsolated : List ReqW → Bool
  | a :: b :: r => !(a.clk_pulse != 0 && b.clk_pulse != 0) && clkIsolated (b :: r)
  | _ => true

/-- upper-case hexadecimal digit character of a nibble -/
def hexChar (d : Nat) : Nat := if d < 10 then 48 + d else 55 + d

/-- value of a most-significant-first digit string continuing from `t` -/
def hexFold (t : Nat) (ds : List Nat) : Nat := ds.foldl (fun a d => 16 * a + d) t
def hexVal (ds : List Nat) : Nat := hexFold 0 ds

/-- characters with a meaning for CMDRequest -/
def isCmdChar (c : Nat) : Bool :=
  c == 73 || c == 61 || c == 79 || c == 75 || c == 33 || c == 63 || c == 59 ||
  (decide (48 ≤ c) && decide (c ≤ 57)) || (decide (65 ≤ c) && decide (c ≤ 70))

/-- well-formed commands: `I<hex>=`, `<hex>!`, `O<hex>?`, `K<hex>;` with digit lists of any length (values < 16),
    and `sep c`: a character outside the command alphabet (the host sends '\n' after every command) -/
inductive Cmd where
  | I (ds : List Nat)
  | V (ds : List Nat)
  | O (ds : List Nat)
  | K (ds : List Nat)
  | sep (c : Nat)
deriving Repr, DecidableEq

def Cmd.chars : Cmd → List Nat
  | .I ds => 73 :: (ds.map hexChar ++ [61])
  | .V ds => ds.map hexChar ++ [33]
  | .O ds => 79 :: (ds.map hexChar ++ [63])
  | .K ds => 75 :: (ds.map hexChar ++ [59])
  | .sep c => [c]

def Cmd.wf : Cmd → Prop
  | .I ds | .V ds | .O ds | .K ds => ∀ d ∈ ds, d < 16
  | .sep c => isCmdChar c = false

instance (c : Cmd) : Decidable c.wf := by
  cases c <;> unfold Cmd.wf <;> infer_instance

/-- the meaning of a command: which strobes fire, in which order, with which number on the bus -/
def Cmd.meaning (k : ReqCfg) : Cmd → List Ev
  | .I ds => [Ev.selIn (hexVal ds % 2 ^ k.wIn)]
  | .V ds => [Ev.store (hexVal ds % 2 ^ k.wV)]
  | .O ds => [Ev.selOut (hexVal ds % 2 ^ k.wOut), Ev.startResp]
  | .K ds => List.replicate (hexVal ds) Ev.clk
  | .sep _ => []

/-- producer: per character, the junk values shown on `c` during the idle cycles (valid = 0) before it is presented,
    then the character, held with valid = 1 until the edge at which `ready` is 1 -/
abbrev Prod := List (List Nat × Nat)

def Prod.out : Prod → Nat × Nat
  | [] => (0, 0)
  | (j :: _, _) :: _ => (0, j)
  | ([], ch) :: _ => (1, ch)

def Prod.next (ready : Nat) : Prod → Prod
  | [] => []
  | (_ :: js, ch) :: r => (js, ch) :: r
  | ([], ch) :: r => if ready ≠ 0 then r else ([], ch) :: r

def Prod.chars (p : Prod) : List Nat := p.map (·.2)

structure ReqLoop where
  st : CMDRequest.St
  w : ReqW
  p : Prod

/-- one clock edge of CMDRequest connected to the producer -/
def reqLoopStep (k : ReqCfg) (l : ReqLoop) : ReqLoop :=
  let r := reqCycle k l.st l.w (Prod.out l.p).1 (Prod.out l.p).2
  ⟨r.1, r.2, Prod.next l.w.ready l.p⟩

def after (k : ReqCfg) : Nat → ReqLoop → ReqLoop
  | 0, l => l
  | n + 1, l => after k n (reqLoopStep k l)

/-- the wires after each of the next `n` edges -/
def trace (k : ReqCfg) : Nat → ReqLoop → List ReqW
  | 0, _ => []
  | n + 1, l => (reqLoopStep k l).w :: trace k n (reqLoopStep k l)

def reqInit (p : Prod) : ReqLoop := ⟨CMDRequest.init, ReqW.zero, p⟩

/-! ## response side -/

structure RespW where
  valid : Nat
  v : Nat
deriving Repr, DecidableEq

/-- inputs of one cycle: wire values before the edge -/
structure RespIn where
  start : Nat
  vin : Nat
  size : Nat
  ready : Nat
deriving Repr, DecidableEq

/-- Python raises `ValueError: negative shift count` exactly here (`Py.shrT` is total, so the guard is explicit): state 4 with a
    negative `temp_size`.  Since the repair 21add98 (state 2 goes straight to state 5 when `temp_size < 0`) this configuration is
    unreachable from power-up — `C20.resp_run` proves that no run from the idle state ever returns `none`, for every size incl. 0 —
    the guard only matters for the driver's arbitrary start states.
    (Before 21add98 there was a second clause: state 2, ready, `temp_size*4 < 0`, i.e. size = 0 raised after '='.) -/
def respRaises (s : CMDResponse.St) (i : RespIn) : Bool :=
  (s.state == 4 && i.ready != 0 && s.temp_size != 0 && decide ((s.temp_size - 1) * 4 < 0))

/-- one `sim.clk(1)` of a CMDResponse instance whose `v` wire is `wv` bits wide; `none` = the call raises -/
def respCycle (wv : Nat) (s : CMDResponse.St) (w : RespW) (i : RespIn) : Option (CMDResponse.St × RespW) :=
  if respRaises s i then none else
    let r := CMDResponse.step ⟨⟩ s ⟨(i.start : Int), (i.vin : Int), (i.size : Int), (i.ready : Int)⟩ ⟨⟩
    some (r.1, ⟨upd 1 r.2.valid w.valid, upd wv r.2.v w.v⟩)

/-- the character handed over at this edge, if any: `valid` (as driven before the edge) and `ready` both high -/
def xfer (w : RespW) (i : RespIn) : List Nat := if w.valid ≠ 0 ∧ i.ready ≠ 0 then [w.v] else []

/-- run over a list of input cycles; returns the final state/wires and the characters handed over, in order -/
def respRun (wv : Nat) : CMDResponse.St → RespW → List RespIn → Option ((CMDResponse.St × RespW) × List Nat)
  | s, w, [] => some ((s, w), [])
  | s, w, i :: r =>
    match respCycle wv s w i with
    | none => none
    | some sw =>
      match respRun wv sw.1 sw.2 r with
      | none => none
      | some (f, t) => some (f, xfer w i ++ t)

/-- per-cycle rows for the correspondence: state and wires after every edge, `none` from the raising edge on -/
def respRows (wv : Nat) : CMDResponse.St → RespW → List RespIn → List (Option (CMDResponse.St × RespW))
  | _, _, [] => []
  | s, w, i :: r =>
    match respCycle wv s w i with
    | none => [none]
    | some sw => some sw :: respRows wv sw.1 sw.2 r

/-- nibble `i` of `v` -/
def nib (v i : Nat) : Nat := (v / 16 ^ i) % 16

/-- `s` upper-case hex digits of `v`, most significant first (the low `s` nibbles of `v`) -/
def hexUpper : Nat → Nat → List Nat
  | 0, _ => []
  | s + 1, v => hexChar (nib v s) :: hexUpper s v

/-- the response for value `v` and `s` digits as seen on a `wv`-bit character wire -/
def response (wv s v : Nat) : List Nat := (61 :: (hexUpper s v ++ [33])).map (· % 2 ^ wv)

/-- ones in a ready sequence -/
def readyCount (cs : List RespIn) : Nat := (cs.filter (·.ready ≠ 0)).length

end Hil
