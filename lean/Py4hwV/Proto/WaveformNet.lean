import Py4hwV.Net.Sim
import Py4hwV.Proto.Waveform
/-
  The Waveform as a clockable leaf of the simulator model (`Net.Sim`): it has no `propagate`, its `clock` reads the
  current wire values (`w.get()`) and appends them to its own attribute `data`; it prepares nothing.
  `withRecorders d recs` adds such leaves (leaf id ↦ uniqueWires) to any design; the other leaves keep their semantics.
-/
namespace Waveform
open Net

variable {σ : Type}

def liftLeaf (l : LeafSem σ) : LeafSem (σ × Dict) :=
  { prop  := fun v s => let r := l.prop v s.1; ((r.1, s.2), r.2),
    clock := fun v s => let r := l.clock v s.1; ((r.1, s.2), r.2) }

/-- `Waveform.clock` as a leaf: state = `self.data` (second component) -/
def recorderLeaf (uniq : List Nat) : LeafSem (σ × Dict) :=
  { prop  := fun _ s => (s, []),
    clock := fun v s => ((s.1, clockData uniq v s.2), []) }

def withRecorders (d : Design σ) (recs : List (Nat × List Nat)) : Design (σ × Dict) :=
  { width := d.width, order := d.order, drivers := d.drivers,
    leaf := fun k => match recs.lookup k with
                     | some u => recorderLeaf u
                     | none => liftLeaf (d.leaf k) }

/-- initial leaf attributes: recorders start with `data[w] = []` for each unique wire -/
def st0WithRecorders (st0 : Nat → σ) (recs : List (Nat × List Nat)) : Nat → σ × Dict :=
  fun k => (st0 k, match recs.lookup k with
                   | some u => u.map (fun w => (w, []))
                   | none => [])

end Waveform
