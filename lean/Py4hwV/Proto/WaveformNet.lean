import Py4hwV.Net.Sim
import Py4hwV.Proto.Waveform
/-
  The Waveform as a clockable leaf of the simulator model (`Net.Sim`): it has no `propagate`, its `clock` reads the
  current wire values (`w.get()`) and appends them to its own attribute `data`; it prepares nothing.
  `withRecorders d recs` adds such leaves (leaf id ↦ uniqueWires) to any design; the other leaves keep their semantics.
-/
namespace Waveform
open Net

variable {σ : Type}

def liftLeaf (l : LeafSem σ) : LeafSem (σ × Dict) :=
  { prop  := fun v s => let r := l.prop v s.1; ((r.1, s.2), r.2),
    clock := fun v s => let r := l.clock v s.1; ((r.1, s.2), r.2) }

/-- `Waveform.clock` as a leaf: state = `self.data` (second component) -/
def recorderLeaf (uniq : List Nat) : LeafSem (σ × Dict) :=
  { prop  := fun _ s => (s, []),
    clock := fun v s => ((s.1, clockData uniq v s.2), []) }

def withRecorders (d : Design σ) (recs : List (Nat × List Nat)) : Design (σ × Dict) :=
  { width := d.width, order := d.order, drivers := d.drivers,
    leaf := fun k => match recs.lookup k with
                     | some u => recorderLeaf u
                     | none => liftLeaf (d.leaf k) }

/-- initial leaf attributes: recorders start with `data[w] = []` for each unique wire -/
def st0WithRecorders (st0 : Nat → σ) (recs : List (Nat × List Nat)) : Nat → σ × Dict :=
  fun k => (st0 k, match recs.lookup k with
                   | some u => u.map (fun w => (w, []))
                   | none => [])

end Waveform

/-! ### sessions: several Waveform objects on one simulator, arbitrary user operations with queries in between

  What a test bench does with Waveforms: poke wires, `sim.clk(n)`, `wvf.clear()`, and — at ANY point — read the
  recorder (`getDict()`) or render it (`get_wavedrom(shortNames)`).  The two queries are methods without assignments
  to `self`: they leave the simulator and the Waveform untouched and their result is computed from the attributes at
  the time of the call (`Out`). -/
namespace Waveform
open Net

variable {σ : Type}

/-- the Waveform object whose `data` attribute is read from the simulator state -/
def Wf.withData (wf0 : Wf) (D : Dict) : Wf := { wf0 with data := D }

/-- where the `data` attribute of a Waveform leaf lives inside the leaf-attribute type -/
structure Acc (σ : Type) where
  proj : σ → Dict
  setD : σ → Dict → σ

/-- `σ × Dict` of `withRecorders` -/
def Acc.snd : Acc (σ × Dict) := { proj := Prod.snd, setD := fun s D => (s.1, D) }

/-- one Waveform object of a session: its leaf id and the constructed object (watch list, format, uniqueWires, name;
    the `data` field of `wf0` is what the constructor left, the live one is in the simulator state) -/
structure Rec where
  leaf : Nat
  wf0  : Wf

inductive SOp where
  | poke (w : Nat) (v : Int)            -- `wire.put(v)`
  | clk (n : Nat)                       -- `sim.clk(n)`
  | clear (i : Nat)                     -- `wvf_i.clear()`
  | render (i : Nat) (short : Bool)     -- `wvf_i.get_wavedrom(short)`
  | dict (i : Nat)                      -- `wvf_i.getDict()`

inductive Out where
  | wd (i : Nat) (short : Bool) (r : Wavedrom)
  | dict (i : Nat) (d : Dict)

/-- `wvf.clear()` on the Waveform at leaf `k` -/
def clearRec (acc : Acc σ) (s : State σ) (k : Nat) : State σ :=
  { s with st := upd s.st k (acc.setD (s.st k) (clearData (acc.proj (s.st k)))) }

/-- the Waveform object `r` as it is in simulator state `s` -/
def Rec.now (acc : Acc σ) (r : Rec) (s : State σ) : Wf := r.wf0.withData (acc.proj (s.st r.leaf))

/-- effect of an operation on the simulator / the Waveform attributes (an index without object: nothing to do) -/
def sessStep (d : Design σ) (acc : Acc σ) (recs : List Rec) (s : State σ) : SOp → State σ
  | .poke w v => putW d s (w, v)
  | .clk n => clk d n s
  | .clear i => match recs[i]? with
                | some r => clearRec acc s r.leaf
                | none => s
  | .render _ _ => s
  | .dict _ => s

/-- value returned by a query issued in state `s` -/
def sessOut (d : Design σ) (acc : Acc σ) (recs : List Rec) (s : State σ) : SOp → Option Out
  | .render i short => recs[i]?.map fun r => Out.wd i short (getWavedrom d.width (r.now acc s) short)
  | .dict i => recs[i]?.map fun r => Out.dict i (getDict (r.now acc s))
  | _ => none

/-- a whole session: final state and the answers of the queries, in order -/
def session (d : Design σ) (acc : Acc σ) (recs : List Rec) : State σ → List SOp → State σ × List Out
  | s, [] => (s, [])
  | s, op :: ops =>
    let r := session d acc recs (sessStep d acc recs s op) ops
    (r.1, (sessOut d acc recs s op).toList ++ r.2)

end Waveform
