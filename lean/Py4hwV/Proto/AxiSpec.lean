import Py4hwV.Proto.Axi
/-
  C16 specification — executable reference monitors ("oracles") for the two adapters.

  They look only at what the environment can see: per cycle the values poked on the inputs and the values observed on
  the output wires before and after `clk(1)`.  They do NOT look inside the blocks.  The SAME functions are
    * proved to accept every trace of the model (Props/C16.lean: `a2r_oracle_accepts_model`, `r2a_oracle_accepts_model`), and
    * evaluated by the driver on the traces observed on the real py4hw blocks (harness/c16.py, failing-input search).

  Environment assumption of the property ("done is only signalled after a completed transfer"):
    `R2A.doneLiteral`  : ap_done = 1 only in cycles where the sent flag is up            (literal reading)
    `R2A.doneQuiet`    : ap_done = 1 only in cycles with no beat pending (tvalid = 0) and no load pulse taking effect
  The Reg2Axi clauses `clausesQ` need `doneQuiet`; under `doneLiteral` alone the block misbehaves (Props/C16.lean,
  `r2a_done_while_pending_counterexample`).  The clauses `clausesU` (reset priority among them) hold in every state.
-/
namespace Axi
namespace Spec

inductive Verdict where
  | ok                                  -- every cycle satisfied every clause
  | stop (t : Nat)                      -- the environment assumption is violated at cycle t; cycles < t were fine
  | fail (t : Nat) (clause : String) (pend : Bool)  -- clause violated by the step of cycle t; pend: `doneQuiet` was violated at a cycle ≤ t
deriving Repr, DecidableEq, Inhabited

def Verdict.isFail : Verdict → Bool
  | .fail _ _ _ => true
  | _ => false

def firstFail : List (String × Bool) → Option String
  | [] => none
  | (n, b) :: rest => if b then firstFail rest else some n

theorem firstFail_none (l : List (String × Bool)) (h : ∀ p ∈ l, p.2 = true) : firstFail l = none := by
  induction l with
  | nil => rfl
  | cons a l ih =>
    obtain ⟨n, b⟩ := a
    have hb : b = true := h (n, b) (by simp)
    subst hb
    simp only [firstFail, if_true]
    exact ih (fun p hp => h p (by simp [hp]))

/-! ## stream → register (Axi2Reg) -/
namespace A2R
open Axi.A2R (In St Cfg)

/-- the observed output wires -/
structure Obs where
  active : Nat
  loaded : Nat
  q : Nat
  tready : Nat
deriving Repr, DecidableEq, Inhabited

/-- a beat is transferred in this cycle: the peer shows VALID and the adapter shows READY -/
def xfer (o : Obs) (i : In) : Bool := i.tvalid == 1 && o.tready == 1
/-- reset, done, or a restart (start pulse while not active) -/
def clear (o : Obs) (i : In) : Bool := i.ap_reset == 1 || i.ap_done == 1 || (i.ap_start == 1 && o.active == 0)
/-- reference for `active`: set by start, cleared by reset/done (clear wins) -/
def activeNext (o : Obs) (i : In) : Nat :=
  if i.ap_reset == 1 || i.ap_done == 1 then 0 else if i.ap_start == 1 then 1 else o.active

/-- monitor: low W bits of the most recent beat transferred since the last clear -/
def monStep (W : Nat) (m : Option Nat) (o : Obs) (i : In) : Option Nat :=
  if clear o i then none else if xfer o i then some (i.tdata % 2^W) else m

def clauses (W : Nat) (m : Option Nat) (o : Obs) (i : In) (o' : Obs) : List (String × Bool) :=
  [ ("ready_iff_active", o.tready == o.active && o'.tready == o'.active),
    ("active_rule", o'.active == activeNext o i),
    ("loaded_iff_beat_held", o'.loaded == (if (monStep W m o i).isSome then 1 else 0)),
    ("q_is_last_beat", match monStep W m o i with | some v => o'.q == v | none => true) ]

def checkFrom (W : Nat) (m : Option Nat) (o : Obs) (t : Nat) : List (In × Obs) → Verdict
  | [] => .ok
  | (i, o') :: rest =>
    match firstFail (clauses W m o i o') with
    | some cl => .fail t cl false
    | none => checkFrom W (monStep W m o i) o' (t + 1) rest

/-- `o0`: outputs observed before the first cycle; `tr`: per cycle (inputs poked, outputs observed after clk(1)) -/
def check (W : Nat) (o0 : Obs) (tr : List (In × Obs)) : Verdict := checkFrom W none o0 0 tr

/-! the monitor as a pure function of the event history -/
structure Ev where
  clear : Bool
  xfer : Bool
  data : Nat
deriving Repr, DecidableEq, Inhabited

def evStep (W : Nat) (m : Option Nat) (e : Ev) : Option Nat :=
  if e.clear then none else if e.xfer then some (e.data % 2^W) else m
def lastBeat (W : Nat) (evs : List Ev) : Option Nat := evs.foldl (evStep W) none

end A2R

/-! ## register → stream (Reg2Axi) -/
namespace R2A
open Axi.R2A (In St Cfg tkeepVal)

structure Obs where
  tvalid : Nat
  tdata : Nat
  tlast : Nat
  tkeep : Nat
  sent : Nat
  active : Nat
deriving Repr, DecidableEq, Inhabited

/-- the peer accepts the offered beat in this cycle -/
def accept (o : Obs) (i : In) : Bool := o.tvalid == 1 && i.tready == 1
/-- a load pulse takes effect (the adapter only listens while active) -/
def loadEff (o : Obs) (i : In) : Bool := i.load_outs == 1 && o.active == 1
def clear (o : Obs) (i : In) : Bool := i.ap_reset == 1 || i.ap_done == 1 || (i.ap_start == 1 && o.active == 0)
def activeNext (o : Obs) (i : In) : Nat :=
  if i.ap_reset == 1 || i.ap_done == 1 then 0 else if i.ap_start == 1 then 1 else o.active

/-- environment assumption, literal reading: done only while the sent flag is up -/
def doneLiteral (o : Obs) (i : In) : Bool := i.ap_done != 1 || o.sent == 1
/-- environment assumption, strong reading: done only when no beat is pending and none is being loaded -/
def doneQuiet (o : Obs) (i : In) : Bool := i.ap_done != 1 || (o.tvalid == 0 && !loadEff o i)

structure Mon where
  data : Nat          -- value captured by the latest effective load pulse
  sentOk : Bool       -- a beat was accepted since the last clear
  loads : Nat         -- effective load pulses since the last reset
  accepts : Nat       -- accepted beats since the last reset
  pend : Bool         -- doneQuiet was violated at some earlier cycle and no reset has happened since
deriving Repr, DecidableEq, Inhabited

def Mon.init : Mon := ⟨0, false, 0, 0, false⟩

/-- a reset brings the adapter (and the monitors) back to a clean state: counters restart, `pend` is forgotten -/
def monStep (m : Mon) (o : Obs) (i : In) : Mon :=
  { data := if loadEff o i then i.reg_in else m.data
    sentOk := if clear o i then false else if accept o i then true else m.sentOk
    loads := if i.ap_reset == 1 then 0 else if loadEff o i then m.loads + 1 else m.loads
    accepts := if i.ap_reset == 1 then 0 else if accept o i then m.accepts + 1 else m.accepts
    pend := if i.ap_reset == 1 then false else (m.pend || !doneQuiet o i) }

/-- clauses that hold in EVERY state, whatever happened before (no environment assumption): in particular reset priority —
    ap_reset clears VALID whatever `active` is, also in states reached through a done-while-pending. -/
def clausesU (c : Cfg) (m : Mon) (o : Obs) (i : In) (o' : Obs) : List (String × Bool) :=
  let m' := monStep m o i
  [ ("tlast_eq_tvalid", o.tlast == o.tvalid && o'.tlast == o'.tvalid),
    ("tkeep_const", o.tkeep == tkeepVal c.W % 2^c.KW && o'.tkeep == tkeepVal c.W % 2^c.KW),
    ("active_rule", o'.active == activeNext o i),
    ("valid_stable", !(o.tvalid == 1 && i.ap_reset != 1 && !accept o i) || o'.tvalid == 1),
    ("reset_clears_valid", !(i.ap_reset == 1) || o'.tvalid == 0),
    ("valid_raised_only_by_load", !(o.tvalid == 0 && o'.tvalid == 1) || loadEff o i),
    ("load_raises_valid", !(loadEff o i && i.ap_reset != 1 && !accept o i) || o'.tvalid == 1),
    ("tdata_is_latest_load", o'.tdata == m'.data % 2^c.DW),
    ("sent_only_after_accept", !(o'.sent == 1) || m'.sentOk) ]

/-- clauses that rest on the environment assumption `doneQuiet` (an accepted beat is retired only while active) -/
def clausesQ (m : Mon) (o : Obs) (i : In) (o' : Obs) : List (String × Bool) :=
  let m' := monStep m o i
  [ ("valid_drops_when_accepted", !(accept o i) || o'.tvalid == 0),
    ("sent_after_accept", !m'.sentOk || o'.sent == 1),
    ("no_duplicate_beat", decide (m'.accepts + o'.tvalid ≤ m'.loads)) ]

/-- mode 0 (literal): stop at a violation of `doneLiteral`, judge every clause.
    mode 1 (quiet): stop at the first violation of `doneQuiet`, judge every clause.
    mode 2 (tolerant): stop at a violation of `doneLiteral`; the `clausesQ` are judged only while `pend` is down (no
      `doneQuiet` violation since the last reset); the `clausesU` are judged in EVERY state. -/
def assumed (mode : Nat) (o : Obs) (i : In) : Bool := if mode = 1 then doneQuiet o i else doneLiteral o i
def judged (mode : Nat) (m : Mon) : Bool := mode != 2 || !m.pend

def clauses (mode : Nat) (c : Cfg) (m : Mon) (o : Obs) (i : In) (o' : Obs) : List (String × Bool) :=
  clausesU c m o i o' ++ (if judged mode m then clausesQ m o i o' else [])

def checkFrom (mode : Nat) (c : Cfg) (m : Mon) (o : Obs) (t : Nat) : List (In × Obs) → Verdict
  | [] => .ok
  | (i, o') :: rest =>
    if !(assumed mode o i) then .stop t
    else match firstFail (clauses mode c m o i o') with
      | some cl => .fail t cl (m.pend || !doneQuiet o i)
      | none => checkFrom mode c (monStep m o i) o' (t + 1) rest

def check (mode : Nat) (c : Cfg) (o0 : Obs) (tr : List (In × Obs)) : Verdict :=
  checkFrom mode c Mon.init o0 0 tr

/-! pure functions of the history -/
/-- value captured by the latest effective load pulse; `evs` = per cycle (load took effect, reg_in) -/
def lastLoad (evs : List (Bool × Nat)) : Nat := evs.foldl (fun m e => if e.1 then e.2 else m) 0

end R2A
end Spec

/-! ## the observations of the model -/
namespace A2R
def obs (c : Cfg) (s : St) : Spec.A2R.Obs :=
  { active := s.active, loaded := s.loaded, q := s.q, tready := (comb c s default).tready }
/-- per cycle: (inputs, outputs after the edge) -/
def trace (c : Cfg) (s : St) : List In → List (In × Spec.A2R.Obs)
  | [] => []
  | i :: is => (i, obs c (step c s i)) :: trace c (step c s i) is
def traceG (c : Cfg) (s : St) : List In → List (In × Spec.A2R.Obs)
  | [] => []
  | i :: is => (i, obs c (stepG c s i)) :: traceG c (stepG c s i) is
end A2R

namespace R2A
def obs (c : Cfg) (s : St) : Spec.R2A.Obs :=
  let w := comb c s default
  { tvalid := s.tvalid, tdata := s.tdata, tlast := w.tlast, tkeep := w.tkeep, sent := s.sent, active := s.active }
def trace (c : Cfg) (s : St) : List In → List (In × Spec.R2A.Obs)
  | [] => []
  | i :: is => (i, obs c (step c s i)) :: trace c (step c s i) is
def traceG (c : Cfg) (s : St) : List In → List (In × Spec.R2A.Obs)
  | [] => []
  | i :: is => (i, obs c (stepG c s i)) :: traceG c (stepG c s i) is
end R2A
end Axi
