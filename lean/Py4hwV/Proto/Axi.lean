import Py4hwV.Core.Bits
import Py4hwV.Gen.Leaves
/-
  C16 model — the AXI4-Stream adapters of py4hw/emulation/vitiswrapping.py.

  `Axi2Reg` (lines 10-89) and `Reg2Axi` (lines 198-279) are structural blocks: Not / And2 / Or / Or2 / Buf / Range /
  Constant leaves around `Reg`s.  One simulator cycle (`sim.clk(1)` after the inputs were poked) is
      settle the combinational wires on (register outputs, inputs)  →  every Reg reads the settled wires
      →  register outputs change together  →  combinational wires re-settle
  so a block is a Moore machine: `comb` (the settled wires, one `let` per Python statement, same order and names),
  `step` (the Reg rule applied to the pre-edge `comb`) and `out` (the observed wires).

  State = the values on the register OUTPUT wires (`Reg.value` masked by the q wire; for the hold branch
  `value % 2^w` is the wire again, so nothing is lost).  All 1-bit control wires are naturals < 2.

  Two transcriptions are kept side by side:
    * `step`  over Nat-level reference leaves (`and2 or2 not1 buf range const`: the definitions of Lib/Leaf.lean, repeated
      here so that this file — and the driver — depend on no proof) and `regER/regE`  — what the theorems talk about;
    * `stepG` over the definitions GENERATED from the Python leaves (`Gen.And2.step`, `Gen.Reg.step`, …);
  `stepG_eq_step` (Proofs/C16Bridge.lean) bridges them with the `Leaf.gen_*` lemmas, so a change of a leaf's Python breaks a
  proof — while this file keeps compiling and the driver keeps running (the failing-input search needs it).
  This file contains definitions only.
-/
namespace Axi

/-! ### reference leaves: same definitions as `Leaf.*` (Proofs/C16Bridge.lean: `leaf_defs_agree`) -/
def and2 (rw a b : Nat) : Nat := (a &&& b) % 2^rw
def or2 (rw a b : Nat) : Nat := (a ||| b) % 2^rw
def not1 (rw a : Nat) : Nat := 2^rw - 1 - a % 2^rw
def buf (rw a : Nat) : Nat := a % 2^rw
def range (rw a hi lo : Nat) : Nat := ((a >>> lo) % 2^(hi - lo + 1)) % 2^rw
def const (rw : Nat) (v : Int) : Nat := Bits.put rw v
/-- the value that lands on a `w`-bit wire when the leaf passes `o` to put()/prepare() -/
def landed (w : Nat) (o : Option Int) : Nat := Bits.put w (o.getD 0)

/-! ### the Reg rule (storage.py:92-110), reset_value = 0 -/

/-- `Reg.clock` with enable and reset: what is left in `self.value` / prepared on q -/
def regER (v e r d : Nat) : Nat := if r = 1 then 0 else if e = 0 then v else d
/-- `Reg.clock` with enable only -/
def regE (v e d : Nat) : Nat := if e = 0 then v else d

def regERG (w v e r d : Nat) : Nat := landed w (Gen.Reg.step ⟨0, true, true⟩ ⟨v⟩ ⟨e, r, d⟩ ⟨⟩).2.q
def regEG (w v e d : Nat) : Nat := landed w (Gen.Reg.step ⟨0, true, false⟩ ⟨v⟩ ⟨e, 0, d⟩ ⟨⟩).2.q

/-! ### `py4hw.Or(parent, name, ins, r)` (bitwise.py:568-621): Buf for one input, Or2 for two, else a ladder of Or2 -/

def orN (w : Nat) : List Nat → Nat
  | [] => 0
  | [a] => buf w a
  | a :: b :: rest => rest.foldl (fun acc x => or2 w acc x) (or2 w a b)

def or2G (w a b : Nat) : Nat := landed w (Gen.Or2.step ⟨⟩ ⟨⟩ ⟨a, b⟩ ⟨⟩).2.r
def and2G (w a b : Nat) : Nat := landed w (Gen.And2.step ⟨⟩ ⟨⟩ ⟨a, b⟩ ⟨⟩).2.r
def notG (w a : Nat) : Nat := landed w (Gen.Not.step ⟨⟩ ⟨⟩ ⟨a⟩ ⟨⟩).2.r
def bufG (w a : Nat) : Nat := landed w (Gen.Buf.step ⟨⟩ ⟨⟩ ⟨a⟩ ⟨⟩).2.r
def rangeG (w a hi lo : Nat) : Nat := landed w (Gen.Range.step ⟨hi, lo⟩ ⟨⟩ ⟨a⟩ ⟨⟩).2.r
def constG (w : Nat) (v : Int) : Nat := landed w (Gen.Constant.step ⟨v⟩ ⟨⟩ ⟨⟩ ⟨⟩).2.r

def orNG (w : Nat) : List Nat → Nat
  | [] => 0
  | [a] => bufG w a
  | a :: b :: rest => rest.foldl (fun acc x => or2G w acc x) (or2G w a b)

/-! ## Axi2Reg -/
namespace A2R

/-- `W` = width of q, `DW` = width of stream.tdata -/
structure Cfg where
  W : Nat
  DW : Nat
deriving Repr, DecidableEq, Inhabited

/-- register output wires -/
structure St where
  active : Nat
  loaded : Nat
  q : Nat
deriving Repr, DecidableEq, Inhabited

/-- values poked on the input wires before the edge -/
structure In where
  ap_start : Nat
  ap_reset : Nat
  ap_done : Nat
  tvalid : Nat
  tdata : Nat
deriving Repr, DecidableEq, Inhabited

/-- the settled combinational wires -/
structure Wires where
  inactive : Nat
  tready : Nat
  handshake : Nat
  ap_start_inactive : Nat
  active_handshake : Nat
  tdata : Nat
  reset_loaded : Nat
  reset_active : Nat
deriving Repr, DecidableEq, Inhabited

def init : St := ⟨0, 0, 0⟩

def comb (c : Cfg) (s : St) (i : In) : Wires :=
  let inactive := not1 1 s.active                                   -- Not(active, inactive)
  let tready := buf 1 s.active                                      -- Buf(active, stream.tready)
  let handshake := and2 1 i.tvalid tready                           -- And2(stream.tvalid, stream.tready, handshake)
  let ap_start_inactive := and2 1 inactive i.ap_start               -- And2(inactive, ap_start, ap_start_inactive)
  let active_handshake := and2 1 s.active handshake                 -- And2(active, handshake, active_handshake)
  let tdata := range c.W i.tdata (c.W - 1) 0                        -- Range(stream.tdata, W-1, 0, tdata)
  let reset_loaded := orN 1 [i.ap_reset, ap_start_inactive, i.ap_done]  -- Or([ap_reset, ap_start_inactive, ap_done])
  let reset_active := or2 1 i.ap_reset i.ap_done                    -- Or2(ap_reset, ap_done, reset_active)
  ⟨inactive, tready, handshake, ap_start_inactive, active_handshake, tdata, reset_loaded, reset_active⟩

def step (c : Cfg) (s : St) (i : In) : St :=
  let w := comb c s i
  { q := regER s.q w.active_handshake w.reset_loaded w.tdata % 2^c.W          -- Reg(d=tdata, q=q, enable=active_handshake, reset=reset_loaded)
    loaded := regER s.loaded w.active_handshake w.reset_loaded w.active_handshake % 2^1   -- Reg(d=active_handshake, q=loaded, …)
    active := regER s.active i.ap_start w.reset_active i.ap_start % 2^1 }     -- Reg(d=ap_start, enable=ap_start, reset=reset_active, q=active)

def combG (c : Cfg) (s : St) (i : In) : Wires :=
  let inactive := notG 1 s.active
  let tready := bufG 1 s.active
  let handshake := and2G 1 i.tvalid tready
  let ap_start_inactive := and2G 1 inactive i.ap_start
  let active_handshake := and2G 1 s.active handshake
  let tdata := rangeG c.W i.tdata (c.W - 1) 0
  let reset_loaded := orNG 1 [i.ap_reset, ap_start_inactive, i.ap_done]
  let reset_active := or2G 1 i.ap_reset i.ap_done
  ⟨inactive, tready, handshake, ap_start_inactive, active_handshake, tdata, reset_loaded, reset_active⟩

def stepG (c : Cfg) (s : St) (i : In) : St :=
  let w := combG c s i
  { q := regERG c.W s.q w.active_handshake w.reset_loaded w.tdata
    loaded := regERG 1 s.loaded w.active_handshake w.reset_loaded w.active_handshake
    active := regERG 1 s.active i.ap_start w.reset_active i.ap_start }



/-- state after the schedule `is` (one entry per `clk(1)`) -/
def run (c : Cfg) (s : St) (is : List In) : St := is.foldl (step c) s
def runG (c : Cfg) (s : St) (is : List In) : St := is.foldl (stepG c) s


/-- port directions created by `addIn/addOut/addInterfaceSink` (base.py:138-171): (name, isInput) in creation order -/
def ports : List (String × Bool) :=
  [("ap_start", true), ("ap_reset", true), ("ap_done", true), ("tvalid", true), ("tdata", true), ("tready", false),
   ("q", false), ("loaded", false), ("active", false)]

end A2R

/-! ## Reg2Axi -/
namespace R2A

/-- `W` = width of reg_in, `DW` = width of stream.tdata, `KW` = width of stream.tkeep (DW/8 in AXI4StreamInterface) -/
structure Cfg where
  W : Nat
  DW : Nat
  KW : Nat
deriving Repr, DecidableEq, Inhabited

structure St where
  active : Nat
  tvalid : Nat
  tdata : Nat
  sent : Nat
deriving Repr, DecidableEq, Inhabited

structure In where
  ap_start : Nat
  ap_reset : Nat
  ap_done : Nat
  load_outs : Nat
  reg_in : Nat
  tready : Nat
deriving Repr, DecidableEq, Inhabited

structure Wires where
  inactive : Nat
  handshake : Nat
  ap_start_inactive : Nat
  active_handshake : Nat
  one : Nat
  reset_tvalid : Nat
  set_tvalid : Nat
  tkeep : Nat
  tlast : Nat
  reset_sent : Nat
  reset_active : Nat
deriving Repr, DecidableEq, Inhabited

def init : St := ⟨0, 0, 0, 0⟩

/-- `n_bytes_valid = math.ceil(W / 8); tkeep_val = (1 << n_bytes_valid) - 1` (constructor arithmetic, lines 264-265) -/
def tkeepVal (W : Nat) : Nat := 2 ^ ((W + 7) / 8) - 1

def comb (c : Cfg) (s : St) (i : In) : Wires :=
  let inactive := not1 1 s.active                                   -- Not(active, inactive)
  let handshake := and2 1 s.tvalid i.tready                         -- And2(stream.tvalid, stream.tready, handshake)
  let ap_start_inactive := and2 1 inactive i.ap_start               -- And2(inactive, ap_start, ap_start_inactive)
  let active_handshake := and2 1 s.active handshake                 -- And2(active, handshake, active_handshake)
  let one := const 1 1                                              -- Constant(1, one_bit)
  let reset_tvalid := orN 1 [i.ap_reset, active_handshake]          -- Or([ap_reset, active_handshake], reset_tvalid)
  let set_tvalid := and2 1 i.load_outs s.active                     -- And2(load_outs, active, set_tvalid)
  let tkeep := const c.KW (tkeepVal c.W)                            -- Constant(tkeep_val, stream.tkeep)
  let tlast := buf 1 s.tvalid                                       -- Buf(stream.tvalid, stream.tlast)
  let reset_sent := orN 1 [i.ap_reset, ap_start_inactive, i.ap_done]    -- Or([ap_reset, ap_start_inactive, ap_done])
  let reset_active := or2 1 i.ap_reset i.ap_done                    -- Or2(ap_reset, ap_done, reset_active)
  ⟨inactive, handshake, ap_start_inactive, active_handshake, one, reset_tvalid, set_tvalid, tkeep, tlast, reset_sent,
   reset_active⟩

def step (c : Cfg) (s : St) (i : In) : St :=
  let w := comb c s i
  { tvalid := regER s.tvalid w.set_tvalid w.reset_tvalid w.set_tvalid % 2^1    -- Reg(d=set_tvalid, q=stream.tvalid, enable=set_tvalid, reset=reset_tvalid)
    tdata := regE s.tdata w.set_tvalid i.reg_in % 2^c.DW                       -- Reg(d=reg_in, enable=set_tvalid, q=stream.tdata)
    sent := regER s.sent w.active_handshake w.reset_sent w.active_handshake % 2^1  -- Reg(d=active_handshake, enable=active_handshake, reset=reset_sent, q=sent)
    active := regER s.active i.ap_start w.reset_active i.ap_start % 2^1 }      -- Reg(d=ap_start, enable=ap_start, reset=reset_active, q=active)

def combG (c : Cfg) (s : St) (i : In) : Wires :=
  let inactive := notG 1 s.active
  let handshake := and2G 1 s.tvalid i.tready
  let ap_start_inactive := and2G 1 inactive i.ap_start
  let active_handshake := and2G 1 s.active handshake
  let one := constG 1 1
  let reset_tvalid := orNG 1 [i.ap_reset, active_handshake]
  let set_tvalid := and2G 1 i.load_outs s.active
  let tkeep := constG c.KW (tkeepVal c.W)
  let tlast := bufG 1 s.tvalid
  let reset_sent := orNG 1 [i.ap_reset, ap_start_inactive, i.ap_done]
  let reset_active := or2G 1 i.ap_reset i.ap_done
  ⟨inactive, handshake, ap_start_inactive, active_handshake, one, reset_tvalid, set_tvalid, tkeep, tlast, reset_sent,
   reset_active⟩

def stepG (c : Cfg) (s : St) (i : In) : St :=
  let w := combG c s i
  { tvalid := regERG 1 s.tvalid w.set_tvalid w.reset_tvalid w.set_tvalid
    tdata := regEG c.DW s.tdata w.set_tvalid i.reg_in
    sent := regERG 1 s.sent w.active_handshake w.reset_sent w.active_handshake
    active := regERG 1 s.active i.ap_start w.reset_active i.ap_start }



def run (c : Cfg) (s : St) (is : List In) : St := is.foldl (step c) s
def runG (c : Cfg) (s : St) (is : List In) : St := is.foldl (stepG c) s


/-- port directions created by `addIn/addOut/addInterfaceSource` (base.py:102-136); stream with tlast and tkeep -/
def ports : List (String × Bool) :=
  [("ap_start", true), ("ap_reset", true), ("ap_done", true), ("load_outs", true), ("reg_in", true),
   ("tvalid", false), ("tdata", false), ("tlast", false), ("tkeep", false), ("tready", true),
   ("sent", false), ("active", false)]

end R2A
end Axi
