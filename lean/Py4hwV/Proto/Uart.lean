import Py4hwV.Core.Bits
import Py4hwV.Gen.Fsm
/-
  C17 — executable model of the UART link of py4hw (core Lean only; run by Drv/C17.lean).

    py4hw/logic/clock.py                 ClockDivider (ModuloCounter + TReg), EdgeDetector      -> `Div`, `edge*`  (hand model, T2)
    py4hw/logic/protocol/uart/clock.py   ClockSyncFSM (generated), ClockGenerationAndRecovery   -> `Cgr`
    py4hw/logic/protocol/uart/serdes.py  UARTSerializer / UARTDeserializer (generated)          -> `Ser`, `Des`
    closed loop (tx wired to rx)                                                                 -> `Link`
    independent software receiver                                                                -> `SoftRx`

  One `step` = one simulator clock edge: every clocked element reads the wire values of the current cycle,
  prepared values become visible afterwards, combinational wires are functions of the new state.
  Wire values are `Nat`; a generated FSM's output `some v` is stored through the wire mask (`Bits.put w v`), `none` = wire holds.
-/
namespace Uart

/-- value of a wire of width `w` after a clocked block's call: `none` = not prepared, holds -/
def wr (w : Nat) (old : Nat) : Option Int → Nat
  | none => old
  | some v => Bits.put w v

/-- 1-bit gates (And2 / Not on 1-bit wires) -/
def and1 (a b : Nat) : Nat := if a = 1 ∧ b = 1 then 1 else 0
def not1 (a : Nat) : Nat := if a = 0 then 1 else 0
def or1 (a b : Nat) : Nat := if a = 0 ∧ b = 0 then 0 else 1

/-! ### ClockDivider(freq_in, freq_out, clkout, reset) with n = int(freq_in / (2*freq_out)) ≥ 1
    ModuloCounter(mod = n, inc = 1, reset, q : log2 n + 1 bits, carryout = t) ; TReg(t, enable = 1, reset) -/
structure Div where
  q : Nat
  clk : Nat
deriving Repr, DecidableEq, Inhabited

def Div.init : Div := ⟨0, 0⟩
/-- EqualConstant(q, n-1) -/
def Div.carry (n : Nat) (s : Div) : Nat := if s.q = n - 1 then 1 else 0
def Div.step (n : Nat) (reset : Nat) (s : Div) : Div :=
  let t := s.carry n
  let anyreset := or1 reset t                              -- Or2(reset, carryout)
  let add := (s.q + 1) % 2 ^ (Nat.log2 n + 1)               -- Add(q, one) on the q width
  let d := if anyreset = 1 then 0 else add                 -- Mux2(inc=1, q, add) ; Mux2(anyreset, d1, zero)
  let dT := if t = 1 then not1 s.clk else s.clk            -- TReg: Mux2(t, q, nq)
  { q := d, clk := if reset = 1 then 0 else dT }           -- Reg(enable = 1) ; Reg(enable = 1, reset)

/-! ### EdgeDetector(a, r, direction): Reg z1 := a ; r combinational -/
def edgePos (a z1 : Nat) : Nat := and1 a (not1 z1)
def edgeNeg (a z1 : Nat) : Nat := and1 (not1 a) z1
def edgeBoth (a z1 : Nat) : Nat := if a = z1 then 0 else 1

/-! ### UARTSerializer (generated step) with its two output wires -/
structure Ser where
  st : Gen.UARTSerializer.St
  tx : Nat
  ready : Nat
deriving Repr, DecidableEq, Inhabited

def Ser.init : Ser := ⟨Gen.UARTSerializer.init, 0, 0⟩
def Ser.step (s : Ser) (valid v pulse : Nat) : Ser :=
  let r := Gen.UARTSerializer.step ⟨⟩ s.st ⟨valid, v, pulse⟩ ⟨⟩
  { st := r.1, tx := wr 1 s.tx r.2.tx, ready := wr 1 s.ready r.2.ready }

/-! ### transmit side: free-running divider, positive-edge detector, serializer -/
structure TxSide where
  div : Div
  zPos : Nat
  ser : Ser
deriving Repr, DecidableEq, Inhabited

def TxSide.init : TxSide := ⟨Div.init, 0, Ser.init⟩
def TxSide.pulse (s : TxSide) : Nat := edgePos s.div.clk s.zPos
def TxSide.step (n : Nat) (s : TxSide) (valid v : Nat) : TxSide :=
  { div := s.div.step n 0, zPos := s.div.clk, ser := s.ser.step valid v s.pulse }

/-! ### UARTDeserializer (generated step) with its three output wires -/
structure Des where
  st : Gen.UARTDeserializer.St
  desync : Nat
  v : Nat
  valid : Nat
deriving Repr, DecidableEq, Inhabited

def Des.init : Des := ⟨Gen.UARTDeserializer.init, 0, 0, 0⟩
def Des.step (s : Des) (rx sample ready : Nat) : Des :=
  let r := Gen.UARTDeserializer.step ⟨⟩ s.st ⟨sample, rx, ready⟩ ⟨⟩
  { st := r.1, desync := wr 1 s.desync r.2.clock_desync, v := wr 8 s.v r.2.v, valid := wr 1 s.valid r.2.valid }

/-! ### receive side of ClockGenerationAndRecovery + deserializer -/
structure RxSide where
  div : Div                          -- sync_uart_clk divider, reset = start
  zRx : Nat                          -- EdgeDetector 'rx_neg'
  zSmp : Nat                         -- EdgeDetector 'sample'
  fsm : Gen.ClockSyncFSM.St
  sync : Nat
  active : Nat
  des : Des
deriving Repr, DecidableEq, Inhabited

def RxSide.init : RxSide := ⟨Div.init, 0, 0, Gen.ClockSyncFSM.init, 0, 0, Des.init⟩
def RxSide.rxNeg (s : RxSide) (rx : Nat) : Nat := edgeNeg rx s.zRx
def RxSide.start (s : RxSide) (rx : Nat) : Nat := and1 (s.rxNeg rx) (not1 s.active)
def RxSide.preSample (s : RxSide) : Nat := edgePos s.div.clk s.zSmp
def RxSide.sample (s : RxSide) : Nat := and1 s.preSample s.active
def RxSide.step (n : Nat) (s : RxSide) (rx ready : Nat) : RxSide :=
  let start := s.start rx
  let r := Gen.ClockSyncFSM.step ⟨⟩ s.fsm ⟨start, s.des.desync⟩ ⟨⟩
  { div := s.div.step n start, zRx := rx, zSmp := s.div.clk,
    fsm := r.1, sync := wr 1 s.sync r.2.sync, active := wr 1 s.active r.2.active,
    des := s.des.step rx s.sample ready }

/-! ### the closed loop: serializer's tx wire is the rx wire -/
structure Link where
  tx : TxSide
  rx : RxSide
deriving Repr, DecidableEq, Inhabited

/-- inputs of one cycle: producer's valid / v, consumer's ready -/
structure LIn where
  valid : Nat
  v : Nat
  ready : Nat
deriving Repr, DecidableEq, Inhabited

def Link.init : Link := ⟨TxSide.init, RxSide.init⟩
def Link.line (s : Link) : Nat := s.tx.ser.tx
def Link.step (n : Nat) (s : Link) (i : LIn) : Link :=
  { tx := s.tx.step n i.valid i.v, rx := s.rx.step n s.line i.ready }

/-- a byte is accepted by the serializer's port in a cycle where ready (wire) and valid (input) are both 1 -/
def TxSide.accept (s : TxSide) (valid v : Nat) : Option Nat :=
  if s.ser.ready = 1 ∧ valid ≠ 0 then some v else none
/-- a byte is handed over on the deserializer's port in a cycle where valid (wire) and ready (input) are both 1 -/
def RxSide.deliver (s : RxSide) (ready : Nat) : Option Nat :=
  if s.des.valid = 1 ∧ ready ≠ 0 then some s.des.v else none

def optCons (o : Option Nat) (l : List Nat) : List Nat := match o with | some b => b :: l | none => l

/-- line values after each clock -/
def TxSide.trace (n : Nat) : TxSide → List (Nat × Nat) → List Nat
  | _, [] => []
  | s, (valid, v) :: is => (s.step n valid v).ser.tx :: TxSide.trace n (s.step n valid v) is
/-- bytes accepted during the run -/
def TxSide.accepted (n : Nat) : TxSide → List (Nat × Nat) → List Nat
  | _, [] => []
  | s, (valid, v) :: is => optCons (s.accept valid v) (TxSide.accepted n (s.step n valid v) is)
def TxSide.run (n : Nat) : TxSide → List (Nat × Nat) → TxSide
  | s, [] => s
  | s, (valid, v) :: is => TxSide.run n (s.step n valid v) is

def Link.run (n : Nat) : Link → List LIn → Link
  | s, [] => s
  | s, i :: is => Link.run n (s.step n i) is
def Link.trace (n : Nat) : Link → List LIn → List Nat
  | _, [] => []
  | s, i :: is => (s.step n i).line :: Link.trace n (s.step n i) is
def Link.accepted (n : Nat) : Link → List LIn → List Nat
  | _, [] => []
  | s, i :: is => optCons (s.tx.accept i.valid i.v) (Link.accepted n (s.step n i) is)
def Link.delivered (n : Nat) : Link → List LIn → List Nat
  | _, [] => []
  | s, i :: is => optCons (s.rx.deliver i.ready) (Link.delivered n (s.step n i) is)

/-! ### independent software receiver: wait for a falling edge, sample at P/2 + k·P -/
structure SoftRx where
  prev : Nat := 0          -- last sample (0 at start: a high level must be seen before a falling edge counts)
  busy : Bool := false
  timer : Nat := 0         -- cycles to skip before the next sampling cycle
  idx : Nat := 0           -- 0 start bit, 1..8 data bits, 9 stop bit
  acc : Nat := 0
deriving Repr, DecidableEq, Inhabited

/-- idle receiver that has last seen level `x` -/
def SoftRx.idle (x : Nat) : SoftRx := { prev := x }

def SoftRx.step (P : Nat) (s : SoftRx) (x : Nat) : SoftRx × Option Nat :=
  if s.busy then
    if s.timer = 0 then
      if s.idx = 0 then
        if x = 0 then ({ s with prev := x, timer := P - 1, idx := 1, acc := 0 }, none)
        else (SoftRx.idle x, none)                                             -- glitch, not a start bit
      else if s.idx ≤ 8 then
        ({ s with prev := x, timer := P - 1, idx := s.idx + 1, acc := s.acc + (x % 2) * 2 ^ (s.idx - 1) }, none)
      else
        (SoftRx.idle x, if x = 1 then some s.acc else none)                    -- stop bit must be high
    else ({ s with prev := x, timer := s.timer - 1 }, none)
  else if s.prev = 1 ∧ x = 0 then
    ({ prev := x, busy := true, timer := P / 2 - 1, idx := 0, acc := 0 }, none)
  else (SoftRx.idle x, none)

def SoftRx.run (P : Nat) : SoftRx → List Nat → List Nat
  | _, [] => []
  | s, x :: xs => optCons (s.step P x).2 (SoftRx.run P (s.step P x).1 xs)
def SoftRx.final (P : Nat) : SoftRx → List Nat → SoftRx
  | s, [] => s
  | s, x :: xs => SoftRx.final P (s.step P x).1 xs

/-- bytes recovered from a line trace by the software receiver with bit period `P` -/
def softRx (P : Nat) (line : List Nat) : List Nat := SoftRx.run P {} line

/-! ### the consumer-keeps-up predicate (hypothesis of the delivery theorems = complement of the known finding's class) -/
/-- frame-end event in the current cycle of the deserializer: 10th sample (count = 8) in state 2 latches `temp` into v -/
def feOfDes (d : Des) (sample : Nat) : Option Nat :=
  if d.st.state = 2 ∧ sample ≠ 0 ∧ d.st.count = 8 then some ((d.st.temp % 256).toNat) else none

/-- per cycle of a closed-loop run: (byte latched by the receive FSM in this cycle, if any ; consumer's ready) -/
def rxEvents (n : Nat) : Link → List LIn → List (Option Nat × Nat)
  | _, [] => []
  | s, i :: is => (feOfDes s.rx.des s.rx.sample, i.ready) :: rxEvents n (s.step n i) is

/-- the consumer keeps up.  `c` = ready cycles seen since the last frame end (counting the frame-end cycle itself), saturating
    at 2: the first raises `valid`, the second is the transfer.  At every frame end the previous byte must be gone (c = 2) or be
    taken in exactly that cycle (c = 1 and ready high: `valid` and the old value are still on the port in that cycle — the last
    possible moment); at the end of the observation c = 2.  This is EXACT for the unchanged code: whenever it is violated a byte
    is lost (c = 0: pending byte overwritten before it was announced; c = 1 without ready: announced byte overwritten). -/
def keepsUp : Nat → List (Option Nat × Nat) → Bool
  | c, [] => c == 2
  | c, (some _, r) :: es => (c == 2 || (c == 1 && r != 0)) && keepsUp (if r ≠ 0 then 1 else 0) es
  | c, (none, r) :: es => keepsUp (if r ≠ 0 then min 2 (c + 1) else c) es

/-- the property's oracle on observed lists (after the line has drained): everything accepted was delivered,
    unchanged, in order, exactly once; and the software receiver recovered the same bytes from the line -/
def deliveredOk (accepted delivered : List Nat) : Bool := delivered == accepted
def lineOk (P : Nat) (accepted line : List Nat) : Bool := softRx P line == accepted

end Uart
