import Py4hwV.Proto.AxiSpec
import Py4hwV.Gen.Fsm
/-
  C16 model, part 2 — `Axi2Clk` (vitiswrapping.py:133-196): the stream adapter whose transferred beat is a NUMBER OF CLOCK
  PULSES.  Structural gating (same And2/Not/Buf/Or2/Reg as Axi2Reg) around the clocked leaf `Axi2ClkFSM` (lines 92-131):
      IDLE(0) --active_handshake: latch target := TDATA--> RUNNING_LOW(1) --count+1, clk_out=1--> RUNNING_HIGH(2)
      --clk_out=0; count == target ? END(3) : RUNNING_LOW--> … END --load_outs=1, count := 0--> IDLE (no handshake: count := 0, clk_out := 0)
  `clk_count` is a wire of the block (CW = 64 bits) that the FSM both writes and reads: it is part of the state here.
  `step`  : Nat-level reference;  `stepG` : the same cycle through `Gen.Axi2ClkFSM.step`, GENERATED from `Axi2ClkFSM.clock`
  (bridge `Axi.Clk.stepG_eq_step` in Proofs/C16Clk.lean).  Definitions only.

  Specification (`Spec.Clk`): a monitor that only sees the inputs and the outputs clk_out / load_outs / active / tready:
  a beat of value T (1 ≤ T < 2^CW) accepted while the adapter is idle is followed by EXACTLY T pulses on clk_out
  (1,0 × T), then one load_outs pulse — whatever TDATA / TVALID / start / reset / done do after the handshake.
-/
namespace Axi
namespace Clk

structure Cfg where
  CW : Nat          -- width of the clk_count wire (64 in Axi2Clk)
deriving Repr, DecidableEq, Inhabited

structure St where
  active : Nat      -- Reg 'active' output
  state : Nat       -- Axi2ClkFSM.state
  target : Nat      -- Axi2ClkFSM.target
  count : Nat       -- wire clk_count
  clk_out : Nat
  load_outs : Nat
deriving Repr, DecidableEq, Inhabited

structure In where
  ap_start : Nat
  ap_reset : Nat
  ap_done : Nat
  tvalid : Nat
  tdata : Nat
deriving Repr, DecidableEq, Inhabited

def init : St := ⟨0, 0, 0, 0, 0, 0⟩

/-- And2(active, And2(stream.tvalid, Buf(active))) -/
def activeHandshake (s : St) (i : In) : Nat := and2 1 s.active (and2 1 i.tvalid (buf 1 s.active))

def step (c : Cfg) (s : St) (i : In) : St :=
  let ah := activeHandshake s i
  let active' := regER s.active i.ap_start (or2 1 i.ap_reset i.ap_done) i.ap_start % 2^1
  if s.state = 0 then                                   -- IDLE: load_outs.prepare(0)
    if ah ≠ 0 then { s with active := active', load_outs := 0, state := 1, target := i.tdata }
    else { s with active := active', load_outs := 0, count := 0, clk_out := 0 }
  else if s.state = 1 then                              -- RUNNING_LOW
    { s with active := active', state := 2, count := (s.count + 1) % 2^c.CW, clk_out := 1 }
  else if s.state = 2 then                              -- RUNNING_HIGH
    { s with active := active', clk_out := 0, state := if s.count = s.target then 3 else 1 }
  else if s.state = 3 then                              -- END
    { s with active := active', load_outs := 1, count := 0, state := 0 }     -- clk_count.prepare(0): fix bcd06db
  else { s with active := active' }

def upd (w : Nat) (old : Nat) (o : Option Int) : Nat := match o with | some v => Bits.put w v | none => old

def stepG (c : Cfg) (s : St) (i : In) : St :=
  let ah := and2G 1 s.active (and2G 1 i.tvalid (bufG 1 s.active))
  let r := Gen.Axi2ClkFSM.step ⟨⟩ ⟨s.state, s.target⟩ ⟨ah, i.tdata, s.count⟩ ⟨⟩
  { active := regERG 1 s.active i.ap_start (or2G 1 i.ap_reset i.ap_done) i.ap_start
    state := r.1.state.toNat, target := r.1.target.toNat
    count := upd c.CW s.count r.2.clk_count, clk_out := upd 1 s.clk_out r.2.clk_out
    load_outs := upd 1 s.load_outs r.2.load_outs }

def run (c : Cfg) (s : St) (is : List In) : St := is.foldl (step c) s

/-- (clk_out, load_outs) after each cycle -/
def outs (c : Cfg) : St → List In → List (Nat × Nat)
  | _, [] => []
  | s, i :: is => ((step c s i).clk_out, (step c s i).load_outs) :: outs c (step c s i) is

def ports : List (String × Bool) :=
  [("ap_start", true), ("ap_reset", true), ("ap_done", true), ("tvalid", true), ("tdata", true), ("tready", false),
   ("clk_out", false), ("load_outs", false), ("active", false)]
end Clk

namespace Spec
namespace Clk
open Axi.Clk (In)

structure Obs where
  clk_out : Nat
  load_outs : Nat
  active : Nat
  tready : Nat
deriving Repr, DecidableEq, Inhabited

inductive Phase where
  | idle                     -- waiting for a beat
  | high (T k : Nat)         -- k pulses done, the next cycle raises clk_out
  | low (T k : Nat)          -- k pulses started, the next cycle lowers clk_out
  | fin                      -- all T pulses done, the next cycle pulses load_outs
  | unknown                  -- the monitor does not predict (beat value 0 or ≥ 2^CW) until the next load_outs pulse
deriving Repr, DecidableEq, Inhabited

structure Mon where
  phase : Phase
deriving Repr, DecidableEq, Inhabited

def Mon.init : Mon := ⟨.idle⟩

def accept (o : Obs) (i : In) : Bool := i.tvalid == 1 && o.tready == 1
def activeNext (o : Obs) (i : In) : Nat :=
  if i.ap_reset == 1 || i.ap_done == 1 then 0 else if i.ap_start == 1 then 1 else o.active

/-- expected (clk_out, load_outs) after the edge, when the monitor predicts -/
def expect (m : Mon) : Option (Nat × Nat) :=
  match m.phase with
  | .idle => some (0, 0)
  | .high _ _ => some (1, 0)
  | .low _ _ => some (0, 0)
  | .fin => some (0, 1)
  | .unknown => none

/-- the adapter is in the middle of a run -/
def busy (m : Mon) : Bool :=
  match m.phase with
  | .high _ _ => true
  | .low _ _ => true
  | .fin => true
  | _ => false

/-- every beat accepted while idle starts a run — also the one accepted in the cycle right after a load_outs pulse
    (since fix bcd06db the END state clears the counter) -/
def monStep (CW : Nat) (m : Mon) (o : Obs) (i : In) (o' : Obs) : Mon :=
  match m.phase with
  | .idle =>
    if accept o i then
      if 1 ≤ i.tdata && i.tdata < 2^CW then ⟨.high i.tdata 0⟩ else ⟨.unknown⟩
    else ⟨.idle⟩
  | .high T k => ⟨.low T (k + 1)⟩
  | .low T k => if k = T then ⟨.fin⟩ else ⟨.high T k⟩
  | .fin => ⟨.idle⟩
  | .unknown => if o'.load_outs == 1 then ⟨.idle⟩ else ⟨.unknown⟩

/-- `strict`: additionally, no beat may be ACCEPTED (VALID ∧ READY) while a run is in progress — such a beat is lost.  The
    code keeps READY = active during the count (finding C16-axi2clk-accepts-while-counting); the tolerant mode does not judge it. -/
def clauses (strict : Bool) (m : Mon) (o : Obs) (i : In) (o' : Obs) : List (String × Bool) :=
  [ ("ready_iff_active", o.tready == o.active && o'.tready == o'.active),
    ("active_rule", o'.active == activeNext o i),
    ("clk_out_follows_accepted_beat", match expect m with | some e => o'.clk_out == e.1 | none => true),
    ("load_outs_after_last_pulse", match expect m with | some e => o'.load_outs == e.2 | none => true),
    ("accepted_beat_is_counted", !(strict && accept o i && busy m)) ]

def checkFrom (strict : Bool) (CW : Nat) (m : Mon) (o : Obs) (t : Nat) : List (In × Obs) → Verdict
  | [] => .ok
  | (i, o') :: rest =>
    match firstFail (clauses strict m o i o') with
    | some cl => .fail t cl false
    | none => checkFrom strict CW (monStep CW m o i o') o' (t + 1) rest

def check (strict : Bool) (CW : Nat) (o0 : Obs) (tr : List (In × Obs)) : Verdict := checkFrom strict CW Mon.init o0 0 tr

/-- the output train of one run: T pulses, then the load_outs pulse — as (clk_out, load_outs) per cycle -/
def pulseTrain : Nat → List (Nat × Nat)
  | 0 => [(0, 1)]
  | n + 1 => (1, 0) :: (0, 0) :: pulseTrain n

end Clk
end Spec

namespace Clk
def obs (s : St) : Spec.Clk.Obs :=
  { clk_out := s.clk_out, load_outs := s.load_outs, active := s.active, tready := buf 1 s.active }
def trace (c : Cfg) (s : St) : List In → List (In × Spec.Clk.Obs)
  | [] => []
  | i :: is => (i, obs (step c s i)) :: trace c (step c s i) is
def traceG (c : Cfg) (s : St) : List In → List (In × Spec.Clk.Obs)
  | [] => []
  | i :: is => (i, obs (stepG c s i)) :: traceG c (stepG c s i) is
end Clk
end Axi
