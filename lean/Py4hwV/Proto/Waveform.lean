/-
  Model of `class Waveform` (py4hw/logic/simulation.py), wires and ports only (FieldInspector / ValueFormatter
  entries are outside property C15 and are not modelled).

  The definitions follow the Python text statement by statement:
    init          Waveform.__init__      (de-duplication of the watch list, `format` per entry)
    clock         Waveform.clock         (one `append(w.get())` per UNIQUE wire)
    clear         Waveform.clear
    getDict       Waveform.getDict
    getWavedrom   Waveform.get_wavedrom  (loop with `wavedata`, `wavedatadata`, `last`, leaked `numclks`)
  plus the decoder of the rendering (`decodeWave`), which is the WaveDrom reading of a `wave` string restricted to
  the characters this emitter can produce.

  Wires are identified by natural numbers (object identity in Python: `Wire` has no `__eq__`).
  Strings are `List Char`.
-/
namespace Waveform

abbrev Val := Nat → Nat            -- current `Wire.value` of every wire

/-! ### python dict keyed by wire, in insertion order -/

abbrev Dict := List (Nat × List Nat)

def dictHas (d : Dict) (k : Nat) : Bool := d.any (fun p => p.1 == k)

def dictGet? : Dict → Nat → Option (List Nat)
  | [], _ => none
  | (k', l) :: d, k => if k' = k then some l else dictGet? d k

/-- `d[k] = l` -/
def dictSet : Dict → Nat → List Nat → Dict
  | [], k, l => [(k, l)]
  | (k', l') :: d, k, l => if k' = k then (k', l) :: d else (k', l') :: dictSet d k l

/-- `d[k].append(x)` (KeyError is reported separately by `clockRaises`) -/
def dictAppend : Dict → Nat → Nat → Dict
  | [], _, _ => []
  | (k', l') :: d, k, x => if k' = k then (k', l' ++ [x]) :: d else (k', l') :: dictAppend d k x

/-! ### the watch list -/

/-- one element of the constructor argument `wires`: a `Wire` (its id), or an `InPort`/`OutPort` together with its
    `.wire` attribute (`none` = unconnected port → the constructor raises) -/
inductive Obj where
  | wire (w : Nat)
  | port (w : Option Nat)
deriving Repr, DecidableEq

structure Entry where
  obj   : Obj
  full  : List Char := []     -- obj.getFullPath()
  short : List Char := []     -- obj.name
deriving Repr, DecidableEq

/-- `Waveform.getwire(x)` -/
def Entry.wire? (e : Entry) : Option Nat :=
  match e.obj with
  | .wire w => some w
  | .port w => w

/-- `self.format` entries: `''` for 1-bit wires, `'{:X}'` otherwise -/
inductive Fmt where
  | bit
  | hex
deriving Repr, DecidableEq

structure Wf where
  name   : List Char
  wires  : List Entry        -- self.wires (all elements of the input list, repetitions included)
  format : List Fmt          -- self.format
  uniq   : List Nat          -- self.uniqueWires
  data   : Dict              -- self.data
deriving Repr

/-- body of the constructor loop `for x in self.wires` -/
def initStep (width : Nat → Nat) (acc : Wf) (x : Entry) : Option Wf :=
  match x.wire? with
  | none => none                                   -- raise Exception('Wire is null for port')
  | some w =>
    let acc1 : Wf :=
      if ¬ (w ∈ acc.uniq) then
        { acc with uniq := acc.uniq ++ [w], data := dictSet acc.data w [] }
      else acc
    some { acc1 with format := acc1.format ++ [if width w = 1 then Fmt.bit else Fmt.hex] }

def initLoop (width : Nat → Nat) : Wf → List Entry → Option Wf
  | acc, [] => some acc
  | acc, x :: xs => match initStep width acc x with
                    | none => none
                    | some acc' => initLoop width acc' xs

/-- `Waveform.__init__(parent, name, wires)`; `none` = the constructor raises -/
def init (width : Nat → Nat) (name : List Char) (wires : List Entry) : Option Wf :=
  if wires.length > 0 then
    initLoop width { name := name, wires := wires, format := [], uniq := [], data := [] } wires
  else none                                          -- assert(len(wires) > 0)

/-! ### capture -/

/-- `for x in self.uniqueWires: self.data[w].append(w.get())` -/
def clockData (uniq : List Nat) (v : Val) (d : Dict) : Dict :=
  uniq.foldl (fun d w => dictAppend d w (v w)) d

def clock (wf : Wf) (v : Val) : Wf := { wf with data := clockData wf.uniq v wf.data }

/-- the `raise Exception('Wire … not in data list')` guard of `clock` -/
def clockRaises (wf : Wf) : Bool := wf.uniq.any (fun w => !dictHas wf.data w)

/-- `for key in self.data.keys(): self.data[key] = []` -/
def clearData (d : Dict) : Dict := d.map (fun p => (p.1, []))

def clear (wf : Wf) : Wf := { wf with data := clearData wf.data }

def getDict (wf : Wf) : Dict := wf.data

/-- samples recorded for a wire (`self.data[w]`, `[]` standing for KeyError — see `renderRaises`) -/
def samples (wf : Wf) (w : Nat) : List Nat := (dictGet? wf.data w).getD []

/-! ### number formatting -/

def hexDigit (d : Nat) : Char := if d < 10 then Char.ofNat (48 + d) else Char.ofNat (55 + d)

def hexUpperF : Nat → Nat → List Char
  | 0, _ => []
  | f + 1, n => if n < 16 then [hexDigit n] else hexUpperF f (n / 16) ++ [hexDigit (n % 16)]

/-- `'{:X}'.format(n)` for n ≥ 0 -/
def hexUpper (n : Nat) : List Char := hexUpperF (n + 1) n

def decDigit (d : Nat) : Char := Char.ofNat (48 + d)

def decStrF : Nat → Nat → List Char
  | 0, _ => []
  | f + 1, n => if n < 10 then [decDigit n] else decStrF f (n / 10) ++ [decDigit (n % 10)]

/-- `'{}'.format(n)` for n ≥ 0 -/
def decStr (n : Nat) : List Char := decStrF (n + 1) n

/-- `fmt.format(v)` -/
def Fmt.format : Fmt → Nat → List Char
  | .bit, _ => []            -- ''.format(v) = ''
  | .hex, v => hexUpper v

/-! ### get_wavedrom -/

/-- loop variables `wavedata`, `wavedatadata`, `last` (`none` = the initial `'x'`, different from every int) -/
structure Enc where
  wave   : List Char
  labels : List (List Char)
  last   : Option Nat
deriving Repr, DecidableEq

/-- body of `for i in range(numclks): v = data[i] …` -/
def encStep (ww : Nat) (fmt : Fmt) (st : Enc) (v : Nat) : Enc :=
  if some v ≠ st.last then
    if ww = 1 then
      { wave := st.wave ++ decStr v, labels := st.labels, last := some v }
    else
      { wave := st.wave ++ ['2'], labels := st.labels ++ [fmt.format v], last := some v }
  else
    { wave := st.wave ++ ['.'], labels := st.labels, last := some v }

def encLoop (ww : Nat) (fmt : Fmt) (data : List Nat) : Enc :=
  data.foldl (encStep ww fmt) { wave := ['x'], labels := [], last := none }

structure Row where
  name : List Char
  wave : List Char
  data : List (List Char)
deriving Repr, DecidableEq

/-- one iteration of `for idx, obj in enumerate(self.wires)`: the row and the value left in `numclks` -/
def renderRow (width : Nat → Nat) (wf : Wf) (shortNames : Bool) (obj : Entry) (fmt : Fmt) : Row × Nat :=
  let w := obj.wire?.getD 0
  let ww := width w
  let data := samples wf w
  let st := encLoop ww fmt data
  ({ name := if shortNames then obj.short else obj.full, wave := st.wave ++ ['x'], data := st.labels }, data.length)

structure Wavedrom where
  clk  : Row                 -- signals[0]
  rows : List Row            -- signals[1:]
  text : List Char           -- head.text      (head.tock = 0)
deriving Repr, DecidableEq

/-- `Waveform.get_wavedrom(shortNames)` -/
def getWavedrom (width : Nat → Nat) (wf : Wf) (shortNames : Bool := false) : Wavedrom :=
  let rs := (wf.wires.zip wf.format).map (fun p => renderRow width wf shortNames p.1 p.2)
  let numclks := (rs.getLast?.map (·.2)).getD 0        -- the loop variable `numclks` after the last iteration
  { clk := { name := "clk".toList, wave := 'P' :: (List.replicate numclks '.' ++ ['x']), data := [] },
    rows := rs.map (·.1), text := wf.name }

/-- `self.data[w]` / `self.format[idx]` would raise in `get_wavedrom` -/
def renderRaises (wf : Wf) : Bool :=
  wf.format.length < wf.wires.length ||
  wf.wires.any (fun e => match e.wire? with | some w => !dictHas wf.data w | none => true)

/-! ### decoder (WaveDrom reading of the emitted alphabet) -/

def hexVal (c : Char) : Option Nat :=
  let n := c.toNat
  if 48 ≤ n ∧ n ≤ 57 then some (n - 48)
  else if 65 ≤ n ∧ n ≤ 70 then some (n - 55)
  else none

def parseHexAux : List Char → Nat → Option Nat
  | [], acc => some acc
  | c :: cs, acc => match hexVal c with
                    | some d => parseHexAux cs (acc * 16 + d)
                    | none => none

def parseHex (s : List Char) : Option Nat := if s = [] then none else parseHexAux s 0

/-- reads the cycles between the framing characters.
    '.'  : the previous value continues (illegal as first character)
    1-bit wire : '0' / '1' are the levels
    wider wire : '2' is a data cycle whose value is the next label, parsed in the display format (upper-case hex)
    every label must be consumed. -/
def decodeBody (ww : Nat) : List Char → List (List Char) → Option Nat → Option (List Nat)
  | [], [], _ => some []
  | [], _ :: _, _ => none
  | c :: cs, ls, last =>
    if c = '.' then
      match last with
      | some v => (decodeBody ww cs ls (some v)).map (v :: ·)
      | none => none
    else if ww = 1 then
      if c = '0' then (decodeBody ww cs ls (some 0)).map (0 :: ·)
      else if c = '1' then (decodeBody ww cs ls (some 1)).map (1 :: ·)
      else none
    else if c = '2' then
      match ls with
      | l :: ls' => match parseHex l with
                    | some v => (decodeBody ww cs ls' (some v)).map (v :: ·)
                    | none => none
      | [] => none
    else none

/-- a signal row `x<body>x` + its data labels ↦ the sample sequence -/
def decodeWave (ww : Nat) (wave : List Char) (labels : List (List Char)) : Option (List Nat) :=
  match wave with
  | 'x' :: rest =>
    if rest.getLast? = some 'x' then decodeBody ww rest.dropLast labels none else none
  | _ => none

/-- the clock row `P` `.`* `x` ↦ number of cycles -/
def decodeClk (wave : List Char) : Option Nat :=
  match wave with
  | 'P' :: rest =>
    if rest.getLast? = some 'x' ∧ rest.dropLast.all (· = '.') then some rest.dropLast.length else none
  | _ => none

/-! ### user-level runs -/

inductive Op where
  | clock (v : Val)        -- one simulated cycle, `v` = the wire values going into the edge
  | clear

def applyOp (wf : Wf) : Op → Wf
  | .clock v => clock wf v
  | .clear => clear wf

def run (wf : Wf) (ops : List Op) : Wf := ops.foldl applyOp wf

end Waveform
