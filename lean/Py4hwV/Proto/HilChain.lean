import Py4hwV.Proto.Hil
import Py4hwV.Gen.Leaves
/-
  C20 — sessions and the closed HIL chain (py4hw/emulation/HILWrapperUART.py, createHILUART wiring).

  * sessions: the response encoder under an ARBITRARY input sequence (start pulses at any time, also while a response
    is in flight), observed cycle by cycle, and the specification MONITOR that says which start pulses must be
    answered: exactly those that arrive while nothing is owed any more (`pend = []`), each with the complete string
    '=' digits '!' within `2·size+4` ready cycles; every other start pulse is ignored; no other character ever.
  * chain: CMDRequest → `Reg(d=index_out, enable=set_index_out, q=index_out_r)` → output table (the Mux pair
    `resp_v` / `resp_size` selected by `index_out_r`) → CMDResponse, sharing `start_resp`, as `createHILUART`
    wires them.  The register is the GENERATED `Gen.Reg.step`.
  Core Lean only (the driver `Drv/C20.lean` runs these definitions).
-/
namespace Hil
open Gen

/-! ## sessions of the response encoder -/

/-- what is seen in one cycle: the inputs before the edge and the character handed over at this edge (none or one) -/
abbrev Obs := RespIn × List Nat

/-- cycle-by-cycle observation of a run over arbitrary inputs; `none` = a `clock()` call raised -/
def respObs (wv : Nat) : CMDResponse.St → RespW → List RespIn → Option (List Obs)
  | _, _, [] => some []
  | s, w, i :: r =>
    match respCycle wv s w i with
    | none => none
    | some sw =>
      match respObs wv sw.1 sw.2 r with
      | none => none
      | some o => some ((i, xfer w i) :: o)

/-- the specification monitor: `pend` = characters still owed to the consumer (`[]` = nothing in flight: a start pulse
    MUST be accepted now), `bud` = number of ready cycles within which they have to be handed over -/
structure Mon where
  pend : List Nat
  bud : Nat
deriving Repr, DecidableEq

def Mon.idle : Mon := ⟨[], 0⟩

/-- one observed cycle against the specification; `none` = the observation violates it.
    Nothing owed: no character may appear; a start pulse makes the whole response for the sampled (vin, size) owed,
    to be delivered within 2·size+4 ready cycles.  Something owed: a start pulse is ignored; either nothing is handed
    over or exactly the next owed character; once the ready budget is used up nothing may be owed any more. -/
def monStep (wv : Nat) (m : Mon) (o : Obs) : Option Mon :=
  match m.pend with
  | [] =>
    if o.2 ≠ [] then none
    else if o.1.start ≠ 0 then some ⟨response wv o.1.size o.1.vin, 2 * o.1.size + 4⟩
    else some m
  | c :: p =>
    let bud' := m.bud - (if o.1.ready ≠ 0 then 1 else 0)
    if o.2 = [] then (if bud' = 0 then none else some ⟨c :: p, bud'⟩)
    else if o.2 = [c] then (if p ≠ [] ∧ bud' = 0 then none else some ⟨p, bud'⟩)
    else none

def monRun (wv : Nat) : Mon → List Obs → Option Mon
  | m, [] => some m
  | m, o :: r =>
    match monStep wv m o with
    | none => none
    | some m' => monRun wv m' r

/-- the start pulses the specification obliges the encoder to answer, with the (vin, size) sampled: those seen while
    nothing is owed.  (Pure function of the observation; used to phrase expectations in the harness and in examples.) -/
def accepted (wv : Nat) : Mon → List Obs → List (Nat × Nat)
  | _, [] => []
  | m, o :: r =>
    match monStep wv m o with
    | none => []
    | some m' => (if m.pend = [] ∧ o.1.start ≠ 0 then [(o.1.vin, o.1.size)] else []) ++ accepted wv m' r

/-! ## the chain -/

/-- `py4hw.Reg(platform, 'index_out_r', d=index_out, enable=set_index_out, q=index_out_r)`: the generated `Reg.clock`
    (enable, no reset), output wire `wOut` bits wide -/
def selNext (wOut : Nat) (w : ReqW) (sel : Nat) : Nat :=
  upd wOut (Reg.step ⟨0, true, false⟩ ⟨(sel : Int)⟩ ⟨(w.sio : Int), 0, (w.index_out : Int)⟩ ⟨⟩).2.q sel

structure Chain where
  st : CMDRequest.St
  w : ReqW
  sel : Nat             -- index_out_r
  rs : CMDResponse.St
  rw : RespW

def Chain.init : Chain := ⟨CMDRequest.init, ReqW.zero, 0, CMDResponse.init, ⟨0, 0⟩⟩

/-- the encoder's inputs in a cycle: `start_resp` straight from the decoder, value and digit count looked up in the
    output table `tab` with the REGISTERED index -/
def Chain.respIn (tab : Nat → Nat × Nat) (c : Chain) (ready : Nat) : RespIn :=
  ⟨c.w.start_resp, (tab c.sel).1, (tab c.sel).2, ready⟩

/-- one `sim.clk(1)` of the whole chain; inputs: the producer's (valid, c) and the consumer's ready -/
def chainStep (k : ReqCfg) (wv : Nat) (tab : Nat → Nat × Nat) (c : Chain) (valid ch ready : Nat) : Option Chain :=
  match respCycle wv c.rs c.rw (c.respIn tab ready) with
  | none => none
  | some r =>
    let q := reqCycle k c.st c.w valid ch
    some ⟨q.1, q.2, selNext k.wOut c.w c.sel, r.1, r.2⟩

/-- a row of a chain run: the configuration after the edge and what the encoder saw / handed over at this edge -/
abbrev Row := Chain × Obs

def chainRun (k : ReqCfg) (wv : Nat) (tab : Nat → Nat × Nat) : Chain → List (Nat × Nat × Nat) → Option (List Row)
  | _, [] => some []
  | c, (v, ch, rd) :: r =>
    match chainStep k wv tab c v ch rd with
    | none => none
    | some c' =>
      match chainRun k wv tab c' r with
      | none => none
      | some rows => some ((c', (c.respIn tab rd, xfer c.rw (c.respIn tab rd))) :: rows)

/-- the (valid, c) pairs a producer shows during the next `n` cycles of the closed request loop -/
def loopIns (k : ReqCfg) : Nat → ReqLoop → List (Nat × Nat)
  | 0, _ => []
  | n + 1, l => Prod.out l.p :: loopIns k n (reqLoopStep k l)

/-- attach the consumer's `ready` (a function of the cycle number) to a list of producer outputs -/
def chainIns (rdy : Nat → Nat) : Nat → List (Nat × Nat) → List (Nat × Nat × Nat)
  | _, [] => []
  | t, (v, ch) :: r => (v, ch, rdy t) :: chainIns rdy (t + 1) r

/-- the number carried by the last `selOut` event (`a` if there is none) -/
def lastSel (a : Nat) : List Ev → Nat
  | [] => a
  | .selOut n :: r => lastSel n r
  | _ :: r => lastSel a r

/-- for every `startResp` event, the number of the last `selOut` before it -/
def selAtStarts (a : Nat) : List Ev → List Nat
  | [] => []
  | .selOut n :: r => selAtStarts n r
  | .startResp :: r => a :: selAtStarts a r
  | _ :: r => selAtStarts a r

/-- the output numbers queried by a command stream -/
def queries (k : ReqCfg) : List Cmd → List Nat
  | [] => []
  | .O ds :: r => hexVal ds % 2 ^ k.wOut :: queries k r
  | _ :: r => queries k r

end Hil
