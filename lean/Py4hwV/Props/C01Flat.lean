import Py4hwV.Proofs.C01FlatInst
import Py4hwV.Proofs.C01FlatStore
import Py4hwV.Proofs.C01FlatShip
import Py4hwV.Proofs.C01FlatIR
import Py4hwV.Proofs.C01FlatCheck
/-
  C01, design level — FLAT designs: one module whose items are continuous assigns of the inline forms proved in
  Props/C01.lean over declared nets, plus flattened `Reg` instances (`reg rq = RV`, the always block of `C01.regBody`,
  `assign q = rq`, port connections).  That is what rtl_generation.py emits for a structural block whose children are
  inlinable primitives and `Reg`s, after `V.flatten`.

  Model: Emit/Flat.lean.  Verilog side = the steps of the shipped interpreter (Verilog/Run.lean) restated on readers
  (`passA` ≙ settlePass, `settleA` ≙ settleLoop, `cycleA` ≙ Sim.cycle for blocks that follow the base clock);
  simulator side = `Net.propagateAll / clkCycle / runC` (Net/Sim.lean) on `NetD.design`, whose leaves run the
  step functions GENERATED from the Python source.

  Stage 1 (combinational)
    (a) `settled_exists`, `settled_unique`   an acyclic single-driver assign list has exactly one settled valuation
    (b) `settle_reaches`                     `length` passes in ANY textual order reach it, from ANY store
    (c) `flat_settle`                        … and it carries, on every net, the value `propagateAll` computes
  Stage 2 (sequential)
    `flat_cycle`     one `cycleA` ≙ `clk(1)`
    `flat_run`       from power-up, after ANY sequence of pokes / clk(n): every net agrees at every observation
    `flat_powerup`   the observation before the first clock
  Shipped interpreter (HashMap store, `Sim.half` with clock toggling and delta loop)
    `shipped_settle`, `shipped_sim_settle`, `shipped_cycle`, `shipped_run`, `shipped_powerup`, `shipped_state_exists`
  The generic forms (any justified assign list over any name ↦ net map): `FlatM.comb_corr`, `FlatM.cycle_corr`,
  `FlatM.run_corr`.  What is NOT proved: that `V.flatten`/`V.mkSim` of the emitted two-module text yield such a state
  (notes/C01deep.md, "What remains" 1).
-/
namespace C01Flat
open V Net FlatM

/-! ## Stage 1 (a): the settled valuation exists and is unique -/

/-- **existence**: evaluating an acyclic (sources-first) list once, from ANY store, gives a settled store that differs
    from the start only on driven nets -/
theorem settled_exists (topo : List (LHS × Expr)) (hA : Acyc topo) (r : Rd) (hok : ∀ a, a ∈ topo → LhsOk r a.1) :
    Settled topo (passA topo r) ∧ (passA topo r).info = r.info ∧ (passA topo r).mem = r.mem ∧
    ∀ n, (∀ b, b ∈ topo → n ≠ tgt b) → (passA topo r).val n = r.val n :=
  ⟨pass_topo_settled topo hA r hok, passA_info _ _, passA_mem _ _, fun n hn => passA_val_other topo r hok n hn⟩

/-- **uniqueness** (mirror of `C04.settled_unique`): two settled stores with the same declarations that agree on the
    undriven names agree everywhere -/
theorem settled_unique (topo : List (LHS × Expr)) (hA : Acyc topo) (r₁ r₂ : Rd) (hi : r₁.info = r₂.info)
    (hm : r₁.mem = r₂.mem) (h₁ : Settled topo r₁) (h₂ : Settled topo r₂)
    (hext : ∀ n, (∀ b, b ∈ topo → n ≠ tgt b) → r₁.val n = r₂.val n) : r₁ = r₂ :=
  rd_ext r₁ r₂ hi hm (FlatM.settled_unique topo hA r₁ r₂ hi hm h₁ h₂ hext)

/-! ## Stage 1 (b): the interpreter's passes compute it -/

/-- `as` = the text order (arbitrary), `topo` = any sources-first rearrangement.  After `length` passes (or more) the
    store IS the settled one, it stays there, and it is settled for `as` -/
theorem settle_reaches {as topo : List (LHS × Expr)} (hp : as.Perm topo) (hA : Acyc topo) (r0 : Rd)
    (hok : ∀ a, a ∈ as → LhsOk r0 a.1) (j : Nat) (hj : as.length ≤ j) :
    Net.iter (passA as) j r0 = passA topo r0 ∧ Settled as (Net.iter (passA as) j r0) ∧
    passA as (Net.iter (passA as) j r0) = Net.iter (passA as) j r0 := by
  have h1 := iter_eq_topo hp hA r0 hok j hj
  have hS := pass_topo_settled topo hA r0 (fun a ha => hok a (hp.mem_iff.mpr ha))
  refine ⟨h1, ?_, ?_⟩
  · rw [h1]; exact (settled_perm hp _).mpr hS
  · have h2 := iter_eq_topo hp hA r0 hok (j + 1) (by omega)
    rw [FlatM.iter_succ'] at h2
    rw [h2, h1]

/-- **the SHIPPED interpreter computes it**: on a design without `always @(*)` blocks whose assigns drive whole nets,
    one `V.settlePass` over the HashMap store is one `passA` on its reader, and `V.settleLoop` — from ANY store, with the
    fuel `Sim.settle` gives it or any fuel above the number of assigns — stops with success at the settled store -/
theorem shipped_settle (f : V.Flat) (hns : NoStar f) {topo : List (LHS × Expr)} (hp : f.assigns.Perm topo) (hA : Acyc topo)
    (s : Store) (hok : ∀ a, a ∈ f.assigns → LhsOk s.rd a.1) (fuel : Nat) (hfuel : f.assigns.length < fuel) :
    (settlePass f s).rd = passA f.assigns s.rd ∧
    (settleLoop f fuel s).2 = true ∧ (settleLoop f fuel s).1.rd = passA topo s.rd ∧
    Settled f.assigns (settleLoop f fuel s).1.rd := by
  have h := settleLoop_rd f hns hp hA fuel s hok hfuel
  have h2 := settle_reaches hp hA s.rd hok f.assigns.length (Nat.le_refl _)
  refine ⟨settlePass_rd f hns s hok, h.1, ?_, ?_⟩
  · rw [h.2]; exact h2.1
  · rw [h.2]; exact h2.2.1

/-- `Sim.settle` of the shipped interpreter on a flat design: no "did not settle" error, store = `settleA` -/
theorem shipped_sim_settle (m : Sim) (hns : NoStar m.flat) {topo : List (LHS × Expr)} (hp : m.flat.assigns.Perm topo)
    (hA : Acyc topo) (hok : ∀ a, a ∈ m.flat.assigns → LhsOk m.st.rd a.1) :
    m.settle.st.rd = settleA m.flat.assigns m.st.rd ∧ m.settle.errors = m.errors :=
  ⟨(sim_settle_rd m hns hp hA hok).1, (sim_settle_rd m hns hp hA hok).2.1⟩

/-! ## Stage 1 (c): correspondence with the simulator, for every well-formed flat design -/

/-- **every flat design, every width, every input**: from ANY store that declares the signals and carries the
    simulator's current values on the top-level inputs and the register variables, the settled Verilog valuation
    restricted to the nets is `(propagateAll d s).val` -/
theorem flat_settle (F : FlatDesign) (hF : F.WF) (as : List (LHS × Expr)) (hp : as.Perm F.assigns)
    (s : State Int) (hs : C06.Inv F.netD.design s) (r0 : Rd) (hd : F.Declared r0)
    (hin : ∀ k, F.isIn k → r0.val (F.nm k) = ⟨F.wd k, s.val k, true⟩)
    (hrq : ∀ R, R ∈ F.regs → r0.val R.rq = ⟨F.wd R.leaf.q, s.val R.leaf.q, true⟩)
    (j : Nat) (hj : as.length ≤ j) :
    ∀ k, k ∈ F.nets →
      (Net.iter (passA as) j r0).val (F.nm k) = ⟨F.wd k, (propagateAll F.netD.design s).val k, true⟩ := by
  have C := FlatDesign.seqCorr hF as hp
  have hrel := comb_corr C.sched C.comb s hs r0 (FlatDesign.infoOK hF as hp r0 hd) (by
    intro n k hn hu
    rcases FlatDesign.undriven_net hF hn (fun h' => hu ((hp.map tgt).mem_iff.mpr h')) with ⟨e, h1, h2, h3⟩ | ⟨R, hR, e, hq⟩
    · rw [e]; exact hin k ⟨h1, h2, h3⟩
    · rw [e, ← hq]; exact hrq R hR) trivial j hj
  intro k hk
  exact (hrel (F.nm k) k (FlatDesign.net_nm hF hk)).val

/-- a purely combinational flat design: no hypotheses about registers remain -/
theorem flat_settle_comb (F : FlatDesign) (hF : F.WF) (hreg : F.regs = []) (as : List (LHS × Expr))
    (hp : as.Perm F.assigns) (s : State Int) (hs : C06.Inv F.netD.design s) (r0 : Rd) (hd : F.Declared r0)
    (hin : ∀ k, F.isIn k → r0.val (F.nm k) = ⟨F.wd k, s.val k, true⟩) :
    ∀ k, k ∈ F.nets → (settleA as r0).val (F.nm k) = ⟨F.wd k, (propagateAll F.netD.design s).val k, true⟩ :=
  flat_settle F hF as hp s hs r0 hd hin (by intro R hR; rw [hreg] at hR; cases hR) _ (Nat.le_refl _)

/-! ## Stage 2: clock cycles and whole runs -/

/-- the states of the two machines correspond (`FlatM.SeqRel` for the design) -/
def Corr (F : FlatDesign) (as : List (LHS × Expr)) (r : Rd) (s : State Int) : Prop :=
  SeqRel F.netD (F.flatOf as).assigns F.net r s

/-- **one clock cycle**: corresponding states go to corresponding states, and after the cycle every net carries the
    simulator's value (register rule: `C01.reg_body_step` generalised in `FlatM.reg_body_exec`, `C01.gen_reg_rule`) -/
theorem flat_cycle (F : FlatDesign) (hF : F.WF) (as : List (LHS × Expr)) (hp : as.Perm F.assigns)
    (r : Rd) (s : State Int) (h : Corr F as r s) :
    Corr F as (cycleA (F.flatOf as) r) (clk F.netD.design 1 s) ∧
    ∀ k, k ∈ F.nets → (cycleA (F.flatOf as) r).val (F.nm k) = ⟨F.wd k, (clk F.netD.design 1 s).val k, true⟩ := by
  have C := FlatDesign.seqCorr hF as hp
  have := cycle_corr C h trivial trivial
  exact ⟨this.1, fun k hk => (this.2 (F.nm k) k (FlatDesign.net_nm hF hk)).val⟩

/-- **power-up**: `rq = reset_value` on the Verilog side, `Reg.value = q = reset_value` on the simulator side
    (`Net.initC`, /repo fix a9391b3), inputs 0 on both -/
theorem flat_powerup (F : FlatDesign) (hF : F.WF) (as : List (LHS × Expr)) (hp : as.Perm F.assigns)
    (r0 : Rd) (h0 : F.PowerUp0 r0) :
    Corr F as r0 (initC F.netD.design F.netD.st0 F.netD.cons) ∧
    ∀ k, k ∈ F.nets →
      (settleA as r0).val (F.nm k) = ⟨F.wd k, (initC F.netD.design F.netD.st0 F.netD.cons).val k, true⟩ := by
  have C := FlatDesign.seqCorr hF as hp
  have hc := powerup_corr C (FlatDesign.powerUp hF as hp r0 h0)
  refine ⟨hc, ?_⟩
  intro k hk
  have := observe_corr C hc trivial (F.nm k) k (FlatDesign.net_nm hF hk)
  have hidem : C05.PropIdem F.netD.design := C04.propIdem F.netD.design F.netD.comb C.sched.1
  have hfix : propagateAll F.netD.design (initC F.netD.design F.netD.st0 F.netD.cons)
      = initC F.netD.design F.netD.st0 F.netD.cons := hidem _
  rw [hfix] at this
  exact this.val

/-- **every run from power-up, every input history**: after ANY sequence of test-bench operations (pokes of top-level
    inputs with any non-negative values, clk(n) for any n) the machines correspond … -/
theorem flat_run_corr (F : FlatDesign) (hF : F.WF) (as : List (LHS × Expr)) (hp : as.Perm F.assigns)
    (r0 : Rd) (h0 : F.PowerUp0 r0) (ops : List Op) (hops : ∀ op, op ∈ ops → F.OpOK op) :
    Corr F as (ops.foldl (applyOpA (F.flatOf as) F.nm) r0) (runC F.netD.design F.netD.st0 F.netD.cons ops) :=
  run_corr (FlatDesign.seqCorr hF as hp) F.nm (FlatDesign.powerUp hF as hp r0 h0) ops
    (fun op hop => FlatDesign.opOK hF as hp op (hops op hop)) (goodRun_of_all _ (fun _ => trivial) _ _)

/-- … hence after every clock step of every such history, every net (in particular every top-level output) carries
    exactly the simulator's value, known -/
theorem flat_run (F : FlatDesign) (hF : F.WF) (as : List (LHS × Expr)) (hp : as.Perm F.assigns)
    (r0 : Rd) (h0 : F.PowerUp0 r0) (ops : List Op) (hops : ∀ op, op ∈ ops → F.OpOK op) (n : Nat) :
    ∀ k, k ∈ F.nets →
      ((ops ++ [Op.clk (n + 1)]).foldl (applyOpA (F.flatOf as) F.nm) r0).val (F.nm k) =
        ⟨F.wd k, (runC F.netD.design F.netD.st0 F.netD.cons (ops ++ [Op.clk (n + 1)])).val k, true⟩ := by
  have C := FlatDesign.seqCorr hF as hp
  have hc := flat_run_corr F hF as hp r0 h0 ops hops
  have := (clk_corr C hc (n + 1) (fun _ _ => trivial)).2 (Nat.succ_pos n)
  intro k hk
  have hv := (this (F.nm k) k (FlatDesign.net_nm hF hk)).val
  simp only [runC, List.foldl_append, List.foldl, applyOpA, applyOp] at hv ⊢
  exact hv

/-! ## the SHIPPED interpreter (`V.Sim`: HashMap store, clock toggling, delta loop) on flat designs -/

/-- **`V.Sim.cycle` is `cycleA`** on a well-formed flat design whose clocks are declared one bit wide and are high between
    cycles: the falling half fires nothing, the rising half fires every register body on the settled pre-edge store, the
    delta loop stops (no derived clock), no error is logged, and the invariant holds again -/
theorem shipped_cycle (F : FlatDesign) (hF : F.WF) (as : List (LHS × Expr)) (hp : as.Perm F.assigns) (m : Sim)
    (h : FlatDesign.ShipInv F as m) :
    m.cycle.st.rd = cycleA (F.flatOf as) m.st.rd ∧ m.cycle.errors = m.errors ∧ FlatDesign.ShipInv F as m.cycle :=
  FlatDesign.ship_cycle hF as hp m h

/-- **C01 for flat designs, on the shipped interpreter**: start from a simulator state `m0` that runs the flattened text,
    declares the signals, holds `rq = reset_value`, inputs 0 and the clocks high (what `mkSim` + `set <input> 0` produce);
    apply ANY covered history with the operations of lean/Drv/V.lean (`set`, `step`).  Then no error is logged and after
    every `step` every net — in particular every top-level output — reads the value of the py4hw simulator
    (`Net.runC` on the design with the GENERATED leaf functions), known. -/
theorem shipped_run (F : FlatDesign) (hF : F.WF) (as : List (LHS × Expr)) (hp : as.Perm F.assigns) (m0 : Sim)
    (hinv : FlatDesign.ShipInv F as m0) (h0 : F.PowerUp0 m0.st.rd) (ops : List Op) (hops : ∀ op, op ∈ ops → F.OpOK op)
    (n : Nat) :
    ((ops ++ [Op.clk (n + 1)]).foldl F.shipOp m0).errors = m0.errors ∧
    ∀ k, k ∈ F.nets →
      ((ops ++ [Op.clk (n + 1)]).foldl F.shipOp m0).st.rd.val (F.nm k) =
        ⟨F.wd k, (runC F.netD.design F.netD.st0 F.netD.cons (ops ++ [Op.clk (n + 1)])).val k, true⟩ := by
  have hops' : ∀ op, op ∈ ops ++ [Op.clk (n + 1)] → F.OpOK op := by
    intro op hop
    simp only [List.mem_append, List.mem_singleton] at hop
    rcases hop with h | h
    · exact hops op h
    · subst h; trivial
  have hs := FlatDesign.ship_run hF as hp m0 hinv (ops ++ [Op.clk (n + 1)]) hops'
  refine ⟨hs.2.1, ?_⟩
  intro k hk
  rw [hs.1]
  exact flat_run F hF as hp m0.st.rd h0 ops hops n k hk

/-- the first observation (before any clock): `settle`, then read -/
theorem shipped_powerup (F : FlatDesign) (hF : F.WF) (as : List (LHS × Expr)) (hp : as.Perm F.assigns) (m0 : Sim)
    (hinv : FlatDesign.ShipInv F as m0) (h0 : F.PowerUp0 m0.st.rd) :
    m0.settle.errors = m0.errors ∧
    ∀ k, k ∈ F.nets →
      m0.settle.st.rd.val (F.nm k) = ⟨F.wd k, (initC F.netD.design F.netD.st0 F.netD.cons).val k, true⟩ := by
  have hC := hinv.cyc hF hp
  have hl : ∀ a, a ∈ m0.flat.assigns → LhsOk m0.st.rd a.1 := by
    rw [hinv.fassigns]; exact (FlatDesign.infoOK hF as hp m0.st.rd hinv.declared).lhs
  have hs := sim_settle_rd m0 hC.nostar (topo := F.topo) hC.perm hC.acyc hl
  refine ⟨hs.2.1, ?_⟩
  intro k hk
  rw [hs.1, hinv.fassigns]
  exact (flat_powerup F hF as hp m0.st.rd h0).2 k hk

/-! ## the emitted TEXT: elaboration by `V.flatten` / `V.mkSim` -/

/-- **elaboration** (`mkSim_shipInv`): for an imported description `S` that passes the executable check, `V.mkSim` of the module
    list `S.emit` (= the parsed real text, checked per design by the harness with decidable equality) runs a permutation of
    the design's assigns and its register bodies, declares every signal, holds `rq = reset_value`, has the clocks high
    and logged no error -/
theorem mkSim_shipInv (S : FlatSrc) (h : S.check = true) :
    S.flatS.assigns.Perm S.design.assigns ∧
    FlatDesign.ShipInv S.design S.flatS.assigns (mkSim S.emit S.top S.clk) ∧
    (mkSim S.emit S.top S.clk).errors = [] ∧
    (∀ R, R ∈ S.design.regs → (mkSim S.emit S.top S.clk).st.rd.val R.rq =
      ⟨S.design.wd R.leaf.q, R.leaf.rv % 2 ^ S.design.wd R.leaf.q, true⟩) :=
  S.mkSim_inv (S.check_sound h)

/-- the check implies the well-formedness hypothesis of all the design-level theorems -/
theorem check_wf (S : FlatSrc) (h : S.check = true) : S.design.WF := (S.check_sound h).wf

/-- **C01 on the parsed real text of a flat design.**  `mkSim` the module list, drive every input with 0 (the harness
    protocol), then apply ANY covered history with the driver's `set` / `step`: no error is ever logged and after every
    `step` every net — every top-level output — reads the value of the py4hw simulator (`Net.runC` with the GENERATED leaf
    functions), known.  No behavioural assumption remains between the text and the theorem: the harness checks
    `parsed text = S.emit` and `S.check` per design. -/
theorem text_run (S : FlatSrc) (h : S.check = true) (ops : List Op) (hops : ∀ op, op ∈ ops → S.design.OpOK op) (n : Nat) :
    ((S.zeroOps ++ (ops ++ [Op.clk (n + 1)])).foldl S.design.shipOp (mkSim S.emit S.top S.clk)).errors = [] ∧
    ∀ k, k ∈ S.design.nets →
      ((S.zeroOps ++ (ops ++ [Op.clk (n + 1)])).foldl S.design.shipOp (mkSim S.emit S.top S.clk)).st.rd.val (S.nm k) =
        ⟨S.wd k, (runC S.design.netD.design S.design.netD.st0 S.design.netD.cons (ops ++ [Op.clk (n + 1)])).val k, true⟩ := by
  have hOK := S.check_sound h
  obtain ⟨hp, hinv, h0, herr⟩ := S.text_state hOK
  rw [List.foldl_append]
  have := shipped_run S.design hOK.wf _ hp _ hinv h0 ops hops n
  exact ⟨this.1.trans herr, this.2⟩

/-- the first observation of the protocol (`settle`, read): power-up values agree -/
theorem text_powerup (S : FlatSrc) (h : S.check = true) :
    (S.zeroOps.foldl S.design.shipOp (mkSim S.emit S.top S.clk)).settle.errors = [] ∧
    ∀ k, k ∈ S.design.nets →
      (S.zeroOps.foldl S.design.shipOp (mkSim S.emit S.top S.clk)).settle.st.rd.val (S.nm k) =
        ⟨S.wd k, (initC S.design.netD.design S.design.netD.st0 S.design.netD.cons).val k, true⟩ := by
  have hOK := S.check_sound h
  obtain ⟨hp, hinv, h0, herr⟩ := S.text_state hOK
  have := shipped_powerup S.design hOK.wf _ hp _ hinv h0
  exact ⟨this.1.trans herr, this.2⟩

end C01Flat

/-! ## non-vacuity -/
namespace C01Flat
open V Net FlatM

/-- a power-up store exists for EVERY well-formed design: declarations from the name table, `rq = RV`, inputs 0 -/
def store0 (F : FlatDesign) : Rd :=
  { info := fun n => (F.net n).map fun k => { width := F.wd k },
    val := fun n =>
      match F.regs.find? (fun R => R.rq == n) with
      | some R => ⟨F.wd R.leaf.q, R.leaf.rv % 2 ^ F.wd R.leaf.q, true⟩
      | none => match F.net n with
        | some k => ⟨F.wd k, 0, true⟩
        | none => BV.x 1,
    mem := fun _ _ => BV.x 1 }

theorem store0_powerup (F : FlatDesign) (hF : F.WF) : F.PowerUp0 (store0 F) := by
  refine ⟨?_, ?_, ?_⟩
  · intro x hx k hk
    show (F.net (F.name x)).map _ = _
    rw [FlatDesign.net_name hF.names_inj hx, hk]; rfl
  · intro R hR
    show (match F.regs.find? (fun R' => R'.rq == R.rq) with | some R => _ | none => _) = _
    cases hf : F.regs.find? (fun R' => R'.rq == R.rq) with
    | none =>
      have := List.find?_eq_none.mp hf R hR
      simp at this
    | some R' =>
      have hR' : R' ∈ F.regs := List.mem_of_find?_eq_some hf
      have hp := List.find?_some hf
      simp only [beq_iff_eq] at hp
      have := FlatDesign.name_inj hF.names_inj (x := .rq R') (y := .rq R)
        (FlatDesign.mem_nodes_reg hR' (FlatDesign.mem_regnodes_rq R')) (FlatDesign.mem_nodes_reg hR (FlatDesign.mem_regnodes_rq R)) hp
      rw [Node.rq.inj this]
  · intro k hk
    show (match F.regs.find? (fun R' => R'.rq == F.nm k) with | some R => _ | none => _) = _
    cases hf : F.regs.find? (fun R' => R'.rq == F.nm k) with
    | none =>
      simp only
      rw [FlatDesign.net_nm hF hk.1]
    | some R' =>
      have hR' : R' ∈ F.regs := List.mem_of_find?_eq_some hf
      have hp := List.find?_some hf
      simp only [beq_iff_eq] at hp
      have := FlatDesign.name_inj hF.names_inj (x := .rq R') (y := .net k)
        (FlatDesign.mem_nodes_reg hR' (FlatDesign.mem_regnodes_rq R')) (FlatDesign.mem_nodes_net hk.1) hp
      cases this

/-- the design of notes/C01deep.md, as emitted by the real generator:
      assign w_x = a & b;  assign w_c[2:0] = 5;  assign w_y = (s & 1)? q : w_x;  Reg4_v3 i_r(.clk(clk),.d(w_y),.q(q));
      assign z = ~q;
    nets: a=0 b=1 s=2 q=3 z=4 w_x=5 w_y=6 w_c=7 -/
def exF : FlatDesign :=
  { wd := fun k => if k = 2 then 2 else if k = 7 then 3 else 4,
    nm := fun k => ["a", "b", "s", "q", "z", "w_x", "w_y", "w_c"].getD k "?",
    clk := "clk",
    nets := [0, 1, 2, 3, 4, 5, 6, 7],
    kinds := [.and2 0 1 5, .const 5 7, .mux2 2 5 3 6, .not1 3 4],
    regs := [⟨"i_r.", ⟨false, false, 3, 6, 0, 0, 3⟩⟩],
    order := [0, 1, 2, 3] }

theorem exF_wf : exF.WF := by
  refine ⟨by decide, by decide, ?_, ?_, by decide, by decide, ?_, ?_, ?_⟩
  · intro k hk
    simp only [exF, List.mem_cons, List.not_mem_nil, or_false] at hk
    rcases hk with e | e | e | e <;> subst e <;> simp [Kind.out, Kind.leaf, exF]
  · intro R hR
    simp only [exF, List.mem_cons, List.not_mem_nil, or_false] at hR
    subst hR
    simp [exF]
  · exact FlatSrc.topoCheck_sound exF [0, 1, 2, 3] (by decide) (by decide)
  · intro k hk
    simp only [exF, List.mem_cons, List.not_mem_nil, or_false] at hk
    rcases hk with e | e | e | e <;> subst e <;> simp [Kind.ok]
  · intro R hR
    simp only [exF, List.mem_cons, List.not_mem_nil, or_false] at hR
    subst hR
    decide

/-- so the run theorem applies to it (text order as emitted: and, const, mux, register instance, not) -/
example (ops : List Op) (hops : ∀ op, op ∈ ops → exF.OpOK op) (n : Nat) :
    ((ops ++ [Op.clk (n + 1)]).foldl (applyOpA (exF.flatOf exF.assigns) exF.nm) (store0 exF)).val "z" =
      ⟨4, (runC exF.netD.design exF.netD.st0 exF.netD.cons (ops ++ [Op.clk (n + 1)])).val 4, true⟩ :=
  flat_run exF exF_wf exF.assigns (List.Perm.refl _) (store0 exF) (store0_powerup exF exF_wf) ops hops n 4 (by decide)

/-- a covered history: drive a=12, b=10, s=1, three clocks -/
example : ∀ op, op ∈ [Op.poke 0 12, Op.poke 1 10, Op.poke 2 1, Op.clk 3] → exF.OpOK op := by
  intro op hop
  simp only [List.mem_cons, List.not_mem_nil, or_false] at hop
  rcases hop with e | e | e | e <;> subst e
  · exact ⟨⟨by decide, by decide, by decide⟩, by decide⟩
  · exact ⟨⟨by decide, by decide, by decide⟩, by decide⟩
  · exact ⟨⟨by decide, by decide, by decide⟩, by decide⟩
  · trivial

/-- a shipped-simulator state satisfying all hypotheses of `shipped_run` exists for EVERY well-formed design -/
theorem shipped_state_exists (F : FlatDesign) (hF : F.WF) (as : List (LHS × Expr)) :
    FlatDesign.ShipInv F as (F.sim1 as) ∧ F.PowerUp0 (F.sim1 as).st.rd := FlatDesign.sim1_inv hF as

/-- … so on the example design the shipped interpreter drives `z` like the simulator, at every clock of every history -/
example (ops : List Op) (hops : ∀ op, op ∈ ops → exF.OpOK op) (n : Nat) :
    ((ops ++ [Op.clk (n + 1)]).foldl exF.shipOp (exF.sim1 exF.assigns)).st.rd.val "z" =
      ⟨4, (runC exF.netD.design exF.netD.st0 exF.netD.cons (ops ++ [Op.clk (n + 1)])).val 4, true⟩ :=
  (shipped_run exF exF_wf exF.assigns (List.Perm.refl _) _ (shipped_state_exists exF exF_wf _).1
    (shipped_state_exists exF exF_wf _).2 ops hops n).2 4 (by decide)

/-! ### non-vacuity of the text theorems: a real emitted text (two registers, one with enable and reset) -/

/-- the description imported from the live py4hw design (harness exporter), children in instantiation order -/
def exS : FlatSrc :=
  { top := "Top", clk := "clk",
    widths := [4, 4, 2, 1, 1, 4, 4, 4, 4, 3, 4],
    names := ["a", "b", "s", "e", "r", "q", "z", "q2", "w_x", "w_c", "w_y"],
    inputs := [0, 1, 2, 3, 4], outputs := [5, 6, 7], locals := [10, 9, 8],
    children := [.prim (.and2 0 1 8), .prim (.const 5 9), .prim (.mux2 2 8 5 10),
      .reg ⟨"i_r", "Reg4_v3", ⟨false, false, 3, 10, 0, 0, 5⟩⟩, .reg ⟨"i_r2", "Reg4RE", ⟨true, true, 0, 8, 3, 4, 7⟩⟩,
      .prim (.not1 5 6)],
    order := [0, 1, 2, 3] }

/-- the module list harness/vparse.py reads from the text the REAL generator wrote for that design -/
def exText : V.Design :=
  [{ name := "Top", params := [],
     ports := [{ dir := .inp, isReg := false, width := 1, name := "clk" }, { dir := .inp, isReg := false, width := 4, name := "a" },
       { dir := .inp, isReg := false, width := 4, name := "b" }, { dir := .inp, isReg := false, width := 2, name := "s" },
       { dir := .inp, isReg := false, width := 1, name := "e" }, { dir := .inp, isReg := false, width := 1, name := "r" },
       { dir := .out, isReg := false, width := 4, name := "q" }, { dir := .out, isReg := false, width := 4, name := "z" },
       { dir := .out, isReg := false, width := 4, name := "q2" }],
     items := [.wire "w_y" 4, .wire "w_c" 3, .wire "w_x" 4,
       .assign (.lid "w_x") (.bin "and" (.id "a") (.id "b")),
       .assign (.lrng "w_c" 2 0) (.num none true 5 true),
       .assign (.lid "w_y") (.tern (.bin "and" (.id "s") (.num none true 1 true)) (.id "q") (.id "w_x")),
       .inst "Reg4_v3" "i_r" [] [("clk", .id "clk"), ("d", .id "w_y"), ("q", .id "q")],
       .inst "Reg4RE" "i_r2" [] [("clk", .id "clk"), ("d", .id "w_x"), ("e", .id "e"), ("r", .id "r"), ("q", .id "q2")],
       .assign (.lid "z") (.un "not" (.id "q"))] },
   { name := "Reg4_v3", params := [],
     ports := [{ dir := .inp, isReg := false, width := 1, name := "clk" }, { dir := .inp, isReg := false, width := 4, name := "d" },
       { dir := .out, isReg := false, width := 4, name := "q" }],
     items := [.reg "rq" 4 (some (.num none true 3 true)), .always (.pos "clk") (.nba (.lid "rq") (.id "d")),
       .assign (.lid "q") (.id "rq")] },
   { name := "Reg4RE", params := [],
     ports := [{ dir := .inp, isReg := false, width := 1, name := "clk" }, { dir := .inp, isReg := false, width := 4, name := "d" },
       { dir := .inp, isReg := false, width := 1, name := "e" }, { dir := .inp, isReg := false, width := 1, name := "r" },
       { dir := .out, isReg := false, width := 4, name := "q" }],
     items := [.reg "rq" 4 (some (.num none true 0 true)),
       .always (.pos "clk") (.ife (.bin "eq" (.id "r") (.num none true 1 true)) (.nba (.lid "rq") (.num none true 0 true))
         (.ife (.bin "ne" (.id "e") (.num none true 0 true)) (.nba (.lid "rq") (.id "d")) .skip)),
       .assign (.lid "q") (.id "rq")] }]

/-- the parsed real text IS the model's emission (what the harness checks per design) … -/
theorem exS_text : exText = exS.emit := by decide

/-- … and the description passes the executable check -/
theorem exS_check : exS.check = true := by decide

/-- so C01 holds of that text: after the protocol's zeroing of the inputs, any covered history, at every clock, output `q2` -/
example (ops : List Op) (hops : ∀ op, op ∈ ops → exS.design.OpOK op) (n : Nat) :
    ((exS.zeroOps ++ (ops ++ [Op.clk (n + 1)])).foldl exS.design.shipOp (mkSim exText "Top" "clk")).st.rd.val "q2" =
      ⟨4, (runC exS.design.netD.design exS.design.netD.st0 exS.design.netD.cons (ops ++ [Op.clk (n + 1)])).val 7, true⟩ := by
  rw [exS_text]
  exact (text_run exS exS_check ops hops n).2 7 (by decide)

/-! ### a second real text: ConcatenateMSBF/LSBF, Repeat (5 copies and 1 copy), SignExtend (widening and narrowing), SignedMul
    (`C01.inline_concat`, `C01.inline_repeat`, `C01.inline_sext`, `C01.inline_smul` in Proofs/C01FlatKinds.lean) -/

def exS2 : FlatSrc :=
  { top := "Top", clk := "clk",
    widths := [4, 3, 2, 1, 9, 5, 7, 3, 9, 1, 6, 4],
    names := ["a", "b", "c", "i1", "r1", "r2", "r3", "r4", "r5", "r6", "r7", "r8"],
    inputs := [0, 1, 2, 3], outputs := [4, 5, 6, 7, 8, 9, 10, 11], locals := [],
    children := [.prim (.catm [0, 1, 2] 4), .prim (.rept 3 5), .prim (.sext 0 6), .prim (.sext 0 7), .prim (.catl [2, 1, 0] 8),
      .prim (.rept 3 9), .prim (.smul 0 1 10), .prim (.catm [0] 11)],
    order := [0, 1, 2, 3, 4, 5, 6, 7] }

/-- parsed from the text the real generator wrote (`{a,b,c}`, `{i1,i1,i1,i1,i1}`, `{ { 3 { a[3] } }, a }`, `a`, `{c,b,a}`, `i1`,
    `$signed(a) * $signed(b)`, `a`) -/
def exText2 : V.Design :=
  [{ name := "Top", params := [],
     ports := [{ dir := .inp, isReg := false, width := 4, name := "a" }, { dir := .inp, isReg := false, width := 3, name := "b" },
       { dir := .inp, isReg := false, width := 2, name := "c" }, { dir := .inp, isReg := false, width := 1, name := "i1" },
       { dir := .out, isReg := false, width := 9, name := "r1" }, { dir := .out, isReg := false, width := 5, name := "r2" },
       { dir := .out, isReg := false, width := 7, name := "r3" }, { dir := .out, isReg := false, width := 3, name := "r4" },
       { dir := .out, isReg := false, width := 9, name := "r5" }, { dir := .out, isReg := false, width := 1, name := "r6" },
       { dir := .out, isReg := false, width := 6, name := "r7" }, { dir := .out, isReg := false, width := 4, name := "r8" }],
     items := [.assign (.lid "r1") (.cat (.id "a") (.cat (.id "b") (.id "c"))),
       .assign (.lid "r2") (.cat (.id "i1") (.cat (.id "i1") (.cat (.id "i1") (.cat (.id "i1") (.id "i1"))))),
       .assign (.lid "r3") (.cat (.cat1 (.rep 3 (.cat1 (.idx "a" (.num none true 3 true))))) (.id "a")),
       .assign (.lid "r4") (.id "a"),
       .assign (.lid "r5") (.cat (.id "c") (.cat (.id "b") (.id "a"))),
       .assign (.lid "r6") (.id "i1"),
       .assign (.lid "r7") (.bin "mul" (.sgn (.id "a")) (.sgn (.id "b"))),
       .assign (.lid "r8") (.id "a")] }]

theorem exS2_text : exText2 = exS2.emit := by decide
theorem exS2_check : exS2.check = true := by decide

example (ops : List Op) (hops : ∀ op, op ∈ ops → exS2.design.OpOK op) (n : Nat) :
    ((exS2.zeroOps ++ (ops ++ [Op.clk (n + 1)])).foldl exS2.design.shipOp (mkSim exText2 "Top" "clk")).st.rd.val "r7" =
      ⟨6, (runC exS2.design.netD.design exS2.design.netD.st0 exS2.design.netD.cons (ops ++ [Op.clk (n + 1)])).val 10, true⟩ := by
  rw [exS2_text]
  exact (text_run exS2 exS2_check ops hops n).2 10 (by decide)

end C01Flat
