import Py4hwV.Props.C09
import Py4hwV.Lib.SeqNet
import Py4hwV.Proofs.C09Flat
/-
  C09, netlist level: the NETLIST a sequential block's constructor builds (Reg leaves + combinational leaves, all running
  their GENERATED step functions), simulated by `Net.Sim` (`Simulator.clk`: propagateAll, clock all, settle, propagateAll),
  behaves as the block's functional model `Lib.<block>` of Lib/Seq.lean — for every input history from power-up.

  Generic part: `SeqFlat.NetD` (flat netlists of one-output combinational leaves + Reg leaves; a private copy of C01's
  design-level development, Proofs/C09Flat.lean) with C04 (`propagate_combfix`: after propagateAll every combinational output is at its fixpoint),
  C05 (`edge_sim`: every register is clocked on the pre-edge values) ⇒ `cycle`.
  Per block: a netlist builder `…Net` (a `KNet`: kinds in instantiation order, registers, widths, schedule) which
  harness/c09.py compares at every run with the netlist dumped from the LIVE constructor (dump_ir.py; stream
  `netlist-import`), and a theorem `…_net` that reading the output wires after every `poke inputs; clk(1)` gives the
  after-edge outputs of `Lib.<block>`.
-/
set_option linter.unusedSimpArgs false
namespace C09N
open Net SeqFlat Lib Leaf C09

/-- structural side conditions: the schedule is an evaluation order containing every combinational leaf, registers
    drive distinct wires, no combinational leaf drives a register output -/
structure NetOK (D : NetD) : Prop where
  sched : D.SchedOK
  qdist : ∀ (i j : Nat) (R R' : RLeaf), D.regs[i]? = some R → D.regs[j]? = some R' → R.q = R'.q → i = j
  qfree : ∀ R, R ∈ D.regs → ∀ c, c ∈ D.combs → c.out ≠ R.q

/-- **one `sim.clk(1)` on a flat netlist** (C04 + C05): with `s1` the settled pre-edge state (`clk` propagates first),
    every register takes the value of the register rule evaluated on `s1`'s wire values, its `q` wire shows it (masked),
    all combinational outputs are at their fixpoint before and after, nothing else changes. -/
theorem cycle (D : NetD) (h : NetOK D) (s : State Int) (hp : s.prepared = [])
    (old : Nat → Nat) (hst : ∀ j, j < D.regs.length → s.st (D.rid j) = (old j : Int)) :
    let s1 := propagateAll D.design s
    let s2 := clk D.design 1 s
    (∀ j R, D.regs[j]? = some R →
        s2.val R.q = Bits.put (D.wd R.q) (regNextV s1.val R (old j)) ∧ s2.st (D.rid j) = (regNextV s1.val R (old j) : Nat)) ∧
    CombFix D s1.val ∧ CombFix D s2.val ∧
    (∀ w, (∀ c, c ∈ D.combs → c.out ≠ w) → s1.val w = s.val w) ∧
    (∀ w, (∀ c, c ∈ D.combs → c.out ≠ w) → (∀ R, R ∈ D.regs → R.q ≠ w) → s2.val w = s.val w) ∧
    s2.prepared = [] := by
  intro s1 s2
  have hp1 : s1.prepared = [] := by rw [propagate_prepared]; exact hp
  have hst1 : ∀ j, j < D.regs.length → s1.st (D.rid j) = (old j : Int) := by
    intro j hj; rw [propagate_st]; exact hst j hj
  have hE := edge_sim D s1 hp1 h.qdist old hst1
  have e2 : s2 = { propagateAll D.design (settleAll (clockDrivers D.design s1 D.design.drivers)) with
                   clks := (propagateAll D.design (settleAll (clockDrivers D.design s1 D.design.drivers))).clks + 1 } := rfl
  have v2 : s2.val = (propagateAll D.design (settleAll (clockDrivers D.design s1 D.design.drivers))).val := by rw [e2]
  have t2 : s2.st = (settleAll (clockDrivers D.design s1 D.design.drivers)).st := by rw [e2]; exact propagate_st D _
  refine ⟨?_, propagate_combfix D h.sched s, ?_, ?_, ?_, ?_⟩
  · intro j R hR
    have hmem : R ∈ D.regs := List.mem_of_getElem? hR
    constructor
    · rw [v2, propagate_val_other D _ R.q (fun c hc => h.qfree R hmem c hc)]
      exact (hE.1 j R hR).1
    · rw [t2]; exact (hE.1 j R hR).2
  · rw [v2]; exact propagate_combfix D h.sched _
  · intro w hw; exact propagate_val_other D s w hw
  · intro w hw hr
    rw [v2, propagate_val_other D _ w hw, hE.2.1 w hr]
    exact propagate_val_other D s w hw
  · rw [e2]
    show (propagateAll D.design _).prepared = []
    rw [propagate_prepared]; exact hE.2.2.2

/-- simulation argument at netlist level -/
theorem netTrace_sim {σ ι ο : Type} (D : NetD) (m : Machine σ ι ο) (pokes : ι → List (Nat × Int)) (outs : List Nat)
    (enc : ο → List Nat) (valid : ι → Prop) (Inv : State Int → σ → Prop)
    (hstep : ∀ s st i, valid i → Inv s st →
      Inv (clk D.design 1 ((pokes i).foldl (putW D.design) s)) (m.step st i) ∧
      outs.map (clk D.design 1 ((pokes i).foldl (putW D.design) s)).val = enc (m.out (m.step st i) i)) :
    ∀ (h : List ι) (s : State Int) (st : σ), (∀ x ∈ h, valid x) → Inv s st →
      netTrace D pokes outs s h = (m.trace st h).map (fun ab => enc ab.2) := by
  intro h
  induction h with
  | nil => intro _ _ _ _; rfl
  | cons i t ih =>
    intro s st hv hI
    have hs := hstep s st i (hv i (List.mem_cons_self ..)) hI
    simp only [netTrace, Machine.trace, List.map_cons]
    rw [hs.2, ih _ _ (fun x hx => hv x (List.mem_cons_of_mem _ hx)) hs.1]

/-- poking a wire: `putW` on a NetD design -/
theorem putW_val (D : NetD) (s : State Int) (w : Nat) (v : Int) :
    putW D.design s (w, v) = { s with val := upd s.val w (Bits.put (D.wd w) v) } := by
  simp only [putW]
  congr 2
  exact SeqFlat.wput _ _

/-- power-up of a flat netlist (`Reg.__init__` puts the reset value on q, then `Simulator.__init__` propagates) -/
theorem init_state (D : NetD) (h : NetOK D) :
    (initC D.design D.st0 D.cons).prepared = [] ∧
    ∀ j R, D.regs[j]? = some R →
      (initC D.design D.st0 D.cons).st (D.rid j) = (R.rv : Int) ∧
      (initC D.design D.st0 D.cons).val R.q = Bits.put (D.wd R.q) (R.rv : Int) := by
  constructor
  · simp only [initC]
    rw [propagate_prepared, C05.foldl_putW_prepared]
  · intro j R hR
    have hmem : R ∈ D.regs := List.mem_of_getElem? hR
    constructor
    · simp only [initC]
      rw [propagate_st, C10.foldl_putW_st]
      simp only [NetD.st0, NetD.rid]
      have : D.combs.length + j - D.combs.length = j := by omega
      rw [this, hR]; simp
    · simp only [initC]
      rw [propagate_val_other D _ R.q (fun c hc => h.qfree R hmem c hc)]
      have hnd : (D.cons.map Prod.fst).Nodup := by
        simp only [NetD.cons, List.map_map]
        rw [List.nodup_iff_pairwise_ne, List.pairwise_map]
        rw [List.pairwise_iff_getElem]
        intro i j' hi hj' hij e
        have := h.qdist i j' _ _ (List.getElem?_eq_getElem hi) (List.getElem?_eq_getElem hj') e
        omega
      have := C04.foldl_putW_hit D.design D.cons
        { val := fun _ => 0, nxt := fun _ => 0, prepared := [], st := D.st0, clks := 0 } hnd (R.q, (R.rv : Int))
        (by simp only [NetD.cons]; exact List.mem_map.mpr ⟨R, hmem, rfl⟩)
      rw [this]
      simp only [C04.mval]
      exact SeqFlat.wput _ _

/-! ## TReg -/

/-- register rule of C01 (`regNext`) = the Lib register on attribute-equals-wire states -/
theorem nat_regNext (w : Nat) (hasR hasE : Bool) (vr ve vd q : Nat) (hd : vd < 2 ^ w) (hq : q < 2 ^ w) :
    regClk w 0 (opt hasE ve) (opt hasR vr) vd (nat q) = nat (SeqFlat.regNext hasR hasE 0 vr ve vd q) ∧
    SeqFlat.regNext hasR hasE 0 vr ve vd q < 2 ^ w := by
  have hp := Nat.two_pow_pos w
  rw [regClk_nat w _ _ vd q hd hq]
  unfold SeqFlat.regNext
  cases hasR <;> cases hasE <;> simp [opt] <;> (repeat' split) <;> simp_all <;> omega

theorem tregNet_ok (hasE hasR : Bool) : NetOK (tregNet hasE hasR).netD := by
  refine ⟨⟨?_, ?_⟩, ?_, ?_⟩
  · simp [C04.TopoOK, NetD.comb, NetD.reads, NetD.writes, KNet.netD, tregNet, Kind.leaf]
  · intro i hi
    simp [KNet.netD, tregNet] at hi ⊢
    omega
  · intro i j R R' hi hj _
    have : i = 0 := by
      rcases i with _ | i
      · rfl
      · simp [KNet.netD, tregNet] at hi
    have : j = 0 := by
      rcases j with _ | j
      · rfl
      · simp [KNet.netD, tregNet] at hj
    omega
  · intro R hR c hc
    simp [KNet.netD, tregNet, Kind.leaf] at hR hc
    subst hR
    simp only [tregReg]
    rcases hc with rfl | rfl <;> simp

def TRegInv (D : NetD) (s : State Int) (st : RegSt) : Prop :=
  ∃ q, st = nat q ∧ q < 2 ∧ s.st (D.rid 0) = (q : Int) ∧ s.val 2 = q ∧ s.prepared = []

theorem treg_step (hasE hasR : Bool) (s : State Int) (st : RegSt) (i : TRegIn)
    (hv : i.t < 2 ∧ i.e < 2 ∧ i.r < 2) (hI : TRegInv (tregNet hasE hasR).netD s st) :
    let D := (tregNet hasE hasR).netD
    let s' := clk D.design 1 ((tregPokes i).foldl (putW D.design) s)
    TRegInv D s' ((treg ⟨hasE, hasR⟩).step st i) ∧ [2].map s'.val = [(treg ⟨hasE, hasR⟩).out ((treg ⟨hasE, hasR⟩).step st i) i] := by
  intro D s'
  obtain ⟨q, rfl, hq, hst, hvq, hp⟩ := hI
  obtain ⟨ht, he, hr⟩ := hv
  -- the poked state
  let sp := (tregPokes i).foldl (putW D.design) s
  have hwd : ∀ w, D.wd w = 1 := fun _ => rfl
  have spv : sp.val = upd (upd (upd s.val 1 i.t) 3 i.e) 4 i.r := by
    simp only [sp, tregPokes, List.foldl_cons, List.foldl_nil, putW_val, hwd, Bits.put_ofNat]
    simp [Nat.mod_eq_of_lt ht, Nat.mod_eq_of_lt he, Nat.mod_eq_of_lt hr]
  have spst : sp.st = s.st := by simp only [sp, tregPokes, List.foldl_cons, List.foldl_nil, putW_val]
  have spp : sp.prepared = [] := by simp only [sp, tregPokes, List.foldl_cons, List.foldl_nil, putW_val]; exact hp
  have hC := cycle D (tregNet_ok hasE hasR) sp spp (fun _ => q) (by
    intro j hj
    have : j = 0 := by simp [D, KNet.netD, tregNet] at hj; omega
    subst this; rw [spst]; exact hst)
  obtain ⟨hreg, hfix1, _, hin1, _, hp2⟩ := hC
  -- pre-edge settled values
  have v1 : (propagateAll D.design sp).val 1 = i.t := by rw [hin1 1 (by simp [D, KNet.netD, tregNet, Kind.leaf]), spv]; simp [upd]
  have v2 : (propagateAll D.design sp).val 2 = q := by rw [hin1 2 (by simp [D, KNet.netD, tregNet, Kind.leaf]), spv]; simp [upd, hvq]
  have v3 : (propagateAll D.design sp).val 3 = i.e := by rw [hin1 3 (by simp [D, KNet.netD, tregNet, Kind.leaf]), spv]; simp [upd]
  have v4 : (propagateAll D.design sp).val 4 = i.r := by rw [hin1 4 (by simp [D, KNet.netD, tregNet, Kind.leaf]), spv]; simp [upd]
  have v5 : (propagateAll D.design sp).val 5 = not1 1 q := by
    have := hfix1 (Kind.leaf D.wd (.not1 2 5)) (by simp [D, KNet.netD, tregNet])
    simp only [Kind.leaf, List.map, SeqFlat.g, List.getD_cons_zero, v2, hwd] at this
    rw [this]; exact Leaf.gen_not 1 q
  have v6 : (propagateAll D.design sp).val 6 = mux2 1 i.t q (not1 1 q) := by
    have := hfix1 (Kind.leaf D.wd (.mux2 1 2 5 6)) (by simp [D, KNet.netD, tregNet])
    simp only [Kind.leaf, List.map, SeqFlat.g, List.getD_cons_zero, List.getD_cons_succ, v1, v2, v5, hwd] at this
    rw [this]; exact Leaf.gen_mux2 1 i.t q (not1 1 q)
  have hR := hreg 0 (tregReg hasE hasR) (by simp [D, KNet.netD, tregNet])
  have hd6 : mux2 1 i.t q (not1 1 q) < 2 ^ 1 := mux2_lt ..
  have hnx := nat_regNext 1 hasR hasE i.r i.e (mux2 1 i.t q (not1 1 q)) q hd6 (by simpa using hq)
  have hrn : regNextV (propagateAll D.design sp).val (tregReg hasE hasR) q
      = SeqFlat.regNext hasR hasE 0 i.r i.e (mux2 1 i.t q (not1 1 q)) q := by
    simp only [regNextV, tregReg, v6]
    cases hasE <;> cases hasR <;> simp [SeqFlat.regNext, v3, v4]
  rw [hrn] at hR
  have hstep : (treg ⟨hasE, hasR⟩).step (nat q) i = nat (SeqFlat.regNext hasR hasE 0 i.r i.e (mux2 1 i.t q (not1 1 q)) q) := by
    simp only [treg, tregClk, nat_q]
    exact hnx.1
  refine ⟨⟨_, hstep, by simpa using hnx.2, hR.2, ?_, hp2⟩, ?_⟩
  · show (clk D.design 1 sp).val (tregReg hasE hasR).q = _
    rw [hR.1, hwd, Bits.put_ofNat]; exact Nat.mod_eq_of_lt hnx.2
  · rw [hstep]
    show [(clk D.design 1 sp).val (tregReg hasE hasR).q] = [(nat _).q]
    rw [hR.1, hwd, Bits.put_ofNat, Nat.mod_eq_of_lt hnx.2]
    rfl


/-- **TReg, netlist level** (all four enable/reset port options): the netlist built by the constructor, simulated by
    `Net.Sim` from power-up, shows on `q` after every `poke t,e,r; clk(1)` the after-edge output of `Lib.treg` -/
theorem treg_net (hasE hasR : Bool) (h : List TRegIn) (hv : ∀ x ∈ h, x.t < 2 ∧ x.e < 2 ∧ x.r < 2) :
    let D := (tregNet hasE hasR).netD
    netTrace D tregPokes [2] (initC D.design D.st0 D.cons) h =
      ((treg ⟨hasE, hasR⟩).trace (treg ⟨hasE, hasR⟩).init h).map (fun ab => [ab.2]) := by
  intro D
  apply netTrace_sim D (treg ⟨hasE, hasR⟩) tregPokes [2] (fun o => [o]) (fun x => x.t < 2 ∧ x.e < 2 ∧ x.r < 2) (TRegInv D)
  · intro s st i hi hI; exact treg_step hasE hasR s st i hi hI
  · exact hv
  · have hi := init_state D (tregNet_ok hasE hasR)
    have h0 := hi.2 0 (tregReg hasE hasR) (by simp [D, KNet.netD, tregNet])
    refine ⟨0, regInit_zero 1, by decide, h0.1, ?_, hi.1⟩
    have := h0.2
    simp only [tregReg] at this
    rw [this]; exact put_zero _

example : netTrace (tregNet true true).netD tregPokes [2]
    (initC (tregNet true true).netD.design (tregNet true true).netD.st0 (tregNet true true).netD.cons)
    [⟨1, 1, 0⟩, ⟨1, 1, 0⟩, ⟨0, 1, 0⟩, ⟨1, 0, 0⟩, ⟨1, 1, 1⟩] = [[1], [0], [0], [0], [0]] := by decide

/-! ## Counter -/
theorem counterNet_ok (w : Nat) (hasReset hasInc : Bool) : NetOK (counterNet w hasReset hasInc).netD := by
  refine ⟨⟨?_, ?_⟩, ?_, ?_⟩
  · cases hasReset <;> cases hasInc <;>
      simp [C04.TopoOK, NetD.comb, NetD.reads, NetD.writes, KNet.netD, counterNet, Kind.leaf]
  · intro i hi
    simp [KNet.netD, counterNet] at hi ⊢
    omega
  · intro i j R R' hi hj _
    have : i = 0 := by
      rcases i with _ | i
      · rfl
      · simp [KNet.netD, counterNet] at hi
    have : j = 0 := by
      rcases j with _ | j
      · rfl
      · simp [KNet.netD, counterNet] at hj
    omega
  · intro R hR c hc
    simp [KNet.netD, counterNet, Kind.leaf] at hR hc
    subst hR
    simp only [counterReg]
    rcases hc with rfl | rfl | rfl | rfl | rfl | rfl | rfl <;> simp

def CounterInv (w : Nat) (D : NetD) (s : State Int) (st : RegSt) : Prop :=
  ∃ q, st = nat q ∧ q < 2 ^ w ∧ s.st (D.rid 0) = (q : Int) ∧ s.val 1 = q ∧ s.prepared = []

theorem counter_step (w : Nat) (hasReset hasInc : Bool) (s : State Int) (st : RegSt) (i : CounterIn)
    (hv : i.reset < 2 ∧ i.inc < 2) (hI : CounterInv w (counterNet w hasReset hasInc).netD s st) :
    let D := (counterNet w hasReset hasInc).netD
    let s' := clk D.design 1 ((counterPokes i).foldl (putW D.design) s)
    CounterInv w D s' ((counter ⟨w, hasReset, hasInc⟩).step st i) ∧
    [1].map s'.val = [(counter ⟨w, hasReset, hasInc⟩).out ((counter ⟨w, hasReset, hasInc⟩).step st i) i] := by
  intro D s'
  obtain ⟨q, rfl, hq, hst, hvq, hp⟩ := hI
  obtain ⟨hr, hi⟩ := hv
  let sp := (counterPokes i).foldl (putW D.design) s
  have wd1 : ∀ x, (x = 2 ∨ x = 3 ∨ x = 9 ∨ x = 10) → D.wd x = 1 := by
    intro x hx; simp [D, KNet.netD, counterNet, hx]
  have wdw : ∀ x, ¬ (x = 2 ∨ x = 3 ∨ x = 9 ∨ x = 10) → D.wd x = w := by
    intro x hx; simp [D, KNet.netD, counterNet, hx]
  have spv : sp.val = upd (upd s.val 2 i.reset) 3 i.inc := by
    simp only [sp, counterPokes, List.foldl_cons, List.foldl_nil, putW_val, wd1 2 (by simp), wd1 3 (by simp), Bits.put_ofNat]
    simp [Nat.mod_eq_of_lt hr, Nat.mod_eq_of_lt hi]
  have spst : sp.st = s.st := by simp only [sp, counterPokes, List.foldl_cons, List.foldl_nil, putW_val]
  have spp : sp.prepared = [] := by simp only [sp, counterPokes, List.foldl_cons, List.foldl_nil, putW_val]; exact hp
  have hC := cycle D (counterNet_ok w hasReset hasInc) sp spp (fun _ => q) (by
    intro j hj
    have : j = 0 := by simp [D, KNet.netD, counterNet] at hj; omega
    subst this; rw [spst]; exact hst)
  obtain ⟨hreg, hfix1, _, hin1, _, hp2⟩ := hC
  have free : ∀ x, (x = 1 ∨ x = 2 ∨ x = 3) → ∀ c, c ∈ D.combs → c.out ≠ x := by
    intro x hx c hc
    cases hasReset <;> cases hasInc <;> simp [D, KNet.netD, counterNet, Kind.leaf] at hc <;>
      rcases hc with rfl | rfl | rfl | rfl | rfl | rfl | rfl <;> simp <;> omega
  have v1 : (propagateAll D.design sp).val 1 = q := by rw [hin1 1 (free 1 (by simp)), spv]; simp [upd, hvq]
  have v2 : (propagateAll D.design sp).val 2 = i.reset := by rw [hin1 2 (free 2 (by simp)), spv]; simp [upd]
  have v3 : (propagateAll D.design sp).val 3 = i.inc := by rw [hin1 3 (free 3 (by simp)), spv]; simp [upd]
  have mem : ∀ k, k ∈ (counterNet w hasReset hasInc).kinds → Kind.leaf D.wd k ∈ D.combs := by
    intro k hk; exact List.mem_map.mpr ⟨k, hk, rfl⟩
  have v4 : (propagateAll D.design sp).val 4 = const w 1 := by
    have := hfix1 _ (mem (.const 1 4) (by simp [counterNet]))
    simp only [Kind.leaf, wdw 4 (by simp)] at this
    rw [this]; exact Leaf.gen_const w 1
  have v5 : (propagateAll D.design sp).val 5 = const w 0 := by
    have := hfix1 _ (mem (.const 0 5) (by simp [counterNet]))
    simp only [Kind.leaf, wdw 5 (by simp)] at this
    rw [this]; exact Leaf.gen_const w 0
  have v10 : (propagateAll D.design sp).val 10 = const 1 0 := by
    have := hfix1 _ (mem (.const 0 10) (by simp [counterNet]))
    simp only [Kind.leaf, wd1 10 (by simp)] at this
    rw [this]; exact Leaf.gen_const 1 0
  have v6 : (propagateAll D.design sp).val 6 = addS w q (const w 1) := by
    have := hfix1 _ (mem (.addc 1 4 10 6) (by simp [counterNet]))
    simp only [Kind.leaf, List.map, SeqFlat.g, List.getD_cons_zero, List.getD_cons_succ, v1, v4, v10, wdw 6 (by simp)] at this
    rw [this]; exact Leaf.gen_addc w q (const w 1) (const 1 0)
  -- effective reset / inc wires
  have vrs : (propagateAll D.design sp).val (if hasReset then 2 else 5) = if hasReset then i.reset else const w 0 := by
    cases hasReset <;> simp [v2, v5]
  have vic : (propagateAll D.design sp).val (if hasInc then 3 else 4) = if hasInc then i.inc else const w 1 := by
    cases hasInc <;> simp [v3, v4]
  have v8 : (propagateAll D.design sp).val 8 =
      mux2 w (if hasInc then i.inc else const w 1) q (addS w q (const w 1)) := by
    have := hfix1 _ (mem (.mux2 (if hasInc then 3 else 4) 1 6 8) (by simp [counterNet]))
    simp only [Kind.leaf, List.map, SeqFlat.g, List.getD_cons_zero, List.getD_cons_succ, v1, v6, vic, wdw 8 (by simp)] at this
    rw [this]; exact Leaf.gen_mux2 w _ q _
  have v7 : (propagateAll D.design sp).val 7 =
      mux2 w (if hasReset then i.reset else const w 0)
        (mux2 w (if hasInc then i.inc else const w 1) q (addS w q (const w 1))) (const w 0) := by
    have := hfix1 _ (mem (.mux2 (if hasReset then 2 else 5) 8 5 7) (by simp [counterNet]))
    simp only [Kind.leaf, List.map, SeqFlat.g, List.getD_cons_zero, List.getD_cons_succ, v8, v5, vrs, wdw 7 (by simp)] at this
    rw [this]; exact Leaf.gen_mux2 w _ _ _
  have v9 : (propagateAll D.design sp).val 9 =
      or2 1 (if hasReset then i.reset else const w 0) (if hasInc then i.inc else const w 1) := by
    have := hfix1 _ (mem (.or2 (if hasReset then 2 else 5) (if hasInc then 3 else 4) 9) (by simp [counterNet]))
    simp only [Kind.leaf, List.map, SeqFlat.g, List.getD_cons_zero, List.getD_cons_succ, vrs, vic, wd1 9 (by simp)] at this
    rw [this]; exact Leaf.gen_or2 1 _ _
  have hR := hreg 0 counterReg (by simp [D, KNet.netD, counterNet])
  have hrn : regNextV (propagateAll D.design sp).val counterReg q =
      SeqFlat.regNext false true 0 0 ((propagateAll D.design sp).val 9) ((propagateAll D.design sp).val 7) q := by
    simp [regNextV, counterReg, SeqFlat.regNext]
  rw [hrn, v9, v7] at hR
  have hnx := nat_regNext w false true 0 (or2 1 (if hasReset then i.reset else const w 0) (if hasInc then i.inc else const w 1))
    (mux2 w (if hasReset then i.reset else const w 0)
        (mux2 w (if hasInc then i.inc else const w 1) q (addS w q (const w 1))) (const w 0)) q (mux2_lt ..) hq
  have hstep : (counter ⟨w, hasReset, hasInc⟩).step (nat q) i = nat (SeqFlat.regNext false true 0 0
      (or2 1 (if hasReset then i.reset else const w 0) (if hasInc then i.inc else const w 1))
      (mux2 w (if hasReset then i.reset else const w 0)
        (mux2 w (if hasInc then i.inc else const w 1) q (addS w q (const w 1))) (const w 0)) q) := by
    rw [← hnx.1]
    simp only [counter, counterClk, nat_q, opt]
    rfl
  have hwq : D.wd counterReg.q = w := wdw 1 (by simp)
  refine ⟨⟨_, hstep, hnx.2, hR.2, ?_, hp2⟩, ?_⟩
  · show (clk D.design 1 sp).val counterReg.q = _
    rw [hR.1, hwq, Bits.put_ofNat]; exact Nat.mod_eq_of_lt hnx.2
  · rw [hstep]
    show [(clk D.design 1 sp).val counterReg.q] = [(nat _).q]
    rw [hR.1, hwq, Bits.put_ofNat, Nat.mod_eq_of_lt hnx.2]
    rfl


/-- **Counter, netlist level** (every width, reset/inc present or absent): the netlist built by the constructor
    (2 Constants, 2 Mux2, Or2, Add = Constant + AddCarryIn, Reg — generated leaves), simulated by `Net.Sim` from power-up,
    shows on `q` after every `poke reset,inc; clk(1)` the after-edge output of `Lib.counter` -/
theorem counter_net (w : Nat) (hasReset hasInc : Bool) (h : List CounterIn) (hv : ∀ x ∈ h, x.reset < 2 ∧ x.inc < 2) :
    let D := (counterNet w hasReset hasInc).netD
    netTrace D counterPokes [1] (initC D.design D.st0 D.cons) h =
      ((counter ⟨w, hasReset, hasInc⟩).trace (counter ⟨w, hasReset, hasInc⟩).init h).map (fun ab => [ab.2]) := by
  intro D
  apply netTrace_sim D (counter ⟨w, hasReset, hasInc⟩) counterPokes [1] (fun o => [o]) (fun x => x.reset < 2 ∧ x.inc < 2)
    (CounterInv w D)
  · intro s st i hi hI; exact counter_step w hasReset hasInc s st i hi hI
  · exact hv
  · have hi := init_state D (counterNet_ok w hasReset hasInc)
    have h0 := hi.2 0 counterReg (by simp [D, KNet.netD, counterNet])
    refine ⟨0, regInit_zero w, Nat.two_pow_pos w, h0.1, ?_, hi.1⟩
    have := h0.2
    simp only [counterReg] at this
    rw [this]; exact put_zero _

example : netTrace (counterNet 2 true true).netD counterPokes [1]
    (initC (counterNet 2 true true).netD.design (counterNet 2 true true).netD.st0 (counterNet 2 true true).netD.cons)
    [⟨0, 1⟩, ⟨0, 1⟩, ⟨0, 0⟩, ⟨0, 1⟩, ⟨0, 1⟩, ⟨1, 1⟩] = [[1], [2], [2], [3], [0], [0]] := by decide

/-! ## StepUpCounter -/
theorem stepNet_ok (w sw : Nat) (hasReset hasInc : Bool) : NetOK (stepNet w sw hasReset hasInc).netD := by
  refine ⟨⟨?_, ?_⟩, ?_, ?_⟩
  · cases hasReset <;> cases hasInc <;>
      simp [C04.TopoOK, NetD.comb, NetD.reads, NetD.writes, KNet.netD, stepNet, Kind.leaf]
  · intro i hi
    cases hasInc <;> simp [KNet.netD, stepNet] at hi ⊢ <;> omega
  · intro i j R R' hi hj _
    have : i = 0 := by
      rcases i with _ | i
      · rfl
      · simp [KNet.netD, stepNet] at hi
    have : j = 0 := by
      rcases j with _ | j
      · rfl
      · simp [KNet.netD, stepNet] at hj
    omega
  · intro R hR c hc
    simp [KNet.netD, stepNet] at hR
    subst hR
    cases hasInc <;> simp [KNet.netD, stepNet, Kind.leaf] at hc <;> simp only [stepReg] <;>
      rcases hc with rfl | rfl | rfl | rfl | rfl | rfl | rfl <;> simp

def StepInv (w : Nat) (D : NetD) (s : State Int) (st : RegSt) : Prop :=
  ∃ q, st = nat q ∧ q < 2 ^ w ∧ s.st (D.rid 0) = (q : Int) ∧ s.val 1 = q ∧ s.prepared = []

theorem step_step (w sw : Nat) (hasReset hasInc : Bool) (s : State Int) (st : RegSt) (i : StepIn)
    (hv : i.reset < 2 ∧ i.inc < 2 ∧ i.step < 2 ^ sw) (hI : StepInv w (stepNet w sw hasReset hasInc).netD s st) :
    let D := (stepNet w sw hasReset hasInc).netD
    let s' := clk D.design 1 ((stepPokes i).foldl (putW D.design) s)
    StepInv w D s' ((stepUpCounter w hasReset hasInc).step st i) ∧
    [1].map s'.val = [(stepUpCounter w hasReset hasInc).out ((stepUpCounter w hasReset hasInc).step st i) i] := by
  intro D s'
  obtain ⟨q, rfl, hq, hst, hvq, hp⟩ := hI
  obtain ⟨hr, hi, hs⟩ := hv
  let sp := (stepPokes i).foldl (putW D.design) s
  have wd1 : ∀ x, (x = 2 ∨ x = 3 ∨ x = 4 ∨ x = 9 ∨ x = 10) → D.wd x = 1 := by
    intro x hx; simp [D, KNet.netD, stepNet, hx]
  have wdw : ∀ x, ¬ (x = 2 ∨ x = 3 ∨ x = 4 ∨ x = 9 ∨ x = 10) → x ≠ 11 → D.wd x = w := by
    intro x hx h11; simp [D, KNet.netD, stepNet, hx, h11]
  have wds : D.wd 11 = sw := by simp [D, KNet.netD, stepNet]
  have spv : sp.val = upd (upd (upd s.val 2 i.reset) 3 i.inc) 11 i.step := by
    simp only [sp, stepPokes, List.foldl_cons, List.foldl_nil, putW_val, wd1 2 (by simp), wd1 3 (by simp), wds, Bits.put_ofNat]
    simp [Nat.mod_eq_of_lt hr, Nat.mod_eq_of_lt hi, Nat.mod_eq_of_lt hs]
  have spst : sp.st = s.st := by simp only [sp, stepPokes, List.foldl_cons, List.foldl_nil, putW_val]
  have spp : sp.prepared = [] := by simp only [sp, stepPokes, List.foldl_cons, List.foldl_nil, putW_val]; exact hp
  have hC := cycle D (stepNet_ok w sw hasReset hasInc) sp spp (fun _ => q) (by
    intro j hj
    have : j = 0 := by simp [D, KNet.netD, stepNet] at hj; omega
    subst this; rw [spst]; exact hst)
  obtain ⟨hreg, hfix1, _, hin1, _, hp2⟩ := hC
  have free : ∀ x, (x = 1 ∨ x = 2 ∨ x = 3 ∨ x = 11) → ∀ c, c ∈ D.combs → c.out ≠ x := by
    intro x hx c hc
    cases hasReset <;> cases hasInc <;> simp [D, KNet.netD, stepNet, Kind.leaf] at hc <;>
      rcases hc with rfl | rfl | rfl | rfl | rfl | rfl | rfl <;> simp <;> omega
  have v1 : (propagateAll D.design sp).val 1 = q := by rw [hin1 1 (free 1 (by simp)), spv]; simp [upd, hvq]
  have v2 : (propagateAll D.design sp).val 2 = i.reset := by rw [hin1 2 (free 2 (by simp)), spv]; simp [upd]
  have v3 : (propagateAll D.design sp).val 3 = i.inc := by rw [hin1 3 (free 3 (by simp)), spv]; simp [upd]
  have v11 : (propagateAll D.design sp).val 11 = i.step := by rw [hin1 11 (free 11 (by simp)), spv]; simp [upd]
  have mem : ∀ k, k ∈ (stepNet w sw hasReset hasInc).kinds → Kind.leaf D.wd k ∈ D.combs := by
    intro k hk; exact List.mem_map.mpr ⟨k, hk, rfl⟩
  have v4 : hasInc = false → (propagateAll D.design sp).val 4 = const 1 1 := by
    intro hf
    have := hfix1 _ (mem (.const 1 4) (by simp [stepNet, hf]))
    simp only [Kind.leaf, wd1 4 (by simp)] at this
    rw [this]; exact Leaf.gen_const 1 1
  have v5 : (propagateAll D.design sp).val 5 = const w 0 := by
    have := hfix1 _ (mem (.const 0 5) (by cases hasInc <;> simp [stepNet]))
    simp only [Kind.leaf, wdw 5 (by simp) (by simp)] at this
    rw [this]; exact Leaf.gen_const w 0
  have v10 : (propagateAll D.design sp).val 10 = const 1 0 := by
    have := hfix1 _ (mem (.const 0 10) (by cases hasInc <;> simp [stepNet]))
    simp only [Kind.leaf, wd1 10 (by simp)] at this
    rw [this]; exact Leaf.gen_const 1 0
  have v6 : (propagateAll D.design sp).val 6 = addS w q i.step := by
    have := hfix1 _ (mem (.addc 1 11 10 6) (by cases hasInc <;> simp [stepNet]))
    simp only [Kind.leaf, List.map, SeqFlat.g, List.getD_cons_zero, List.getD_cons_succ, v1, v11, v10, wdw 6 (by simp) (by simp)] at this
    rw [this]; exact Leaf.gen_addc w q i.step (const 1 0)
  -- effective reset / inc wires
  have vrs : (propagateAll D.design sp).val (if hasReset then 2 else 5) = if hasReset then i.reset else const w 0 := by
    cases hasReset <;> simp [v2, v5]
  have vic : (propagateAll D.design sp).val (if hasInc then 3 else 4) = if hasInc then i.inc else const 1 1 := by
    cases hasInc
    · simp [v4 rfl]
    · simp [v3]
  have v8 : (propagateAll D.design sp).val 8 =
      mux2 w (if hasInc then i.inc else const 1 1) q (addS w q i.step) := by
    have := hfix1 _ (mem (.mux2 (if hasInc then 3 else 4) 1 6 8) (by cases hasInc <;> simp [stepNet]))
    simp only [Kind.leaf, List.map, SeqFlat.g, List.getD_cons_zero, List.getD_cons_succ, v1, v6, vic, wdw 8 (by simp) (by simp)] at this
    rw [this]; exact Leaf.gen_mux2 w _ q _
  have v7 : (propagateAll D.design sp).val 7 =
      mux2 w (if hasReset then i.reset else const w 0)
        (mux2 w (if hasInc then i.inc else const 1 1) q (addS w q i.step)) (const w 0) := by
    have := hfix1 _ (mem (.mux2 (if hasReset then 2 else 5) 8 5 7) (by cases hasInc <;> simp [stepNet]))
    simp only [Kind.leaf, List.map, SeqFlat.g, List.getD_cons_zero, List.getD_cons_succ, v8, v5, vrs, wdw 7 (by simp) (by simp)] at this
    rw [this]; exact Leaf.gen_mux2 w _ _ _
  have v9 : (propagateAll D.design sp).val 9 =
      or2 1 (if hasReset then i.reset else const w 0) (if hasInc then i.inc else const 1 1) := by
    have := hfix1 _ (mem (.or2 (if hasReset then 2 else 5) (if hasInc then 3 else 4) 9) (by cases hasInc <;> simp [stepNet]))
    simp only [Kind.leaf, List.map, SeqFlat.g, List.getD_cons_zero, List.getD_cons_succ, vrs, vic, wd1 9 (by simp)] at this
    rw [this]; exact Leaf.gen_or2 1 _ _
  have hR := hreg 0 stepReg (by simp [D, KNet.netD, stepNet])
  have hrn : regNextV (propagateAll D.design sp).val stepReg q =
      SeqFlat.regNext false true 0 0 ((propagateAll D.design sp).val 9) ((propagateAll D.design sp).val 7) q := by
    simp [regNextV, stepReg, SeqFlat.regNext]
  rw [hrn, v9, v7] at hR
  have hnx := nat_regNext w false true 0 (or2 1 (if hasReset then i.reset else const w 0) (if hasInc then i.inc else const 1 1))
    (mux2 w (if hasReset then i.reset else const w 0)
        (mux2 w (if hasInc then i.inc else const 1 1) q (addS w q i.step)) (const w 0)) q (mux2_lt ..) hq
  have hstep : (stepUpCounter w hasReset hasInc).step (nat q) i = nat (SeqFlat.regNext false true 0 0
      (or2 1 (if hasReset then i.reset else const w 0) (if hasInc then i.inc else const 1 1))
      (mux2 w (if hasReset then i.reset else const w 0)
        (mux2 w (if hasInc then i.inc else const 1 1) q (addS w q i.step)) (const w 0)) q) := by
    rw [← hnx.1]
    simp only [counter, counterClk, nat_q, opt]
    rfl
  have hwq : D.wd stepReg.q = w := wdw 1 (by simp) (by simp)
  refine ⟨⟨_, hstep, hnx.2, hR.2, ?_, hp2⟩, ?_⟩
  · show (clk D.design 1 sp).val stepReg.q = _
    rw [hR.1, hwq, Bits.put_ofNat]; exact Nat.mod_eq_of_lt hnx.2
  · rw [hstep]
    show [(clk D.design 1 sp).val stepReg.q] = [(nat _).q]
    rw [hR.1, hwq, Bits.put_ofNat, Nat.mod_eq_of_lt hnx.2]
    rfl


/-- **StepUpCounter, netlist level** (every width, every step-wire width, reset present or absent, inc present or
    `inc=None`) -/
theorem stepUpCounter_net (w sw : Nat) (hasReset hasInc : Bool) (h : List StepIn)
    (hv : ∀ x ∈ h, x.reset < 2 ∧ x.inc < 2 ∧ x.step < 2 ^ sw) :
    let D := (stepNet w sw hasReset hasInc).netD
    netTrace D stepPokes [1] (initC D.design D.st0 D.cons) h =
      ((stepUpCounter w hasReset hasInc).trace (stepUpCounter w hasReset hasInc).init h).map (fun ab => [ab.2]) := by
  intro D
  apply netTrace_sim D (stepUpCounter w hasReset hasInc) stepPokes [1] (fun o => [o])
    (fun x => x.reset < 2 ∧ x.inc < 2 ∧ x.step < 2 ^ sw) (StepInv w D)
  · intro s st i hi hI; exact step_step w sw hasReset hasInc s st i hi hI
  · exact hv
  · have hi := init_state D (stepNet_ok w sw hasReset hasInc)
    have h0 := hi.2 0 stepReg (by simp [D, KNet.netD, stepNet])
    refine ⟨0, regInit_zero w, Nat.two_pow_pos w, h0.1, ?_, hi.1⟩
    have := h0.2
    simp only [stepReg] at this
    rw [this]; exact put_zero _

example : netTrace (stepNet 3 3 true false).netD stepPokes [1]
    (initC (stepNet 3 3 true false).netD.design (stepNet 3 3 true false).netD.st0 (stepNet 3 3 true false).netD.cons)
    [⟨0, 0, 3⟩, ⟨0, 0, 3⟩, ⟨1, 0, 1⟩, ⟨0, 0, 7⟩] = [[3], [6], [0], [7]] := by decide

/-! ## DelayLine -/
theorem delay_regs_get (c : DelayCfg) (j : Nat) (R : RLeaf) (h : (delayNet c).netD.regs[j]? = some R) :
    j < c.delay ∧ R = delayReg c j := by
  simp only [KNet.netD, delayNet, List.getElem?_map] at h
  by_cases hj : j < c.delay
  · rw [List.getElem?_range hj] at h
    simp at h
    exact ⟨hj, h.symm⟩
  · rw [List.getElem?_eq_none (by simp; omega)] at h
    simp at h

theorem delayNet_ok (c : DelayCfg) : NetOK (delayNet c).netD := by
  refine ⟨⟨?_, ?_⟩, ?_, ?_⟩
  · by_cases h0 : c.delay = 0 <;>
      simp [C04.TopoOK, NetD.comb, NetD.reads, NetD.writes, KNet.netD, delayNet, Kind.leaf, h0] <;> omega
  · intro i hi
    simp [KNet.netD, delayNet] at hi ⊢
    omega
  · intro i j R R' hi hj e
    obtain ⟨_, rfl⟩ := delay_regs_get c i R hi
    obtain ⟨_, rfl⟩ := delay_regs_get c j R' hj
    simp only [delayReg] at e
    omega
  · intro R hR c' hc
    obtain ⟨j, hj, hjR⟩ := List.mem_iff_getElem.mp hR
    obtain ⟨_, rfl⟩ := delay_regs_get c j R (by rw [List.getElem?_eq_getElem hj, hjR])
    simp [KNet.netD, delayNet, Kind.leaf] at hc
    subst hc
    simp [delayReg]
    omega

def DelayInv (c : DelayCfg) (D : NetD) (s : State Int) (st : List RegSt) : Prop :=
  ∃ l : List Nat, st = l.map nat ∧ l.length = c.delay ∧ (∀ x ∈ l, x < 2 ^ c.w) ∧
    (∀ j, j < c.delay → s.st (D.rid j) = (l.getD j 0 : Nat) ∧ s.val (5 + j) = l.getD j 0) ∧ s.prepared = []

/-- next cell list, as the reference machine computes it -/
def delayNext (c : DelayCfg) (i : DelayIn) (l : List Nat) : List Nat :=
  if opt c.hasReset i.reset = some 1 then List.replicate l.length 0
  else if opt c.hasEn i.en = some 0 then l else (i.a :: l).take l.length

theorem delayNext_get (c : DelayCfg) (i : DelayIn) (l : List Nat) (j : Nat) (hj : j < l.length) :
    (delayNext c i l).getD j 0 =
      SeqFlat.regNext c.hasReset c.hasEn 0 i.reset i.en (if j = 0 then i.a else l.getD (j - 1) 0) (l.getD j 0) := by
  unfold delayNext SeqFlat.regNext
  simp only [opt_eq_some]
  by_cases h1 : c.hasReset = true ∧ i.reset = 1
  · simp [h1, List.getD_eq_getElem?_getD, List.getElem?_replicate, hj]
  · by_cases h2 : c.hasEn = true ∧ i.en = 0
    · have h1' : (c.hasReset && i.reset == 1) = false := by
        cases hr : c.hasReset <;> simp_all
      simp [h1, h2, h1']
    · have h1' : (c.hasReset && i.reset == 1) = false := by
        cases hr : c.hasReset <;> simp_all
      have h2' : (c.hasEn && i.en == 0) = false := by
        cases he : c.hasEn <;> simp_all
      simp only [h1, h2, h1', h2', if_false, Bool.false_eq_true]
      simp only [List.getD_eq_getElem?_getD, List.getElem?_take, hj, if_true, List.getElem?_cons]
      by_cases h0 : j = 0
      · simp [h0]
      · simp [h0]

theorem delayNext_len (c : DelayCfg) (i : DelayIn) (l : List Nat) : (delayNext c i l).length = l.length := by
  unfold delayNext
  repeat' split
  · simp
  · rfl
  · simp [List.length_take]

theorem delayNext_lt (c : DelayCfg) (i : DelayIn) (l : List Nat) (hi : i.a < 2 ^ c.w) (hall : ∀ x ∈ l, x < 2 ^ c.w) :
    ∀ x ∈ delayNext c i l, x < 2 ^ c.w := by
  intro x hx
  unfold delayNext at hx
  repeat' split at hx
  · simp only [List.mem_replicate] at hx; rw [hx.2]; exact Nat.two_pow_pos _
  · exact hall x hx
  · rcases List.mem_cons.mp (List.mem_of_mem_take hx) with rfl | h
    · exact hi
    · exact hall x h

theorem delay_model_step (c : DelayCfg) (i : DelayIn) (l : List Nat) (hi : i.a < 2 ^ c.w) (hall : ∀ x ∈ l, x < 2 ^ c.w) :
    (delayLine c).step (l.map nat) i = (delayNext c i l).map nat := by
  simp only [delayLine, delayNext]
  exact chainClk_nat c.w _ _ l i.a hi hall

theorem delay_step (c : DelayCfg) (s : State Int) (st : List RegSt) (i : DelayIn)
    (hv : i.a < 2 ^ c.w ∧ i.en < 2 ∧ i.reset < 2) (hI : DelayInv c (delayNet c).netD s st) :
    let D := (delayNet c).netD
    let s' := clk D.design 1 ((delayPokes i).foldl (putW D.design) s)
    DelayInv c D s' ((delayLine c).step st i) ∧
    [2].map s'.val = [(delayLine c).out ((delayLine c).step st i) i] := by
  intro D s'
  obtain ⟨l, rfl, hlen, hall, hreg0, hp⟩ := hI
  obtain ⟨ha, he, hr⟩ := hv
  let sp := (delayPokes i).foldl (putW D.design) s
  have wd1 : ∀ x, (x = 3 ∨ x = 4) → D.wd x = 1 := by intro x hx; simp [D, KNet.netD, delayNet, hx]
  have wdw : ∀ x, ¬ (x = 3 ∨ x = 4) → D.wd x = c.w := by intro x hx; simp [D, KNet.netD, delayNet, hx]
  have spv : sp.val = upd (upd (upd s.val 1 i.a) 3 i.en) 4 i.reset := by
    simp only [sp, delayPokes, List.foldl_cons, List.foldl_nil, putW_val, wd1 3 (by simp), wd1 4 (by simp),
      wdw 1 (by simp), Bits.put_ofNat]
    simp [Nat.mod_eq_of_lt ha, Nat.mod_eq_of_lt he, Nat.mod_eq_of_lt hr]
  have spst : sp.st = s.st := by simp only [sp, delayPokes, List.foldl_cons, List.foldl_nil, putW_val]
  have spp : sp.prepared = [] := by simp only [sp, delayPokes, List.foldl_cons, List.foldl_nil, putW_val]; exact hp
  have hrl : D.regs.length = c.delay := by simp [D, KNet.netD, delayNet]
  have hC := cycle D (delayNet_ok c) sp spp (fun j => l.getD j 0) (by
    intro j hj; rw [spst]; exact (hreg0 j (by omega)).1)
  obtain ⟨hreg, hfix1, hfix2, hin1, hin2, hp2⟩ := hC
  have free : ∀ x, x ≠ 2 → ∀ c', c' ∈ D.combs → c'.out ≠ x := by
    intro x hx c' hc
    simp [D, KNet.netD, delayNet, Kind.leaf] at hc
    subst hc; simp; omega
  have v1 : (propagateAll D.design sp).val 1 = i.a := by rw [hin1 1 (free 1 (by simp)), spv]; simp [upd]
  have v3 : (propagateAll D.design sp).val 3 = i.en := by rw [hin1 3 (free 3 (by simp)), spv]; simp [upd]
  have v4 : (propagateAll D.design sp).val 4 = i.reset := by rw [hin1 4 (free 4 (by simp)), spv]; simp [upd]
  have vq : ∀ j, j < c.delay → (propagateAll D.design sp).val (5 + j) = l.getD j 0 := by
    intro j hj
    rw [hin1 (5 + j) (free _ (by omega)), spv]
    simp only [upd]
    rw [if_neg (by omega), if_neg (by omega), if_neg (by omega)]
    exact (hreg0 j hj).2
  -- every register's next value is the reference machine's next cell
  have hnext : ∀ j, j < c.delay →
      regNextV (propagateAll D.design sp).val (delayReg c j) (l.getD j 0) = (delayNext c i l).getD j 0 := by
    intro j hj
    rw [delayNext_get c i l j (by omega)]
    have hd : (propagateAll D.design sp).val (if j = 0 then 1 else 4 + j) = if j = 0 then i.a else l.getD (j - 1) 0 := by
      by_cases h0 : j = 0
      · simp [h0, v1]
      · simp only [h0, if_false]
        have : 4 + j = 5 + (j - 1) := by omega
        rw [this, vq (j - 1) (by omega)]
    simp only [regNextV, delayReg, hd]
    cases hE : c.hasEn <;> cases hRr : c.hasReset <;> simp [SeqFlat.regNext, v3, v4]
  have hlt' := delayNext_lt c i l ha hall
  have hlen' : (delayNext c i l).length = c.delay := by rw [delayNext_len, hlen]
  have getlt : ∀ j, (delayNext c i l).getD j 0 < 2 ^ c.w := by
    intro j
    simp only [List.getD_eq_getElem?_getD]
    cases h : (delayNext c i l)[j]? with
    | none => exact Nat.two_pow_pos _
    | some v => exact hlt' v (List.mem_of_getElem? h)
  have hregs : ∀ j, j < c.delay →
      (clk D.design 1 sp).st (D.rid j) = ((delayNext c i l).getD j 0 : Nat) ∧
      (clk D.design 1 sp).val (5 + j) = (delayNext c i l).getD j 0 := by
    intro j hj
    have hget : D.regs[j]? = some (delayReg c j) := by
      simp [D, KNet.netD, delayNet, List.getElem?_map, List.getElem?_range hj]
    have := hreg j (delayReg c j) hget
    rw [hnext j hj] at this
    refine ⟨this.2, ?_⟩
    have hq : (delayReg c j).q = 5 + j := rfl
    rw [hq] at this
    rw [this.1, wdw (5 + j) (by omega), Bits.put_ofNat]
    exact Nat.mod_eq_of_lt (getlt j)
  have hstep := delay_model_step c i l ha hall
  refine ⟨⟨delayNext c i l, hstep, hlen', hlt', hregs, hp2⟩, ?_⟩
  -- the output wire: Buf of the last cell (or of `a` when delay = 0)
  rw [hstep]
  simp only [List.map, delayLine, chainLast_nat]
  have hb := hfix2 (Kind.leaf D.wd (.buf (if c.delay = 0 then 1 else 4 + c.delay) 2)) (by simp [D, KNet.netD, delayNet])
  simp only [Kind.leaf, List.map, SeqFlat.g, List.getD_cons_zero, wdw 2 (by simp)] at hb
  show [(clk D.design 1 sp).val 2] = _
  rw [hb]
  have hlast : (clk D.design 1 sp).val (if c.delay = 0 then 1 else 4 + c.delay) = (delayNext c i l).getLast?.getD i.a := by
    by_cases h0 : c.delay = 0
    · have : delayNext c i l = [] := List.eq_nil_of_length_eq_zero (by rw [hlen', h0])
      simp only [h0, if_true, this, List.getLast?_nil, Option.getD_none]
      rw [hin2 1 (free 1 (by simp)) (by
        intro R hR
        obtain ⟨j, hj, hjR⟩ := List.mem_iff_getElem.mp hR
        obtain ⟨_, rfl⟩ := delay_regs_get c j R (by rw [List.getElem?_eq_getElem hj, hjR])
        simp [delayReg]
        omega), spv]
      simp [upd]
    · simp only [h0, if_false]
      have : 4 + c.delay = 5 + (c.delay - 1) := by omega
      rw [this, (hregs (c.delay - 1) (by omega)).2, List.getLast?_eq_getElem?, hlen', List.getD_eq_getElem?_getD]
      have hl : c.delay - 1 < (delayNext c i l).length := by omega
      rw [List.getElem?_eq_getElem hl]
      rfl
  rw [hlast]
  exact congrArg (fun x => [x]) (Leaf.gen_buf c.w _)

/-- **DelayLine, netlist level** (every width, every delay incl. 0, enable/reset present or absent): the chain of `delay`
    generated Reg leaves and the Buf, simulated by `Net.Sim` from power-up, shows on `r` after every
    `poke a,en,reset; clk(1)` the after-edge output of `Lib.delayLine` -/
theorem delayLine_net (c : DelayCfg) (h : List DelayIn) (hv : ∀ x ∈ h, x.a < 2 ^ c.w ∧ x.en < 2 ∧ x.reset < 2) :
    let D := (delayNet c).netD
    netTrace D delayPokes [2] (initC D.design D.st0 D.cons) h =
      ((delayLine c).trace (delayLine c).init h).map (fun ab => [ab.2]) := by
  intro D
  apply netTrace_sim D (delayLine c) delayPokes [2] (fun o => [o]) (fun x => x.a < 2 ^ c.w ∧ x.en < 2 ∧ x.reset < 2)
    (DelayInv c D)
  · intro s st i hi hI; exact delay_step c s st i hi hI
  · exact hv
  · have hi := init_state D (delayNet_ok c)
    refine ⟨List.replicate c.delay 0, by simp [delayLine, regInit_zero], by simp, ?_, ?_, hi.1⟩
    · intro x hx; simp only [List.mem_replicate] at hx; rw [hx.2]; exact Nat.two_pow_pos _
    · intro j hj
      have hget : D.regs[j]? = some (delayReg c j) := by
        simp [D, KNet.netD, delayNet, List.getElem?_map, List.getElem?_range hj]
      have h0 := hi.2 j (delayReg c j) hget
      have e0 : (List.replicate c.delay 0).getD j 0 = 0 := by
        simp [List.getD_eq_getElem?_getD, List.getElem?_replicate, hj]
      rw [e0]
      refine ⟨h0.1, ?_⟩
      have := h0.2
      simp only [delayReg] at this
      rw [this]; exact put_zero _

example : netTrace (delayNet ⟨4, 2, true, true⟩).netD delayPokes [2]
    (initC (delayNet ⟨4, 2, true, true⟩).netD.design (delayNet ⟨4, 2, true, true⟩).netD.st0 (delayNet ⟨4, 2, true, true⟩).netD.cons)
    [⟨3, 1, 0⟩, ⟨4, 1, 0⟩, ⟨5, 1, 0⟩, ⟨6, 0, 0⟩, ⟨7, 1, 1⟩] = [[0], [3], [4], [4], [0]] := by decide


/-! ## EdgeDetector -/

theorem edgeNet_ok (dir : Dir) : NetOK (edgeNet dir).netD := by
  refine ⟨⟨?_, ?_⟩, ?_, ?_⟩
  · cases dir <;> simp [C04.TopoOK, NetD.comb, NetD.reads, NetD.writes, KNet.netD, edgeNet, Kind.leaf]
  · intro i hi
    cases dir <;> simp [KNet.netD, edgeNet] at hi ⊢ <;> omega
  · intro i j R R' hi hj _
    have : i = 0 := by
      rcases i with _ | i
      · rfl
      · simp [KNet.netD, edgeNet] at hi
    have : j = 0 := by
      rcases j with _ | j
      · rfl
      · simp [KNet.netD, edgeNet] at hj
    omega
  · intro R hR c hc
    simp [KNet.netD, edgeNet] at hR
    subst hR
    cases dir <;> simp [KNet.netD, edgeNet, Kind.leaf] at hc <;> simp only [edgeReg]
    · rcases hc with rfl | rfl <;> simp
    · rcases hc with rfl | rfl <;> simp
    · rcases hc with rfl | rfl | rfl | rfl | rfl | rfl | rfl | rfl <;> simp

/-- the combinational part of the EdgeDetector netlist at its fixpoint: `r` = the model's output function -/
theorem edge_comb (dir : Dir) (V : Nat → Nat) (hfix2 : CombFix (edgeNet dir).netD V) (a p : Nat) (w1 : V 1 = a) (w3 : V 3 = p) :
    V 2 = (edgeDetector dir).out (nat p) a := by
  let D := (edgeNet dir).netD
  have hwd : ∀ w, D.wd w = 1 := fun _ => rfl
  have mem : ∀ k, k ∈ (edgeNet dir).kinds → Kind.leaf D.wd k ∈ D.combs := by
    intro k hk; exact List.mem_map.mpr ⟨k, hk, rfl⟩
  have NOT : ∀ x y v, Kind.not1 x y ∈ (edgeNet dir).kinds → V x = v →
      V y = not1 1 v := by
    intro x y v hk hx
    have := hfix2 _ (mem _ hk)
    simp only [Kind.leaf, List.map, SeqFlat.g, List.getD_cons_zero, hx, hwd] at this
    rw [this]; exact Leaf.gen_not 1 v
  have AND : ∀ x y z u v, Kind.and2 x y z ∈ (edgeNet dir).kinds → V x = u →
      V y = v → V z = and2 1 u v := by
    intro x y z u v hk hx hy
    have := hfix2 _ (mem _ hk)
    simp only [Kind.leaf, List.map, SeqFlat.g, List.getD_cons_zero, List.getD_cons_succ, hx, hy, hwd] at this
    rw [this]; exact Leaf.gen_and2 1 u v
  cases dir
  · have w5 := NOT 3 5 p (by simp [edgeNet]) w3
    have w2 := AND 1 5 2 _ _ (by simp [edgeNet]) w1 w5
    rw [w2]; rfl
  · have w4 := NOT 1 4 a (by simp [edgeNet]) w1
    have w2 := AND 4 3 2 _ _ (by simp [edgeNet]) w4 w3
    rw [w2]; rfl
  · have w9 := AND 1 3 9 _ _ (by simp [edgeNet]) w1 w3
    have w6 := NOT 9 6 _ (by simp [edgeNet]) w9
    have w10 := AND 1 6 10 _ _ (by simp [edgeNet]) w1 w6
    have w7 := NOT 10 7 _ (by simp [edgeNet]) w10
    have w11 := AND 3 6 11 _ _ (by simp [edgeNet]) w3 w6
    have w8 := NOT 11 8 _ (by simp [edgeNet]) w11
    have w12 := AND 7 8 12 _ _ (by simp [edgeNet]) w7 w8
    have w2 := NOT 12 2 _ (by simp [edgeNet]) w12
    rw [w2]; rfl


def EdgeInv (D : NetD) (s : State Int) (st : RegSt) : Prop :=
  ∃ p, st = nat p ∧ p < 2 ∧ s.st (D.rid 0) = (p : Int) ∧ s.val 3 = p ∧ s.prepared = []

theorem edge_step (dir : Dir) (s : State Int) (st : RegSt) (a : Nat) (ha : a < 2) (hI : EdgeInv (edgeNet dir).netD s st) :
    let D := (edgeNet dir).netD
    let s' := clk D.design 1 ((edgePokes a).foldl (putW D.design) s)
    EdgeInv D s' ((edgeDetector dir).step st a) ∧
    [2].map s'.val = [(edgeDetector dir).out ((edgeDetector dir).step st a) a] := by
  intro D s'
  obtain ⟨p, rfl, hp2, hst, hvq, hp⟩ := hI
  let sp := (edgePokes a).foldl (putW D.design) s
  have hwd : ∀ w, D.wd w = 1 := fun _ => rfl
  have spv : sp.val = upd s.val 1 a := by
    simp only [sp, edgePokes, List.foldl_cons, List.foldl_nil, putW_val, hwd, Bits.put_ofNat]
    simp [Nat.mod_eq_of_lt ha]
  have spst : sp.st = s.st := by simp only [sp, edgePokes, List.foldl_cons, List.foldl_nil, putW_val]
  have spp : sp.prepared = [] := by simp only [sp, edgePokes, List.foldl_cons, List.foldl_nil, putW_val]; exact hp
  have hC := cycle D (edgeNet_ok dir) sp spp (fun _ => p) (by
    intro j hj
    have : j = 0 := by simp [D, KNet.netD, edgeNet] at hj; omega
    subst this; rw [spst]; exact hst)
  obtain ⟨hreg, _, hfix2, hin1, hin2, hpp⟩ := hC
  have free1 : ∀ c, c ∈ D.combs → c.out ≠ 1 := by
    intro c hc
    cases dir <;> simp [D, KNet.netD, edgeNet, Kind.leaf] at hc
    · rcases hc with rfl | rfl <;> simp
    · rcases hc with rfl | rfl <;> simp
    · rcases hc with rfl | rfl | rfl | rfl | rfl | rfl | rfl | rfl <;> simp
  have v1 : (propagateAll D.design sp).val 1 = a := by rw [hin1 1 free1, spv]; simp [upd]
  have w1 : (clk D.design 1 sp).val 1 = a := by
    rw [hin2 1 free1 (by intro R hR; simp [D, KNet.netD, edgeNet] at hR; subst hR; simp [edgeReg]), spv]; simp [upd]
  have hR := hreg 0 edgeReg (by simp [D, KNet.netD, edgeNet])
  have hrn : regNextV (propagateAll D.design sp).val edgeReg p = a := by
    simp [regNextV, edgeReg, SeqFlat.regNext, v1]
  rw [hrn] at hR
  have hstep : (edgeDetector dir).step (nat p) a = nat a := by
    simp only [edgeDetector]
    rw [regClk_nat 1 none none a p (by omega) (by omega)]
    simp
  have w3 : (clk D.design 1 sp).val 3 = a := by
    have := hR.1
    simp only [edgeReg, hwd, Bits.put_ofNat] at this
    rw [this]; exact Nat.mod_eq_of_lt ha
  refine ⟨⟨a, hstep, ha, hR.2, w3, hpp⟩, ?_⟩
  rw [hstep]
  simp only [List.map]
  rw [edge_comb dir _ hfix2 a a w1 w3]

/-- **EdgeDetector, netlist level** (pos / neg / both; `both` through the Xor2 = 4 × Nand2 = 8 leaves): the netlist
    built by the constructor, simulated by `Net.Sim` from power-up, shows on `r` after every `poke a; clk(1)` the
    after-edge output of `Lib.edgeDetector` -/
theorem edgeDetector_netD (dir : Dir) (h : List Nat) (hv : ∀ x ∈ h, x < 2) :
    let D := (edgeNet dir).netD
    netTrace D edgePokes [2] (initC D.design D.st0 D.cons) h =
      ((edgeDetector dir).trace (edgeDetector dir).init h).map (fun ab => [ab.2]) := by
  intro D
  apply netTrace_sim D (edgeDetector dir) edgePokes [2] (fun o => [o]) (fun x => x < 2) (EdgeInv D)
  · intro s st i hi hI; exact edge_step dir s st i hi hI
  · exact hv
  · have hi := init_state D (edgeNet_ok dir)
    have h0 := hi.2 0 edgeReg (by simp [D, KNet.netD, edgeNet])
    refine ⟨0, regInit_zero 1, by decide, h0.1, ?_, hi.1⟩
    have := h0.2
    simp only [edgeReg] at this
    rw [this]; exact put_zero _

/-- state of the netlist after the history `h` of `poke; clk(1)` -/
def netRun {ι : Type} (D : NetD) (pokes : ι → List (Nat × Int)) (s : State Int) (h : List ι) : State Int :=
  h.foldl (fun s i => clk D.design 1 ((pokes i).foldl (putW D.design) s)) s

/-- … and BEFORE the edge (the observation that matters for an edge detector): after any history, poking a new input
    and letting the netlist settle (`sim.clk(0)`) shows on `r` the model's output for that input -/
theorem edgeDetector_netD_pre (dir : Dir) (h : List Nat) (hv : ∀ x ∈ h, x < 2) (a : Nat) (ha : a < 2) :
    let D := (edgeNet dir).netD
    (propagateAll D.design ((edgePokes a).foldl (putW D.design) (netRun D edgePokes (initC D.design D.st0 D.cons) h))).val 2 =
      (edgeDetector dir).out ((edgeDetector dir).run h) a := by
  intro D
  have hinv : ∀ (h : List Nat) (s : State Int) (st : RegSt), (∀ x ∈ h, x < 2) → EdgeInv D s st →
      EdgeInv D (netRun D edgePokes s h) (h.foldl (edgeDetector dir).step st) := by
    intro h
    induction h with
    | nil => intro s st _ hI; exact hI
    | cons x t ih =>
      intro s st hv hI
      exact ih _ _ (fun y hy => hv y (List.mem_cons_of_mem _ hy)) (edge_step dir s st x (hv x (List.mem_cons_self ..)) hI).1
  have h0 : EdgeInv D (initC D.design D.st0 D.cons) (edgeDetector dir).init := by
    have hi := init_state D (edgeNet_ok dir)
    have h0 := hi.2 0 edgeReg (by simp [D, KNet.netD, edgeNet])
    refine ⟨0, regInit_zero 1, by decide, h0.1, ?_, hi.1⟩
    have := h0.2
    simp only [edgeReg] at this
    rw [this]; exact put_zero _
  obtain ⟨p, hst, hp2, _, hvq, _⟩ := hinv h _ _ hv h0
  simp only [Machine.run]
  rw [hst]
  have hwd : ∀ w, D.wd w = 1 := fun _ => rfl
  have free : ∀ x, (x = 1 ∨ x = 3) → ∀ c, c ∈ D.combs → c.out ≠ x := by
    intro x hx c hc
    cases dir <;> simp [D, KNet.netD, edgeNet, Kind.leaf] at hc
    · rcases hc with rfl | rfl <;> simp <;> omega
    · rcases hc with rfl | rfl <;> simp <;> omega
    · rcases hc with rfl | rfl | rfl | rfl | rfl | rfl | rfl | rfl <;> simp <;> omega
  apply edge_comb dir _ (propagate_combfix D (edgeNet_ok dir).sched _) a p
  · rw [propagate_val_other D _ 1 (free 1 (by simp))]
    simp only [edgePokes, List.foldl_cons, List.foldl_nil, putW_val, hwd, Bits.put_ofNat, upd]
    simp [Nat.mod_eq_of_lt ha]
  · rw [propagate_val_other D _ 3 (free 3 (by simp))]
    simp only [edgePokes, List.foldl_cons, List.foldl_nil, putW_val, hwd, upd]
    simp [hvq]

example : (propagateAll (edgeNet .pos).netD.design ((edgePokes 1).foldl (putW (edgeNet .pos).netD.design)
    (netRun (edgeNet .pos).netD edgePokes (initC (edgeNet .pos).netD.design (edgeNet .pos).netD.st0 (edgeNet .pos).netD.cons)
      [0, 1, 0]))).val 2 = 1 := by decide


/-! ## ShiftRegisterBidirectional -/

theorem srb_kinds_get (w depth k : Nat) (hk : k < depth + 3) :
    (srbNet w depth).netD.combs[k]? = some (Kind.leaf (srbNet w depth).wd (srbKind depth k)) := by
  simp [KNet.netD, srbNet, List.getElem?_map, List.getElem?_range hk]

theorem srb_kinds_none (w depth k : Nat) (hk : ¬ k < depth + 3) : (srbNet w depth).netD.combs[k]? = none := by
  apply List.getElem?_eq_none
  simp [KNet.netD, srbNet]; omega

theorem srb_regs_get (w depth : Nat) (j : Nat) (R : RLeaf) (h : (srbNet w depth).netD.regs[j]? = some R) :
    j < depth ∧ R = srbReg depth j := by
  simp only [KNet.netD, srbNet, List.getElem?_map] at h
  by_cases hj : j < depth
  · rw [List.getElem?_range hj] at h
    simp at h
    exact ⟨hj, h.symm⟩
  · rw [List.getElem?_eq_none (by simp; omega)] at h
    simp at h

theorem srbKind_0 (depth : Nat) : srbKind depth 0 = .or2 5 6 7 := by simp [srbKind]
theorem srbKind_mux (depth k : Nat) (hk : k < depth) : srbKind depth (k + 1) =
    .mux2 5 (if k = 0 then 1 else 8 + k - 1) (if k = depth - 1 then 2 else 8 + k + 1) (8 + depth + k) := by
  have : k + 1 ≤ depth := by omega
  simp [srbKind, this]
theorem srbKind_lo (depth : Nat) : srbKind depth (depth + 1) = .buf 8 3 := by simp [srbKind]
theorem srbKind_ro (depth : Nat) : srbKind depth (depth + 2) = .buf (8 + depth - 1) 4 := by
  have h1 : ¬ (depth + 2 ≤ depth) := by omega
  simp [srbKind, h1]

/-- what leaf k reads / writes -/
theorem srb_rw (w depth k : Nat) (hd : 0 < depth) :
    (∀ x, x ∈ (srbNet w depth).netD.reads k → x = 1 ∨ x = 2 ∨ x = 5 ∨ x = 6 ∨ (8 ≤ x ∧ x < 8 + depth)) ∧
    (∀ x, x ∈ (srbNet w depth).netD.writes k → k < depth + 3 ∧
      x = (if k = 0 then 7 else if k ≤ depth then 8 + depth + (k - 1) else if k = depth + 1 then 3 else 4)) := by
  by_cases hk : k < depth + 3
  · simp only [NetD.reads, NetD.writes, srb_kinds_get w depth k hk]
    have cases4 : k = 0 ∨ (∃ j, j < depth ∧ k = j + 1) ∨ k = depth + 1 ∨ k = depth + 2 := by
      rcases Nat.eq_zero_or_pos k with h | h
      · exact Or.inl h
      · by_cases h1 : k ≤ depth
        · exact Or.inr (Or.inl ⟨k - 1, by omega, by omega⟩)
        · omega
    rcases cases4 with rfl | ⟨j, hj, rfl⟩ | rfl | rfl
    · rw [srbKind_0]; simp [Kind.leaf]
    · rw [srbKind_mux depth j hj]
      have hle : j + 1 ≤ depth := by omega
      simp only [Kind.leaf]
      constructor
      · intro x hx
        simp at hx
        rcases hx with rfl | rfl | rfl
        · simp
        · by_cases h : j = depth - 1 <;> simp [h] <;> omega
        · by_cases h : j = 0 <;> simp [h] <;> omega
      · intro x hx; simp at hx; subst hx; simp [hle]; omega
    · rw [srbKind_lo]
      simp only [Kind.leaf]
      constructor
      · intro x hx; simp at hx; subst hx; omega
      · intro x hx; simp at hx; subst hx
        have : ¬ (depth + 1 ≤ depth) := by omega
        simp [this]
    · rw [srbKind_ro]
      simp only [Kind.leaf]
      constructor
      · intro x hx; simp at hx; subst hx; omega
      · intro x hx; simp at hx; subst hx
        have : ¬ (depth + 2 ≤ depth) := by omega
        simp [this]
  · simp [NetD.reads, NetD.writes, srb_kinds_none w depth k hk]

theorem srbNet_ok (w depth : Nat) (hd : 0 < depth) : NetOK (srbNet w depth).netD := by
  refine ⟨⟨?_, ?_⟩, ?_, ?_⟩
  · apply C04.topoOK_of_pairwise
    · intro a _ x hr hw
      have h1 := (srb_rw w depth a hd).1 x hr
      have h2 := (srb_rw w depth a hd).2 x hw
      have := h2.2
      split at this <;> (try split at this) <;> (try split at this) <;> omega
    · show List.Pairwise _ (List.range (depth + 3))
      rw [List.pairwise_iff_getElem]
      intro i j hi hj hij
      simp only [List.getElem_range]
      refine ⟨?_, ?_, by omega⟩
      · intro x hr hw
        have h1 := (srb_rw w depth i hd).1 x hr
        have h2 := (srb_rw w depth j hd).2 x hw
        have := h2.2
        split at this <;> (try split at this) <;> (try split at this) <;> omega
      · intro x hw1 hw2
        have h1 := (srb_rw w depth i hd).2 x hw1
        have h2 := (srb_rw w depth j hd).2 x hw2
        have e1 := h1.2
        have e2 := h2.2
        split at e1 <;> (try split at e1) <;> (try split at e1) <;>
          split at e2 <;> (try split at e2) <;> (try split at e2) <;> omega
  · intro i hi
    simp [KNet.netD, srbNet] at hi ⊢
    exact hi
  · intro i j R R' hi hj e
    obtain ⟨_, rfl⟩ := srb_regs_get w depth i R hi
    obtain ⟨_, rfl⟩ := srb_regs_get w depth j R' hj
    simp only [srbReg] at e
    omega
  · intro R hR c hc
    obtain ⟨j, hj, hjR⟩ := List.mem_iff_getElem.mp hR
    obtain ⟨hjd, rfl⟩ := srb_regs_get w depth j R (by rw [List.getElem?_eq_getElem hj, hjR])
    obtain ⟨k, hk, hkc⟩ := List.mem_iff_getElem.mp hc
    have hk' : k < depth + 3 := by simpa [KNet.netD, srbNet] using hk
    have hget : (srbNet w depth).netD.combs[k]? = some c := by rw [List.getElem?_eq_getElem hk, hkc]
    have hw : c.out ∈ (srbNet w depth).netD.writes k := by simp [NetD.writes, hget]
    have := ((srb_rw w depth k hd).2 _ hw).2
    simp only [srbReg]
    split at this <;> (try split at this) <;> (try split at this) <;> omega

def SrbInv (w depth : Nat) (D : NetD) (s : State Int) (st : List RegSt) : Prop :=
  ∃ l : List Nat, st = l.map nat ∧ l.length = depth ∧ (∀ x ∈ l, x < 2 ^ w) ∧
    (∀ k, k < depth → s.st (D.rid k) = (l.getD k 0 : Nat) ∧ s.val (8 + k) = l.getD k 0) ∧ s.prepared = []

theorem srb_step (w depth : Nat) (hd : 0 < depth) (s : State Int) (st : List RegSt) (i : SrbIn)
    (hv : i.leftIn < 2 ^ w ∧ i.rightIn < 2 ^ w ∧ i.shiftLeft < 2 ∧ i.shiftRight < 2)
    (hI : SrbInv w depth (srbNet w depth).netD s st) :
    let D := (srbNet w depth).netD
    let s' := clk D.design 1 ((srbPokes i).foldl (putW D.design) s)
    SrbInv w depth D s' ((shiftRegBidir w depth).step st i) ∧
    [3, 4].map s'.val = (fun o : Nat × Nat => [o.1, o.2]) ((shiftRegBidir w depth).out ((shiftRegBidir w depth).step st i) i) := by
  intro D s'
  obtain ⟨l, rfl, hlen, hall, hreg0, hp⟩ := hI
  obtain ⟨hli, hri, hsl, hsr⟩ := hv
  let sp := (srbPokes i).foldl (putW D.design) s
  have wd1 : ∀ x, (x = 5 ∨ x = 6 ∨ x = 7) → D.wd x = 1 := by intro x hx; simp [D, KNet.netD, srbNet, hx]
  have wdw : ∀ x, ¬ (x = 5 ∨ x = 6 ∨ x = 7) → D.wd x = w := by intro x hx; simp [D, KNet.netD, srbNet, hx]
  have spv : sp.val = upd (upd (upd (upd s.val 1 i.leftIn) 2 i.rightIn) 5 i.shiftLeft) 6 i.shiftRight := by
    simp only [sp, srbPokes, List.foldl_cons, List.foldl_nil, putW_val, wd1 5 (by simp), wd1 6 (by simp),
      wdw 1 (by simp), wdw 2 (by simp), Bits.put_ofNat]
    simp [Nat.mod_eq_of_lt hli, Nat.mod_eq_of_lt hri, Nat.mod_eq_of_lt hsl, Nat.mod_eq_of_lt hsr]
  have spst : sp.st = s.st := by simp only [sp, srbPokes, List.foldl_cons, List.foldl_nil, putW_val]
  have spp : sp.prepared = [] := by simp only [sp, srbPokes, List.foldl_cons, List.foldl_nil, putW_val]; exact hp
  have hrl : D.regs.length = depth := by simp [D, KNet.netD, srbNet]
  have hC := cycle D (srbNet_ok w depth hd) sp spp (fun j => l.getD j 0) (by
    intro j hj; rw [spst]; exact (hreg0 j (by omega)).1)
  obtain ⟨hreg, hfix1, hfix2, hin1, hin2, hp2⟩ := hC
  have free : ∀ x, (x = 1 ∨ x = 2 ∨ x = 5 ∨ x = 6 ∨ (8 ≤ x ∧ x < 8 + depth)) → ∀ c, c ∈ D.combs → c.out ≠ x := by
    intro x hx c hc
    obtain ⟨k, hk, hkc⟩ := List.mem_iff_getElem.mp hc
    have hget : D.combs[k]? = some c := by rw [List.getElem?_eq_getElem hk, hkc]
    have hw : c.out ∈ D.writes k := by simp [NetD.writes, hget]
    have := ((srb_rw w depth k hd).2 _ hw).2
    split at this <;> (try split at this) <;> (try split at this) <;> omega
  have memK : ∀ k, k < depth + 3 → Kind.leaf D.wd (srbKind depth k) ∈ D.combs := by
    intro k hk; exact List.mem_of_getElem? (srb_kinds_get w depth k hk)
  -- generic facts for a settled valuation V with given inputs and register wires
  have comb : ∀ (V : Nat → Nat) (L : List Nat), CombFix D V → V 1 = i.leftIn → V 2 = i.rightIn → V 5 = i.shiftLeft →
      V 6 = i.shiftRight → (∀ k, k < depth → V (8 + k) = L.getD k 0) →
      V 7 = or2 1 i.shiftLeft i.shiftRight ∧
      (∀ k, k < depth → V (8 + depth + k) = mux2 w i.shiftLeft (if k = 0 then i.leftIn else L.getD (k - 1) 0)
          (if k = depth - 1 then i.rightIn else L.getD (k + 1) 0)) ∧
      V 3 = buf w (L.getD 0 0) ∧ V 4 = buf w (L.getD (depth - 1) 0) := by
    intro V L hfix h1 h2 h5 h6 hq
    refine ⟨?_, ?_, ?_, ?_⟩
    · have := hfix _ (memK 0 (by omega))
      rw [srbKind_0] at this
      simp only [Kind.leaf, List.map, SeqFlat.g, List.getD_cons_zero, List.getD_cons_succ, h5, h6, wd1 7 (by simp)] at this
      rw [this]; exact Leaf.gen_or2 1 _ _
    · intro k hk
      have := hfix _ (memK (k + 1) (by omega))
      rw [srbKind_mux depth k hk] at this
      have hvl : V (if k = 0 then 1 else 8 + k - 1) = if k = 0 then i.leftIn else L.getD (k - 1) 0 := by
        by_cases h0 : k = 0
        · simp [h0, h1]
        · simp only [h0, if_false]
          have : 8 + k - 1 = 8 + (k - 1) := by omega
          rw [this, hq (k - 1) (by omega)]
      have hvr : V (if k = depth - 1 then 2 else 8 + k + 1) = if k = depth - 1 then i.rightIn else L.getD (k + 1) 0 := by
        by_cases h0 : k = depth - 1
        · simp [h0, h2]
        · simp only [h0, if_false]
          have : 8 + k + 1 = 8 + (k + 1) := by omega
          rw [this, hq (k + 1) (by omega)]
      simp only [Kind.leaf, List.map, SeqFlat.g, List.getD_cons_zero, List.getD_cons_succ, h5, hvl, hvr,
        wdw (8 + depth + k) (by omega)] at this
      rw [this]; exact Leaf.gen_mux2 w _ _ _
    · have := hfix _ (memK (depth + 1) (by omega))
      rw [srbKind_lo] at this
      have h8 := hq 0 hd
      simp only [Nat.add_zero] at h8
      simp only [Kind.leaf, List.map, SeqFlat.g, List.getD_cons_zero, h8, wdw 3 (by simp)] at this
      rw [this]; exact Leaf.gen_buf w _
    · have := hfix _ (memK (depth + 2) (by omega))
      rw [srbKind_ro] at this
      have h8 := hq (depth - 1) (by omega)
      have e8 : 8 + (depth - 1) = 8 + depth - 1 := by omega
      rw [e8] at h8
      simp only [Kind.leaf, List.map, SeqFlat.g, List.getD_cons_zero, h8, wdw 4 (by simp)] at this
      rw [this]; exact Leaf.gen_buf w _
  have v1 : (propagateAll D.design sp).val 1 = i.leftIn := by rw [hin1 1 (free 1 (by simp)), spv]; simp [upd]
  have v2 : (propagateAll D.design sp).val 2 = i.rightIn := by rw [hin1 2 (free 2 (by simp)), spv]; simp [upd]
  have v5 : (propagateAll D.design sp).val 5 = i.shiftLeft := by rw [hin1 5 (free 5 (by simp)), spv]; simp [upd]
  have v6 : (propagateAll D.design sp).val 6 = i.shiftRight := by rw [hin1 6 (free 6 (by simp)), spv]; simp [upd]
  have vq : ∀ k, k < depth → (propagateAll D.design sp).val (8 + k) = l.getD k 0 := by
    intro k hk
    rw [hin1 (8 + k) (free _ (by omega)), spv]
    simp only [upd]
    rw [if_neg (by omega), if_neg (by omega), if_neg (by omega), if_neg (by omega)]
    exact (hreg0 k hk).2
  obtain ⟨c7, cmux, _, _⟩ := comb _ l hfix1 v1 v2 v5 v6 vq
  let l' := (Spec.shiftRegBidir w depth).step l i
  have hlen' : l'.length = depth := srb_step_len w depth i l hd hlen
  have hlt' : ∀ x ∈ l', x < 2 ^ w := srb_step_lt w depth i l hall
  have hnext : ∀ k, k < depth → regNextV (propagateAll D.design sp).val (srbReg depth k) (l.getD k 0) = l'.getD k 0 := by
    intro k hk
    have he := srb_elem w depth i l hd hlen hall k hk
    have : l'.getD k 0 = (if or2 1 i.shiftLeft i.shiftRight = 0 then l.getD k 0
        else mux2 w i.shiftLeft (if k = 0 then i.leftIn else l.getD (k - 1) 0)
               (if k = depth - 1 then i.rightIn else l.getD (k + 1) 0)) := by
      rw [List.getD_eq_getElem?_getD, he]; rfl
    rw [this]
    simp only [regNextV, srbReg, SeqFlat.regNext, c7, cmux k hk]
    simp
  have getlt : ∀ k, l'.getD k 0 < 2 ^ w := getD_lt w l' hlt'
  have hregs : ∀ k, k < depth →
      (clk D.design 1 sp).st (D.rid k) = (l'.getD k 0 : Nat) ∧ (clk D.design 1 sp).val (8 + k) = l'.getD k 0 := by
    intro k hk
    have hget : D.regs[k]? = some (srbReg depth k) := by
      simp [D, KNet.netD, srbNet, List.getElem?_map, List.getElem?_range hk]
    have := hreg k (srbReg depth k) hget
    rw [hnext k hk] at this
    refine ⟨this.2, ?_⟩
    have hq : (srbReg depth k).q = 8 + k := rfl
    rw [hq] at this
    rw [this.1, wdw (8 + k) (by omega), Bits.put_ofNat]
    exact Nat.mod_eq_of_lt (getlt k)
  have hstep : (shiftRegBidir w depth).step (l.map nat) i = l'.map nat := srbClk_nat w depth i l hd hlen hall
  refine ⟨⟨l', hstep, hlen', hlt', hregs, hp2⟩, ?_⟩
  rw [hstep]
  have notreg : ∀ x, x < 8 → ∀ R, R ∈ D.regs → R.q ≠ x := by
    intro x hx R hR
    obtain ⟨j, hj, hjR⟩ := List.mem_iff_getElem.mp hR
    obtain ⟨_, rfl⟩ := srb_regs_get w depth j R (by rw [List.getElem?_eq_getElem hj, hjR])
    simp [srbReg]; omega
  have w1 : (clk D.design 1 sp).val 1 = i.leftIn := by rw [hin2 1 (free 1 (by simp)) (notreg 1 (by omega)), spv]; simp [upd]
  have w2 : (clk D.design 1 sp).val 2 = i.rightIn := by rw [hin2 2 (free 2 (by simp)) (notreg 2 (by omega)), spv]; simp [upd]
  have w5 : (clk D.design 1 sp).val 5 = i.shiftLeft := by rw [hin2 5 (free 5 (by simp)) (notreg 5 (by omega)), spv]; simp [upd]
  have w6 : (clk D.design 1 sp).val 6 = i.shiftRight := by rw [hin2 6 (free 6 (by simp)) (notreg 6 (by omega)), spv]; simp [upd]
  obtain ⟨_, _, c3, c4⟩ := comb _ l' hfix2 w1 w2 w5 w6 (fun k hk => (hregs k hk).2)
  simp only [List.map, shiftRegBidir, qAt, getD_map_nat, nat_q]
  show [(clk D.design 1 sp).val 3, (clk D.design 1 sp).val 4] = _
  rw [c3, c4]

/-- **ShiftRegisterBidirectional, netlist level** (every width, every depth ≥ 1): Or2, `depth` × (Mux2 + Reg), 2 Buf —
    generated leaves under `Net.Sim` from power-up — show on left_out / right_out after every
    `poke left_in,right_in,shift_left,shift_right; clk(1)` the after-edge outputs of `Lib.shiftRegBidir` -/
theorem shiftRegBidir_net (w depth : Nat) (hd : 0 < depth) (h : List SrbIn)
    (hv : ∀ x ∈ h, x.leftIn < 2 ^ w ∧ x.rightIn < 2 ^ w ∧ x.shiftLeft < 2 ∧ x.shiftRight < 2) :
    let D := (srbNet w depth).netD
    netTrace D srbPokes [3, 4] (initC D.design D.st0 D.cons) h =
      ((shiftRegBidir w depth).trace (shiftRegBidir w depth).init h).map (fun ab => [ab.2.1, ab.2.2]) := by
  intro D
  apply netTrace_sim D (shiftRegBidir w depth) srbPokes [3, 4] (fun o => [o.1, o.2])
    (fun x => x.leftIn < 2 ^ w ∧ x.rightIn < 2 ^ w ∧ x.shiftLeft < 2 ∧ x.shiftRight < 2) (SrbInv w depth D)
  · intro s st i hi hI; exact srb_step w depth hd s st i hi hI
  · exact hv
  · have hi := init_state D (srbNet_ok w depth hd)
    refine ⟨List.replicate depth 0, by simp [shiftRegBidir, regInit_zero], by simp, ?_, ?_, hi.1⟩
    · intro x hx; simp only [List.mem_replicate] at hx; rw [hx.2]; exact Nat.two_pow_pos _
    · intro j hj
      have hget : D.regs[j]? = some (srbReg depth j) := by
        simp [D, KNet.netD, srbNet, List.getElem?_map, List.getElem?_range hj]
      have h0 := hi.2 j (srbReg depth j) hget
      have e0 : (List.replicate depth 0).getD j 0 = 0 := by
        simp [List.getD_eq_getElem?_getD, List.getElem?_replicate, hj]
      rw [e0]
      refine ⟨h0.1, ?_⟩
      have := h0.2
      simp only [srbReg] at this
      rw [this]; exact put_zero _

example : netTrace (srbNet 4 3).netD srbPokes [3, 4]
    (initC (srbNet 4 3).netD.design (srbNet 4 3).netD.st0 (srbNet 4 3).netD.cons)
    [⟨1, 9, 0, 1⟩, ⟨2, 9, 0, 1⟩, ⟨3, 9, 1, 0⟩] = [[1, 0], [2, 0], [1, 9]] := by decide


/-! ## Stack_ShiftRegister -/
theorem stk_kinds_get (w depth k : Nat) (hk : k < depth + 4) :
    (stackNet w depth).netD.combs[k]? = some (Kind.leaf (stackNet w depth).wd (stackKind depth k)) := by
  simp [KNet.netD, stackNet, List.getElem?_map, List.getElem?_range hk]

theorem stk_kinds_none (w depth k : Nat) (hk : ¬ k < depth + 4) : (stackNet w depth).netD.combs[k]? = none := by
  apply List.getElem?_eq_none
  simp [KNet.netD, stackNet]; omega

theorem stk_regs_get (w depth : Nat) (j : Nat) (R : RLeaf) (h : (stackNet w depth).netD.regs[j]? = some R) :
    j < depth + 1 ∧ R = stackReg depth j := by
  simp only [KNet.netD, stackNet, List.getElem?_map] at h
  by_cases hj : j < depth + 1
  · rw [List.getElem?_range hj] at h
    simp at h
    exact ⟨hj, h.symm⟩
  · rw [List.getElem?_eq_none (by simp; omega)] at h
    simp at h

theorem stackReg_q (depth j : Nat) (hj : j < depth + 1) : (stackReg depth j).q = if j < depth then 8 + j else 8 + 2 * depth := by
  unfold stackReg; split <;> rfl

/-- what leaf k reads / writes -/
theorem stk_rw (w depth k : Nat) (hd : 0 < depth) :
    (∀ x, x ∈ (stackNet w depth).netD.reads k → 0 < k ∧ (x = 1 ∨ x = 2 ∨ x = 5 ∨ x = 6 ∨ (8 ≤ x ∧ x < 8 + depth))) ∧
    (∀ x, x ∈ (stackNet w depth).netD.writes k → k < depth + 4 ∧
      x = (if k = 0 then 2 else if k = 1 then 7 else if k ≤ depth + 1 then 8 + depth + (k - 2) else if k = depth + 2 then 3 else 4)) := by
  by_cases hk : k < depth + 4
  · simp only [NetD.reads, NetD.writes, stk_kinds_get w depth k hk]
    have cases5 : k = 0 ∨ k = 1 ∨ (∃ j, j < depth ∧ k = j + 2) ∨ k = depth + 2 ∨ k = depth + 3 := by
      by_cases h0 : k = 0
      · exact Or.inl h0
      · by_cases h1 : k = 1
        · exact Or.inr (Or.inl h1)
        · by_cases h2 : k ≤ depth + 1
          · exact Or.inr (Or.inr (Or.inl ⟨k - 2, by omega, by omega⟩))
          · omega
    rcases cases5 with rfl | rfl | ⟨j, hj, rfl⟩ | rfl | rfl
    · simp [stackKind, Kind.leaf]
    · simp [stackKind, srbKind_0, Kind.leaf]
    · have e : stackKind depth (j + 2) = srbKind depth (j + 1) := by simp [stackKind]
      rw [e, srbKind_mux depth j hj]
      simp only [Kind.leaf]
      constructor
      · intro x hx
        simp at hx
        refine ⟨by omega, ?_⟩
        rcases hx with rfl | rfl | rfl
        · simp
        · by_cases h : j = depth - 1 <;> simp [h] <;> omega
        · by_cases h : j = 0 <;> simp [h] <;> omega
      · intro x hx; simp at hx; subst hx
        have h1 : j + 2 ≤ depth + 1 := by omega
        simp [h1]; omega
    · have e : stackKind depth (depth + 2) = srbKind depth (depth + 1) := by simp [stackKind]
      rw [e, srbKind_lo]
      simp only [Kind.leaf]
      constructor
      · intro x hx; simp at hx; subst hx; omega
      · intro x hx; simp at hx; subst hx
        have : ¬ (depth + 2 ≤ depth + 1) := by omega
        have h1 : ¬ (depth + 2 = 1) := by omega
        simp [this, h1]
    · have e : stackKind depth (depth + 3) = srbKind depth (depth + 2) := by simp [stackKind]
      rw [e, srbKind_ro]
      simp only [Kind.leaf]
      constructor
      · intro x hx; simp at hx; subst hx; omega
      · intro x hx; simp at hx; subst hx
        have : ¬ (depth + 3 ≤ depth + 1) := by omega
        have h1 : ¬ (depth + 3 = 1) := by omega
        have h2 : ¬ (depth + 3 = depth + 2) := by omega
        simp [this, h1, h2]
  · simp [NetD.reads, NetD.writes, stk_kinds_none w depth k hk]

theorem stackNet_ok (w depth : Nat) (hd : 0 < depth) : NetOK (stackNet w depth).netD := by
  refine ⟨⟨?_, ?_⟩, ?_, ?_⟩
  · apply C04.topoOK_of_pairwise
    · intro a _ x hr hw
      have h1 := (stk_rw w depth a hd).1 x hr
      have h2 := (stk_rw w depth a hd).2 x hw
      have := h2.2
      split at this <;> (try split at this) <;> (try split at this) <;> (try split at this) <;> omega
    · show List.Pairwise _ (List.range (depth + 4))
      rw [List.pairwise_iff_getElem]
      intro i j hi hj hij
      simp only [List.getElem_range]
      refine ⟨?_, ?_, by omega⟩
      · intro x hr hw
        have h1 := (stk_rw w depth i hd).1 x hr
        have h2 := (stk_rw w depth j hd).2 x hw
        have := h2.2
        split at this <;> (try split at this) <;> (try split at this) <;> (try split at this) <;> omega
      · intro x hw1 hw2
        have h1 := (stk_rw w depth i hd).2 x hw1
        have h2 := (stk_rw w depth j hd).2 x hw2
        have e1 := h1.2
        have e2 := h2.2
        split at e1 <;> (try split at e1) <;> (try split at e1) <;> (try split at e1) <;>
          split at e2 <;> (try split at e2) <;> (try split at e2) <;> (try split at e2) <;> omega
  · intro i hi
    simp [KNet.netD, stackNet] at hi ⊢
    exact hi
  · intro i j R R' hi hj e
    obtain ⟨hi', rfl⟩ := stk_regs_get w depth i R hi
    obtain ⟨hj', rfl⟩ := stk_regs_get w depth j R' hj
    rw [stackReg_q depth i hi', stackReg_q depth j hj'] at e
    split at e <;> split at e <;> omega
  · intro R hR c hc
    obtain ⟨j, hj, hjR⟩ := List.mem_iff_getElem.mp hR
    obtain ⟨hjd, rfl⟩ := stk_regs_get w depth j R (by rw [List.getElem?_eq_getElem hj, hjR])
    obtain ⟨k, hk, hkc⟩ := List.mem_iff_getElem.mp hc
    have hget : (stackNet w depth).netD.combs[k]? = some c := by rw [List.getElem?_eq_getElem hk, hkc]
    have hw : c.out ∈ (stackNet w depth).netD.writes k := by simp [NetD.writes, hget]
    have := ((stk_rw w depth k hd).2 _ hw).2
    rw [stackReg_q depth j hjd]
    split at this <;> (try split at this) <;> (try split at this) <;> (try split at this) <;> split <;> omega

def StackInv (w depth : Nat) (D : NetD) (s : State Int) (st : StackSt) : Prop :=
  ∃ (l : List Nat) (dq : Nat), st = ⟨l.map nat, nat dq⟩ ∧ l.length = depth ∧ (∀ x ∈ l, x < 2 ^ w) ∧ dq < 2 ^ w ∧
    (∀ k, k < depth → s.st (D.rid k) = (l.getD k 0 : Nat) ∧ s.val (8 + k) = l.getD k 0) ∧
    s.st (D.rid depth) = (dq : Nat) ∧ s.val (8 + 2 * depth) = dq ∧ s.prepared = []

theorem stack_net_step (w depth : Nat) (hd : 0 < depth) (s : State Int) (st : StackSt) (i : StackIn)
    (hv : i.din < 2 ^ w ∧ i.push < 2 ∧ i.pop < 2) (hI : StackInv w depth (stackNet w depth).netD s st) :
    let D := (stackNet w depth).netD
    let s' := clk D.design 1 ((stackPokes i).foldl (putW D.design) s)
    StackInv w depth D s' ((stack w depth).step st i) ∧
    [8 + 2 * depth].map s'.val = [(stack w depth).out ((stack w depth).step st i) i] := by
  intro D s'
  obtain ⟨l, dq, rfl, hlen, hall, hdq, hreg0, hst0, hvd, hp⟩ := hI
  obtain ⟨hdin, hpush, hpop⟩ := hv
  let sp := (stackPokes i).foldl (putW D.design) s
  have wd1 : ∀ x, (x = 5 ∨ x = 6 ∨ x = 7) → D.wd x = 1 := by intro x hx; simp [D, KNet.netD, stackNet, hx]
  have wdw : ∀ x, ¬ (x = 5 ∨ x = 6 ∨ x = 7) → D.wd x = w := by intro x hx; simp [D, KNet.netD, stackNet, hx]
  have spv : sp.val = upd (upd (upd s.val 1 i.din) 6 i.push) 5 i.pop := by
    simp only [sp, stackPokes, List.foldl_cons, List.foldl_nil, putW_val, wd1 5 (by simp), wd1 6 (by simp),
      wdw 1 (by simp), Bits.put_ofNat]
    simp [Nat.mod_eq_of_lt hdin, Nat.mod_eq_of_lt hpush, Nat.mod_eq_of_lt hpop]
  have spst : sp.st = s.st := by simp only [sp, stackPokes, List.foldl_cons, List.foldl_nil, putW_val]
  have spp : sp.prepared = [] := by simp only [sp, stackPokes, List.foldl_cons, List.foldl_nil, putW_val]; exact hp
  have hrl : D.regs.length = depth + 1 := by simp [D, KNet.netD, stackNet]
  have hC := cycle D (stackNet_ok w depth hd) sp spp (fun j => if j < depth then l.getD j 0 else dq) (by
    intro j hj
    rw [spst]
    by_cases hjd : j < depth
    · simp only [hjd, if_true]; exact (hreg0 j hjd).1
    · have : j = depth := by omega
      subst this; simp only [Nat.lt_irrefl, if_false]; exact hst0)
  obtain ⟨hreg, hfix1, hfix2, hin1, hin2, hp2⟩ := hC
  have free : ∀ x, (x = 1 ∨ x = 5 ∨ x = 6 ∨ (8 ≤ x ∧ x < 8 + depth) ∨ x = 8 + 2 * depth) → ∀ c, c ∈ D.combs → c.out ≠ x := by
    intro x hx c hc
    obtain ⟨k, hk, hkc⟩ := List.mem_iff_getElem.mp hc
    have hget : D.combs[k]? = some c := by rw [List.getElem?_eq_getElem hk, hkc]
    have hw : c.out ∈ D.writes k := by simp [NetD.writes, hget]
    have := ((stk_rw w depth k hd).2 _ hw).2
    split at this <;> (try split at this) <;> (try split at this) <;> (try split at this) <;> omega
  have memK : ∀ k, k < depth + 4 → Kind.leaf D.wd (stackKind depth k) ∈ D.combs := by
    intro k hk; exact List.mem_of_getElem? (stk_kinds_get w depth k hk)
  have sk : ∀ k, stackKind depth (k + 1) = srbKind depth k := by intro k; simp [stackKind]
  have comb : ∀ (V : Nat → Nat) (L : List Nat), CombFix D V → V 1 = i.din → V 5 = i.pop →
      V 6 = i.push → (∀ k, k < depth → V (8 + k) = L.getD k 0) →
      V 7 = or2 1 i.pop i.push ∧
      (∀ k, k < depth → V (8 + depth + k) = mux2 w i.pop (if k = 0 then i.din else L.getD (k - 1) 0)
          (if k = depth - 1 then const w 0 else L.getD (k + 1) 0)) ∧
      V 3 = buf w (L.getD 0 0) := by
    intro V L hfix h1 h5 h6 hq
    have h2 : V 2 = const w 0 := by
      have := hfix _ (memK 0 (by omega))
      simp only [stackKind, if_true, Kind.leaf, wdw 2 (by simp)] at this
      rw [this]; exact Leaf.gen_const w 0
    refine ⟨?_, ?_, ?_⟩
    · have := hfix _ (memK 1 (by omega))
      rw [sk 0, srbKind_0] at this
      simp only [Kind.leaf, List.map, SeqFlat.g, List.getD_cons_zero, List.getD_cons_succ, h5, h6, wd1 7 (by simp)] at this
      rw [this]; exact Leaf.gen_or2 1 _ _
    · intro k hk
      have := hfix _ (memK (k + 2) (by omega))
      rw [sk (k + 1), srbKind_mux depth k hk] at this
      have hvl : V (if k = 0 then 1 else 8 + k - 1) = if k = 0 then i.din else L.getD (k - 1) 0 := by
        by_cases h0 : k = 0
        · simp [h0, h1]
        · simp only [h0, if_false]
          have : 8 + k - 1 = 8 + (k - 1) := by omega
          rw [this, hq (k - 1) (by omega)]
      have hvr : V (if k = depth - 1 then 2 else 8 + k + 1) = if k = depth - 1 then const w 0 else L.getD (k + 1) 0 := by
        by_cases h0 : k = depth - 1
        · simp [h0, h2]
        · simp only [h0, if_false]
          have : 8 + k + 1 = 8 + (k + 1) := by omega
          rw [this, hq (k + 1) (by omega)]
      simp only [Kind.leaf, List.map, SeqFlat.g, List.getD_cons_zero, List.getD_cons_succ, h5, hvl, hvr,
        wdw (8 + depth + k) (by omega)] at this
      rw [this]; exact Leaf.gen_mux2 w _ _ _
    · have := hfix _ (memK (depth + 2) (by omega))
      rw [sk (depth + 1), srbKind_lo] at this
      have h8 := hq 0 hd
      simp only [Nat.add_zero] at h8
      simp only [Kind.leaf, List.map, SeqFlat.g, List.getD_cons_zero, h8, wdw 3 (by simp)] at this
      rw [this]; exact Leaf.gen_buf w _
  have v1 : (propagateAll D.design sp).val 1 = i.din := by rw [hin1 1 (free 1 (by simp)), spv]; simp [upd]
  have v5 : (propagateAll D.design sp).val 5 = i.pop := by rw [hin1 5 (free 5 (by simp)), spv]; simp [upd]
  have v6 : (propagateAll D.design sp).val 6 = i.push := by rw [hin1 6 (free 6 (by simp)), spv]; simp [upd]
  have vq : ∀ k, k < depth → (propagateAll D.design sp).val (8 + k) = l.getD k 0 := by
    intro k hk
    rw [hin1 (8 + k) (free _ (by omega)), spv]
    simp only [upd]
    rw [if_neg (by omega), if_neg (by omega), if_neg (by omega)]
    exact (hreg0 k hk).2
  obtain ⟨c7, cmux, c3⟩ := comb _ l hfix1 v1 v5 v6 vq
  -- the embedded shift register: inputs left_in = din, right_in = zerow = 0, shift_left = pop, shift_right = push
  let si : SrbIn := ⟨i.din, const w 0, i.pop, i.push⟩
  let l' := (Spec.shiftRegBidir w depth).step l si
  have hlen' : l'.length = depth := srb_step_len w depth si l hd hlen
  have hlt' : ∀ x ∈ l', x < 2 ^ w := srb_step_lt w depth si l hall
  have hnext : ∀ k, k < depth → regNextV (propagateAll D.design sp).val (srbReg depth k) (l.getD k 0) = l'.getD k 0 := by
    intro k hk
    have he := srb_elem w depth si l hd hlen hall k hk
    have : l'.getD k 0 = (if or2 1 i.pop i.push = 0 then l.getD k 0
        else mux2 w i.pop (if k = 0 then i.din else l.getD (k - 1) 0)
               (if k = depth - 1 then const w 0 else l.getD (k + 1) 0)) := by
      rw [List.getD_eq_getElem?_getD, he]; rfl
    rw [this]
    simp only [regNextV, srbReg, SeqFlat.regNext, c7, cmux k hk]
    simp
  have getlt : ∀ k, l'.getD k 0 < 2 ^ w := getD_lt w l' hlt'
  have hregs : ∀ k, k < depth →
      (clk D.design 1 sp).st (D.rid k) = (l'.getD k 0 : Nat) ∧ (clk D.design 1 sp).val (8 + k) = l'.getD k 0 := by
    intro k hk
    have hget : D.regs[k]? = some (srbReg depth k) := by
      simp [D, KNet.netD, stackNet, List.getElem?_map, List.getElem?_range (show k < depth + 1 by omega), stackReg, hk]
    have := hreg k (srbReg depth k) hget
    simp only [hk, if_true] at this
    rw [hnext k hk] at this
    refine ⟨this.2, ?_⟩
    have hq : (srbReg depth k).q = 8 + k := rfl
    rw [hq] at this
    rw [this.1, wdw (8 + k) (by omega), Bits.put_ofNat]
    exact Nat.mod_eq_of_lt (getlt k)
  -- the output register
  let dR : RLeaf := { hasR := false, hasE := true, rv := 0, d := 3, e := 5, r := 0, q := 8 + 2 * depth }
  have hgetd : D.regs[depth]? = some dR := by
    simp [D, KNet.netD, stackNet, List.getElem?_map, List.getElem?_range (show depth < depth + 1 by omega), stackReg, dR]
  have hdR := hreg depth dR hgetd
  simp only [Nat.lt_irrefl, if_false] at hdR
  have hbl : buf w (l.getD 0 0) < 2 ^ w := Nat.mod_lt _ (Nat.two_pow_pos w)
  have hnx := nat_regNext w false true 0 i.pop (buf w (l.getD 0 0)) dq hbl hdq
  have hrn : regNextV (propagateAll D.design sp).val dR dq = SeqFlat.regNext false true 0 0 i.pop (buf w (l.getD 0 0)) dq := by
    simp [regNextV, dR, SeqFlat.regNext, v5, c3]
  rw [hrn] at hdR
  have hstep : (stack w depth).step ⟨l.map nat, nat dq⟩ i =
      ⟨l'.map nat, nat (SeqFlat.regNext false true 0 0 i.pop (buf w (l.getD 0 0)) dq)⟩ := by
    simp only [stack]
    rw [srbClk_nat w depth si l hd hlen hall, qAt, getD_map_nat, nat_q, ← hnx.1]
    rfl
  have hwq : D.wd (8 + 2 * depth) = w := wdw _ (by omega)
  have hvq' : (clk D.design 1 sp).val (8 + 2 * depth) = SeqFlat.regNext false true 0 0 i.pop (buf w (l.getD 0 0)) dq := by
    have := hdR.1
    simp only [dR, hwq, Bits.put_ofNat] at this
    rw [this]; exact Nat.mod_eq_of_lt hnx.2
  refine ⟨⟨l', _, hstep, hlen', hlt', hnx.2, hregs, hdR.2, hvq', hp2⟩, ?_⟩
  rw [hstep]
  simp only [List.map, stack, nat_q]
  show [(clk D.design 1 sp).val (8 + 2 * depth)] = _
  rw [hvq']

/-- **Stack_ShiftRegister, netlist level** (every width, every depth ≥ 1): Constant, the shift-register netlist and the
    output register — generated leaves under `Net.Sim` from power-up — show on `dout` after every
    `poke din,push,pop; clk(1)` the after-edge output of `Lib.stack` (overflowing histories included) -/
theorem stack_net (w depth : Nat) (hd : 0 < depth) (h : List StackIn)
    (hv : ∀ x ∈ h, x.din < 2 ^ w ∧ x.push < 2 ∧ x.pop < 2) :
    let D := (stackNet w depth).netD
    netTrace D stackPokes [8 + 2 * depth] (initC D.design D.st0 D.cons) h =
      ((stack w depth).trace (stack w depth).init h).map (fun ab => [ab.2]) := by
  intro D
  apply netTrace_sim D (stack w depth) stackPokes [8 + 2 * depth] (fun o => [o])
    (fun x => x.din < 2 ^ w ∧ x.push < 2 ∧ x.pop < 2) (StackInv w depth D)
  · intro s st i hi hI; exact stack_net_step w depth hd s st i hi hI
  · exact hv
  · have hi := init_state D (stackNet_ok w depth hd)
    have hz : ∀ j, j < depth + 1 → (initC D.design D.st0 D.cons).st (D.rid j) = (0 : Nat) ∧
        (initC D.design D.st0 D.cons).val (stackReg depth j).q = 0 := by
      intro j hj
      have hget : D.regs[j]? = some (stackReg depth j) := by
        simp [D, KNet.netD, stackNet, List.getElem?_map, List.getElem?_range hj]
      have h0 := hi.2 j (stackReg depth j) hget
      have hrv : (stackReg depth j).rv = 0 := by unfold stackReg; split <;> rfl
      rw [hrv] at h0
      exact ⟨h0.1, by rw [h0.2]; exact put_zero _⟩
    refine ⟨List.replicate depth 0, 0, by simp [stack, regInit_zero], by simp, ?_, Nat.two_pow_pos w, ?_, ?_, ?_, hi.1⟩
    · intro x hx; simp only [List.mem_replicate] at hx; rw [hx.2]; exact Nat.two_pow_pos _
    · intro j hj
      have e0 : (List.replicate depth 0).getD j 0 = 0 := by
        simp [List.getD_eq_getElem?_getD, List.getElem?_replicate, hj]
      rw [e0]
      have := hz j (by omega)
      rw [stackReg_q depth j (by omega)] at this
      simpa [hj] using this
    · exact (hz depth (by omega)).1
    · have := (hz depth (by omega)).2
      rw [stackReg_q depth depth (by omega)] at this
      simpa using this

set_option maxRecDepth 8192 in
example : netTrace (stackNet 3 2).netD stackPokes [12]
    (initC (stackNet 3 2).netD.design (stackNet 3 2).netD.st0 (stackNet 3 2).netD.cons)
    [⟨5, 1, 0⟩, ⟨6, 1, 0⟩, ⟨0, 0, 1⟩, ⟨0, 0, 1⟩] = [[0], [0], [6], [5]] := by decide


/-! ## PipelinePhase -/
theorem pipe_regs_get (ws : List Nat) (j : Nat) (R : RLeaf) (h : (pipeNet ws).netD.regs[j]? = some R) :
    j < ws.length ∧ R = pipeReg ws.length j := by
  simp only [KNet.netD, pipeNet, List.getElem?_map] at h
  by_cases hj : j < ws.length
  · rw [List.getElem?_range hj] at h
    simp at h
    exact ⟨hj, h.symm⟩
  · rw [List.getElem?_eq_none (by simp; omega)] at h
    simp at h

theorem pipeNet_ok (ws : List Nat) : NetOK (pipeNet ws).netD := by
  refine ⟨⟨?_, ?_⟩, ?_, ?_⟩
  · simp [C04.TopoOK, KNet.netD, pipeNet]
  · intro i hi; simp [KNet.netD, pipeNet] at hi
  · intro i j R R' hi hj e
    obtain ⟨_, rfl⟩ := pipe_regs_get ws i R hi
    obtain ⟨_, rfl⟩ := pipe_regs_get ws j R' hj
    simp only [pipeReg] at e
    omega
  · intro R _ c hc; simp [KNet.netD, pipeNet] at hc

theorem fits_get (ws l : List Nat) (h : Fits ws l) : l.length = ws.length ∧ ∀ j, j < ws.length → l.getD j 0 < 2 ^ ws.getD j 1 := by
  induction h with
  | nil => exact ⟨rfl, fun j hj => absurd hj (by simp)⟩
  | cons hx _ ih =>
    refine ⟨by simp [ih.1], ?_⟩
    intro j hj
    cases j with
    | zero => simpa using hx
    | succ j => simpa using ih.2 j (by simpa using hj)

def pipeNext (ws : List Nat) (i : PipeIn) : List Nat :=
  if i.reset = 1 then ws.map (fun _ => 0) else List.zipWith (fun w d => d % 2 ^ w) ws i.ins

theorem pipeNext_get (ws : List Nat) (i : PipeIn) (hf : Fits ws i.ins) (j : Nat) (hj : j < ws.length) :
    (pipeNext ws i).getD j 0 = if i.reset = 1 then 0 else i.ins.getD j 0 := by
  have hl := fits_get ws i.ins hf
  unfold pipeNext
  by_cases hr : i.reset = 1
  · simp [hr, List.getD_eq_getElem?_getD, hj]
  · simp only [hr, if_false, List.getD_eq_getElem?_getD, List.getElem?_zipWith]
    have h1 : j < i.ins.length := by omega
    simp only [List.getElem?_eq_getElem hj, List.getElem?_eq_getElem h1, Option.map_some, Option.bind_some, Option.getD_some]
    have := hl.2 j hj
    simp only [List.getD_eq_getElem?_getD, List.getElem?_eq_getElem hj, List.getElem?_eq_getElem h1, Option.getD_some] at this
    simp [Nat.mod_eq_of_lt this]

def PipeInv (ws : List Nat) (D : NetD) (s : State Int) (st : List RegSt) : Prop :=
  ∃ l : List Nat, st = l.map nat ∧ Fits ws l ∧
    (∀ j, j < ws.length → s.st (D.rid j) = (l.getD j 0 : Nat) ∧ s.val (2 + ws.length + j) = l.getD j 0) ∧ s.prepared = []


theorem pipe_step (ws : List Nat) (s : State Int) (st : List RegSt) (i : PipeIn)
    (hv : i.reset < 2 ∧ Fits ws i.ins) (hI : PipeInv ws (pipeNet ws).netD s st) :
    let D := (pipeNet ws).netD
    let s' := clk D.design 1 ((pipePokes ws.length i).foldl (putW D.design) s)
    PipeInv ws D s' ((pipelinePhase ws).step st i) ∧
    (pipeOuts ws.length).map s'.val = (pipelinePhase ws).out ((pipelinePhase ws).step st i) i := by
  intro D s'
  obtain ⟨l, rfl, hfl, hreg0, hp⟩ := hI
  obtain ⟨hr, hf⟩ := hv
  have hl := fits_get ws l hfl
  have hfi := fits_get ws i.ins hf
  let n := ws.length
  let sp := (pipePokes n i).foldl (putW D.design) s
  have spst : sp.st = s.st := C10.foldl_putW_st _ _ _
  have spp : sp.prepared = [] := by rw [show sp.prepared = s.prepared from C05.foldl_putW_prepared _ _ _]; exact hp
  have hfst : (pipePokes n i).map Prod.fst = 1 :: (List.range n).map (fun j => 2 + j) := by
    simp [pipePokes, Function.comp_def]
  have hnd : ((pipePokes n i).map Prod.fst).Nodup := by
    rw [hfst, List.nodup_cons]
    constructor
    · simp; omega
    · rw [List.nodup_iff_pairwise_ne, List.pairwise_map]
      apply (List.nodup_iff_pairwise_ne.mp (List.nodup_range (n := n))).imp
      intro a b hab; omega
  have wd1 : D.wd 1 = 1 := by simp [D, KNet.netD, pipeNet]
  have wdi : ∀ j, j < n → D.wd (2 + j) = ws.getD j 1 := by
    intro j hj
    have h1 : ¬ (2 + j = 1) := by omega
    have h2 : 2 + j < 2 + ws.length := by omega
    have h3 : 2 + j - 2 = j := by omega
    simp [D, KNet.netD, pipeNet, h1, h2, h3]
  have wdo : ∀ j, j < n → D.wd (2 + n + j) = ws.getD j 1 := by
    intro j hj
    have h1 : ¬ (2 + ws.length + j = 1) := by omega
    have h2 : ¬ (2 + ws.length + j < 2 + ws.length) := by omega
    have h3 : 2 + ws.length + j - 2 - ws.length = j := by omega
    simp [D, KNet.netD, pipeNet, n, h1, h2, h3]
  have sp1 : sp.val 1 = i.reset := by
    have := C04.foldl_putW_hit D.design (pipePokes n i) s hnd (1, (i.reset : Int)) (by simp [pipePokes])
    rw [this]
    simp only [C04.mval]
    rw [show (D.design.width 1) = D.wd 1 from rfl, SeqFlat.wput, wd1, Bits.put_ofNat]
    exact Nat.mod_eq_of_lt hr
  have spi : ∀ j, j < n → sp.val (2 + j) = i.ins.getD j 0 := by
    intro j hj
    have := C04.foldl_putW_hit D.design (pipePokes n i) s hnd (2 + j, ((i.ins.getD j 0 : Nat) : Int))
      (by simp only [pipePokes]; exact List.mem_cons_of_mem _ (List.mem_map.mpr ⟨j, List.mem_range.mpr hj, rfl⟩))
    rw [this]
    simp only [C04.mval]
    rw [show (D.design.width (2 + j)) = D.wd (2 + j) from rfl, SeqFlat.wput, wdi j hj, Bits.put_ofNat]
    exact Nat.mod_eq_of_lt (hfi.2 j hj)
  have spo : ∀ j, j < n → sp.val (2 + n + j) = l.getD j 0 := by
    intro j hj
    have : sp.val (2 + n + j) = s.val (2 + n + j) := by
      apply C10.foldl_putW_val_other
      rw [hfst]
      simp
      refine ⟨by omega, ?_⟩
      intro x _; omega
    rw [this]; exact (hreg0 j hj).2
  have hrl : D.regs.length = n := by simp [D, KNet.netD, pipeNet, n]
  have hC := cycle D (pipeNet_ok ws) sp spp (fun j => l.getD j 0) (by
    intro j hj; rw [spst]; exact (hreg0 j (by omega)).1)
  obtain ⟨hreg, _, _, hin1, _, hp2⟩ := hC
  have nocomb : ∀ x, ∀ c, c ∈ D.combs → c.out ≠ x := by intro x c hc; simp [D, KNet.netD, pipeNet] at hc
  let l' := pipeNext ws i
  have hm := pipeClk_nat i.reset ws i.ins l hf hfl
  have hfl' : Fits ws l' := hm.2
  have hl' := fits_get ws l' hfl'
  have hnext : ∀ j, j < n → regNextV (propagateAll D.design sp).val (pipeReg n j) (l.getD j 0) = l'.getD j 0 := by
    intro j hj
    rw [pipeNext_get ws i hf j hj]
    simp only [regNextV, pipeReg, SeqFlat.regNext, hin1 1 (nocomb 1), hin1 (2 + j) (nocomb _), sp1, spi j hj]
    by_cases h1 : i.reset = 1 <;> simp [h1]
  have hregs : ∀ j, j < n →
      (clk D.design 1 sp).st (D.rid j) = (l'.getD j 0 : Nat) ∧ (clk D.design 1 sp).val (2 + n + j) = l'.getD j 0 := by
    intro j hj
    have hget : D.regs[j]? = some (pipeReg n j) := by
      simp [D, KNet.netD, pipeNet, n, List.getElem?_map, List.getElem?_range hj]
    have := hreg j (pipeReg n j) hget
    rw [hnext j hj] at this
    refine ⟨this.2, ?_⟩
    have hq : (pipeReg n j).q = 2 + n + j := rfl
    rw [hq] at this
    rw [this.1, wdo j hj, Bits.put_ofNat]
    exact Nat.mod_eq_of_lt (hl'.2 j hj)
  have hstep : (pipelinePhase ws).step (l.map nat) i = l'.map nat := hm.1
  refine ⟨⟨l', hstep, hfl', hregs, hp2⟩, ?_⟩
  rw [hstep]
  simp only [pipelinePhase, List.map_map]
  apply List.ext_getElem
  · simp [pipeOuts, hl'.1]
  · intro j h1 h2
    have hj : j < n := by simpa [pipeOuts] using h1
    simp only [pipeOuts, List.getElem_map, List.getElem_range, Function.comp]
    show (clk D.design 1 sp).val (2 + n + j) = _
    rw [(hregs j hj).2, List.getD_eq_getElem?_getD]
    have : j < l'.length := by rw [hl'.1]; exact hj
    simp [List.getElem?_eq_getElem this]

/-- **PipelinePhase, netlist level** (every number of lanes, every lane width): n generated Reg leaves with the common
    reset under `Net.Sim` from power-up show on the out wires after every `poke reset,ins; clk(1)` the after-edge
    outputs of `Lib.pipelinePhase` -/
theorem pipelinePhase_net (ws : List Nat) (h : List PipeIn) (hv : ∀ x ∈ h, x.reset < 2 ∧ Fits ws x.ins) :
    let D := (pipeNet ws).netD
    netTrace D (pipePokes ws.length) (pipeOuts ws.length) (initC D.design D.st0 D.cons) h =
      ((pipelinePhase ws).trace (pipelinePhase ws).init h).map (fun ab => ab.2) := by
  intro D
  apply netTrace_sim D (pipelinePhase ws) (pipePokes ws.length) (pipeOuts ws.length) (fun o => o)
    (fun x => x.reset < 2 ∧ Fits ws x.ins) (PipeInv ws D)
  · intro s st i hi hI; exact pipe_step ws s st i hi hI
  · exact hv
  · have hi := init_state D (pipeNet_ok ws)
    have hf0 : ∀ ws' : List Nat, Fits ws' (ws'.map fun _ => 0) := by
      intro ws'
      induction ws' with
      | nil => exact Fits.nil
      | cons w ws' ih => exact Fits.cons (Nat.two_pow_pos w) ih
    refine ⟨ws.map fun _ => 0, by simp [pipelinePhase, regInit_zero], hf0 ws, ?_, hi.1⟩
    intro j hj
    have hget : D.regs[j]? = some (pipeReg ws.length j) := by
      simp [D, KNet.netD, pipeNet, List.getElem?_map, List.getElem?_range hj]
    have h0 := hi.2 j (pipeReg ws.length j) hget
    have e0 : (ws.map fun _ => 0).getD j 0 = 0 := by
      simp [List.getD_eq_getElem?_getD, hj]
    rw [e0]
    refine ⟨h0.1, ?_⟩
    have := h0.2
    simp only [pipeReg] at this
    rw [this]; exact put_zero _

example : netTrace (pipeNet [2, 4]).netD (pipePokes 2) (pipeOuts 2)
    (initC (pipeNet [2, 4]).netD.design (pipeNet [2, 4]).netD.st0 (pipeNet [2, 4]).netD.cons)
    [⟨0, [3, 9]⟩, ⟨1, [1, 1]⟩, ⟨0, [2, 15]⟩] = [[3, 9], [0, 0], [2, 15]] := by decide


/-! ## bare Reg with arbitrary (natural) reset value -/
theorem regNet_ok (w dw cw rv : Nat) (hasE hasR : Bool) : NetOK (regNet w dw cw rv hasE hasR).netD := by
  refine ⟨⟨?_, ?_⟩, ?_, ?_⟩
  · simp [C04.TopoOK, KNet.netD, regNet]
  · intro i hi; simp [KNet.netD, regNet] at hi
  · intro i j R R' hi hj _
    have : i = 0 := by
      rcases i with _ | i
      · rfl
      · simp [KNet.netD, regNet] at hi
    have : j = 0 := by
      rcases j with _ | j
      · rfl
      · simp [KNet.netD, regNet] at hj
    omega
  · intro R _ c hc; simp [KNet.netD, regNet] at hc

def RegInv (w : Nat) (D : NetD) (s : State Int) (st : RegSt) : Prop :=
  ∃ v : Nat, st = ⟨(v : Int), v % 2 ^ w⟩ ∧ s.st (D.rid 0) = (v : Int) ∧ s.val 2 = v % 2 ^ w ∧ s.prepared = []

theorem reg_step (w dw cw rv : Nat) (hasE hasR : Bool) (s : State Int) (st : RegSt) (i : RegIn)
    (hv : i.e < 2 ^ cw ∧ i.r < 2 ^ cw ∧ i.d < 2 ^ dw) (hI : RegInv w (regNet w dw cw rv hasE hasR).netD s st) :
    let D := (regNet w dw cw rv hasE hasR).netD
    let s' := clk D.design 1 ((regPokes i).foldl (putW D.design) s)
    RegInv w D s' ((reg ⟨w, rv, hasE, hasR⟩).step st i) ∧
    [2].map s'.val = [(reg ⟨w, rv, hasE, hasR⟩).out ((reg ⟨w, rv, hasE, hasR⟩).step st i) i] := by
  intro D s'
  obtain ⟨v, rfl, hst, hvq, hp⟩ := hI
  obtain ⟨he, hr, hd⟩ := hv
  let sp := (regPokes i).foldl (putW D.design) s
  have wdd : D.wd 1 = dw := by simp [D, KNet.netD, regNet]
  have wdq : D.wd 2 = w := by simp [D, KNet.netD, regNet]
  have wdc : ∀ x, x ≠ 1 → x ≠ 2 → D.wd x = cw := by intro x h1 h2; simp [D, KNet.netD, regNet, h1, h2]
  have spv : sp.val = upd (upd (upd s.val 3 i.e) 4 i.r) 1 i.d := by
    simp only [sp, regPokes, List.foldl_cons, List.foldl_nil, putW_val, wdd, wdc 3 (by omega) (by omega),
      wdc 4 (by omega) (by omega), Bits.put_ofNat]
    simp [Nat.mod_eq_of_lt he, Nat.mod_eq_of_lt hr, Nat.mod_eq_of_lt hd]
  have spst : sp.st = s.st := by simp only [sp, regPokes, List.foldl_cons, List.foldl_nil, putW_val]
  have spp : sp.prepared = [] := by simp only [sp, regPokes, List.foldl_cons, List.foldl_nil, putW_val]; exact hp
  have hC := cycle D (regNet_ok w dw cw rv hasE hasR) sp spp (fun _ => v) (by
    intro j hj
    have : j = 0 := by simp [D, KNet.netD, regNet] at hj; omega
    subst this; rw [spst]; exact hst)
  obtain ⟨hreg, _, _, hin1, _, hp2⟩ := hC
  have nocomb : ∀ x, ∀ c, c ∈ D.combs → c.out ≠ x := by intro x c hc; simp [D, KNet.netD, regNet] at hc
  have v1 : (propagateAll D.design sp).val 1 = i.d := by rw [hin1 1 (nocomb 1), spv]; simp [upd]
  have v3 : (propagateAll D.design sp).val 3 = i.e := by rw [hin1 3 (nocomb 3), spv]; simp [upd]
  have v4 : (propagateAll D.design sp).val 4 = i.r := by rw [hin1 4 (nocomb 4), spv]; simp [upd]
  have hR := hreg 0 (regLeaf rv hasE hasR) (by simp [D, KNet.netD, regNet])
  have hrn : regNextV (propagateAll D.design sp).val (regLeaf rv hasE hasR) v = SeqFlat.regNext hasR hasE rv i.r i.e i.d v := by
    simp only [regNextV, regLeaf, v1]
    cases hasE <;> cases hasR <;> simp [SeqFlat.regNext, v3, v4]
  rw [hrn] at hR
  have hstep : (reg ⟨w, rv, hasE, hasR⟩).step ⟨(v : Int), v % 2 ^ w⟩ i =
      ⟨((SeqFlat.regNext hasR hasE rv i.r i.e i.d v : Nat) : Int), SeqFlat.regNext hasR hasE rv i.r i.e i.d v % 2 ^ w⟩ := by
    simp only [reg, regClk_rule, opt_eq_some, SeqFlat.regNext]
    cases hasE <;> cases hasR <;> simp [Bits.put_ofNat] <;> (repeat' split) <;> simp_all [Bits.put_ofNat]
  have hq2 : (clk D.design 1 sp).val 2 = SeqFlat.regNext hasR hasE rv i.r i.e i.d v % 2 ^ w := by
    have := hR.1
    simp only [regLeaf, wdq, Bits.put_ofNat] at this
    exact this
  refine ⟨⟨_, hstep, hR.2, hq2, hp2⟩, ?_⟩
  rw [hstep]
  simp only [List.map, reg]
  show [(clk D.design 1 sp).val 2] = _
  rw [hq2]

/-- **Reg, netlist level**: a bare register with ANY natural reset value (also ≥ 2^w: the attribute keeps it, the wire
    shows it masked), any widths of d / q / control wires (also d wider than q, control wires wider than 1 bit), enable and
    reset present or absent: the one-leaf netlist under `Net.Sim` from power-up shows on `q` after every
    `poke e,r,d; clk(1)` the after-edge output of `Lib.reg`.  (Negative reset values cannot be expressed in `RLeaf.rv : Nat`;
    they are covered at block level by `reg_rule`.) -/
theorem reg_net (w dw cw rv : Nat) (hasE hasR : Bool) (h : List RegIn)
    (hv : ∀ x ∈ h, x.e < 2 ^ cw ∧ x.r < 2 ^ cw ∧ x.d < 2 ^ dw) :
    let D := (regNet w dw cw rv hasE hasR).netD
    netTrace D regPokes [2] (initC D.design D.st0 D.cons) h =
      ((reg ⟨w, rv, hasE, hasR⟩).trace (reg ⟨w, rv, hasE, hasR⟩).init h).map (fun ab => [ab.2]) := by
  intro D
  apply netTrace_sim D (reg ⟨w, rv, hasE, hasR⟩) regPokes [2] (fun o => [o])
    (fun x => x.e < 2 ^ cw ∧ x.r < 2 ^ cw ∧ x.d < 2 ^ dw) (RegInv w D)
  · intro s st i hi hI; exact reg_step w dw cw rv hasE hasR s st i hi hI
  · exact hv
  · have hi := init_state D (regNet_ok w dw cw rv hasE hasR)
    have h0 := hi.2 0 (regLeaf rv hasE hasR) (by simp [D, KNet.netD, regNet])
    refine ⟨rv, ?_, h0.1, ?_, hi.1⟩
    · simp [reg, regInit, Bits.put_ofNat]
    · have := h0.2
      simp only [regLeaf] at this
      rw [this]
      have : D.wd 2 = w := by simp [D, KNet.netD, regNet]
      rw [this, Bits.put_ofNat]

-- 3-bit register with reset value 21 (oversized), 2-bit control wires: q shows 21 mod 8 = 5, holds, loads 6, r = 2 is no reset
example : netTrace (regNet 3 3 2 21 true true).netD regPokes [2]
    (initC (regNet 3 3 2 21 true true).netD.design (regNet 3 3 2 21 true true).netD.st0 (regNet 3 3 2 21 true true).netD.cons)
    [⟨0, 0, 3⟩, ⟨1, 0, 6⟩, ⟨1, 2, 4⟩, ⟨0, 1, 7⟩] = [[5], [6], [4], [5]] := by decide


end C09N
