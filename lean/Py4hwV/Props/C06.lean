import Py4hwV.Net.Sim
import Py4hwV.Net.PrepLemma
import Py4hwV.Core.Bits
/-
  C06 — Wire values always fit their declared width.

  Universal over: designs, widths, leaf functions (arbitrary `prop`/`clock` returning arbitrary Python ints),
  values, histories (every `Op` list: pokes with arbitrary — negative, oversized — values, and clk(n)).
  The mask is the one in base.py today: `Gen.Wire.put/prepare` are regenerated from the source on each run.
-/
namespace C06
open Net Bits

/-- the generated `Wire.put` is the reference `put` (this is the bridge that breaks if the mask is changed) -/
theorem gen_wire_put_eq (w : Nat) (v : Int) : Gen.Wire.put (w : Int) v = ((Bits.put w v : Nat) : Int) := by
  simp only [Gen.Wire.put, Id.run, pure, Py.shlT, Int.toNat_natCast]
  rw [put_eq_land]

/-- for BOTH values of the "already prepared" flag (code placed in that branch of prepare is part of the statement) -/
theorem gen_wire_prepare_eq (w : Nat) (al v : Int) : Gen.Wire.prepare (w : Int) al v = ((Bits.put w v : Nat) : Int) :=
  Net.gen_wire_prepare_eq w al v

theorem gen_bidir_put_eq (w : Nat) (v : Int) : Gen.BidirWire.put (w : Int) v = ((Bits.put w v : Nat) : Int) := by
  simp only [Gen.BidirWire.put, Id.run, pure, Py.shlT, Int.toNat_natCast]
  rw [put_eq_land]

theorem gen_bidir_prepare_eq (w : Nat) (v : Int) :
    Gen.BidirWire.prepare (w : Int) v = ((Bits.put w v : Nat) : Int) := by
  simp only [Gen.BidirWire.prepare, Id.run, pure, Py.shlT, Int.toNat_natCast]
  rw [put_eq_land]

/-- the value stored by put/prepare is in range for EVERY python int, negative and oversized included -/
theorem gen_wire_put_lt (w : Nat) (v : Int) : (Gen.Wire.put (w : Int) v).toNat < 2 ^ w := by
  rw [gen_wire_put_eq]; simpa using put_lt w v

theorem gen_wire_prepare_lt (w : Nat) (al v : Int) : (Gen.Wire.prepare (w : Int) al v).toNat < 2 ^ w := by
  rw [gen_wire_prepare_eq]; simpa using put_lt w v

theorem gen_wire_put_nonneg (w : Nat) (v : Int) : 0 ≤ Gen.Wire.put (w : Int) v := by
  rw [gen_wire_put_eq]; exact Int.natCast_nonneg _

variable {σ : Type}

/-- the invariant: every wire value — and every pending `next` value — fits the wire's width -/
def Inv (d : Design σ) (s : State σ) : Prop :=
  (∀ w, s.val w < 2 ^ d.width w) ∧ (∀ w, w ∈ s.prepared → s.nxt w < 2 ^ d.width w)

theorem inv_putW (d : Design σ) (s : State σ) (wv : Nat × Int) (h : Inv d s) : Inv d (putW d s wv) := by
  constructor
  · intro w
    by_cases e : w = wv.1
    · subst e; simp [putW]; exact gen_wire_put_lt _ _
    · simp [putW, upd, e]; exact h.1 w
  · exact h.2

theorem inv_prepW (d : Design σ) (s : State σ) (wv : Nat × Int) (h : Inv d s) : Inv d (prepW d s wv) := by
  constructor
  · exact h.1
  · intro w hw
    by_cases e : w = wv.1
    · subst e; simp [prepW, prepVal]; exact gen_wire_prepare_lt _ _ _
    · have : w ∈ s.prepared := by
        simp [prepW] at hw
        rcases hw with hw | hw
        · exact hw
        · exact absurd hw e
      simp [prepW, upd, e]; exact h.2 w this

theorem inv_foldl {α : Type} (d : Design σ) (f : State σ → α → State σ)
    (hf : ∀ s a, Inv d s → Inv d (f s a)) (l : List α) (s : State σ) (h : Inv d s) : Inv d (l.foldl f s) := by
  induction l generalizing s with
  | nil => exact h
  | cons a l ih => exact ih _ (hf s a h)

theorem inv_st (d : Design σ) (s : State σ) (st' : Nat → σ) (h : Inv d s) : Inv d { s with st := st' } := h

theorem inv_propLeaf (d : Design σ) (s : State σ) (k : Nat) (h : Inv d s) : Inv d (propLeaf d s k) := by
  unfold propLeaf
  exact inv_foldl d (putW d) (fun s a => inv_putW d s a) _ _ (inv_st d s _ h)

theorem inv_propagateAll (d : Design σ) (s : State σ) (h : Inv d s) : Inv d (propagateAll d s) :=
  inv_foldl d (propLeaf d) (fun s k => inv_propLeaf d s k) _ _ h

theorem inv_clockLeaf (d : Design σ) (s : State σ) (k : Nat) (h : Inv d s) : Inv d (clockLeaf d s k) := by
  unfold clockLeaf
  exact inv_foldl d (prepW d) (fun s a => inv_prepW d s a) _ _ (inv_st d s _ h)

theorem inv_clockDrivers (d : Design σ) (s : State σ) (ds : List Driver) (h : Inv d s) :
    Inv d (clockDrivers d s ds) := by
  unfold clockDrivers
  apply inv_foldl d _ _ ds s h
  intro s dr hs
  split
  · exact inv_foldl d (clockLeaf d) (fun s k => inv_clockLeaf d s k) _ _ hs
  · exact hs

theorem settle_val_lt (d : Design σ) (nxt : Val) (l : List Nat) (v : Val)
    (hv : ∀ w, v w < 2 ^ d.width w) (hn : ∀ w, w ∈ l → nxt w < 2 ^ d.width w) :
    ∀ w, (l.foldl (fun v w => upd v w (nxt w)) v) w < 2 ^ d.width w := by
  induction l generalizing v with
  | nil => exact hv
  | cons a l ih =>
    apply ih
    · intro w
      by_cases e : w = a
      · subst e; simp [upd]; exact hn w (by simp)
      · simp [upd, e]; exact hv w
    · intro w hw; exact hn w (by simp [hw])

theorem inv_settleAll (d : Design σ) (s : State σ) (h : Inv d s) : Inv d (settleAll s) := by
  constructor
  · exact settle_val_lt d s.nxt s.prepared s.val h.1 h.2
  · intro w hw; simp [settleAll] at hw

/-- the state handed to listeners (`_notifyListeners` runs after the post-edge propagate) -/
def atListeners (d : Design σ) (s : State σ) : State σ :=
  propagateAll d (settleAll (clockDrivers d s d.drivers))

theorem inv_atListeners (d : Design σ) (s : State σ) (h : Inv d s) : Inv d (atListeners d s) :=
  inv_propagateAll d _ (inv_settleAll d _ (inv_clockDrivers d s _ h))

theorem inv_clkCycle (d : Design σ) (s : State σ) (h : Inv d s) : Inv d (clkCycle d s) := by
  have := inv_atListeners d s h
  exact this

theorem inv_iter (d : Design σ) (n : Nat) (s : State σ) (h : Inv d s) : Inv d (iter (clkCycle d) n s) := by
  induction n generalizing s with
  | zero => exact h
  | succ n ih => exact ih _ (inv_clkCycle d s h)

theorem inv_clk (d : Design σ) (n : Nat) (s : State σ) (h : Inv d s) : Inv d (clk d n s) :=
  inv_iter d n _ (inv_propagateAll d s h)

theorem inv_power_upC (d : Design σ) (st0 : Nat → σ) (cons : List (Nat × Int)) : Inv d (initC d st0 cons) := by
  apply inv_propagateAll
  apply inv_foldl d (putW d) (fun s a => inv_putW d s a)
  constructor
  · intro w; exact Nat.two_pow_pos _
  · intro w hw; simp at hw

theorem inv_power_up (d : Design σ) (st0 : Nat → σ) : Inv d (init d st0) := inv_power_upC d st0 []

theorem inv_applyOp (d : Design σ) (s : State σ) (op : Op) (h : Inv d s) : Inv d (applyOp d s op) := by
  cases op with
  | poke w v => exact inv_putW d s (w, v) h
  | clk n => exact inv_clk d n s h
  | resort => exact h

/-- C06, main statement: after simulator creation and after ANY sequence of pokes (arbitrary ints) and clk(n)
    calls, on ANY design with ANY leaf functions, every wire value v satisfies 0 ≤ v < 2^width. -/
theorem wire_values_fit (d : Design σ) (st0 : Nat → σ) (ops : List Op) :
    ∀ w, (run d st0 ops).val w < 2 ^ d.width w := by
  have : Inv d (run d st0 ops) := by
    unfold run
    exact inv_foldl d (applyOp d) (fun s op => inv_applyOp d s op) ops _ (inv_power_up d st0)
  exact this.1

/-- the same with construction-time puts (e.g. `Reg` putting an arbitrary — possibly oversized — reset value on q) -/
theorem wire_values_fitC (d : Design σ) (st0 : Nat → σ) (cons : List (Nat × Int)) (ops : List Op) :
    ∀ w, (runC d st0 cons ops).val w < 2 ^ d.width w := by
  have : Inv d (runC d st0 cons ops) := by
    unfold runC
    exact inv_foldl d (applyOp d) (fun s op => inv_applyOp d s op) ops _ (inv_power_upC d st0 cons)
  exact this.1

/-- … and also at every listener / waveform-capture point inside every cycle of every such run:
    listeners see `atListeners`, clockables (Waveform.clock) see the pre-edge state. -/
theorem wire_values_fit_at_listeners (d : Design σ) (st0 : Nat → σ) (ops : List Op) (k : Nat) :
    ∀ w, (atListeners d (iter (clkCycle d) k (propagateAll d (run d st0 ops)))).val w < 2 ^ d.width w := by
  have h0 : Inv d (run d st0 ops) := by
    unfold run
    exact inv_foldl d (applyOp d) (fun s op => inv_applyOp d s op) ops _ (inv_power_up d st0)
  exact (inv_atListeners d _ (inv_iter d k _ (inv_propagateAll d _ h0))).1

/-- non-vacuity: a 3-bit wire driven with −1 by a leaf that ignores masks reads 7, and an oversized poke wraps -/
def exDesign : Design Unit :=
  { width := fun _ => 3,
    leaf := fun _ => { prop := fun _ s => (s, [(1, -1)]), clock := fun v s => (s, [(2, (v 1 : Int) * 100)]) },
    order := [0], drivers := [{ enable := none, clockables := [0] }] }

example : (run exDesign (fun _ => ()) [.poke 0 1000, .clk 2]).val 1 = 7 := by decide
example : (run exDesign (fun _ => ()) [.poke 0 1000, .clk 2]).val 0 = 0 := by decide
example : (run exDesign (fun _ => ()) [.poke 0 1000, .clk 2]).val 2 = 4 := by decide

end C06
