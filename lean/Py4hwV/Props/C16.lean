import Py4hwV.Proofs.C16Bridge
import Py4hwV.Proofs.C16Clk
import Py4hwV.Gen.Fsm
/-
  C16 — AXI4-Stream adapters never lose, duplicate or corrupt a beat.

  Model: Proto/Axi.lean (`Axi.A2R.step`, `Axi.R2A.step`: the gate-level netlists of vitiswrapping.py composed with the Reg
  rule; `stepG`: the same netlists over the leaf definitions GENERATED from the Python source, `stepG_eq_step`).
  Specification: Proto/AxiSpec.lean (reference monitors that only see inputs and observed outputs).

  Universal over: register width W, stream width DW, tkeep width KW, all data values, and ALL input schedules
  (`is : List In`, one entry per clk(1); every interleaving of start/reset/done/load pulses with the peer's VALID/READY:
  back-pressure, back-to-back beats, load while pending, reset/done mid-transfer are just particular lists).
  A statement "at every cycle" is written "after every schedule `is`" (the state reached by `run c init is`) followed by one
  more arbitrary cycle `i`.

  Environment assumption ("done is only signalled after a completed transfer"): `Quiet` = `Spec.R2A.doneQuiet` at every
  cycle.  It is needed only by the Reg2Axi statements that say VALID is retired by an accepted beat; see
  `r2a_done_while_pending_counterexample` for what happens under the weaker literal reading (done only while sent = 1).
-/
namespace C16
open Axi

theorem bit_cases {x : Nat} (h : x < 2) : x = 0 ∨ x = 1 := by omega

theorem range_low (W a : Nat) : range W a (W - 1) 0 = a % 2^W := by
  unfold range
  by_cases h : W = 0
  · subst h; simp
  · have : W - 1 - 0 + 1 = W := by omega
    rw [this]; simp

/-! ## Axi2Reg -/

/-- the register output wires hold values of their width -/
structure A2RWfS (c : A2R.Cfg) (s : A2R.St) : Prop where
  active : s.active < 2
  loaded : s.loaded < 2
  q : s.q < 2^c.W
/-- the 1-bit input wires hold 0 or 1 (C06: whatever is poked is masked); tdata is unconstrained -/
structure A2RWfI (i : A2R.In) : Prop where
  ap_start : i.ap_start < 2
  ap_reset : i.ap_reset < 2
  ap_done : i.ap_done < 2
  tvalid : i.tvalid < 2

/-- clear condition of `loaded`/`q`: reset, done, or restart (start while not active) -/
def a2rClr (s : A2R.St) (i : A2R.In) : Prop := i.ap_reset = 1 ∨ i.ap_done = 1 ∨ (i.ap_start = 1 ∧ s.active = 0)
instance (s : A2R.St) (i : A2R.In) : Decidable (a2rClr s i) := by unfold a2rClr; infer_instance

theorem a2r_step_active (c : A2R.Cfg) (s : A2R.St) (i : A2R.In) (hs : A2RWfS c s) (hi : A2RWfI i) :
    (A2R.step c s i).active = if i.ap_reset = 1 ∨ i.ap_done = 1 then 0 else if i.ap_start = 1 then 1 else s.active := by
  obtain ⟨a, l, q⟩ := s
  obtain ⟨st, rs, dn, tv, td⟩ := i
  obtain ⟨h1, -, -⟩ := hs
  obtain ⟨h2, h3, h4, -⟩ := hi
  simp only at h1 h2 h3 h4
  rcases bit_cases h1 with rfl | rfl <;> rcases bit_cases h2 with rfl | rfl <;> rcases bit_cases h3 with rfl | rfl <;>
    rcases bit_cases h4 with rfl | rfl <;> simp [A2R.step, A2R.comb, regER, orN, and2, or2, not1, buf]

theorem a2r_step_loaded (c : A2R.Cfg) (s : A2R.St) (i : A2R.In) (hs : A2RWfS c s) (hi : A2RWfI i) :
    (A2R.step c s i).loaded = if a2rClr s i then 0 else if s.active = 1 ∧ i.tvalid = 1 then 1 else s.loaded := by
  obtain ⟨a, l, q⟩ := s
  obtain ⟨st, rs, dn, tv, td⟩ := i
  obtain ⟨h1, h5, -⟩ := hs
  obtain ⟨h2, h3, h4, h6⟩ := hi
  simp only at h1 h2 h3 h4 h5 h6
  rcases bit_cases h1 with rfl | rfl <;> rcases bit_cases h2 with rfl | rfl <;> rcases bit_cases h3 with rfl | rfl <;>
    rcases bit_cases h4 with rfl | rfl <;> rcases bit_cases h5 with rfl | rfl <;> rcases bit_cases h6 with rfl | rfl <;>
    simp [A2R.step, A2R.comb, regER, orN, and2, or2, not1, buf, a2rClr]

theorem a2r_step_q (c : A2R.Cfg) (s : A2R.St) (i : A2R.In) (hs : A2RWfS c s) (hi : A2RWfI i) :
    (A2R.step c s i).q = if a2rClr s i then 0 else if s.active = 1 ∧ i.tvalid = 1 then i.tdata % 2^c.W else s.q := by
  obtain ⟨a, l, q⟩ := s
  obtain ⟨st, rs, dn, tv, td⟩ := i
  obtain ⟨h1, -, h5⟩ := hs
  obtain ⟨h2, h3, h4, h6⟩ := hi
  simp only at h1 h2 h3 h4 h5 h6
  have hq : q % 2^c.W = q := Nat.mod_eq_of_lt h5
  rcases bit_cases h1 with rfl | rfl <;> rcases bit_cases h2 with rfl | rfl <;> rcases bit_cases h3 with rfl | rfl <;>
    rcases bit_cases h4 with rfl | rfl <;> rcases bit_cases h6 with rfl | rfl <;>
    simp [A2R.step, A2R.comb, regER, orN, and2, or2, not1, buf, range_low, hq, a2rClr]

/-- THE STEP RULE of Axi2Reg: what one clock edge does to (active, loaded, q), as a priority table.
    Everything below is derived from this rule; it is proved from the gate-level netlist by case analysis. -/
theorem a2r_step_rule (c : A2R.Cfg) (s : A2R.St) (i : A2R.In) (hs : A2RWfS c s) (hi : A2RWfI i) :
    (A2R.step c s i).active = (if i.ap_reset = 1 ∨ i.ap_done = 1 then 0 else if i.ap_start = 1 then 1 else s.active) ∧
    (A2R.step c s i).loaded = (if a2rClr s i then 0 else if s.active = 1 ∧ i.tvalid = 1 then 1 else s.loaded) ∧
    (A2R.step c s i).q = (if a2rClr s i then 0 else if s.active = 1 ∧ i.tvalid = 1 then i.tdata % 2^c.W else s.q) :=
  ⟨a2r_step_active c s i hs hi, a2r_step_loaded c s i hs hi, a2r_step_q c s i hs hi⟩

theorem a2r_wf_step (c : A2R.Cfg) (s : A2R.St) (i : A2R.In) : A2RWfS c (A2R.step c s i) := by
  have hp : 0 < 2 ^ c.W := Nat.two_pow_pos _
  constructor
  · exact Nat.mod_lt _ (by decide)
  · exact Nat.mod_lt _ (by decide)
  · exact Nat.mod_lt _ hp

theorem a2r_wf_init (c : A2R.Cfg) : A2RWfS c A2R.init :=
  ⟨by decide, by decide, Nat.two_pow_pos _⟩

theorem a2r_run_inv (c : A2R.Cfg) (P : A2R.St → Prop) (hstep : ∀ s i, P s → P (A2R.step c s i))
    (is : List A2R.In) (s : A2R.St) (h0 : P s) : P (A2R.run c s is) := by
  induction is generalizing s with
  | nil => exact h0
  | cons i is ih => exact ih _ (hstep s i h0)

/-- every reachable state is well formed (C06 for this block) -/
theorem a2r_wf_run (c : A2R.Cfg) (is : List A2R.In) : A2RWfS c (A2R.run c A2R.init is) :=
  a2r_run_inv c (A2RWfS c) (fun s i _ => a2r_wf_step c s i) is _ (a2r_wf_init c)

def A2RWfIs (is : List A2R.In) : Prop := ∀ i ∈ is, A2RWfI i

theorem a2r_run_snoc (c : A2R.Cfg) (s : A2R.St) (is : List A2R.In) (i : A2R.In) :
    A2R.run c s (is ++ [i]) = A2R.step c (A2R.run c s is) i := by
  simp [A2R.run, List.foldl_append]

/-- (1) `a2r_ready_iff_active`: READY is asserted exactly while the adapter is active — after EVERY schedule, and whatever
    is poked next, the settled tready wire equals the active wire (and both are 0/1). -/
theorem a2r_ready_iff_active (c : A2R.Cfg) (is : List A2R.In) (i : A2R.In) :
    (A2R.comb c (A2R.run c A2R.init is) i).tready = (A2R.run c A2R.init is).active ∧
    (A2R.run c A2R.init is).active < 2 := by
  have h := (a2r_wf_run c is).active
  refine ⟨?_, h⟩
  simp only [A2R.comb, buf]
  omega

/-- `active` is set by a start pulse and cleared by reset or done (clear wins), at every cycle of every schedule -/
theorem a2r_active_rule (c : A2R.Cfg) (is : List A2R.In) (i : A2R.In) (hi : A2RWfI i) :
    (A2R.run c A2R.init (is ++ [i])).active =
      if i.ap_reset = 1 ∨ i.ap_done = 1 then 0 else if i.ap_start = 1 then 1 else (A2R.run c A2R.init is).active := by
  rw [a2r_run_snoc]; exact a2r_step_active c _ i (a2r_wf_run c is) hi

theorem a2r_obs_tready (c : A2R.Cfg) (s : A2R.St) (hs : A2RWfS c s) : (A2R.obs c s).tready = s.active := by
  have h := hs.active
  simp only [A2R.obs, A2R.comb, buf]
  omega

theorem a2r_clear_iff (c : A2R.Cfg) (s : A2R.St) (i : A2R.In) :
    Spec.A2R.clear (A2R.obs c s) i = true ↔ a2rClr s i := by
  simp [Spec.A2R.clear, A2R.obs, a2rClr, or_assoc]

theorem a2r_xfer_iff (c : A2R.Cfg) (s : A2R.St) (i : A2R.In) (hs : A2RWfS c s) :
    Spec.A2R.xfer (A2R.obs c s) i = true ↔ (s.active = 1 ∧ i.tvalid = 1) := by
  simp [Spec.A2R.xfer, a2r_obs_tready c s hs, and_comm]

/-- the observable events of a run: per cycle (clear?, beat transferred?, tdata) as seen on the wires BEFORE the edge -/
def a2rEvs (c : A2R.Cfg) : A2R.St → List A2R.In → List Spec.A2R.Ev
  | _, [] => []
  | s, i :: is => ⟨Spec.A2R.clear (A2R.obs c s) i, Spec.A2R.xfer (A2R.obs c s) i, i.tdata⟩ :: a2rEvs c (A2R.step c s i) is

/-- the relation between the block and the monitor: loaded ⇔ the monitor holds a beat, and then q is that beat -/
def A2RHolds (s : A2R.St) (m : Option Nat) : Prop :=
  s.loaded = (if m.isSome then 1 else 0) ∧ ∀ v, m = some v → s.q = v

theorem a2r_holds_step (c : A2R.Cfg) (s : A2R.St) (i : A2R.In) (m : Option Nat) (hs : A2RWfS c s) (hi : A2RWfI i)
    (h : A2RHolds s m) : A2RHolds (A2R.step c s i) (Spec.A2R.monStep c.W m (A2R.obs c s) i) := by
  unfold A2RHolds
  rw [a2r_step_loaded c s i hs hi, a2r_step_q c s i hs hi]
  unfold Spec.A2R.monStep
  by_cases h1 : a2rClr s i
  · have : Spec.A2R.clear (A2R.obs c s) i = true := (a2r_clear_iff c s i).2 h1
    simp [h1, this]
  · have e1 : Spec.A2R.clear (A2R.obs c s) i = false := by
      cases hc : Spec.A2R.clear (A2R.obs c s) i
      · rfl
      · exact absurd ((a2r_clear_iff c s i).1 hc) h1
    by_cases h2 : s.active = 1 ∧ i.tvalid = 1
    · have : Spec.A2R.xfer (A2R.obs c s) i = true := (a2r_xfer_iff c s i hs).2 h2
      simp [h1, h2, e1, this]
    · have e2 : Spec.A2R.xfer (A2R.obs c s) i = false := by
        cases hc : Spec.A2R.xfer (A2R.obs c s) i
        · rfl
        · exact absurd ((a2r_xfer_iff c s i hs).1 hc) h2
      simp only [h1, h2, e1, e2, if_false, Bool.false_eq_true]
      exact h

theorem a2r_holds_run (c : A2R.Cfg) (is : List A2R.In) (hw : A2RWfIs is) (s : A2R.St) (m : Option Nat)
    (hs : A2RWfS c s) (h : A2RHolds s m) :
    A2RHolds (A2R.run c s is) ((a2rEvs c s is).foldl (Spec.A2R.evStep c.W) m) := by
  induction is generalizing s m with
  | nil => exact h
  | cons i is ih =>
    have hi : A2RWfI i := hw i (by simp)
    have := ih (fun j hj => hw j (by simp [hj])) (A2R.step c s i) _ (a2r_wf_step c s i) (a2r_holds_step c s i m hs hi h)
    simpa [A2R.run, a2rEvs, Spec.A2R.evStep, Spec.A2R.monStep] using this

/-- (2) `a2r_holds_last_beat`: after EVERY schedule, `loaded` is up exactly when a beat was transferred (VALID ∧ READY) since
    the last reset / done / restart, and then `q` is the low W bits of the MOST RECENT such beat
    (`lastBeat`, characterised position-wise by `lastBeat_eq_some_iff`). -/
theorem a2r_holds_last_beat (c : A2R.Cfg) (is : List A2R.In) (hw : A2RWfIs is) :
    ((A2R.run c A2R.init is).loaded = 1 ↔ (Spec.A2R.lastBeat c.W (a2rEvs c A2R.init is)).isSome = true) ∧
    (∀ v, Spec.A2R.lastBeat c.W (a2rEvs c A2R.init is) = some v → (A2R.run c A2R.init is).q = v) ∧
    (Spec.A2R.lastBeat c.W (a2rEvs c A2R.init is) = none → (A2R.run c A2R.init is).loaded = 0) := by
  have h := a2r_holds_run c is hw A2R.init none (a2r_wf_init c) ⟨rfl, fun v hv => by cases hv⟩
  unfold A2RHolds at h
  unfold Spec.A2R.lastBeat
  refine ⟨?_, h.2, ?_⟩
  · rw [h.1]; split <;> simp_all
  · intro hn; rw [h.1, hn]; rfl

/-- what `lastBeat` is, without the fold: the history splits around the most recent transferred beat, which was not
    cancelled by a clear in its own cycle, and nothing (no clear, no newer beat) happened since. -/
theorem lastBeat_fold_iff (W : Nat) (evs : List Spec.A2R.Ev) (m : Option Nat) (v : Nat) :
    evs.foldl (Spec.A2R.evStep W) m = some v ↔
      (∃ pre e post, evs = pre ++ e :: post ∧ e.clear = false ∧ e.xfer = true ∧ v = e.data % 2^W ∧
        ∀ e' ∈ post, e'.clear = false ∧ e'.xfer = false) ∨
      (m = some v ∧ ∀ e' ∈ evs, e'.clear = false ∧ e'.xfer = false) := by
  induction evs generalizing m with
  | nil => simp
  | cons e0 rest ih =>
    rw [List.foldl_cons, ih]
    constructor
    · rintro (⟨pre, e, post, rfl, h1, h2, h3, h4⟩ | ⟨hm, hq⟩)
      · exact Or.inl ⟨e0 :: pre, e, post, rfl, h1, h2, h3, h4⟩
      · unfold Spec.A2R.evStep at hm
        by_cases hc : e0.clear = true
        · simp [hc] at hm
        · have hc' : e0.clear = false := by simpa using hc
          by_cases hx : e0.xfer = true
          · simp [hc', hx] at hm
            exact Or.inl ⟨[], e0, rest, rfl, hc', hx, hm.symm, hq⟩
          · have hx' : e0.xfer = false := by simpa using hx
            simp [hc', hx'] at hm
            refine Or.inr ⟨hm, ?_⟩
            intro e' he'
            rcases List.mem_cons.1 he' with rfl | h
            · exact ⟨hc', hx'⟩
            · exact hq e' h
    · rintro (⟨pre, e, post, heq, h1, h2, h3, h4⟩ | ⟨hm, hq⟩)
      · cases pre with
        | nil =>
          simp only [List.nil_append, List.cons.injEq] at heq
          obtain ⟨rfl, rfl⟩ := heq
          refine Or.inr ⟨?_, h4⟩
          simp [Spec.A2R.evStep, h1, h2, h3]
        | cons p pre' =>
          simp only [List.cons_append, List.cons.injEq] at heq
          obtain ⟨rfl, rfl⟩ := heq
          exact Or.inl ⟨pre', e, post, rfl, h1, h2, h3, h4⟩
      · have h0 := hq e0 (by simp)
        refine Or.inr ⟨?_, fun e' he' => hq e' (by simp [he'])⟩
        simp [Spec.A2R.evStep, h0.1, h0.2, hm]

theorem lastBeat_eq_some_iff (W : Nat) (evs : List Spec.A2R.Ev) (v : Nat) :
    Spec.A2R.lastBeat W evs = some v ↔
      ∃ pre e post, evs = pre ++ e :: post ∧ e.clear = false ∧ e.xfer = true ∧ v = e.data % 2^W ∧
        ∀ e' ∈ post, e'.clear = false ∧ e'.xfer = false := by
  unfold Spec.A2R.lastBeat
  rw [lastBeat_fold_iff]
  simp

/-- (3) no beat is lost: a beat transferred (VALID ∧ READY on the wires) in a cycle without reset or done is in the register
    right after that cycle, with the loaded flag up. -/
theorem a2r_no_lost_beat (c : A2R.Cfg) (is : List A2R.In) (i : A2R.In) (hi : A2RWfI i)
    (hv : i.tvalid = 1) (hr : (A2R.comb c (A2R.run c A2R.init is) i).tready = 1)
    (hreset : i.ap_reset = 0) (hdone : i.ap_done = 0) :
    (A2R.run c A2R.init (is ++ [i])).loaded = 1 ∧ (A2R.run c A2R.init (is ++ [i])).q = i.tdata % 2^c.W := by
  have hs := a2r_wf_run c is
  have ha : (A2R.run c A2R.init is).active = 1 := by rw [← (a2r_ready_iff_active c is i).1]; exact hr
  rw [a2r_run_snoc, a2r_step_loaded c _ i hs hi, a2r_step_q c _ i hs hi]
  have : ¬ a2rClr (A2R.run c A2R.init is) i := by
    unfold a2rClr; omega
  simp [this, ha, hv]

/-- … and the environment assumption is what makes "never lose a beat" true: a beat the adapter accepts (READY is up) in
    the very cycle ap_done is pulsed is dropped (clear has priority over capture). -/
theorem a2r_beat_lost_on_done_counterexample :
    let c : A2R.Cfg := ⟨8, 8⟩
    let s := A2R.run c A2R.init [⟨1, 0, 0, 0, 0⟩]
    let i : A2R.In := ⟨0, 0, 1, 1, 0xAB⟩
    (A2R.comb c s i).tready = 1 ∧ i.tvalid = 1 ∧ (A2R.step c s i).loaded = 0 ∧ (A2R.step c s i).q = 0 := by
  decide

theorem a2r_clauses_ok (c : A2R.Cfg) (s : A2R.St) (i : A2R.In) (m : Option Nat) (hs : A2RWfS c s) (hi : A2RWfI i)
    (h : A2RHolds s m) :
    ∀ p ∈ Spec.A2R.clauses c.W m (A2R.obs c s) i (A2R.obs c (A2R.step c s i)), p.2 = true := by
  have hs' := a2r_wf_step c s i
  have hh := a2r_holds_step c s i m hs hi h
  have ha := a2r_step_active c s i hs hi
  intro p hp
  simp only [Spec.A2R.clauses, List.mem_cons, List.mem_nil_iff, or_false] at hp
  rcases hp with rfl | rfl | rfl | rfl
  · have e1 := a2r_obs_tready c s hs
    have e2 := a2r_obs_tready c _ hs'
    simp only [A2R.obs] at e1 e2
    simp [A2R.obs, e1, e2]
  · show ((A2R.obs c (A2R.step c s i)).active == Spec.A2R.activeNext (A2R.obs c s) i) = true
    simp only [A2R.obs, Spec.A2R.activeNext, ha, beq_iff_eq]
    by_cases h1 : i.ap_reset = 1 <;> by_cases h2 : i.ap_done = 1 <;> by_cases h3 : i.ap_start = 1 <;> simp [h1, h2, h3]
  · show ((A2R.obs c (A2R.step c s i)).loaded == _) = true
    simp only [beq_iff_eq]
    exact hh.1
  · show (match Spec.A2R.monStep c.W m (A2R.obs c s) i with
        | some v => (A2R.obs c (A2R.step c s i)).q == v | none => true) = true
    cases hm : Spec.A2R.monStep c.W m (A2R.obs c s) i with
    | none => rfl
    | some v => simp only [beq_iff_eq]; exact hh.2 v hm

theorem a2r_check_ok (c : A2R.Cfg) (is : List A2R.In) (hw : A2RWfIs is) (s : A2R.St) (m : Option Nat) (t : Nat)
    (hs : A2RWfS c s) (h : A2RHolds s m) :
    Spec.A2R.checkFrom c.W m (A2R.obs c s) t (A2R.trace c s is) = .ok := by
  induction is generalizing s m t with
  | nil => rfl
  | cons i is ih =>
    have hi : A2RWfI i := hw i (by simp)
    simp only [A2R.trace, Spec.A2R.checkFrom]
    rw [Spec.firstFail_none _ (a2r_clauses_ok c s i m hs hi h)]
    exact ih (fun j hj => hw j (by simp [hj])) _ _ _ (a2r_wf_step c s i) (a2r_holds_step c s i m hs hi h)

/-- (4) the executable oracle `Spec.A2R.check` — the one the harness runs on the traces of the REAL block — accepts the
    trace of the model under EVERY schedule, for every W and DW. -/
theorem a2r_oracle_accepts_model (c : A2R.Cfg) (is : List A2R.In) (hw : A2RWfIs is) :
    Spec.A2R.check c.W (A2R.obs c A2R.init) (A2R.trace c A2R.init is) = .ok :=
  a2r_check_ok c is hw _ _ _ (a2r_wf_init c) ⟨rfl, fun v hv => by cases hv⟩

theorem a2r_traceG_eq (c : A2R.Cfg) (s : A2R.St) (is : List A2R.In) : A2R.traceG c s is = A2R.trace c s is := by
  induction is generalizing s with
  | nil => rfl
  | cons i is ih => simp only [A2R.traceG, A2R.trace, A2R.stepG_eq_step, ih]

/-- … and therefore the trace of the netlist composed of the GENERATED leaf definitions -/
theorem a2r_oracle_accepts_generated (c : A2R.Cfg) (is : List A2R.In) (hw : A2RWfIs is) :
    Spec.A2R.check c.W (A2R.obs c A2R.init) (A2R.traceG c A2R.init is) = .ok := by
  rw [a2r_traceG_eq]; exact a2r_oracle_accepts_model c is hw

/-- non-vacuity: a schedule with restart, back-to-back beats (the second one wins), a beat while inactive (ignored),
    truncation to W = 8 bits, done and reset — the run ends loaded with the last beat's low byte -/
example :
    let c : A2R.Cfg := ⟨8, 16⟩
    let is : List A2R.In := [⟨0,0,0,1,0x1111⟩, ⟨1,0,0,0,0⟩, ⟨0,0,0,1,0x1234⟩, ⟨0,0,0,1,0x5678⟩, ⟨0,0,1,0,0⟩, ⟨1,0,0,1,0x9A⟩,
                             ⟨0,0,0,1,0xBC⟩, ⟨0,1,0,1,0xDE⟩, ⟨1,0,0,0,0⟩, ⟨0,0,0,1,0xFFEE⟩, ⟨0,0,0,0,0⟩]
    A2RWfIs is ∧ A2R.run c A2R.init is = ⟨1, 1, 0xEE⟩ ∧
    Spec.A2R.lastBeat c.W (a2rEvs c A2R.init is) = some 0xEE ∧
    A2R.run c A2R.init (is.take 4) = ⟨1, 1, 0x78⟩ ∧ A2R.run c A2R.init (is.take 5) = ⟨0, 0, 0⟩ := by
  refine ⟨?_, by decide, by decide, by decide, by decide⟩
  intro i hi
  simp only [List.mem_cons, List.mem_nil_iff, or_false] at hi
  rcases hi with rfl | rfl | rfl | rfl | rfl | rfl | rfl | rfl | rfl | rfl | rfl <;> constructor <;> decide

/-! ## Reg2Axi -/

structure R2AWfS (c : R2A.Cfg) (s : R2A.St) : Prop where
  active : s.active < 2
  tvalid : s.tvalid < 2
  tdata : s.tdata < 2^c.DW
  sent : s.sent < 2
/-- the 1-bit input wires hold 0 or 1; reg_in is unconstrained -/
structure R2AWfI (i : R2A.In) : Prop where
  ap_start : i.ap_start < 2
  ap_reset : i.ap_reset < 2
  ap_done : i.ap_done < 2
  load_outs : i.load_outs < 2
  tready : i.tready < 2

/-- the offered beat is accepted and the adapter notices (it only listens while active) -/
def r2aAcc (s : R2A.St) (i : R2A.In) : Prop := s.active = 1 ∧ s.tvalid = 1 ∧ i.tready = 1
/-- a load pulse takes effect -/
def r2aLoad (s : R2A.St) (i : R2A.In) : Prop := i.load_outs = 1 ∧ s.active = 1
def r2aClr (s : R2A.St) (i : R2A.In) : Prop := i.ap_reset = 1 ∨ i.ap_done = 1 ∨ (i.ap_start = 1 ∧ s.active = 0)
instance (s : R2A.St) (i : R2A.In) : Decidable (r2aAcc s i) := by unfold r2aAcc; infer_instance
instance (s : R2A.St) (i : R2A.In) : Decidable (r2aLoad s i) := by unfold r2aLoad; infer_instance
instance (s : R2A.St) (i : R2A.In) : Decidable (r2aClr s i) := by unfold r2aClr; infer_instance

theorem r2a_step_active (c : R2A.Cfg) (s : R2A.St) (i : R2A.In) (hs : R2AWfS c s) (hi : R2AWfI i) :
    (R2A.step c s i).active = if i.ap_reset = 1 ∨ i.ap_done = 1 then 0 else if i.ap_start = 1 then 1 else s.active := by
  obtain ⟨a, tv, td, se⟩ := s
  obtain ⟨st, rs, dn, ld, ri, tr⟩ := i
  obtain ⟨h1, -, -, -⟩ := hs
  obtain ⟨h2, h3, h4, -, -⟩ := hi
  simp only at h1 h2 h3 h4
  rcases bit_cases h1 with rfl | rfl <;> rcases bit_cases h2 with rfl | rfl <;> rcases bit_cases h3 with rfl | rfl <;>
    rcases bit_cases h4 with rfl | rfl <;> simp [R2A.step, R2A.comb, regER, orN, and2, or2, not1, buf]

theorem r2a_step_tvalid (c : R2A.Cfg) (s : R2A.St) (i : R2A.In) (hs : R2AWfS c s) (hi : R2AWfI i) :
    (R2A.step c s i).tvalid = if i.ap_reset = 1 ∨ r2aAcc s i then 0 else if r2aLoad s i then 1 else s.tvalid := by
  obtain ⟨a, tv, td, se⟩ := s
  obtain ⟨st, rs, dn, ld, ri, tr⟩ := i
  obtain ⟨h1, h2, -, -⟩ := hs
  obtain ⟨-, h3, -, h4, h5⟩ := hi
  simp only at h1 h2 h3 h4 h5
  rcases bit_cases h1 with rfl | rfl <;> rcases bit_cases h2 with rfl | rfl <;> rcases bit_cases h3 with rfl | rfl <;>
    rcases bit_cases h4 with rfl | rfl <;> rcases bit_cases h5 with rfl | rfl <;>
    simp [R2A.step, R2A.comb, regER, orN, and2, or2, not1, buf, r2aAcc, r2aLoad]

theorem r2a_step_tdata (c : R2A.Cfg) (s : R2A.St) (i : R2A.In) (hs : R2AWfS c s) (hi : R2AWfI i) :
    (R2A.step c s i).tdata = if r2aLoad s i then i.reg_in % 2^c.DW else s.tdata := by
  obtain ⟨a, tv, td, se⟩ := s
  obtain ⟨st, rs, dn, ld, ri, tr⟩ := i
  obtain ⟨h1, -, h2, -⟩ := hs
  obtain ⟨-, -, -, h4, -⟩ := hi
  simp only at h1 h2 h4
  have hq : td % 2^c.DW = td := Nat.mod_eq_of_lt h2
  rcases bit_cases h1 with rfl | rfl <;> rcases bit_cases h4 with rfl | rfl <;>
    simp [R2A.step, R2A.comb, regE, and2, r2aLoad, hq]

theorem r2a_step_sent (c : R2A.Cfg) (s : R2A.St) (i : R2A.In) (hs : R2AWfS c s) (hi : R2AWfI i) :
    (R2A.step c s i).sent = if r2aClr s i then 0 else if r2aAcc s i then 1 else s.sent := by
  obtain ⟨a, tv, td, se⟩ := s
  obtain ⟨st, rs, dn, ld, ri, tr⟩ := i
  obtain ⟨h1, h2, -, h6⟩ := hs
  obtain ⟨h7, h3, h8, -, h5⟩ := hi
  simp only at h1 h2 h3 h5 h6 h7 h8
  rcases bit_cases h1 with rfl | rfl <;> rcases bit_cases h2 with rfl | rfl <;> rcases bit_cases h3 with rfl | rfl <;>
    rcases bit_cases h5 with rfl | rfl <;> rcases bit_cases h6 with rfl | rfl <;> rcases bit_cases h7 with rfl | rfl <;>
    rcases bit_cases h8 with rfl | rfl <;>
    simp [R2A.step, R2A.comb, regER, orN, and2, or2, not1, buf, r2aAcc, r2aClr]

/-- THE STEP RULE of Reg2Axi: one clock edge on (active, tvalid, tdata, sent) as priority tables, proved from the gate-level
    netlist by case analysis.  Note the gating by `active` in `r2aAcc`: an accepted beat retires VALID only while active. -/
theorem r2a_step_rule (c : R2A.Cfg) (s : R2A.St) (i : R2A.In) (hs : R2AWfS c s) (hi : R2AWfI i) :
    (R2A.step c s i).active = (if i.ap_reset = 1 ∨ i.ap_done = 1 then 0 else if i.ap_start = 1 then 1 else s.active) ∧
    (R2A.step c s i).tvalid = (if i.ap_reset = 1 ∨ r2aAcc s i then 0 else if r2aLoad s i then 1 else s.tvalid) ∧
    (R2A.step c s i).tdata = (if r2aLoad s i then i.reg_in % 2^c.DW else s.tdata) ∧
    (R2A.step c s i).sent = (if r2aClr s i then 0 else if r2aAcc s i then 1 else s.sent) :=
  ⟨r2a_step_active c s i hs hi, r2a_step_tvalid c s i hs hi, r2a_step_tdata c s i hs hi, r2a_step_sent c s i hs hi⟩

theorem r2a_wf_step (c : R2A.Cfg) (s : R2A.St) (i : R2A.In) : R2AWfS c (R2A.step c s i) := by
  have hp : 0 < 2 ^ c.DW := Nat.two_pow_pos _
  constructor
  · exact Nat.mod_lt _ (by decide)
  · exact Nat.mod_lt _ (by decide)
  · exact Nat.mod_lt _ hp
  · exact Nat.mod_lt _ (by decide)

theorem r2a_wf_init (c : R2A.Cfg) : R2AWfS c R2A.init :=
  ⟨by decide, by decide, Nat.two_pow_pos _, by decide⟩

theorem r2a_run_inv (c : R2A.Cfg) (P : R2A.St → Prop) (hstep : ∀ s i, P s → P (R2A.step c s i))
    (is : List R2A.In) (s : R2A.St) (h0 : P s) : P (R2A.run c s is) := by
  induction is generalizing s with
  | nil => exact h0
  | cons i is ih => exact ih _ (hstep s i h0)

theorem r2a_wf_run (c : R2A.Cfg) (is : List R2A.In) : R2AWfS c (R2A.run c R2A.init is) :=
  r2a_run_inv c (R2AWfS c) (fun s i _ => r2a_wf_step c s i) is _ (r2a_wf_init c)

theorem r2a_wf_run_from (c : R2A.Cfg) (s : R2A.St) (hs : R2AWfS c s) (is : List R2A.In) : R2AWfS c (R2A.run c s is) :=
  r2a_run_inv c (R2AWfS c) (fun s i _ => r2a_wf_step c s i) is _ hs

theorem r2a_run_snoc (c : R2A.Cfg) (s : R2A.St) (is : List R2A.In) (i : R2A.In) :
    R2A.run c s (is ++ [i]) = R2A.step c (R2A.run c s is) i := by
  simp [R2A.run, List.foldl_append]

theorem r2a_run_append (c : R2A.Cfg) (s : R2A.St) (is js : List R2A.In) :
    R2A.run c s (is ++ js) = R2A.run c (R2A.run c s is) js := by
  simp [R2A.run, List.foldl_append]

def R2AWfIs (is : List R2A.In) : Prop := ∀ i ∈ is, R2AWfI i

/-! ### the environment assumption -/

/-- `done_after_transfer`, strong reading: in every cycle of the schedule, ap_done is pulsed only when no beat is pending
    (tvalid = 0) and no load pulse takes effect in that cycle (`Spec.R2A.doneQuiet` on the observable outputs). -/
def Quiet (c : R2A.Cfg) : R2A.St → List R2A.In → Prop
  | _, [] => True
  | s, i :: is => Spec.R2A.doneQuiet (R2A.obs c s) i = true ∧ Quiet c (R2A.step c s i) is

theorem quiet_append (c : R2A.Cfg) (s : R2A.St) (is js : List R2A.In) :
    Quiet c s (is ++ js) ↔ Quiet c s is ∧ Quiet c (R2A.run c s is) js := by
  induction is generalizing s with
  | nil => simp [Quiet, R2A.run]
  | cons i is ih => simp [Quiet, R2A.run, ih, and_assoc]

theorem r2a_accept_iff (c : R2A.Cfg) (s : R2A.St) (i : R2A.In) :
    Spec.R2A.accept (R2A.obs c s) i = true ↔ (s.tvalid = 1 ∧ i.tready = 1) := by
  simp [Spec.R2A.accept, R2A.obs]

theorem r2a_loadEff_iff (c : R2A.Cfg) (s : R2A.St) (i : R2A.In) :
    Spec.R2A.loadEff (R2A.obs c s) i = true ↔ r2aLoad s i := by
  simp [Spec.R2A.loadEff, R2A.obs, r2aLoad]

theorem r2a_clear_iff (c : R2A.Cfg) (s : R2A.St) (i : R2A.In) :
    Spec.R2A.clear (R2A.obs c s) i = true ↔ r2aClr s i := by
  simp [Spec.R2A.clear, R2A.obs, r2aClr, or_assoc]

theorem r2a_doneQuiet_iff (c : R2A.Cfg) (s : R2A.St) (i : R2A.In) :
    Spec.R2A.doneQuiet (R2A.obs c s) i = true ↔ (i.ap_done = 1 → s.tvalid = 0 ∧ ¬ r2aLoad s i) := by
  simp only [Spec.R2A.doneQuiet, Bool.or_eq_true, bne_iff_ne, Bool.and_eq_true, beq_iff_eq, Bool.not_eq_true',
    ← Bool.not_eq_true, r2a_loadEff_iff]
  simp only [R2A.obs]
  by_cases h : i.ap_done = 1 <;> simp [h]

/-- VALID up implies active -/
def VA (s : R2A.St) : Prop := s.tvalid = 1 → s.active = 1

theorem r2a_va_step (c : R2A.Cfg) (s : R2A.St) (i : R2A.In) (hs : R2AWfS c s) (hi : R2AWfI i)
    (hq : Spec.R2A.doneQuiet (R2A.obs c s) i = true) (h : VA s) : VA (R2A.step c s i) := by
  have hq' := (r2a_doneQuiet_iff c s i).1 hq
  unfold VA at *
  rw [r2a_step_tvalid c s i hs hi, r2a_step_active c s i hs hi]
  unfold r2aAcc r2aLoad at *
  have h1 := hs.active; have h2 := hs.tvalid; have h3 := hi.ap_done
  intro hv
  by_cases hr : i.ap_reset = 1
  · simp [hr] at hv
  · by_cases hacc : (s.active = 1 ∧ s.tvalid = 1 ∧ i.tready = 1)
    · simp [hacc] at hv
    · by_cases hl : (i.load_outs = 1 ∧ s.active = 1)
      · have hA := hl.2
        by_cases hd : i.ap_done = 1
        · exact absurd hl (hq' hd).2
        · simp [hr, hd, hA]
      · simp only [hr, hacc, hl, or_self, if_false] at hv
        have hA := h hv
        by_cases hd : i.ap_done = 1
        · have := (hq' hd).1; omega
        · simp [hr, hd, hA]

theorem r2a_va_run (c : R2A.Cfg) (is : List R2A.In) (hw : R2AWfIs is) (s : R2A.St) (hs : R2AWfS c s) (hq : Quiet c s is)
    (h : VA s) : VA (R2A.run c s is) := by
  induction is generalizing s with
  | nil => exact h
  | cons i is ih =>
    exact ih (fun j hj => hw j (by simp [hj])) _ (r2a_wf_step c s i) hq.2 (r2a_va_step c s i hs (hw i (by simp)) hq.1 h)

/-- under the environment assumption a pending beat is always owned by an ACTIVE adapter -/
theorem r2a_valid_implies_active (c : R2A.Cfg) (is : List R2A.In) (hw : R2AWfIs is) (hq : Quiet c R2A.init is) :
    (R2A.run c R2A.init is).tvalid = 1 → (R2A.run c R2A.init is).active = 1 :=
  r2a_va_run c is hw _ (r2a_wf_init c) hq (by intro h; cases h)

/-- (5) `r2a_valid_stable`, one cycle: after EVERY schedule (no assumption on done needed), if VALID is up and the cycle
    neither resets nor has READY, VALID is still up after the edge. -/
theorem r2a_valid_stable (c : R2A.Cfg) (is : List R2A.In) (i : R2A.In) (hi : R2AWfI i)
    (hv : (R2A.run c R2A.init is).tvalid = 1) (hr : i.ap_reset = 0) (hrd : i.tready = 0) :
    (R2A.run c R2A.init (is ++ [i])).tvalid = 1 := by
  rw [r2a_run_snoc, r2a_step_tvalid c _ i (r2a_wf_run c is) hi]
  unfold r2aAcc
  simp [hv, hr, hrd]

/-- (5') … hence over any stretch of back-pressure: once VALID is up it stays up through every run of cycles without reset
    and without READY, whatever start/done/load pulses occur meanwhile. -/
theorem r2a_valid_stable_until (c : R2A.Cfg) (pre mid : List R2A.In) (hm : R2AWfIs mid)
    (hv : (R2A.run c R2A.init pre).tvalid = 1) (hquiet : ∀ i ∈ mid, i.ap_reset = 0 ∧ i.tready = 0) :
    (R2A.run c R2A.init (pre ++ mid)).tvalid = 1 := by
  induction mid generalizing pre with
  | nil => simpa using hv
  | cons a l ih =>
    have ha := hquiet a (by simp)
    have := ih (pre ++ [a]) (fun j hj => hm j (by simp [hj]))
      (r2a_valid_stable c pre a (hm a (by simp)) hv ha.1 ha.2) (fun j hj => hquiet j (by simp [hj]))
    simpa using this

/-- (6) `r2a_valid_drops`: under the environment assumption, after EVERY schedule, a beat that the peer accepts
    (VALID ∧ READY) is retired in that very cycle — VALID is down after the edge, so the beat is not offered twice — and
    `sent` goes up unless the cycle also resets; a reset always brings VALID down. -/
theorem r2a_valid_drops (c : R2A.Cfg) (is : List R2A.In) (i : R2A.In) (hw : R2AWfIs (is ++ [i]))
    (hq : Quiet c R2A.init (is ++ [i])) :
    ((R2A.run c R2A.init is).tvalid = 1 ∧ i.tready = 1 →
        (R2A.run c R2A.init (is ++ [i])).tvalid = 0 ∧ (i.ap_reset = 0 → (R2A.run c R2A.init (is ++ [i])).sent = 1)) ∧
    (i.ap_reset = 1 → (R2A.run c R2A.init (is ++ [i])).tvalid = 0) := by
  have hi : R2AWfI i := hw i (by simp)
  have hws : R2AWfIs is := fun j hj => hw j (by simp [hj])
  have hs := r2a_wf_run c is
  obtain ⟨hq1, hq2⟩ := (quiet_append c _ is [i]).1 hq
  have hqi := (r2a_doneQuiet_iff c _ i).1 hq2.1
  have hva := r2a_valid_implies_active c is hws hq1
  rw [r2a_run_snoc, r2a_step_tvalid c _ i hs hi, r2a_step_sent c _ i hs hi]
  unfold r2aAcc r2aClr
  refine ⟨?_, fun hr => by simp [hr]⟩
  rintro ⟨hv, hrd⟩
  have hA := hva hv
  refine ⟨by simp [hA, hv, hrd], fun hr => ?_⟩
  have hd : i.ap_done ≠ 1 := by
    intro hd; have := (hqi hd).1; omega
  have h1 : ¬ i.ap_reset = 1 := by omega
  simp [h1, hd, hA, hv, hrd]

/-- per cycle: (a load pulse took effect, reg_in), as seen on the wires before the edge -/
def r2aLoadEvs (c : R2A.Cfg) : R2A.St → List R2A.In → List (Bool × Nat)
  | _, [] => []
  | s, i :: is => (Spec.R2A.loadEff (R2A.obs c s) i, i.reg_in) :: r2aLoadEvs c (R2A.step c s i) is

theorem r2a_tdata_run (c : R2A.Cfg) (is : List R2A.In) (hw : R2AWfIs is) (s : R2A.St) (m : Nat) (hs : R2AWfS c s)
    (h : s.tdata = m % 2^c.DW) :
    (R2A.run c s is).tdata = (r2aLoadEvs c s is).foldl (fun m e => if e.1 then e.2 else m) m % 2^c.DW := by
  induction is generalizing s m with
  | nil => exact h
  | cons i is ih =>
    have hi : R2AWfI i := hw i (by simp)
    have h' : (R2A.step c s i).tdata = (if Spec.R2A.loadEff (R2A.obs c s) i = true then i.reg_in else m) % 2^c.DW := by
      rw [r2a_step_tdata c s i hs hi]
      by_cases hl : r2aLoad s i
      · simp [hl, (r2a_loadEff_iff c s i).2 hl]
      · have : Spec.R2A.loadEff (R2A.obs c s) i = false := by
          cases hc : Spec.R2A.loadEff (R2A.obs c s) i
          · rfl
          · exact absurd ((r2a_loadEff_iff c s i).1 hc) hl
        simp [hl, this, h]
    have := ih (fun j hj => hw j (by simp [hj])) (R2A.step c s i) _ (r2a_wf_step c s i) h'
    simpa [R2A.run, r2aLoadEvs] using this

theorem r2a_const_keep (c : R2A.Cfg) (s : R2A.St) (i : R2A.In) :
    (R2A.comb c s i).tkeep = R2A.tkeepVal c.W % 2^c.KW := by
  simp only [R2A.comb, const]
  exact Bits.put_ofNat _ _

/-- (7) `r2a_payload`: after EVERY schedule, whatever is poked next: the offered tdata is the value captured by the LATEST
    effective load pulse (0 before the first one; truncated to the stream width), LAST equals VALID, and KEEP is the
    constant `2^⌈W/8⌉ - 1` (masked to the tkeep wire). -/
theorem r2a_payload (c : R2A.Cfg) (is : List R2A.In) (hw : R2AWfIs is) (i : R2A.In) :
    (R2A.run c R2A.init is).tdata = Spec.R2A.lastLoad (r2aLoadEvs c R2A.init is) % 2^c.DW ∧
    (R2A.comb c (R2A.run c R2A.init is) i).tlast = (R2A.run c R2A.init is).tvalid ∧
    (R2A.comb c (R2A.run c R2A.init is) i).tkeep = R2A.tkeepVal c.W % 2^c.KW := by
  refine ⟨?_, ?_, r2a_const_keep c _ i⟩
  · have := r2a_tdata_run c is hw R2A.init 0 (r2a_wf_init c) (by simp [R2A.init])
    simpa [Spec.R2A.lastLoad] using this
  · have h := (r2a_wf_run c is).tvalid
    simp only [R2A.comb, buf]
    omega

theorem lastLoad_fold_iff (evs : List (Bool × Nat)) (m v : Nat) :
    evs.foldl (fun m e => if e.1 then e.2 else m) m = v ↔
      (∃ pre e post, evs = pre ++ e :: post ∧ e.1 = true ∧ e.2 = v ∧ ∀ e' ∈ post, e'.1 = false) ∨
      (m = v ∧ ∀ e' ∈ evs, e'.1 = false) := by
  induction evs generalizing m with
  | nil => simp
  | cons e0 rest ih =>
    rw [List.foldl_cons, ih]
    constructor
    · rintro (⟨pre, e, post, rfl, h1, h2, h3⟩ | ⟨hm, hq⟩)
      · exact Or.inl ⟨e0 :: pre, e, post, rfl, h1, h2, h3⟩
      · by_cases hc : e0.1 = true
        · simp only [hc, if_true] at hm
          exact Or.inl ⟨[], e0, rest, rfl, hc, hm, hq⟩
        · have hc' : e0.1 = false := by simpa using hc
          simp only [hc', Bool.false_eq_true, if_false] at hm
          refine Or.inr ⟨hm, ?_⟩
          intro e' he'
          rcases List.mem_cons.1 he' with rfl | h
          · exact hc'
          · exact hq e' h
    · rintro (⟨pre, e, post, heq, h1, h2, h3⟩ | ⟨hm, hq⟩)
      · cases pre with
        | nil =>
          simp only [List.nil_append, List.cons.injEq] at heq
          obtain ⟨rfl, rfl⟩ := heq
          exact Or.inr ⟨by simp [h1, h2], h3⟩
        | cons p pre' =>
          simp only [List.cons_append, List.cons.injEq] at heq
          obtain ⟨rfl, rfl⟩ := heq
          exact Or.inl ⟨pre', e, post, rfl, h1, h2, h3⟩
      · have h0 := hq e0 (by simp)
        exact Or.inr ⟨by simp [h0, hm], fun e' he' => hq e' (by simp [he'])⟩

/-- what `lastLoad` is, without the fold: the reg_in of the most recent effective load pulse, or 0 if there was none -/
theorem lastLoad_eq_iff (evs : List (Bool × Nat)) (v : Nat) :
    Spec.R2A.lastLoad evs = v ↔
      (∃ pre e post, evs = pre ++ e :: post ∧ e.1 = true ∧ e.2 = v ∧ ∀ e' ∈ post, e'.1 = false) ∨
      (v = 0 ∧ ∀ e' ∈ evs, e'.1 = false) := by
  unfold Spec.R2A.lastLoad
  rw [lastLoad_fold_iff]
  constructor <;> rintro (h | ⟨h1, h2⟩)
  · exact Or.inl h
  · exact Or.inr ⟨h1.symm, h2⟩
  · exact Or.inl h
  · exact Or.inr ⟨h1.symm, h2⟩

/-- when the register fits the stream (⌈W/8⌉ ≤ KW, e.g. W ≤ DW = 8·KW) the KEEP mask is not truncated: one bit per byte
    needed to hold W bits -/
theorem r2a_tkeep_full (W KW : Nat) (h : (W + 7) / 8 ≤ KW) : R2A.tkeepVal W % 2^KW = 2^((W + 7) / 8) - 1 := by
  unfold R2A.tkeepVal
  apply Nat.mod_eq_of_lt
  have h1 : 2 ^ ((W + 7) / 8) ≤ 2 ^ KW := Nat.pow_le_pow_right (by decide) h
  have h2 : 0 < 2 ^ ((W + 7) / 8) := Nat.two_pow_pos _
  omega

/-- (8) `r2a_sent_after_accept`, one cycle: after EVERY schedule (no assumption needed), `sent` can only go from 0 to 1 in a
    cycle in which the offered beat is accepted (VALID ∧ READY) while the adapter is active. -/
theorem r2a_sent_after_accept (c : R2A.Cfg) (is : List R2A.In) (i : R2A.In) (hi : R2AWfI i)
    (h0 : (R2A.run c R2A.init is).sent = 0) (h1 : (R2A.run c R2A.init (is ++ [i])).sent = 1) :
    (R2A.run c R2A.init is).tvalid = 1 ∧ i.tready = 1 ∧ (R2A.run c R2A.init is).active = 1 := by
  rw [r2a_run_snoc, r2a_step_sent c _ i (r2a_wf_run c is) hi] at h1
  split at h1
  · cases h1
  · split at h1
    · rename_i h; exact ⟨h.2.1, h.2.2, h.1⟩
    · omega

theorem r2a_sent_run (c : R2A.Cfg) (is : List R2A.In) (hw : R2AWfIs is) (s : R2A.St) (hs : R2AWfS c s)
    (h : (R2A.run c s is).sent = 1) :
    s.sent = 1 ∨ ∃ pre i post, is = pre ++ i :: post ∧ r2aAcc (R2A.run c s pre) i := by
  induction is generalizing s with
  | nil => exact Or.inl h
  | cons i is ih =>
    have hi : R2AWfI i := hw i (by simp)
    rcases ih (fun j hj => hw j (by simp [hj])) (R2A.step c s i) (r2a_wf_step c s i) h with h' | ⟨pre, j, post, rfl, hacc⟩
    · rw [r2a_step_sent c s i hs hi] at h'
      split at h'
      · cases h'
      · split at h'
        · rename_i hacc; exact Or.inr ⟨[], i, is, rfl, hacc⟩
        · exact Or.inl h'
    · exact Or.inr ⟨i :: pre, j, post, rfl, hacc⟩

/-- (8') trace form: whenever `sent` is up, some EARLIER cycle of the schedule accepted a beat (VALID ∧ READY while active) -/
theorem r2a_sent_implies_earlier_accept (c : R2A.Cfg) (is : List R2A.In) (hw : R2AWfIs is)
    (h : (R2A.run c R2A.init is).sent = 1) :
    ∃ pre i post, is = pre ++ i :: post ∧
      (R2A.run c R2A.init pre).active = 1 ∧ (R2A.run c R2A.init pre).tvalid = 1 ∧ i.tready = 1 := by
  rcases r2a_sent_run c is hw R2A.init (r2a_wf_init c) h with h' | h'
  · cases h'
  · exact h'

/-- beats accepted by the peer / effective load pulses, counted along a run on the observable wires -/
def r2aAccepts (c : R2A.Cfg) : R2A.St → List R2A.In → Nat
  | _, [] => 0
  | s, i :: is => (if Spec.R2A.accept (R2A.obs c s) i then 1 else 0) + r2aAccepts c (R2A.step c s i) is
def r2aLoads (c : R2A.Cfg) : R2A.St → List R2A.In → Nat
  | _, [] => 0
  | s, i :: is => (if Spec.R2A.loadEff (R2A.obs c s) i then 1 else 0) + r2aLoads c (R2A.step c s i) is

theorem r2a_counts_run (c : R2A.Cfg) (is : List R2A.In) (hw : R2AWfIs is) (s : R2A.St) (hs : R2AWfS c s)
    (hq : Quiet c s is) (hva : VA s) :
    r2aAccepts c s is + (R2A.run c s is).tvalid ≤ r2aLoads c s is + s.tvalid := by
  induction is generalizing s with
  | nil => simp [r2aAccepts, r2aLoads, R2A.run]
  | cons i is ih =>
    have hi : R2AWfI i := hw i (by simp)
    have := ih (fun j hj => hw j (by simp [hj])) (R2A.step c s i) (r2a_wf_step c s i) hq.2
      (r2a_va_step c s i hs hi hq.1 hva)
    have hstep : (if Spec.R2A.accept (R2A.obs c s) i then 1 else 0) + (R2A.step c s i).tvalid ≤
        (if Spec.R2A.loadEff (R2A.obs c s) i then 1 else 0) + s.tvalid := by
      rw [r2a_step_tvalid c s i hs hi]
      have h2 := hs.tvalid
      by_cases ha : s.tvalid = 1 ∧ i.tready = 1
      · have hacc : r2aAcc s i := ⟨hva ha.1, ha.1, ha.2⟩
        simp [(r2a_accept_iff c s i).2 ha, hacc]; omega
      · have e1 : Spec.R2A.accept (R2A.obs c s) i = false := by
          cases hc : Spec.R2A.accept (R2A.obs c s) i
          · rfl
          · exact absurd ((r2a_accept_iff c s i).1 hc) ha
        have hacc : ¬ r2aAcc s i := fun h => ha ⟨h.2.1, h.2.2⟩
        by_cases hl : r2aLoad s i
        · simp only [e1, (r2a_loadEff_iff c s i).2 hl, hacc, hl, or_false, if_true, Bool.false_eq_true, if_false]
          split <;> omega
        · simp only [e1, hacc, hl, or_false, if_false, Bool.false_eq_true]
          split <;> omega
    simp only [r2aAccepts, r2aLoads, R2A.run, List.foldl_cons] at this ⊢
    omega

/-- (9) `r2a_no_duplicate_beats`: under the environment assumption, along EVERY schedule the peer never accepts more beats
    than load pulses took effect (a pending beat counts as already spent): no beat is delivered twice. -/
theorem r2a_no_duplicate_beats (c : R2A.Cfg) (is : List R2A.In) (hw : R2AWfIs is) (hq : Quiet c R2A.init is) :
    r2aAccepts c R2A.init is + (R2A.run c R2A.init is).tvalid ≤ r2aLoads c R2A.init is := by
  have := r2a_counts_run c is hw R2A.init (r2a_wf_init c) hq (by intro h; cases h)
  simpa [R2A.init] using this

/-! ### the oracle accepts the model -/

theorem bool_eq_false_of_not {b : Bool} {p : Prop} (h : b = true ↔ p) (hp : ¬ p) : b = false := by
  cases hb : b
  · rfl
  · exact absurd (h.1 hb) hp

/-- relation between the block and the monitors of `Spec.R2A` that holds in EVERY reachable state -/
structure R2ARelU (c : R2A.Cfg) (s : R2A.St) (m : Spec.R2A.Mon) : Prop where
  wf : R2AWfS c s
  data : s.tdata = m.data % 2^c.DW
  sentU : s.sent = 1 → m.sentOk = true

/-- … and the part that holds while no `doneQuiet` violation is outstanding (none since the last reset) -/
structure R2ARelQ (s : R2A.St) (m : Spec.R2A.Mon) : Prop where
  va : VA s
  cnt : m.accepts + s.tvalid ≤ m.loads
  sentQ : m.sentOk = true → s.sent = 1

def R2ARel (c : R2A.Cfg) (s : R2A.St) (m : Spec.R2A.Mon) : Prop :=
  R2ARelU c s m ∧ (m.pend = false → R2ARelQ s m)

theorem r2a_reset_iff (i : R2A.In) : (i.ap_reset == 1) = true ↔ i.ap_reset = 1 := by simp

theorem r2a_relU_step (c : R2A.Cfg) (s : R2A.St) (i : R2A.In) (m : Spec.R2A.Mon) (hi : R2AWfI i)
    (h : R2ARelU c s m) : R2ARelU c (R2A.step c s i) (Spec.R2A.monStep m (R2A.obs c s) i) := by
  obtain ⟨hs, hdata, hsent⟩ := h
  refine ⟨r2a_wf_step c s i, ?_, ?_⟩
  · rw [r2a_step_tdata c s i hs hi]
    by_cases hl : r2aLoad s i
    · simp [Spec.R2A.monStep, hl, (r2a_loadEff_iff c s i).2 hl]
    · simp [Spec.R2A.monStep, hl, bool_eq_false_of_not (r2a_loadEff_iff c s i) hl, hdata]
  · rw [r2a_step_sent c s i hs hi]
    by_cases hc : r2aClr s i
    · simp [hc]
    · have ec := bool_eq_false_of_not (r2a_clear_iff c s i) hc
      by_cases hacc : r2aAcc s i
      · have ha : s.tvalid = 1 ∧ i.tready = 1 := ⟨hacc.2.1, hacc.2.2⟩
        simp [Spec.R2A.monStep, ec, (r2a_accept_iff c s i).2 ha]
      · simp only [hc, hacc, if_false, Spec.R2A.monStep, ec, Bool.false_eq_true]
        intro h1
        have := hsent h1
        split <;> simp [this]

/-- counters and the `sentOk ⇒ sent` direction step from a clean pre-state, whatever the inputs -/
theorem r2a_relQ_core_step (c : R2A.Cfg) (s : R2A.St) (i : R2A.In) (m : Spec.R2A.Mon) (hi : R2AWfI i)
    (hs : R2AWfS c s) (h : R2ARelQ s m) :
    (Spec.R2A.monStep m (R2A.obs c s) i).accepts + (R2A.step c s i).tvalid ≤ (Spec.R2A.monStep m (R2A.obs c s) i).loads ∧
    ((Spec.R2A.monStep m (R2A.obs c s) i).sentOk = true → (R2A.step c s i).sent = 1) := by
  obtain ⟨hva, hcnt, hsent⟩ := h
  have h2 := hs.tvalid
  constructor
  · rw [r2a_step_tvalid c s i hs hi]
    by_cases hr : i.ap_reset = 1
    · simp [Spec.R2A.monStep, hr]
    · have er : (i.ap_reset == 1) = false := bool_eq_false_of_not (r2a_reset_iff i) hr
      by_cases ha : s.tvalid = 1 ∧ i.tready = 1
      · have hacc : r2aAcc s i := ⟨hva ha.1, ha.1, ha.2⟩
        simp only [Spec.R2A.monStep, er, (r2a_accept_iff c s i).2 ha, hacc, or_true, if_true, Bool.false_eq_true, if_false]
        split <;> omega
      · have hacc : ¬ r2aAcc s i := fun h => ha ⟨h.2.1, h.2.2⟩
        have ea := bool_eq_false_of_not (r2a_accept_iff c s i) ha
        by_cases hl : r2aLoad s i
        · simp only [Spec.R2A.monStep, er, ea, (r2a_loadEff_iff c s i).2 hl, hr, hacc, hl, or_false, if_true,
            Bool.false_eq_true, if_false]
          omega
        · simp only [Spec.R2A.monStep, er, ea, bool_eq_false_of_not (r2a_loadEff_iff c s i) hl, hr, hacc, hl, or_false,
            if_false, Bool.false_eq_true]
          omega
  · rw [r2a_step_sent c s i hs hi]
    by_cases hc : r2aClr s i
    · simp [Spec.R2A.monStep, hc, (r2a_clear_iff c s i).2 hc]
    · have ec := bool_eq_false_of_not (r2a_clear_iff c s i) hc
      by_cases ha : s.tvalid = 1 ∧ i.tready = 1
      · have hacc : r2aAcc s i := ⟨hva ha.1, ha.1, ha.2⟩
        simp [hc, hacc]
      · have hacc : ¬ r2aAcc s i := fun h => ha ⟨h.2.1, h.2.2⟩
        simp only [Spec.R2A.monStep, hc, ec, hacc, bool_eq_false_of_not (r2a_accept_iff c s i) ha, if_false,
          Bool.false_eq_true]
        exact hsent

theorem r2a_va_reset (c : R2A.Cfg) (s : R2A.St) (i : R2A.In) (hs : R2AWfS c s) (hi : R2AWfI i) (hr : i.ap_reset = 1) :
    VA (R2A.step c s i) := by
  unfold VA
  rw [r2a_step_tvalid c s i hs hi]
  simp [hr]

theorem r2a_rel_step (c : R2A.Cfg) (s : R2A.St) (i : R2A.In) (m : Spec.R2A.Mon) (hi : R2AWfI i) (h : R2ARel c s m) :
    R2ARel c (R2A.step c s i) (Spec.R2A.monStep m (R2A.obs c s) i) := by
  obtain ⟨hU, hQ⟩ := h
  refine ⟨r2a_relU_step c s i m hi hU, ?_⟩
  intro hp
  by_cases hr : i.ap_reset = 1
  · -- a reset: clean whatever happened before
    have hs := hU.wf
    have htv : (R2A.step c s i).tvalid = 0 := by rw [r2a_step_tvalid c s i hs hi]; simp [hr]
    have hse : (Spec.R2A.monStep m (R2A.obs c s) i).sentOk = false := by
      have : r2aClr s i := Or.inl hr
      simp [Spec.R2A.monStep, (r2a_clear_iff c s i).2 this]
    refine ⟨r2a_va_reset c s i hs hi hr, ?_, ?_⟩
    · simp [Spec.R2A.monStep, hr, htv]
    · intro h; rw [hse] at h; cases h
  · have er : (i.ap_reset == 1) = false := bool_eq_false_of_not (r2a_reset_iff i) hr
    simp only [Spec.R2A.monStep, er, Bool.false_eq_true, if_false, Bool.or_eq_false_iff, Bool.not_eq_false'] at hp
    have hQ' := hQ hp.1
    have hcore := r2a_relQ_core_step c s i m hi hU.wf hQ'
    exact ⟨r2a_va_step c s i hU.wf hi hp.2 hQ'.va, hcore.1, hcore.2⟩

/-- the clauses that only talk about 1-bit wires and hold in every state, straight from the netlist by case analysis -/
theorem r2a_bit_clauses (c : R2A.Cfg) (s : R2A.St) (i : R2A.In) (hs : R2AWfS c s) (hi : R2AWfI i) :
    let o := R2A.obs c s
    let o' := R2A.obs c (R2A.step c s i)
    (o.tlast == o.tvalid && o'.tlast == o'.tvalid) = true ∧
    (o'.active == Spec.R2A.activeNext o i) = true ∧
    (!(o.tvalid == 1 && i.ap_reset != 1 && !Spec.R2A.accept o i) || o'.tvalid == 1) = true ∧
    (!(i.ap_reset == 1) || o'.tvalid == 0) = true ∧
    (!(o.tvalid == 0 && o'.tvalid == 1) || Spec.R2A.loadEff o i) = true ∧
    (!(Spec.R2A.loadEff o i && i.ap_reset != 1 && !Spec.R2A.accept o i) || o'.tvalid == 1) = true := by
  obtain ⟨a, tv, td, se⟩ := s
  obtain ⟨st, rs, dn, ld, ri, tr⟩ := i
  obtain ⟨h1, h2, -, -⟩ := hs
  obtain ⟨h3, h4, h5, h6, h7⟩ := hi
  simp only at h1 h2 h3 h4 h5 h6 h7
  rcases bit_cases h1 with rfl | rfl <;> rcases bit_cases h2 with rfl | rfl <;> rcases bit_cases h3 with rfl | rfl <;>
    rcases bit_cases h4 with rfl | rfl <;> rcases bit_cases h5 with rfl | rfl <;> rcases bit_cases h6 with rfl | rfl <;>
    rcases bit_cases h7 with rfl | rfl <;>
    simp [Spec.R2A.accept, Spec.R2A.loadEff, Spec.R2A.activeNext, R2A.obs, R2A.step, R2A.comb, regER, orN, and2, or2,
      not1, buf]

/-- … and the one that needs "VALID ⇒ active": an accepted beat is retired -/
theorem r2a_bit_clause_drop (c : R2A.Cfg) (s : R2A.St) (i : R2A.In) (hs : R2AWfS c s) (hi : R2AWfI i) (hva : VA s) :
    (!(Spec.R2A.accept (R2A.obs c s) i) || (R2A.obs c (R2A.step c s i)).tvalid == 0) = true := by
  obtain ⟨a, tv, td, se⟩ := s
  obtain ⟨st, rs, dn, ld, ri, tr⟩ := i
  obtain ⟨h1, h2, -, -⟩ := hs
  obtain ⟨-, h4, -, h6, h7⟩ := hi
  simp only at h1 h2 h4 h6 h7
  unfold VA at hva
  rcases bit_cases h1 with rfl | rfl <;> rcases bit_cases h2 with rfl | rfl <;>
    rcases bit_cases h4 with rfl | rfl <;> rcases bit_cases h6 with rfl | rfl <;>
    rcases bit_cases h7 with rfl | rfl <;>
    simp_all [Spec.R2A.accept, R2A.obs, R2A.step, R2A.comb, regER, orN, and2, or2, not1, buf]

theorem r2a_clausesU_ok (c : R2A.Cfg) (s : R2A.St) (i : R2A.In) (m : Spec.R2A.Mon) (hi : R2AWfI i) (h : R2ARelU c s m) :
    ∀ p ∈ Spec.R2A.clausesU c m (R2A.obs c s) i (R2A.obs c (R2A.step c s i)), p.2 = true := by
  have hh := r2a_relU_step c s i m hi h
  obtain ⟨b1, b2, b3, b4, b5, b6⟩ := r2a_bit_clauses c s i h.wf hi
  have k1 : (R2A.obs c s).tkeep = R2A.tkeepVal c.W % 2^c.KW := r2a_const_keep c s default
  have k2 : (R2A.obs c (R2A.step c s i)).tkeep = R2A.tkeepVal c.W % 2^c.KW := r2a_const_keep c (R2A.step c s i) default
  intro p hp
  simp only [Spec.R2A.clausesU, List.mem_cons, List.mem_nil_iff, or_false] at hp
  rcases hp with rfl | rfl | rfl | rfl | rfl | rfl | rfl | rfl | rfl
  · exact b1
  · simp [k1, k2]
  · exact b2
  · exact b3
  · exact b4
  · exact b5
  · exact b6
  · show ((R2A.obs c (R2A.step c s i)).tdata == _) = true
    simp only [beq_iff_eq]
    exact hh.data
  · show (!((R2A.obs c (R2A.step c s i)).sent == 1) || (Spec.R2A.monStep m (R2A.obs c s) i).sentOk) = true
    by_cases hs1 : (R2A.step c s i).sent = 1
    · rw [hh.sentU hs1]; simp
    · have : (R2A.obs c (R2A.step c s i)).sent ≠ 1 := hs1
      simp [this]

theorem r2a_clausesQ_ok (c : R2A.Cfg) (s : R2A.St) (i : R2A.In) (m : Spec.R2A.Mon) (hi : R2AWfI i) (hU : R2ARelU c s m)
    (hQ : R2ARelQ s m) :
    ∀ p ∈ Spec.R2A.clausesQ m (R2A.obs c s) i (R2A.obs c (R2A.step c s i)), p.2 = true := by
  have hcore := r2a_relQ_core_step c s i m hi hU.wf hQ
  intro p hp
  simp only [Spec.R2A.clausesQ, List.mem_cons, List.mem_nil_iff, or_false] at hp
  rcases hp with rfl | rfl | rfl
  · exact r2a_bit_clause_drop c s i hU.wf hi hQ.va
  · show (!(Spec.R2A.monStep m (R2A.obs c s) i).sentOk || (R2A.obs c (R2A.step c s i)).sent == 1) = true
    cases hm : (Spec.R2A.monStep m (R2A.obs c s) i).sentOk
    · rfl
    · have : (R2A.obs c (R2A.step c s i)).sent = 1 := hcore.2 hm
      simp [this]
  · show decide (_ ≤ _) = true
    simp only [decide_eq_true_eq]
    exact hcore.1

theorem r2a_check_ok (mode : Nat) (hmode : mode = 1 ∨ mode = 2) (c : R2A.Cfg) (is : List R2A.In) (hw : R2AWfIs is)
    (s : R2A.St) (m : Spec.R2A.Mon) (t : Nat) (h : R2ARel c s m) (h1 : mode = 1 → m.pend = false) :
    (Spec.R2A.checkFrom mode c m (R2A.obs c s) t (R2A.trace c s is)).isFail = false := by
  induction is generalizing s m t with
  | nil => rfl
  | cons i is ih =>
    have hi : R2AWfI i := hw i (by simp)
    simp only [R2A.trace, Spec.R2A.checkFrom]
    by_cases hq : Spec.R2A.assumed mode (R2A.obs c s) i = true
    · simp only [hq, Bool.not_true, Bool.false_eq_true, if_false]
      have hcl : ∀ p ∈ Spec.R2A.clauses mode c m (R2A.obs c s) i (R2A.obs c (R2A.step c s i)), p.2 = true := by
        intro p hp
        simp only [Spec.R2A.clauses, List.mem_append] at hp
        rcases hp with hp | hp
        · exact r2a_clausesU_ok c s i m hi h.1 p hp
        · cases hpend : m.pend
          · exact r2a_clausesQ_ok c s i m hi h.1 (h.2 hpend) p (by
              have : Spec.R2A.judged mode m = true := by simp [Spec.R2A.judged, hpend]
              simpa [this] using hp)
          · have hm2 : mode = 2 := by
              rcases hmode with h' | h'
              · have := h1 h'; rw [hpend] at this; cases this
              · exact h'
            have : Spec.R2A.judged mode m = false := by simp [Spec.R2A.judged, hpend, hm2]
            simp [this] at hp
      rw [Spec.firstFail_none _ hcl]
      refine ih (fun j hj => hw j (by simp [hj])) _ _ _ (r2a_rel_step c s i m hi h) ?_
      intro hm1
      have hp0 := h1 hm1
      have hdq : Spec.R2A.doneQuiet (R2A.obs c s) i = true := by simpa [Spec.R2A.assumed, hm1] using hq
      simp [Spec.R2A.monStep, hp0, hdq]
    · have : Spec.R2A.assumed mode (R2A.obs c s) i = false := by simpa using hq
      simp [this, Spec.Verdict.isFail]

theorem r2a_rel_init (c : R2A.Cfg) : R2ARel c R2A.init Spec.R2A.Mon.init :=
  ⟨⟨r2a_wf_init c, (by simp [R2A.init, Spec.R2A.Mon.init]), (by intro h; cases h)⟩,
   fun _ => ⟨(by intro h; cases h), (by simp [R2A.init, Spec.R2A.Mon.init]), (by intro h; cases h)⟩⟩

/-- (10) the executable oracle `Spec.R2A.check` in mode 1 (stop at the first violation of the environment assumption
    `doneQuiet`, judge every clause) never reports a failing clause on the trace of the model, under EVERY schedule, for every
    W, DW, KW: VALID stable / retired by accept / cleared by reset / raised only and always by an effective load,
    tdata = latest load, tlast = tvalid, tkeep constant, sent ⇔ accepted since the last clear, accepts ≤ loads. -/
theorem r2a_oracle_accepts_model (c : R2A.Cfg) (is : List R2A.In) (hw : R2AWfIs is) :
    (Spec.R2A.check 1 c (R2A.obs c R2A.init) (R2A.trace c R2A.init is)).isFail = false :=
  r2a_check_ok 1 (Or.inl rfl) c is hw _ _ _ (r2a_rel_init c) (fun _ => rfl)

/-- (10') mode 2 — the one the harness runs on the traces of the REAL block next to the literal mode: under EVERY schedule,
    with NO assumption on done beyond the literal one (where the oracle stops), the state-independent clauses `clausesU`
    — reset priority ("ap_reset clears VALID whatever `active` is"), VALID stable, raised only/always by an effective load,
    payload, tlast, tkeep, active rule, sent only after an accept — hold in EVERY state, including those reached through a
    done-while-pending; and `clausesQ` hold whenever no `doneQuiet` violation happened since the last reset. -/
theorem r2a_oracle_tolerant_accepts_model (c : R2A.Cfg) (is : List R2A.In) (hw : R2AWfIs is) :
    (Spec.R2A.check 2 c (R2A.obs c R2A.init) (R2A.trace c R2A.init is)).isFail = false :=
  r2a_check_ok 2 (Or.inr rfl) c is hw _ _ _ (r2a_rel_init c) (fun h => by cases h)

theorem r2a_traceG_eq (c : R2A.Cfg) (s : R2A.St) (is : List R2A.In) : R2A.traceG c s is = R2A.trace c s is := by
  induction is generalizing s with
  | nil => rfl
  | cons i is ih => simp only [R2A.traceG, R2A.trace, R2A.stepG_eq_step, ih]

theorem r2a_oracle_accepts_generated (c : R2A.Cfg) (is : List R2A.In) (hw : R2AWfIs is) :
    (Spec.R2A.check 1 c (R2A.obs c R2A.init) (R2A.traceG c R2A.init is)).isFail = false ∧
    (Spec.R2A.check 2 c (R2A.obs c R2A.init) (R2A.traceG c R2A.init is)).isFail = false := by
  rw [r2a_traceG_eq]; exact ⟨r2a_oracle_accepts_model c is hw, r2a_oracle_tolerant_accepts_model c is hw⟩

/-- reset priority, stated directly: after EVERY schedule (no assumption at all), a cycle with ap_reset = 1 leaves VALID,
    LAST and sent down and the adapter inactive — whatever `active` was, also with a stale beat pending while inactive. -/
theorem r2a_reset_clears (c : R2A.Cfg) (is : List R2A.In) (i : R2A.In) (hi : R2AWfI i) (hr : i.ap_reset = 1) (j : R2A.In) :
    (R2A.run c R2A.init (is ++ [i])).tvalid = 0 ∧ (R2A.comb c (R2A.run c R2A.init (is ++ [i])) j).tlast = 0 ∧
    (R2A.run c R2A.init (is ++ [i])).sent = 0 ∧ (R2A.run c R2A.init (is ++ [i])).active = 0 := by
  have hs := r2a_wf_run c is
  rw [r2a_run_snoc]
  have h1 : (R2A.step c (R2A.run c R2A.init is) i).tvalid = 0 := by rw [r2a_step_tvalid c _ i hs hi]; simp [hr]
  refine ⟨h1, ?_, ?_, ?_⟩
  · simp [R2A.comb, buf, h1]
  · rw [r2a_step_sent c _ i hs hi]; simp [r2aClr, hr]
  · rw [r2a_step_active c _ i hs hi]; simp [hr]

/-! ### the boundary of the environment assumption (a genuine defect under the literal reading) -/

/-  FULL STATEMENT under the literal assumption (kept visible, NOT provable — refuted below):
      ∀ c is, R2AWfIs is → (∀ cycle, ap_done = 1 → sent = 1 before the edge) →
        (Spec.R2A.check 0 c (R2A.obs c R2A.init) (R2A.trace c R2A.init is)).isFail = false
    The proved versions are `r2a_oracle_accepts_model` / `r2a_valid_drops` / `r2a_no_duplicate_beats` under `Quiet`, and
    `r2a_oracle_tolerant_accepts_model` (everything except the three `clausesQ`, in every state, with no assumption). -/

/-- W = 16, DW = 64: start; load 0xAB; the peer accepts it (sent = 1); load 0xCD (pending); ap_done arrives — sent IS up, so
    "done only after a completed transfer" holds literally — ; then the peer accepts 0xCD.  The adapter, inactive since the
    done pulse, does not see the handshake: VALID stays up (the beat will be delivered again and again), sent stays 0.
    The literal-mode oracle fails at cycle 5 on `valid_drops_when_accepted`, with the `pend` flag set; the tolerant mode
    accepts the history, and still accepts it when a reset follows (VALID cleared while inactive) and the adapter restarts. -/
theorem r2a_done_while_pending_counterexample :
    let c : R2A.Cfg := ⟨16, 64, 8⟩
    let is : List R2A.In := [⟨1,0,0,0,0,0⟩, ⟨0,0,0,1,0xAB,0⟩, ⟨0,0,0,0,0xAB,1⟩, ⟨0,0,0,1,0xCD,0⟩, ⟨0,0,1,0,0xCD,0⟩]
    let acc : R2A.In := ⟨0,0,0,0,0xCD,1⟩
    let s := R2A.run c R2A.init is
    (R2A.run c R2A.init (is.take 4)).sent = 1 ∧                       -- done is pulsed while sent = 1 …
    (R2A.run c R2A.init (is.take 4)).tvalid = 1 ∧                     -- … and a second beat is pending
    s.tvalid = 1 ∧ s.active = 0 ∧ acc.tready = 1 ∧                     -- the peer accepts the pending beat …
    (R2A.step c s acc).tvalid = 1 ∧ (R2A.step c s acc).sent = 0 ∧     -- … and it is still offered, sent is not raised
    (R2A.step c (R2A.step c s acc) acc).tvalid = 1 ∧                  -- … and accepted a second time: duplicated
    (Spec.R2A.check 0 c (R2A.obs c R2A.init) (R2A.trace c R2A.init (is ++ [acc]))).isFail = true ∧
    (Spec.R2A.check 1 c (R2A.obs c R2A.init) (R2A.trace c R2A.init (is ++ [acc]))) = .stop 4 ∧
    (Spec.R2A.check 2 c (R2A.obs c R2A.init) (R2A.trace c R2A.init (is ++ [acc]))) = .ok ∧
    -- a reset while inactive clears the stale beat; after a restart nothing is offered and every clause is judged again
    (R2A.run c R2A.init (is ++ [acc, ⟨0,1,0,0,0,0⟩])) = ⟨0, 0, 0xCD, 0⟩ ∧
    (Spec.R2A.check 2 c (R2A.obs c R2A.init)
      (R2A.trace c R2A.init (is ++ [acc, ⟨0,1,0,0,0,0⟩, ⟨1,0,0,0,0,1⟩, ⟨0,0,0,0,0,1⟩, ⟨0,0,0,1,0xEF,0⟩, ⟨0,0,0,0,0,1⟩]))) = .ok := by
  decide

/-! ### where ap_done comes from: the kernel FSM (generated from VitisKernelFSM.clock) -/

/-- the FSM raises ap_done only from state 2 ("outputs loaded") in a cycle in which it sees all_sent, and then moves to 3 -/
theorem vitis_done_only_after_all_sent (s : Gen.VitisKernelFSM.St) (i : Gen.VitisKernelFSM.In)
    (h : (Gen.VitisKernelFSM.step ⟨⟩ s i ⟨⟩).2.ap_done = some 1) :
    s.state = 2 ∧ Py.truthy i.all_sent = true ∧ (Gen.VitisKernelFSM.step ⟨⟩ s i ⟨⟩).1.state = 3 := by
  simp only [Gen.VitisKernelFSM.step, Id.run, pure] at h ⊢
  repeat' split at h
  all_goals simp_all

/-! ### non-vacuity -/

/-- a schedule with back-pressure, load while pending (the payload follows the latest load), accept, back-to-back reload in
    the accept cycle (dropped by reset priority of tvalid), reset mid-transfer, quiet done, restart: it is well formed, satisfies
    the environment assumption, and exercises VALID held for 3 cycles, retired by accept, killed by reset. -/
example :
    let c : R2A.Cfg := ⟨12, 16, 2⟩
    let is : List R2A.In := [⟨1,0,0,0,0,0⟩, ⟨0,0,0,1,0x111,0⟩, ⟨0,0,0,0,0,0⟩, ⟨0,0,0,1,0x222,0⟩, ⟨0,0,0,1,0x333,1⟩,
                             ⟨0,0,0,1,0x444,0⟩, ⟨0,1,0,0,0,1⟩, ⟨1,0,0,0,0,0⟩, ⟨0,0,0,1,0xFFFF,1⟩, ⟨0,0,0,0,0,1⟩, ⟨0,0,1,0,0,0⟩]
    R2AWfIs is ∧ Quiet c R2A.init is ∧
    (R2A.run c R2A.init (is.take 4)) = ⟨1, 1, 0x222, 0⟩ ∧      -- pending through back-pressure, payload = latest load
    (R2A.run c R2A.init (is.take 5)) = ⟨1, 0, 0x333, 1⟩ ∧      -- accepted: VALID retired, sent up
    (R2A.run c R2A.init (is.take 6)) = ⟨1, 1, 0x444, 1⟩ ∧
    (R2A.run c R2A.init (is.take 7)) = ⟨0, 0, 0x444, 0⟩ ∧      -- reset mid-transfer
    (R2A.run c R2A.init (is.take 10)) = ⟨1, 0, 0xFFFF, 1⟩ ∧    -- reg_in is whatever is poked; the 16-bit tdata wire masks it
    (R2A.run c R2A.init is) = ⟨0, 0, 0xFFFF, 0⟩ ∧
    r2aAccepts c R2A.init is = 3 ∧ r2aLoads c R2A.init is = 5 ∧     -- (one beat is taken by the peer in the reset cycle)
    Spec.R2A.check 1 c (R2A.obs c R2A.init) (R2A.trace c R2A.init is) = .ok := by
  refine ⟨?_, ?_, by decide, by decide, by decide, by decide, by decide, by decide, by decide, by decide, by decide⟩
  · intro i hi
    simp only [List.mem_cons, List.mem_nil_iff, or_false] at hi
    rcases hi with rfl | rfl | rfl | rfl | rfl | rfl | rfl | rfl | rfl | rfl | rfl <;> constructor <;> decide
  · simp only [Quiet]
    decide

example : R2A.tkeepVal 32 % 2^8 = 0xF ∧ R2A.tkeepVal 8 % 2^8 = 1 ∧ R2A.tkeepVal 9 % 2^1 = 1 ∧ R2A.tkeepVal 64 % 2^8 = 0xFF := by
  decide

/-! ### Axi2Clk / Axi2ClkFSM sequencing (proved in Proofs/C16Clk.lean, restated here as obligations of C16)

  * `Axi.Clk.stepG_eq_step`            one cycle through the code GENERATED from `Axi2ClkFSM.clock` = the reference step
                                        (pins the end-of-count test to the LATCHED target, not to the live TDATA)
  * `Axi.Clk.clk_counts_accepted_beat` pulses generated = value of the ACCEPTED beat, for every TDATA/TVALID/start/reset/done
                                        behaviour after the handshake; then one load_outs pulse; FSM idle again
  * `Axi.Clk.clk_oracle_accepts_model`/`_generated`  the oracle `Spec.Clk.check` accepts every schedule
  * `Axi.Clk.clk_back_to_back`                       beat T1, then beat T2 in the cycle after load_outs: exactly T2 pulses
  * `Axi.Clk.clk_back_to_back_example`               former witness of C16-axi2clk-stale-count (fixed by bcd06db): 2 then 5 pulses
  * `Axi.Clk.clk_accepts_while_counting_counterexample`  finding: READY stays up during a count, the beat accepted then is lost -/

/-- the headline statement on the GENERATED FSM: through `stepG` (i.e. `Gen.Axi2ClkFSM.step`), a beat T accepted by an idle,
    cleared Axi2Clk yields exactly T pulses then load_outs, whatever the inputs do during the count. -/
theorem clk_generated_counts_accepted_beat (c : Clk.Cfg) (s : Clk.St) (i0 : Clk.In) (js : List Clk.In)
    (hidle : s.state = 0) (hclear : s.count = 0) (hact : s.active = 1) (hvalid : i0.tvalid = 1)
    (hT1 : 1 ≤ i0.tdata) (hT2 : i0.tdata < 2^c.CW) (hlen : js.length = 2 * i0.tdata + 1) :
    Clk.outs c (Clk.stepG c s i0) js = Spec.Clk.pulseTrain i0.tdata ∧
    ((Spec.Clk.pulseTrain i0.tdata).filter (fun p => p.1 == 1)).length = i0.tdata := by
  rw [Clk.stepG_eq_step]
  exact ⟨(Clk.clk_counts_from_clear c s i0 js hidle hclear hact hvalid hT1 hT2 hlen).1, (Clk.pulseTrain_count _).1⟩

end C16
