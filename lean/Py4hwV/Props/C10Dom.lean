import Py4hwV.Net.ClockDom
import Py4hwV.Props.C10
/-
  C10 over clock DOMAINS as the design declares them: driver objects with name / base / wire / enable attributes placed
  anywhere in the object tree (Net/ClockDom.lean).

  * the domain of a block is a function of the nearest driver OBJECT only: `driverOf_natural`, `driverOf_obj_only`,
    `domains_attr_irrelevant` (clock-wire identity, names and base chains of ANY driver of the design can be changed without
    changing a single domain);
  * the `Nodup` hypothesis of the gating theorems of Props/C10.lean is DERIVED from the construction of the dict
    (`domains_enabled_nodup`), and the gating theorems are restated over the hierarchy:
    `hier_gated_hold_state`, `hier_enabled_steps`, `hier_step_like_ungated`, `hier_other_domains_unaffected`.
-/
namespace C10
open Net C05

variable {σ : Type}

/-! ### the lookup sees the nearest driver object and nothing else -/

/-- naturality: the lookup commutes with ANY relabelling / re-attribution of the drivers -/
theorem driverOf_natural {D E : Type} (f : D → E) (chain : List (Option D)) :
    driverOf (chain.map (Option.map f)) = (driverOf chain).map f := by
  induction chain with
  | nil => rfl
  | cons a rest ih =>
    cases a with
    | some d => rfl
    | none => simpa [driverOf] using ih

/-- **the domain of a block is a function of the nearest driver OBJECT only**: rewrite the attributes (name, base chain,
    clock wire, even the enable) of every driver met on the way to the root in any way that keeps the object identities —
    the driver object found is the same. -/
theorem driverOf_obj_only (chain : List (Option Drv)) (f : Drv → Drv) (hf : ∀ d, (f d).obj = d.obj) :
    leafObj (chain.map (Option.map f)) = leafObj chain := by
  unfold leafObj
  rw [driverOf_natural]
  cases driverOf chain with
  | none => rfl
  | some d => simp [hf]

/-- two chains carrying the same objects at the same levels resolve to the same object -/
theorem driverOf_same_objects (c₁ c₂ : List (Option Drv))
    (h : c₁.map (Option.map Drv.obj) = c₂.map (Option.map Drv.obj)) : leafObj c₁ = leafObj c₂ := by
  unfold leafObj
  rw [← driverOf_natural, ← driverOf_natural, h]

/-- the tree recursion of base.py is the chain lookup -/
theorem getObjectClockDriver_eq (h : Hier) (fuel o : Nat) :
    getObjectClockDriver h fuel o = driverOf (chainOf h fuel o) := by
  induction fuel generalizing o with
  | zero =>
    unfold getObjectClockDriver chainOf
    cases hd : h.drv o with
    | some d => simp [driverOf]
    | none => cases hp : h.parent o <;> simp [driverOf]
  | succ n ih =>
    unfold getObjectClockDriver chainOf
    cases hd : h.drv o with
    | some d => simp [driverOf]
    | none =>
      cases hp : h.parent o with
      | none => simp [driverOf]
      | some p => simp [driverOf, ih]

/-- nearest ancestor-or-self, on the tree: a block that carries a driver gets it, whatever its ancestors carry -/
theorem getObjectClockDriver_self (h : Hier) (fuel o : Nat) (d : Drv) (hd : h.drv o = some d) :
    getObjectClockDriver h fuel o = some d := by
  unfold getObjectClockDriver
  simp [hd]

/-- … and a block that carries none gets exactly what its parent gets -/
theorem getObjectClockDriver_inherit (h : Hier) (fuel o p : Nat) (hd : h.drv o = none) (hp : h.parent o = some p) :
    getObjectClockDriver h (fuel + 1) o = getObjectClockDriver h fuel p := by
  conv => lhs; unfold getObjectClockDriver
  simp [hd, hp]

/-! ### the dict -/

theorem lookupDom_addDom (g : List (Drv × List Nat)) (dv : Drv) (k o : Nat) :
    lookupDom (addDom g dv k) o = if dv.obj = o then lookupDom g o ++ [k] else lookupDom g o := by
  induction g with
  | nil => by_cases h : dv.obj = o <;> simp [addDom, lookupDom, h]
  | cons a rest ih =>
    obtain ⟨d, l⟩ := a
    simp only [addDom]
    by_cases h1 : d.obj = dv.obj
    · by_cases h2 : d.obj = o
      · have : dv.obj = o := h1 ▸ h2
        simp [lookupDom, h1, this]
      · have : ¬ dv.obj = o := fun e => h2 (h1 ▸ e)
        simp [lookupDom, h1, this]
    · simp only [h1, if_false, lookupDom]
      by_cases h2 : d.obj = o
      · have : ¬ dv.obj = o := fun e => h1 (h2.trans e.symm)
        simp [h2, this]
      · simp [h2, ih]

/-- the leaves whose nearest driver is object `o`, in leaf order -/
def members (ls : List (Nat × List (Option Drv))) (o : Nat) : List Nat :=
  (ls.filter fun kc => leafObj kc.2 = some o).map Prod.fst

theorem domainsFrom_lookup (ls : List (Nat × List (Option Drv))) (g g' : List (Drv × List Nat)) (o : Nat)
    (h : domainsFrom ls g = some g') : lookupDom g' o = lookupDom g o ++ members ls o := by
  induction ls generalizing g with
  | nil => simp [domainsFrom] at h; subst h; simp [members]
  | cons a ls ih =>
    obtain ⟨k, chain⟩ := a
    simp only [domainsFrom] at h
    cases hd : driverOf chain with
    | none => simp [hd] at h
    | some dv =>
      simp only [hd] at h
      rw [ih _ h, lookupDom_addDom]
      by_cases e : dv.obj = o <;> simp [members, leafObj, hd, e]

/-- **grouping.** Under driver object `o` the simulator registers exactly the clockable leaves whose nearest
    ancestor-or-self driver is `o`, in leaf order — no attribute of any driver takes part. -/
theorem domains_lookup (ls : List (Nat × List (Option Drv))) (g : List (Drv × List Nat)) (o : Nat)
    (h : domains ls = some g) : lookupDom g o = members ls o := by
  have := domainsFrom_lookup ls [] g o h
  simpa [lookupDom] using this

/-- the simulator cannot be built exactly when some clockable leaf has no driver up to the root -/
theorem domainsFrom_none (ls : List (Nat × List (Option Drv))) (g : List (Drv × List Nat)) :
    domainsFrom ls g = none ↔ ∃ kc, kc ∈ ls ∧ driverOf kc.2 = none := by
  induction ls generalizing g with
  | nil => simp [domainsFrom]
  | cons a ls ih =>
    obtain ⟨k, chain⟩ := a
    simp only [domainsFrom]
    cases hd : driverOf chain with
    | none => simp [hd]
    | some dv =>
      simp only [ih]
      constructor
      · rintro ⟨kc, hkc, e⟩; exact ⟨kc, by simp [hkc], e⟩
      · rintro ⟨kc, hkc, e⟩
        simp at hkc
        rcases hkc with hkc | hkc
        · subst hkc; simp [hd] at e
        · exact ⟨kc, hkc, e⟩

/-! #### attributes other than identity and enable never reach the simulator -/

def mapDrv (f : Drv → Drv) (g : List (Drv × List Nat)) : List (Drv × List Nat) := g.map fun dl => (f dl.1, dl.2)

theorem addDom_mapDrv (f : Drv → Drv) (hf : ∀ d, (f d).obj = d.obj) (g : List (Drv × List Nat)) (dv : Drv) (k : Nat) :
    addDom (mapDrv f g) (f dv) k = mapDrv f (addDom g dv k) := by
  induction g with
  | nil => rfl
  | cons a rest ih =>
    obtain ⟨d, l⟩ := a
    simp only [mapDrv, List.map_cons, addDom, hf] at ih ⊢
    by_cases h : d.obj = dv.obj
    · simp [h]
    · simp [h, ih]

theorem domainsFrom_mapDrv (f : Drv → Drv) (hf : ∀ d, (f d).obj = d.obj) (ls : List (Nat × List (Option Drv)))
    (g : List (Drv × List Nat)) :
    domainsFrom (ls.map fun kc => (kc.1, kc.2.map (Option.map f))) (mapDrv f g) = (domainsFrom ls g).map (mapDrv f) := by
  induction ls generalizing g with
  | nil => rfl
  | cons a ls ih =>
    obtain ⟨k, chain⟩ := a
    simp only [List.map_cons, domainsFrom, driverOf_natural]
    cases hd : driverOf chain with
    | none => rfl
    | some dv =>
      simp only [Option.map_some]
      rw [addDom_mapDrv f hf, ih]

/-- **Clock-wire identity, names and base chains are irrelevant to the domains.** Re-attribute every driver of the design by
    any `f` that keeps object identity and the enable wire (give two drivers the SAME clock wire, give each its own, drop the
    wires, rename them all to 'clk', re-base them): the simulator's domain list — which enable gates which clockables, in
    which order — is unchanged. -/
theorem domains_attr_irrelevant (f : Drv → Drv) (hobj : ∀ d, (f d).obj = d.obj) (hen : ∀ d, (f d).enable = d.enable)
    (ls : List (Nat × List (Option Drv))) :
    (domains (ls.map fun kc => (kc.1, kc.2.map (Option.map f)))).map simDrivers = (domains ls).map simDrivers := by
  unfold domains
  have := domainsFrom_mapDrv f hobj ls []
  simp only [mapDrv, List.map_nil] at this
  rw [this]
  cases domainsFrom ls [] with
  | none => rfl
  | some g =>
    simp only [Option.map_some, Option.some.injEq, simDrivers, mapDrv, List.map_map]
    apply List.map_congr_left
    intro dl _
    simp [hen]

/-! ### every clockable leaf is registered once: the `Nodup` hypothesis of the gating theorems, derived -/

theorem addDom_perm (g : List (Drv × List Nat)) (dv : Drv) (k : Nat) :
    ((addDom g dv k).flatMap Prod.snd).Perm (k :: g.flatMap Prod.snd) := by
  induction g with
  | nil => simp [addDom]
  | cons a rest ih =>
    obtain ⟨d, l⟩ := a
    simp only [addDom]
    by_cases h : d.obj = dv.obj
    · simp only [h, if_true, List.flatMap_cons, List.append_assoc]
      exact (List.perm_middle (l₁ := l) (a := k) (l₂ := rest.flatMap Prod.snd))
    · simp only [h, if_false, List.flatMap_cons]
      exact ((List.Perm.append_left l ih).trans List.perm_middle)

theorem domainsFrom_perm (ls : List (Nat × List (Option Drv))) (g g' : List (Drv × List Nat))
    (h : domainsFrom ls g = some g') : (g'.flatMap Prod.snd).Perm (ls.map Prod.fst ++ g.flatMap Prod.snd) := by
  induction ls generalizing g with
  | nil => simp [domainsFrom] at h; subst h; simp
  | cons a ls ih =>
    obtain ⟨k, chain⟩ := a
    simp only [domainsFrom] at h
    cases hd : driverOf chain with
    | none => simp [hd] at h
    | some dv =>
      simp only [hd] at h
      refine (ih _ h).trans ?_
      simp only [List.map_cons, List.cons_append]
      exact ((List.Perm.append_left _ (addDom_perm g dv k)).trans List.perm_middle)

theorem enabled_sublist (v : Val) (g : List (Drv × List Nat)) :
    (enabledClockables v (simDrivers g)).Sublist (g.flatMap Prod.snd) := by
  induction g with
  | nil => simp [enabledClockables, simDrivers]
  | cons a rest ih =>
    simp only [enabledClockables, simDrivers, List.map_cons, List.flatMap_cons] at ih ⊢
    by_cases e : enabled v a.1.enable = true
    · simp only [e, if_true]
      exact List.Sublist.append (List.Sublist.refl _) ih
    · simp only [e]
      exact (List.Sublist.append (List.nil_sublist _) ih)

/-- **every clockable leaf is clocked at most once per edge**, whatever the placement of the drivers: the `Nodup`
    hypothesis of `gated_hold_state`, `gated_hold_wire`, `domains_independent_*`, `leaf_sees_pre_edge` holds for the dict
    that `topologicalSort` builds (leaf indices are distinct: `allLeaves()` lists each leaf once). -/
theorem domains_enabled_nodup (ls : List (Nat × List (Option Drv))) (g : List (Drv × List Nat)) (v : Val)
    (hk : (ls.map Prod.fst).Nodup) (h : domains ls = some g) : (enabledClockables v (simDrivers g)).Nodup := by
  have hp := domainsFrom_perm ls [] g h
  simp only [List.flatMap_nil, List.append_nil] at hp
  exact (hp.nodup_iff.mpr hk).sublist (enabled_sublist v g)

/-! ### which leaves an edge clocks -/

theorem mem_addDom (g : List (Drv × List Nat)) (dv : Drv) (k : Nat) (d : Drv) (l : List Nat)
    (h : (d, l) ∈ addDom g dv k) :
    (d, l) ∈ g ∨ (d.obj = dv.obj ∧ ∃ l0, l = l0 ++ [k] ∧ (d, l0) ∈ g) ∨ (d, l) = (dv, [k]) := by
  induction g with
  | nil => simp [addDom] at h; right; right; simp [h]
  | cons a rest ih =>
    obtain ⟨d', l'⟩ := a
    simp only [addDom] at h
    by_cases e : d'.obj = dv.obj
    · simp only [e, if_true, List.mem_cons] at h
      rcases h with h | h
      · right; left
        cases h
        exact ⟨e, l', rfl, by simp⟩
      · left; simp [h]
    · simp only [e, if_false, List.mem_cons] at h
      rcases h with h | h
      · left; simp [h]
      · rcases ih h with h | ⟨h1, l0, h2, h3⟩ | h
        · left; simp [h]
        · right; left; exact ⟨h1, l0, h2, by simp [h3]⟩
        · right; right; exact h

theorem addDom_keeps (g : List (Drv × List Nat)) (dv : Drv) (k : Nat) (d : Drv) (l : List Nat) (h : (d, l) ∈ g) :
    ∃ l', (d, l') ∈ addDom g dv k ∧ ∀ x, x ∈ l → x ∈ l' := by
  induction g with
  | nil => cases h
  | cons a rest ih =>
    obtain ⟨d', l'⟩ := a
    simp only [addDom]
    by_cases e : d'.obj = dv.obj
    · simp only [e, if_true]
      simp only [List.mem_cons] at h
      rcases h with h | h
      · cases h
        exact ⟨l ++ [k], by simp, fun x hx => by simp [hx]⟩
      · exact ⟨l, by simp [h], fun _ hx => hx⟩
    · simp only [e, if_false]
      simp only [List.mem_cons] at h
      rcases h with h | h
      · cases h
        exact ⟨l, by simp, fun _ hx => hx⟩
      · obtain ⟨l2, h2, h3⟩ := ih h
        exact ⟨l2, by simp [h2], h3⟩

theorem addDom_has (g : List (Drv × List Nat)) (dv : Drv) (k : Nat) :
    ∃ d l, (d, l) ∈ addDom g dv k ∧ d.obj = dv.obj ∧ k ∈ l := by
  induction g with
  | nil => exact ⟨dv, [k], by simp [addDom], rfl, by simp⟩
  | cons a rest ih =>
    obtain ⟨d', l'⟩ := a
    simp only [addDom]
    by_cases e : d'.obj = dv.obj
    · simp only [e, if_true]
      exact ⟨d', l' ++ [k], by simp, e, by simp⟩
    · simp only [e, if_false]
      obtain ⟨d, l, h1, h2, h3⟩ := ih
      exact ⟨d, l, by simp [h1], h2, h3⟩

/-- soundness of the dict: a leaf registered under a driver either was there before or resolves to that driver object -/
theorem domainsFrom_sound (ls : List (Nat × List (Option Drv))) (g g' : List (Drv × List Nat))
    (h : domainsFrom ls g = some g') (d : Drv) (l : List Nat) (hd : (d, l) ∈ g') (x : Nat) (hx : x ∈ l) :
    (∃ l0, (d, l0) ∈ g ∧ x ∈ l0) ∨
      (∃ chain dv, (x, chain) ∈ ls ∧ driverOf chain = some dv ∧ dv.obj = d.obj ∧ ((∃ l0, (d, l0) ∈ g) ∨ ∃ kc, kc ∈ ls ∧ driverOf kc.2 = some d)) := by
  induction ls generalizing g with
  | nil => simp [domainsFrom] at h; subst h; left; exact ⟨l, hd, hx⟩
  | cons a ls ih =>
    obtain ⟨k, chain⟩ := a
    simp only [domainsFrom] at h
    cases hdr : driverOf chain with
    | none => simp [hdr] at h
    | some dv =>
      simp only [hdr] at h
      rcases ih _ h with ⟨l0, h0, hx0⟩ | ⟨c, dv', h1, h2, h3, h4⟩
      · rcases mem_addDom g dv k d l0 h0 with hg | ⟨ho, l1, e, hg⟩ | e
        · left; exact ⟨l0, hg, hx0⟩
        · subst e
          simp only [List.mem_append, List.mem_singleton] at hx0
          rcases hx0 with hx0 | hx0
          · left; exact ⟨l1, hg, hx0⟩
          · right; subst hx0
            exact ⟨chain, dv, by simp, hdr, ho.symm, Or.inl ⟨l1, hg⟩⟩
        · cases e
          simp only [List.mem_singleton] at hx0
          subst hx0
          right
          exact ⟨chain, d, by simp, hdr, rfl, Or.inr ⟨(x, chain), by simp, hdr⟩⟩
      · right
        refine ⟨c, dv', by simp [h1], h2, h3, ?_⟩
        rcases h4 with ⟨l0, h0⟩ | ⟨kc, hkc, e⟩
        · rcases mem_addDom g dv k d l0 h0 with hg | ⟨_, l1, _, hg⟩ | e
          · exact Or.inl ⟨l0, hg⟩
          · exact Or.inl ⟨l1, hg⟩
          · cases e; exact Or.inr ⟨(k, chain), by simp, hdr⟩
        · exact Or.inr ⟨kc, by simp [hkc], e⟩

theorem domainsFrom_keeps (ls : List (Nat × List (Option Drv))) (g g' : List (Drv × List Nat))
    (h : domainsFrom ls g = some g') (d : Drv) (l : List Nat) (hd : (d, l) ∈ g) :
    ∃ l', (d, l') ∈ g' ∧ ∀ x, x ∈ l → x ∈ l' := by
  induction ls generalizing g l with
  | nil => simp [domainsFrom] at h; subst h; exact ⟨l, hd, fun _ hx => hx⟩
  | cons a ls ih =>
    obtain ⟨k, chain⟩ := a
    simp only [domainsFrom] at h
    cases hdr : driverOf chain with
    | none => simp [hdr] at h
    | some dv =>
      simp only [hdr] at h
      obtain ⟨l1, h1, s1⟩ := addDom_keeps g dv k d l hd
      obtain ⟨l2, h2, s2⟩ := ih _ h l1 h1
      exact ⟨l2, h2, fun x hx => s2 x (s1 x hx)⟩

/-- completeness of the dict: every clockable leaf is registered under an entry of the driver object it resolves to -/
theorem domainsFrom_complete (ls : List (Nat × List (Option Drv))) (g g' : List (Drv × List Nat))
    (h : domainsFrom ls g = some g') (k : Nat) (chain : List (Option Drv)) (dv : Drv)
    (hk : (k, chain) ∈ ls) (hdv : driverOf chain = some dv) :
    ∃ d l, (d, l) ∈ g' ∧ d.obj = dv.obj ∧ k ∈ l ∧ ((∃ l0, (d, l0) ∈ g) ∨ ∃ kc, kc ∈ ls ∧ driverOf kc.2 = some d) := by
  induction ls generalizing g with
  | nil => cases hk
  | cons a ls ih =>
    obtain ⟨k', chain'⟩ := a
    simp only [domainsFrom] at h
    cases hdr : driverOf chain' with
    | none => simp [hdr] at h
    | some dv' =>
      simp only [hdr] at h
      simp only [List.mem_cons] at hk
      rcases hk with hk | hk
      · cases hk
        rw [hdr] at hdv
        cases hdv
        obtain ⟨d, l, h1, h2, h3⟩ := addDom_has g dv k
        obtain ⟨l2, h4, s⟩ := domainsFrom_keeps ls _ g' h d l h1
        refine ⟨d, l2, h4, h2, s k h3, ?_⟩
        rcases mem_addDom g dv k d l h1 with hg | ⟨_, l1, _, hg⟩ | e
        · exact Or.inl ⟨l, hg⟩
        · exact Or.inl ⟨l1, hg⟩
        · cases e; exact Or.inr ⟨(k, chain), by simp, hdr⟩
      · obtain ⟨d, l, h1, h2, h3, h4⟩ := ih _ h hk
        refine ⟨d, l, h1, h2, h3, ?_⟩
        rcases h4 with ⟨l0, h0⟩ | ⟨kc, hkc, e⟩
        · rcases mem_addDom g dv' k' d l0 h0 with hg | ⟨_, l1, _, hg⟩ | e
          · exact Or.inl ⟨l0, hg⟩
          · exact Or.inl ⟨l1, hg⟩
          · cases e; exact Or.inr ⟨(k', chain'), by simp, hdr⟩
        · exact Or.inr ⟨kc, by simp [hkc], e⟩

/-- one `ClockDriver` object has one set of attributes: two records with the same identity that the leaves of the design
    resolve to are the same record -/
def Coherent (ls : List (Nat × List (Option Drv))) : Prop :=
  ∀ kc₁, kc₁ ∈ ls → ∀ kc₂, kc₂ ∈ ls → ∀ d₁ d₂, driverOf kc₁.2 = some d₁ → driverOf kc₂.2 = some d₂ → d₁.obj = d₂.obj → d₁ = d₂

theorem chain_unique (ls : List (Nat × List (Option Drv))) (hk : (ls.map Prod.fst).Nodup) (k : Nat)
    (c₁ c₂ : List (Option Drv)) (h₁ : (k, c₁) ∈ ls) (h₂ : (k, c₂) ∈ ls) : c₁ = c₂ := by
  induction ls with
  | nil => cases h₁
  | cons a ls ih =>
    simp only [List.map_cons, List.nodup_cons] at hk
    simp only [List.mem_cons] at h₁ h₂
    rcases h₁ with h₁ | h₁ <;> rcases h₂ with h₂ | h₂
    · rw [← h₁] at h₂; cases h₂; rfl
    · exact absurd (List.mem_map.mpr ⟨(k, c₂), h₂, rfl⟩) (by rw [← h₁] at hk; exact hk.1)
    · exact absurd (List.mem_map.mpr ⟨(k, c₁), h₁, rfl⟩) (by rw [← h₂] at hk; exact hk.1)
    · exact ih hk.2 h₁ h₂

/-- **which leaves an edge clocks**: exactly those whose nearest ancestor-or-self driver object has no enable wire or an
    enable wire that reads non-zero BEFORE the edge. -/
theorem mem_enabled_domains (ls : List (Nat × List (Option Drv))) (g : List (Drv × List Nat)) (v : Val) (k : Nat)
    (hc : Coherent ls) (h : domains ls = some g) :
    k ∈ enabledClockables v (simDrivers g) ↔
      ∃ chain dv, (k, chain) ∈ ls ∧ driverOf chain = some dv ∧ enabled v dv.enable = true := by
  rw [mem_enabledClockables]
  constructor
  · rintro ⟨dr, hdr, he, hk⟩
    simp only [simDrivers, List.mem_map] at hdr
    obtain ⟨⟨d, l⟩, hdl, e⟩ := hdr
    subst e
    rcases domainsFrom_sound ls [] g h d l hdl k hk with ⟨l0, h0, _⟩ | ⟨chain, dv, h1, h2, h3, h4⟩
    · cases h0
    · rcases h4 with ⟨l0, h0⟩ | ⟨kc, hkc, e⟩
      · cases h0
      · have : dv = d := hc (k, chain) h1 kc hkc dv d h2 e h3
        subst this
        exact ⟨chain, dv, h1, h2, he⟩
  · rintro ⟨chain, dv, h1, h2, he⟩
    obtain ⟨d, l, h3, h4, h5, h6⟩ := domainsFrom_complete ls [] g h k chain dv h1 h2
    rcases h6 with ⟨l0, h0⟩ | ⟨kc, hkc, e⟩
    · cases h0
    · have : dv = d := hc (k, chain) h1 kc hkc dv d h2 e h4.symm
      subst this
      exact ⟨{ enable := dv.enable, clockables := l }, by simp only [simDrivers, List.mem_map]; exact ⟨(dv, l), h3, rfl⟩, he, h5⟩

/-! ### the gating theorems over the hierarchy -/

/-- the design's simulator was built from this hierarchy -/
def BuiltFrom (d : Design σ) (ls : List (Nat × List (Option Drv))) : Prop :=
  ∃ g, domains ls = some g ∧ d.drivers = simDrivers g

/-- **C10 (hold).** A sequential block whose nearest ancestor-or-self driver has an enable wire that reads 0 before the
    edge keeps its state across the edge — for every placement of the drivers, any number of domains, any clock-wire /
    name / base attributes, any enable wire (also one driven from inside the domain: the value tested is the pre-edge one). -/
theorem hier_gated_hold_state (d : Design σ) (ls : List (Nat × List (Option Drv))) (s : State σ)
    (hb : BuiltFrom d ls) (hk : (ls.map Prod.fst).Nodup) (hc : Coherent ls)
    (k : Nat) (chain : List (Option Drv)) (dv : Drv) (e : Nat)
    (hm : (k, chain) ∈ ls) (hdv : driverOf chain = some dv) (hen : dv.enable = some e) (h0 : s.val e = 0)
    (hseq : k ∉ d.order) : (clkCycle d s).st k = s.st k := by
  obtain ⟨g, hg, hdr⟩ := hb
  apply gated_hold_state d s k
  · rw [hdr]; exact domains_enabled_nodup ls g s.val hk hg
  · rw [hdr, mem_enabled_domains ls g s.val k hc hg]
    rintro ⟨chain', dv', h1, h2, h3⟩
    have := chain_unique ls hk k chain chain' hm h1
    subst this
    rw [hdv] at h2
    cases h2
    rw [hen, enabled_some_zero s.val e h0] at h3
    cases h3
  · exact hseq

/-- **C10 (hold, over histories).** Across ANY number of consecutive edges before each of which the enable of its nearest
    driver read 0 — whatever else happened in the design meanwhile, whoever drives that enable — the block's state is the one
    it had before the first of them. -/
theorem hier_gated_hold_iter (d : Design σ) (ls : List (Nat × List (Option Drv)))
    (hb : BuiltFrom d ls) (hk : (ls.map Prod.fst).Nodup) (hc : Coherent ls)
    (k : Nat) (chain : List (Option Drv)) (dv : Drv) (e : Nat)
    (hm : (k, chain) ∈ ls) (hdv : driverOf chain = some dv) (hen : dv.enable = some e) (hseq : k ∉ d.order)
    (n : Nat) (s : State σ) (h0 : ∀ i, i < n → (iter (clkCycle d) i s).val e = 0) :
    (iter (clkCycle d) n s).st k = s.st k := by
  induction n generalizing s with
  | zero => rfl
  | succ n ih =>
    simp only [iter]
    rw [ih (clkCycle d s) (fun i hi => by have := h0 (i + 1) (by omega); simpa [iter] using this)]
    exact hier_gated_hold_state d ls s hb hk hc k chain dv e hm hdv hen (by simpa [iter] using h0 0 (by omega)) hseq

/-- **C10 (hold, outputs).** … and every wire that only such held blocks prepare, and that no combinational block drives,
    keeps its value. -/
theorem hier_gated_hold_wire (d : Design σ) (ls : List (Nat × List (Option Drv))) (s : State σ)
    (hb : BuiltFrom d ls) (hk : (ls.map Prod.fst).Nodup) (hc : Coherent ls) (w : Nat)
    (hp : w ∉ s.prepared) (hcd : NotCombDriven d w)
    (hheld : ∀ k chain dv, (k, chain) ∈ ls → driverOf chain = some dv → w ∈ targets (res d s) k →
        ∃ e, dv.enable = some e ∧ s.val e = 0) :
    (clkCycle d s).val w = s.val w := by
  obtain ⟨g, hg, hdr⟩ := hb
  apply gated_hold_wire d s w _ hp _ hcd
  · rw [hdr]; exact domains_enabled_nodup ls g s.val hk hg
  · intro k hkm hw
    rw [hdr, mem_enabled_domains ls g s.val k hc hg] at hkm
    obtain ⟨chain, dv, h1, h2, h3⟩ := hkm
    obtain ⟨e, he, h0⟩ := hheld k chain dv h1 h2 hw
    rw [he, enabled_some_zero s.val e h0] at h3
    cases h3

/-- **C10 (enabled = ungated).** A sequential block whose nearest driver is free running, or whose enable reads non-zero
    before the edge, takes exactly the step `clock()` defines on the pre-edge wires and its pre-edge state: nothing of the
    driver (enable value, clock wire, name, base) appears in the result. -/
theorem hier_enabled_steps (d : Design σ) (ls : List (Nat × List (Option Drv))) (s : State σ)
    (hb : BuiltFrom d ls) (hk : (ls.map Prod.fst).Nodup) (hc : Coherent ls)
    (k : Nat) (chain : List (Option Drv)) (dv : Drv)
    (hm : (k, chain) ∈ ls) (hdv : driverOf chain = some dv) (hen : enabled s.val dv.enable = true) :
    (clockDrivers d s d.drivers).st k = ((d.leaf k).clock s.val (s.st k)).1 := by
  obtain ⟨g, hg, hdr⟩ := hb
  apply leaf_sees_pre_edge d s k
  · rw [hdr]; exact domains_enabled_nodup ls g s.val hk hg
  · rw [hdr, mem_enabled_domains ls g s.val k hc hg]
    exact ⟨chain, dv, hm, hdv, hen⟩

/-- remove every enable of the design: the same hierarchy with all drivers free running -/
def ungateAll (ls : List (Nat × List (Option Drv))) : List (Nat × List (Option Drv)) :=
  ls.map fun kc => (kc.1, kc.2.map (Option.map fun dv => { dv with enable := none }))

theorem ungateAll_keys (ls : List (Nat × List (Option Drv))) : (ungateAll ls).map Prod.fst = ls.map Prod.fst := by
  simp [ungateAll, List.map_map, Function.comp_def]

theorem ungateAll_coherent (ls : List (Nat × List (Option Drv))) (hc : Coherent ls) : Coherent (ungateAll ls) := by
  intro kc₁ h₁ kc₂ h₂ d₁ d₂ e₁ e₂ ho
  simp only [ungateAll, List.mem_map] at h₁ h₂
  obtain ⟨a, ha, rfl⟩ := h₁
  obtain ⟨b, hb, rfl⟩ := h₂
  simp only [driverOf_natural] at e₁ e₂
  cases ha' : driverOf a.2 with
  | none => simp [ha'] at e₁
  | some x =>
    cases hb' : driverOf b.2 with
    | none => simp [hb'] at e₂
    | some y =>
      simp only [ha', hb', Option.map_some, Option.some.injEq] at e₁ e₂
      subst e₁ e₂
      have := hc a ha b hb x y ha' hb' ho
      subst this
      rfl

/-- **C10 (enabled = ungated), as a comparison of two designs.** At an edge where its enable is active a gated block moves
    to the same state as in the design where NO driver has an enable at all. -/
theorem hier_step_like_ungated (d du : Design σ) (ls : List (Nat × List (Option Drv))) (s : State σ)
    (hleaf : du.leaf = d.leaf) (hb : BuiltFrom d ls) (hbu : BuiltFrom du (ungateAll ls))
    (hk : (ls.map Prod.fst).Nodup) (hc : Coherent ls)
    (k : Nat) (chain : List (Option Drv)) (dv : Drv)
    (hm : (k, chain) ∈ ls) (hdv : driverOf chain = some dv) (hen : enabled s.val dv.enable = true) :
    (clockDrivers d s d.drivers).st k = (clockDrivers du s du.drivers).st k := by
  rw [hier_enabled_steps d ls s hb hk hc k chain dv hm hdv hen]
  rw [hier_enabled_steps du (ungateAll ls) s hbu (by rw [ungateAll_keys]; exact hk) (ungateAll_coherent ls hc) k
        (chain.map (Option.map fun dv => { dv with enable := none })) { dv with enable := none }
        (by simp only [ungateAll, List.mem_map]; exact ⟨(k, chain), hm, rfl⟩)
        (by rw [driverOf_natural, hdv]; rfl) rfl, hleaf]

/-- **C10 (other domains are unaffected).** Two hierarchies that differ ARBITRARILY elsewhere (other drivers added, removed,
    gated, ungated, enabled or not, other wires, names, bases) but in both of which block `k` is clocked at this edge move
    `k` to the same state. -/
theorem hier_other_domains_unaffected (d₁ d₂ : Design σ) (ls₁ ls₂ : List (Nat × List (Option Drv))) (s : State σ)
    (hleaf : d₁.leaf = d₂.leaf) (hb₁ : BuiltFrom d₁ ls₁) (hb₂ : BuiltFrom d₂ ls₂)
    (hk₁ : (ls₁.map Prod.fst).Nodup) (hk₂ : (ls₂.map Prod.fst).Nodup) (hc₁ : Coherent ls₁) (hc₂ : Coherent ls₂)
    (k : Nat) (c₁ c₂ : List (Option Drv)) (dv₁ dv₂ : Drv)
    (hm₁ : (k, c₁) ∈ ls₁) (hm₂ : (k, c₂) ∈ ls₂) (hd₁ : driverOf c₁ = some dv₁) (hd₂ : driverOf c₂ = some dv₂)
    (he₁ : enabled s.val dv₁.enable = true) (he₂ : enabled s.val dv₂.enable = true) :
    (clockDrivers d₁ s d₁.drivers).st k = (clockDrivers d₂ s d₂.drivers).st k := by
  rw [hier_enabled_steps d₁ ls₁ s hb₁ hk₁ hc₁ k c₁ dv₁ hm₁ hd₁ he₁,
      hier_enabled_steps d₂ ls₂ s hb₂ hk₂ hc₂ k c₂ dv₂ hm₂ hd₂ he₂, hleaf]

/-! ### non-vacuity: the system driver on clock wire 9; a gated sub-driver declared on THE SAME wire 9 (no separate gated
    net), a second gated driver with its own wire, one without wire; leaf 0 under the system driver, leaves 1 and 3 under the
    shared-wire gated driver (3 two levels below it), leaf 2 directly carrying the wire-less one -/
def sysD : Drv := { obj := 1, name := "clk", base := none, wire := some 9, enable := none }
def gSh : Drv := { obj := 2, name := "clk", base := some 1, wire := some 9, enable := some 5 }
def gOwn : Drv := { obj := 3, name := "gclk", base := some 2, wire := some 10, enable := some 6 }
def gNo : Drv := { obj := 4, name := "gclk", base := some 1, wire := none, enable := some 6 }
def exLs : List (Nat × List (Option Drv)) :=
  [(0, [none, some sysD]), (1, [none, some gSh, some sysD]), (2, [some gNo, some gOwn, some gSh, some sysD]),
   (3, [none, none, none, some gSh, none, some sysD])]

/-- `Driver` has no decidable equality: compare the (enable, clockables) pairs -/
def shown (o : Option (List (Drv × List Nat))) : Option (List (Option Nat × List Nat)) :=
  o.map fun g => (simDrivers g).map fun dr => (dr.enable, dr.clockables)
example : shown (domains exLs) = some [(none, [0]), (some 5, [1, 3]), (some 6, [2])] := by decide
example : (domains exLs).map (fun g => lookupDom g 2) = some [1, 3] := by decide
example : members exLs 2 = [1, 3] := by decide
-- the shared clock wire does not merge the gated domain into the system's: enable (wire 5) at 0 ⇒ leaves 1 and 3 are not clocked
example : (domains exLs).map (fun g => enabledClockables (fun w => if w = 6 then 1 else 0) (simDrivers g)) = some [0, 2] := by decide
-- every wire dropped / every name 'x': same domains
example : shown (domains (exLs.map fun kc => (kc.1, kc.2.map (Option.map fun d => { d with wire := none, name := "x", base := none }))))
    = shown (domains exLs) := by decide
example : (exLs.map Prod.fst).Nodup := by decide
def exH : Hier := { parent := fun o => if o = 0 then none else some (o - 1), drv := fun o => if o = 0 then some sysD else if o = 2 then some gSh else none }
example : (getObjectClockDriver exH 9 4).map Drv.obj = some 2 := by decide
example : (getObjectClockDriver exH 9 1).map Drv.obj = some 1 := by decide
example : chainOf exH 9 3 = [none, some gSh, none, some sysD] := by decide

/-- a two-domain design on `exLs`-like drivers: leaf 0 free running, leaf 1 under the gated driver that shares the system's
    clock wire; both are counters on their own wire; wire 5 (the enable) stays 0 -/
def exLs2 : List (Nat × List (Option Drv)) := [(0, [none, some sysD]), (1, [none, some gSh, some sysD])]
def exD2 : Design Unit :=
  { width := fun _ => 4,
    leaf := fun k => { prop := fun _ s => (s, []), clock := fun v s => (s, [(k, (v k : Int) + 1)]) },
    order := [], drivers := [{ enable := none, clockables := [0] }, { enable := some 5, clockables := [1] }] }
example : BuiltFrom exD2 exLs2 := ⟨[(sysD, [0]), (gSh, [1])], by decide, rfl⟩
example : ((iter (clkCycle exD2) 3 exS).val 0, (iter (clkCycle exD2) 3 exS).val 1) = (3, 0) := by decide
example : Coherent exLs2 := by
  intro a ha b hb d₁ d₂ h₁ h₂ ho
  simp only [exLs2, List.mem_cons, List.mem_nil_iff, or_false] at ha hb
  rcases ha with rfl | rfl <;> rcases hb with rfl | rfl <;> simp [driverOf] at h₁ h₂ <;> subst h₁ <;> subst h₂ <;> first | rfl | (simp [sysD, gSh] at ho)

end C10
