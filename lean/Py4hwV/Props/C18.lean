import Py4hwV.Proofs.C18Complete
import Py4hwV.Proofs.C18Place
/-
  C18 — A schematic shows the circuit that exists: every block once, wired as built.

  Statement (given): placing and routing the schematic of any structural block whose internal wires are all driven
  terminates and yields exactly one symbol for each child instance and each port of that block, no two instance or
  port symbols overlapping.  For every wire used inside the block, the nets drawn for it (together with their
  pass-through and feedback markers) form one connected figure that touches the pin that really drives the wire (an
  instance output or a block input port) and every instance input pin or block output port that really reads it,
  and no pin of any other wire.

  Level: TRANSLATION VALIDATION.  The 2 000-line heuristic place-and-route is not modelled.  What is proved, once,
  for ALL designs and ALL layouts (no bound on instances, ports, wires, symbols, nets, coordinates):

    * `Schem.Holds d L` (Schem/Spec.lean) is the formal statement "layout L shows design d": clause 1 (`once`,
      `no_other`, `placed`, `cells`), clause 2 (`apart`), clause 3 per wire (`WireOK`: logical attachment `ends` /
      `driver` / `readers` / `connected`, and what is actually drawn `routed` / `ortho` / `drawn` / `foreign`).
    * `checker_sound` / `checker_complete`: the executable checker `Schem.check` (run by Drv/C18.lean on the exported
      objs / nets / symbol_matrix of every explored design) returns [] EXACTLY when `Holds` holds.
    * `placement_apart` / `holds_apart_of_placement`: the hand model of `replaceAsColRow` (Schem/Place.lean, tied per
      run by the `place-model` stream) never lets two cells overlap, for all matrices, sizes, track counts and margins ≥ 0.

  NOT proved (stated here in full, carried per run by validation only):
      ∀ structural block d with d.WellDriven,  Schematic(d).placeAndRoute terminates with a layout L and Holds d L.
  It is FALSE on the pinned tree for three classes of designs (notes/C18.md: a third input on an Add/Sub/Mul symbol,
  one wire on two inputs of one instance several columns away, an instance reading its own output); the harness
  re-derives a witness of each on the real code at every run.
-/
namespace C18
open Schem Schem.Place

/- ---------------------------------------------------------------- the validator is exact -/
/-- an accepted layout shows the design: every clause of C18 holds for it -/
theorem checker_sound (d : Design) (L : Layout) (h : check d L = []) : Holds d L := Schem.checker_sound d L h

/-- every error the checker reports is real -/
theorem checker_complete (d : Design) (L : Layout) (h : Holds d L) : check d L = [] := Schem.checker_complete d L h

theorem check_iff_holds (d : Design) (L : Layout) : check d L = [] ↔ Holds d L := Schem.check_iff_holds d L

/-- the breadth-first connectivity test decides connectedness (reflexive-symmetric-transitive closure inside the family) -/
theorem connectedB_sound {α : Type} [DecidableEq α] (adj : α → α → Bool) (xs : List α) (h : connectedB adj xs = true) :
    Connected adj xs := Schem.connectedB_sound adj xs h

theorem connectedB_complete {α : Type} [DecidableEq α] (adj : α → α → Bool) (xs : List α) (h : Connected adj xs) :
    connectedB adj xs = true := Schem.connectedB_complete adj xs h

/-- the enumeration of pins misses no pin that exists -/
theorem mem_pins (d : Design) (p : Pin) (w : Nat) (h : d.wireOf p = some w) : p ∈ d.pins := Schem.mem_pins d p w h

theorem mem_usedList (d : Design) (w : Nat) : w ∈ d.usedList ↔ d.Used w := Schem.mem_usedList d w

theorem map_range_nodup {β : Type} (f : Nat → β) (inj : ∀ a b, f a = f b → a = b) (n : Nat) : ((List.range n).map f).Nodup :=
  List.Pairwise.map f (fun a b (h : a ≠ b) e => h (inj a b e)) List.nodup_range

/-- the enumeration of pins lists no pin twice -/
theorem pins_nodup (d : Design) : d.pins.Nodup := by
  unfold Design.pins
  refine List.nodup_append.2 ⟨List.nodup_append.2 ⟨?_, ?_, ?_⟩, ?_, ?_⟩
  · -- the per-instance pin lists
    show List.Pairwise (· ≠ ·) _
    rw [List.pairwise_flatMap]
    refine ⟨?_, ?_⟩
    · intro i _
      cases d.insts[i]? with
      | none => simp
      | some inst =>
        simp only
        show List.Nodup _
        refine List.nodup_append.2 ⟨?_, ?_, ?_⟩
        · exact map_range_nodup _ (fun a b e => by injection e) _
        · exact map_range_nodup _ (fun a b e => by injection e) _
        · intro a ha b hb
          obtain ⟨_, _, rfl⟩ := List.mem_map.1 ha
          obtain ⟨_, _, rfl⟩ := List.mem_map.1 hb
          intro e; cases e
    · apply List.Pairwise.imp _ (List.nodup_range (n := d.insts.length))
      intro i j hij a ha b hb
      cases hi : d.insts[i]? with
      | none => simp [hi] at ha
      | some ii =>
        cases hj : d.insts[j]? with
        | none => simp [hj] at hb
        | some jj =>
          simp only [hi, hj, List.mem_append, List.mem_map, List.mem_range] at ha hb
          rcases ha with ⟨_, _, rfl⟩ | ⟨_, _, rfl⟩ <;> rcases hb with ⟨_, _, rfl⟩ | ⟨_, _, rfl⟩ <;>
            (intro e; cases e <;> exact hij rfl)
  · exact map_range_nodup _ (fun a b e => by injection e) _
  · intro a ha b hb
    obtain ⟨i, _, hai⟩ := List.mem_flatMap.1 ha
    obtain ⟨_, _, rfl⟩ := List.mem_map.1 hb
    cases hi : d.insts[i]? with
    | none => simp [hi] at hai
    | some ii =>
      simp only [hi, List.mem_append, List.mem_map] at hai
      rcases hai with ⟨_, _, rfl⟩ | ⟨_, _, rfl⟩ <;> (intro e; cases e)
  · exact map_range_nodup _ (fun a b e => by injection e) _
  · intro a ha b hb
    obtain ⟨_, _, rfl⟩ := List.mem_map.1 hb
    rcases List.mem_append.1 ha with ha | ha
    · obtain ⟨i, _, hai⟩ := List.mem_flatMap.1 ha
      cases hi : d.insts[i]? with
      | none => simp [hi] at hai
      | some ii =>
        simp only [hi, List.mem_append, List.mem_map] at hai
        rcases hai with ⟨_, _, rfl⟩ | ⟨_, _, rfl⟩ <;> (intro e; cases e)
    · obtain ⟨_, _, rfl⟩ := List.mem_map.1 ha
      intro e; cases e

/-- the executable premise is the property's premise: every used wire has exactly one driving pin -/
theorem wellDrivenB_iff (d : Design) : d.wellDrivenB = true ↔ d.WellDriven := by
  unfold Design.wellDrivenB Design.WellDriven
  rw [List.all_eq_true]
  constructor
  · intro h w hw
    have h1 := h w ((Schem.mem_usedList d w).2 hw)
    simp only [beq_iff_eq] at h1
    obtain ⟨p, hp⟩ := List.length_eq_one_iff.1 h1
    have hpm : p ∈ d.drivers w := by rw [hp]; simp
    have hp' := (mem_drivers d w p).1 hpm
    refine ⟨p, hp'.1, hp'.2, ?_⟩
    intro q hq hqw
    have : q ∈ d.drivers w := (mem_drivers d w q).2 ⟨hq, hqw⟩
    rw [hp] at this
    simpa using this
  · intro h w hw
    obtain ⟨p, hp1, hp2, hu⟩ := h w ((Schem.mem_usedList d w).1 hw)
    simp only [beq_iff_eq]
    -- drivers w is a duplicate-free sublist of pins whose every member equals p
    have hall : ∀ q ∈ d.drivers w, q = p := fun q hq => hu q ((mem_drivers d w q).1 hq).1 ((mem_drivers d w q).1 hq).2
    have hmem : p ∈ d.drivers w := (mem_drivers d w p).2 ⟨hp1, hp2⟩
    have hnd : (d.drivers w).Nodup := List.Nodup.sublist List.filter_sublist (pins_nodup d)
    cases hd : d.drivers w with
    | nil => rw [hd] at hmem; simp at hmem
    | cons a rest =>
      cases rest with
      | nil => rfl
      | cons b rest' =>
        rw [hd] at hall hnd
        have ea := hall a (by simp)
        have eb := hall b (by simp)
        rw [ea, eb] at hnd
        simp at hnd

/-- `Seg.touch` is exactly "the two segments have a common point" (for axis-parallel segments the bounding box is the segment) -/
theorem touch_iff_common_point (a b : Seg) : a.touch b = true ↔ ∃ p : Pt, a.on p = true ∧ b.on p = true := by
  constructor
  · intro h
    refine ⟨(max (min a.1.1 a.2.1) (min b.1.1 b.2.1), max (min a.1.2 a.2.2) (min b.1.2 b.2.2)), ?_, ?_⟩ <;>
    · simp only [Seg.touch, Seg.on, Bool.and_eq_true, decide_eq_true_eq] at h ⊢
      omega
  · rintro ⟨p, h1, h2⟩
    simp only [Seg.touch, Seg.on, Bool.and_eq_true, decide_eq_true_eq] at h1 h2 ⊢
    omega

/-- a point is on a vertical segment iff it has its x and a y between the ends (and likewise for horizontal ones) -/
theorem on_vertical (s : Seg) (p : Pt) (h : s.1.1 = s.2.1) :
    s.on p = true ↔ p.1 = s.1.1 ∧ min s.1.2 s.2.2 ≤ p.2 ∧ p.2 ≤ max s.1.2 s.2.2 := by
  simp only [Seg.on, Bool.and_eq_true, decide_eq_true_eq]
  omega

theorem on_horizontal (s : Seg) (p : Pt) (h : s.1.2 = s.2.2) :
    s.on p = true ↔ p.2 = s.1.2 ∧ min s.1.1 s.2.1 ≤ p.1 ∧ p.1 ≤ max s.1.1 s.2.1 := by
  simp only [Seg.on, Bool.and_eq_true, decide_eq_true_eq]
  omega

/-- `Sym.Apart` is exactly "no pixel belongs to both boxes" (boxes of positive size) -/
theorem apart_iff_no_common_pixel (a b : Sym) (ha : 0 < a.w ∧ 0 < a.h) (hb : 0 < b.w ∧ 0 < b.h) :
    a.Apart b ↔ ¬ ∃ p : Pt, (a.x ≤ p.1 ∧ p.1 < a.x + a.w ∧ a.y ≤ p.2 ∧ p.2 < a.y + a.h) ∧
                            (b.x ≤ p.1 ∧ p.1 < b.x + b.w ∧ b.y ≤ p.2 ∧ p.2 < b.y + b.h) := by
  unfold Sym.Apart
  constructor
  · rintro h ⟨p, h1, h2⟩
    omega
  · intro h
    apply Classical.byContradiction
    intro hn
    apply h
    refine ⟨(max a.x b.x, max a.y b.y), ?_, ?_⟩ <;> (simp only; omega)

/- ---------------------------------------------------------------- the drawn figure really passes through the pins -/
theorem head_on_segs (path : List Pt) (pt : Pt) (hl : 2 ≤ path.length) (hh : path.head? = some pt) :
    ∃ s ∈ segsOfPath path, s.on pt = true := by
  match path, hl, hh with
  | a :: b :: rest, _, hh =>
    simp only [List.head?_cons, Option.some.injEq] at hh
    subst hh
    refine ⟨(a, b), by simp [segsOfPath], ?_⟩
    simp only [Seg.on, Bool.and_eq_true, decide_eq_true_eq]
    omega

theorem last_on_segs (path : List Pt) (pt : Pt) (hl : 2 ≤ path.length) (hh : path.getLast? = some pt) :
    ∃ s ∈ segsOfPath path, s.on pt = true := by
  induction path with
  | nil => simp at hl
  | cons a rest ih =>
    match rest, hl, hh, ih with
    | [b], _, hh, _ =>
      simp at hh
      subst hh
      refine ⟨(a, b), by simp [segsOfPath], ?_⟩
      simp only [Seg.on, Bool.and_eq_true, decide_eq_true_eq]
      omega
    | b :: c :: rest', _, hh, ih =>
      have : (b :: c :: rest').getLast? = some pt := by simpa [List.getLast?_cons_cons] using hh
      obtain ⟨s, hs, hon⟩ := ih (by simp) this
      exact ⟨s, by simp only [segsOfPath, List.mem_cons]; exact Or.inr (by simpa [segsOfPath] using hs), hon⟩

/-- in an accepted layout the figure drawn for w really passes over every pin that reads w, and over the pin that
    drives it (whenever somebody reads it) -/
theorem holds_pin_on_figure (d : Design) (L : Layout) (h : Holds d L) (w : Nat) (p : Pin) (hw : d.wireOf p = some w)
    (hr : ∃ q, q.isDriver = false ∧ d.wireOf q = some w) :
    ∃ pt, L.pinPos p = some pt ∧ ∃ s ∈ L.figure w, s.on pt = true := by
  have hW := h.wires w ⟨p, hw⟩
  have key : ∀ n ∈ L.netsOf w, ∀ s ∈ segsOfPath n.path, s ∈ L.figure w := by
    intro n hn s hs
    unfold Layout.figure
    exact List.mem_flatMap.2 ⟨n, hn, by simp [hs]⟩
  cases hd : p.isDriver with
  | true =>
    obtain ⟨n, hn, _, pt, hpt, hhead⟩ := hW.driver p hd hw hr
    obtain ⟨s, hs, hon⟩ := head_on_segs n.path pt (hW.routed n hn) hhead
    exact ⟨pt, hpt, s, key n hn s hs, hon⟩
  | false =>
    obtain ⟨n, hn, _, pt, hpt, hlast⟩ := hW.readers p hd hw
    obtain ⟨s, hs, hon⟩ := last_on_segs n.path pt (hW.routed n hn) hlast
    exact ⟨pt, hpt, s, key n hn s hs, hon⟩

/- ---------------------------------------------------------------- replaceAsColRow -/
theorem xAt_mono (cfg : Cfg) (h : cfg.NonNeg) (tracks : List Nat) (m : List (List Cell)) (c c' : Nat) (hc : c < c') :
    xAt cfg tracks m c + colW m c ≤ xAt cfg tracks m c' := Schem.Place.xAt_mono cfg h tracks m c c' hc

theorem yAt_mono (cfg : Cfg) (h : cfg.NonNeg) (m : List (List Cell)) (r r' : Nat) (hr : r < r') :
    yAt cfg m r + rowH ((m[r]?).getD []) ≤ yAt cfg m r' := Schem.Place.yAt_mono cfg h m r r' hr

/-- replaceAsColRow gives disjoint boxes to different cells — all matrices, all sizes, all track counts, all margins ≥ 0 -/
theorem placement_apart (cfg : Cfg) (h : cfg.NonNeg) (tracks : List Nat) (m : List (List Cell))
    (r c r' c' : Nat) (row row' : List Cell) (w h1 w' h1' : Int)
    (hr : m[r]? = some row) (hc : row[c]? = some (some (w, h1)))
    (hr' : m[r']? = some row') (hc' : row'[c']? = some (some (w', h1')))
    (hne : (r, c) ≠ (r', c')) :
    xAt cfg tracks m c + w ≤ xAt cfg tracks m c' ∨ xAt cfg tracks m c' + w' ≤ xAt cfg tracks m c ∨
    yAt cfg m r + h1 ≤ yAt cfg m r' ∨ yAt cfg m r' + h1' ≤ yAt cfg m r :=
  Schem.Place.placement_apart cfg h tracks m r c r' c' row row' w h1 w' h1' hr hc hr' hc' hne

/-- clause 2 of `Holds` for EVERY layout whose coordinates are the ones replaceAsColRow computes from its symbol_matrix -/
theorem holds_apart_of_placement (L : Layout) (cfg : Cfg) (hcfg : cfg.NonNeg) (tracks : List Nat) (hp : L.PlacedBy cfg tracks) :
    ∀ (i j : Nat) (a b : Sym), L.syms[i]? = some a → L.syms[j]? = some b → i ≠ j → a.kind.isReal = true → b.kind.isReal = true →
      a.cell ≠ b.cell ∧ a.Apart b :=
  fun i j a b ha hb hij _ _ => apart_of_placedBy L cfg hcfg tracks hp i j a b ha hb hij

theorem std_nonneg : Cfg.std.NonNeg := by unfold Cfg.NonNeg Cfg.std; decide

/- ---------------------------------------------------------------- non-vacuity: a real exported layout -/
/-- `T`: in a, b; out r;  add(a, q) -> t;  reg(t) -> q;  and(q, b) -> r     (feedback through a register, fan-out 2,
    two long forward edges) — netlist exported from the real py4hw object -/
def exD : Design :=
  { insts := [⟨[0, 3], [4]⟩, ⟨[4], [3]⟩, ⟨[3, 1], [2]⟩],
    inp := [0, 1], outp := [2] }

/-- objs / symbol_matrix / nets of `Schematic(T)` on the pinned tree, as exported by harness/c18.py -/
def exL : Layout :=
  { syms := #[
      ⟨.inPort 0, some (0, 0), 0, 15, 15, 20, [], [some (15, 28)]⟩,
      ⟨.inPort 1, some (2, 0), 0, 123, 15, 20, [], [some (15, 136)]⟩,
      ⟨.inst 0, some (0, 2), 195, 15, 50, 58, [some (203, 31), some (203, 65)], [some (245, 36)]⟩,
      ⟨.inst 1, some (0, 1), 70, 15, 65, 52, [some (70, 36)], [some (135, 36)]⟩,
      ⟨.inst 2, some (2, 2), 195, 123, 50, 48, [some (200, 141), some (200, 161)], [some (245, 151)]⟩,
      ⟨.outPort 0, some (0, 3), 285, 15, 15, 20, [some (285, 28)], []⟩,
      ⟨.pass, some (1, 1), 70, 88, 20, 20, [some (70, 98)], [some (90, 98)]⟩,
      ⟨.pass, some (3, 1), 70, 186, 20, 20, [some (70, 196)], [some (90, 196)]⟩,
      ⟨.fbStart, some (4, 3), 285, 221, 20, 20, [some (285, 231)], [some (305, 231)]⟩,
      ⟨.pass, some (4, 2), 195, 221, 20, 20, [some (195, 231)], [some (215, 231)]⟩,
      ⟨.pass, some (4, 1), 70, 221, 20, 20, [some (70, 231)], [some (90, 231)]⟩,
      ⟨.fbStop, some (4, 0), 0, 221, 20, 20, [some (0, 231)], [some (20, 231)]⟩
    ],
    mat := [[some 0, some 3, some 2, some 5], [none, some 6, none, none], [some 1, none, some 4, none],
            [none, some 7, none, none], [some 11, some 10, some 9, some 8]],
    nets := [
      ⟨3, 3, some 0, 2, some 1, [(135, 36), (150, 36), (150, 65), (203, 65)]⟩,
      ⟨3, 3, some 0, 4, some 0, [(135, 36), (150, 36), (150, 141), (200, 141)]⟩,
      ⟨2, 4, some 0, 5, some 0, [(245, 151), (270, 151), (270, 28), (285, 28)]⟩,
      ⟨0, 0, some 0, 6, none, [(15, 28), (45, 28), (45, 98), (70, 98)]⟩,
      ⟨0, 6, none, 2, some 0, [(90, 98), (170, 98), (170, 31), (203, 31)]⟩,
      ⟨1, 1, some 0, 7, none, [(15, 136), (55, 136), (55, 196), (70, 196)]⟩,
      ⟨1, 7, none, 4, some 1, [(90, 196), (180, 196), (180, 161), (200, 161)]⟩,
      ⟨4, 2, some 0, 8, none, [(245, 36), (260, 36), (260, 231)]⟩,
      ⟨4, 9, none, 8, none, [(215, 231), (260, 231), (260, 231)]⟩,
      ⟨4, 10, none, 9, none, [(90, 231), (160, 231), (160, 231), (195, 231)]⟩,
      ⟨4, 11, none, 10, none, [(35, 231), (35, 231), (70, 231)]⟩,
      ⟨4, 11, none, 3, some 0, [(35, 231), (35, 36), (70, 36)]⟩
    ] }

theorem ex_check_ok : check exD exL = [] := by decide +kernel

/-- the hypotheses of `checker_sound` are satisfiable on a non-trivial real layout: `Holds` is inhabited -/
theorem ex_holds : Holds exD exL := checker_sound exD exL ex_check_ok

theorem ex_wellDriven : exD.WellDriven := (wellDrivenB_iff exD).1 (by decide +kernel)

/-- the placement model reproduces the real coordinates of that layout (tracks 3,4,2,0 as exported) -/
example : placeWith Cfg.std [3, 4, 2, 0] exL.sizes = ([0, 70, 195, 285], [15, 88, 123, 186, 221]) := by decide +kernel

/- the checker rejects layouts that do not show the circuit (each is `exL` with one thing changed) -/
/-- the Reg symbol is dropped from objs/matrix: "exactly one symbol per child" fails -/
theorem ex_missing_symbol_rejected :
    Err.symCount (.inst 1) ∈ check exD { exL with syms := exL.syms.set! 3 ⟨.pass, some (0, 1), 70, 15, 65, 52, [some (70, 36)], [some (135, 36)]⟩ } := by
  decide +kernel

/-- the net that should end on and.b is attached to and.a instead: reader untouched -/
theorem ex_wrong_pin_rejected :
    Err.wire 1 .readerUntouched ∈ check exD { exL with nets := exL.nets.set 6 ⟨1, 7, none, 4, some 0, [(90, 196), (180, 196), (180, 161), (200, 161)]⟩ } := by
  decide +kernel

/-- the And symbol is moved onto the Add symbol's pixels -/
theorem ex_overlap_rejected :
    Err.overlap 2 4 ∈ check exD { exL with syms := exL.syms.set! 4 ⟨.inst 2, some (2, 2), 195, 30, 50, 48, [some (200, 141), some (200, 161)], [some (245, 151)]⟩ } := by
  decide +kernel

/-- one link of the feedback chain of wire t is removed: the nets of t fall apart -/
theorem ex_broken_chain_rejected :
    Err.wire 4 .logDisconnected ∈ check exD { exL with nets := exL.nets.eraseIdx 9 } ∧
    Err.wire 4 .geoDisconnected ∈ check exD { exL with nets := exL.nets.eraseIdx 9 } := by
  decide +kernel

/-- the net reg.q -> add.b is drawn straight through the pin add.a (a pin of wire a) -/
theorem ex_foreign_pin_rejected :
    Err.wire 3 .foreignPin ∈ check exD { exL with nets := exL.nets.set 0 ⟨3, 3, some 0, 2, some 1, [(135, 36), (203, 36), (203, 31), (203, 65)]⟩ } := by
  decide +kernel

end C18
