import Py4hwV.Proofs.C18Complete
import Py4hwV.Proofs.C18Place
import Py4hwV.Proofs.C18Column
import Py4hwV.Proofs.C18Track
import Py4hwV.Proofs.C18Pass
import Py4hwV.Proofs.C18PinsLayout
import Py4hwV.Proofs.C18PinsRoute
/-
  C18 — A schematic shows the circuit that exists: every block once, wired as built.

  Statement (given): placing and routing the schematic of any structural block whose internal wires are all driven
  terminates and yields exactly one symbol for each child instance and each port of that block, no two instance or
  port symbols overlapping.  For every wire used inside the block, the nets drawn for it (together with their
  pass-through and feedback markers) form one connected figure that touches the pin that really drives the wire (an
  instance output or a block input port) and every instance input pin or block output port that really reads it,
  and no pin of any other wire.

  Level: TRANSLATION VALIDATION.  The 2 000-line heuristic place-and-route is not modelled.  What is proved, once,
  for ALL designs and ALL layouts (no bound on instances, ports, wires, symbols, nets, coordinates):

    * `Schem.Holds d L` (Schem/Spec.lean) is the formal statement "layout L shows design d": clause 1 (`once`,
      `no_other`, `placed`, `cells`), clause 2 (`apart`), clause 3 per wire (`WireOK`: logical attachment `ends` /
      `driver` / `readers` / `connected`, and what is actually drawn `routed` / `ortho` / `drawn` / `foreign`).
    * `checker_sound` / `checker_complete`: the executable checker `Schem.check` (run by Drv/C18.lean on the exported
      objs / nets / symbol_matrix of every explored design) returns [] EXACTLY when `Holds` holds.
    * `placement_apart` / `holds_apart_of_placement`: the hand model of `replaceAsColRow` (Schem/Place.lean, tied per
      run by the `place-model` stream) never lets two cells overlap, for all matrices, sizes, track counts and margins ≥ 0.

  NOT proved (stated here in full, carried per run by validation only):
      ∀ structural block d with d.WellDriven,  Schematic(d).placeAndRoute terminates with a layout L and Holds d L.
  It is FALSE on the pinned tree for three classes of designs (notes/C18.md: a third input on an Add/Sub/Mul symbol,
  one wire on two inputs of one instance several columns away, an instance reading its own output); the harness
  re-derives a witness of each on the real code at every run.
-/
namespace C18
open Schem Schem.Place

/- ---------------------------------------------------------------- the validator is exact -/
/-- an accepted layout shows the design: every clause of C18 holds for it -/
theorem checker_sound (d : Design) (L : Layout) (h : check d L = []) : Holds d L := Schem.checker_sound d L h

/-- every error the checker reports is real -/
theorem checker_complete (d : Design) (L : Layout) (h : Holds d L) : check d L = [] := Schem.checker_complete d L h

theorem check_iff_holds (d : Design) (L : Layout) : check d L = [] ↔ Holds d L := Schem.check_iff_holds d L

/-- the breadth-first connectivity test decides connectedness (reflexive-symmetric-transitive closure inside the family) -/
theorem connectedB_sound {α : Type} [DecidableEq α] (adj : α → α → Bool) (xs : List α) (h : connectedB adj xs = true) :
    Connected adj xs := Schem.connectedB_sound adj xs h

theorem connectedB_complete {α : Type} [DecidableEq α] (adj : α → α → Bool) (xs : List α) (h : Connected adj xs) :
    connectedB adj xs = true := Schem.connectedB_complete adj xs h

/-- the enumeration of pins misses no pin that exists -/
theorem mem_pins (d : Design) (p : Pin) (w : Nat) (h : d.wireOf p = some w) : p ∈ d.pins := Schem.mem_pins d p w h

theorem mem_usedList (d : Design) (w : Nat) : w ∈ d.usedList ↔ d.Used w := Schem.mem_usedList d w

theorem map_range_nodup {β : Type} (f : Nat → β) (inj : ∀ a b, f a = f b → a = b) (n : Nat) : ((List.range n).map f).Nodup :=
  List.Pairwise.map f (fun a b (h : a ≠ b) e => h (inj a b e)) List.nodup_range

/-- the enumeration of pins lists no pin twice -/
theorem pins_nodup (d : Design) : d.pins.Nodup := by
  unfold Design.pins
  refine List.nodup_append.2 ⟨List.nodup_append.2 ⟨?_, ?_, ?_⟩, ?_, ?_⟩
  · -- the per-instance pin lists
    show List.Pairwise (· ≠ ·) _
    rw [List.pairwise_flatMap]
    refine ⟨?_, ?_⟩
    · intro i _
      cases d.insts[i]? with
      | none => simp
      | some inst =>
        simp only
        show List.Nodup _
        refine List.nodup_append.2 ⟨?_, ?_, ?_⟩
        · exact map_range_nodup _ (fun a b e => by injection e) _
        · exact map_range_nodup _ (fun a b e => by injection e) _
        · intro a ha b hb
          obtain ⟨_, _, rfl⟩ := List.mem_map.1 ha
          obtain ⟨_, _, rfl⟩ := List.mem_map.1 hb
          intro e; cases e
    · apply List.Pairwise.imp _ (List.nodup_range (n := d.insts.length))
      intro i j hij a ha b hb
      cases hi : d.insts[i]? with
      | none => simp [hi] at ha
      | some ii =>
        cases hj : d.insts[j]? with
        | none => simp [hj] at hb
        | some jj =>
          simp only [hi, hj, List.mem_append, List.mem_map, List.mem_range] at ha hb
          rcases ha with ⟨_, _, rfl⟩ | ⟨_, _, rfl⟩ <;> rcases hb with ⟨_, _, rfl⟩ | ⟨_, _, rfl⟩ <;>
            (intro e; cases e <;> exact hij rfl)
  · exact map_range_nodup _ (fun a b e => by injection e) _
  · intro a ha b hb
    obtain ⟨i, _, hai⟩ := List.mem_flatMap.1 ha
    obtain ⟨_, _, rfl⟩ := List.mem_map.1 hb
    cases hi : d.insts[i]? with
    | none => simp [hi] at hai
    | some ii =>
      simp only [hi, List.mem_append, List.mem_map] at hai
      rcases hai with ⟨_, _, rfl⟩ | ⟨_, _, rfl⟩ <;> (intro e; cases e)
  · exact map_range_nodup _ (fun a b e => by injection e) _
  · intro a ha b hb
    obtain ⟨_, _, rfl⟩ := List.mem_map.1 hb
    rcases List.mem_append.1 ha with ha | ha
    · obtain ⟨i, _, hai⟩ := List.mem_flatMap.1 ha
      cases hi : d.insts[i]? with
      | none => simp [hi] at hai
      | some ii =>
        simp only [hi, List.mem_append, List.mem_map] at hai
        rcases hai with ⟨_, _, rfl⟩ | ⟨_, _, rfl⟩ <;> (intro e; cases e)
    · obtain ⟨_, _, rfl⟩ := List.mem_map.1 ha
      intro e; cases e

/-- the executable premise is the property's premise: every used wire has exactly one driving pin -/
theorem wellDrivenB_iff (d : Design) : d.wellDrivenB = true ↔ d.WellDriven := by
  unfold Design.wellDrivenB Design.WellDriven
  rw [List.all_eq_true]
  constructor
  · intro h w hw
    have h1 := h w ((Schem.mem_usedList d w).2 hw)
    simp only [beq_iff_eq] at h1
    obtain ⟨p, hp⟩ := List.length_eq_one_iff.1 h1
    have hpm : p ∈ d.drivers w := by rw [hp]; simp
    have hp' := (mem_drivers d w p).1 hpm
    refine ⟨p, hp'.1, hp'.2, ?_⟩
    intro q hq hqw
    have : q ∈ d.drivers w := (mem_drivers d w q).2 ⟨hq, hqw⟩
    rw [hp] at this
    simpa using this
  · intro h w hw
    obtain ⟨p, hp1, hp2, hu⟩ := h w ((Schem.mem_usedList d w).1 hw)
    simp only [beq_iff_eq]
    -- drivers w is a duplicate-free sublist of pins whose every member equals p
    have hall : ∀ q ∈ d.drivers w, q = p := fun q hq => hu q ((mem_drivers d w q).1 hq).1 ((mem_drivers d w q).1 hq).2
    have hmem : p ∈ d.drivers w := (mem_drivers d w p).2 ⟨hp1, hp2⟩
    have hnd : (d.drivers w).Nodup := List.Nodup.sublist List.filter_sublist (pins_nodup d)
    cases hd : d.drivers w with
    | nil => rw [hd] at hmem; simp at hmem
    | cons a rest =>
      cases rest with
      | nil => rfl
      | cons b rest' =>
        rw [hd] at hall hnd
        have ea := hall a (by simp)
        have eb := hall b (by simp)
        rw [ea, eb] at hnd
        simp at hnd

/-- `Seg.touch` is exactly "the two segments have a common point" (for axis-parallel segments the bounding box is the segment) -/
theorem touch_iff_common_point (a b : Seg) : a.touch b = true ↔ ∃ p : Pt, a.on p = true ∧ b.on p = true := by
  constructor
  · intro h
    refine ⟨(max (min a.1.1 a.2.1) (min b.1.1 b.2.1), max (min a.1.2 a.2.2) (min b.1.2 b.2.2)), ?_, ?_⟩ <;>
    · simp only [Seg.touch, Seg.on, Bool.and_eq_true, decide_eq_true_eq] at h ⊢
      omega
  · rintro ⟨p, h1, h2⟩
    simp only [Seg.touch, Seg.on, Bool.and_eq_true, decide_eq_true_eq] at h1 h2 ⊢
    omega

/-- a point is on a vertical segment iff it has its x and a y between the ends (and likewise for horizontal ones) -/
theorem on_vertical (s : Seg) (p : Pt) (h : s.1.1 = s.2.1) :
    s.on p = true ↔ p.1 = s.1.1 ∧ min s.1.2 s.2.2 ≤ p.2 ∧ p.2 ≤ max s.1.2 s.2.2 := by
  simp only [Seg.on, Bool.and_eq_true, decide_eq_true_eq]
  omega

theorem on_horizontal (s : Seg) (p : Pt) (h : s.1.2 = s.2.2) :
    s.on p = true ↔ p.2 = s.1.2 ∧ min s.1.1 s.2.1 ≤ p.1 ∧ p.1 ≤ max s.1.1 s.2.1 := by
  simp only [Seg.on, Bool.and_eq_true, decide_eq_true_eq]
  omega

/-- `Sym.Apart` is exactly "no pixel belongs to both boxes" (boxes of positive size) -/
theorem apart_iff_no_common_pixel (a b : Sym) (ha : 0 < a.w ∧ 0 < a.h) (hb : 0 < b.w ∧ 0 < b.h) :
    a.Apart b ↔ ¬ ∃ p : Pt, (a.x ≤ p.1 ∧ p.1 < a.x + a.w ∧ a.y ≤ p.2 ∧ p.2 < a.y + a.h) ∧
                            (b.x ≤ p.1 ∧ p.1 < b.x + b.w ∧ b.y ≤ p.2 ∧ p.2 < b.y + b.h) := by
  unfold Sym.Apart
  constructor
  · rintro h ⟨p, h1, h2⟩
    omega
  · intro h
    apply Classical.byContradiction
    intro hn
    apply h
    refine ⟨(max a.x b.x, max a.y b.y), ?_, ?_⟩ <;> (simp only; omega)

/- ---------------------------------------------------------------- the drawn figure really passes through the pins -/
theorem head_on_segs (path : List Pt) (pt : Pt) (hl : 2 ≤ path.length) (hh : path.head? = some pt) :
    ∃ s ∈ segsOfPath path, s.on pt = true := by
  match path, hl, hh with
  | a :: b :: rest, _, hh =>
    simp only [List.head?_cons, Option.some.injEq] at hh
    subst hh
    refine ⟨(a, b), by simp [segsOfPath], ?_⟩
    simp only [Seg.on, Bool.and_eq_true, decide_eq_true_eq]
    omega

theorem last_on_segs (path : List Pt) (pt : Pt) (hl : 2 ≤ path.length) (hh : path.getLast? = some pt) :
    ∃ s ∈ segsOfPath path, s.on pt = true := by
  induction path with
  | nil => simp at hl
  | cons a rest ih =>
    match rest, hl, hh, ih with
    | [b], _, hh, _ =>
      simp at hh
      subst hh
      refine ⟨(a, b), by simp [segsOfPath], ?_⟩
      simp only [Seg.on, Bool.and_eq_true, decide_eq_true_eq]
      omega
    | b :: c :: rest', _, hh, ih =>
      have : (b :: c :: rest').getLast? = some pt := by simpa [List.getLast?_cons_cons] using hh
      obtain ⟨s, hs, hon⟩ := ih (by simp) this
      exact ⟨s, by simp only [segsOfPath, List.mem_cons]; exact Or.inr (by simpa [segsOfPath] using hs), hon⟩

/-- in an accepted layout the figure drawn for w really passes over every pin that reads w, and over the pin that
    drives it (whenever somebody reads it) -/
theorem holds_pin_on_figure (d : Design) (L : Layout) (h : Holds d L) (w : Nat) (p : Pin) (hw : d.wireOf p = some w)
    (hr : ∃ q, q.isDriver = false ∧ d.wireOf q = some w) :
    ∃ pt, L.pinPos p = some pt ∧ ∃ s ∈ L.figure w, s.on pt = true := by
  have hW := h.wires w ⟨p, hw⟩
  have key : ∀ n ∈ L.netsOf w, ∀ s ∈ segsOfPath n.path, s ∈ L.figure w := by
    intro n hn s hs
    unfold Layout.figure
    exact List.mem_flatMap.2 ⟨n, hn, by simp [hs]⟩
  cases hd : p.isDriver with
  | true =>
    obtain ⟨n, hn, _, pt, hpt, hhead⟩ := hW.driver p hd hw hr
    obtain ⟨s, hs, hon⟩ := head_on_segs n.path pt (hW.routed n hn) hhead
    exact ⟨pt, hpt, s, key n hn s hs, hon⟩
  | false =>
    obtain ⟨n, hn, _, pt, hpt, hlast⟩ := hW.readers p hd hw
    obtain ⟨s, hs, hon⟩ := last_on_segs n.path pt (hW.routed n hn) hlast
    exact ⟨pt, hpt, s, key n hn s hs, hon⟩

/- ---------------------------------------------------------------- replaceAsColRow -/
theorem xAt_mono (cfg : Cfg) (h : cfg.NonNeg) (tracks : List Nat) (m : List (List Cell)) (c c' : Nat) (hc : c < c') :
    xAt cfg tracks m c + colW m c ≤ xAt cfg tracks m c' := Schem.Place.xAt_mono cfg h tracks m c c' hc

theorem yAt_mono (cfg : Cfg) (h : cfg.NonNeg) (m : List (List Cell)) (r r' : Nat) (hr : r < r') :
    yAt cfg m r + rowH ((m[r]?).getD []) ≤ yAt cfg m r' := Schem.Place.yAt_mono cfg h m r r' hr

/-- replaceAsColRow gives disjoint boxes to different cells — all matrices, all sizes, all track counts, all margins ≥ 0 -/
theorem placement_apart (cfg : Cfg) (h : cfg.NonNeg) (tracks : List Nat) (m : List (List Cell))
    (r c r' c' : Nat) (row row' : List Cell) (w h1 w' h1' : Int)
    (hr : m[r]? = some row) (hc : row[c]? = some (some (w, h1)))
    (hr' : m[r']? = some row') (hc' : row'[c']? = some (some (w', h1')))
    (hne : (r, c) ≠ (r', c')) :
    xAt cfg tracks m c + w ≤ xAt cfg tracks m c' ∨ xAt cfg tracks m c' + w' ≤ xAt cfg tracks m c ∨
    yAt cfg m r + h1 ≤ yAt cfg m r' ∨ yAt cfg m r' + h1' ≤ yAt cfg m r :=
  Schem.Place.placement_apart cfg h tracks m r c r' c' row row' w h1 w' h1' hr hc hr' hc' hne

/-- clause 2 of `Holds` for EVERY layout whose coordinates are the ones replaceAsColRow computes from its symbol_matrix -/
theorem holds_apart_of_placement (L : Layout) (cfg : Cfg) (hcfg : cfg.NonNeg) (tracks : List Nat) (hp : L.PlacedBy cfg tracks) :
    ∀ (i j : Nat) (a b : Sym), L.syms[i]? = some a → L.syms[j]? = some b → i ≠ j → a.kind.isReal = true → b.kind.isReal = true →
      a.cell ≠ b.cell ∧ a.Apart b :=
  fun i j a b ha hb hij _ _ => apart_of_placedBy L cfg hcfg tracks hp i j a b ha hb hij

theorem std_nonneg : Cfg.std.NonNeg := by unfold Cfg.NonNeg Cfg.std; decide

/- ---------------------------------------------------------------- non-vacuity: a real exported layout -/
/-- `T`: in a, b; out r;  add(a, q) -> t;  reg(t) -> q;  and(q, b) -> r     (feedback through a register, fan-out 2,
    two long forward edges) — netlist exported from the real py4hw object -/
def exD : Design :=
  { insts := [⟨[0, 3], [4]⟩, ⟨[4], [3]⟩, ⟨[3, 1], [2]⟩],
    inp := [0, 1], outp := [2] }

/-- objs / symbol_matrix / nets of `Schematic(T)` on the pinned tree, as exported by harness/c18.py -/
def exL : Layout :=
  { syms := #[
      ⟨.inPort 0, some (0, 0), 0, 15, 15, 20, [], [some (15, 28)]⟩,
      ⟨.inPort 1, some (2, 0), 0, 123, 15, 20, [], [some (15, 136)]⟩,
      ⟨.inst 0, some (0, 2), 195, 15, 50, 58, [some (203, 31), some (203, 65)], [some (245, 36)]⟩,
      ⟨.inst 1, some (0, 1), 70, 15, 65, 52, [some (70, 36)], [some (135, 36)]⟩,
      ⟨.inst 2, some (2, 2), 195, 123, 50, 48, [some (200, 141), some (200, 161)], [some (245, 151)]⟩,
      ⟨.outPort 0, some (0, 3), 285, 15, 15, 20, [some (285, 28)], []⟩,
      ⟨.pass, some (1, 1), 70, 88, 20, 20, [some (70, 98)], [some (90, 98)]⟩,
      ⟨.pass, some (3, 1), 70, 186, 20, 20, [some (70, 196)], [some (90, 196)]⟩,
      ⟨.fbStart, some (4, 3), 285, 221, 20, 20, [some (285, 231)], [some (305, 231)]⟩,
      ⟨.pass, some (4, 2), 195, 221, 20, 20, [some (195, 231)], [some (215, 231)]⟩,
      ⟨.pass, some (4, 1), 70, 221, 20, 20, [some (70, 231)], [some (90, 231)]⟩,
      ⟨.fbStop, some (4, 0), 0, 221, 20, 20, [some (0, 231)], [some (20, 231)]⟩
    ],
    mat := [[some 0, some 3, some 2, some 5], [none, some 6, none, none], [some 1, none, some 4, none],
            [none, some 7, none, none], [some 11, some 10, some 9, some 8]],
    nets := [
      ⟨3, 3, some 0, 2, some 1, [(135, 36), (150, 36), (150, 65), (203, 65)]⟩,
      ⟨3, 3, some 0, 4, some 0, [(135, 36), (150, 36), (150, 141), (200, 141)]⟩,
      ⟨2, 4, some 0, 5, some 0, [(245, 151), (270, 151), (270, 28), (285, 28)]⟩,
      ⟨0, 0, some 0, 6, none, [(15, 28), (45, 28), (45, 98), (70, 98)]⟩,
      ⟨0, 6, none, 2, some 0, [(90, 98), (170, 98), (170, 31), (203, 31)]⟩,
      ⟨1, 1, some 0, 7, none, [(15, 136), (55, 136), (55, 196), (70, 196)]⟩,
      ⟨1, 7, none, 4, some 1, [(90, 196), (180, 196), (180, 161), (200, 161)]⟩,
      ⟨4, 2, some 0, 8, none, [(245, 36), (260, 36), (260, 231)]⟩,
      ⟨4, 9, none, 8, none, [(215, 231), (260, 231), (260, 231)]⟩,
      ⟨4, 10, none, 9, none, [(90, 231), (160, 231), (160, 231), (195, 231)]⟩,
      ⟨4, 11, none, 10, none, [(35, 231), (35, 231), (70, 231)]⟩,
      ⟨4, 11, none, 3, some 0, [(35, 231), (35, 36), (70, 36)]⟩
    ] }

theorem ex_check_ok : check exD exL = [] := by decide +kernel

/-- the hypotheses of `checker_sound` are satisfiable on a non-trivial real layout: `Holds` is inhabited -/
theorem ex_holds : Holds exD exL := checker_sound exD exL ex_check_ok

theorem ex_wellDriven : exD.WellDriven := (wellDrivenB_iff exD).1 (by decide +kernel)

/-- the placement model reproduces the real coordinates of that layout (tracks 3,4,2,0 as exported) -/
example : placeWith Cfg.std [3, 4, 2, 0] exL.sizes = ([0, 70, 195, 285], [15, 88, 123, 186, 221]) := by decide +kernel

/- the checker rejects layouts that do not show the circuit (each is `exL` with one thing changed) -/
/-- the Reg symbol is dropped from objs/matrix: "exactly one symbol per child" fails -/
theorem ex_missing_symbol_rejected :
    Err.symCount (.inst 1) ∈ check exD { exL with syms := exL.syms.set! 3 ⟨.pass, some (0, 1), 70, 15, 65, 52, [some (70, 36)], [some (135, 36)]⟩ } := by
  decide +kernel

/-- the net that should end on and.b is attached to and.a instead: reader untouched -/
theorem ex_wrong_pin_rejected :
    Err.wire 1 .readerUntouched ∈ check exD { exL with nets := exL.nets.set 6 ⟨1, 7, none, 4, some 0, [(90, 196), (180, 196), (180, 161), (200, 161)]⟩ } := by
  decide +kernel

/-- the And symbol is moved onto the Add symbol's pixels -/
theorem ex_overlap_rejected :
    Err.overlap 2 4 ∈ check exD { exL with syms := exL.syms.set! 4 ⟨.inst 2, some (2, 2), 195, 30, 50, 48, [some (200, 141), some (200, 161)], [some (245, 151)]⟩ } := by
  decide +kernel

/-- one link of the feedback chain of wire t is removed: the nets of t fall apart -/
theorem ex_broken_chain_rejected :
    Err.wire 4 .logDisconnected ∈ check exD { exL with nets := exL.nets.eraseIdx 9 } ∧
    Err.wire 4 .geoDisconnected ∈ check exD { exL with nets := exL.nets.eraseIdx 9 } := by
  decide +kernel

/-- the net reg.q -> add.b is drawn straight through the pin add.a (a pin of wire a) -/
theorem ex_foreign_pin_rejected :
    Err.wire 3 .foreignPin ∈ check exD { exL with nets := exL.nets.set 0 ⟨3, 3, some 0, 2, some 1, [(135, 36), (203, 36), (203, 31), (203, 65)]⟩ } := by
  decide +kernel


/- ================================================================================================
   PART 2 — the passes of placeAndRoute that are now MODELLED (hand models tied per run by exact comparison with the real
   intermediate structures) and what is PROVED about them, for all netlists.
   Modelled: columnAssignment (Schem/Column), createNets + passthroughCreation/insertPassthrough/insertFeedback (Schem/Pass),
   replaceAsColRow (Schem/Place), trackAssignment + routeNetSquare (Schem/Track).
   The domain of the theorems about passthroughCreation is delimited by its three exceptions = the known findings:
   `Err.multiple` (C18-duplicate-sink-abort), `Err.assertSinkcol` (C18-self-loop in column 1); a self loop in a later column
   gives a chain that is not column-adjacent (C18-self-loop), excluded by `sc ≠ tc` below.
   ================================================================================================ -/
open Schem.Column

/- ---------------------------------------------------------------- columnAssignment -/
/-- every child gets a level ≥ 1: column 0 belongs to the input ports alone -/
theorem level_pos (d : Design) (j : Nat) (hj : j < d.insts.length) : levels d j = some (levelOf d j) ∧ 1 ≤ levelOf d j :=
  Schem.Column.level_pos d j hj

/-- the depth-first levelling, for EVERY netlist: a child that reads another child is strictly to its right — or strictly
    to its left, and then the edge closes a cycle (the driver depends on the reader).  Never in the same level. -/
theorem level_edge (d : Design) (j k : Nat) (hr : Reads d j k) (hne : k ≠ j) :
    levelOf d k < levelOf d j ∨ (levelOf d j < levelOf d k ∧ Dep d k j) := Schem.Column.level_edge d j k hr hne

theorem acyclic_forward (d : Design) (hac : ∀ j k, Reads d j k → k ≠ j → ¬ Dep d k j) (j k : Nat) (hr : Reads d j k) (hne : k ≠ j) :
    levelOf d k < levelOf d j := Schem.Column.acyclic_forward d hac j k hr hne

theorem colOf_mono (d : Design) (j k : Nat) (hj : j < d.insts.length) (h : levelOf d j < levelOf d k) : colOf d j < colOf d k :=
  Schem.Column.colOf_mono d j k hj h

/-- a net between two different children that does not close a cycle runs from a column to a strictly greater one -/
theorem forward_net_goes_right (d : Design) (j k : Nat) (hr : Reads d j k) (hne : k ≠ j) (hnc : ¬ Dep d k j) :
    colOf d k < colOf d j := by
  rcases Schem.Column.level_edge d j k hr hne with h | ⟨_, h⟩
  · exact Schem.Column.colOf_mono d k j (reads_lt d j k hr).2 h
  · exact absurd h hnc

/-- no net joins two different children of the same column; one that runs right-to-left is on a cycle
    (this is what rules out `sourcecol == sinkcol` in insertFeedback for anything but a self loop) -/
theorem net_never_same_column (d : Design) (j k : Nat) (hr : Reads d j k) (hne : k ≠ j) :
    colOf d k ≠ colOf d j ∧ (colOf d j < colOf d k → Dep d k j) := by
  obtain ⟨hj, hk⟩ := reads_lt d j k hr
  rcases Schem.Column.level_edge d j k hr hne with h | ⟨h, hd⟩
  · have := Schem.Column.colOf_mono d k j hk h
    exact ⟨by omega, fun h' => by omega⟩
  · have := Schem.Column.colOf_mono d j k hj h
    exact ⟨by omega, fun _ => hd⟩

/-- column 0 is reserved for the inputs even when there are none; children start in column 1 -/
theorem groups_col0 (d : Design) : (groups d)[0]? = some (List.range d.inp.length) := Schem.Column.groups_col0 d
theorem colOf_pos (d : Design) (j : Nat) : 1 ≤ colOf d j := Schem.Column.colOf_pos d j

/-- the matrix column of a child holds exactly the children of its level, in instance order -/
theorem groups_child (d : Design) (j : Nat) (hj : j < d.insts.length) :
    (groups d)[colOf d j]? = some ((levelGroup d (levelOf d j)).map (· + d.inp.length)) := Schem.Column.groups_child d j hj

/-- every child gets exactly one cell of its column … -/
theorem child_cell (d : Design) (j : Nat) (hj : j < d.insts.length) :
    ∃ r : Nat, ((groups d)[colOf d j]?).bind (·[r]?) = some (j + d.inp.length) ∧
      ∀ r' : Nat, ((groups d)[colOf d j]?).bind (·[r']?) = some (j + d.inp.length) → r' = r := Schem.Column.child_cell d j hj

/-- … and the matrix built by columnAssignment is those column groups, cell by cell -/
theorem colMatrix_cell (d : Design) (r c : Nat) (row : List (Option Nat)) (o : Option Nat)
    (hr : (colMatrix d)[r]? = some row) (hc : row[c]? = some o) : o = ((groups d)[c]?).bind (·[r]?) :=
  Schem.Column.colMatrix_cell d r c row o hr hc

/-- the one-pass computation the driver runs is the modelled matrix -/
theorem colMatrixFast_eq (d : Design) : colMatrixFast d = colMatrix d := Schem.Column.colMatrixFast_eq d

/- ---------------------------------------------------------------- trackAssignment / routeNetSquare -/
open Schem.Track

/-- every net gets a track inside the channel width reserved by replaceAsColRow -/
theorem track_lt (nets : List TNet) (i : Nat) (n : TNet) (h : nets[i]? = some n) :
    ∃ t, trackOf nets i = some t ∧ t < tracksOfColumn nets n.sc := Schem.Track.track_lt nets i n h

/-- two nets leaving the same column share a track exactly when they carry the same wire -/
theorem track_eq_iff (nets : List TNet) (i i' : Nat) (n n' : TNet) (h : nets[i]? = some n) (h' : nets[i']? = some n')
    (hc : n.sc = n'.sc) (t t' : Nat) (ht : trackOf nets i = some t) (ht' : trackOf nets i' = some t') :
    t = t' ↔ n.wire = n'.wire := Schem.Track.track_eq_iff nets i i' n n' h h' hc t t' ht ht'

theorem route_shape (cfg : Cfg) (k : RKind) (p0 pf : Pt) (srcX sw : Int) (t : Nat) :
    2 ≤ (route cfg k p0 pf srcX sw t).length ∧ ∀ s ∈ segsOfPath (route cfg k p0 pf srcX sw t), s.ortho = true :=
  Schem.Track.route_shape cfg k p0 pf srcX sw t

theorem route_head (cfg : Cfg) (k : RKind) (p0 pf : Pt) (srcX sw : Int) (t : Nat) (hk : k ≠ .stopSource) :
    (route cfg k p0 pf srcX sw t).head? = some p0 := Schem.Track.route_head cfg k p0 pf srcX sw t hk

theorem route_last (cfg : Cfg) (k : RKind) (p0 pf : Pt) (srcX sw : Int) (t : Nat) (hk : k ≠ .startSink) :
    (route cfg k p0 pf srcX sw t).getLast? = some pf := Schem.Track.route_last cfg k p0 pf srcX sw t hk

/-- the vertical run of a net leaving column c lies right of the widest symbol of column c and left of column c+1 -/
theorem mpx_in_channel (cfg : Cfg) (hcfg : cfg.NonNeg) (hts : 0 < cfg.ts) (tracks : List Nat) (m : List (List Cell)) (c t n : Nat)
    (hn : tracks[c]? = some n) (ht : t < n) :
    xAt cfg tracks m c + colW m c ≤ mpx cfg (xAt cfg tracks m c) (colW m c) t ∧
    mpx cfg (xAt cfg tracks m c) (colW m c) t < xAt cfg tracks m (c + 1) :=
  Schem.Track.mpx_in_channel cfg hcfg hts tracks m c t n hn ht

/-- different tracks, different x: vertical runs of different wires in one channel never coincide -/
theorem mpx_inj (cfg : Cfg) (hts : 0 < cfg.ts) (srcX sw : Int) (t t' : Nat) (h : mpx cfg srcX sw t = mpx cfg srcX sw t') : t = t' :=
  Schem.Track.mpx_inj cfg hts srcX sw t t' h

/- ---------------------------------------------------------------- insertPassthrough / insertFeedback, one wire -/
open Schem.Pass

theorem passWire_spec (S T sc tc : Nat) (st st' : PS) (r r' w : Nat) (hlt : sc + 1 < tc)
    (h : passWire S T sc tc (st, r) w = .ok (st', r')) :
    ∃ n, n ∈ st.nets ∧ n.wire = w ∧ n.src = S ∧ n.snk = T ∧
      st'.nets = st.nets.erase n ++ chain w S n.sp ((List.range (tc - sc - 1)).map (· + st.nobjs)) T n.tp ∧
      st'.marks = st.marks ++ List.replicate (tc - sc - 1) MK.pass ∧ st'.nb = st.nb ∧ r' = r + 1 ∧
      st'.mat.length = st.mat.length + 1 ∧
      (∀ i, i ≠ r + 1 → st'.mat[i]? = (insertRow st.mat (r + 1))[i]?) :=
  Schem.Pass.passWire_spec S T sc tc st st' r r' w hlt h

/-- the markers of a pass-through chain sit in ONE fresh row, in the consecutive columns sc+1 … tc−1: every link spans one column -/
theorem passWire_cells (S T sc tc : Nat) (st st' : PS) (r r' w : Nat) (hlt : sc + 1 < tc) (hr : r < st.mat.length)
    (hT : tc ≤ ncols st.mat) (h : passWire S T sc tc (st, r) w = .ok (st', r')) :
    ∀ i, i < tc - sc - 1 → Schem.Pass.cellAt st'.mat (r + 1) (sc + 1 + i) = some (st.nobjs + i) :=
  Schem.Pass.passWire_cells S T sc tc st st' r r' w hlt hr hT h

/-- connectivity is preserved by insertPassthrough: source and sink stay joined through fresh markers, same wire, same ports;
    every other net is kept -/
theorem passWire_connected (S T sc tc : Nat) (st st' : PS) (r r' w : Nat) (hlt : sc + 1 < tc)
    (h : passWire S T sc tc (st, r) w = .ok (st', r')) :
    ∃ n ∈ st.nets, n.wire = w ∧ n.src = S ∧ n.snk = T ∧ Via st'.nets w st.nobjs S T ∧
      (∃ a ∈ st'.nets, a.wire = w ∧ a.src = S ∧ a.sp = n.sp) ∧ (∃ b ∈ st'.nets, b.wire = w ∧ b.snk = T ∧ b.tp = n.tp) ∧
      (∀ x ∈ st.nets, x ≠ n → x ∈ st'.nets) := Schem.Pass.passWire_connected S T sc tc st st' r r' w hlt h

theorem feedWire_spec (S T sc tc : Nat) (st st' : PS) (w : Nat) (h : feedWire S T sc tc st w = .ok st') :
    0 < tc ∧ ∃ n, n ∈ st.nets ∧ n.wire = w ∧ n.src = S ∧ n.snk = T ∧
      st'.nets = st.nets.erase n ++ [{ wire := w, src := S, sp := n.sp, snk := st.nobjs, tp := none }] ++
        backLinks w st.nobjs ((List.range (sc + 1 - tc)).map (· + (st.nobjs + 1))) ++
        [{ wire := w, src := st.nobjs + 1 + (sc + 1 - tc), sp := none,
           snk := (((List.range (sc + 1 - tc)).map (· + (st.nobjs + 1))).getLast?).getD st.nobjs, tp := none },
         { wire := w, src := st.nobjs + 1 + (sc + 1 - tc), sp := none, snk := T, tp := n.tp }] ∧
      st'.marks = st.marks ++ [MK.fbStart] ++ List.replicate (sc + 1 - tc) MK.pass ++ [MK.fbStop] ∧ st'.nb = st.nb ∧
      st'.mat.length = max (st.mat.length + 1) st.mat.length ∧
      (∀ i, i ≠ st.mat.length → st'.mat[i]? = (expand st.mat (st.mat.length + 1) (sc + 2))[i]?) :=
  Schem.Pass.feedWire_spec S T sc tc st st' w h

/-- connectivity is preserved by insertFeedback -/
theorem feedWire_connected (S T sc tc : Nat) (st st' : PS) (w : Nat) (htc : tc ≤ sc)
    (h : feedWire S T sc tc st w = .ok st') :
    ∃ n ∈ st.nets, n.wire = w ∧ n.src = S ∧ n.snk = T ∧ Via st'.nets w st.nobjs S T ∧
      (∃ a ∈ st'.nets, a.wire = w ∧ a.src = S ∧ a.sp = n.sp) ∧ (∃ b ∈ st'.nets, b.wire = w ∧ b.snk = T ∧ b.tp = n.tp) ∧
      (∀ x ∈ st.nets, x ≠ n → x ∈ st'.nets) := Schem.Pass.feedWire_connected S T sc tc st st' w htc h

/-- ROUTING PRECONDITION, insertPassthrough: no placed object changes column, and every link of the new chain runs from a
    column to the NEXT one (rectangular matrix; S in column sc, T in column tc) -/
theorem passWire_adjacent (S T sc tc : Nat) (st st' : PS) (r r' w : Nat) (hlt : sc + 1 < tc) (hr : r < st.mat.length)
    (hrect : Rect st.mat) (hS : InCol st.mat S sc) (hT : InCol st.mat T tc)
    (h : passWire S T sc tc (st, r) w = .ok (st', r')) :
    (∀ k c, InCol st.mat k c → InCol st'.mat k c) ∧
    ∃ n ∈ st.nets, ∀ x ∈ chain w S n.sp ((List.range (tc - sc - 1)).map (· + st.nobjs)) T n.tp, AdjIn st'.mat x :=
  Schem.Pass.passWire_adjacent S T sc tc st st' r r' w hlt hr hrect hS hT h

/-- ROUTING PRECONDITION, insertFeedback with the sink really in column tc ≤ sc (i.e. not the self-loop case, where the code
    passes tc − 1): no placed object changes column and every net is an old one or runs from a column to the NEXT one -/
theorem feedWire_adjacent (S T sc tc : Nat) (st st' : PS) (w : Nat) (htc : tc ≤ sc)
    (hS : InCol st.mat S sc) (hT : InCol st.mat T tc) (h : feedWire S T sc tc st w = .ok st') :
    (∀ k c, InCol st.mat k c → InCol st'.mat k c) ∧ ∀ x ∈ st'.nets, x ∈ st.nets ∨ AdjIn st'.mat x :=
  Schem.Pass.feedWire_adjacent S T sc tc st st' w htc hS hT h

/-- THE WHOLE PASS (createNets + passthroughCreation, any iteration order of the sets, any netlist): when it runs through — none
    of the three exceptions that delimit the known findings — every net made by createNets is still there, or its source pin and
    sink pin are joined by nets of the same wire running through markers only, leaving the source by the same port and entering
    the sink by the same port; every other net touches a marker. -/
theorem passthroughCreation_connected (d : Design) (m0 : Mat) (so : List (Nat × List Nat)) (wo : List ((Nat × Nat) × List Nat)) (st' : PS)
    (hb : jobsBase d m0 so wo = true) (h : passthroughCreationOn d m0 so wo = .ok st') :
    ∃ nets0, createNets d = .ok nets0 ∧ st'.nb = nB d ∧
      (∀ x ∈ st'.nets, x ∈ nets0 ∨ x.marked (nB d)) ∧
      (∀ x ∈ nets0, x ∈ st'.nets ∨
        (Via (MNets st') x.wire (nB d) x.src x.snk ∧
         (∃ a ∈ MNets st', a.wire = x.wire ∧ a.src = x.src ∧ a.sp = x.sp) ∧ (∃ b ∈ MNets st', b.wire = x.wire ∧ b.snk = x.snk ∧ b.tp = x.tp))) :=
  Schem.Pass.passthroughCreationOn_connected d m0 so wo st' hb h

/- ---------------------------------------------------------------- non-vacuity on a real library block -/
/-- `ModuloCounter(mod=5, 3 bit)`: children one, zero, anyreset, muxinc, muxreset, e_add, add, reg, eq4 — exported netlist -/
def exMC : Design :=
  { insts := [⟨[], [4]⟩, ⟨[], [5]⟩, ⟨[0, 3], [6]⟩, ⟨[1, 2, 7], [8]⟩, ⟨[6, 8, 5], [9]⟩, ⟨[0, 1], [10]⟩, ⟨[2, 4], [7]⟩, ⟨[9, 10], [2]⟩, ⟨[2], [3]⟩],
    inp := [0, 1], outp := [2, 3] }

/-- symbol_matrix of the REAL Schematic(ModuloCounter) right after columnAssignment -/
def exMC_colMatrix : List (List (Option Nat)) :=
  [[some 0, some 2, some 8, some 5, some 6, some 9, some 10, some 4, some 11], [some 1, some 3, none, none, none, none, none, none, some 12], [none, some 7, none, none, none, none, none, none, none]]

/-- iteration orders of getAllInstanceSinks / Intersection recorded from that run (note 9 ↦ [11, 5, 8, 10]: a set order) -/
def exMC_sinkOrd : List (Nat × List Nat) := [(0, [7, 4]), (1, [7, 5]), (2, [8]), (3, [6]), (7, [9]), (8, [5]), (5, [6]), (6, [9]), (9, [11, 5, 8, 10]), (10, [12, 4]), (4, [6]), (11, []), (12, [])]
def exMC_wireOrd : List ((Nat × Nat) × List Nat) := [((0, 4), [0]), ((1, 5), [1]), ((3, 6), [5]), ((7, 9), [10]), ((9, 11), [2]), ((9, 5), [2]), ((9, 8), [2]), ((10, 12), [3]), ((4, 6), [6])]

/-- symbol_matrix and nets of the REAL run right after passthroughCreation (33 markers, three feedback chains) -/
def exMC_ptMatrix : List (List (Option Nat)) :=
  [[some 0, some 2, some 8, some 5, some 6, some 9, some 10, some 4, some 11], [none, none, none, none, none, none, none, some 39, none], [none, none, none, none, none, none, some 26, some 27, none], [none, some 13, some 14, some 15, some 16, some 17, some 18, none, none], [some 1, some 3, none, none, none, none, none, none, some 12], [none, none, some 21, some 22, none, none, none, none, none], [none, some 19, some 20, none, none, none, none, none, none], [none, some 7, none, none, none, none, none, none, none], [none, none, some 23, some 24, some 25, none, none, none, none], [none, none, some 32, some 31, some 30, some 29, some 28, none, none], [none, some 38, some 37, some 36, some 35, some 34, some 33, none, none], [none, none, none, some 45, some 44, some 43, some 42, some 41, some 40]]
def exMC_ptNets : List PNet :=
  [⟨3, 10, some 0, 4, some 1⟩, ⟨7, 8, some 0, 5, some 2⟩, ⟨8, 5, some 0, 6, some 1⟩, ⟨0, 0, some 0, 7, some 0⟩, ⟨1, 1, some 0, 7, some 1⟩, ⟨4, 2, some 0, 8, some 1⟩, ⟨9, 6, some 0, 9, some 0⟩, ⟨2, 9, some 0, 10, some 0⟩, ⟨0, 0, some 0, 13, none⟩, ⟨0, 13, none, 14, none⟩, ⟨0, 14, none, 15, none⟩, ⟨0, 15, none, 16, none⟩, ⟨0, 16, none, 17, none⟩, ⟨0, 17, none, 18, none⟩, ⟨0, 18, none, 4, some 0⟩, ⟨1, 1, some 0, 19, none⟩, ⟨1, 19, none, 20, none⟩, ⟨1, 20, none, 5, some 0⟩, ⟨5, 3, some 0, 21, none⟩, ⟨5, 21, none, 22, none⟩, ⟨5, 22, none, 6, some 2⟩, ⟨10, 7, some 0, 23, none⟩, ⟨10, 23, none, 24, none⟩, ⟨10, 24, none, 25, none⟩, ⟨10, 25, none, 9, some 1⟩, ⟨2, 9, some 0, 26, none⟩, ⟨2, 26, none, 27, none⟩, ⟨2, 27, none, 11, some 0⟩, ⟨2, 9, some 0, 28, none⟩, ⟨2, 29, none, 28, none⟩, ⟨2, 30, none, 29, none⟩, ⟨2, 31, none, 30, none⟩, ⟨2, 32, none, 31, none⟩, ⟨2, 32, none, 5, some 1⟩, ⟨2, 9, some 0, 33, none⟩, ⟨2, 34, none, 33, none⟩, ⟨2, 35, none, 34, none⟩, ⟨2, 36, none, 35, none⟩, ⟨2, 37, none, 36, none⟩, ⟨2, 38, none, 37, none⟩, ⟨2, 38, none, 8, some 0⟩, ⟨3, 10, some 0, 39, none⟩, ⟨3, 39, none, 12, some 0⟩, ⟨6, 4, some 0, 40, none⟩, ⟨6, 41, none, 40, none⟩, ⟨6, 42, none, 41, none⟩, ⟨6, 43, none, 42, none⟩, ⟨6, 44, none, 43, none⟩, ⟨6, 45, none, 44, none⟩, ⟨6, 45, none, 6, some 0⟩]

/-- the model of columnAssignment reproduces the real matrix of the library block -/
theorem exMC_column : colMatrix exMC = exMC_colMatrix := by decide +kernel

/-- both cases of `level_edge` occur in it: add (child 6) reads reg (child 7) — a feedback edge on the cycle
    reg → muxreset → muxinc → add → reg — and reg reads muxreset (child 4) — a forward edge -/
theorem exMC_feedback_edge : Reads exMC 6 7 ∧ levelOf exMC 6 < levelOf exMC 7 ∧ Reads exMC 7 4 ∧ levelOf exMC 4 < levelOf exMC 7 := by
  decide +kernel

theorem exMC_feedback_is_cycle : Dep exMC 7 6 := (net_never_same_column exMC 6 7 (by decide +kernel) (by decide)).2 (by decide +kernel)

/-- the models of createNets and passthroughCreation, run with the recorded set orders, reproduce the real matrix and nets -/
theorem exMC_pass :
    (match passthroughCreation exMC exMC_sinkOrd exMC_wireOrd with
     | .ok st => st.mat == exMC_ptMatrix && st.nets == exMC_ptNets && ordersOk exMC exMC_sinkOrd exMC_wireOrd
     | .error _ => false) = true := by decide +kernel

/-- the hypotheses of `passthroughCreation_connected` hold for the library block with the recorded orders -/
theorem exMC_pass_hyps : jobsBase exMC (colMatrix exMC) exMC_sinkOrd exMC_wireOrd = true ∧
    ∃ st', passthroughCreationOn exMC (colMatrix exMC) exMC_sinkOrd exMC_wireOrd = .ok st' := by
  refine ⟨by decide +kernel, ?_⟩
  have h := exMC_pass
  unfold passthroughCreation at h
  cases hc : passthroughCreationOn exMC (colMatrix exMC) exMC_sinkOrd exMC_wireOrd with
  | ok st => exact ⟨st, rfl⟩
  | error e => rw [hc] at h; cases h

/-- the hypotheses of `passWire_spec` are satisfiable: input a (object 0, column 0) → anyreset (object 4, column 7) -/
theorem exMC_passWire_ok :
    ∃ st' r', passWire 0 4 0 7 ({ nb := 13, marks := [], mat := exMC_colMatrix, nets := exMC_ptNets.take 8 ++ [⟨0, 0, some 0, 4, some 0⟩] }, 0) 0 = .ok (st', r') := by
  refine ⟨_, _, rfl⟩

/-- the hypotheses of `track_eq_iff` are satisfiable (three nets of two wires leaving column 0) -/
theorem ex_tracks : trackOf [⟨5, 0, 0, 1⟩, ⟨6, 2, 0, 1⟩, ⟨5, 0, 0, 3⟩] 0 = some 0 ∧ trackOf [⟨5, 0, 0, 1⟩, ⟨6, 2, 0, 1⟩, ⟨5, 0, 0, 3⟩] 1 = some 1 ∧
    trackOf [⟨5, 0, 0, 1⟩, ⟨6, 2, 0, 1⟩, ⟨5, 0, 0, 3⟩] 2 = some 0 := by decide +kernel

/- ================================================================================================
   PART 3 — pin geometry and sizes of the symbol classes (model Schem/Pins.lean: getPortSinkPos / getPortSourcePos / getWidth /
   getHeight of every class of schematic_symbols.py as functions of the class, the port names and the port counts; tied per run by
   the `pin-model` stream: the real methods on instantiated symbols for every class × port counts up to a bound, and every symbol
   of every explored layout), and its COMPOSITION with the placement model.
   Negative results on the unchanged code: `binop3_collision` (C18-binop-third-pin), `same_name_same_pos` (ports with a repeated name:
   outside the modelled domain `Nodup`).  HISTORY: `scope4_outside_old` / `scope4_meets_marker_old` / `exScopeOld_counterexample` are
   about the tree BEFORE /repo 0891c9c (`oldScopeHeight` = 80): the defect C18-scope-pin-below-box, found by the failed hypothesis `Tidy`,
   now repaired (`Shape.height` of a Scope = max 80 genericHeight; `pins_tidy_realizable`, `scope_pins_in_box`, `exScopeFixed_holds`).
   ================================================================================================ -/
open Schem.Pins

/-- the name lookup of the symbols finds the port it was asked for when the port names are pairwise different -/
theorem lastIdx_nodup (l : List Nat) (i : Nat) (hn : l.Nodup) (hi : i < l.length) : (l[i]?).bind (lastIdx l) = some i :=
  Schem.Pins.lastIdx_nodup l i hn hi

/-- PINS_INJECTIVE — every symbol class, every port count (names pairwise different): distinct pins of one symbol have distinct
    positions whenever the port counts are within `Fits` … -/
theorem pins_injective (s : Shape) (hi : s.ins.Nodup) (ho : s.outs.Nodup) (hf : s.Fits) : s.Injective :=
  Schem.Pins.injective_of_fits s hi ho hf

/-- … and ONLY then: `Fits` is the exact characterisation, class by class -/
theorem pins_injective_iff (s : Shape) (hi : s.ins.Nodup) (ho : s.outs.Nodup) : s.Injective ↔ s.Fits :=
  Schem.Pins.injective_iff_fits s hi ho

/-- for the port counts the library's constructors can produce (`Realizable`, checked on every symbol of every explored layout)
    exactly one case fails: the round Add/Sub/Mul symbol with a third input -/
theorem pins_injective_realizable (s : Shape) (hr : s.Realizable) (hi : s.ins.Nodup) (ho : s.outs.Nodup) :
    s.Injective ↔ ¬ (s.cls = .binop ∧ s.ins.length = 3) :=
  (Schem.Pins.injective_iff_fits s hi ho).trans (Schem.Pins.realizable_fits_iff s hr)

/-- the counterexample (listed finding C18-binop-third-pin), for EVERY such symbol: inputs 1 and 2 both at (8, 50) -/
theorem binop3_collision (s : Shape) (hc : s.cls = .binop) (hi : s.ins.Nodup) (h3 : 3 ≤ s.ins.length) :
    s.sinkPos 1 = some (8, 50) ∧ s.sinkPos 2 = some (8, 50) ∧ ¬ s.Injective := Schem.Pins.binop3_collision s hc hi h3

/-- … and the only one: on a round symbol two different pins on one pixel are both inputs other than input 0 — in particular the
    OUTPUT pins (sum, carry-out) never coincide with each other or with an input (the clause seed C18l attacks) -/
theorem binop_only_collision (s : Shape) (hc : s.cls = .binop) (hi : s.ins.Nodup) (ho : s.outs.Nodup) (p q : PinRef) (pt : Pt)
    (vp : s.valid p) (vq : s.valid q) (hp : s.pos p = some pt) (hq : s.pos q = some pt) (hne : p ≠ q) :
    ∃ a b, p = .inp a ∧ q = .inp b ∧ 1 ≤ a ∧ 1 ≤ b := Schem.Pins.binop_only_collision s hc hi ho p q pt vp vq hp hq hne

/-- outside `Nodup`: two output ports with the same name get the same pixel, in every class -/
theorem same_name_same_pos (s : Shape) (i j : Nat) (h : s.outs[i]? = s.outs[j]?) : s.srcPos i = s.srcPos j :=
  Schem.Pins.same_name_same_pos s i j h

/-- every pin lies in the closed box of its symbol (+ 3 pixels below: NotSymbol, BufSymbol) — every class, every port count in `Tidy`,
    whatever the names -/
theorem pins_in_box (s : Shape) (ht : s.Tidy) : s.InBox := Schem.Pins.inBox_of_tidy s ht

/-- since /repo 0891c9c WITHOUT exception: every shape the library can produce is `Tidy` … -/
theorem pins_tidy_realizable (s : Shape) (hr : s.Realizable) : s.Tidy := Schem.Pins.realizable_tidy s hr

/-- … so every pin of every realizable symbol lies in its box -/
theorem pins_in_box_realizable (s : Shape) (hr : s.Realizable) : s.InBox := pins_in_box s (pins_tidy_realizable s hr)

/-- the repair, for a Scope with ANY number of inputs (and any names) -/
theorem scope_pins_in_box (s : Shape) (hc : s.cls = .scope) : s.InBox := Schem.Pins.scope_inBox s hc

/-- HISTORY (before 0891c9c, height = `oldScopeHeight` = 80): the fourth pin of a Scope was 25 pixels below its box … -/
theorem scope4_outside_old (s : Shape) (hc : s.cls = .scope) (h4 : 4 ≤ s.ins.length) :
    s.sinkPos 3 = some (0, 105) ∧ s.oldHeight = 80 ∧ ¬ s.OldInBox := Schem.Pins.scope4_outside_old s hc h4

/-- … exactly on the sink pin of a pass-through marker placed by replaceAsColRow in the next row of the same column -/
theorem scope4_meets_marker_old (s m : Shape) (hs : s.cls = .scope) (h4 : 4 ≤ s.ins.length) (hm : m.cls = .pass) (x y : Int) :
    ∃ d e, s.sinkPos 3 = some d ∧ m.sinkPos 0 = some e ∧ (x + d.1, y + d.2) = (x + e.1, (y + s.oldHeight + Cfg.std.mv) + e.2) :=
  Schem.scope4_meets_marker_old s m hs h4 hm x y

theorem std_roomy : Cfg.std.Roomy := Schem.Place.std_roomy

/-- within one drawn symbol: two pins on the same pixel are the same pin -/
theorem sym_pins_injective (a : Sym) (sh : Shape) (hs : a.HasShape sh) (hinj : sh.Injective) (p q : PinRef) (pt : Pt)
    (hp : a.pinAt p = some pt) (hq : a.pinAt q = some pt) : p = q := Schem.sym_pins_injective a sh hs hinj p q pt hp hq

/-- across symbols: replaceAsColRow (margins 5 / 15) keeps the pins of two different symbols apart -/
theorem pins_apart_of_placement (L : Layout) (cfg : Cfg) (hcfg : cfg.Roomy) (tracks : List Nat) (hp : L.PlacedBy cfg tracks)
    (i j : Nat) (a b : Sym) (ha : L.syms[i]? = some a) (hb : L.syms[j]? = some b) (hij : i ≠ j)
    (hba : a.PinsInBox) (hbb : b.PinsInBox) (p q : PinRef) (pt : Pt) (h1 : a.pinAt p = some pt) (h2 : b.pinAt q = some pt) : False :=
  Schem.pins_apart_of_placedBy L cfg hcfg tracks hp i j a b ha hb hij hba hbb p q pt h1 h2

/-- COMPOSITION (placement model ∘ pin model), all layouts: coordinates from replaceAsColRow with roomy margins, boxes and pins
    from the pin model with port counts that keep pins apart and inside the box ⇒ no two different pins of the circuit share a
    pixel.  `_partial` of the full composition: it covers the END POINTS of the figures (a net that starts or ends on a pin
    touches no pin of any other wire THERE); that no segment passes over a foreign pin on its way is still validated per design. -/
theorem pinPos_injective (L : Layout) (cfg : Cfg) (hcfg : cfg.Roomy) (tracks : List Nat) (hp : L.PlacedBy cfg tracks)
    (hshape : ∀ (k : Nat) (s : Sym), L.syms[k]? = some s → ∃ sh : Shape, s.HasShape sh ∧ sh.Injective ∧ sh.InBox)
    (p q : Pin) (pt : Pt) (h1 : L.pinPos p = some pt) (h2 : L.pinPos q = some pt) : p = q :=
  Schem.pinPos_injective L cfg hcfg tracks hp hshape p q pt h1 h2

/- ---------------------------------------------------------------- non-vacuity -/
/-- an Add with carry-out (2 inputs, 2 outputs — the configuration of seed C18l) is inside `Fits`: its four pins are distinct -/
theorem ex_addco_injective : (Shape.mk .binop 0 [0, 1] [2, 3]).Injective ∧ (Shape.mk .binop 0 [0, 1] [2, 3]).Realizable ∧
    (Shape.mk .binop 0 [0, 1] [2, 3]).srcPos 0 = some (50, 21) ∧ (Shape.mk .binop 0 [0, 1] [2, 3]).srcPos 1 = some (50, 49) :=
  ⟨pins_injective _ (by decide) (by decide) (by simp [Shape.Fits]), by simp [Shape.Realizable], by decide +kernel, by decide +kernel⟩

/-- the shapes of the twelve symbols of the real layout `exL` -/
def exShapes : List Shape :=
  [⟨.inPort, 0, [], [0]⟩, ⟨.inPort, 0, [], [0]⟩, ⟨.binop, 0, [0, 1], [2]⟩, ⟨.reg, 0, [0], [1]⟩, ⟨.and_, 0, [0, 1], [2]⟩, ⟨.outPort, 0, [0], []⟩,
   ⟨.pass, 0, [0], [0]⟩, ⟨.pass, 0, [0], [0]⟩, ⟨.fbStart, 0, [0], [0]⟩, ⟨.pass, 0, [0], [0]⟩, ⟨.pass, 0, [0], [0]⟩, ⟨.fbStop, 0, [0], [0]⟩]

theorem ex_shapes_ok : (List.range 12).all (fun k => match exL.syms[k]?, exShapes[k]? with
    | some s, some sh => s.hasShapeB sh && sh.fitsB && sh.tidyB && sh.realizableB | _, _ => false) = true := by decide +kernel

theorem fitsB_sound (s : Shape) (h : s.fitsB = true) : s.Fits := by
  obtain ⟨cls, iw, ins, outs⟩ := s
  cases cls <;> simp only [Shape.fitsB, Shape.Fits, Bool.and_eq_true, Bool.or_eq_true, decide_eq_true_eq, bne_iff_ne, List.isEmpty_iff] at h ⊢ <;>
    first | exact h | trivial | exact (or_assoc.1 h)

theorem tidyB_sound (s : Shape) (h : s.tidyB = true) : s.Tidy := by
  obtain ⟨cls, iw, ins, outs⟩ := s
  cases cls <;> simp only [Shape.tidyB, Shape.Tidy, Bool.and_eq_true, decide_eq_true_eq] at h ⊢ <;> first | exact h | trivial

/-- the hypotheses of `pinPos_injective` hold for the real exported layout `exL` (tracks 3,4,2,0, constants of schematic.py) … -/
theorem ex_pinPos_hyps : exL.PlacedBy Cfg.std [3, 4, 2, 0] ∧
    ∀ (k : Nat) (s : Sym), exL.syms[k]? = some s → ∃ sh : Shape, s.HasShape sh ∧ sh.Injective ∧ sh.InBox := by
  refine ⟨Layout.placedByB_sound _ _ _ (by decide +kernel), ?_⟩
  intro k s hk
  have hlt : k < 12 := by
    apply Classical.byContradiction
    intro hn
    rw [Array.getElem?_eq_none (by show exL.syms.size ≤ k; simp [exL]; omega)] at hk
    cases hk
  have := List.all_eq_true.1 ex_shapes_ok k (List.mem_range.2 hlt)
  rw [hk] at this
  cases hsh : exShapes[k]? with
  | none => simp [hsh] at this
  | some sh =>
    simp only [hsh, Bool.and_eq_true] at this
    obtain ⟨⟨⟨h1, h2⟩, h3⟩, _⟩ := this
    have hn : sh.ins.Nodup ∧ sh.outs.Nodup := by
      have hm := List.mem_of_getElem? hsh
      simp only [exShapes, List.mem_cons, List.not_mem_nil, or_false] at hm
      rcases hm with rfl | rfl | rfl | rfl | rfl | rfl | rfl | rfl | rfl | rfl | rfl | rfl <;> exact ⟨by decide, by decide⟩
    exact ⟨sh, Sym.hasShapeB_sound s sh h1, pins_injective sh hn.1 hn.2 (fitsB_sound sh h2), pins_in_box sh (tidyB_sound sh h3)⟩

/-- … so its eleven circuit pins are on eleven different pixels -/
theorem ex_pins_distinct (p q : Pin) (pt : Pt) (h1 : exL.pinPos p = some pt) (h2 : exL.pinPos q = some pt) : p = q :=
  pinPos_injective exL Cfg.std std_roomy [3, 4, 2, 0] ex_pinPos_hyps.1 ex_pinPos_hyps.2 p q pt h1 h2

/-- HISTORY — C18-scope-pin-below-box on the tree BEFORE /repo 0891c9c: block `in0..in3; Not(in0); And2(in1, not); Scope(in0, in1, in2, in3)`,
    netlist and layout exported from that tree.  Pin 3 of the Scope (wire in3) and the sink pin of the pass-through marker of wire in1
    (row below, same column) were both at (75, 183): the figure of in1 touched a pin of in3. -/
def exScopeD : Design := { insts := [⟨[0], [5]⟩, ⟨[1, 5], [4]⟩, ⟨[0, 1, 2, 3], []⟩], inp := [0, 1, 2, 3], outp := [4] }

def exScopeLOld : Layout :=
  { syms := #[
      ⟨.inPort 0, some (0, 0), 0, 15, 15, 20, [], [some (15, 28)]⟩,
      ⟨.inPort 1, some (1, 0), 0, 78, 15, 20, [], [some (15, 91)]⟩,
      ⟨.inPort 2, some (3, 0), 0, 208, 15, 20, [], [some (15, 221)]⟩,
      ⟨.inPort 3, some (4, 0), 0, 243, 15, 20, [], [some (15, 256)]⟩,
      ⟨.inst 0, some (0, 1), 75, 15, 40, 30, [some (75, 48)], [some (115, 48)]⟩,
      ⟨.inst 1, some (0, 2), 195, 15, 50, 48, [some (200, 33), some (200, 53)], [some (245, 43)]⟩,
      ⟨.inst 2, some (1, 1), 75, 78, 80, 80, [some (75, 99), some (75, 127), some (75, 155), some (75, 183)], []⟩,
      ⟨.outPort 0, some (0, 3), 275, 15, 15, 20, [some (275, 28)], []⟩,
      ⟨.pass, some (2, 1), 75, 173, 20, 20, [some (75, 183)], [some (95, 183)]⟩
    ],
    mat := [[some 0, some 4, some 5, some 7], [some 1, some 6, none, none], [none, some 8, none, none], [some 2, none, none, none],
            [some 3, none, none, none]],
    nets := [
      ⟨0, 0, some 0, 4, some 0, [(15, 28), (30, 28), (30, 48), (75, 48)]⟩,
      ⟨5, 4, some 0, 5, some 1, [(115, 48), (170, 48), (170, 53), (200, 53)]⟩,
      ⟨0, 0, some 0, 6, some 0, [(15, 28), (30, 28), (30, 99), (75, 99)]⟩,
      ⟨1, 1, some 0, 6, some 1, [(15, 91), (40, 91), (40, 127), (75, 127)]⟩,
      ⟨2, 2, some 0, 6, some 2, [(15, 221), (50, 221), (50, 155), (75, 155)]⟩,
      ⟨3, 3, some 0, 6, some 3, [(15, 256), (60, 256), (60, 183), (75, 183)]⟩,
      ⟨4, 5, some 0, 7, some 0, [(245, 43), (260, 43), (260, 28), (275, 28)]⟩,
      ⟨1, 1, some 0, 8, none, [(15, 91), (40, 91), (40, 183), (75, 183)]⟩,
      ⟨1, 8, none, 5, some 0, [(95, 183), (180, 183), (180, 33), (200, 33)]⟩
    ] }

/-- the property was FALSE for this well-driven block on the old tree: exactly one clause failed, `foreign` for wire in1 -/
theorem exScopeOld_counterexample : exScopeD.WellDriven ∧ check exScopeD exScopeLOld = [Err.wire 1 .foreignPin] ∧ ¬ Holds exScopeD exScopeLOld := by
  have h : check exScopeD exScopeLOld = [Err.wire 1 .foreignPin] := by decide +kernel
  refine ⟨(wellDrivenB_iff exScopeD).1 (by decide +kernel), h, fun hh => ?_⟩
  rw [checker_complete _ _ hh] at h
  cases h

/-- its placement was the modelled one and its Scope had the modelled width and pins with the OLD height: the failing hypothesis of
    `pinPos_injective` was `InBox` (for the old height function) -/
theorem exScopeOld_shape : exScopeLOld.PlacedBy Cfg.std [4, 2, 1, 0] ∧
    (∀ s, exScopeLOld.syms[6]? = some s → s.w = (Shape.mk .scope 0 [0, 1, 2, 3] []).width ∧ s.h = (Shape.mk .scope 0 [0, 1, 2, 3] []).oldHeight ∧
      s.ipins = (List.range 4).map fun i => ((Shape.mk .scope 0 [0, 1, 2, 3] []).sinkPos i).map fun d => (s.x + d.1, s.y + d.2)) ∧
    ¬ (Shape.mk .scope 0 [0, 1, 2, 3] []).OldInBox :=
  ⟨Layout.placedByB_sound _ _ _ (by decide +kernel),
   fun s hs => by
     have : exScopeLOld.syms[6]? = some ⟨.inst 2, some (1, 1), 75, 78, 80, 80, [some (75, 99), some (75, 127), some (75, 155), some (75, 183)], []⟩ := rfl
     rw [this] at hs
     cases hs
     exact ⟨by decide +kernel, by decide +kernel, by decide +kernel⟩,
   (scope4_outside_old _ rfl (by decide)).2.2⟩

/-- the SAME block on the repaired tree (/repo 0891c9c), exported layout: the Scope is 136 high, the marker row starts below all its pins -/
def exScopeLFixed : Layout :=
  { syms := #[
      ⟨.inPort 0, some (0, 0), 0, 15, 15, 20, [], [some (15, 28)]⟩,
      ⟨.inPort 1, some (1, 0), 0, 78, 15, 20, [], [some (15, 91)]⟩,
      ⟨.inPort 2, some (3, 0), 0, 264, 15, 20, [], [some (15, 277)]⟩,
      ⟨.inPort 3, some (4, 0), 0, 299, 15, 20, [], [some (15, 312)]⟩,
      ⟨.inst 0, some (0, 1), 75, 15, 40, 30, [some (75, 48)], [some (115, 48)]⟩,
      ⟨.inst 1, some (0, 2), 195, 15, 50, 48, [some (200, 33), some (200, 53)], [some (245, 43)]⟩,
      ⟨.inst 2, some (1, 1), 75, 78, 80, 136, [some (75, 99), some (75, 127), some (75, 155), some (75, 183)], []⟩,
      ⟨.outPort 0, some (0, 3), 275, 15, 15, 20, [some (275, 28)], []⟩,
      ⟨.pass, some (2, 1), 75, 229, 20, 20, [some (75, 239)], [some (95, 239)]⟩
    ],
    mat := [[some 0, some 4, some 5, some 7], [some 1, some 6, none, none], [none, some 8, none, none], [some 2, none, none, none],
            [some 3, none, none, none]],
    nets := [
      ⟨0, 0, some 0, 4, some 0, [(15, 28), (30, 28), (30, 48), (75, 48)]⟩,
      ⟨5, 4, some 0, 5, some 1, [(115, 48), (170, 48), (170, 53), (200, 53)]⟩,
      ⟨0, 0, some 0, 6, some 0, [(15, 28), (30, 28), (30, 99), (75, 99)]⟩,
      ⟨1, 1, some 0, 6, some 1, [(15, 91), (40, 91), (40, 127), (75, 127)]⟩,
      ⟨2, 2, some 0, 6, some 2, [(15, 277), (50, 277), (50, 155), (75, 155)]⟩,
      ⟨3, 3, some 0, 6, some 3, [(15, 312), (60, 312), (60, 183), (75, 183)]⟩,
      ⟨4, 5, some 0, 7, some 0, [(245, 43), (260, 43), (260, 28), (275, 28)]⟩,
      ⟨1, 1, some 0, 8, none, [(15, 91), (40, 91), (40, 239), (75, 239)]⟩,
      ⟨1, 8, none, 5, some 0, [(95, 239), (180, 239), (180, 33), (200, 33)]⟩
    ] }

/-- after the repair the property holds for that block, its placement is the modelled one and its Scope has the modelled (new) box and pins -/
theorem exScopeFixed_holds : Holds exScopeD exScopeLFixed ∧ exScopeLFixed.PlacedBy Cfg.std [4, 2, 1, 0] ∧
    (∀ s, exScopeLFixed.syms[6]? = some s → s.HasShape ⟨.scope, 0, [0, 1, 2, 3], []⟩) :=
  ⟨checker_sound _ _ (by decide +kernel), Layout.placedByB_sound _ _ _ (by decide +kernel),
   fun s hs => Sym.hasShapeB_sound s _ (by
     have : exScopeLFixed.syms[6]? = some ⟨.inst 2, some (1, 1), 75, 78, 80, 136, [some (75, 99), some (75, 127), some (75, 155), some (75, 183)], []⟩ := rfl
     rw [this] at hs
     cases hs
     decide +kernel)⟩

/-- COMPOSITION of three models (placement ∘ pin geometry ∘ square router), all layouts: the vertical run of a net leaving column c on
    track t (x = `mpx`, routeNetSquare) is at the x of NO pin of any symbol — it lies strictly right of every pin of the columns ≤ c and
    strictly left of every pin of the columns > c.  Part of the clause "no pin of any other wire" for INTERIOR points of the figures
    (what remains validated per design: the two horizontal runs inside the source's and the sink's own column). -/
theorem vertical_run_misses_pins (L : Layout) (cfg : Cfg) (hcfg : cfg.NonNeg) (hns : 0 < cfg.ns) (hts : 0 < cfg.ts)
    (tracks : List Nat) (hp : L.PlacedBy cfg tracks) (c t n : Nat) (hn : tracks[c]? = some n) (ht : t < n)
    (i : Nat) (a : Sym) (ha : L.syms[i]? = some a) (hba : a.PinsInBox) (p : PinRef) (pt : Pt) (h1 : a.pinAt p = some pt) :
    pt.1 ≠ Schem.Track.mpx cfg (xAt cfg tracks L.sizes c) (colW L.sizes c) t :=
  Schem.vertical_run_misses_pins L cfg hcfg hns hts tracks hp c t n hn ht i a ha hba p pt h1

/-- non-vacuity on the real layout `exL`: the vertical run of the net reg.q → and.a (leaves column 1 on track 0: x = 70 + 65 + 15 = 150,
    as in the exported polyline) misses the pin add.b = (203, 65) of symbol 2 -/
example : (203 : Int) ≠ Schem.Track.mpx Cfg.std (xAt Cfg.std [3, 4, 2, 0] exL.sizes 1) (colW exL.sizes 1) 0 := by
  refine vertical_run_misses_pins exL Cfg.std std_nonneg (by decide) (by decide) [3, 4, 2, 0] ex_pinPos_hyps.1 1 0 4 rfl (by decide) 2 _ rfl ?_
    (.inp 1) (203, 65) rfl
  obtain ⟨sh, hs, _, hb⟩ := ex_pinPos_hyps.2 2 _ rfl
  exact fun p' pt' h => Schem.sym_pin_in_box _ sh hs hb p' pt' h

end C18
