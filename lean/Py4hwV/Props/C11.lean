import Py4hwV.Build.Model
import Py4hwV.Proofs.C11Keep
import Py4hwV.Proofs.C11Check
import Py4hwV.Proofs.C11Move
/-
  C11 — Ill-formed netlists are rejected when they are built or checked.

  Model: Py4hwV/Build/Model.lean (the construction API of py4hw/base.py as a state machine over an object graph, each
  call returning graph × outcome, mutation order of the Python kept; debug.checkIntegrity).  Universal over: graphs
  (most theorems hold for EVERY graph `g`, reachable or not), construction histories (`List Op`, every interleaving of
  wire creation, instantiation, port registration, renaming, re-parenting, interfaces, also calls that raise and are
  caught), names, ids.  Helper developments: Py4hwV/Proofs/C11*.lean.
-/
namespace C11
open Build

/-! ## 1. The call that would create the conflict raises, and nothing changes -/

/-- a second child of the same name: `Logic.__init__` raises and the graph is untouched -/
theorem dup_child_rejected (g : G) (p : Nat) (n : String) (pr : Bool) (c : Nat) (h : childOf g p n = some c) :
    step g (.newLogic (some p) n pr) = (g, .error .dupChild) := by
  simp only [step, newLogic]
  cases hp : g.objs[p]? with
  | none => simp [childOf, hp] at h
  | some po =>
    simp only [childOf, hp, Option.bind_some] at h
    simp [dhas, h]

/-- a second wire of the same name in the same parent: `Wire.__init__` raises and the graph is untouched -/
theorem dup_wire_rejected (g : G) (p : Nat) (n : String) (b : Bool) (w : Nat) (h : wireOf g p n = some w) :
    step g (.wire p n b) = (g, .error .dupWire) := by
  simp only [step, newWire, appendWire]
  cases hp : g.objs[p]? with
  | none => simp [wireOf, hp] at h
  | some po =>
    simp only [wireOf, hp, Option.bind_some] at h
    simp [dhas, h]

theorem forEach_newWire_clash (p : Nat) (l : List String) (g : G) (nm : String) (w : Nat) (hm : nm ∈ l)
    (h : wireOf g p nm = some w) : ∃ e, (forEach g l (fun g x => newWire g p x false)).2 = .error e := by
  induction l generalizing g with
  | nil => cases hm
  | cons a t ih =>
    unfold forEach
    by_cases e : a = nm
    · subst e
      have := dup_wire_rejected g p a false w h
      simp only [step] at this
      rw [this]; exact ⟨_, rfl⟩
    · have hm' : nm ∈ t := by
        rcases List.mem_cons.1 hm with h' | h'
        · exact absurd h'.symm e
        · exact h'
      have hk := newWire_keepsW g p a false p nm w (by simp) h
      rcases hfa : newWire g p a false with ⟨g1, r⟩
      rw [hfa] at hk
      cases r with
      | ok u => exact ih g1 hm' hk
      | error e' => exact ⟨e', rfl⟩

/-- the array helper `Logic.wires(name, num, width)`: if ANY element name `name_i` (i < num) is already a wire of the
    parent the call raises — whatever helper creates a wire, a name clash is rejected — and the earlier wire is still the
    one found under that name (elements with a smaller index were created before the raise, as in the Python loop;
    no existing registration changes: `source_stable`, `child_stable`, `wire_entry_stable` cover this op like any other) -/
theorem wires_clash_rejected (g : G) (p : Nat) (name : String) (num i : Nat) (w : Nat) (hi : i < num)
    (h : wireOf g p (name ++ "_" ++ toString i) = some w) :
    (∃ e, (step g (.wires p name num)).2 = .error e) ∧
    wireOf (step g (.wires p name num)).1 p (name ++ "_" ++ toString i) = some w := by
  refine ⟨?_, step_keepsW g (.wires p name num) p _ w (by simp [Op.moved]) h⟩
  simp only [step, newWires]
  apply forEach_newWire_clash p _ g (name ++ "_" ++ toString i) w _ h
  simp only [arrayNames, List.mem_map, List.mem_range]
  exact ⟨i, hi, rfl⟩

/-- a second driver on an ordinary wire (through `addOut` or `addInOut` of a primitive): raises, graph untouched,
    in particular the earlier driver is still `wire.getSource()` -/
theorem second_driver_rejected (g : G) (o : Nat) (n : String) (w : Nat) (ob : Obj) (wr : Wire) (s : Nat)
    (ho : g.objs[o]? = some ob) (hp : ob.prim = true) (hw : g.wires[w]? = some wr) (hb : wr.bidir = false)
    (hs : wr.source = some s) :
    step g (.addOut o n w) = (g, .error .dupSource) ∧ step g (.addInOut o n w) = (g, .error .dupSource) := by
  constructor
  · simp [step, addOut, ho, hw, hp, regSource, hb, hs, andThen]
  · simp [step, addInOut, ho, hw, hp, regSource, hb, hs, andThen]

/-- … and a non-primitive parent never registers, so it never conflicts (the port is recorded only) -/
theorem nonprimitive_out_accepted (g : G) (o : Nat) (n : String) (w : Nat) (ob : Obj) (wr : Wire)
    (ho : g.objs[o]? = some ob) (hp : ob.prim = false) (hw : g.wires[w]? = some wr) :
    (step g (.addOut o n w)).2 = .ok () ∧ srcOf (step g (.addOut o n w)).1 w = srcOf g w := by
  simp [step, addOut, ho, hw, hp, andThen, srcOf]

/-- (code since c407a05) renaming a wire to a name that ANOTHER wire of the same parent holds raises before anything is
    touched: the graph is unchanged — the holder stays, and so does the wire that was to be renamed -/
theorem rename_conflict_rejected (g : G) (w : Nat) (n : String) (wr : Wire) (v : Nat)
    (hw : g.wires[w]? = some wr) (hv : wireOf g wr.parent n = some v) (hne : v ≠ w) :
    step g (.rename w n) = (g, .error .dupWire) := by
  simp only [step, rename, wireParent, hw, preCheck]
  cases hp : g.objs[wr.parent]? with
  | none => simp [wireOf, hp] at hv
  | some po =>
    simp only [wireOf, hp, Option.bind_some] at hv
    simp [hv, hne, andThen]

/-- re-parenting a wire into a parent that already holds ANOTHER wire of that name: raises, graph unchanged -/
theorem reparent_conflict_rejected (g : G) (w p : Nat) (wr : Wire) (v : Nat)
    (hw : g.wires[w]? = some wr) (hv : wireOf g p wr.name = some v) (hne : v ≠ w) :
    step g (.reparent w p) = (g, .error .dupWire) := by
  simp only [step, reparent, wireName, hw, preCheck]
  cases hp : g.objs[p]? with
  | none => simp [wireOf, hp] at hv
  | some po =>
    simp only [wireOf, hp, Option.bind_some] at hv
    simp [hv, hne, andThen]

theorem reparentAndRename_conflict_rejected (g : G) (w p : Nat) (n : String) (v : Nat)
    (hv : wireOf g p n = some v) (hne : v ≠ w) :
    step g (.reparentAndRename w p n) = (g, .error .dupWire) := by
  simp only [step, reparentAndRename, preCheck]
  cases hp : g.objs[p]? with
  | none => simp [wireOf, hp] at hv
  | some po =>
    simp only [wireOf, hp, Option.bind_some] at hv
    simp [hv, hne, andThen]

/-! ## 2. The earlier driver / child / wire stays in place — after EVERY call, raised or not -/

/-- a driver, once registered, is the wire's source after any API call (`disconnectWireFromLogicObject`, the
    explicit removal, excepted) -/
theorem source_stable (g : G) (op : Op) (hd : op.isDisconnect = false) (w p : Nat) (h : srcOf g w = some p) :
    srcOf (step g op).1 w = some p := (step_keeps g op hd).src w p h

/-- a child, once registered under a name, is the child found under that name after any API call -/
theorem child_stable (g : G) (op : Op) (o : Nat) (n : String) (c : Nat) (h : childOf g o n = some c) :
    childOf (step g op).1 o n = some c := step_keeps_child g op o n c h

/-- auxiliary, EVERY graph (also inconsistent ones): a `_wires` entry is kept by any call, except possibly the key that the
    rename family deletes first: (parent, name) of the wire it is applied to -/
theorem wire_entry_stable_anygraph (g : G) (op : Op) (o : Nat) (n : String) (w : Nat)
    (hne : some (o, n) ≠ op.moved g) (h : wireOf g o n = some w) : wireOf (step g op).1 o n = some w :=
  step_keepsW g op o n w hne h

/-- a rejected rename / reparent / reparentAndRename leaves the WHOLE graph unchanged, in every history
    (this is what commit c407a05 repaired; before it the wire was dropped from `_wires`, see `renameOld_*` below) -/
theorem move_rejected_unchanged (ops : List Op) (op : Op) (hm : op.isMove = true) (e : Err)
    (hr : (step (run {} ops) op).2 = .error e) : (step (run {} ops) op).1 = run {} ops :=
  Build.move_rejected_unchanged (Shape_run ops {} Shape_empty) op hm e hr

/-- FULL STATEMENT (provable since c407a05): in every history, a REJECTED call of ANY kind — the rename family included —
    leaves every earlier driver, child and wire registration in place -/
theorem reject_keeps_earlier (ops : List Op) (op : Op) (e : Err) (hd : op.isDisconnect = false)
    (hr : (step (run {} ops) op).2 = .error e) :
    (∀ w p, srcOf (run {} ops) w = some p → srcOf (step (run {} ops) op).1 w = some p) ∧
    (∀ o n c, childOf (run {} ops) o n = some c → childOf (step (run {} ops) op).1 o n = some c) ∧
    (∀ o n w, wireOf (run {} ops) o n = some w → wireOf (step (run {} ops) op).1 o n = some w) := by
  refine ⟨(step_keeps _ op hd).src, (step_keeps _ op hd).child, ?_⟩
  intro o n w h
  by_cases hm : op.isMove = true
  · rw [move_rejected_unchanged ops op hm e hr]; exact h
  · have hnone : op.moved (run {} ops) = none := by
      cases op <;> simp [Op.isMove] at hm <;> rfl
    exact step_keepsW _ op o n w (by rw [hnone]; simp) h

/-- FULL STATEMENT, wires: in every history, after ANY call (raised or not) the wire found under (parent, name) is still
    the one found there — the only entry that ever goes away is the old entry of the wire that a rename / reparent was
    SUCCESSFULLY applied to -/
theorem wire_entry_stable (ops : List Op) (op : Op) (o : Nat) (n : String) (w : Nat)
    (h : wireOf (run {} ops) o n = some w)
    (hne : op.movedWire ≠ some w ∨ ∃ e, (step (run {} ops) op).2 = .error e) :
    wireOf (step (run {} ops) op).1 o n = some w := by
  have hreg := AllReg_run ops {} Shape_empty AllReg_empty
  by_cases hm : op.isMove = true
  · rcases hne with hne | ⟨e, hr⟩
    · apply step_keepsW _ op o n w _ h
      intro e
      -- the key that is deleted belongs to the moved wire itself (every wire is registered), so it is not w's
      cases op with
      | rename x _ | reparent x _ | reparentAndRename x _ _ =>
        simp only [Op.moved, movedKey] at e
        cases hx : (run {} ops).wires[x]? with
        | none => simp [hx] at e
        | some xr =>
          simp only [hx, Option.map_some, Option.some.injEq, Prod.mk.injEq] at e
          have := hreg x xr hx
          rw [← e.1, ← e.2, h] at this
          cases this
          exact hne rfl
      | _ => simp [Op.isMove] at hm
    · rw [move_rejected_unchanged ops op hm e hr]; exact h
  · have hnone : op.moved (run {} ops) = none := by
      cases op <;> simp [Op.isMove] at hm <;> rfl
    exact step_keepsW _ op o n w (by rw [hnone]; simp) h

/-- every wire of every history is registered in its parent's `_wires` under its own name (no orphans) -/
theorem all_wires_registered (ops : List Op) (w : Nat) (wr : Wire) (hw : (run {} ops).wires[w]? = some wr) :
    wireOf (run {} ops) wr.parent wr.name = some w :=
  AllReg_run ops {} Shape_empty AllReg_empty w wr hw

/-- over whole histories -/
theorem source_stable_run (ops : List Op) (hd : ∀ op ∈ ops, op.isDisconnect = false) (g : G) (w p : Nat)
    (h : srcOf g w = some p) : srcOf (run g ops) w = some p := by
  induction ops generalizing g with
  | nil => exact h
  | cons op t ih =>
    simp only [run, List.foldl_cons]
    exact ih (fun o ho => hd o (List.mem_cons_of_mem _ ho)) _ (source_stable g op (hd op (List.mem_cons_self)) w p h)

theorem child_stable_run (ops : List Op) (g : G) (o : Nat) (n : String) (c : Nat)
    (h : childOf g o n = some c) : childOf (run g ops) o n = some c := by
  induction ops generalizing g with
  | nil => exact h
  | cons op t ih => simp only [run, List.foldl_cons]; exact ih _ (child_stable g op o n c h)

def gWit : G := run {} [.newLogic none "top" false, .wire 0 "a" false, .wire 0 "b" false]

/-- the repaired behaviour on the witness of the (fixed) finding C11-rename-nonatomic: `b.rename('a')` raises and the
    graph is untouched; the retry `b.rename('c')` renames b and `a` stays -/
theorem rename_conflict_keeps_graph :
    step gWit (.rename 1 "a") = (gWit, .error .dupWire) ∧
    wireOf (step gWit (.rename 1 "c")).1 0 "a" = some 0 ∧ wireOf (step gWit (.rename 1 "c")).1 0 "c" = some 1 ∧
    wireOf (step gWit (.rename 1 "c")).1 0 "b" = none ∧ isOk (step gWit (.rename 1 "b")).2 = true := by
  decide

/-- HISTORICAL, about `renameOld` = the method body BEFORE commit c407a05 (finding C11-rename-nonatomic, now fixed):
    the rejected `b.rename('a')` dropped `b` from `top._wires` … -/
theorem renameOld_conflict_drops_wire :
    isOk (renameOld gWit 1 "a").2 = false ∧ wireOf gWit 0 "b" = some 1 ∧
    wireOf (renameOld gWit 1 "a").1 0 "b" = none ∧ wireOf (renameOld gWit 1 "a").1 0 "a" = some 0 := by
  decide

/-- … and the retry `b.rename('c')` SUCCEEDED and evicted the earlier wire `a` -/
theorem renameOld_retry_evicts_earlier :
    let g1 := (renameOld gWit 1 "a").1
    isOk (renameOld g1 1 "c").2 = true ∧ wireOf g1 0 "a" = some 0 ∧
    wireOf (renameOld g1 1 "c").1 0 "a" = none ∧ wireOf (renameOld g1 1 "c").1 0 "c" = some 1 := by
  decide

/-- `sys.wire('d_1'); sys.wires('d', 3)` raises at `d_1`, `d_0` was created, `d_1` is still the first wire;
    on a free prefix the helper creates the whole array -/
example :
    let g := run {} [.newLogic none "top" false, .wire 0 "d_1" false]
    (step g (.wires 0 "d" 3)).2 = .error .dupWire ∧ wireOf (step g (.wires 0 "d" 3)).1 0 "d_1" = some 0 ∧
    wireOf (step g (.wires 0 "d" 3)).1 0 "d_0" = some 1 ∧ wireOf (step g (.wires 0 "d" 3)).1 0 "d_2" = none ∧
    (step g (.wires 0 "e" 3)).2 = .ok () ∧ wireOf (step g (.wires 0 "e" 3)).1 0 "e_2" = some 3 ∧
    (step (step g (.wires 0 "e" 3)).1 (.wires 0 "e" 3)).2 = .error .dupWire := by
  decide

/-- non-vacuity of the rejection theorems: each conflict on a concrete history -/
example : step gWit (.newLogic (some 0) "x" true) ≠ (gWit, .error .dupChild) := by decide
example : childOf (run gWit [.newLogic (some 0) "x" true]) 0 "x" = some 1 := by decide
example : (step (run gWit [.newLogic (some 0) "x" true]) (.newLogic (some 0) "x" false)).2 = .error .dupChild := by decide
example : wireOf gWit 0 "a" = some 0 ∧ (step gWit (.wire 0 "a" true)).2 = .error .dupWire := by decide
example :
    let g := run gWit [.newLogic (some 0) "p" true, .addOut 1 "r" 0, .newLogic (some 0) "q" true]
    srcOf g 0 = some 0 ∧ (step g (.addOut 2 "r" 0)).2 = .error .dupSource ∧ srcOf (step g (.addOut 2 "r" 0)).1 0 = some 0 := by
  decide

/-! ## 3. Invariants of every construction history (from the empty graph, any calls, raised or not) -/

/-- two ports that registered as drivers of the same ordinary wire are the same port, and it is `wire.getSource()` -/
theorem single_source (ops : List Op) (w : Nat) (wr : Wire) (p q : Nat)
    (hw : (run {} ops).wires[w]? = some wr) (hb : wr.bidir = false)
    (hp : isDriver (run {} ops) p w = true) (hq : isDriver (run {} ops) q w = true) :
    p = q ∧ wr.source = some p := by
  have hss := SS_run ops {} SS_empty
  have key : ∀ r, isDriver (run {} ops) r w = true → wr.source = some r := by
    intro r hr
    unfold isDriver at hr
    cases hpt : (run {} ops).ports[r]? with
    | none => simp [hpt] at hr
    | some pt =>
      simp only [hpt, Bool.and_eq_true, Bool.or_eq_true, beq_iff_eq] at hr
      obtain ⟨⟨hk, hreg⟩, hwire⟩ := hr
      refine hss.one r pt w wr hpt ?_ hreg hwire hw hb
      intro e; rw [e] at hk; simp at hk
  have h1 := key p hp
  have h2 := key q hq
  rw [h1] at h2
  exact ⟨by cases h2; rfl, h1⟩

theorem length_le_one_of_all_eq {l : List Nat} (hn : l.Nodup) (a : Nat) (h : ∀ x ∈ l, x = a) : l.length ≤ 1 := by
  match l, hn, h with
  | [], _, _ => simp
  | [_], _, _ => simp
  | x :: y :: t, hn, h =>
    have hx := h x (by simp)
    have hy := h y (by simp)
    simp only [List.nodup_cons, List.mem_cons] at hn
    exact absurd (Or.inl (hx.trans hy.symm)) hn.1

/-- "an ordinary wire never ends up with two drivers": the list of registered driver ports has length ≤ 1 -/
theorem single_source_run (ops : List Op) (w : Nat) (wr : Wire)
    (hw : (run {} ops).wires[w]? = some wr) (hb : wr.bidir = false) : (drivers (run {} ops) w).length ≤ 1 := by
  unfold drivers
  have hn : ((List.range (run {} ops).ports.length).filter (fun pid => isDriver (run {} ops) pid w)).Nodup :=
    List.Nodup.sublist List.filter_sublist List.nodup_range
  cases hs : wr.source with
  | none =>
    have : ∀ x ∈ (List.range (run {} ops).ports.length).filter (fun pid => isDriver (run {} ops) pid w), x = 0 := by
      intro x hx
      have := (single_source ops w wr x x hw hb (List.mem_filter.1 hx).2 (List.mem_filter.1 hx).2).2
      rw [hs] at this; cases this
    exact length_le_one_of_all_eq hn 0 this
  | some s =>
    have : ∀ x ∈ (List.range (run {} ops).ports.length).filter (fun pid => isDriver (run {} ops) pid w), x = s := by
      intro x hx
      have := (single_source ops w wr x x hw hb (List.mem_filter.1 hx).2 (List.mem_filter.1 hx).2).2
      rw [hs] at this; cases this; rfl
    exact length_le_one_of_all_eq hn s this

/-- a parent never has two children of one name: keys are unique, and the child found under a name carries that name
    and that parent -/
theorem unique_child_names (ops : List Op) (o : Nat) (ob : Obj) (ho : (run {} ops).objs[o]? = some ob) :
    (dkeys ob.children).Nodup ∧
    ∀ n c, dget ob.children n = some c → ∃ cb, (run {} ops).objs[c]? = some cb ∧ cb.parent = some o ∧ cb.name = n :=
  ⟨(Shape_run ops {} Shape_empty).ckeys o ob ho, fun n c h => (Shape_run ops {} Shape_empty).ccons o ob n c ho h⟩

/-- a parent never registers two wires of one name: keys of `_wires` are unique and two different registered wires have
    different names -/
theorem unique_wire_names (ops : List Op) (o : Nat) (ob : Obj) (ho : (run {} ops).objs[o]? = some ob) :
    (dkeys ob.wires).Nodup ∧
    ∀ n1 n2 w1 w2, dget ob.wires n1 = some w1 → dget ob.wires n2 = some w2 → w1 ≠ w2 → n1 ≠ n2 := by
  refine ⟨(Shape_run ops {} Shape_empty).wkeys o ob ho, ?_⟩
  intro n1 n2 w1 w2 h1 h2 hne e
  subst e; rw [h1] at h2; cases h2; exact hne rfl

/-- … and every registered wire carries the parent and the name it is registered under (so the names of the registered
    wire OBJECTS of one parent are pairwise different, not only the dictionary keys) -/
theorem wires_consistent_run (ops : List Op) (o : Nat) (ob : Obj) (n : String) (w : Nat)
    (ho : (run {} ops).objs[o]? = some ob) (h : dget ob.wires n = some w) :
    ∃ wr, (run {} ops).wires[w]? = some wr ∧ wr.parent = o ∧ wr.name = n :=
  (Shape_run ops {} Shape_empty).wcons o ob n w ho h

/-! ## 4. checkIntegrity raises exactly when some port is attached to a wire that no block drives -/

/-- the recursion bound of the model is never hit on a constructed graph (children are younger than parents) -/
theorem fuel_enough (ops : List Op) (o : Nat) (ho : o < (run {} ops).objs.length) :
    checkIntegrity (run {} ops).objs.length (run {} ops) o ≠ .error .fuel :=
  checkIntegrity_not_fuel (Shape_run ops {} Shape_empty) _ o ho (by omega)

/-- executable form (the oracle `specRaises` is what the harness evaluates on the real hierarchies):
    for every history of ordinary calls, checkIntegrity succeeds iff `specRaises` is false -/
theorem checkIntegrity_eq_spec (ops : List Op) (hord : ∀ op ∈ ops, op.ordinary = true) (o : Nat) :
    isOk (checkIntegrity (run {} ops).objs.length (run {} ops) o) = !specRaises (run {} ops) o :=
  checkIntegrity_eq_undriven (WF_run ops hord {} WF_empty) _ o

theorem isOk_false_iff (r : Res) : isOk r = false ↔ ∃ e, r = .error e := by
  cases r with
  | ok u => simp
  | error e => simp

/-- C11, second sentence, both directions: on every netlist built by ordinary calls (any order of wire creation,
    instantiation, port registration incl. InOut ports, renaming, re-parenting, interfaces; also calls that raised), for every object `o`,
    `checkIntegrity(o)` raises  ⇔  some in/out port of `o` or of a descendant is attached to a wire whose source is None. -/
theorem checkIntegrity_iff (ops : List Op) (hord : ∀ op ∈ ops, op.ordinary = true) (o : Nat)
    (ho : o < (run {} ops).objs.length) :
    (∃ e, checkIntegrity (run {} ops).objs.length (run {} ops) o = .error e) ↔
    ∃ (o' : Nat) (ob : Obj) (pid : Nat), Below (run {} ops) o o' ∧ (run {} ops).objs[o']? = some ob ∧
      (pid ∈ ob.inPorts ∨ pid ∈ ob.outPorts) ∧ undriven (run {} ops) pid = true := by
  rw [← isOk_false_iff, checkIntegrity_eq_spec ops hord o]
  unfold specRaises
  have := anyBelow_iff (Shape_run ops {} Shape_empty) (undriven (run {} ops)) (undriven (run {} ops))
    (run {} ops).objs.length o ho (by omega)
  constructor
  · intro h
    have h' : anyBelow (run {} ops).objs.length (run {} ops) o (undriven (run {} ops)) (undriven (run {} ops)) = true := by
      simpa using h
    obtain ⟨o', ob, pid, hb, h1, h2⟩ := this.1 h'
    rcases h2 with ⟨hm, hp⟩ | ⟨hm, hp⟩
    · exact ⟨o', ob, pid, hb, h1, Or.inl hm, hp⟩
    · exact ⟨o', ob, pid, hb, h1, Or.inr hm, hp⟩
  · intro ⟨o', ob, pid, hb, h1, hm, hp⟩
    have : anyBelow (run {} ops).objs.length (run {} ops) o (undriven (run {} ops)) (undriven (run {} ops)) = true := by
      apply this.2
      rcases hm with hm | hm
      · exact ⟨o', ob, pid, hb, h1, Or.inl ⟨hm, hp⟩⟩
      · exact ⟨o', ob, pid, hb, h1, Or.inr ⟨hm, hp⟩⟩
    simp [this]

/-- acceptance clause: a hierarchy in which all port wires are driven is accepted -/
theorem all_driven_accepted (ops : List Op) (hord : ∀ op ∈ ops, op.ordinary = true) (o : Nat)
    (ho : o < (run {} ops).objs.length)
    (hall : ∀ (o' : Nat) (ob : Obj) (pid : Nat), Below (run {} ops) o o' → (run {} ops).objs[o']? = some ob →
      (pid ∈ ob.inPorts ∨ pid ∈ ob.outPorts) → undriven (run {} ops) pid = false) :
    checkIntegrity (run {} ops).objs.length (run {} ops) o = .ok () := by
  cases h : checkIntegrity (run {} ops).objs.length (run {} ops) o with
  | ok u => rfl
  | error e =>
    obtain ⟨o', ob, pid, hb, h1, hm, hp⟩ := (checkIntegrity_iff ops hord o ho).1 ⟨e, h⟩
    rw [hall o' ob pid hb h1 hm] at hp; cases hp

/-- rejection clause: one port anywhere below attached to an undriven wire and the check raises -/
theorem undriven_rejected (ops : List Op) (hord : ∀ op ∈ ops, op.ordinary = true) (o : Nat)
    (ho : o < (run {} ops).objs.length) (o' : Nat) (ob : Obj) (pid : Nat) (hb : Below (run {} ops) o o')
    (h1 : (run {} ops).objs[o']? = some ob) (hm : pid ∈ ob.inPorts ∨ pid ∈ ob.outPorts)
    (hp : undriven (run {} ops) pid = true) :
    ∃ e, checkIntegrity (run {} ops).objs.length (run {} ops) o = .error e :=
  (checkIntegrity_iff ops hord o ho).2 ⟨o', ob, pid, hb, h1, hm, hp⟩

/-- for EVERY graph (reachable or not, BidirWires, InOut ports, disconnected ports included): checkIntegrity succeeds iff
    no in port below fails `checkInPort` and no out port below fails `checkOutPort` (this is what the `_iff` above
    specialises; outside the ordinary calls the per-port tests can fail for other reasons, see the counterexample) -/
theorem checkIntegrity_eq_any_port (fuel : Nat) (g : G) (o : Nat) :
    isOk (checkIntegrity fuel g o) = !anyBelow fuel g o (inBad g) (outBad g) := checkIntegrity_eq_any fuel g o

/- What `Op.ordinary` still excludes, and why (the statement is about ORDINARY wires): BidirWire creation and
   `disconnectWireFromLogicObject`.  `addInOut` is included since commit 2aca8d4 (checkPort also looks in inOutPorts);
   before it, an ordinary wire driven through an InOutPort of a primitive made checkIntegrity raise 'not port of parent' on a
   fully driven hierarchy (finding C11-inout-source-checkport, fixed). -/
def hInOut : List Op :=
  [.newLogic none "top" false, .wire 0 "a" false, .newLogic (some 0) "p" true, .addInOut 1 "io" 0,
   .newLogic (some 0) "q" true, .addIn 2 "a" 0]

/-- the former witness of C11-inout-source-checkport: wire `a` is driven by the InOutPort of primitive `p`, every port wire is
    driven, the history is ordinary — and checkIntegrity now accepts it -/
theorem inout_source_accepted :
    (∀ op ∈ hInOut, op.ordinary = true) ∧ specRaises (run {} hInOut) 0 = false ∧ srcOf (run {} hInOut) 0 = some 0 ∧
    checkIntegrity (run {} hInOut).objs.length (run {} hInOut) 0 = .ok () := by
  decide

/-- the remaining exclusions are necessary: an in port on a BidirWire makes checkIntegrity raise AttributeError
    (`BidirWire.getSource` reads a missing attribute) although the BidirWire has a registered driver … -/
theorem bidir_port_raises_attr :
    let g := run {} [.newLogic none "top" false, .wire 0 "b" true, .newLogic (some 0) "p" true, .addInOut 1 "io" 0,
                     .newLogic (some 0) "q" true, .addIn 2 "a" 0]
    (g.wires[0]?).map (·.sources) = some [0] ∧ checkIntegrity g.objs.length g 0 = .error .attr := by
  decide

/-- … and so does a port whose wire was removed by `disconnectWireFromLogicObject` (`None.getSinks()`) -/
theorem disconnected_port_raises_attr :
    let g := run {} [.newLogic none "top" false, .wire 0 "a" false, .newLogic (some 0) "p" true, .addOut 1 "r" 0,
                     .disconnect 0 1]
    specRaises g 0 = false ∧ checkIntegrity g.objs.length g 0 = .error .attr := by
  decide

/-! non-vacuity of section 3/4 on a hierarchical netlist: top{ c{ g1: a,b -> r }, k1 -> a } with b undriven, then driven -/
def hEx : List Op :=
  [.newLogic none "top" false, .wire 0 "a" false, .wire 0 "b" false, .wire 0 "r" false,
   .newLogic (some 0) "c" false, .addIn 1 "a" 0, .addIn 1 "b" 1, .addOut 1 "r" 2,
   .newLogic (some 1) "g1" true, .addIn 2 "a" 0, .addIn 2 "b" 1, .addOut 2 "r" 2,
   .newLogic (some 0) "k1" true, .addOut 3 "r" 0,
   .newLogic (some 0) "k1" true,                 -- raises: duplicate child
   .newLogic (some 0) "dup" true, .addOut 4 "r" 2, -- raises: second driver (half-built child `dup` stays)
   .rename 1 "x"]

example : ∀ op ∈ hEx, op.ordinary = true := by decide
example : outcomes {} hEx = [.ok (), .ok (), .ok (), .ok (), .ok (), .ok (), .ok (), .ok (), .ok (), .ok (), .ok (), .ok (),
    .ok (), .ok (), .error .dupChild, .ok (), .error .dupSource, .ok ()] := by decide
example : checkIntegrity (run {} hEx).objs.length (run {} hEx) 0 = .error (.noSource 1 1) ∧ specRaises (run {} hEx) 0 = true := by
  decide
example : checkIntegrity (run {} (hEx ++ [.newLogic (some 0) "k2" true, .addOut 5 "r" 1])).objs.length
    (run {} (hEx ++ [.newLogic (some 0) "k2" true, .addOut 5 "r" 1])) 0 = .ok () := by decide
example : drivers (run {} hEx) 2 = [5] ∧ srcOf (run {} hEx) 2 = some 5 ∧ isDriver (run {} hEx) 5 2 = true ∧
    isDriver (run {} hEx) 2 2 = false := by decide

end C11
